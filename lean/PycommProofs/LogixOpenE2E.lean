/-
  C05 end to end: `LogixDriver.open()` itself — `CIPDriver.open` (RegisterSession), `_list_identity`, `get_plc_info`,
  `get_plc_name` behind the Forward Open of `with_forward_open` (large, or standard with size 500 when the target refuses
  the large one), `get_tag_list('*' | None)` — from a FRESH driver in front of the reference target, for every page
  schedule and template fragment schedule of the controller; the Micro800 variant; schedule independence; and the
  property's own words about `tags`: exactly the user-visible symbols, none missing, duplicated or invented, each
  with the controller's data type, dimensions, instance id, external access and alias flag.

  Layers (lemmas usable on their own):
    LOpenE1  `loe_openDrv` (RegisterSession as an equation on the world), `loe_direct_bytes` (UCMM request + route bytes, any fuel)
    LOpenE2  `loe_tgt_fo` (the connection manager), `loe_FoOutcome`, `loe_fo_finish`
    LOpenE3  `loe_forwardOpen_eq`, `loe_forwardOpen`, `loe_ensureFO_eq`, `loe_ensureFO` (the decorator, large → standard fallback)
    LOpenE4  `loe_getPlcName`, `loe_decode_string`, `loe_revisionMajor`
    LOpenE5  `loe_infoOf` / `loe_metasOf`, `loe_programScopes`, `loe_getTagList` (both settings of `init_program_tags`, with `_info`)
    LOpenE6  `loe_initialize_logix` / `loe_initialize_micro`, `loe_identify`, `loe_getPlcName_via` / `loe_getTagList_via`
    LOpenE7  `loe_Fresh`, `loe_Route`, `loe_Project`, `loe_open_logix`, `loe_open_micro`
    LOpenE8  `keepSymbol_*`, `loe_visible`, `loe_tagDbOf_list`, `loe_createTag_fields`, `loe_metaAll_fields`
-/
import PycommProofs.LOpenE7
import PycommProofs.LOpenE8
namespace Pycomm.Lgx.Opn
open Pycomm Pycomm.Tgt Pycomm.Path Pycomm.Reply Pycomm.Encap Pycomm.Cli Pycomm.Ident Pycomm.EP Pycomm.Lgx.Drv

/-! ### `_info`: what the upload leaves alone, and the keys of `programs` -/

theorem loe_name_noteSymbol (program : Option Name) (info : Info) (r : Up.Rec) :
    (noteSymbol program info r).name = info.name := by
  unfold noteSymbol
  dsimp only
  split
  · rfl
  · split
    · split <;> rfl
    · split
      · rfl
      · split
        · rfl
        · split <;> rfl

theorem loe_noteScope_plc_name (program : Option Name) (syms : List Symbol) : ∀ info,
    (loe_noteScope program syms info).plc = info.plc ∧ (loe_noteScope program syms info).name = info.name := by
  unfold loe_noteScope
  induction syms with
  | nil => intro _; exact ⟨rfl, rfl⟩
  | cons s syms ih =>
    intro info
    rw [List.foldl_cons]
    obtain ⟨h1, h2⟩ := ih (noteSymbol program info (Up.recOfSymbol false s))
    exact ⟨h1.trans (lon_plc_noteSymbol _ _ _), h2.trans (loe_name_noteSymbol _ _ _)⟩

/-- the upload keeps what `get_plc_info` / `get_plc_name` stored: the identity dictionary and the program name -/
theorem loe_infoOf_plc_name (p : Project) (b : Bool) (info0 : Info) :
    (loe_infoOf p b info0).plc = info0.plc ∧ (loe_infoOf p b info0).name = info0.name := by
  unfold loe_infoOf
  dsimp only
  have h1 := loe_noteScope_plc_name none p.controller { info0 with programs := some [], tasks := some [], modules := some [] }
  cases b with
  | false => exact h1
  | true =>
    simp only [if_true]
    have : ∀ (pns : List Name) (i : Info),
        (pns.foldl (fun i pn => loe_noteScope (some pn) (lon_progSyms p pn) i) i).plc = i.plc ∧
        (pns.foldl (fun i pn => loe_noteScope (some pn) (lon_progSyms p pn) i) i).name = i.name := by
      intro pns
      induction pns with
      | nil => intro i; exact ⟨rfl, rfl⟩
      | cons pn pns ih =>
        intro i
        rw [List.foldl_cons]
        obtain ⟨a1, a2⟩ := ih (loe_noteScope (some pn) (lon_progSyms p pn) i)
        obtain ⟨b1, b2⟩ := loe_noteScope_plc_name (some pn) (lon_progSyms p pn) i
        exact ⟨a1.trans b1, a2.trans b2⟩
    obtain ⟨a1, a2⟩ := this (programNames p) _
    exact ⟨a1.trans h1.1, a2.trans h1.2⟩

/-! ### the project as far as the upload looks at it -/

/-- two projects that differ at most in how the controller paginates / fragments (and in the write log) -/
structure loe_SameProject (p q : Project) : Prop where
  templates : q.templates = p.templates
  controller : q.controller = p.controller
  programs : q.programs = p.programs

theorem loe_dataTypeOf_congr (p q : Project) (h : loe_SameProject p q) : ∀ k t, dataTypeOf q k t = dataTypeOf p k t := by
  have htq : ∀ t, q.template? t = p.template? t := by
    intro t; unfold Project.template?; rw [h.templates]
  intro k
  induction k with
  | zero => intro t; rfl
  | succ k ih =>
    intro t
    rw [dataTypeOf, dataTypeOf, htq]
    have : dataTypeOf q k = dataTypeOf p k := funext ih
    rw [this]

theorem loe_createTag_congr (p q : Project) (h : loe_SameProject p q) (s : Symbol) : Drv.createTag q s = Drv.createTag p s := by
  have hfun : dataTypeOf q = dataTypeOf p := funext fun k => funext (loe_dataTypeOf_congr p q h k)
  unfold Drv.createTag
  rw [h.templates, hfun]

theorem loe_userTags_congr (p q : Project) (h : loe_SameProject p q) (pfx : Name) (syms : List Symbol) :
    userTags q pfx syms = userTags p pfx syms := by
  unfold userTags
  have : (fun s => (Drv.createTag q s).map fun i => (pfx ++ s.name, i)) = fun s => (Drv.createTag p s).map fun i => (pfx ++ s.name, i) := by
    funext s; rw [loe_createTag_congr p q h]
  rw [this]

/-- the reference tag database, the metadata and `_info` do not look at the schedules -/
theorem loe_refs_congr (p q : Project) (h : loe_SameProject p q) (b wa : Bool) (info0 : Info) :
    tagDbOf q b = tagDbOf p b ∧ loe_metasOf q wa b = loe_metasOf p wa b ∧ loe_infoOf q b info0 = loe_infoOf p b info0 := by
  have hpn : programNames q = programNames p := by unfold programNames; rw [h.controller]
  have hps : ∀ pn, lon_progSyms q pn = lon_progSyms p pn := by intro pn; unfold lon_progSyms; rw [h.programs]
  refine ⟨?_, ?_, ?_⟩
  · unfold tagDbOf
    have hfun : userTags q = userTags p := funext fun pfx => funext (loe_userTags_congr p q h pfx)
    rw [hfun, h.controller, hpn, h.programs]
  · unfold loe_metasOf
    rw [h.controller, hpn]
    simp only [hps]
  · unfold loe_infoOf
    rw [h.controller, hpn]
    simp only [hps]

/-! ### `metas` -/

theorem loe_assocSet_sub {α} (acc : List (Name × α)) (k : Name) (v : α) (y : Name × α) (h : y ∈ assocSet acc k v) :
    y ∈ acc ∨ y = (k, v) := by
  unfold assocSet at h
  split at h
  · obtain ⟨z, hz, rfl⟩ := List.mem_map.1 h
    split
    · exact Or.inr rfl
    · exact Or.inl hz
  · rcases List.mem_append.1 h with h | h
    · exact Or.inl h
    · exact Or.inr (by simpa using h)

theorem loe_metas_foldl_sub (y : Name × TagMeta) : ∀ (xs acc : List (Name × TagMeta)),
    y ∈ xs.foldl (fun acc x => assocSet acc x.1 x.2) acc → y ∈ acc ∨ y ∈ xs := by
  intro xs
  induction xs with
  | nil => intro acc h; exact Or.inl h
  | cons x xs ih =>
    intro acc h
    rw [List.foldl_cons] at h
    rcases ih _ h with h1 | h1
    · rcases loe_assocSet_sub acc x.1 x.2 y h1 with h2 | h2
      · exact Or.inl h2
      · exact Or.inr (by rw [h2]; exact List.mem_cons_self)
    · exact Or.inr (List.mem_cons_of_mem _ h1)

/-- every entry of the `metas` dict is an entry of the list it was built from -/
theorem loe_metasOfList_sub (xs : List (Name × TagMeta)) (y : Name × TagMeta) (h : y ∈ metasOfList xs) : y ∈ xs := by
  rcases loe_metas_foldl_sub y xs [] h with h | h
  · cases h
  · exact h

theorem loe_metasOfScope_mem (wa : Bool) (program : Option Name) (syms : List Symbol) (y : Name × TagMeta)
    (h : y ∈ lon_metasOfScope wa program syms) :
    ∃ s, (y.1, s) ∈ loe_visibleScope (lon_scopePfx program) syms ∧ y.2 = lo_metaAll wa s := by
  unfold lon_metasOfScope at h
  obtain ⟨s, hs, rfl⟩ := List.mem_map.1 h
  exact ⟨s, List.mem_map.2 ⟨s, hs, rfl⟩, rfl⟩

/-- the keys of `_info["programs"]` after the upload are the program names of the controller scope -/
theorem loe_infoOf_keys (p : Project) (b : Bool) (info0 : Info)
    (hnames : ∀ s ∈ p.controller, PyStr.startsWith (Opn.nm "Program:") s.name = true → (58 : Nat) ∉ s.name.drop 8)
    (hnoprog : b = true → ∀ pn ∈ programNames p, ∀ s ∈ lon_progSyms p pn,
      PyStr.startsWith (Opn.nm "Program:") s.name = false) :
    lon_keys (loe_infoOf p b info0) = programNames p := by
  have h1 : lon_keys (loe_noteScope none p.controller
      { info0 with programs := some [], tasks := some [], modules := some [] }) = programNames p := by
    unfold loe_noteScope
    rw [lon_keys_fold_controller]
    show List.foldl lon_ins [] _ = _
    rw [lon_ins_foldl_nil]
    unfold programNames
    congr 1
    apply List.map_congr_left
    intro s hs
    obtain ⟨hsm, hsp⟩ := List.mem_filter.1 hs
    exact lon_pyRemove_program s.name hsp (hnames s hsm hsp)
  unfold loe_infoOf
  dsimp only
  cases b with
  | false => exact h1
  | true =>
    simp only [if_true]
    have : ∀ (pns : List Name) (i : Info), (∀ pn ∈ pns, pn ∈ programNames p) →
        lon_keys (pns.foldl (fun i pn => loe_noteScope (some pn) (lon_progSyms p pn) i) i) = lon_keys i := by
      intro pns
      induction pns with
      | nil => intro i _; rfl
      | cons pn pns ih =>
        intro i hsub
        rw [List.foldl_cons, ih _ (fun x hx => hsub x (List.mem_cons_of_mem _ hx))]
        unfold loe_noteScope
        exact lon_keys_fold_other (some pn) false _ (hnoprog rfl pn (hsub pn List.mem_cons_self)) i
    rw [this (programNames p) _ (fun _ h => h)]
    exact h1

-- PROPERTY THEOREMS

/-- C05 end to end, `LogixDriver(path, init_tags=True, init_program_tags=b).open()` on a FRESH driver (`loe_Fresh`: no
    socket, no session, every attribute at its default apart from the route; transport without faults) in front of a
    reference target that holds no session and no connection, accepts sessions and at least one Forward Open service,
    holds the project `st.proj` and an identity whose product name does not start with "2080" (not a Micro800).

    Conclusion: `open()` returns True.  Afterwards
    * `_tags` is exactly `Drv.tagDbOf project b` — the user-visible controller-scoped and (for `b`) program-scoped tags
      (see `tags_exactly_user_visible`), for EVERY page schedule and EVERY template fragment schedule of the controller
      (`st.proj.pageSchedule`, `st.proj.tmplSchedule`, `st.ctr` are arbitrary);
    * the remaining fields of the tag definitions (`metas`) are `loe_metasOf`: alias flag, instance id, addresses,
      external access (requested iff the identity's major revision is ≥ 18);
    * `_info` is the identity dictionary of `get_plc_info` (seven identity keys + `keyswitch`), `name` = the controller's
      program name, and `programs` (each with its routines) / `tasks` / `modules` as the uploaded symbols dictate
      (`loe_infoOf`, `info_after_open`);
    * `_micro800 = False`, `use_instance_ids` = (major revision ≥ 21);
    * the driver is connected and healthy (`ldr_Healthy`: socket, the session handle the target granted, the
      connection id of the Forward Open reply, which the target holds for that session; nothing pending): the LARGE
      Forward Open with connection size 4000 when the target accepts it, otherwise — after the refused attempt — the
      standard one with size 500 (`extended_forward_open = False`, `connection_size = 500` in the driver);
    * of the target's Logix state only the schedule counter moved.

    Hypotheses:
    * `hroute`  the configured route encodes, both as an Unconnected Send route and as a Forward Open connection path
                (`loe_Route`; `loe_Route_nil`: no route, `ExE.route10`: backplane slot 0);
    * `hrnd`    `urandom` delivers 8 bytes;
    * `hid`, `hname`  identity fields and program name fit their wire fields;
    * `hrev`    the controller serves the external-access attribute when its identity says firmware ≥ 18;
    * `hp`      the project is well-formed in the sense of `open_tags_program_scopes` (`loe_Project`);
    * `hdb`     `Drv.tagDbOf` is defined (every kept symbol has a type the model knows). -/
theorem open_logix_e2e (w : Cli.World Ext) (st : LState) (b : Bool) (rnd : Bytes) (db : TagDb)
    (hf : loe_Fresh w) (hroute : loe_Route w.drv.cipPath) (hrnd : rnd.length = 8)
    (hid : IdOk w.net.target.base.identity)
    (hnm : PyStr.startsWith Gen.MICRO800_PREFIX (w.net.target.base.identity.name.map (·.toNat)) = false)
    (hname : w.net.target.base.plcName.length < 65536)
    (hlogix : w.net.target.ext.logix = some st)
    (hrev : 18 ≤ w.net.target.base.identity.major → 18 ≤ st.rev)
    (hp : loe_Project st b) (hdb : tagDbOf st.proj b = some db) :
    ∃ w' l' conn c,
      openLogixSt hookAll { initTags := true, initProgramTags := b } w {} rnd = (w', l', .ok true) ∧
      l'.tags = db ∧
      l'.metas = loe_metasOf st.proj (decide (w.net.target.base.identity.major ≥ Gen.MIN_VER_EXTERNAL_ACCESS)) b ∧
      l'.info = loe_infoOf st.proj b { plc := ide_presentInfo w.net.target.base.identity,
                                       name := some (w.net.target.base.plcName.map (·.toNat)) } ∧
      l'.micro800 = false ∧ l'.useInstanceIds = Drv.useInstanceIdsOf w.net.target.base.identity.major false ∧
      l'.cacheLeft = false ∧
      ldr_Healthy w' w.net.target.base.nextSession (le 4 w.net.target.base.nextCid) conn ∧
      conn.size = (if w.net.target.base.policy.largeFoOk then 4000 else 500) ∧
      lo_SameDrv (loe_drvAfter w.drv rnd w.net.target.base.nextSession (le 4 w.net.target.base.nextCid)
        w.net.target.base.policy.largeFoOk) w'.drv ∧
      w'.net.target.ext.logix = some { st with ctr := c } ∧
      (∃ frms, w'.net.sent = w.net.sent ++ frms) :=
  loe_open_logix w st b rnd db hf hroute hrnd hid hnm hname hlogix hrev hp hdb

/-- C05 end to end, the Micro800 variant (product name starts with "2080").  What the model does, and the theorem
    states: `get_plc_info` is sent directly (not through an Unconnected Send), `get_plc_name` is NOT called (`_info` has
    no `name`), the trailing port segment of the route is dropped (`popPortSegment`, the new route must be usable:
    `hroute'`) BEFORE the first Forward Open — which only `get_tag_list` triggers, so the connection path is the
    shortened route —, `_micro800 = True`, `use_instance_ids = False`.  Tags, metadata, `_info`, health and Forward Open
    variant as in `open_logix_e2e`. -/
theorem open_logix_micro800_e2e (w : Cli.World Ext) (st : LState) (b : Bool) (rnd : Bytes) (db : TagDb)
    (hf : loe_Fresh w) (hroute : loe_Route w.drv.cipPath) (hroute' : loe_Route (popPortSegment w.drv.cipPath))
    (hrnd : rnd.length = 8) (hid : IdOk w.net.target.base.identity)
    (hnm : PyStr.startsWith Gen.MICRO800_PREFIX (w.net.target.base.identity.name.map (·.toNat)) = true)
    (hlogix : w.net.target.ext.logix = some st)
    (hrev : 18 ≤ w.net.target.base.identity.major → 18 ≤ st.rev)
    (hp : loe_Project st b) (hdb : tagDbOf st.proj b = some db) :
    ∃ w' l' conn c,
      openLogixSt hookAll { initTags := true, initProgramTags := b } w {} rnd = (w', l', .ok true) ∧
      l'.tags = db ∧
      l'.metas = loe_metasOf st.proj (decide (w.net.target.base.identity.major ≥ Gen.MIN_VER_EXTERNAL_ACCESS)) b ∧
      l'.info = loe_infoOf st.proj b { plc := ide_presentInfo w.net.target.base.identity, name := none } ∧
      l'.micro800 = true ∧ l'.useInstanceIds = false ∧ l'.cacheLeft = false ∧
      ldr_Healthy w' w.net.target.base.nextSession (le 4 w.net.target.base.nextCid) conn ∧
      conn.size = (if w.net.target.base.policy.largeFoOk then 4000 else 500) ∧
      lo_SameDrv { loe_drvAfter w.drv rnd w.net.target.base.nextSession (le 4 w.net.target.base.nextCid)
                     w.net.target.base.policy.largeFoOk with cipPath := popPortSegment w.drv.cipPath } w'.drv ∧
      w'.net.target.ext.logix = some { st with ctr := c } ∧
      (∃ frms, w'.net.sent = w.net.sent ++ frms) :=
  loe_open_micro w st b rnd db hf hroute hroute' hrnd hid hnm hlogix hrev hp hdb

/-- `_info` after `open()` keeps the identity dictionary and the program name; the upload only fills `programs`, `tasks`
    and `modules` -/
theorem info_after_open (p : Project) (b : Bool) (plc : List (Name × PyVal)) (name : Option Name) :
    (loe_infoOf p b { plc := plc, name := name }).plc = plc ∧ (loe_infoOf p b { plc := plc, name := name }).name = name :=
  loe_infoOf_plc_name p b { plc := plc, name := name }

/-- `_info["programs"]` after `open()` has exactly one entry per program of the controller, in the order of the
    `Program:` symbols (`Drv.programNames`): when program names are plain (no colon after the `Program:` prefix) and —
    with `init_program_tags` — no program scope lists a `Program:` symbol itself -/
theorem info_program_keys (p : Project) (b : Bool) (plc : List (Name × PyVal)) (name : Option Name)
    (hnames : ∀ s ∈ p.controller, PyStr.startsWith (Opn.nm "Program:") s.name = true → (58 : Nat) ∉ s.name.drop 8)
    (hnoprog : b = true → ∀ pn ∈ programNames p, ∀ s ∈ lon_progSyms p pn,
      PyStr.startsWith (Opn.nm "Program:") s.name = false) :
    ((loe_infoOf p b { plc := plc, name := name }).programs.getD []).map (·.1) = programNames p :=
  loe_infoOf_keys p b _ hnames hnoprog

/-- C05, the result of `open()` does not depend on how the controller paginates the symbol list or fragments the
    template reads: two fresh drivers (possibly with different session / connection counters, random bytes, Forward
    Open policies) in front of targets with the same identity and program name whose projects agree in templates,
    controller symbols and program symbols (`loe_SameProject`: page schedule, fragment schedules, schedule counter
    and write log are arbitrary) end up with the same `_tags`, the same metadata, the same `_info`, the same
    `_micro800` and `use_instance_ids`. -/
theorem open_schedule_independent (w1 w2 : Cli.World Ext) (st1 st2 : LState) (b : Bool) (rnd1 rnd2 : Bytes) (db : TagDb)
    (hf1 : loe_Fresh w1) (hf2 : loe_Fresh w2)
    (hroute1 : loe_Route w1.drv.cipPath) (hroute2 : loe_Route w2.drv.cipPath)
    (hrnd1 : rnd1.length = 8) (hrnd2 : rnd2.length = 8)
    (hsameId : w2.net.target.base.identity = w1.net.target.base.identity)
    (hsameName : w2.net.target.base.plcName = w1.net.target.base.plcName)
    (hsame : loe_SameProject st1.proj st2.proj)
    (hid : IdOk w1.net.target.base.identity)
    (hnm : PyStr.startsWith Gen.MICRO800_PREFIX (w1.net.target.base.identity.name.map (·.toNat)) = false)
    (hname : w1.net.target.base.plcName.length < 65536)
    (hlogix1 : w1.net.target.ext.logix = some st1) (hlogix2 : w2.net.target.ext.logix = some st2)
    (hrev1 : 18 ≤ w1.net.target.base.identity.major → 18 ≤ st1.rev)
    (hrev2 : 18 ≤ w1.net.target.base.identity.major → 18 ≤ st2.rev)
    (hp1 : loe_Project st1 b) (hp2 : loe_Project st2 b) (hdb : tagDbOf st1.proj b = some db) :
    ∃ w1' w2' l1 l2,
      openLogixSt hookAll { initTags := true, initProgramTags := b } w1 {} rnd1 = (w1', l1, .ok true) ∧
      openLogixSt hookAll { initTags := true, initProgramTags := b } w2 {} rnd2 = (w2', l2, .ok true) ∧
      l1.tags = db ∧ l2.tags = l1.tags ∧ l2.metas = l1.metas ∧ l2.info = l1.info ∧ l2.micro800 = l1.micro800 ∧
      l2.useInstanceIds = l1.useInstanceIds := by
  obtain ⟨e1, e2, e3⟩ := loe_refs_congr st1.proj st2.proj hsame b
    (decide (w1.net.target.base.identity.major ≥ Gen.MIN_VER_EXTERNAL_ACCESS))
    { plc := ide_presentInfo w1.net.target.base.identity, name := some (w1.net.target.base.plcName.map (·.toNat)) }
  obtain ⟨w1', l1, _, _, ho1, ht1, hm1, hi1, hmi1, hu1, _⟩ :=
    open_logix_e2e w1 st1 b rnd1 db hf1 hroute1 hrnd1 hid hnm hname hlogix1 hrev1 hp1 hdb
  obtain ⟨w2', l2, _, _, ho2, ht2, hm2, hi2, hmi2, hu2, _⟩ :=
    open_logix_e2e w2 st2 b rnd2 db hf2 hroute2 hrnd2 (by rw [hsameId]; exact hid) (by rw [hsameId]; exact hnm)
      (by rw [hsameName]; exact hname) hlogix2 (by rw [hsameId]; exact hrev2) hp2 (by rw [e1]; exact hdb)
  refine ⟨w1', w2', l1, l2, ho1, ho2, ht1, by rw [ht2, ht1], ?_, ?_, by rw [hmi2, hmi1], by rw [hu2, hu1, hsameId]⟩
  · rw [hm2, hm1, hsameId, e2]
  · rw [hi2, hi1, hsameId, hsameName, e3]

/-- C05 in the property's own words, about the tag database `open()` leaves (`l'.tags = db` with
    `tagDbOf project b = some db`, see `open_logix_e2e`).  `loe_visible project b` lists the user-visible symbols with
    their keys: a symbol `s` of the controller scope under `s.name`, a symbol of program `P` (when `b`) under
    `Program:P.<s.name>`, in both cases iff `K.keepSymbol s.name s.symbolType` — which drops `Program:` / `Routine:` /
    `Task:` symbols, names containing `Map:` / `Cxn:`, names starting with `__`, every other name with a colon, symbols
    with the system bit of the type word, and keeps ordinary tags and module I/O tags such as `Local:1:I`
    (`keepSymbol_program` … `keepSymbol_io`).
    * none missing, none invented: `k` is a key of `tags` iff `k` is the key of a user-visible symbol;
    * none duplicated: the keys are pairwise distinct;
    * every entry is what `_create_tag` makes of a user-visible symbol with that key: the symbol's dimensions,
      dimension count, instance id, and the controller's data type — the elementary type of the type code, or the
      structure definition `Drv.dataTypeOf` of the template (name, visible members, nested definitions);
    * when only one user-visible symbol has the key, the lookup returns the definition of exactly that symbol. -/
theorem tags_exactly_user_visible (p : Project) (b : Bool) (db : TagDb) (hdb : tagDbOf p b = some db) :
    (∀ k, (∃ i, (k, i) ∈ db) ↔ ∃ s, (k, s) ∈ loe_visible p b) ∧
    (db.map (·.1)).Nodup ∧
    (∀ k i, (k, i) ∈ db → ∃ s, (k, s) ∈ loe_visible p b ∧ Drv.createTag p s = some i ∧
      i.core.dimensions = (s.dims ++ [0, 0, 0]).take 3 ∧ i.core.dim = s.symbolType / 8192 % 4 ∧
      i.core.instanceId = some s.inst ∧
      (s.symbolType / 32768 % 2 = 0 → i.core.tagType = .atomic ∧
        ∃ t, atomicOfCode (s.symbolType % 256) = some (i.core.dataTypeName, t)) ∧
      (s.symbolType / 32768 % 2 = 1 → i.core.tagType = .struct ∧
        ∃ si t ms, dataTypeOf p (p.templates.length + 1) (s.symbolType % 4096) = some (si, t, ms) ∧
          i.core.dataTypeName = si.name ∧ i.core.struct = some si ∧ i.members = ms)) ∧
    (∀ k s, (k, s) ∈ loe_visible p b → (∀ s', (k, s') ∈ loe_visible p b → s' = s) →
      ∃ i, db.get? k = some i ∧ Drv.createTag p s = some i) := by
  obtain ⟨xs, hx, h1, h2, h3⟩ := loe_tagDbOf_list p b db hdb
  subst hx
  refine ⟨fun k => (loe_ofList_key_iff xs k).trans (h1 k), loe_ofList_keys_nodup xs, ?_, ?_⟩
  · intro k i hi
    rw [ldr_ofList_eq] at hi
    rcases ldr_foldl_sub xs [] _ hi with h | h
    · cases h
    · obtain ⟨s, hs, hc⟩ := h2 k i h
      exact ⟨s, hs, hc, loe_createTag_fields p s i hc⟩
  · intro k s hs hu
    obtain ⟨i, hi, hc⟩ := h3 k s hs
    refine ⟨i, ldr_ofList_get xs k i hi ?_, hc⟩
    intro j hj
    obtain ⟨s', hs', hc'⟩ := h2 k j hj
    rw [hu s' hs', hc] at hc'
    exact (Option.some.inj hc').symm

/-- which symbols are user-visible: the membership test behind `loe_visible` -/
theorem visible_iff (p : Project) (b : Bool) (k : Name) (s : Symbol) :
    (k, s) ∈ loe_visible p b ↔
      (s ∈ p.controller ∧ K.keepSymbol s.name s.symbolType = true ∧ k = s.name) ∨
      (b = true ∧ ∃ pn ∈ programNames p, s ∈ lon_progSyms p pn ∧ K.keepSymbol s.name s.symbolType = true ∧
        k = Drv.nm "Program:" ++ pn ++ [46] ++ s.name) := by
  have hscope : ∀ pfx syms, (k, s) ∈ loe_visibleScope pfx syms ↔
      (s ∈ syms ∧ K.keepSymbol s.name s.symbolType = true ∧ k = pfx ++ s.name) := by
    intro pfx syms
    unfold loe_visibleScope
    constructor
    · intro h
      obtain ⟨s', hs', e⟩ := List.mem_map.1 h
      simp only [Prod.mk.injEq] at e
      obtain ⟨e1, e2⟩ := e
      subst e2
      obtain ⟨hm, hk⟩ := List.mem_filter.1 hs'
      exact ⟨hm, hk, e1.symm⟩
    · rintro ⟨hm, hk, rfl⟩
      exact List.mem_map.2 ⟨s, List.mem_filter.2 ⟨hm, hk⟩, rfl⟩
  unfold loe_visible
  rw [List.mem_append, hscope]
  simp only [List.nil_append]
  cases b with
  | false => simp
  | true =>
    simp only [if_true, true_and]
    apply or_congr Iff.rfl
    constructor
    · intro h
      obtain ⟨vs, hvs, hsv⟩ := List.mem_flatten.1 h
      obtain ⟨pn, hpn, rfl⟩ := List.mem_map.1 hvs
      exact ⟨pn, hpn, (hscope _ _).1 hsv⟩
    · rintro ⟨pn, hpn, h⟩
      exact List.mem_flatten.2 ⟨_, List.mem_map.2 ⟨pn, hpn, rfl⟩, (hscope _ _).2 h⟩

/-- C05, `external_access` and `alias` per tag: every entry of the metadata `open()` leaves (`loe_metasOf`, with
    `wa` = "the identity's major revision is ≥ 18", see `open_logix_e2e`) belongs to a user-visible symbol with that key;
    its alias flag is set iff bit 26 of the symbol's software control word is clear, its instance id is the symbol's,
    and its external access is the text of the symbol's attribute (`Read/Write`, `Read Only`, `None`, else `Unknown`)
    for firmware ≥ 18 and `Unknown` — the attribute is not requested — for older firmware. -/
theorem metas_external_access_alias (p : Project) (wa b : Bool) (k : Name) (m : TagMeta)
    (h : (k, m) ∈ loe_metasOf p wa b) :
    ∃ s, (k, s) ∈ loe_visible p b ∧ m = lo_metaAll wa s ∧
      (m.alias = true ↔ s.attr6 / 2 ^ 26 % 2 = 0) ∧ m.instanceId = s.inst ∧ m.softwareControl = s.attr6 ∧
      m.externalAccess = (if wa then externalAccessText (some s.access) else Opn.nm "Unknown") := by
  unfold loe_metasOf at h
  have hm := loe_metasOfList_sub _ _ h
  have hfin : ∀ s, m = lo_metaAll wa s → (m.alias = true ↔ s.attr6 / 2 ^ 26 % 2 = 0) ∧ m.instanceId = s.inst ∧
      m.softwareControl = s.attr6 ∧
      m.externalAccess = (if wa then externalAccessText (some s.access) else Opn.nm "Unknown") := by
    intro s hs
    obtain ⟨a1, a2, a3, a4⟩ := loe_metaAll_fields wa s
    rw [hs]
    refine ⟨a1, a2, a4, ?_⟩
    rw [a3]
    cases wa <;> rfl
  rcases List.mem_append.1 hm with h1 | h1
  · obtain ⟨s, hs, he⟩ := loe_metasOfScope_mem wa none p.controller _ h1
    exact ⟨s, List.mem_append_left _ hs, he, hfin s he⟩
  · cases b with
    | false => simp at h1
    | true =>
      simp only [if_true] at h1
      obtain ⟨grp, hgrp, hg⟩ := List.mem_flatten.1 h1
      obtain ⟨pn, hpn, rfl⟩ := List.mem_map.1 hgrp
      obtain ⟨s, hs, he⟩ := loe_metasOfScope_mem wa (some pn) _ _ hg
      refine ⟨s, ?_, he, hfin s he⟩
      unfold loe_visible
      simp only [if_true]
      exact List.mem_append_right _ (List.mem_flatten.2 ⟨_, List.mem_map.2 ⟨pn, hpn, rfl⟩, hs⟩)

/-! ### non-vacuity: fresh worlds in front of a project with programs, routines, a task, a module I/O tag, map / system
    symbols, nested structures — every hypothesis discharged, the model run compared with the theorems' right-hand sides -/

namespace ExE
open ExN

def symTask : Symbol := { Ex.s1 with inst := 40, name := Opn.nm "Task:Fast", symbolType := 0x1070, mem := [] }
/-- a module I/O tag: kept although its name has colons -/
def symIo : Symbol := { Ex.s1 with inst := 41, name := Opn.nm "Local:1:I" }
def symMap : Symbol := { Ex.s1 with inst := 42, name := Opn.nm "Map:Local", symbolType := 0x1069, mem := [] }
def symSys : Symbol := { Ex.s1 with inst := 43, name := Opn.nm "__DEFVAL_01" }
/-- an alias (bit 26 of the software control word clear), external access 2 = Read Only -/
def symAli : Symbol := { Ex.s2 with inst := 44, name := Opn.nm "ali", attr6 := 0, access := 2 }

/-- controller scope: `abc`, two programs, `i1 : Inner`, a task, a module tag, a map symbol, a system symbol, an alias;
    `Program:Main`: `loc`, `pu : Outer`, `Routine:Main`; `Program:Aux`: `deep : Deep` -/
def projE (pages frags : List Nat) : Project :=
  { templates := [tOuter, tInner, tDeep],
    controller := [Ex.s1, symMain, symAux, i1, symTask, symIo, symMap, symSys, symAli],
    programs := [(Opn.nm "Program:Main", [pm1, pm2, pm3]), (Opn.nm "Program:Aux", [pa1])],
    pageSchedule := pages, tmplSchedule := frags }
def stateE (pages frags : List Nat) (rev : Nat) : LState := { proj := projE pages frags, rev := rev }

/-- a ControlLogix, firmware 32, program name "PLC1"; `large`: the target accepts the large Forward Open -/
def baseA (large : Bool) : Base :=
  { identity := Cli.IdEx.idA, plcName := [80, 76, 67, 49], policy := { largeFoOk := large },
    nextSession := 0x2002, nextCid := 0x00ABCDEF }
/-- an old controller: firmware 16 (no external-access attribute, no instance ids) -/
def idOld : Identity := { Cli.IdEx.idA with major := 16 }
def baseOld : Base := { identity := idOld, plcName := [79, 76, 68] }
/-- a Micro850 -/
def baseM : Base := { identity := Cli.IdEx.idM, plcName := [] }

/-- a fresh driver with route `path` in front of a fresh target -/
def world0 (b : Base) (st : LState) (path : List Seg) : Cli.World Ext :=
  { drv := { cipPath := path }, net := { target := { base := b, ext := { logix := some st } } } }

def rnd : Bytes := [1, 2, 3, 4, 5, 6, 7, 8]
def slot0 : List Seg := [Seg.port (.int 1) (.int 0)]
def dbE (b : Bool) : TagDb := (tagDbOf (projE [] []) b).getD []

/-- the run of the model -/
def run (b : Base) (st : LState) (path : List Seg) (pt : Bool) :=
  openLogixSt hookAll { initTags := true, initProgramTags := pt } (world0 b st path) {} rnd

def okTrue (r : Cli.World Ext × LDrv × Except Exn Bool) : Bool := match r.2.2 with | .ok true => true | _ => false

def sameInfo (a b : Info) : Bool :=
  (PyVal.dict a.plc).toSexp.render == (PyVal.dict b.plc).toSexp.render && a.name == b.name && a.programs == b.programs &&
  a.tasks == b.tasks && a.modules == b.modules

-- the reference side
#guard (dbE true).map (·.1) == [Opn.nm "abc", Opn.nm "i1", Opn.nm "Local:1:I", Opn.nm "ali", Opn.nm "Program:Main.loc",
  Opn.nm "Program:Main.pu", Opn.nm "Program:Aux.deep"]
#guard (dbE false).map (·.1) == [Opn.nm "abc", Opn.nm "i1", Opn.nm "Local:1:I", Opn.nm "ali"]
#guard (loe_visible (projE [] []) true).map (·.1) == (dbE true).map (·.1)
#guard (loe_infoOf (projE [] []) true {}).programs ==
  some [(Opn.nm "Main", { instanceId := 5, routines := [Opn.nm "Main"] }), (Opn.nm "Aux", { instanceId := 6, routines := [] })]
#guard (loe_infoOf (projE [] []) false {}).programs ==
  some [(Opn.nm "Main", { instanceId := 5, routines := [] }), (Opn.nm "Aux", { instanceId := 6, routines := [] })]
#guard (loe_infoOf (projE [] []) true {}).tasks == some [(Opn.nm "Fast", 40)]
#guard (loe_infoOf (projE [] []) true {}).modules ==
  some [(Opn.nm "Local", { slots := [(1, [Opn.nm "I"])], types := none, unknown := none })]

-- the runs agree with the right-hand sides of `open_logix_e2e`: ControlLogix, one symbol per page, 3-byte fragments
#guard (let r := run (baseA true) (stateE [1] [3] 32) [] true
  okTrue r && r.2.1.tags.map (·.1) == (dbE true).map (·.1) &&
  r.2.1.tags.map (·.2.core.dataTypeName) == (dbE true).map (·.2.core.dataTypeName) &&
  r.2.1.tags.map (·.2.core.instanceId) == (dbE true).map (·.2.core.instanceId) &&
  r.2.1.metas == loe_metasOf (projE [] []) true true &&
  sameInfo r.2.1.info (loe_infoOf (projE [] []) true { plc := ide_presentInfo Cli.IdEx.idA, name := some (Opn.nm "PLC1") }) &&
  !r.2.1.micro800 && r.2.1.useInstanceIds && !r.2.1.cacheLeft &&
  r.1.drv.targetIsConnected && r.1.drv.session == some 0x2002 && r.1.drv.targetCid == some (le 4 0x00ABCDEF) &&
  r.1.drv.extendedFo && r.1.drv.connectionSize == 4000 &&
  r.1.net.target.base.conns.map (fun c => (c.cid, c.size, c.large, c.session)) == [(0x00ABCDEF, 4000, true, 0x2002)])
-- … the default schedules give the same driver state, with fewer frames
#guard (let r := run (baseA true) (stateE [1] [3] 32) [] true
  let r0 := run (baseA true) (stateE [] [] 32) [] true
  okTrue r0 && r0.2.1.tags.map (·.1) == r.2.1.tags.map (·.1) && r0.2.1.metas == r.2.1.metas &&
  sameInfo r0.2.1.info r.2.1.info && r0.2.1.dataTypes == r.2.1.dataTypes &&
  r0.1.net.sent.length < r.1.net.sent.length)
-- … a target that refuses the large Forward Open: standard, size 500, one more frame before `get_plc_name`
#guard (let r := run (baseA false) (stateE [1] [3] 32) slot0 false
  okTrue r && r.2.1.tags.map (·.1) == (dbE false).map (·.1) &&
  r.1.drv.targetIsConnected && !r.1.drv.extendedFo && r.1.drv.connectionSize == 500 &&
  r.1.net.target.base.conns.map (fun c => (c.size, c.large)) == [(500, false)] &&
  r.1.net.target.base.log.reverse.filterMap (fun e => match e with | .fo l sz ok => some (l, sz, ok) | _ => none) ==
    [(true, 4000, false), (false, 500, true)])
-- … firmware 16: no external access ("Unknown" everywhere), no instance ids
#guard (let r := run baseOld (stateE [2] [5] 16) [] true
  okTrue r && r.2.1.metas == loe_metasOf (projE [] []) false true && !r.2.1.useInstanceIds &&
  r.2.1.metas.all (fun m => m.2.externalAccess == Opn.nm "Unknown") &&
  r.2.1.info.name == some (Opn.nm "OLD"))
#guard ((loe_metasOf (projE [] []) true true).map fun m => (m.1, m.2.externalAccess, m.2.alias)) ==
  [(Opn.nm "abc", Opn.nm "Read/Write", false), (Opn.nm "i1", Opn.nm "Read/Write", false),
   (Opn.nm "Local:1:I", Opn.nm "Read/Write", false), (Opn.nm "ali", Opn.nm "Read Only", true),
   (Opn.nm "Program:Main.loc", Opn.nm "Read/Write", false), (Opn.nm "Program:Main.pu", Opn.nm "Read/Write", false),
   (Opn.nm "Program:Aux.deep", Opn.nm "Read/Write", false)]
-- … the Micro850 behind "ip/1/0": the connection path of the Forward Open is the shortened route (message router only)
#guard (let r := run baseM (stateE [1] [3] 12) slot0 true
  okTrue r && r.2.1.tags.map (·.1) == (dbE true).map (·.1) && r.2.1.micro800 && !r.2.1.useInstanceIds &&
  r.2.1.info.name == none && r.1.drv.cipPath == [] &&
  sameInfo r.2.1.info (loe_infoOf (projE [] []) true { plc := ide_presentInfo Cli.IdEx.idM, name := none }) &&
  r.2.1.metas == loe_metasOf (projE [] []) false true &&
  r.1.net.target.base.conns.map (fun c => c.route) == [[0x20, 0x02, 0x24, 0x01]])
-- a ControlLogix behind the same route keeps it: the connection path starts with port 1, slot 0
#guard (let r := run (baseA true) (stateE [] [] 32) slot0 true
  okTrue r && r.1.drv.cipPath == slot0 &&
  r.1.net.target.base.conns.map (fun c => c.route) == [[1, 0, 0x20, 0x02, 0x24, 0x01]])

/-! #### the hypotheses -/

private theorem fresh (b : Base) (hb : b = baseA true ∨ b = baseA false ∨ b = baseOld ∨ b = baseM) (st : LState) (path : List Seg) :
    loe_Fresh (world0 b st path) := by
  rcases hb with rfl | rfl | rfl | rfl
  · exact ⟨rfl, rfl, rfl, rfl, rfl, .inl rfl, (by decide : (0x2002 : Nat) ≠ 0), (by decide : (0x2002 : Nat) < 2 ^ 32),
      (by decide : (0x00ABCDEF : Nat) < 2 ^ 32)⟩
  · exact ⟨rfl, rfl, rfl, rfl, rfl, .inr rfl, (by decide : (0x2002 : Nat) ≠ 0), (by decide : (0x2002 : Nat) < 2 ^ 32),
      (by decide : (0x00ABCDEF : Nat) < 2 ^ 32)⟩
  · exact ⟨rfl, rfl, rfl, rfl, rfl, .inl rfl, (by decide : (0x1001 : Nat) ≠ 0), (by decide : (0x1001 : Nat) < 2 ^ 32),
      (by decide : (0x00C0FFEE : Nat) < 2 ^ 32)⟩
  · exact ⟨rfl, rfl, rfl, rfl, rfl, .inl rfl, (by decide : (0x1001 : Nat) ≠ 0), (by decide : (0x1001 : Nat) < 2 ^ 32),
      (by decide : (0x00C0FFEE : Nat) < 2 ^ 32)⟩

/-- backplane, slot 0 ("ip/1/0") -/
private theorem route10 : loe_Route slot0 :=
  ⟨⟨_, (gme_hops_enc [(1, 0)] (by decide)).1.mono (by decide)⟩,
   ⟨3, [1, 0, 0x20, 0x02, 0x24, 0x01], by rfl, by decide, by decide⟩⟩

private theorem idOk (i : Identity) (hi : i = Cli.IdEx.idA ∨ i = idOld ∨ i = Cli.IdEx.idM) : IdOk i := by
  rcases hi with rfl | rfl | rfl <;> (unfold IdOk; decide)

private theorem wfTemplatesE (pages frags : List Nat) : ∀ t ∈ (projE pages frags).templates, lon_WfT t := by
  intro t ht
  simp only [projE, List.mem_cons, List.not_mem_nil, or_false] at ht
  rcases ht with rfl | rfl | rfl
  · exact ⟨[79, 117, 116, 101, 114], [110], by unfold Up.WfTemplate Up.WfMember Up.Ident; decide, by decide, by decide,
      by decide, by decide⟩
  · exact ⟨[73, 110, 110, 101, 114], [110], by unfold Up.WfTemplate Up.WfMember Up.Ident; decide, by decide, by decide,
      by decide, by decide⟩
  · exact ⟨[68, 101, 101, 112], [110], by unfold Up.WfTemplate Up.WfMember Up.Ident; decide, by decide, by decide,
      by decide, by decide⟩

private theorem wfNestedE (pages frags : List Nat) (k tid : Nat) : lon_WfNested (projE pages frags) k tid :=
  lon_WfNested_of_all _ (wfTemplatesE pages frags) k tid

private theorem memE (pages frags : List Nat) (rev : Nat) (s : Symbol) (hs : s ∈ (stateE pages frags rev).proj.controller) :
    s = Ex.s1 ∨ s = symMain ∨ s = symAux ∨ s = i1 ∨ s = symTask ∨ s = symIo ∨ s = symMap ∨ s = symSys ∨ s = symAli := by
  simpa [stateE, projE] using hs

private theorem progSymsE (pages frags : List Nat) :
    ∀ pr ∈ (projE pages frags).programs, lon_ProgSyms (projE pages frags) pr.2 := by
  intro pr hpr
  simp only [projE, List.mem_cons, List.not_mem_nil, or_false] at hpr
  rcases hpr with rfl | rfl
  · refine ⟨?_, by decide, by decide, ?_, ?_⟩
    · intro s hs
      simp only [List.mem_cons, List.not_mem_nil, or_false] at hs
      rcases hs with rfl | rfl | rfl <;> (unfold Up.WfSymbol; decide)
    · intro s hs
      simp only [List.mem_cons, List.not_mem_nil, or_false] at hs
      rcases hs with rfl | rfl | rfl <;> decide
    · intro s hs _ hst
      simp only [List.mem_cons, List.not_mem_nil, or_false] at hs
      rcases hs with rfl | rfl | rfl
      · exact absurd hst (by decide)
      · exact ⟨by rfl, wfNestedE pages frags _ _⟩
      · exact absurd hst (by decide)
  · refine ⟨?_, by decide, by decide, ?_, ?_⟩
    · intro s hs
      simp only [List.mem_cons, List.not_mem_nil, or_false] at hs
      subst hs
      unfold Up.WfSymbol; decide
    · intro s hs
      simp only [List.mem_cons, List.not_mem_nil, or_false] at hs
      subst hs
      decide
    · intro s hs _ _
      simp only [List.mem_cons, List.not_mem_nil, or_false] at hs
      subst hs
      exact ⟨by rfl, wfNestedE pages frags _ _⟩

/-- the project is well-formed, for every schedule, revision and setting of `init_program_tags` -/
private theorem project (pages frags : List Nat) (rev : Nat) (b : Bool) : loe_Project (stateE pages frags rev) b := by
  refine ⟨?_, by simp only [stateE, projE]; decide, by simp only [stateE, projE]; decide, ?_, fun _ => ⟨?_, progSymsE pages frags⟩⟩
  · intro s hs
    rcases memE pages frags rev s hs with rfl | rfl | rfl | rfl | rfl | rfl | rfl | rfl | rfl <;>
      (unfold Up.WfSymbol; decide)
  · intro s hs _ hst
    rcases memE pages frags rev s hs with rfl | rfl | rfl | rfl | rfl | rfl | rfl | rfl | rfl
    · exact absurd hst (by decide)
    · exact absurd hst (by decide)
    · exact absurd hst (by decide)
    · exact ⟨by rfl, wfNestedE pages frags _ _⟩
    · exact absurd hst (by decide)
    · exact absurd hst (by decide)
    · exact absurd hst (by decide)
    · exact absurd hst (by decide)
    · exact absurd hst (by decide)
  · intro s hs hp
    rcases memE pages frags rev s hs with rfl | rfl | rfl | rfl | rfl | rfl | rfl | rfl | rfl
    · exact absurd hp (by decide)
    · exact ⟨by decide, by decide, by decide, by decide, by decide⟩
    · exact ⟨by decide, by decide, by decide, by decide, by decide⟩
    · exact absurd hp (by decide)
    · exact absurd hp (by decide)
    · exact absurd hp (by decide)
    · exact absurd hp (by decide)
    · exact absurd hp (by decide)
    · exact absurd hp (by decide)

/-- every hypothesis of `open_logix_e2e` holds: ControlLogix, no route, program tags, one symbol per page, 3-byte
    fragments, the large Forward Open accepted -/
example : ∃ w' l' conn, run (baseA true) (stateE [1] [3] 32) [] true = (w', l', .ok true) ∧ l'.tags = dbE true ∧
    l'.info.name = some (Opn.nm "PLC1") ∧ l'.useInstanceIds = true ∧
    ldr_Healthy w' 0x2002 (le 4 0x00ABCDEF) conn ∧ conn.size = 4000 := by
  obtain ⟨w', l', conn, _, h1, h2, _, h4, _, h6, _, h8, h9, _⟩ :=
    open_logix_e2e (world0 (baseA true) (stateE [1] [3] 32) []) (stateE [1] [3] 32) true rnd (dbE true)
      (fresh _ (.inl rfl) _ _) loe_Route_nil rfl (idOk _ (.inl rfl)) (by decide) (by decide) rfl (fun _ => by decide)
      (project [1] [3] 32 true) (by rfl)
  refine ⟨w', l', conn, h1, h2, ?_, h6, h8, h9⟩
  rw [h4]
  exact (info_after_open _ _ _ _).2

/-- … the large Forward Open refused, route "ip/1/0", controller scope only: the standard connection of 500 bytes -/
example : ∃ w' l' conn, run (baseA false) (stateE [1] [3] 32) slot0 false = (w', l', .ok true) ∧ l'.tags = dbE false ∧
    ldr_Healthy w' 0x2002 (le 4 0x00ABCDEF) conn ∧ conn.size = 500 ∧
    lo_SameDrv (loe_drvAfter { cipPath := slot0 } rnd 0x2002 (le 4 0x00ABCDEF) false) w'.drv := by
  obtain ⟨w', l', conn, _, h1, h2, _, _, _, _, _, h8, h9, h10, _⟩ :=
    open_logix_e2e (world0 (baseA false) (stateE [1] [3] 32) slot0) (stateE [1] [3] 32) false rnd (dbE false)
      (fresh _ (.inr (.inl rfl)) _ _) route10 rfl (idOk _ (.inl rfl)) (by decide) (by decide) rfl (fun _ => by decide)
      (project [1] [3] 32 false) (by rfl)
  exact ⟨w', l', conn, h1, h2, h8, h9, h10⟩

/-- … firmware 16 (the `hrev` premise is vacuous, the controller need not know attribute 10) -/
example : ∃ w' l', run baseOld (stateE [2] [5] 16) [] true = (w', l', .ok true) ∧ l'.tags = dbE true ∧
    l'.metas = loe_metasOf (projE [2] [5]) false true ∧ l'.useInstanceIds = false := by
  obtain ⟨w', l', _, _, h1, h2, h3, _, _, h6, _⟩ :=
    open_logix_e2e (world0 baseOld (stateE [2] [5] 16) []) (stateE [2] [5] 16) true rnd (dbE true)
      (fresh _ (.inr (.inr (.inl rfl))) _ _) loe_Route_nil rfl (idOk _ (.inr (.inl rfl))) (by decide) (by decide) rfl
      (fun h => absurd h (by decide)) (project [2] [5] 16 true) (by rfl)
  exact ⟨w', l', h1, h2, h3, h6⟩

/-- every hypothesis of `open_logix_micro800_e2e` holds: the Micro850 behind "ip/1/0" -/
example : ∃ w' l' conn, run baseM (stateE [1] [3] 12) slot0 true = (w', l', .ok true) ∧ l'.tags = dbE true ∧
    l'.micro800 = true ∧ l'.useInstanceIds = false ∧ l'.info.name = none ∧
    ldr_Healthy w' 0x1001 (le 4 0x00C0FFEE) conn ∧ conn.size = 4000 := by
  obtain ⟨w', l', conn, _, h1, h2, _, h4, h5, h6, _, h8, h9, _⟩ :=
    open_logix_micro800_e2e (world0 baseM (stateE [1] [3] 12) slot0) (stateE [1] [3] 12) true rnd (dbE true)
      (fresh _ (.inr (.inr (.inr rfl))) _ _) route10 loe_Route_nil rfl (idOk _ (.inr (.inr rfl))) (by decide) rfl
      (fun h => absurd h (by decide)) (project [1] [3] 12 true) (by rfl)
  refine ⟨w', l', conn, h1, h2, h5, h6, ?_, h8, h9⟩
  rw [h4]
  exact (info_after_open _ _ _ _).2

/-- every hypothesis of `open_schedule_independent` holds: (one symbol per page, 3-byte fragments, large Forward Open,
    no route) against (default schedules, standard Forward Open, route "ip/1/0", other random bytes) -/
example : ∃ w1' w2' l1 l2,
    run (baseA true) (stateE [1] [3] 32) [] true = (w1', l1, .ok true) ∧
    openLogixSt hookAll { initTags := true, initProgramTags := true } (world0 (baseA false) (stateE [] [] 32) slot0) {}
      [9, 9, 9, 9, 7, 7, 7, 7] = (w2', l2, .ok true) ∧
    l1.tags = dbE true ∧ l2.tags = l1.tags ∧ l2.metas = l1.metas ∧ l2.info = l1.info := by
  obtain ⟨w1', w2', l1, l2, h1, h2, h3, h4, h5, h6, _⟩ :=
    open_schedule_independent (world0 (baseA true) (stateE [1] [3] 32) []) (world0 (baseA false) (stateE [] [] 32) slot0)
      (stateE [1] [3] 32) (stateE [] [] 32) true rnd [9, 9, 9, 9, 7, 7, 7, 7] (dbE true)
      (fresh _ (.inl rfl) _ _) (fresh _ (.inr (.inl rfl)) _ _) loe_Route_nil route10 rfl rfl rfl rfl ⟨rfl, rfl, rfl⟩
      (idOk _ (.inl rfl)) (by decide) (by decide) rfl rfl (fun _ => by decide) (fun _ => by decide)
      (project [1] [3] 32 true) (project [] [] 32 true) (by rfl)
  exact ⟨w1', w2', l1, l2, h1, h2, h3, h4, h5, h6⟩

/-- the key `ali` belongs to one user-visible symbol only -/
private theorem aliUnique : ∀ s', (Opn.nm "ali", s') ∈ loe_visible (projE [] []) true → s' = symAli := by
  intro s' h
  rcases (visible_iff _ _ _ _).1 h with ⟨hm, _, hk⟩ | ⟨_, pn, _, _, _, hk⟩
  · rcases memE [] [] 32 s' hm with rfl | rfl | rfl | rfl | rfl | rfl | rfl | rfl | rfl
    · exact absurd hk (by decide)
    · exact absurd hk (by decide)
    · exact absurd hk (by decide)
    · exact absurd hk (by decide)
    · exact absurd hk (by decide)
    · exact absurd hk (by decide)
    · exact absurd hk (by decide)
    · exact absurd hk (by decide)
    · rfl
  · exfalso
    have h1 : (Opn.nm "ali").head? = (Drv.nm "Program:" ++ pn ++ [46] ++ s'.name).head? := by rw [← hk]
    have h2 : (Drv.nm "Program:" ++ pn ++ [46] ++ s'.name).head? = some 80 := by rfl
    rw [h2] at h1
    revert h1
    decide

/-- `tags_exactly_user_visible` on the project: the keys, none twice, every entry the definition of a user-visible symbol,
    and the lookup of `ali` (INT[5], instance 44) -/
example : (dbE true).map (·.1) = (loe_visible (projE [] []) true).map (·.1) ∧ ((dbE true).map (·.1)).Nodup ∧
    (∀ k i, (k, i) ∈ dbE true → ∃ s, (k, s) ∈ loe_visible (projE [] []) true ∧ i.core.instanceId = some s.inst) ∧
    (∃ i, (dbE true).get? (Opn.nm "ali") = some i ∧ i.core.instanceId = some 44 ∧ i.core.dimensions = [5, 0, 0] ∧
      i.core.dim = 1 ∧ i.core.dataTypeName = Opn.nm "INT") := by
  obtain ⟨_, h2, h3, h4⟩ := tags_exactly_user_visible (projE [] []) true (dbE true) (by rfl)
  refine ⟨by decide, h2, ?_, ?_⟩
  · intro k i hi
    obtain ⟨s, hs, _, _, _, a, _⟩ := h3 k i hi
    exact ⟨s, hs, a⟩
  · have hv : (Opn.nm "ali", symAli) ∈ loe_visible (projE [] []) true :=
      (visible_iff _ _ _ _).2 (.inl ⟨by simp [projE], by decide, rfl⟩)
    obtain ⟨i, hi, hc⟩ := h4 (Opn.nm "ali") symAli hv aliUnique
    obtain ⟨a1, a2, a3, a4, _⟩ := loe_createTag_fields _ _ _ hc
    obtain ⟨_, t, ht⟩ := a4 (by decide)
    refine ⟨i, hi, a3, a1, a2, ?_⟩
    have e : atomicOfCode (symAli.symbolType % 256) = some (Opn.nm "INT", .int .int) := by rfl
    rw [e] at ht
    have h' : some (Opn.nm "INT") = some i.core.dataTypeName := congrArg (fun o => o.map (·.1)) ht
    exact (Option.some.inj h').symm

/-- `metas_external_access_alias` on the project: the alias `ali` is Read Only for firmware ≥ 18 and "Unknown" below -/
example : ∃ s, (Opn.nm "ali", s) ∈ loe_visible (projE [] []) true ∧
    (lo_metaAll true symAli).alias = true ∧ (lo_metaAll true symAli).externalAccess = Opn.nm "Read Only" ∧
    (lo_metaAll false symAli).externalAccess = Opn.nm "Unknown" := by
  obtain ⟨s, hs, _⟩ := metas_external_access_alias (projE [] []) true true (Opn.nm "ali") (lo_metaAll true symAli) (by decide)
  exact ⟨s, hs, by decide, by decide, by decide⟩

/-- every hypothesis of `info_program_keys` holds: the keys of `_info["programs"]` are `Main`, `Aux` -/
example : ((loe_infoOf (projE [] []) true { plc := ide_presentInfo Cli.IdEx.idA, name := some (Opn.nm "PLC1") }).programs.getD []).map
    (·.1) = [Opn.nm "Main", Opn.nm "Aux"] := by
  rw [info_program_keys (projE [] []) true _ _
    (by intro s hs hp
        rcases memE [] [] 32 s hs with rfl | rfl | rfl | rfl | rfl | rfl | rfl | rfl | rfl
        · exact absurd hp (by decide)
        · decide
        · decide
        · exact absurd hp (by decide)
        · exact absurd hp (by decide)
        · exact absurd hp (by decide)
        · exact absurd hp (by decide)
        · exact absurd hp (by decide)
        · exact absurd hp (by decide))
    (by intro _ pn hpn s hs
        have hpn' : pn = Opn.nm "Main" ∨ pn = Opn.nm "Aux" := by
          have : programNames (projE [] []) = [Opn.nm "Main", Opn.nm "Aux"] := by decide
          rw [this] at hpn
          simpa using hpn
        rcases hpn' with rfl | rfl
        · have : lon_progSyms (projE [] []) (Opn.nm "Main") = [pm1, pm2, pm3] := by rfl
          rw [this] at hs
          simp only [List.mem_cons, List.not_mem_nil, or_false] at hs
          rcases hs with rfl | rfl | rfl <;> decide
        · have : lon_progSyms (projE [] []) (Opn.nm "Aux") = [pa1] := by rfl
          rw [this] at hs
          simp only [List.mem_cons, List.not_mem_nil, or_false] at hs
          subst hs
          decide)]
  decide

/-! #### what the hypotheses exclude (each by a run of the model) -/

def outcome (r : Cli.World Ext × LDrv × Except Exn Bool) : String :=
  match r.2.2 with | .ok b => s!"ok {b}" | .error e => "raise " ++ e.render

-- STATEMENT CHANGED: `hrev` (added hypothesis): the controller must serve the external-access attribute (symbol attribute 10)
-- whenever its IDENTITY says firmware ≥ 18 — `open()` decides from `get_plc_info`'s revision whether to ask for it.  A
-- target whose identity object says 32 while its symbol object behaves like firmware 16 refuses the request with status
-- 0x09 and `open()` raises ResponseError.  (Real controllers are consistent; the reference target keeps the two numbers
-- apart: `Identity.major` and `LState.rev`.)
#guard outcome (run (baseA true) (stateE [1] [3] 16) [] true) == "raise " ++ Exn.response.render
-- STATEMENT CHANGED: `loe_Fresh.ns0` (added hypothesis): the target must not grant session handle 0.  With handle 0
-- `_register_session` stores 0, `CIPDriver.open()` returns True, and the first Forward Open raises CommError because
-- `self._session == 0` reads as "no session".  (A handle of 0 is not valid on the wire; the reference target's counter
-- `nextHandle` never produces it, a configured start value of 0 does.)
#guard outcome (run { baseA true with nextSession := 0 } (stateE [] [] 32) [] true) == "raise " ++ Exn.comm.render
-- STATEMENT CHANGED: `loe_Fresh.foOk` (added hypothesis): the target accepts the large or the standard Forward Open; when
-- it refuses both, `get_plc_name` — the first `@with_forward_open` call — raises ResponseError.
#guard outcome (run { baseA true with policy := { largeFoOk := false, stdFoOk := false } } (stateE [] [] 32) [] true) ==
  "raise " ++ Exn.response.render
-- `loe_Fresh.sessionOk`: a refused RegisterSession makes `open()` return False, nothing is uploaded
#guard (let r := run { baseA true with policy := { sessionOk := false } } (stateE [] [] 32) [] true
  outcome r == "ok false" && r.2.1.tags.length == 0)
-- STATEMENT CHANGED: "each entry … as the symbol record says" is stated for keys that belong to ONE user-visible symbol
-- (hypothesis of the last conjunct of `tags_exactly_user_visible`).  `tags` is a dict: two user-visible symbols of a scope
-- with the same name give one entry at the position of the first with the definition of the LAST (here `abc`: DINT,
-- instance 3, then INT[5], instance 4) — so "none missing / none duplicated" are statements about keys.
def projDup : Project := { projE [] [] with controller := [Ex.s1, { Ex.s2 with inst := 4, name := Opn.nm "abc" }] }
#guard ((tagDbOf projDup false).map fun db => db.map fun x => (x.1, x.2.core.dataTypeName, x.2.core.instanceId)) ==
  some [(Opn.nm "abc", Opn.nm "INT", some 4)]
#guard (run (baseA true) { proj := projDup } [] false).2.1.tags.map (fun x => (x.1, x.2.core.dataTypeName, x.2.core.instanceId)) ==
  [(Opn.nm "abc", Opn.nm "INT", some 4)]
-- STATEMENT CHANGED: `open_schedule_independent` covers `_tags`, the metadata, `_info`, `_micro800`, `use_instance_ids`; the
-- key list of `_data_types` (`LDrv.dataTypes`, insertion order of the uploaded definitions) is NOT in the theorem — the
-- definitions themselves are inside the tag entries (`TagInfo.core.struct` / `members`), which are.  By evaluation the key
-- list agrees as well:
#guard (run (baseA true) (stateE [1] [3] 32) [] true).2.1.dataTypes == (run (baseA false) (stateE [] [] 32) slot0 true).2.1.dataTypes &&
  (run (baseA true) (stateE [1] [3] 32) [] true).2.1.dataTypes == [Opn.nm "Deep", Opn.nm "Inner", Opn.nm "Outer"]

end ExE

end Pycomm.Lgx.Opn
