/-
  C17 over histories with LogixDriver reads and writes, WITHOUT the structural hypothesis `LoopsLast`.
  Part 2: the invariant `lcl_Mid` along `_send_requests` for ANY list of packets (`slb_sendRequests_mid`), and a whole
  `read` / `write` call: a call turns `lcl_SeqB B` into `lcl_SeqB (B + 3 · requests + 1 + R)`, where `R` counts the
  rounds of the fragment loops that run while a packet built earlier is still waiting (`slb_readRounds`,
  `slb_writeRounds`).
-/
import PycommProofs.SeqLB1
namespace Pycomm.Lgx.Drv
open Pycomm.Tgt Pycomm.Path Pycomm.Reply

/-! ### one iteration of `_send_requests` -/

/-- one iteration of `_send_requests`, wherever the packet stands in the list.  `X` = the numbers the remaining
    packets will send; `r` = 0 when nothing is waiting, else the rounds of this packet's loop.  The bound grows by `r`
    (by `r + 1` when the iteration fails). -/
theorem slb_sendRequest_mid {σ} (hook : ObjHook σ) (hh : Cli.lci_HookOk hook) (hn : Cli.lcs_HookNoSeq hook) (S : Prop)
    (w : Cli.World σ) (rs : Results) (q : Request) (D A r : Nat) (pool : List (Nat × Nat)) (X : List Nat)
    (ho : Cli.lcl_Open S w) (hm : Cli.lcl_Mid D w pool) (hp : (pool.map (·.1)).Perm (q.lcl_seqs ++ X))
    (h1 : 1 ≤ D) (hA : lcl_PoolLe A pool) (hA1 : 1 ≤ A) (hAD : A ≤ D)
    (hr0 : X = [] → r = 0) (hr1 : X ≠ [] → r = slb_reqDraws hook w q) (hD : D + r + 1 ≤ 65534) :
    ∃ pool', Cli.lcl_Mid (D + r + 1) (sendRequest hook w rs q).1 pool' ∧ (pool'.map (·.1)).Perm X ∧
      lcl_PoolLe (A + r) pool' ∧
      (∀ rs', (sendRequest hook w rs q).2 = .ok rs' →
        Cli.lcl_Mid (D + r) (sendRequest hook w rs q).1 pool' ∧
        (X = [] → Cli.lcl_Mid (A + r) (sendRequest hook w rs q).1 [])) := by
  -- everything except a loop with packets waiting is covered by the lemma of LCLogix6.lean
  have old : (q.lcl_isLoop = true → X = []) → r = 0 →
      ∃ pool', Cli.lcl_Mid (D + r + 1) (sendRequest hook w rs q).1 pool' ∧ (pool'.map (·.1)).Perm X ∧
        lcl_PoolLe (A + r) pool' ∧
        (∀ rs', (sendRequest hook w rs q).2 = .ok rs' →
          Cli.lcl_Mid (D + r) (sendRequest hook w rs q).1 pool' ∧
          (X = [] → Cli.lcl_Mid (A + r) (sendRequest hook w rs q).1 [])) := by
    intro hX hr
    subst hr
    obtain ⟨pool', E, a1, a2, a3, a4, a5, a6⟩ := lcl_sendRequest_mid hook hh hn S w rs q D A pool X ho hm hp hX h1
      (by omega) hA hA1 hAD
    refine ⟨pool', Cli.lcl_Mid_mono a1 (by omega) (by omega), a2, a5, ?_⟩
    intro rs' hok
    constructor
    · cases hl : q.lcl_isLoop with
      | false => rw [a4 hl] at a1; exact a1
      | true =>
        have hXe := hX hl
        subst hXe
        have hnil := lcl_perm_nil _ _ a2
        subst hnil
        exact Cli.lcl_Mid_mono (a6 rs' hok rfl) (by omega) (by omega)
    · intro hXe
      exact a6 rs' hok hXe
  by_cases hXe : X = []
  · exact old (fun _ => hXe) (hr0 hXe)
  · have hr := hr1 hXe
    cases q with
    | read req => exact old (fun h => nomatch h) hr
    | write req => exact old (fun h => nomatch h) hr
    | rmw req => exact old (fun h => nomatch h) hr
    | multiRead seq reqs => exact old (fun h => nomatch h) hr
    | multiWrite seq reqs => exact old (fun h => nomatch h) hr
    | readFrag req =>
      simp only [slb_reqDraws] at hr
      subst hr
      obtain ⟨a, pool2, h2, h3⟩ := lcl_pool_take pool req.seq X hp
      have hm' := Cli.lcl_Mid_perm hm h2
      have hA' : lcl_PoolLe A ((req.seq, a) :: pool2) := fun p hp' => hA p (h2.mem_iff.2 hp')
      obtain ⟨pool', k1, k2, k3⟩ := slb_readFragLoop_mid hook hh hn S req FRAG_FUEL w req.seq a D A 0 [] true pool2
        ho hm' hA' (by omega)
      have k2' : (pool'.map (·.1)).Perm X := by rw [k2]; exact h3
      rw [sendRequest]
      generalize readFragLoop hook req FRAG_FUEL w req.seq 0 [] true = res at k1 ⊢
      obtain ⟨w1, x⟩ := res
      cases x with
      | error e => exact ⟨pool', Cli.lcl_Mid_mono k1 (by omega) hD, k2', k3, fun _ h => nomatch h⟩
      | ok x =>
        obtain ⟨resp, v, dt⟩ := x
        exact ⟨pool', Cli.lcl_Mid_mono k1 (by omega) hD, k2', k3, fun _ _ => ⟨k1, fun h => absurd h hXe⟩⟩
    | writeFrag req =>
      simp only [slb_reqDraws] at hr
      subst hr
      obtain ⟨pool', k1, k2, k3⟩ := slb_sendWriteFragmented_mid hook hh hn S w req D A pool ho hm hA (by omega)
      have k2' : (pool'.map (·.1)).Perm X := by rw [k2]; exact hp
      rw [sendRequest]
      generalize sendWriteFragmented hook w req = res at k1 ⊢
      obtain ⟨w1, x⟩ := res
      cases x with
      | error e => exact ⟨pool', Cli.lcl_Mid_mono k1 (by omega) hD, k2', k3, fun _ h => nomatch h⟩
      | ok x => exact ⟨pool', Cli.lcl_Mid_mono k1 (by omega) hD, k2', k3, fun _ _ => ⟨k1, fun h => absurd h hXe⟩⟩

/-! ### `_send_requests` for any list of packets -/

theorem slb_sendRequests_mid {σ} (hook : ObjHook σ) (hh : Cli.lci_HookOk hook) (hn : Cli.lcs_HookNoSeq hook) (S : Prop)
    (reqs : List Request) :
    ∀ (w : Cli.World σ) (rs : Results) (D A : Nat) (pool : List (Nat × Nat)),
      Cli.lcl_Open S w → Cli.lcl_Mid D w pool → (pool.map (·.1)).Perm (reqs.flatMap Request.lcl_seqs) →
      1 ≤ D → lcl_PoolLe A pool → 1 ≤ A → A ≤ D → D + slb_loopDraws hook w rs reqs + 1 ≤ 65534 →
      Cli.lcl_Mid (D + slb_loopDraws hook w rs reqs + 1) (sendRequests hook w rs reqs).1 [] ∧
      (∀ rs', (sendRequests hook w rs reqs).2 = .ok rs' → reqs ≠ [] →
        Cli.lcl_Mid (A + slb_loopDraws hook w rs reqs) (sendRequests hook w rs reqs).1 []) := by
  induction reqs with
  | nil =>
    intro w rs D A pool _ hm hp _ _ _ _ hD
    have hnil : pool = [] := lcl_perm_nil _ _ hp
    subst hnil
    simp only [slb_loopDraws, Nat.add_zero] at hD ⊢
    exact ⟨Cli.lcl_Mid_mono hm (by omega) hD, fun _ _ h => absurd rfl h⟩
  | cons q rest ih =>
    intro w rs D A pool ho hm hp h1 hA hA1 hAD hD
    rw [List.flatMap_cons] at hp
    generalize hR : slb_loopDraws hook w rs (q :: rest) = R at hD ⊢
    rw [slb_loopDraws] at hR
    generalize hr : (if slb_pending rest = true then slb_reqDraws hook w q else 0) = r at hR
    have hr0 : rest.flatMap Request.lcl_seqs = [] → r = 0 := by
      intro hx
      cases hpd : slb_pending rest with
      | false => rw [hpd] at hr; simpa using hr.symm
      | true => exact absurd hx (slb_pending_true rest hpd)
    have hr1 : rest.flatMap Request.lcl_seqs ≠ [] → r = slb_reqDraws hook w q := by
      intro hx
      cases hpd : slb_pending rest with
      | false => exact absurd (slb_pending_false rest hpd) hx
      | true => rw [hpd] at hr; simpa using hr.symm
    have hrR : r ≤ R := by
      rw [← hR]
      split <;> omega
    obtain ⟨pool', a1, a2, a3, a4⟩ := slb_sendRequest_mid hook hh hn S w rs q D A r pool
      (rest.flatMap Request.lcl_seqs) ho hm hp h1 hA hA1 hAD hr0 hr1 (by omega)
    have ho1 := lcl_Open_reach hh (lcl_sendRequest_reach hook w rs q) ho
    rw [sendRequests]
    generalize sendRequest hook w rs q = res at a1 a4 ho1 hR ⊢
    obtain ⟨w1, x⟩ := res
    dsimp only at a1 a4 ho1 hR ⊢
    cases x with
    | error e =>
      dsimp only at hR
      subst hR
      exact ⟨Cli.lcl_Mid_sub a1 (List.nil_sublist _), fun _ h => nomatch h⟩
    | ok rs1 =>
      dsimp only at hR ⊢
      obtain ⟨b1, b2⟩ := a4 rs1 rfl
      cases rest with
      | nil =>
        simp only [sendRequests, slb_loopDraws, Nat.add_zero] at hR ⊢
        subst hR
        exact ⟨Cli.lcl_Mid_sub a1 (List.nil_sublist _), fun _ _ _ => b2 rfl⟩
      | cons r2 rs2 =>
        subst hR
        obtain ⟨k1, k2⟩ := ih w1 rs1 (D + r) (A + r) pool' ho1 b1 a2 (by omega) a3 (by omega) (by omega) (by omega)
        refine ⟨?_, fun rs' h _ => ?_⟩
        · rw [← Nat.add_assoc]
          exact k1
        · rw [← Nat.add_assoc]
          exact k2 rs' h (List.cons_ne_nil _ _)

/-! ### a whole call -/

/-- the part of a read / write after the decorator, for any list of packets: building with `n` draws at most, then
    `_send_requests` whose loops run `R` rounds while packets are waiting.  The budget grows by `n + 1 + R`; when
    `_send_requests` had something to send and succeeded, the budget starts again at `n + 1 + R`. -/
theorem slb_body_seq {σ} (hook : ObjHook σ) (hh : Cli.lci_HookOk hook) (hn : Cli.lcs_HookNoSeq hook) (S : Prop)
    (B n : Nat) (w0 : Cli.World σ) (ho : Cli.lcl_Open S w0) (hq : Cli.lcl_SeqB B w0) (d1 : Cli.Drv) (L : List Nat)
    (hL : lcl_Draws w0.drv L d1) (hlen : L.length ≤ n) (hso : lcl_SeqOnly w0.drv d1)
    (reqs : List Request) (rs : Results) (Sq : List Nat) (hsub : Sq.Sublist L)
    (hperm : Sq.Perm (reqs.flatMap Request.lcl_seqs))
    (hfl : w0.net.faults.length + (B + n + 1 + slb_loopDraws hook { w0 with drv := d1 } rs reqs) < 65534) :
    Cli.lcl_SeqB (B + n + 1 + slb_loopDraws hook { w0 with drv := d1 } rs reqs)
      (sendRequests hook { w0 with drv := d1 } rs reqs).1 ∧
    (∀ rs', (sendRequests hook { w0 with drv := d1 } rs reqs).2 = .ok rs' → reqs ≠ [] →
      Cli.lcl_SeqB (n + 1 + slb_loopDraws hook { w0 with drv := d1 } rs reqs)
        (sendRequests hook { w0 with drv := d1 } rs reqs).1) := by
  have hm0 := Cli.lcl_Mid_of_seqB hq
  have hD0 : Cli.lcs_D w0 + B ≤ w0.net.faults.length + 1 + B := by
    unfold Cli.lcs_D; omega
  have hm1 := lcl_Mid_draws (D := Cli.lcs_D w0 + B) hL w0 rfl hm0 (by omega)
  obtain ⟨v, hv⟩ := hso
  subst hv
  have ho1 : Cli.lcl_Open S ({ w0 with drv := { w0.drv with seqVal := v } } : Cli.World σ) := Cli.lcl_Open_seq ho v
  obtain ⟨P, hmP, hpP, hPle⟩ := lcl_Mid_pool hm1 hsub hperm
  have hpos := lcl_D_pos w0
  generalize hR : slb_loopDraws hook ({ w0 with drv := { w0.drv with seqVal := v } } : Cli.World σ) rs reqs = R at hfl ⊢
  obtain ⟨h2, h3⟩ := slb_sendRequests_mid hook hh hn S reqs _ rs _ (max L.length 1) P ho1 hmP hpP (by omega)
    (lcl_PoolLe_mono hPle (by omega)) (by omega) (by omega) (by rw [hR]; omega)
  rw [hR] at h2 h3
  obtain ⟨f1, f2, ⟨v2, f3⟩⟩ := lcl_Reach_facts (lcl_sendRequests_reach hook reqs
    ({ w0 with drv := { w0.drv with seqVal := v } } : Cli.World σ) rs)
  generalize sendRequests hook ({ w0 with drv := { w0.drv with seqVal := v } } : Cli.World σ) rs reqs = res at h2 h3 f1 f2 f3
  obtain ⟨w2, r2⟩ := res
  dsimp only at h2 h3 f1 f2 f3 ⊢
  have hDm : Cli.lcs_D w0 ≤ Cli.lcs_D w2 := lcl_D_mono f1 f2
  have c8 : w2.drv.context.length = 8 := by rw [f3]; exact hq.ctx8
  have s32 : ∀ s, w2.drv.session = some s → s < 2 ^ 32 := by rw [f3]; exact hq.sess32
  have skc : w2.drv.targetIsConnected = true → w2.drv.hasSock = true := by rw [f3]; exact hq.sockc
  constructor
  · exact Cli.lcl_SeqB_of_mid h2 (by omega) (by rw [f1]; exact hfl) c8 s32 skc
  · intro rs' hok hne
    exact Cli.lcl_SeqB_of_mid (h3 rs' hok hne) (by omega) (by rw [f1]; omega) c8 s32 skc

/-- the rounds of the fragment loops of a `read` call that run while a packet built earlier is still waiting -/
def slb_readRounds {σ} (hook : ObjHook σ) (cfg : Cfg) (w : Cli.World σ) (tags : List Name) : Nat :=
  let (w0, pre) := Cli.ensureForwardOpen hook Cli.FUEL w
  match pre with
  | .error _ => 0
  | .ok _ =>
    let (d1, reqs) := readBuildRequests cfg w0.drv (parseRequestedTags cfg.tags false tags)
    match reqs with
    | .error _ => 0
    | .ok reqs => slb_loopDraws hook { w0 with drv := d1 } [] reqs

/-- the rounds of the fragment loops of a `write` call that run while a packet built earlier is still waiting -/
def slb_writeRounds {σ} (hook : ObjHook σ) (cfg : Cfg) (w : Cli.World σ) (tvs : List (Name × PyVal)) : Nat :=
  let (w0, pre) := Cli.ensureForwardOpen hook Cli.FUEL w
  match pre with
  | .error _ => 0
  | .ok _ =>
    let (d1, built) := writeBuildRequests cfg w0.drv (lds_wparse cfg.tags tvs)
    match built with
    | .error _ => 0
    | .ok (_, reqs) => slb_loopDraws hook { w0 with drv := d1 } [] reqs

/-- `read`, whatever packets it builds: the budget grows by three per requested tag, plus one, plus the rounds of the
    loops that run while packets are waiting; a read that returns at least one Tag without an error starts the budget
    again -/
theorem slb_read_seq {σ} (hook : ObjHook σ) (hh : Cli.lci_HookOk hook) (hn : Cli.lcs_HookNoSeq hook) (S : Prop)
    (B : Nat) (cfg : Cfg) (w : Cli.World σ) (tags : List Name) (hi : Cli.lci_Inv S w) (hc : Cli.lci_Conn w)
    (hq : Cli.lcl_SeqB B w)
    (hfl : w.net.faults.length + (B + 3 * tags.length + 1 + slb_readRounds hook cfg w tags) < 65534) :
    Cli.lcl_SeqB (B + 3 * tags.length + 1 + slb_readRounds hook cfg w tags) (read hook cfg w tags).1 ∧
    (∀ res, (read hook cfg w tags).2 = .ok res → res.any (fun t => t.error.isNone) = true →
      Cli.lcl_SeqB (3 * tags.length + 1 + slb_readRounds hook cfg w tags) (read hook cfg w tags).1) := by
  obtain ⟨b1, b2, b3⟩ := Cli.lci_cli_ensureFO hook S Cli.FUEL w hi hc _ rfl
  have b4 := Cli.lcl_ensureFO_seq hook hh hn B Cli.FUEL w hq
  have b5 := ((Cli.lci_NStep_mutual hook hh Cli.FUEL).2.1 w).2.1
  generalize hR : slb_readRounds hook cfg w tags = R at hfl ⊢
  unfold slb_readRounds at hR
  unfold read
  generalize Cli.ensureForwardOpen hook Cli.FUEL w = r0 at b1 b2 b3 b4 b5 hR ⊢
  obtain ⟨w0, pre⟩ := r0
  dsimp only at b1 b2 b3 b4 b5 hR ⊢
  have hfl0 : w0.net.faults.length + (B + 3 * tags.length + 1 + R) < 65534 := by rw [b5]; exact hfl
  cases pre with
  | error e => exact ⟨Cli.lcl_SeqB_mono b4 (by omega) hfl0, fun _ h => nomatch h⟩
  | ok u =>
    dsimp only at hR ⊢
    obtain ⟨L, hL, hlen, hS⟩ := lcl_readBuild_draws cfg w0.drv (parseRequestedTags cfg.tags false tags)
    have hso := lcl_readBuildRequests_seq cfg w0.drv (parseRequestedTags cfg.tags false tags)
    rw [lds_parse_length] at hlen
    rcases hbr : readBuildRequests cfg w0.drv (parseRequestedTags cfg.tags false tags) with ⟨d1, reqs⟩
    rw [hbr] at hL hS hso hR
    dsimp only at hL hS hso hR ⊢
    cases reqs with
    | error e =>
      obtain ⟨k1, _⟩ := lcl_body_seq hook hh hn S B (3 * tags.length) w0 ⟨b1, b2, b3 rfl⟩ b4 (by omega) d1 L hL hlen hso
      exact ⟨Cli.lcl_SeqB_mono k1 (by omega) hfl0, fun _ h => nomatch h⟩
    | ok reqs =>
      dsimp only at hR ⊢
      obtain ⟨Sq, hsub, hperm⟩ := hS reqs rfl
      subst hR
      obtain ⟨k3, k4⟩ := slb_body_seq hook hh hn S B (3 * tags.length) w0 ⟨b1, b2, b3 rfl⟩ b4 d1 L hL hlen hso reqs []
        Sq hsub hperm hfl0
      have hnilreq : reqs = [] → sendRequests hook { w0 with drv := d1 } [] reqs = ({ w0 with drv := d1 }, .ok []) := by
        intro h; subst h; rfl
      generalize slb_loopDraws hook ({ w0 with drv := d1 } : Cli.World σ) [] reqs = R at k3 k4 ⊢
      generalize hsr : sendRequests hook { w0 with drv := d1 } [] reqs = res at k3 k4 hnilreq ⊢
      obtain ⟨w2, rs⟩ := res
      dsimp only at k3 k4 ⊢
      cases rs with
      | error e => exact ⟨k3, fun _ h => nomatch h⟩
      | ok rs =>
        dsimp only
        split
        · exact ⟨k3, fun _ h => nomatch h⟩
        · refine ⟨k3, ?_⟩
          intro res hres hgood
          simp only [Except.ok.injEq] at hres
          subst hres
          apply k4 rs rfl
          intro hnil
          have := hnilreq hnil
          simp only [Prod.mk.injEq, Except.ok.injEq] at this
          obtain ⟨_, hrs⟩ := this
          subst hrs
          rw [List.any_map] at hgood
          obtain ⟨p, _, hp⟩ := List.any_eq_true.1 hgood
          have := lcl_readResult_nil p
          simp only [Function.comp] at hp
          cases hh' : (readResult p []).error with
          | none => rw [hh'] at this; cases this
          | some e => rw [hh'] at hp; cases hp

/-- `write`: likewise -/
theorem slb_write_seq {σ} (hook : ObjHook σ) (hh : Cli.lci_HookOk hook) (hn : Cli.lcs_HookNoSeq hook) (S : Prop)
    (B : Nat) (cfg : Cfg) (w : Cli.World σ) (tvs : List (Name × PyVal)) (hi : Cli.lci_Inv S w) (hc : Cli.lci_Conn w)
    (hq : Cli.lcl_SeqB B w)
    (hfl : w.net.faults.length + (B + 3 * tvs.length + 1 + slb_writeRounds hook cfg w tvs) < 65534) :
    Cli.lcl_SeqB (B + 3 * tvs.length + 1 + slb_writeRounds hook cfg w tvs) (write hook cfg w tvs).1 ∧
    (∀ res, (write hook cfg w tvs).2 = .ok res → res.any (fun t => t.error.isNone) = true →
      Cli.lcl_SeqB (3 * tvs.length + 1 + slb_writeRounds hook cfg w tvs) (write hook cfg w tvs).1) := by
  obtain ⟨b1, b2, b3⟩ := Cli.lci_cli_ensureFO hook S Cli.FUEL w hi hc _ rfl
  have b4 := Cli.lcl_ensureFO_seq hook hh hn B Cli.FUEL w hq
  have b5 := ((Cli.lci_NStep_mutual hook hh Cli.FUEL).2.1 w).2.1
  generalize hR : slb_writeRounds hook cfg w tvs = R at hfl ⊢
  unfold slb_writeRounds at hR
  unfold write
  generalize Cli.ensureForwardOpen hook Cli.FUEL w = r0 at b1 b2 b3 b4 b5 hR ⊢
  obtain ⟨w0, pre⟩ := r0
  dsimp only at b1 b2 b3 b4 b5 hR ⊢
  have hfl0 : w0.net.faults.length + (B + 3 * tvs.length + 1 + R) < 65534 := by rw [b5]; exact hfl
  cases pre with
  | error e => exact ⟨Cli.lcl_SeqB_mono b4 (by omega) hfl0, fun _ h => nomatch h⟩
  | ok u =>
    dsimp only at hR ⊢
    suffices hgoal : ∀ result : Cli.World σ × Except Exn (List LTag),
        (match writeBuildRequests cfg w0.drv (lds_wparse cfg.tags tvs) with
        | (d1, built) =>
          match built with
          | .error e => (({ w0 with drv := d1 } : Cli.World σ), (Except.error e : Except Exn (List LTag)))
          | .ok (parsed', reqs) =>
            match sendRequests hook { w0 with drv := d1 } [] reqs with
            | (w2, rs) =>
              match rs with
              | .error e => (w2, .error e)
              | .ok rs =>
                match fanOutRmw rs reqs with
                | none => (w2, .error (.foreign "KeyError"))
                | some rs' =>
                  if tvs.isEmpty then (w2, .error (.foreign "IndexError"))
                  else (w2, .ok (parsed'.map fun p => writeResult p rs'))) = result →
        Cli.lcl_SeqB (B + 3 * tvs.length + 1 + R) result.1 ∧
        (∀ res, result.2 = .ok res → res.any (fun t => t.error.isNone) = true →
          Cli.lcl_SeqB (3 * tvs.length + 1 + R) result.1) from hgoal _ rfl
    intro result hres
    obtain ⟨L, hL, hlen, hS⟩ := lcl_writeBuild_draws cfg w0.drv (lds_wparse cfg.tags tvs)
    have hso := lcl_writeBuildRequests_seq cfg w0.drv (lds_wparse cfg.tags tvs)
    rw [lds_wparse_length] at hlen
    rcases hbr : writeBuildRequests cfg w0.drv (lds_wparse cfg.tags tvs) with ⟨d1, built⟩
    rw [hbr] at hL hS hso hres hR
    dsimp only at hL hS hso hres hR
    cases built with
    | error e =>
      dsimp only at hres
      subst hres
      obtain ⟨k1, _⟩ := lcl_body_seq hook hh hn S B (3 * tvs.length) w0 ⟨b1, b2, b3 rfl⟩ b4 (by omega) d1 L hL hlen hso
      exact ⟨Cli.lcl_SeqB_mono k1 (by omega) hfl0, fun _ h => nomatch h⟩
    | ok x =>
      obtain ⟨ps', reqs⟩ := x
      dsimp only at hres hR
      obtain ⟨Sq, hsub, hperm⟩ := hS (ps', reqs) rfl
      subst hR
      obtain ⟨k3, k4⟩ := slb_body_seq hook hh hn S B (3 * tvs.length) w0 ⟨b1, b2, b3 rfl⟩ b4 d1 L hL hlen hso reqs []
        Sq hsub hperm hfl0
      have hnilreq : reqs = [] → sendRequests hook { w0 with drv := d1 } [] reqs = ({ w0 with drv := d1 }, .ok []) := by
        intro h; subst h; rfl
      generalize slb_loopDraws hook ({ w0 with drv := d1 } : Cli.World σ) [] reqs = R at k3 k4 ⊢
      generalize hsr : sendRequests hook { w0 with drv := d1 } [] reqs = res at k3 k4 hnilreq hres
      obtain ⟨w2, rs⟩ := res
      dsimp only at k3 k4 hres
      cases rs with
      | error e => dsimp only at hres; subst hres; exact ⟨k3, fun _ h => nomatch h⟩
      | ok rs =>
        dsimp only at hres
        cases hfo : fanOutRmw rs reqs with
        | none => rw [hfo] at hres; dsimp only at hres; subst hres; exact ⟨k3, fun _ h => nomatch h⟩
        | some rs' =>
          rw [hfo] at hres
          dsimp only at hres
          split at hres
          · subst hres; exact ⟨k3, fun _ h => nomatch h⟩
          · subst hres
            refine ⟨k3, ?_⟩
            intro res hres' hgood
            simp only [Except.ok.injEq] at hres'
            subst hres'
            apply k4 rs rfl
            intro hnil
            have := hnilreq hnil
            simp only [Prod.mk.injEq, Except.ok.injEq] at this
            obtain ⟨_, hrs⟩ := this
            subst hrs
            subst hnil
            simp only [fanOutRmw, Option.some.injEq] at hfo
            subst hfo
            rw [List.any_map] at hgood
            obtain ⟨p, _, hp⟩ := List.any_eq_true.1 hgood
            have := lcl_writeResult_nil p
            simp only [Function.comp] at hp
            cases hh' : (writeResult p []).error with
            | none => rw [hh'] at this; cases this
            | some e => rw [hh'] at hp; cases hp

end Pycomm.Lgx.Drv
