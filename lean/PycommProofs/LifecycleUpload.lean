/-
  C10 (connection lifecycle is safe under any call history and failure point) and C17 (sequence counts never repeat
  on consecutive connected messages) with the UPLOADS in the quantifier: `LogixDriver.open()` itself — `CIPDriver.open`
  followed by `_initialize_driver` (`_list_identity`, `get_plc_info`, `get_plc_name`, `get_tag_list` with its paged
  symbol-list requests, template attribute requests and fragmented template reads) — and `get_tag_list` called again
  later (model: PycommModel/Logix/Open.lean; helper lemmas: LCUp1.lean … LCUp6.lean).

  Which transport the upload requests use: ListIdentity is its own encapsulation command, `get_plc_info` is an
  UNCONNECTED `generic_message` (SendRRData, through an Unconnected Send unless the target is a Micro800); everything
  else — `get_plc_name`, the symbol-list pages, the template attribute requests, the template reads — is a CONNECTED
  request behind the `@with_forward_open` decorator, each with a sequence count drawn immediately before the send.
-/
import PycommProofs.LifecycleLogix
import PycommProofs.LCUp3
import PycommProofs.LCUp4
import PycommProofs.LCUp6
import PycommProofs.LogixOpenNested
import PycommProofs.SeqLogixBounded
namespace Pycomm.Cli
open Pycomm.Tgt Pycomm.Encap Pycomm.Path Pycomm.Lgx

/-! ### the call alphabet with the uploads -/

/-- the calls of `LCall` (open / close / generic_message / read / write of a driver whose tag database is arbitrary
    per call) and the two uploads.  The state they run on is the world together with the attributes the LogixDriver
    adds (`Opn.LDrv`: `_info`, `_tags`, `_micro800`, …), which the uploads read and write. -/
inductive UCall where
  | base (c : LCall)
  | logixOpen (cfg : Opn.Config) (rnd : Bytes)   -- `LogixDriver(path, init_tags, init_program_tags).open()`
  | getTagList (allPrograms : Bool)              -- `get_tag_list(program='*')` / `get_tag_list()`

/-- one call against world and LogixDriver attributes -/
def ucallStep {σ} (hook : ObjHook σ) (s : World σ × Opn.LDrv) : UCall → (World σ × Opn.LDrv) × Outcome
  | .base c => (((lcallStep hook s.1 c).1, s.2), (lcallStep hook s.1 c).2)
  | .logixOpen cfg rnd => match Opn.openLogixSt hook cfg s.1 s.2 rnd with
      | (w', l', .ok _) => ((w', l'), .ok)
      | (w', l', .error e) => ((w', l'), .raised e)
  | .getTagList ap => match Opn.getTagList hook s.1 s.2 ap with
      | (w', l', .ok _) => ((w', l'), .ok)
      | (w', l', .error e) => ((w', l'), .raised e)

def urun {σ} (hook : ObjHook σ) (s : World σ × Opn.LDrv) : List UCall → World σ × Opn.LDrv
  | [] => s
  | c :: cs => urun hook (ucallStep hook s c).1 cs

theorem urun_append {σ} (hook : ObjHook σ) (a b : List UCall) :
    ∀ s : World σ × Opn.LDrv, urun hook s (a ++ b) = urun hook (urun hook s a) b := by
  induction a with
  | nil => intro s; rfl
  | cons c cs ih => intro s; simp only [List.cons_append, urun]; exact ih _

/-- the old alphabet inside the new one -/
theorem urun_base {σ} (hook : ObjHook σ) (calls : List LCall) :
    ∀ (w : World σ) (l : Opn.LDrv), urun hook (w, l) (calls.map UCall.base) = (lrun hook w calls, l) := by
  induction calls with
  | nil => intro w l; rfl
  | cons c cs ih => intro w l; simp only [List.map_cons, urun, ucallStep, lrun]; exact ih _ _

theorem ucallStep_open_world {σ} (hook : ObjHook σ) (s : World σ × Opn.LDrv) (cfg : Opn.Config) (rnd : Bytes) :
    (ucallStep hook s (.logixOpen cfg rnd)).1.1 = (Opn.openLogixSt hook cfg s.1 s.2 rnd).1 := by
  simp only [ucallStep]
  generalize Opn.openLogixSt hook cfg s.1 s.2 rnd = r
  obtain ⟨w', l', o⟩ := r
  cases o <;> rfl

theorem ucallStep_gtl_world {σ} (hook : ObjHook σ) (s : World σ × Opn.LDrv) (ap : Bool) :
    (ucallStep hook s (.getTagList ap)).1.1 = (Opn.getTagList hook s.1 s.2 ap).1 := by
  simp only [ucallStep]
  generalize Opn.getTagList hook s.1 s.2 ap = r
  obtain ⟨w', l', o⟩ := r
  cases o <;> rfl

/-- evaluable checks on a history: every generic_message call avoids the Connection Manager / every open() —
    `CIPDriver.open` as well as `LogixDriver.open` — gets 8 random bytes -/
def uhistAvoidsCM : List UCall → Bool
  | [] => true
  | .base (.generic a) :: cs => AvoidsCM a && uhistAvoidsCM cs
  | _ :: cs => uhistAvoidsCM cs

def uhistRnd8 : List UCall → Bool
  | [] => true
  | .base (.open rnd) :: cs => decide (rnd.length = 8) && uhistRnd8 cs
  | .logixOpen _ rnd :: cs => decide (rnd.length = 8) && uhistRnd8 cs
  | _ :: cs => uhistRnd8 cs

theorem uhistAvoidsCM_spec (calls : List UCall) (h : uhistAvoidsCM calls = true) :
    ∀ a, UCall.base (.generic a) ∈ calls → AvoidsCM a = true := by
  induction calls with
  | nil => intro a ha; cases ha
  | cons c cs ih =>
    intro a ha
    rcases List.mem_cons.1 ha with e | ha
    · subst e
      simp only [uhistAvoidsCM, Bool.and_eq_true] at h
      exact h.1
    · refine ih ?_ a ha
      cases c with
      | base c =>
        cases c with
        | generic b => simp only [uhistAvoidsCM, Bool.and_eq_true] at h; exact h.2
        | «open» _ | close | read _ _ | write _ _ => exact h
      | logixOpen _ _ | getTagList _ => exact h

theorem uhistRnd8_spec (calls : List UCall) (h : uhistRnd8 calls = true) :
    (∀ rnd, UCall.base (.open rnd) ∈ calls → rnd.length = 8) ∧
    (∀ cfg rnd, UCall.logixOpen cfg rnd ∈ calls → rnd.length = 8) := by
  induction calls with
  | nil => exact ⟨fun _ h => (nomatch h), fun _ _ h => (nomatch h)⟩
  | cons c cs ih =>
    have hcs : uhistRnd8 cs = true := by
      cases c with
      | base c =>
        cases c with
        | «open» b => simp only [uhistRnd8, Bool.and_eq_true] at h; exact h.2
        | generic _ | close | read _ _ | write _ _ => exact h
      | logixOpen _ _ => simp only [uhistRnd8, Bool.and_eq_true] at h; exact h.2
      | getTagList _ => exact h
    obtain ⟨i1, i2⟩ := ih hcs
    constructor
    · intro rnd hm
      rcases List.mem_cons.1 hm with e | hm
      · subst e
        simp only [uhistRnd8, Bool.and_eq_true, decide_eq_true_eq] at h
        exact h.1
      · exact i1 rnd hm
    · intro cfg rnd hm
      rcases List.mem_cons.1 hm with e | hm
      · subst e
        simp only [uhistRnd8, Bool.and_eq_true, decide_eq_true_eq] at h
        exact h.1
      · exact i2 cfg rnd hm

/-! ### C10: the invariants along histories with uploads -/

/-- a call of the old alphabet leaves the configured route alone -/
theorem lcu_PathStep_lcall {σ} (hook : ObjHook σ) (w : World σ) (c : LCall) :
    Opn.lcu_PathStep w (lcallStep hook w c).1 := by
  cases c with
  | «open» rnd =>
    have := Opn.lcu_PathStep_open hook w rnd
    simp only [lcallStep]
    generalize openDrv hook w rnd = r at this ⊢
    obtain ⟨w', o⟩ := r
    cases o <;> exact this
  | close =>
    have := Opn.lcu_PathStep_close hook w
    simp only [lcallStep]
    generalize closeDrv hook w = r at this ⊢
    obtain ⟨w', o⟩ := r
    cases o <;> exact this
  | generic a =>
    have := (Opn.lcu_PathStep_mutual hook FUEL).2.2 w a
    simp only [lcallStep]
    generalize genericMessage hook FUEL w a = r at this ⊢
    obtain ⟨w', o⟩ := r
    cases o <;> exact this
  | read cfg tags =>
    have := Opn.lcu_PathStep_read hook cfg w tags
    simp only [lcallStep]
    generalize Lgx.Drv.read hook cfg w tags = r at this ⊢
    obtain ⟨w', o⟩ := r
    cases o <;> exact this
  | write cfg tvs =>
    have := Opn.lcu_PathStep_write hook cfg w tvs
    simp only [lcallStep]
    generalize Lgx.Drv.write hook cfg w tvs = r at this ⊢
    obtain ⟨w', o⟩ := r
    cases o <;> exact this

/-- the invariant `lcu_InvP` (lifecycle invariant, connectedness, acceptable routes) is preserved by every call -/
theorem lcu_call_inv {σ} (hook : ObjHook σ) (hh : HookOk hook) (S : Prop) (s : World σ × Opn.LDrv) (c : UCall)
    (ho : ∀ rnd, c = .base (.open rnd) → S → rnd.length = 8)
    (hlo : ∀ cfg rnd, c = .logixOpen cfg rnd → S → rnd.length = 8)
    (hg : ∀ a, c = .base (.generic a) → AvoidsCM a = true)
    (hi : Opn.lcu_InvP S s.1) : Opn.lcu_InvP S (ucallStep hook s c).1.1 := by
  cases c with
  | base c =>
    exact Opn.lcu_InvP_step hi (lcu_PathStep_lcall hook s.1 c)
      (lcl_call_inv hook hh S s.1 c (fun rnd e => ho rnd (e ▸ rfl)) (fun a e => hg a (e ▸ rfl)) hi.inv hi.conn)
  | logixOpen cfg rnd =>
    rw [ucallStep_open_world]
    exact Opn.lcu_openLogixSt_closed (Opn.lcu_closed_inv hook hh S) cfg s.1 s.2 rnd (hlo cfg rnd rfl) hi
  | getTagList ap =>
    rw [ucallStep_gtl_world]
    exact Opn.lcu_getTagList_closed (Opn.lcu_closed_inv hook hh S) s.1 s.2 ap hi

theorem lcu_run_inv {σ} (hook : ObjHook σ) (hh : HookOk hook) (S : Prop) (calls : List UCall) :
    ∀ (s : World σ × Opn.LDrv), (∀ rnd, UCall.base (.open rnd) ∈ calls → S → rnd.length = 8) →
      (∀ cfg rnd, UCall.logixOpen cfg rnd ∈ calls → S → rnd.length = 8) →
      (∀ a, UCall.base (.generic a) ∈ calls → AvoidsCM a = true) → Opn.lcu_InvP S s.1 →
      Opn.lcu_InvP S (urun hook s calls).1 := by
  induction calls with
  | nil => intro s _ _ _ hi; exact hi
  | cons c cs ih =>
    intro s ho hlo hg hi
    have h1 := lcu_call_inv hook hh S s c (fun rnd e => ho rnd (e ▸ List.mem_cons_self))
      (fun cfg rnd e => hlo cfg rnd (e ▸ List.mem_cons_self)) (fun a e => hg a (e ▸ List.mem_cons_self)) hi
    exact ih _ (fun rnd h => ho rnd (List.mem_cons_of_mem _ h)) (fun cfg rnd h => hlo cfg rnd (List.mem_cons_of_mem _ h))
      (fun a h => hg a (List.mem_cons_of_mem _ h)) h1

/-- every call keeps the idle invariant of LCIdle.lean -/
theorem lcu_call_net {σ} (hook : ObjHook σ) (hh : HookOk hook) (F : List Fault) (P : Policy) (s : World σ × Opn.LDrv)
    (c : UCall) (hi : lci_Inv False s.1) (hn : lci_Net F P s.1) : lci_Net F P (ucallStep hook s c).1.1 := by
  cases c with
  | base c => exact lcl_call_net hook hh F P s.1 c hi hn
  | logixOpen cfg rnd =>
    rw [ucallStep_open_world]
    exact Opn.lcu_openLogixSt_closed (Opn.lcu_closed_net hook hh F P) cfg s.1 s.2 rnd trivial hn
  | getTagList ap =>
    rw [ucallStep_gtl_world]
    exact Opn.lcu_getTagList_closed (Opn.lcu_closed_net hook hh F P) s.1 s.2 ap hn

theorem lcu_run_net {σ} (hook : ObjHook σ) (hh : HookOk hook) (F : List Fault) (P : Policy) (calls : List UCall) :
    ∀ (s : World σ × Opn.LDrv), (∀ a, UCall.base (.generic a) ∈ calls → AvoidsCM a = true) →
      Opn.lcu_InvP False s.1 → lci_Net F P s.1 →
      Opn.lcu_InvP False (urun hook s calls).1 ∧ lci_Net F P (urun hook s calls).1 := by
  induction calls with
  | nil => intro s _ hi hn; exact ⟨hi, hn⟩
  | cons c cs ih =>
    intro s hg hi hn
    have h1 := lcu_call_inv hook hh False s c (fun _ _ h => h.elim) (fun _ _ _ h => h.elim)
      (fun a e => hg a (e ▸ List.mem_cons_self)) hi
    exact ih _ (fun a h => hg a (List.mem_cons_of_mem _ h)) h1 (lcu_call_net hook hh F P s c hi.inv hn)

/-- a fresh world satisfies `lcu_InvP` -/
theorem lcu_fresh_inv {σ} (S : Prop) (w : World σ) (hf : Fresh w)
    (hp : S → ∀ n, PathOk (Opn.lcu_popN n w.drv.cipPath)) : Opn.lcu_InvP S w := by
  obtain ⟨hi, hc⟩ := lci_fresh_inv S w hf (fun hs => hp hs 0)
  exact ⟨hi, hc, hp⟩

/-- the routes the pop can leave form a finite list: after `cip.length` pops nothing changes any more -/
theorem lcu_popN_length (n : Nat) : ∀ p : List Seg, (Opn.lcu_popN n p).length ≤ p.length := by
  induction n with
  | zero => intro p; exact Nat.le_refl _
  | succ n ih =>
    intro p
    refine Nat.le_trans (ih _) ?_
    unfold Opn.popPortSegment
    split
    · split
      · simp
      · exact Nat.le_refl _
    · exact Nat.le_refl _

theorem lcu_popN_nil (n : Nat) : Opn.lcu_popN n [] = [] := by
  induction n with
  | zero => rfl
  | succ n ih => exact ih

/-! ### C17: budgets over the extended alphabet -/

/-- the calls of the old alphabet in a history -/
def ubase : List UCall → List LCall
  | [] => []
  | .base c :: cs => c :: ubase cs
  | _ :: cs => ubase cs

theorem mem_ubase (calls : List UCall) (c : LCall) : c ∈ ubase calls ↔ UCall.base c ∈ calls := by
  induction calls with
  | nil => simp [ubase]
  | cons x xs ih =>
    cases x with
    | base d => simp only [ubase, List.mem_cons, ih, UCall.base.injEq]
    | logixOpen _ _ => simp only [ubase, List.mem_cons, ih, reduceCtorEq, false_or]
    | getTagList _ => simp only [ubase, List.mem_cons, ih, reduceCtorEq, false_or]

/-- the sequence numbers a call may draw without sending them: an upload draws none — each of its connected
    requests is sent with the count drawn immediately before (`getTagList_fresh`) -/
def UCall.budget : UCall → Nat
  | .base c => c.budget
  | _ => 0

/-- the budget after a call (`lnextB`): an upload leaves it as it is -/
def unextB {σ} (hook : ObjHook σ) (B : Nat) (s : World σ × Opn.LDrv) : UCall → Nat
  | .base c => lnextB hook B s.1 c
  | _ => B

theorem unextB_le {σ} (hook : ObjHook σ) (B : Nat) (s : World σ × Opn.LDrv) (c : UCall) :
    unextB hook B s c ≤ B + c.budget := by
  cases c with
  | base c => exact lnextB_le hook B s.1 c
  | logixOpen _ _ | getTagList _ => exact Nat.le_refl _

/-- the largest budget along the run (equal to `lbudgetR` on histories without uploads): close() starts a new
    segment at 0, an answered read / write at its own budget -/
def ubudgetR {σ} (hook : ObjHook σ) : Nat → World σ × Opn.LDrv → List UCall → Nat
  | cur, _, [] => cur
  | cur, s, c :: cs => max (cur + c.budget) (ubudgetR hook (unextB hook cur s c) (ucallStep hook s c).1 cs)

/-- the budget computed from the history alone: only close() starts a new segment -/
def ubudget : Nat → List UCall → Nat
  | cur, [] => cur
  | cur, .base .close :: cs => max cur (ubudget 0 cs)
  | cur, c :: cs => ubudget (cur + c.budget) cs

theorem ubudget_step (cur : Nat) (c : UCall) (cs : List UCall) (hc : c ≠ .base .close) :
    ubudget cur (c :: cs) = ubudget (cur + c.budget) cs := by
  cases c with
  | base d =>
    cases d with
    | close => exact absurd rfl hc
    | «open» _ | generic _ | read _ _ | write _ _ => rfl
  | logixOpen _ _ | getTagList _ => rfl

theorem ubudget_ge (calls : List UCall) : ∀ cur, cur ≤ ubudget cur calls := by
  induction calls with
  | nil => intro cur; exact Nat.le_refl _
  | cons c cs ih =>
    intro cur
    by_cases hc : c = .base .close
    · subst hc; simp only [ubudget]; omega
    · rw [ubudget_step cur c cs hc]; exact Nat.le_trans (Nat.le_add_right _ _) (ih _)

theorem ubudget_mono (calls : List UCall) : ∀ cur cur', cur ≤ cur' → ubudget cur calls ≤ ubudget cur' calls := by
  induction calls with
  | nil => intro cur cur' h; exact h
  | cons c cs ih =>
    intro cur cur' h
    by_cases hc : c = .base .close
    · subst hc; simp only [ubudget]; omega
    · rw [ubudget_step cur c cs hc, ubudget_step cur' c cs hc]; exact ih _ _ (by omega)

/-- the budget along the run never exceeds the static budget -/
theorem ubudgetR_le {σ} (hook : ObjHook σ) (calls : List UCall) :
    ∀ (cur : Nat) (s : World σ × Opn.LDrv), ubudgetR hook cur s calls ≤ ubudget cur calls := by
  induction calls with
  | nil => intro cur s; exact Nat.le_refl _
  | cons c cs ih =>
    intro cur s
    simp only [ubudgetR]
    have h1 := ih (unextB hook cur s c) (ucallStep hook s c).1
    by_cases hc : c = .base .close
    · subst hc
      have h0 := ih 0 (ucallStep hook s (.base .close)).1
      show max (cur + 0) (ubudgetR hook 0 (ucallStep hook s (.base .close)).1 cs) ≤ max cur (ubudget 0 cs)
      omega
    · rw [ubudget_step cur c cs hc]
      have h2 := ubudget_mono cs _ _ (unextB_le hook cur s c)
      have h3 := ubudget_ge cs (cur + c.budget)
      omega

/-- lifecycle, idle, size and sequence invariants along every history of the alphabet with uploads -/
theorem lcu_run_seq {σ} (hook : ObjHook σ) (hh : HookOk hook) (hn : HookQuietSeq hook) (F : List Fault) (P : Policy)
    (calls : List UCall) :
    ∀ (s : World σ × Opn.LDrv) (B : Nat), (∀ a, UCall.base (.generic a) ∈ calls → AvoidsCM a = true) →
      (∀ a, UCall.base (.generic a) ∈ calls → a.connected = true → SizeOk a = true) →
      (∀ c, UCall.base c ∈ calls → c.LoopsLast) →
      Opn.lcu_SeqI B s.1 → lci_Net F P s.1 → lcl_Sz s.1.drv →
      F.length + ubudgetR hook B s calls < 65534 → ∃ B', lcl_SeqB B' (urun hook s calls).1 := by
  induction calls with
  | nil => intro s B _ _ _ hq _ _ _; exact ⟨B, hq.seq⟩
  | cons c cs ih =>
    intro s B hg hs hl hq hnet hsz hb
    simp only [ubudgetR] at hb
    have hb1 : F.length + (B + c.budget) < 65534 := by omega
    have hb2 : F.length + ubudgetR hook (unextB hook B s c) (ucallStep hook s c).1 cs < 65534 := by omega
    suffices h : Opn.lcu_SeqI (unextB hook B s c) (ucallStep hook s c).1.1 ∧ lci_Net F P (ucallStep hook s c).1.1 ∧
        lcl_Sz (ucallStep hook s c).1.1.drv from
      ih _ _ (fun a h => hg a (List.mem_cons_of_mem _ h)) (fun a h => hs a (List.mem_cons_of_mem _ h))
        (fun c' h => hl c' (List.mem_cons_of_mem _ h)) h.1 h.2.1 h.2.2 hb2
    cases c with
    | base c =>
      obtain ⟨h1, h2⟩ := lcl_call_inv hook hh False s.1 c (fun _ _ h => h.elim)
        (fun a e => hg a (e ▸ List.mem_cons_self)) hq.inv hq.conn
      have h5 := lcu_lcall_seq hook hh hn F P s.1 B c (fun a e => hs a (e ▸ List.mem_cons_self))
        (hl c List.mem_cons_self) hq.inv hq.conn hnet hsz hq.seq hb1
      exact ⟨⟨h1, h2, h5⟩, lcl_call_net hook hh F P s.1 c hq.inv hnet, lcl_call_sz hook s.1 c hsz⟩
    | logixOpen cfg rnd =>
      rw [ucallStep_open_world]
      exact ⟨Opn.lcu_openLogixSt_closed (Opn.lcu_closed_seq hook hh hn B) cfg s.1 s.2 rnd trivial hq,
        Opn.lcu_openLogixSt_closed (Opn.lcu_closed_net hook hh F P) cfg s.1 s.2 rnd trivial hnet,
        Opn.lcu_openLogixSt_closed (Opn.lcu_closed_sz hook) cfg s.1 s.2 rnd trivial hsz⟩
    | getTagList ap =>
      rw [ucallStep_gtl_world]
      exact ⟨Opn.lcu_getTagList_closed (Opn.lcu_closed_seq hook hh hn B) s.1 s.2 ap hq,
        Opn.lcu_getTagList_closed (Opn.lcu_closed_net hook hh F P) s.1 s.2 ap hnet,
        Opn.lcu_getTagList_closed (Opn.lcu_closed_sz hook) s.1 s.2 ap hsz⟩

/-! ### failures -/

/-- does the call run the loop over the programs (`get_tag_list('*')`)? -/
def UCall.allPrograms : UCall → Bool
  | .logixOpen cfg _ => cfg.initTags && cfg.initProgramTags
  | .getTagList ap => ap
  | .base _ => false

/-- what an upload can raise besides the library's exceptions:
    * the fuel marker `.hang` of the model (the real call would not return / would end in RecursionError) — only when
      a page loop ran through `PAGE_FUEL` = 100000 rounds each answered with status 6, or a template read ran through
      `TMPL_FUEL` = 100000 rounds each answered with status 6, or structure definitions are nested deeper than
      `DT_FUEL` = 64 levels (`Opn.lcu_HangSrc`);
    * the marker `Opn.unmodelled`: the controller's data leaves the universe of types of the model (an elementary
      type outside `Cl.atomicTy`, a template without a name);
    * RuntimeError("dictionary changed size during iteration") — only from `get_tag_list('*')`, and only when the
      symbol list of a program scope lists a symbol whose name starts with `Program:` (`Opn.lcu_RtSrc`) -/
def UploadCorner {σ} (hook : ObjHook σ) (c : UCall) (e : Exn) : Prop :=
  (e = .hang ∧ Opn.lcu_HangSrc hook) ∨ e = Opn.unmodelled ∨
  (e = .foreign "RuntimeError" ∧ c.allPrograms = true ∧ Opn.lcu_RtSrc hook)

theorem ucallStep_open_err {σ} (hook : ObjHook σ) (s : World σ × Opn.LDrv) (cfg : Opn.Config) (rnd : Bytes) (e : Exn)
    (h : (ucallStep hook s (.logixOpen cfg rnd)).2 = .raised e) : (Opn.openLogixSt hook cfg s.1 s.2 rnd).2.2 = .error e := by
  simp only [ucallStep] at h
  generalize Opn.openLogixSt hook cfg s.1 s.2 rnd = r at h ⊢
  obtain ⟨w', l', o⟩ := r
  cases o with
  | error e' => cases h; rfl
  | ok b => cases h

theorem ucallStep_gtl_err {σ} (hook : ObjHook σ) (s : World σ × Opn.LDrv) (ap : Bool) (e : Exn)
    (h : (ucallStep hook s (.getTagList ap)).2 = .raised e) : (Opn.getTagList hook s.1 s.2 ap).2.2 = .error e := by
  simp only [ucallStep] at h
  generalize Opn.getTagList hook s.1 s.2 ap = r at h ⊢
  obtain ⟨w', l', o⟩ := r
  cases o with
  | error e' => cases h; rfl
  | ok b => cases h

-- PROPERTY THEOREMS

/-- `get_tag_list` (for `program='*'` and `program=None`): when the `@with_forward_open` decorator raises, the world
    is the one the decorator left; otherwise the call takes that world along `lcl_Reach` — changes of the sequence
    counter and connected requests through `CIPDriver.send` — whatever its outcome (returned, ResponseError, …).
    No unconnected request is involved. -/
theorem getTagList_reach {σ} (hook : ObjHook σ) (w : World σ) (l : Opn.LDrv) (allPrograms : Bool)
    (r0 : World σ × Except Exn Unit) (h0 : ensureForwardOpen hook FUEL w = r0) :
    (∀ e, r0.2 = .error e → (Opn.getTagList hook w l allPrograms).1 = r0.1) ∧
    (∀ u, r0.2 = .ok u → Lgx.Drv.lcl_Reach hook r0.1 (Opn.getTagList hook w l allPrograms).1) := by
  obtain ⟨r1, r2⟩ := Opn.lcu_getTagList_fresh hook w l allPrograms r0 h0
    (fun u h => Opn.lcu_efo_ok_conn hook FUEL w r0.1 u (by rw [h0, ← h]))
  exact ⟨r1, fun u h => Opn.lcu_Fresh_reach (r2 u h)⟩

/-- the sharper form: every step is a connected request whose sequence count was drawn immediately before it is
    sent (`lcu_Fresh`): the upload builds no packet in advance -/
theorem getTagList_fresh {σ} (hook : ObjHook σ) (w : World σ) (l : Opn.LDrv) (allPrograms : Bool)
    (r0 : World σ × Except Exn Unit) (h0 : ensureForwardOpen hook FUEL w = r0) :
    (∀ e, r0.2 = .error e → (Opn.getTagList hook w l allPrograms).1 = r0.1) ∧
    (∀ u, r0.2 = .ok u → Opn.lcu_Fresh hook r0.1 (Opn.getTagList hook w l allPrograms).1) :=
  Opn.lcu_getTagList_fresh hook w l allPrograms r0 h0
    (fun u h => Opn.lcu_efo_ok_conn hook FUEL w r0.1 u (by rw [h0, ← h]))

/-- `get_tag_list` preserves the lifecycle invariant of LCInv.lean and connectedness — whatever the driver holds in
    `_info`, whatever the controller answers, the fault plan, the target policy, and whether the call returns or
    raises -/
theorem getTagList_preserves_inv {σ} (hook : ObjHook σ) (hh : HookOk hook) (S : Prop) (w : World σ) (l : Opn.LDrv)
    (allPrograms : Bool) (hi : lci_Inv S w) (hc : lci_Conn w) :
    lci_Inv S (Opn.getTagList hook w l allPrograms).1 ∧ lci_Conn (Opn.getTagList hook w l allPrograms).1 := by
  obtain ⟨b1, b2, b3⟩ := lci_cli_ensureFO hook S FUEL w hi hc _ rfl
  obtain ⟨r1, r2⟩ := getTagList_reach hook w l allPrograms _ rfl
  generalize ensureForwardOpen hook FUEL w = r0 at b1 b2 b3 r1 r2
  obtain ⟨w0, pre⟩ := r0
  cases pre with
  | error e => rw [r1 e rfl]; exact ⟨b1, b2⟩
  | ok u =>
    obtain ⟨a1, a2, _⟩ := Lgx.Drv.lcl_Reach_inv hh (r2 u rfl) b1 b2 (b3 rfl)
    exact ⟨a1, a2⟩

/-- `LogixDriver.open()` — `CIPDriver.open`, ListIdentity, `get_plc_info` (unconnected), `get_plc_name`, the Micro800
    route pop and `get_tag_list` — preserves the lifecycle invariant and connectedness from ANY world that satisfies
    them, whatever `init_tags` / `init_program_tags`, the replies, the fault plan and the outcome.
    Hypotheses (only when the Forward-Open discipline `S` is tracked): `hr` urandom delivers 8 bytes; `hp` every route
    that popping trailing port segments can leave is acceptable to the target — `_initialize_driver` pops one segment
    per call when the identity says Micro800, also when `open()` is called again on an open driver. -/
theorem open_logix_preserves_inv {σ} (hook : ObjHook σ) (hh : HookOk hook) (S : Prop) (cfg : Opn.Config) (w : World σ)
    (l : Opn.LDrv) (rnd : Bytes) (hr : S → rnd.length = 8) (hi : lci_Inv S w) (hc : lci_Conn w)
    (hp : S → ∀ n, PathOk (Opn.lcu_popN n w.drv.cipPath)) :
    lci_Inv S (Opn.openLogixSt hook cfg w l rnd).1 ∧ lci_Conn (Opn.openLogixSt hook cfg w l rnd).1 ∧
    (S → ∀ n, PathOk (Opn.lcu_popN n (Opn.openLogixSt hook cfg w l rnd).1.drv.cipPath)) := by
  have h := Opn.lcu_openLogixSt_closed (Opn.lcu_closed_inv hook hh S) cfg w l rnd hr ⟨hi, hc, hp⟩
  exact ⟨h.inv, h.conn, h.pops⟩

/-- for EVERY history of open / close / generic_message / read / write / `LogixDriver.open()` / `get_tag_list` calls,
    every fault plan and every target policy, starting from a fresh driver with arbitrary LogixDriver attributes:
    nothing is ever sent on a connection before a session is registered and a Forward Open has succeeded.
    (`hg` as in `no_unit_data_before_open`; the uploads need no hypothesis.) -/
theorem no_unit_data_before_open_upload {σ} (hook : ObjHook σ) (hh : HookOk hook) (w : World σ) (hf : Fresh w)
    (l : Opn.LDrv) (calls : List UCall) (hg : ∀ a, UCall.base (.generic a) ∈ calls → AvoidsCM a = true) :
    NoEarlyUnitData (urun hook (w, l) calls).1.net.target.base.log :=
  (lcu_run_inv hook hh False calls (w, l) (fun _ _ h => h.elim) (fun _ _ _ h => h.elim) hg
    (lcu_fresh_inv False w hf (fun h => h.elim))).inv.t.noV

/-- for EVERY such history: the extended Forward Open is tried first with the configured size, the standard one
    only after the target refused the extended one, and then with the 500-byte size.
    Hypotheses as in `fo_order_logix`, with `ho` also for the `LogixDriver.open()` calls, and `hp` for every route the
    Micro800 pop can leave (`lcu_popN n`: `n` trailing port segments dropped; `pops_of_check` reduces it to the
    finitely many `n ≤ length`). -/
-- STATEMENT CHANGED: `hp` asks `PathOk` of the configured route AND of the routes obtained by dropping trailing port
-- segments.  `_initialize_driver` executes `self._cfg["cip_path"].pop()` whenever the identity says Micro800 — on
-- every `open()` call, also one on an already open driver — so the route of a later Forward Open is not the
-- configured one.  Routes that consist of port segments only — everything `parse_connection_path` produces — stay of
-- that shape when trailing segments are dropped (cf. the examples in `UEx` below; not proved in general); the
-- hypothesis excludes routes whose last port segment is needed to make sense of what precedes it.
-- Counterexample CE8 (`UEx.CE8`, #guard-confirmed; hook = hookAll, identity with product name "2080-LC", policy
-- stdFoOk := false, cipPath = [raw 11 02, port 1 "0"]: `PathOk cipPath` holds — 11 02 01 00 is ONE extended port
-- segment): [LogixDriver.open()]: the pop leaves [raw 11 02], whose encoding 11 02 20 02 24 01 swallows the message
-- router class into the link address; events = [violation "forward open: bad connection path", fo false 500 false]:
-- a standard Forward Open without a refused extended one before it.
theorem fo_order_upload {σ} (hook : ObjHook σ) (hh : HookOk hook) (w : World σ) (hf : Fresh w) (l : Opn.LDrv)
    (calls : List UCall) (hp : ∀ n, PathOk (Opn.lcu_popN n w.drv.cipPath))
    (ho : ∀ rnd, UCall.base (.open rnd) ∈ calls → rnd.length = 8)
    (hlo : ∀ cfg rnd, UCall.logixOpen cfg rnd ∈ calls → rnd.length = 8)
    (hg : ∀ a, UCall.base (.generic a) ∈ calls → AvoidsCM a = true) :
    FoDiscipline (urun hook (w, l) calls).1.net.target.base.events := by
  have h := (lcu_run_inv hook hh True calls (w, l) (fun rnd h _ => ho rnd h) (fun cfg rnd h _ => hlo cfg rnd h) hg
    (lcu_fresh_inv True w hf (fun _ => hp))).inv.t.fo trivial
  exact lci_FoOK_events _ h

/-- `hp` of `fo_order_upload` from finitely many checks -/
theorem pops_of_check (cip : List Seg) (h : ∀ n, n ≤ cip.length → PathOk (Opn.lcu_popN n cip)) :
    ∀ n, PathOk (Opn.lcu_popN n cip) := by
  -- popping is idempotent once the last segment is not a port segment; in particular after `length` pops
  have stable : ∀ (k : Nat) (p : List Seg), Opn.popPortSegment p = p → Opn.lcu_popN k p = p := by
    intro k
    induction k with
    | zero => intro p _; rfl
    | succ k ih => intro p hp; show Opn.lcu_popN k (Opn.popPortSegment p) = p; rw [hp]; exact ih p hp
  have split : ∀ (n : Nat) (p : List Seg), ∃ m, m ≤ p.length ∧ Opn.lcu_popN n p = Opn.lcu_popN m p := by
    intro n
    induction n with
    | zero => intro p; exact ⟨0, Nat.zero_le _, rfl⟩
    | succ n ih =>
      intro p
      by_cases hpp : Opn.popPortSegment p = p
      · exact ⟨0, Nat.zero_le _, stable (n + 1) p hpp⟩
      · have hlen : (Opn.popPortSegment p).length + 1 = p.length := by
          unfold Opn.popPortSegment at hpp ⊢
          split
          · rename_i seg hl
            have hne : p ≠ [] := by intro h0; rw [h0] at hl; cases hl
            split
            · simp only [List.length_dropLast]
              have : 0 < p.length := by
                cases p with
                | nil => exact absurd rfl hne
                | cons a t => simp
              omega
            · rename_i hb
              exfalso; apply hpp
              simp only [hl, hb]
              rfl
          · rename_i hx
            exfalso; apply hpp
            simp only [hx]
        obtain ⟨m, hm, he⟩ := ih (Opn.popPortSegment p)
        exact ⟨m + 1, by omega, he⟩
  intro n
  obtain ⟨m, hm, he⟩ := split n cip
  rw [he]
  exact h m hm

/-- in every state reachable from a fresh world by such a history, a driver without socket (or a closed TCP
    connection) means that the target holds no session -/
theorem reachable_idle_upload {σ} (hook : ObjHook σ) (hh : HookOk hook) (w : World σ) (hf : Fresh w) (l : Opn.LDrv)
    (calls : List UCall) (hg : ∀ a, UCall.base (.generic a) ∈ calls → AvoidsCM a = true) :
    let w' := (urun hook (w, l) calls).1
    (w'.drv.hasSock = false ∨ w'.net.tcpOpen = false) → w'.net.target.base.sessions = [] := by
  intro w' h
  have hn := (lcu_run_net hook hh _ _ calls (w, l) hg (lcu_fresh_inv False w hf (fun h => h.elim)) (lci_fresh_net w hf)).2
  apply hn.idle
  rcases h with h | h
  · rw [← hn.sock]; exact h
  · exact h

/-- after ANY such history from a fresh world, on a target that accepts sessions and with an empty fault plan:
    close() followed by open() registers a fresh session — uploads in the history do not get in the way -/
theorem reopen_after_any_history_upload {σ} (hook : ObjHook σ) (hh : HookOk hook) (w : World σ) (hf : Fresh w)
    (l : Opn.LDrv) (calls : List UCall) (hg : ∀ a, UCall.base (.generic a) ∈ calls → AvoidsCM a = true) (rnd : Bytes)
    (hpol : w.net.target.base.policy.sessionOk = true) (hfault : w.net.faults = []) :
    let w' := (urun hook (w, l) calls).1
    let w1 := (closeDrv hook w').1
    let r := openDrv hook w1 rnd
    r.2 = .ok true ∧ r.1.drv.session = some w1.net.target.base.nextSession ∧
    r.1.net.target.base.sessions = [w1.net.target.base.nextSession] ∧ r.1.drv.connectionOpened = true := by
  intro w'
  obtain ⟨hi', hn⟩ := lcu_run_net hook hh _ _ calls (w, l) hg (lcu_fresh_inv False w hf (fun h => h.elim))
    (lci_fresh_net w hf)
  exact reopen_works hook w' rnd (by rw [hn.pol]; exact hpol) (by rw [hn.faults]; exact hfault) hi'.inv.ctx8
    hi'.inv.opt0 ⟨hi'.inv.t.ns, hn.ns0⟩ (reachable_idle_upload hook hh w hf l calls hg)

/-- after a history that ends with close(): the driver reports not connected, has no session, no socket, and the
    connection flag is off — whatever uploads, reads and writes happened before, from any state -/
theorem after_close_driver_upload {σ} (hook : ObjHook σ) (s : World σ × Opn.LDrv) (calls : List UCall) :
    let w' := (urun hook s (calls ++ [.base .close])).1
    w'.drv.connectionOpened = false ∧ w'.drv.session = some 0 ∧ w'.drv.hasSock = false ∧
    w'.drv.targetIsConnected = false := by
  intro w'
  have e : w' = (closeDrv hook (urun hook s calls).1).1 := by
    show (urun hook s (calls ++ [.base .close])).1 = _
    rw [urun_append]
    simp only [urun, ucallStep, lcallStep]
    generalize closeDrv hook (urun hook s calls).1 = r
    obtain ⟨w1, o⟩ := r
    cases o <;> rfl
  rw [e]
  exact after_close_driver hook _

/-- an upload call by itself preserves the sequence invariant with the SAME budget: `LogixDriver.open()` and
    `get_tag_list` add no unsent draws (budget contribution 0) — every connected request they send carries a count
    drawn immediately before the send -/
theorem upload_preserves_seq {σ} (hook : ObjHook σ) (hh : HookOk hook) (hn : HookQuietSeq hook) (B : Nat)
    (s : World σ × Opn.LDrv) (c : UCall) (hc : ∀ d, c ≠ .base d)
    (hi : lci_Inv False s.1) (hcn : lci_Conn s.1) (hq : lcl_SeqB B s.1) :
    lcl_SeqB B (ucallStep hook s c).1.1 := by
  cases c with
  | base d => exact absurd rfl (hc d)
  | logixOpen cfg rnd =>
    rw [ucallStep_open_world]
    exact (Opn.lcu_openLogixSt_closed (Opn.lcu_closed_seq hook hh hn B) cfg s.1 s.2 rnd trivial ⟨hi, hcn, hq⟩).seq
  | getTagList ap =>
    rw [ucallStep_gtl_world]
    exact (Opn.lcu_getTagList_closed (Opn.lcu_closed_seq hook hh hn B) s.1 s.2 ap ⟨hi, hcn, hq⟩).seq

/-- C17 with the uploads in the history.  For EVERY history of open / close / generic_message / read / write /
    `LogixDriver.open()` / `get_tag_list` calls from a fresh world, arbitrary LogixDriver attributes, every target
    policy and fault plan: the sequence count of a connected request never equals the one the target saw last on that
    connection.  Hypotheses `hg`, `hs`, `hn`, `hl` as in `seq_never_repeats_logix` (they concern the generic_message,
    read and write calls only); `hb`: (number of faults) + budget < 65534, where the uploads contribute NOTHING to
    the budget (`UCall.budget = 0`): page loops, template reads and nested structure definitions may take any number
    of requests. -/
theorem seq_never_repeats_upload {σ} (hook : ObjHook σ) (hh : HookOk hook) (hn : HookQuietSeq hook) (w : World σ)
    (hf : Fresh w) (l : Opn.LDrv) (calls : List UCall)
    (hg : ∀ a, UCall.base (.generic a) ∈ calls → AvoidsCM a = true)
    (hs : ∀ a, UCall.base (.generic a) ∈ calls → a.connected = true → SizeOk a = true)
    (hl : ∀ c, UCall.base c ∈ calls → c.LoopsLast)
    (hb : w.net.faults.length + ubudgetR hook 0 (w, l) calls < 65534) :
    NoSeqRepeat (urun hook (w, l) calls).1.net.target.base.log := by
  obtain ⟨hi, hc⟩ := lci_fresh_inv False w hf (fun h => h.elim)
  have hge : 0 ≤ ubudgetR hook 0 (w, l) calls := Nat.zero_le _
  have hq := lcl_SeqB_of_seq (lcs_fresh w hf (by omega))
  have hsz : lcl_Sz w.drv := .inl hf.2.2.2.2.2.2.1
  obtain ⟨B', h⟩ := lcu_run_seq hook hh hn _ _ calls (w, l) 0 hg hs hl ⟨hi, hc, hq⟩ (lci_fresh_net w hf) hsz hb
  exact h.log

/-- the same with the budget computed from the history alone (`ubudget`: only close() starts a new segment) -/
theorem seq_never_repeats_upload_static {σ} (hook : ObjHook σ) (hh : HookOk hook) (hn : HookQuietSeq hook) (w : World σ)
    (hf : Fresh w) (l : Opn.LDrv) (calls : List UCall)
    (hg : ∀ a, UCall.base (.generic a) ∈ calls → AvoidsCM a = true)
    (hs : ∀ a, UCall.base (.generic a) ∈ calls → a.connected = true → SizeOk a = true)
    (hl : ∀ c, UCall.base c ∈ calls → c.LoopsLast)
    (hb : w.net.faults.length + ubudget 0 calls < 65534) :
    NoSeqRepeat (urun hook (w, l) calls).1.net.target.base.log :=
  seq_never_repeats_upload hook hh hn w hf l calls hg hs hl (by have := ubudgetR_le hook calls 0 (w, l); omega)

/-- whatever the state, fault plan, target policy and replies: every exception that escapes `LogixDriver.open()` or
    `get_tag_list` is a library exception (CommError from `CIPDriver.open` / the decorator, ResponseError from
    everything inside the `try … except Exception` wrappers, DataError / BufferEmptyError) — except for the three
    corner cases of `UploadCorner`, each with the condition under which it occurs.  Nothing else escapes; in
    particular the calls before `get_tag_list` (`_list_identity`, `get_plc_info`, `get_plc_name`) raise library
    exceptions only. -/
theorem upload_failures_are_library {σ} (hook : ObjHook σ) (s : World σ × Opn.LDrv) (c : UCall) (e : Exn)
    (hc : ∀ d, c ≠ .base d) (h : (ucallStep hook s c).2 = .raised e) : LcLib e ∨ UploadCorner hook c e := by
  cases c with
  | base d => exact absurd rfl (hc d)
  | logixOpen cfg rnd =>
    have he := ucallStep_open_err hook s cfg rnd e h
    rcases Opn.lcu_openLogixSt_cls hook cfg s.1 s.2 rnd e he with (h1 | h1 | h1) | ⟨h1, _, _⟩
    · exact .inl h1
    · exact .inr (.inl ⟨h1, Opn.lcu_openLogixSt_hang hook cfg s.1 s.2 rnd e he h1⟩)
    · exact .inr (.inr (.inl h1))
    · obtain ⟨a1, a2, a3⟩ := Opn.lcu_openLogixSt_rt hook cfg s.1 s.2 rnd e he h1
      exact .inr (.inr (.inr ⟨h1, by simp [UCall.allPrograms, a1, a2], a3⟩))
  | getTagList ap =>
    have he := ucallStep_gtl_err hook s ap e h
    rcases Opn.lcu_getTagList_cls hook s.1 s.2 ap e he with (h1 | h1 | h1) | ⟨h1, _⟩
    · exact .inl h1
    · exact .inr (.inl ⟨h1, Opn.lcu_getTagList_hang hook s.1 s.2 ap e he h1⟩)
    · exact .inr (.inr (.inl h1))
    · obtain ⟨a1, a2⟩ := Opn.lcu_getTagList_rt hook s.1 s.2 ap e he h1
      exact .inr (.inr (.inr ⟨h1, a1, a2⟩))

/-- the exception classes of every call of the alphabet with uploads: library exceptions, the corner cases of read
    and write (`failures_are_library_logix`) and those of the uploads -/
theorem failures_are_library_upload {σ} (hook : ObjHook σ) (s : World σ × Opn.LDrv) (c : UCall) (e : Exn)
    (h : (ucallStep hook s c).2 = .raised e) :
    LcLib e ∨ (∃ cfg tags, c = .base (.read cfg tags) ∧ ReadCorner hook cfg s.1 tags e) ∨
      (∃ cfg tvs, c = .base (.write cfg tvs) ∧ WriteCorner hook cfg s.1 tvs e) ∨ UploadCorner hook c e := by
  cases c with
  | base d =>
    rcases failures_are_library_logix hook s.1 d e h with h1 | ⟨cfg, tags, hd, h1⟩ | ⟨cfg, tvs, hd, h1⟩
    · exact .inl h1
    · exact .inr (.inl ⟨cfg, tags, by rw [hd], h1⟩)
    · exact .inr (.inr (.inl ⟨cfg, tvs, by rw [hd], h1⟩))
  | logixOpen cfg rnd =>
    rcases upload_failures_are_library hook s _ e (fun d hd => by cases hd) h with h1 | h1
    · exact .inl h1
    · exact .inr (.inr (.inr h1))
  | getTagList ap =>
    rcases upload_failures_are_library hook s _ e (fun d hd => by cases hd) h with h1 | h1
    · exact .inl h1
    · exact .inr (.inr (.inr h1))

/-- WHEN RuntimeError escapes `get_tag_list`: exactly when, after the decorator and the upload of the controller
    scope succeeded, the loop over the keys of `_info["programs"]` meets a dict whose number of keys is not the
    number it started with (`Opn.lcu_SizeChanged`): at a later step of the iteration, also after the last program -/
theorem getTagList_runtime_error_iff {σ} (hook : ObjHook σ) (size : Nat) (st : Opn.St σ) (progs : List Name) :
    (Opn.programScopes hook size st progs).2 = .error (.foreign "RuntimeError") ↔ Opn.lcu_SizeChanged hook size st progs :=
  Opn.lcu_programScopes_runtime hook size progs st

/-- … and the number of keys changes only when the symbol list of one of the program scopes lists a symbol whose
    name starts with `Program:` (`_isolate_user_tags` files it under `_info["programs"]`) -/
theorem size_changed_cause {σ} (hook : ObjHook σ) (size : Nat) (st : Opn.St σ) (progs : List Name)
    (h : Opn.lcu_SizeChanged hook size st progs) (h0 : (st.l.info.programs.getD []).length = size) :
    ∃ st' p, p ∈ progs ∧ Opn.lcu_ProgramSymbolIn hook st' (some p) :=
  Opn.lcu_sizeChanged_cause hook size st progs h h0

/-- WHEN the fuel marker escapes the page loop: only after `fuel` rounds each of which was answered by a valid reply
    that parsed and asked for more — parsing a page never runs out of fuel -/
theorem page_loop_hang {σ} (hook : ObjHook σ) (program : Option Name) (wa : Bool) (fuel : Nat) (w : World σ) (last : Nat)
    (acc : List Lgx.Up.Rec) (h : (Opn.getInstanceAttributeList hook program wa fuel w last acc).2 = .error .hang) :
    Opn.lcu_pagesCont hook program wa fuel w last :=
  Opn.lcu_gial_hang hook program wa fuel w last acc h

/-- WHEN the fuel marker escapes `_get_data_type`: only after a template read of `TMPL_FUEL` rounds, or after
    descending through `fuel` nested structure definitions none of which was cached -/
theorem data_type_hang {σ} (hook : ObjHook σ) (fuel : Nat) (st : Opn.St σ) (tid symbolType : Nat)
    (h : (Opn.getDataType hook fuel st tid symbolType).2 = .error .hang) :
    Opn.lcu_TmplHang hook ∨ Opn.lcu_dtHang hook fuel st tid :=
  Opn.lcu_getDataType_hang hook fuel st tid symbolType h

/-! ### non-vacuity: a concrete history with uploads satisfies every hypothesis

  The world is the fresh driver in front of the fresh reference controller holding the project `ExN.projP` of
  LogixOpenNested.lean (controller scope: `abc : DINT`, `i1 : Inner`, two programs with structure tags nested three
  levels deep), the hook the full target's `hookAll`, the tag database of the reads and writes the one the reference
  computes from the project.  The hypotheses are checked on the history itself (`decide` / `rfl`); the run is only
  evaluated by the interpreter (`#guard`) to show that the calls do reach the controller. -/

namespace UEx
open Lgx.Drv

def world0 : World Ext := Opn.ExN.worldQ0 (Opn.ExN.projP [] [])
def cfg : Cfg := { tags := Opn.ExN.dbP }

/-- `open()` of the LogixDriver, a read, `get_tag_list('*')`, a generic_message, a write, `close()`, `open()` again -/
def hist : List UCall :=
  [.logixOpen {} [1, 2, 3, 4, 5, 6, 7, 8],
   .base (.read cfg [Lgx.Drv.nm "abc"]),
   .getTagList true,
   .base (.generic { service := 0x01, cls := .bytes [0x01], inst := .bytes [0x01] }),
   .base (.write cfg [(Lgx.Drv.nm "abc", .int 5)]),
   .base .close,
   .logixOpen {} [8, 7, 6, 5, 4, 3, 2, 1]]

private theorem fresh0 : Fresh world0 :=
  ⟨rfl, rfl, rfl, rfl, rfl, rfl, rfl, rfl, rfl, rfl, rfl, rfl, rfl, rfl, rfl, rfl, rfl, rfl, rfl, rfl,
   by decide, by decide, by decide⟩

private theorem pops0 : ∀ n, PathOk (Opn.lcu_popN n world0.drv.cipPath) := by
  intro n
  show PathOk (Opn.lcu_popN n [])
  rw [lcu_popN_nil]
  intro route h
  have e : encEpath true (([] : List Seg) ++ msgRouterPath) true false = .ok [2, 0x20, 2, 0x24, 1] := by rfl
  rw [e] at h
  cases h
  exact ⟨2, [0x20, 2, 0x24, 1], rfl, by decide, by decide⟩

/-- a route through the backplane: `hp` of `fo_order_upload` from two checks (`pops_of_check`) -/
example : ∀ n, PathOk (Opn.lcu_popN n [Seg.port (.int 1) (.str (Path.nm "0"))]) := by
  apply pops_of_check
  intro n hn
  have hn' : n = 0 ∨ n = 1 := by simp only [List.length_cons, List.length_nil] at hn; omega
  rcases hn' with rfl | rfl
  · intro route h
    have e : encEpath true ([Seg.port (.int 1) (.str (Path.nm "0"))] ++ msgRouterPath) true false =
        .ok [3, 1, 0, 0x20, 2, 0x24, 1] := by rfl
    rw [show Opn.lcu_popN 0 [Seg.port (.int 1) (.str (Path.nm "0"))] = [Seg.port (.int 1) (.str (Path.nm "0"))] from rfl, e] at h
    cases h
    exact ⟨3, [1, 0, 0x20, 2, 0x24, 1], rfl, by decide, by decide⟩
  · intro route h
    have e : encEpath true (([] : List Seg) ++ msgRouterPath) true false = .ok [2, 0x20, 2, 0x24, 1] := by rfl
    rw [show Opn.lcu_popN 1 [Seg.port (.int 1) (.str (Path.nm "0"))] = [] from rfl, e] at h
    cases h
    exact ⟨2, [0x20, 2, 0x24, 1], rfl, by decide, by decide⟩

-- CE8 of `fo_order_upload`: `PathOk` of the configured route alone does not suffice
namespace CE8
def baseM : Base :=
  { Lgx.Drv.Ex.base with identity := { Lgx.Drv.Ex.base.identity with name := [50, 48, 56, 48, 45, 76, 67] },
                         policy := { stdFoOk := false } }
def cip : List Seg := [Seg.raw [0x11, 0x02], Seg.port (.int 1) (.str (Path.nm "0"))]
def world : World Ext :=
  { drv := { cipPath := cip }, net := { target := { base := baseM, ext := { logix := some Lgx.Drv.Ex.state } } } }

example : PathOk cip := by
  intro route h
  have e : encEpath true (cip ++ msgRouterPath) true false = .ok [4, 0x11, 2, 1, 0, 0x20, 2, 0x24, 1] := by rfl
  rw [e] at h
  cases h
  exact ⟨4, [0x11, 2, 1, 0, 0x20, 2, 0x24, 1], rfl, by decide, by decide⟩

#guard (urun hookAll (world, {}) [.logixOpen {} [1, 2, 3, 4, 5, 6, 7, 8]]).1.drv.cipPath == [Seg.raw [0x11, 0x02]]
#guard ((urun hookAll (world, {}) [.logixOpen {} [1, 2, 3, 4, 5, 6, 7, 8]]).1.net.target.base.events.filter fun e =>
          match e with | .fo .. => true | .violation _ => true | _ => false)
        == [.violation "forward open: bad connection path", .fo false 500 false]
end CE8

-- history of a finding: on a Micro800 EVERY `open()` popped a trailing port segment of whatever kind (`_initialize_driver`
-- mutates `self._cfg["cip_path"]`), so a bridged route lost one more hop per open() / close() cycle (after open, close,
-- open only `bridged.take 1` was left).  Confirmed on the real driver and repaired: only a BACKPLANE segment is taken off
-- (`isBackplane`), the second open() leaves the route alone
def bridged : List Seg :=
  [Seg.port (.name (Path.nm "bp")) (.str (Path.nm "2")), Seg.port (.name (Path.nm "enet")) (.str (Path.nm "10.0.0.2")),
   Seg.port (.name (Path.nm "bp")) (.str (Path.nm "0"))]
def worldB : World Ext :=
  { drv := { cipPath := bridged },
    net := { target := { base := { CE8.baseM with policy := {} }, ext := { logix := some Lgx.Drv.Ex.state } } } }
#guard (urun hookAll (worldB, {}) [.logixOpen {} [1, 2, 3, 4, 5, 6, 7, 8], .base .close,
          .logixOpen {} [8, 7, 6, 5, 4, 3, 2, 1]]).1.drv.cipPath == bridged.take 2

private theorem histCM : ∀ a, UCall.base (.generic a) ∈ hist → AvoidsCM a = true := uhistAvoidsCM_spec hist (by decide)
private theorem histRnd : (∀ rnd, UCall.base (.open rnd) ∈ hist → rnd.length = 8) ∧
    (∀ cfg rnd, UCall.logixOpen cfg rnd ∈ hist → rnd.length = 8) := uhistRnd8_spec hist (by decide)

-- the run (interpreter): every call of the history returns normally; the first `open()` sends 14 frames (register
-- session, ListIdentity, get_plc_info, Forward Open, get_plc_name, 9 upload requests), the whole history 42;
-- the driver ends up connected with the tag list of the reference
#guard ((List.range 7).map fun i =>
    match (ucallStep hookAll (urun hookAll (world0, {}) (hist.take i)) (hist.getD i (.base .close))).2 with
    | .ok => true | _ => false) == [true, true, true, true, true, true, true]
#guard (urun hookAll (world0, {}) (hist.take 1)).1.net.sent.length == 14
#guard (urun hookAll (world0, {}) (hist.take 1)).2.tags.map (·.1) == Opn.ExN.dbP.map (·.1)
#guard (urun hookAll (world0, {}) hist).1.net.sent.length == 42
#guard (urun hookAll (world0, {}) hist).1.drv.targetIsConnected
#guard (urun hookAll (world0, {}) hist).2.tags.map (·.1) == Opn.ExN.dbP.map (·.1)
#guard (urun hookAll (world0, {}) hist).1.net.target.base.log.all fun e =>
  e != .violation "SendUnitData without a registered session" && e != .violation "SendUnitData on a connection that is not open"

/-- the world after the first two calls of the history satisfies the invariant (by the run theorem, not by evaluation) -/
private theorem inv2 : Opn.lcu_InvP True (urun hookAll (world0, {}) (hist.take 2)).1 :=
  lcu_run_inv hookAll hookAll_ok True (hist.take 2) (world0, {})
    (fun rnd h _ => histRnd.1 rnd (List.mem_of_mem_take h)) (fun cfg rnd h _ => histRnd.2 cfg rnd (List.mem_of_mem_take h))
    (fun a h => histCM a (List.mem_of_mem_take h)) (lcu_fresh_inv True world0 fresh0 (fun _ => pops0))

-- … and it is a connected world: `get_tag_list` does send its requests from there (interpreter)
#guard (urun hookAll (world0, {}) (hist.take 2)).1.drv.targetIsConnected
#guard (Opn.getTagList hookAll (urun hookAll (world0, {}) (hist.take 2)).1 (urun hookAll (world0, {}) (hist.take 2)).2 true).1.net.sent.length
        == (urun hookAll (world0, {}) (hist.take 2)).1.net.sent.length + 9

example : lci_Inv True (Opn.getTagList hookAll (urun hookAll (world0, {}) (hist.take 2)).1 {} true).1 ∧
    lci_Conn (Opn.getTagList hookAll (urun hookAll (world0, {}) (hist.take 2)).1 {} true).1 :=
  getTagList_preserves_inv hookAll hookAll_ok True _ {} true inv2.inv inv2.conn

example : ∀ u, (ensureForwardOpen hookAll FUEL (urun hookAll (world0, {}) (hist.take 2)).1).2 = .ok u →
    Opn.lcu_Fresh hookAll (ensureForwardOpen hookAll FUEL (urun hookAll (world0, {}) (hist.take 2)).1).1
      (Opn.getTagList hookAll (urun hookAll (world0, {}) (hist.take 2)).1 {} true).1 :=
  (getTagList_fresh hookAll _ {} true _ rfl).2

example : ∀ u, (ensureForwardOpen hookAll FUEL (urun hookAll (world0, {}) (hist.take 2)).1).2 = .ok u →
    Lgx.Drv.lcl_Reach hookAll (ensureForwardOpen hookAll FUEL (urun hookAll (world0, {}) (hist.take 2)).1).1
      (Opn.getTagList hookAll (urun hookAll (world0, {}) (hist.take 2)).1 {} true).1 :=
  (getTagList_reach hookAll _ {} true _ rfl).2

example : lci_Inv True (Opn.openLogixSt hookAll {} world0 {} [1, 2, 3, 4, 5, 6, 7, 8]).1 ∧
    lci_Conn (Opn.openLogixSt hookAll {} world0 {} [1, 2, 3, 4, 5, 6, 7, 8]).1 :=
  have h := open_logix_preserves_inv hookAll hookAll_ok True {} world0 {} [1, 2, 3, 4, 5, 6, 7, 8] (fun _ => rfl)
    (lci_fresh_inv True world0 fresh0 (fun _ => pops0 0)).1 (lci_fresh_inv True world0 fresh0 (fun _ => pops0 0)).2
    (fun _ => pops0)
  ⟨h.1, h.2.1⟩

example : NoEarlyUnitData (urun hookAll (world0, {}) hist).1.net.target.base.log :=
  no_unit_data_before_open_upload hookAll hookAll_ok world0 fresh0 {} hist histCM

example : FoDiscipline (urun hookAll (world0, {}) hist).1.net.target.base.events :=
  fo_order_upload hookAll hookAll_ok world0 fresh0 {} hist pops0 histRnd.1 histRnd.2 histCM

example : let w' := (urun hookAll (world0, {}) hist).1
    (w'.drv.hasSock = false ∨ w'.net.tcpOpen = false) → w'.net.target.base.sessions = [] :=
  reachable_idle_upload hookAll hookAll_ok world0 fresh0 {} hist histCM

example : (openDrv hookAll (closeDrv hookAll (urun hookAll (world0, {}) hist).1).1 [1, 1, 2, 2, 3, 3, 4, 4]).2 = .ok true :=
  (reopen_after_any_history_upload hookAll hookAll_ok world0 fresh0 {} hist histCM [1, 1, 2, 2, 3, 3, 4, 4] rfl rfl).1

example : (urun hookAll (world0, {}) (hist.take 5 ++ [.base .close])).1.drv.targetIsConnected = false :=
  (after_close_driver_upload hookAll (world0, {}) (hist.take 5)).2.2.2

/-- C17 for the history: the reads and writes have one request each; the static budget is 2 · (3 · 1 + 1) = 8 before
    the close() — the uploads add nothing -/
example : ubudget 0 hist = 8 := by decide

example : NoSeqRepeat (urun hookAll (world0, {}) hist).1.net.target.base.log :=
  seq_never_repeats_upload_static hookAll hookAll_ok hookAll_quietSeq world0 fresh0 {} hist histCM
    (fun a ha => lhistSizeOk_spec (ubase hist) (by decide) a ((mem_ubase hist _).2 ha))
    (fun c hc => lhistSingle_spec (ubase hist) (by decide) c ((mem_ubase hist c).2 hc))
    (by decide)

-- the log of the run indeed holds no duplicate-count violation, and connected requests were counted (interpreter)
#guard (urun hookAll (world0, {}) hist).1.net.target.base.log.all fun e =>
  match e with | .violation s => !(s.startsWith "sequence count") | _ => true
#guard (urun hookAll (world0, {}) hist).1.net.target.base.conns.map (·.lastSeq) == [some 32]

/-- an upload call by itself keeps the sequence invariant with the same budget -/
example (B : Nat) (hq : lcl_SeqB B (urun hookAll (world0, {}) (hist.take 2)).1) :
    lcl_SeqB B (ucallStep hookAll (urun hookAll (world0, {}) (hist.take 2)) (.getTagList true)).1.1 :=
  upload_preserves_seq hookAll hookAll_ok hookAll_quietSeq B _ (.getTagList true) (fun d h => by cases h)
    (lcu_run_inv hookAll hookAll_ok False (hist.take 2) (world0, {}) (fun _ _ h => h.elim) (fun _ _ _ h => h.elim)
      (fun a h => histCM a (List.mem_of_mem_take h)) (lcu_fresh_inv False world0 fresh0 (fun h => h.elim))).inv
    inv2.conn hq

-- the corner cases of `upload_failures_are_library` are real (interpreter):
-- RuntimeError: a `Program:` symbol inside a program scope (`ExN.projBad1`)
#guard (match (ucallStep hookAll ((Opn.ExN.worldQ (Opn.ExN.projBad1)), Opn.Ex.l32) (.getTagList true)).2 with
        | .raised (.foreign "RuntimeError") => true | _ => false)
#guard (match (ucallStep hookAll ((Opn.ExN.worldQ0 (Opn.ExN.projBad1)), {}) (.logixOpen {} [1, 2, 3, 4, 5, 6, 7, 8])).2 with
        | .raised (.foreign "RuntimeError") => true | _ => false)
-- `.hang`: a structure definition that contains itself (the model descends `DT_FUEL` = 64 levels; the real code ends
-- with RecursionError wrapped into ResponseError)
#guard (match (ucallStep hookAll (Opn.ExN.worldQ0 { Opn.ExN.projN [] [] with
            templates := [{ Opn.ExN.tInner with members := [⟨[120], 0, 0xC3, 0⟩, ⟨[100, 101, 101, 112], 0, 0x8200, 4⟩] }],
            controller := [Opn.Ex.s1, Opn.ExN.i1] }, {}) (.logixOpen {} [1, 2, 3, 4, 5, 6, 7, 8])).2 with
        | .raised .hang => true | _ => false)
-- … but not when the programs are not asked for
#guard (match (ucallStep hookAll ((Opn.ExN.worldQ (Opn.ExN.projBad1)), Opn.Ex.l32) (.getTagList false)).2 with
        | .ok => true | _ => false)
-- library exceptions: `open()` against a target that refuses the session returns False without uploading, a driver
-- whose socket fails raises CommError
#guard (match (ucallStep hookAll ({ world0 with net := { world0.net with faults := [.sendRaise 0] } }, {})
          (.logixOpen {} [1, 2, 3, 4, 5, 6, 7, 8])).2 with
        | .raised .comm => true | _ => false)
#guard (match (ucallStep hookAll ({ world0 with net := { world0.net with faults := [.recvRaise 7] } }, {})
          (.logixOpen {} [1, 2, 3, 4, 5, 6, 7, 8])).2 with
        | .raised .response => true | _ => false)

end UEx


end Pycomm.Cli
