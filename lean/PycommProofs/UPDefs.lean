/-
  C05 definitions: well-formedness of the controller-side data the upload theorems quantify over.
-/
import PycommModel.Logix.Upload
namespace Pycomm.Lgx.Up
open Pycomm Pycomm.Tgt Pycomm.Lgx

/-- field ranges of a symbol as the wire format can carry them -/
def WfSymbol (s : Symbol) : Prop :=
  s.inst < 2 ^ 32 ∧ s.name.length < 65536 ∧ (∀ c ∈ s.name, c < 256) ∧ s.symbolType < 65536 ∧
  s.attr3 < 2 ^ 32 ∧ s.attr5 < 2 ^ 32 ∧ s.attr6 < 2 ^ 32 ∧ (∀ d ∈ s.dims, d < 2 ^ 32) ∧ s.access < 256

/-- an identifier as the controller stores it: ASCII, no NUL, no ';' -/
def Ident (n : Name) : Prop := n ≠ [] ∧ ∀ c ∈ n, 0 < c ∧ c < 128 ∧ c ≠ 59

def WfMember (m : MemberDef) : Prop :=
  Ident m.name ∧ m.info < 65536 ∧ m.typeWord < 65536 ∧ m.offset < 2 ^ 32

/-- the stored name field is "Name;encoded-info" -/
def WfTemplate (t : Template) (tname : Name) (junk : Bytes) : Prop :=
  Ident tname ∧ (∀ b ∈ junk, b ≠ 0) ∧
  t.nameField = tname.map (fun c => UInt8.ofNat c) ++ [59] ++ junk ∧
  ∀ m ∈ t.members, WfMember m

/-- which members the driver hides (documented: ZZZZZZZZZZ…, __…, and CTL / Control of predefined types) -/
def hidden (predefine : Bool) (name : Name) : Bool :=
  PyStr.startsWith (nm "ZZZZZZZZZZ") name || PyStr.startsWith (nm "__") name ||
  (predefine && (name == nm "CTL" || name == nm "Control"))

def isPredefined (symbolType : Nat) : Bool := symbolType % 4096 < 0x100 || symbolType % 4096 > 0xEFF

end Pycomm.Lgx.Up
