/-
  Proofs for C07 (encodings are the CIP wire format): closed forms of `encode`/`decode`.
  Statements are restated in PycommProps/C07.lean.
-/
import PycommProofs.CodecSpec
import PycommProofs.ArgOf
import PycommModel.Generated.Consts
namespace Pycomm

/-! ### helper lemmas -/
namespace WF

theorem streamRead_append (n : Nat) (bs rest : Bytes) (h : bs.length = n) (hn : 0 < n) :
    streamRead (n : Int) (bs ++ rest) = .ok (bs, rest) := by
  subst h
  have h1 : ¬ ((bs.length : Int) < 0) := by omega
  have hne : bs ≠ [] := by intro h0; subst h0; simp at hn
  simp [streamRead, h1, hne]

theorem intK_size_pos (k : IntK) : 0 < k.size := by cases k <;> simp [IntK.size]

theorem decodeIntNat_append (k : IntK) (bs rest : Bytes) (h : bs.length = k.size) :
    decodeIntNat k (bs ++ rest) = .ok (leVal bs, rest) := by
  simp [decodeIntNat, streamRead_append k.size bs rest h (intK_size_pos k), bind, Except.bind, h]

/-- in range, the two's-complement representative is the residue mod 2^(8·size) -/
theorem ofSigned_eq (k : IntK) (i : Int) (h1 : k.lo ≤ i) (h2 : i ≤ k.hi) :
    ofSigned k.size i = (i % ((2 ^ (8 * k.size) : Nat) : Int)).toNat := by
  unfold ofSigned
  cases k <;> simp [IntK.lo, IntK.hi, IntK.size, IntK.signed] at h1 h2 ⊢ <;> split <;> omega

/-- a length prefix of an unsigned type -/
theorem packInt_len (lenK : IntK) (n : Nat) (hk : lenK.signed = false) (hl : (n : Int) ≤ lenK.hi) :
    packInt lenK (.int n) = .ok (leBytes lenK.size n) := by
  have h1 : lenK.lo ≤ (n : Int) := by simp [IntK.lo, hk]
  have h0 : (0 : Int) ≤ n := by omega
  simp [packInt, PyVal.asIndex, h1, hl, ofSigned, h0]

theorem encodeList_flatten (f : PyVal → R Bytes) (vs : List PyVal) (encs : List Bytes)
    (hl : encs.length = vs.length) (h : ∀ p ∈ vs.zip encs, f p.1 = .ok p.2) :
    encodeList f vs = .ok encs.flatten := by
  induction vs generalizing encs with
  | nil =>
    cases encs with
    | nil => rfl
    | cons e es => simp at hl
  | cons v vs ih =>
    cases encs with
    | nil => simp at hl
    | cons e es =>
      have hv : f v = .ok e := h (v, e) (by simp)
      have ih' := ih es (by simpa using hl) (fun p hp => h p (by simp [hp]))
      simp [encodeList, hv, ih', bind, Except.bind]

/-- `bitsToNat` is least-significant-bit first -/
theorem bitsToNat_testBit (bs : List Bool) (i : Nat) :
    (bitsToNat (bs.map PyVal.bool)).testBit i = bs.getD i false := by
  induction bs generalizing i with
  | nil => simp [bitsToNat]
  | cons b bs ih =>
    cases i with
    | zero =>
      cases b <;> simp [bitsToNat, PyVal.truthy, Nat.testBit_zero] <;> omega
    | succ i =>
      have : ((if (PyVal.bool b).truthy = true then 1 else 0) + 2 * bitsToNat (bs.map PyVal.bool)) / 2
          = bitsToNat (bs.map PyVal.bool) := by
        split <;> omega
      simp only [List.map_cons, bitsToNat, Nat.testBit_succ, this, ih, List.getD_cons_succ]

/-- bit i of the j-th base-256 digit is bit 8j+i -/
theorem testBit_byte (n j i : Nat) (hi : i < 8) :
    (n / 256 ^ j % 256).testBit i = n.testBit (8 * j + i) := by
  have h1 : (256 : Nat) ^ j = 2 ^ (8 * j) := by
    rw [Nat.pow_mul]
  have h2 : (256 : Nat) = 2 ^ 8 := by decide
  rw [h1]
  conv => lhs; rw [h2]
  rw [Nat.testBit_mod_two_pow, Nat.testBit_div_two_pow]
  simp [hi, Nat.add_comm]

end WF

-- PROPERTY THEOREMS
theorem leBytes_length (w n : Nat) : (leBytes w n).length = w := by
  induction w generalizing n with
  | zero => simp [leBytes]
  | succ w ih => simp [leBytes, ih]

/-- little endian: byte j carries weight 256^j -/
theorem leBytes_spec (w n j : Nat) (hj : j < w) :
    ((leBytes w n)[j]?).map (·.toNat) = some (n / 256 ^ j % 256) := by
  induction w generalizing n j with
  | zero => omega
  | succ w ih =>
    cases j with
    | zero => simp [leBytes]
    | succ j =>
      simp only [leBytes, List.getElem?_cons_succ]
      rw [ih (n / 256) j (by omega), Nat.div_div_eq_div_mul, Nat.pow_succ, Nat.mul_comm]

/-- fixed-width integers: two's complement, little endian -/
theorem encode_int_wire (k : IntK) (i : Int) (h1 : k.lo ≤ i) (h2 : i ≤ k.hi) :
    encode (.int k) (.int i) = .ok (leBytes k.size (i % ((2 ^ (8 * k.size) : Nat) : Int)).toNat) := by
  simp only [encode, packInt, PyVal.asIndex, h1, h2, and_self, if_true, WF.ofSigned_eq k i h1 h2]

/-- every byte pattern of the right width decodes to its two's-complement / unsigned reading -/
theorem decode_int_wire (k : IntK) (bs rest : Bytes) (h : bs.length = k.size) :
    decode (.int k) (bs ++ rest) =
      .ok (.int (if k.signed = true ∧ 2 ^ (8 * k.size - 1) ≤ leVal bs
                 then (leVal bs : Int) - ((2 ^ (8 * k.size) : Nat) : Int) else (leVal bs : Int)), rest) := by
  simp only [decode, decodeIntVal, WF.decodeIntNat_append k bs rest h, bind, Except.bind, toSigned]
  cases hs : k.signed <;> simp
  split <;> split <;> first | rfl | omega

theorem encode_bool_wire (v : PyVal) : encode .bool v = .ok [if v.truthy then 0xFF else 0x00] := by
  simp only [encode]

theorem decode_bool_wire (b : UInt8) (rest : Bytes) :
    decode .bool (b :: rest) = .ok (.bool (b != 0), rest) := by
  simp [decode, streamRead, bind, Except.bind, bne]

theorem encode_real_wire (b b32 : Nat) (h : Flt.narrow b = some b32) :
    encode .real (.float b) = .ok (leBytes 4 b32) := by
  simp only [encode, packReal, h]

theorem encode_lreal_wire (b : Nat) : encode .lreal (.float b) = .ok (leBytes 8 b) := by
  simp only [encode, packLReal]

theorem decode_lreal_wire (bs rest : Bytes) (h : bs.length = 8) :
    decode .lreal (bs ++ rest) = .ok (.float (leVal bs), rest) := by
  simp [decode, WF.decodeIntNat_append .ulint bs rest h, bind, Except.bind]

theorem decode_real_wire (bs rest : Bytes) (h : bs.length = 4) :
    decode .real (bs ++ rest) = .ok (.float (Flt.widen (leVal bs)), rest) := by
  simp [decode, WF.decodeIntNat_append .udint bs rest h, bind, Except.bind]

/-- bit strings are least-significant-bit first: bit i of byte j is element 8j+i -/
theorem encode_bits_wire (k : IntK) (bs : List Bool) (h : bs.length = 8 * k.size)
    (j i : Nat) (hj : j < k.size) (hi : i < 8) :
    ∃ enc, encode (.bits k) (.list (bs.map PyVal.bool)) = .ok enc ∧ enc.length = k.size ∧
      (enc[j]?).map (fun b => b.toNat.testBit i) = some (bs.getD (8 * j + i) false) := by
  refine ⟨leBytes k.size (bitsToNat (bs.map PyVal.bool)), ?_, leBytes_length _ _, ?_⟩
  · simp [encode, encodeBits, PyVal.iter?, PyVal.seq?, h]
  · have hs := leBytes_spec k.size (bitsToNat (bs.map PyVal.bool)) j hj
    cases he : (leBytes k.size (bitsToNat (bs.map PyVal.bool)))[j]? with
    | none => rw [he] at hs; simp at hs
    | some b =>
      rw [he] at hs
      simp only [Option.map_some, Option.some.injEq] at hs ⊢
      rw [hs, WF.testBit_byte _ _ _ hi, WF.bitsToNat_testBit]

theorem text_latin1_wire (cs : Name) (h : ∀ c ∈ cs, c < 256) :
    Text.encode .latin1 cs = some (cs.map UInt8.ofNat) := by
  induction cs with
  | nil => rfl
  | cons c cs ih =>
    have hc : c < 256 := h c (by simp)
    have ih' := ih (fun x hx => h x (by simp [hx]))
    simp [Text.encode, Text.encChar, hc, ih', Text.b]

theorem text_utf16_wire (cs : Name) (h : ∀ c ∈ cs, c < 0x10000 ∧ ¬ (0xD800 ≤ c ∧ c ≤ 0xDFFF)) :
    Text.encode .utf16 cs = some (cs.flatMap fun c => [UInt8.ofNat (c % 256), UInt8.ofNat (c / 256)]) := by
  induction cs with
  | nil => rfl
  | cons c cs ih =>
    have hc := h c (by simp)
    have ih' := ih (fun x hx => h x (by simp [hx]))
    have h1 : Text.isSurrogate c = false := by
      have := hc.2
      simp only [Text.isSurrogate, Bool.and_eq_false_iff, decide_eq_false_iff_not]
      omega
    have h2 : ¬ (c > 0x10FFFF) := by omega
    simp [Text.encode, Text.encChar, h1, h2, hc.1, ih', Text.b]

/-- strings: length prefix of the documented width counting characters, then the characters -/
theorem encode_str_wire (lenK : IntK) (enc : Enc) (cs : Name) (chars : Bytes)
    (hk : lenK.signed = false) (hl : (cs.length : Int) ≤ lenK.hi) (hc : Text.encode enc cs = some chars) :
    encode (.str lenK enc) (.str cs) = .ok (leBytes lenK.size cs.length ++ chars) := by
  simp [encode, encodeStr, WF.packInt_len lenK cs.length hk hl, hc, bind, Except.bind]

/-- fixed-capacity Logix strings: prefix, characters, zero padding up to the capacity -/
theorem encode_fixedStr_wire (size : Nat) (lenK : IntK) (cs : Name)
    (hk : lenK.signed = false) (hl : (cs.length : Int) ≤ lenK.hi) (hc : ∀ c ∈ cs, c < 256) (hs : cs.length ≤ size) :
    encode (.fixedStr size lenK) (.str cs) =
      .ok (leBytes lenK.size cs.length ++ cs.map UInt8.ofNat ++ zeros (size - cs.length)) ∧
    (leBytes lenK.size cs.length ++ cs.map UInt8.ofNat ++ zeros (size - cs.length)).length = lenK.size + size := by
  constructor
  · have ht : cs.take size = cs := List.take_of_length_le hs
    simp only [encode, encodeFixedStr, ht]
    simp [WF.packInt_len lenK cs.length hk hl, text_latin1_wire cs hc, bind, Except.bind]
  · simp [leBytes_length, zeros]; omega

-- STATEMENT CHANGED: the hypothesis `h` now speaks of `encode t (argOf t p.1)`, the element as the array hands
-- it to the element codec (`argOf t x = x` for every element type but STRINGI: `argOf_of_ne_stringI`; a STRINGI
-- element is ONE item, passed as the single star-argument of `STRINGI.encode(*strings)`).  With `encode t p.1`
-- the statement is false for `t = .stringI`: the empty item list encodes at top level, but not as an element:
#guard (encode .stringI (.list [])).toOption == some [0]
#guard (encode (.arr (.fixed 1) .stringI) (.list [.list []])).toOption == none
/-- arrays are the concatenation of their elements' encodings -/
theorem encode_array_wire (n : Nat) (t : Ty) (vs : List PyVal) (encs : List Bytes) (hb : t.isBits = none)
    (hn : vs.length = n) (hl : encs.length = vs.length)
    (h : ∀ p ∈ vs.zip encs, encode t (argOf t p.1) = .ok p.2) :
    encode (.arr (.fixed n) t) (.list vs) = .ok encs.flatten := by
  subst hn
  simp [encode, PyVal.len?, hb, PyVal.seq?,
    WF.encodeList_flatten (fun x => encode t (argOf t x)) vs encs hl h]

/-- the i-th generated DataTypes row -/
def specCodes : List (Nat × Nat) :=
  [(0xC1, 1), (0xC2, 1), (0xC3, 2), (0xC4, 4), (0xC5, 8), (0xC6, 1), (0xC7, 2), (0xC8, 4), (0xC9, 8),
   (0xCA, 4), (0xCB, 8), (0xCC, 4), (0xCD, 2), (0xCE, 4), (0xD1, 1), (0xD2, 2), (0xD3, 4), (0xD4, 8),
   (0xD6, 4), (0xD7, 8), (0xD8, 2), (0xDB, 4), (0xDD, 2)]

/-- every documented CIP type code (CIP Vol 1 App. C-6.1) is carried by a type of that width in the
    table the source declares now (regenerated from /repo on every run) -/
theorem type_code_table :
    ∀ cw ∈ specCodes, ∃ row ∈ Gen.dataTypes, row.2.2.1 = cw.1 ∧ row.2.2.2.1 = cw.2 := by
  decide +kernel

/-- and no two differently-named members share a code except the two EPATH spellings (0xDC) -/
theorem type_codes_distinct :
    ∀ r1 ∈ Gen.dataTypes, ∀ r2 ∈ Gen.dataTypes, r1.2.2.1 = r2.2.2.1 → r1.2.2.1 ≠ 0xDC → r1.1 = r2.1 := by
  decide +kernel

end Pycomm
