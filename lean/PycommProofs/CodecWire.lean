/-
  Proofs for C07 (encodings are the CIP wire format): closed forms of `encode`/`decode`.
  Statements are restated in PycommProps/C07.lean.
-/
import PycommProofs.CodecSpec
import PycommModel.Generated.Consts
namespace Pycomm

theorem leBytes_length (w n : Nat) : (leBytes w n).length = w := by
  sorry

/-- little endian: byte j carries weight 256^j -/
theorem leBytes_spec (w n j : Nat) (hj : j < w) :
    ((leBytes w n)[j]?).map (·.toNat) = some (n / 256 ^ j % 256) := by
  sorry

/-- fixed-width integers: two's complement, little endian -/
theorem encode_int_wire (k : IntK) (i : Int) (h1 : k.lo ≤ i) (h2 : i ≤ k.hi) :
    encode (.int k) (.int i) = .ok (leBytes k.size (i % ((2 ^ (8 * k.size) : Nat) : Int)).toNat) := by
  sorry

/-- every byte pattern of the right width decodes to its two's-complement / unsigned reading -/
theorem decode_int_wire (k : IntK) (bs rest : Bytes) (h : bs.length = k.size) :
    decode (.int k) (bs ++ rest) =
      .ok (.int (if k.signed = true ∧ 2 ^ (8 * k.size - 1) ≤ leVal bs
                 then (leVal bs : Int) - ((2 ^ (8 * k.size) : Nat) : Int) else (leVal bs : Int)), rest) := by
  sorry

theorem encode_bool_wire (v : PyVal) : encode .bool v = .ok [if v.truthy then 0xFF else 0x00] := by
  sorry

theorem decode_bool_wire (b : UInt8) (rest : Bytes) :
    decode .bool (b :: rest) = .ok (.bool (b != 0), rest) := by
  sorry

theorem encode_real_wire (b b32 : Nat) (h : Flt.narrow b = some b32) :
    encode .real (.float b) = .ok (leBytes 4 b32) := by
  sorry

theorem encode_lreal_wire (b : Nat) : encode .lreal (.float b) = .ok (leBytes 8 b) := by
  sorry

theorem decode_lreal_wire (bs rest : Bytes) (h : bs.length = 8) :
    decode .lreal (bs ++ rest) = .ok (.float (leVal bs), rest) := by
  sorry

theorem decode_real_wire (bs rest : Bytes) (h : bs.length = 4) :
    decode .real (bs ++ rest) = .ok (.float (Flt.widen (leVal bs)), rest) := by
  sorry

/-- bit strings are least-significant-bit first: bit i of byte j is element 8j+i -/
theorem encode_bits_wire (k : IntK) (bs : List Bool) (h : bs.length = 8 * k.size)
    (j i : Nat) (hj : j < k.size) (hi : i < 8) :
    ∃ enc, encode (.bits k) (.list (bs.map PyVal.bool)) = .ok enc ∧ enc.length = k.size ∧
      (enc[j]?).map (fun b => b.toNat.testBit i) = some (bs.getD (8 * j + i) false) := by
  sorry

theorem text_latin1_wire (cs : Name) (h : ∀ c ∈ cs, c < 256) :
    Text.encode .latin1 cs = some (cs.map UInt8.ofNat) := by
  sorry

theorem text_utf16_wire (cs : Name) (h : ∀ c ∈ cs, c < 0x10000 ∧ ¬ (0xD800 ≤ c ∧ c ≤ 0xDFFF)) :
    Text.encode .utf16 cs = some (cs.flatMap fun c => [UInt8.ofNat (c % 256), UInt8.ofNat (c / 256)]) := by
  sorry

/-- strings: length prefix of the documented width counting characters, then the characters -/
theorem encode_str_wire (lenK : IntK) (enc : Enc) (cs : Name) (chars : Bytes)
    (hk : lenK.signed = false) (hl : (cs.length : Int) ≤ lenK.hi) (hc : Text.encode enc cs = some chars) :
    encode (.str lenK enc) (.str cs) = .ok (leBytes lenK.size cs.length ++ chars) := by
  sorry

/-- fixed-capacity Logix strings: prefix, characters, zero padding up to the capacity -/
theorem encode_fixedStr_wire (size : Nat) (lenK : IntK) (cs : Name)
    (hk : lenK.signed = false) (hl : (cs.length : Int) ≤ lenK.hi) (hc : ∀ c ∈ cs, c < 256) (hs : cs.length ≤ size) :
    encode (.fixedStr size lenK) (.str cs) =
      .ok (leBytes lenK.size cs.length ++ cs.map UInt8.ofNat ++ zeros (size - cs.length)) ∧
    (leBytes lenK.size cs.length ++ cs.map UInt8.ofNat ++ zeros (size - cs.length)).length = lenK.size + size := by
  sorry

/-- arrays are the concatenation of their elements' encodings -/
theorem encode_array_wire (n : Nat) (t : Ty) (vs : List PyVal) (encs : List Bytes) (hb : t.isBits = none)
    (hn : vs.length = n) (hl : encs.length = vs.length)
    (h : ∀ p ∈ vs.zip encs, encode t p.1 = .ok p.2) :
    encode (.arr (.fixed n) t) (.list vs) = .ok encs.flatten := by
  sorry

/-- the i-th generated DataTypes row -/
def specCodes : List (Nat × Nat) :=
  [(0xC1, 1), (0xC2, 1), (0xC3, 2), (0xC4, 4), (0xC5, 8), (0xC6, 1), (0xC7, 2), (0xC8, 4), (0xC9, 8),
   (0xCA, 4), (0xCB, 8), (0xCC, 4), (0xCD, 2), (0xCE, 4), (0xD1, 1), (0xD2, 2), (0xD3, 4), (0xD4, 8),
   (0xD6, 4), (0xD7, 8), (0xD8, 2), (0xDB, 4), (0xDD, 2)]

/-- every documented CIP type code (CIP Vol 1 App. C-6.1) is carried by a type of that width in the
    table the source declares now (regenerated from /repo on every run) -/
theorem type_code_table :
    ∀ cw ∈ specCodes, ∃ row ∈ Gen.dataTypes, row.2.2.1 = cw.1 ∧ row.2.2.2.1 = cw.2 := by
  sorry

/-- and no two differently-named members share a code except the two EPATH spellings (0xDC) -/
theorem type_codes_distinct :
    ∀ r1 ∈ Gen.dataTypes, ∀ r2 ∈ Gen.dataTypes, r1.2.2.1 = r2.2.2.1 → r1.2.2.1 ≠ 0xDC → r1.1 = r2.1 := by
  sorry

end Pycomm
