/-
  C03 — shape of the results of `LogixDriver.read(*tags)` / `LogixDriver.write(*tags_values)`
  (model: PycommModel/Logix/Driver.lean; helper lemmas: PycommProofs/LDShape.lean).

  For every tag database, configuration, world, hook and request list:
    * a call that returns, returns one Tag per request, in request order (`read_result_count`, `write_result_count`,
      `read_result_eq`, `write_result_eq`);
    * the i-th Tag is named by the i-th request alone: the request string when it cannot be answered, the request
      without its `{n}` suffix otherwise (`read_result_names`, `write_result_names`, `parsed_userTag_no_suffix`);
    * parsing is position-wise, request id = position (`parse_independent`, `parse_request_ids`, `parse_ids_distinct`);
    * a request whose parse fails yields the falsy Tag (request string, None, non-empty error text), whatever the
      other requests are, and no packet carries its id (`parse_error_falsy`, `parse_error_falsy_write`,
      `parse_error_no_packet_read`, `parse_error_no_packet_write`, `build_skips_failed_*`);
    * `Tag.__bool__` (`ltag_truthy_iff`);
    * where an exception of `read` / `write` can come from (`read_error_sources`, `read_error_classes`,
      `write_error_sources`, `parsed_elements_range`, `parsed_bool_index_nonneg`, `accepted_request_path_error`); the history of the one request shape that used to escape
      the parser's range check (a BOOL-array element with a huge index) is under `-- STATEMENT CHANGED` below.
-/
import PycommProofs.LDShape
namespace Pycomm.Lgx.Drv
open Pycomm.Tgt Pycomm.Path Pycomm.Reply

/-! ### concrete values for the examples -/

/-- a tag database with one DINT tag `x` and one BOOL array `d` (4 DWORDs) -/
def exDb : TagDb :=
  [(nm "x", .mk { tagType := .atomic, dataTypeName := nm "DINT", ty := .int .dint, instanceId := some 1 } .nil),
   (nm "d", .mk { tagType := .atomic, dataTypeName := nm "DWORD", ty := .arr (.fixed 4) (.bits .udint), dim := 1,
                  dimensions := [4, 0, 0], instanceId := some 2 } .nil)]

def exCfg : Cfg := { tags := exDb }

def exIdentity : Identity :=
  { vendor := 1, productType := 14, productCode := 1, major := 32, minor := 11, status := 0, serial := 1, name := [],
    state := 3, ip := 0 }

/-- a driver that believes it is connected, in front of a peer without objects -/
def exWorld : Cli.World Unit :=
  { drv := { hasSock := true, session := some 1, connectionOpened := true, targetCid := some [1, 2, 3, 4],
             targetIsConnected := true },
    net := { target := { base := { identity := exIdentity, plcName := [] }, ext := () }, tcpOpen := true } }

def exHook : ObjHook Unit := fun _ _ _ => none

/-- a controller project with the two tags: `x` = 7, `d` = 128 bits, all 0 -/
def exProject : Lgx.Project :=
  { templates := [],
    controller := [
      { inst := 1, name := nm "x", symbolType := 0xC4, dims := [0, 0, 0], attr3 := 0, attr5 := 0, attr6 := 0x04000000,
        access := 0, mem := [7, 0, 0, 0] },
      { inst := 2, name := nm "d", symbolType := 0x20D3, dims := [4, 0, 0], attr3 := 0, attr5 := 0, attr6 := 0x04000000,
        access := 0, mem := List.replicate 16 0 }],
    programs := [] }

def exLogixHook : ObjHook Lgx.LState := fun t cs req =>
  match Lgx.logixService t.ext req cs with
  | none => none
  | some (st', r) => some ({ t with ext := st' }, r)

/-- the driver connected (session 1, one large class-3 connection) to the reference controller holding `exProject` -/
def exLiveWorld : Cli.World Lgx.LState :=
  { drv := { hasSock := true, session := some 1, connectionOpened := true, targetCid := some [1, 2, 3, 4],
             targetIsConnected := true },
    net := { target := { base := { identity := exIdentity, plcName := [], sessions := [1],
                                   conns := [{ cid := 0x04030201, toId := 0x71190427, session := 1, size := 4002,
                                               large := true, serial := 0x0427, vendor := 0x1009,
                                               origSerial := 0x71191009, lastSeq := none, route := [] }] },
                         ext := { proj := exProject } }, tcpOpen := true } }

-- PROPERTY THEOREMS

/-! ## 5. `Tag.__bool__` -/

/-- tag.py:38 `Tag.__bool__`: a Tag is truthy exactly when its value is not None and its error is None -/
theorem ltag_truthy_iff (t : LTag) : t.truthy = true ↔ t.value ≠ .none ∧ t.error = none := by
  unfold LTag.truthy
  cases hv : t.value <;> cases he : t.error <;> simp

example : LTag.truthy { tag := nm "x", value := .int 5, type := some (nm "DINT"), error := none } = true :=
  (ltag_truthy_iff _).2 ⟨(by intro h; cases h), rfl⟩
example : LTag.truthy { tag := nm "x", value := .none, type := none, error := none } = false := by
  rw [Bool.eq_false_iff]; intro h; exact ((ltag_truthy_iff _).1 h).1 rfl
example : LTag.truthy { tag := nm "x", value := .int 5, type := none, error := some (.text (nm "e")) } = false := by
  rw [Bool.eq_false_iff]; intro h; cases ((ltag_truthy_iff _).1 h).2

/-! ## 3. Parsing is position-wise -/

theorem parse_length (db : TagDb) (rw : Bool) (tags : List Name) :
    (parseRequestedTags db rw tags).length = tags.length := lds_parse_length db rw tags

/-- the i-th parsed request is the parse of the i-th request string with request id i: it does not depend on the
    other requests -/
theorem parse_independent (db : TagDb) (rw : Bool) (tags : List Name) (i : Nat) (h : i < tags.length) :
    (parseRequestedTags db rw tags)[i]'(by rw [parse_length]; exact h) = parseTagRequest db rw i tags[i] :=
  lds_parse_getElem db rw tags i h

/-- the same, for all positions at once -/
theorem parse_independent' (db : TagDb) (rw : Bool) (tags : List Name) (i : Nat) :
    (parseRequestedTags db rw tags)[i]? = tags[i]?.map (parseTagRequest db rw i) :=
  lds_parse_getElem? db rw tags i

/-- a parsed request keeps its id and the request string as given -/
theorem parse_request_tag (db : TagDb) (rw : Bool) (i : Nat) (t : Name) :
    (parseTagRequest db rw i t).requestId = i ∧ (parseTagRequest db rw i t).requestTag = t :=
  ⟨lds_parse_rid db rw i t, lds_parse_rtag db rw i t⟩

/-- request id = position -/
theorem parse_request_ids (db : TagDb) (rw : Bool) (tags : List Name) :
    (parseRequestedTags db rw tags).map (·.requestId) = List.range tags.length := by
  apply List.ext_getElem
  · simp [parse_length]
  · intro i h1 h2
    have h : i < tags.length := by simpa using h2
    rw [List.getElem_map, parse_independent db rw tags i h, List.getElem_range]
    exact lds_parse_rid _ _ _ _

/-- duplicates get distinct request ids -/
theorem parse_ids_distinct (db : TagDb) (rw : Bool) (tags : List Name) :
    ((parseRequestedTags db rw tags).map (·.requestId)).Nodup := by
  rw [parse_request_ids]; exact List.nodup_range

example : (parseRequestedTags exDb false [nm "x", nm "nosuch", nm "x"])[2] = parseTagRequest exDb false 2 (nm "x") :=
  parse_independent exDb false [nm "x", nm "nosuch", nm "x"] 2 (by decide)
example : (parseRequestedTags exDb false [nm "x", nm "x"]).map (·.requestId) = [0, 1] :=
  parse_request_ids exDb false [nm "x", nm "x"]

/-! ## 1. One Tag per request -/

/-- a `read` that returns, returns exactly one Tag per request -/
theorem read_result_count {σ} (hook : ObjHook σ) (cfg : Cfg) (w w' : Cli.World σ) (tags : List Name) (res : List LTag)
    (h : read hook cfg w tags = (w', .ok res)) : res.length = tags.length := by
  obtain ⟨w0, u, d1, reqs, rs, _, _, _, _, rfl⟩ := lds_read_ok hook cfg w w' tags res h
  rw [List.length_map, lds_parse_length]

/-- a `write` that returns, returns exactly one Tag per (tag, value) pair -/
theorem write_result_count {σ} (hook : ObjHook σ) (cfg : Cfg) (w w' : Cli.World σ) (tvs : List (Name × PyVal))
    (res : List LTag) (h : write hook cfg w tvs = (w', .ok res)) : res.length = tvs.length := by
  obtain ⟨w0, u, d1, ps', reqs, rs, rs', _, hb, _, _, _, rfl⟩ := lds_write_ok hook cfg w w' tvs res h
  have := (lds_writeBuild_inv cfg _ _ _ _ _ (lds_wparse_idsPos cfg.tags tvs) hb).1.1
  rw [List.length_map, this, lds_wparse_length]

/-- the i-th Tag of `read` is computed from the parse of the i-th request and the table of responses, nothing else -/
theorem read_result_eq {σ} (hook : ObjHook σ) (cfg : Cfg) (w w' : Cli.World σ) (tags : List Name) (res : List LTag)
    (h : read hook cfg w tags = (w', .ok res)) :
    ∃ rs : Results, ∀ (i : Nat) (hi : i < tags.length) (hr : i < res.length),
      res[i] = readResult (parseTagRequest cfg.tags false i tags[i]) rs := by
  obtain ⟨w0, u, d1, reqs, rs, _, _, _, _, rfl⟩ := lds_read_ok hook cfg w w' tags res h
  refine ⟨rs, ?_⟩
  intro i hi hr
  rw [List.getElem_map, lds_parse_getElem cfg.tags false tags i hi]

example : ∀ w' res, read exHook exCfg exWorld [nm "nosuch", nm "x{70000}"] = (w', .ok res) → res.length = 2 :=
  fun w' res h => read_result_count exHook exCfg exWorld w' _ res h
/-- (the hypothesis of the example above holds: both requests fail to parse, nothing is sent) -/
example : (read exHook exCfg exWorld [nm "nosuch", nm "x{70000}"]).2 =
    .ok [{ tag := nm "nosuch", value := .none, type := none, error := some (tagDoesntExist (nm "nosuch")) },
         { tag := nm "x{70000}", value := .none, type := none,
           error := some (.text (nm "Element count out of range: 70000")) }] := by rfl
example : ∀ w' res, write exHook exCfg exWorld [(nm "nosuch", .int 1)] = (w', .ok res) → res.length = 1 :=
  fun w' res h => write_result_count exHook exCfg exWorld w' _ res h
example : (write exHook exCfg exWorld [(nm "nosuch", .int 1)]).2 =
    .ok [{ tag := nm "nosuch", value := .none, type := none, error := some (tagDoesntExist (nm "nosuch")) }] := by rfl

/-! ## 2. The name of the i-th Tag -/

/-- the tag name an accepted request is answered under (`userTag`) is the request without its `{n}` suffix:
    either the request had none and is returned as given, or it was `userTag{digits}`; splitting `userTag` again
    finds no suffix -/
theorem parsed_userTag_no_suffix (db : TagDb) (rw : Bool) (i : Nat) (t : Name)
    (h : (parseTagRequest db rw i t).error = none) :
    splitElements (parseTagRequest db rw i t).userTag = .ok ((parseTagRequest db rw i t).userTag, 1, true) ∧
    (((parseTagRequest db rw i t).userTag = t ∧ ¬ (t.getLast? = some 125 ∧ 123 ∈ t)) ∨
     (123 ∉ (parseTagRequest db rw i t).userTag ∧
        ∃ ds n, t = (parseTagRequest db rw i t).userTag ++ 123 :: ds ++ [125] ∧ 123 ∉ ds ∧ PyStr.pyInt ds = some n)) := by
  obtain ⟨tag, n, impl, info, hok⟩ := lds_parse_ok db rw i t h
  rw [hok.utag]
  refine ⟨lds_splitElements_fix t tag n impl hok.split, ?_⟩
  rcases lds_splitElements_ok t tag n impl hok.split with ⟨_, h1, _, h2⟩ | ⟨_, h1, ds, h2, h3, h4⟩
  · exact .inl ⟨h1, h2⟩
  · exact .inr ⟨h1, ds, n, h2, h3, h4⟩

example : (parseTagRequest exDb false 0 (nm "x{3}")).userTag = nm "x" := by rfl
example : splitElements (nm "x") = .ok (nm "x", 1, true) :=
  (parsed_userTag_no_suffix exDb false 0 (nm "x{3}") (by rfl)).1

/-- the i-th Tag of `read` carries the name of the i-th request: the request string as given when the request
    cannot be answered (then the Tag is falsy with an error), the request without its `{n}` suffix otherwise.
    A truthy Tag always carries the suffix-free name. -/
theorem read_result_names {σ} (hook : ObjHook σ) (cfg : Cfg) (w w' : Cli.World σ) (tags : List Name) (res : List LTag)
    (h : read hook cfg w tags = (w', .ok res)) (i : Nat) (hi : i < tags.length) (hr : i < res.length) :
    (∀ e, (parseTagRequest cfg.tags false i tags[i]).error = some e → res[i].tag = tags[i]) ∧
    (((parseTagRequest cfg.tags false i tags[i]).error = none ∧
        res[i].tag = (parseTagRequest cfg.tags false i tags[i]).userTag) ∨
      (res[i].tag = tags[i] ∧ res[i].value = .none ∧ res[i].error ≠ none)) ∧
    (res[i].truthy = true → (parseTagRequest cfg.tags false i tags[i]).error = none ∧
        res[i].tag = (parseTagRequest cfg.tags false i tags[i]).userTag) := by
  obtain ⟨w0, u, d1, reqs, rs, _, hb, hs, _, rfl⟩ := lds_read_ok hook cfg w w' tags res h
  have hres : ((parseRequestedTags cfg.tags false tags).map fun p => readResult p rs)[i]
      = readResult (parseTagRequest cfg.tags false i tags[i]) rs := by
    rw [List.getElem_map, lds_parse_getElem cfg.tags false tags i hi]
  rw [hres]
  generalize hp : parseTagRequest cfg.tags false i tags[i] = p
  have hrt : p.requestTag = tags[i] := by rw [← hp]; exact lds_parse_rtag _ _ _ _
  have hrid : p.requestId = i := by rw [← hp]; exact lds_parse_rid _ _ _ _
  have main : (p.error = none ∧ (readResult p rs).tag = p.userTag) ∨
      ((readResult p rs).tag = tags[i] ∧ (readResult p rs).value = .none ∧ (readResult p rs).error ≠ none) := by
    cases he : p.error with
    | some e => rw [lds_readResult_err p rs e he]; exact .inr ⟨hrt, rfl, by simp⟩
    | none =>
      rcases lds_readResult_tag p rs with ⟨h1, h2, h3⟩ | h1 | ⟨_, hbit, _, hg⟩
      · exact .inr ⟨by rw [h1, hrt], h2, h3⟩
      · exact .inl ⟨rfl, h1⟩
      · refine .inl ⟨rfl, ?_⟩
        obtain ⟨k', hk, p', hp', he', hid', htag'⟩ := lds_read_table hook cfg _ _ _ _ _ _ rs hb hs _ _ hg
        dsimp only at hid' htag'
        obtain ⟨j, hj, rfl⟩ := List.getElem_of_mem hp'
        have hj' : j < tags.length := by rw [lds_parse_length] at hj; exact hj
        rw [lds_parse_getElem cfg.tags false tags j hj'] at hid' htag'
        rw [lds_parse_rid] at hid'
        have hji : j = i := by
          have : (i : Int) = (k' : Int) := by rw [← hk, hrid]
          omega
        subst hji
        rw [hp] at htag'
        obtain ⟨tag, n, impl, info, hok⟩ := lds_parse_ok cfg.tags false j tags[j] (by rw [hp]; exact he)
        rw [hp] at hok
        rw [← htag', hok.plcOfBit hbit, hok.utag]
  refine ⟨?_, main, ?_⟩
  · intro e he
    rw [lds_readResult_err p rs e he]; exact hrt
  · intro ht
    rcases main with h1 | ⟨_, h2, _⟩
    · exact h1
    · exact absurd h2 ((ltag_truthy_iff _).1 ht).1

/-- the i-th Tag of `write` is computed from the i-th request (as the builder left it: same id, names, bit, value)
    and the table of responses -/
theorem write_result_eq {σ} (hook : ObjHook σ) (cfg : Cfg) (w w' : Cli.World σ) (tvs : List (Name × PyVal))
    (res : List LTag) (h : write hook cfg w tvs = (w', .ok res)) :
    ∃ (ps' : List Drv.Parsed) (rs : Results), ps'.length = tvs.length ∧
      ∀ (i : Nat) (hi : i < tvs.length) (hp : i < ps'.length) (hr : i < res.length),
        lds_Stable { parseTagRequest cfg.tags true i tvs[i].1 with value := tvs[i].2 } ps'[i] ∧
        res[i] = writeResult ps'[i] rs := by
  obtain ⟨w0, u, d1, ps', reqs, rs, rs', _, hb, _, _, _, rfl⟩ := lds_write_ok hook cfg w w' tvs res h
  obtain ⟨hlen, hst⟩ := (lds_writeBuild_inv cfg _ _ _ _ _ (lds_wparse_idsPos cfg.tags tvs) hb).1
  refine ⟨ps', rs', by rw [hlen, lds_wparse_length], ?_⟩
  intro i hi hp hr
  have := hst i (by rw [lds_wparse_length]; exact hi) hp
  rw [lds_wparse_getElem cfg.tags tvs i hi] at this
  exact ⟨this, by rw [List.getElem_map]⟩

/-- the i-th Tag of `write` carries the name of the i-th request: the request string as given when the request
    cannot be answered (then the Tag is falsy with an error), the request without its `{n}` suffix otherwise
    (then its value is the value the caller gave). A truthy Tag always carries the suffix-free name. -/
theorem write_result_names {σ} (hook : ObjHook σ) (cfg : Cfg) (w w' : Cli.World σ) (tvs : List (Name × PyVal))
    (res : List LTag) (h : write hook cfg w tvs = (w', .ok res)) (i : Nat) (hi : i < tvs.length) (hr : i < res.length) :
    (∀ e, (parseTagRequest cfg.tags true i tvs[i].1).error = some e → res[i].tag = tvs[i].1) ∧
    (((parseTagRequest cfg.tags true i tvs[i].1).error = none ∧
        res[i].tag = (parseTagRequest cfg.tags true i tvs[i].1).userTag ∧ res[i].value = tvs[i].2) ∨
      (res[i].tag = tvs[i].1 ∧ res[i].value = .none ∧ res[i].error ≠ none)) ∧
    (res[i].truthy = true → (parseTagRequest cfg.tags true i tvs[i].1).error = none ∧
        res[i].tag = (parseTagRequest cfg.tags true i tvs[i].1).userTag) := by
  obtain ⟨ps', rs, hlen, hall⟩ := write_result_eq hook cfg w w' tvs res h
  obtain ⟨hst, hres⟩ := hall i hi (by rw [hlen]; exact hi) hr
  rw [hres]
  generalize ps'[i] = q at hst
  generalize hp : parseTagRequest cfg.tags true i tvs[i].1 = p at hst
  have hrt : q.requestTag = tvs[i].1 := by rw [hst.rtag, ← hp]; exact lds_parse_rtag _ _ _ _
  have main : (p.error = none ∧ (writeResult q rs).tag = p.userTag ∧ (writeResult q rs).value = tvs[i].2) ∨
      ((writeResult q rs).tag = tvs[i].1 ∧ (writeResult q rs).value = .none ∧ (writeResult q rs).error ≠ none) := by
    rcases lds_writeResult_tag q rs with ⟨h1, h2, h3⟩ | ⟨h1, h2, h3⟩
    · exact .inr ⟨by rw [h1, hrt], h2, h3⟩
    · refine .inl ⟨?_, by rw [h1, hst.utag], by rw [h3, hst.value]⟩
      cases he : p.error with
      | none => rfl
      | some e =>
        have := hst.keep e he
        rw [this] at h2
        dsimp only at h2
        rw [he] at h2; cases h2
  refine ⟨?_, main, ?_⟩
  · intro e he
    have hq : q.error = some e := by rw [hst.keep e he]; exact he
    rw [lds_writeResult_err q rs e hq]; exact hrt
  · intro ht
    rcases main with ⟨h1, h2, _⟩ | ⟨_, h2, _⟩
    · exact ⟨h1, h2⟩
    · exact absurd h2 ((ltag_truthy_iff _).1 ht).1

example : ∀ w' res (hr : 1 < res.length), read exHook exCfg exWorld [nm "x{3}", nm "nosuch"] = (w', .ok res) →
    res[1].tag = nm "nosuch" ∧ (res[0].truthy = true → res[0].tag = nm "x") :=
  fun w' res hr h =>
    ⟨(read_result_names exHook exCfg exWorld w' _ res h 1 (by decide) hr).1 _ (by rfl),
     fun ht => ((read_result_names exHook exCfg exWorld w' _ res h 0 (by decide) (by omega)).2.2 ht).2⟩

example : ∀ w' res (hr : 1 < res.length),
    write exHook exCfg exWorld [(nm "x{2}", .list [.int 1, .int 2]), (nm "nosuch", .int 1)] = (w', .ok res) →
    res[1].tag = nm "nosuch" ∧ (res[0].truthy = true → res[0].tag = nm "x") :=
  fun w' res hr h =>
    ⟨(write_result_names exHook exCfg exWorld w' _ res h 1 (by decide) hr).1 _ (by rfl),
     fun ht => ((write_result_names exHook exCfg exWorld w' _ res h 0 (by decide) (by omega)).2.2 ht).2⟩

/-! ## 4. A request whose parse fails -/

/-- the error of a request the parser rejects is a non-empty text -/
theorem parse_error_text (db : TagDb) (rw : Bool) (i : Nat) (t : Name) (e : TagErr)
    (h : (parseTagRequest db rw i t).error = some e) : ∃ s, e = .text s ∧ s ≠ [] :=
  (lds_parse_err db rw i t e h).2

/-- `readResult` / `writeResult` of a rejected request ignore the table of responses entirely -/
theorem result_of_failed_ignores_table (p : Drv.Parsed) (e : TagErr) (h : p.error = some e) (rs rs' : Results) :
    readResult p rs = readResult p rs' ∧ writeResult p rs = writeResult p rs' := by
  rw [lds_readResult_err p rs e h, lds_readResult_err p rs' e h, lds_writeResult_err p rs e h,
    lds_writeResult_err p rs' e h]
  exact ⟨rfl, rfl⟩

/-- `read`: a request whose parse fails yields — whatever the other requests are and whatever the controller
    answers, as long as the call returns — the falsy Tag (request string, None, the parser's non-empty error text) -/
theorem parse_error_falsy {σ} (hook : ObjHook σ) (cfg : Cfg) (w w' : Cli.World σ) (tags : List Name) (res : List LTag)
    (h : read hook cfg w tags = (w', .ok res)) (i : Nat) (hi : i < tags.length) (hr : i < res.length) (e : TagErr)
    (he : (parseTagRequest cfg.tags false i tags[i]).error = some e) :
    res[i] = { tag := tags[i], value := .none, type := none, error := some e } ∧
    (∃ s, e = .text s ∧ s ≠ []) ∧ res[i].truthy = false := by
  obtain ⟨rs, hall⟩ := read_result_eq hook cfg w w' tags res h
  have h1 : res[i] = { tag := tags[i], value := .none, type := none, error := some e } := by
    rw [hall i hi hr, lds_readResult_err _ rs e he, lds_parse_rtag]
  refine ⟨h1, parse_error_text _ _ _ _ _ he, ?_⟩
  rw [h1]; rfl

/-- `write`: the same -/
theorem parse_error_falsy_write {σ} (hook : ObjHook σ) (cfg : Cfg) (w w' : Cli.World σ) (tvs : List (Name × PyVal))
    (res : List LTag) (h : write hook cfg w tvs = (w', .ok res)) (i : Nat) (hi : i < tvs.length) (hr : i < res.length)
    (e : TagErr) (he : (parseTagRequest cfg.tags true i tvs[i].1).error = some e) :
    res[i] = { tag := tvs[i].1, value := .none, type := none, error := some e } ∧
    (∃ s, e = .text s ∧ s ≠ []) ∧ res[i].truthy = false := by
  obtain ⟨ps', rs, hlen, hall⟩ := write_result_eq hook cfg w w' tvs res h
  obtain ⟨hst, hres⟩ := hall i hi (by rw [hlen]; exact hi) hr
  have hq := hst.keep e he
  have h1 : res[i] = { tag := tvs[i].1, value := .none, type := none, error := some e } := by
    have he' : ps'[i].error = some e := by rw [hq]; exact he
    rw [hres, lds_writeResult_err _ rs e he', hst.rtag]
    show ({ tag := (parseTagRequest cfg.tags true i tvs[i].1).requestTag, value := .none, type := none,
            error := some e } : LTag) = _
    rw [lds_parse_rtag]
  refine ⟨h1, parse_error_text _ _ _ _ _ he, ?_⟩
  rw [h1]; rfl

example : ∀ w' res (hr : 1 < res.length), read exHook exCfg exWorld [nm "x", nm "x{70000}"] = (w', .ok res) →
    res[1] = { tag := nm "x{70000}", value := .none, type := none,
               error := some (.text (nm "Element count out of range: 70000")) } :=
  fun w' res hr h => (parse_error_falsy exHook exCfg exWorld w' _ res h 1 (by decide) hr _ (by rfl)).1

example : ∀ w' res (hr : 0 < res.length), write exHook exCfg exWorld [(nm "x.40", .bool true), (nm "x", .int 1)] = (w', .ok res) →
    res[0] = { tag := nm "x.40", value := .none, type := none,
               error := some (.text (nm "Invalid bit number for a DINT: 40")) } ∧ res[0].truthy = false :=
  fun w' res hr h =>
    have := parse_error_falsy_write exHook exCfg exWorld w' _ res h 0 (by decide) hr _ (by rfl)
    ⟨this.1, this.2.2⟩
example : ∃ s, TagErr.text (nm "Invalid bit number for a DINT: 40") = .text s ∧ s ≠ [] :=
  parse_error_text exDb true 0 (nm "x.40") _ (by rfl)

/-- `write`: the builder may reject an accepted request as well (its value cannot be encoded); whatever error the
    i-th request carries after building — the parser's or the builder's — its Tag is the falsy Tag with the request
    string and that error, and the error is a non-empty text -/
theorem write_request_error_falsy {σ} (hook : ObjHook σ) (cfg : Cfg) (w w' : Cli.World σ) (tvs : List (Name × PyVal))
    (res : List LTag) (h : write hook cfg w tvs = (w', .ok res)) :
    ∃ (ps' : List Drv.Parsed) (rs : Results), ps'.length = tvs.length ∧
      ∀ (i : Nat) (hi : i < tvs.length) (hp : i < ps'.length) (hr : i < res.length),
        res[i] = writeResult ps'[i] rs ∧
        ∀ e, ps'[i].error = some e →
          res[i] = { tag := tvs[i].1, value := .none, type := none, error := some e } ∧ (∃ s, e = .text s ∧ s ≠ []) := by
  obtain ⟨ps', rs, hlen, hall⟩ := write_result_eq hook cfg w w' tvs res h
  refine ⟨ps', rs, hlen, ?_⟩
  intro i hi hp hr
  obtain ⟨hst, hres⟩ := hall i hi hp hr
  refine ⟨hres, ?_⟩
  intro e he
  constructor
  · rw [hres, lds_writeResult_err _ rs e he, hst.rtag]
    show ({ tag := (parseTagRequest cfg.tags true i tvs[i].1).requestTag, value := .none, type := none,
            error := some e } : LTag) = _
    rw [lds_parse_rtag]
  · rcases hst.errs e he with h1 | h1
    · exact parse_error_text cfg.tags true i tvs[i].1 e h1
    · exact h1

/-- (a DINT cannot be written from a str: the builder rejects the request, nothing is sent for it) -/
example : (write exHook exCfg exWorld [(nm "x", .str (nm "a"))]).2 =
    .ok [{ tag := nm "x", value := .none, type := none,
           error := some (.text (nm "Invalid Tag Request - RequestError('Unable to create a writable value')")) }] := by rfl

/-- `_read_build_requests`: no built packet carries the request id of a request whose parse failed (every tag
    request inside a packet is the id and the addressed tag of an accepted request) -/
theorem parse_error_no_packet_read (cfg : Cfg) (d d' : Cli.Drv) (tags : List Name) (reqs : List Request)
    (hb : readBuildRequests cfg d (parseRequestedTags cfg.tags false tags) = (d', .ok reqs))
    (i : Nat) (hi : i < tags.length) (e : TagErr) (he : (parseTagRequest cfg.tags false i tags[i]).error = some e) :
    ∀ q ∈ reqs, ∀ k ∈ q.lds_carried, k.1 ≠ i := by
  intro q hq k hk hki
  obtain ⟨p, hp, hpe, hid, _⟩ := (lds_readBuild_carried cfg d d' _ reqs hb q hq).2 k hk
  obtain ⟨j, hj, rfl⟩ := List.getElem_of_mem hp
  have hj' : j < tags.length := by rw [lds_parse_length] at hj; exact hj
  rw [lds_parse_getElem cfg.tags false tags j hj'] at hpe hid
  rw [lds_parse_rid] at hid
  have : j = i := by omega
  subst this
  rw [he] at hpe; cases hpe

/-- `_write_build_requests`: the same, bit requests folded into Read-Modify-Write packets included -/
theorem parse_error_no_packet_write (cfg : Cfg) (d d' : Cli.Drv) (tvs : List (Name × PyVal)) (ps' : List Drv.Parsed)
    (reqs : List Request)
    (hb : writeBuildRequests cfg d (lds_wparse cfg.tags tvs) = (d', .ok (ps', reqs)))
    (i : Nat) (hi : i < tvs.length) (e : TagErr) (he : (parseTagRequest cfg.tags true i tvs[i].1).error = some e) :
    ∀ q ∈ reqs, ∀ k ∈ q.lds_carried, k.1 ≠ i := by
  intro q hq k hk hki
  obtain ⟨p, hp, hpe, hid, _⟩ := (lds_writeBuild_inv cfg d d' _ ps' reqs (lds_wparse_idsPos cfg.tags tvs) hb).2 q hq k hk
  obtain ⟨j, hj, rfl⟩ := List.getElem_of_mem hp
  have hj' : j < tvs.length := by rw [lds_wparse_length] at hj; exact hj
  rw [lds_wparse_getElem cfg.tags tvs j hj'] at hpe hid
  dsimp only at hpe hid
  rw [lds_parse_rid] at hid
  have : j = i := by omega
  subst this
  rw [he] at hpe; cases hpe

example : ∀ d' ps' reqs,
    writeBuildRequests exCfg exWorld.drv (lds_wparse exDb [(nm "x.40", .bool true), (nm "x.3", .bool true)]) = (d', .ok (ps', reqs)) →
    ∀ q ∈ reqs, ∀ k ∈ q.lds_carried, k.1 ≠ 0 :=
  fun d' ps' reqs hb =>
    parse_error_no_packet_write exCfg _ d' [(nm "x.40", .bool true), (nm "x.3", .bool true)] ps' reqs hb 0 (by decide) _ (by rfl)
/-- (what is built there: one Read-Modify-Write packet on `x` for request 1) -/
example : ((writeBuildRequests exCfg exWorld.drv (lds_wparse exDb [(nm "x.40", .bool true), (nm "x.3", .bool true)])).2.map
    fun x => x.2.map Request.lds_carried) = .ok [[(1, nm "x")]] := by rfl

/-- at the level of the call: the packets a returning `read` sent carry no request whose parse failed -/
theorem read_sends_nothing_for_failed {σ} (hook : ObjHook σ) (cfg : Cfg) (w w' : Cli.World σ) (tags : List Name)
    (res : List LTag) (h : read hook cfg w tags = (w', .ok res)) :
    ∃ w0 u d1 reqs rs,
      Cli.ensureForwardOpen hook Cli.FUEL w = (w0, .ok u) ∧
      readBuildRequests cfg w0.drv (parseRequestedTags cfg.tags false tags) = (d1, .ok reqs) ∧
      sendRequests hook { w0 with drv := d1 } [] reqs = (w', .ok rs) ∧
      ∀ (i : Nat) (hi : i < tags.length) (e : TagErr), (parseTagRequest cfg.tags false i tags[i]).error = some e →
        ∀ q ∈ reqs, ∀ k ∈ q.lds_carried, k.1 ≠ i := by
  obtain ⟨w0, u, d1, reqs, rs, h0, hb, hs, _, _⟩ := lds_read_ok hook cfg w w' tags res h
  exact ⟨w0, u, d1, reqs, rs, h0, hb, hs, fun i hi e he => parse_error_no_packet_read cfg _ _ tags reqs hb i hi e he⟩

/-- the request loops of the builders skip a rejected request: they build exactly what they build for the list
    without the rejected requests (the ids of the others unchanged) -/
theorem build_skips_failed_read (cfg : Cfg) (C : Nat) (multi : Bool) (d : Cli.Drv) (ps : List Drv.Parsed) :
    readBuildLive cfg C multi d ps = readBuildLive cfg C multi d (ps.filter fun p => p.error.isNone) :=
  lds_readBuildLive_filter cfg C multi ps d

theorem build_skips_failed_write (cfg : Cfg) (C : Nat) (d : Cli.Drv) (acc : WriteBuild) (accs ps : List Drv.Parsed) :
    writeBuildLive cfg C d acc ps = writeBuildLive cfg C d acc (ps.filter fun p => p.error.isNone) ∧
    writeBuildSingles cfg C d accs ps = writeBuildSingles cfg C d accs (ps.filter fun p => p.error.isNone) :=
  ⟨lds_writeBuildLive_filter cfg C ps d acc, lds_writeBuildSingles_filter cfg C ps d accs⟩

example : ∀ d' reqs, readBuildRequests exCfg exWorld.drv (parseRequestedTags exDb false [nm "nosuch", nm "x"]) = (d', .ok reqs) →
    ∀ q ∈ reqs, ∀ k ∈ q.lds_carried, k.1 ≠ 0 :=
  fun d' reqs hb => parse_error_no_packet_read exCfg _ d' [nm "nosuch", nm "x"] reqs hb 0 (by decide) _ (by rfl)
/-- (what is built there: one multi-service packet with the one read of `x`, request id 1) -/
example : ((readBuildRequests exCfg exWorld.drv (parseRequestedTags exDb false [nm "nosuch", nm "x"])).2.map
    fun reqs => reqs.map Request.lds_carried) = .ok [[(1, nm "x")]] := by rfl

/-! ## 6. When `read` raises -/

/-- the element count of every accepted request fits the UINT of the request (`elementsNat` cannot fail): a plain
    request by the range check of its `{n}` suffix, a BOOL-array request (DWORD tag) by the check of its word count,
    its index being a non-negative number by the index validation -/
theorem parsed_elements_range (db : TagDb) (rw : Bool) (i : Nat) (t : Name)
    (he : (parseTagRequest db rw i t).error = none) :
    0 ≤ (parseTagRequest db rw i t).elements ∧ (parseTagRequest db rw i t).elements ≤ 65535 ∧
    elementsNat (parseTagRequest db rw i t).elements = .ok (parseTagRequest db rw i t).elements.toNat := by
  obtain ⟨tag, n, impl, info, hok⟩ := lds_parse_ok db rw i t he
  have hr := lds_POk_elements_range t _ tag n impl info hok
  refine ⟨hr.1, hr.2, ?_⟩
  unfold elementsNat; rw [if_pos hr]

/-- the index of an accepted BOOL-array request is not negative -/
theorem parsed_bool_index_nonneg (db : TagDb) (rw : Bool) (i : Nat) (t : Name) (info : TagInfo) (idx : Int)
    (he : (parseTagRequest db rw i t).error = none) (hi : (parseTagRequest db rw i t).info = some info)
    (hd : isDword info = true) (hb : (parseTagRequest db rw i t).bit = some idx) : 0 ≤ idx := by
  obtain ⟨tag, n, impl, info', hok⟩ := lds_parse_ok db rw i t he
  have : info' = info := by rw [hok.hinfo] at hi; exact Option.some.inj hi
  subst this
  have := lds_POk_idx_nonneg t _ tag n impl info' hok hd
  rw [hb] at this; simpa using this

-- STATEMENT CHANGED: "`elementsNat` out of range cannot happen after the parser's range check" was false of the
-- model (and of the library) before the repair af92872 of the library: the parser checked the `{n}` count only, a
-- BOOL-array request then carried `(index + n) / 32` (rounded up) DWORDs, and an index ≥ 65535 * 32 = 2097120
-- pushed that past 65535; `UINT.encode` raised while the packet was built and the exception left `read`, taking the
-- other requests of the call with it. Counterexample at the time (`exDb`: DINT `x`, BOOL array `d`):
--   (parseTagRequest exDb false 0 (nm "d[2097152]")).elements = 65537 with error = none
--   (read exHook exCfg exWorld [nm "x", nm "d[2097152]"]).2 = Except.error Exn.data
-- The repaired parser rejects such a request ("Array index out of range: …"); `parsed_elements_range` now holds
-- for every accepted request and `read_error_sources` has no element-count disjunct any more.
example : (parseTagRequest exDb false 0 (nm "d[2097152]")).error =
    some (.text (nm "Array index out of range: 2097152")) := by rfl
example : (read exHook exCfg exWorld [nm "d[2097152]"]).2 =
    .ok [{ tag := nm "d[2097152]", value := .none, type := none,
           error := some (.text (nm "Array index out of range: 2097152")) }] := by rfl
/-- the other request of the call is answered: two Tags, the first one the value of `x` -/
example : (read exLogixHook exCfg exLiveWorld [nm "x", nm "d[2097152]"]).2 =
    .ok [{ tag := nm "x", value := .int 7, type := some (nm "DINT"), error := none },
         { tag := nm "d[2097152]", value := .none, type := none,
           error := some (.text (nm "Array index out of range: 2097152")) }] := by rfl
/-- the largest index the word count allows: 65535 DWORDs -/
example : (parseTagRequest exDb false 0 (nm "d[2097119]")).error = none ∧
    (parseTagRequest exDb false 0 (nm "d[2097119]")).elements = 65535 := ⟨rfl, rfl⟩
example : (parseTagRequest exDb false 0 (nm "x{3}")).elements = 3 ∧
    elementsNat (parseTagRequest exDb false 0 (nm "x{3}")).elements = .ok 3 :=
  ⟨rfl, (parsed_elements_range exDb false 0 (nm "x{3}") (by rfl)).2.2⟩
example : (0 : Int) ≤ 5 :=
  parsed_bool_index_nonneg exDb false 0 (nm "d[5]") _ 5 (by rfl) (by rfl) (by rfl) (by rfl)

/-- building the request path of an accepted request raises a DataError at most (a name longer than 255 bytes or a
    path longer than 510 bytes): the ValueError of `int()` on an index is excluded by the index validation of the
    parser, `tag_request_path` never returns None -/
theorem accepted_request_path_error (cfg : Cfg) (db : TagDb) (rw : Bool) (i : Nat) (t : Name) (info : TagInfo) (e : Exn)
    (he : (parseTagRequest db rw i t).error = none)
    (h : requestPathOf cfg (parseTagRequest db rw i t).plcTag info = .error e) : e = .data :=
  lds_requestPathOf_fine cfg _ info e (lds_parse_plc_fine db rw i t he) h

example : ∃ v, requestPathOf exCfg (parseTagRequest exDb true 0 (nm "d[37]")).plcTag
    (.mk { tagType := .atomic, dataTypeName := nm "DWORD", ty := .arr (.fixed 4) (.bits .udint) } .nil) = .ok v :=
  ⟨_, rfl⟩
example : (parseTagRequest exDb true 0 (nm "d[37]")).plcTag = nm "d[1]" := by rfl

/-- every way `read` can raise:
    1. the `@with_forward_open` decorator fails (`ensureForwardOpen`);
    2. no request at all: `results[0]` of the empty list;
    3. building the request path of an accepted request fails (`tag_request_path`), with a DataError;
    4. sending: the transport (`CIPDriver.send`), the fuel of the fragmented-read loop, or `response.error` raising
       on a failed reply (`lds_SendErr`).
    In particular no parse failure, no element count and no error status of the controller raises. -/
theorem read_error_sources {σ} (hook : ObjHook σ) (cfg : Cfg) (w w' : Cli.World σ) (tags : List Name) (e : Exn)
    (h : read hook cfg w tags = (w', .error e)) :
    (∃ w0, Cli.ensureForwardOpen hook Cli.FUEL w = (w0, .error e)) ∨
    (tags = [] ∧ e = .foreign "IndexError") ∨
    (∃ (i : Nat) (hi : i < tags.length) (info : TagInfo),
      (parseTagRequest cfg.tags false i tags[i]).error = none ∧
      (parseTagRequest cfg.tags false i tags[i]).info = some info ∧
      requestPathOf cfg (parseTagRequest cfg.tags false i tags[i]).plcTag info = .error e ∧ e = .data) ∨
    lds_SendErr hook e := by
  unfold read at h
  generalize Cli.ensureForwardOpen hook Cli.FUEL w = r at h ⊢
  obtain ⟨w0, pre⟩ := r
  dsimp only at h
  cases pre with
  | error e' =>
    simp only [Prod.mk.injEq, Except.error.injEq] at h
    obtain ⟨_, rfl⟩ := h
    exact .inl ⟨w0, rfl⟩
  | ok u =>
    dsimp only at h
    rcases hb : readBuildRequests cfg w0.drv (parseRequestedTags cfg.tags false tags) with ⟨d1, reqs⟩
    rw [hb] at h
    dsimp only at h
    cases reqs with
    | error e' =>
      simp only [Prod.mk.injEq, Except.error.injEq] at h
      obtain ⟨_, rfl⟩ := h
      obtain ⟨p, hp, hpe, info, hpi, herr⟩ := lds_readBuild_err cfg _ _ _ _ hb
      obtain ⟨j, hj, rfl⟩ := List.getElem_of_mem hp
      have hj' : j < tags.length := by rw [lds_parse_length] at hj; exact hj
      rw [lds_parse_getElem cfg.tags false tags j hj'] at hpe hpi herr
      rcases herr with herr | herr
      · exact .inr (.inr (.inl ⟨j, hj', info, hpe, hpi, herr,
          accepted_request_path_error cfg _ _ _ _ info _ hpe herr⟩))
      · rw [(parsed_elements_range _ _ _ _ hpe).2.2] at herr; cases herr
    | ok reqs =>
      dsimp only at h
      rcases hs : sendRequests hook { w0 with drv := d1 } [] reqs with ⟨w2, rs⟩
      rw [hs] at h
      dsimp only at h
      cases rs with
      | error e' =>
        simp only [Prod.mk.injEq, Except.error.injEq] at h
        obtain ⟨_, rfl⟩ := h
        exact .inr (.inr (.inr (lds_sendRequests_read_err hook reqs _ _ _ _
          (fun q hq => (lds_readBuild_carried cfg _ _ _ _ hb q hq).1) hs)))
      | ok rs =>
        dsimp only at h
        split at h
        · next hemp =>
          simp only [Prod.mk.injEq, Except.error.injEq] at h
          exact .inr (.inl ⟨by simpa using hemp, h.2.symm⟩)
        · cases h

/-- the exception classes of `read`: the library's CommError / DataError / BufferEmptyError / ResponseError /
    RequestError, the fuel marker of the model, and the IndexError of a call without requests -/
theorem read_error_classes {σ} (hook : ObjHook σ) (cfg : Cfg) (w w' : Cli.World σ) (tags : List Name) (e : Exn)
    (h : read hook cfg w tags = (w', .error e)) :
    Cli.LcLib e ∨ e = .hang ∨ (tags = [] ∧ e = .foreign "IndexError") := by
  rcases read_error_sources hook cfg w w' tags e h with ⟨w0, h0⟩ | ⟨h1, h2⟩ | ⟨i, hi, info, _, _, _, rfl⟩ | hs
  · exact .inl (Cli.lc_efo_lib hook 5 w e (by rw [show (5 + 3 : Nat) = Cli.FUEL from rfl, h0]))
  · exact .inr (.inr ⟨h1, h2⟩)
  · exact .inl Cli.lc_lib_data
  · rcases lds_SendErr_class hook e hs with rfl | rfl | rfl | rfl
    · exact .inl Cli.lc_lib_comm
    · exact .inl Cli.lc_lib_data
    · exact .inl Cli.lc_lib_bufferEmpty
    · exact .inr (.inl rfl)

example : ∀ w', read exHook exCfg exWorld [] = (w', .error (.foreign "IndexError")) →
    Cli.LcLib (.foreign "IndexError") ∨ Exn.foreign "IndexError" = .hang ∨
      (([] : List Name) = [] ∧ Exn.foreign "IndexError" = .foreign "IndexError") :=
  fun w' h => read_error_classes exHook exCfg exWorld w' [] _ h
example : (read exHook exCfg exWorld []).2 = .error (.foreign "IndexError") := by rfl

/-! ## 6'. When `write` raises -/

/-- every way `write` can raise:
    1. the `@with_forward_open` decorator fails;
    2. no (tag, value) pair at all: `results[0]` of the empty list;
    3. building the request path of an accepted request fails (`tag_request_path`), with a DataError;
    4. sending the built packets `reqs`: the transport / `response.error` (`lds_SendErr`, no fuel is involved for
       writes but the disjunct is shared with `read`), `ULINT.encode` of the masks of a Read-Modify-Write packet
       (`rmwMessage`), or the foreign exceptions of `_send_write_fragmented` on an empty value / a connection too
       small for one segment (`lds_FragSizeErr`);
    5. the result of a Read-Modify-Write packet is missing from the table (`write_results.pop`: KeyError).
    In particular no parse failure, no value that cannot be encoded, no element count, no missing `DataTypes` entry
    of a bit request and no error status of the controller raises. -/
theorem write_error_sources {σ} (hook : ObjHook σ) (cfg : Cfg) (w w' : Cli.World σ) (tvs : List (Name × PyVal)) (e : Exn)
    (h : write hook cfg w tvs = (w', .error e)) :
    (∃ w0, Cli.ensureForwardOpen hook Cli.FUEL w = (w0, .error e)) ∨
    (tvs = [] ∧ e = .foreign "IndexError") ∨
    (∃ (i : Nat) (hi : i < tvs.length) (info : TagInfo),
      (parseTagRequest cfg.tags true i tvs[i].1).error = none ∧
      (parseTagRequest cfg.tags true i tvs[i].1).info = some info ∧
      requestPathOf cfg (parseTagRequest cfg.tags true i tvs[i].1).plcTag info = .error e ∧ e = .data) ∨
    (∃ w0 u d1 ps' reqs,
      Cli.ensureForwardOpen hook Cli.FUEL w = (w0, .ok u) ∧
      writeBuildRequests cfg w0.drv (lds_wparse cfg.tags tvs) = (d1, .ok (ps', reqs)) ∧
      (lds_WSendErr hook reqs e ∨
       (e = .foreign "KeyError" ∧ ∃ w2 rs, sendRequests hook { w0 with drv := d1 } [] reqs = (w2, .ok rs) ∧
          fanOutRmw rs reqs = none))) := by
  unfold write at h
  generalize Cli.ensureForwardOpen hook Cli.FUEL w = r at h ⊢
  obtain ⟨w0, pre⟩ := r
  dsimp only at h
  cases pre with
  | error e' =>
    simp only [Prod.mk.injEq, Except.error.injEq] at h
    obtain ⟨_, rfl⟩ := h
    exact .inl ⟨w0, rfl⟩
  | ok u =>
    dsimp only at h
    rcases hb : writeBuildRequests cfg w0.drv (lds_wparse cfg.tags tvs) with ⟨d1, built⟩
    have hb' := hb
    unfold lds_wparse at hb
    rw [hb] at h
    dsimp only at h
    cases built with
    | error e' =>
      simp only [Prod.mk.injEq, Except.error.injEq] at h
      obtain ⟨_, rfl⟩ := h
      obtain ⟨p, hp, hpe, info, hpi, herr⟩ := lds_writeBuild_err cfg _ _ _ _ hb'
      obtain ⟨j, hj, rfl⟩ := List.getElem_of_mem hp
      have hj' : j < tvs.length := by rw [lds_wparse_length] at hj; exact hj
      rw [lds_wparse_getElem cfg.tags tvs j hj'] at hpe hpi herr
      have hpe' : (parseTagRequest cfg.tags true j tvs[j].1).error = none := hpe
      obtain ⟨tag, n, impl, info', hok⟩ := lds_parse_ok cfg.tags true j tvs[j].1 hpe'
      have hok' := lds_POk_value _ _ tag n impl info' tvs[j].2 hok
      have hinfo : info' = info := by
        have := hok'.hinfo; rw [hpi] at this; exact (Option.some.inj this).symm
      subst hinfo
      rcases herr with herr | ⟨hbit, hent⟩ | herr
      · exact .inr (.inr (.inl ⟨j, hj', info', hpe', hpi, herr,
          accepted_request_path_error cfg _ _ _ _ info' _ hpe' herr⟩))
      · exfalso
        cases hbv : (parseTagRequest cfg.tags true j tvs[j].1).bit with
        | none =>
          have : ({ parseTagRequest cfg.tags true j tvs[j].1 with value := tvs[j].2 } : Drv.Parsed).bit = none := hbv
          rw [this] at hbit; cases hbit
        | some b =>
          have := lds_POk_bit_entry _ _ tag n impl info' hok b hbv
          rw [hent] at this; cases this
      · exfalso
        have hr := lds_POk_encode_range _ _ tag n impl info' hok'
        unfold elementsNat at herr
        rw [if_pos hr] at herr; cases herr
    | ok x =>
      obtain ⟨ps', reqs⟩ := x
      dsimp only at h
      rcases hs : sendRequests hook { w0 with drv := d1 } [] reqs with ⟨w2, rs⟩
      rw [hs] at h
      dsimp only at h
      cases rs with
      | error e' =>
        simp only [Prod.mk.injEq, Except.error.injEq] at h
        obtain ⟨_, rfl⟩ := h
        exact .inr (.inr (.inr ⟨w0, u, d1, ps', reqs, rfl, hb', .inl (lds_sendRequests_err hook reqs _ _ _ _ hs)⟩))
      | ok rs =>
        dsimp only at h
        cases hf : fanOutRmw rs reqs with
        | none =>
          rw [hf] at h
          simp only [Prod.mk.injEq, Except.error.injEq] at h
          exact .inr (.inr (.inr ⟨w0, u, d1, ps', reqs, rfl, hb', .inr ⟨h.2.symm, w2, rs, hs, hf⟩⟩))
        | some rs' =>
          rw [hf] at h
          dsimp only at h
          split at h
          · next hemp =>
            simp only [Prod.mk.injEq, Except.error.injEq] at h
            exact .inr (.inl ⟨by simpa using hemp, h.2.symm⟩)
          · cases h

example : (write exHook exCfg exWorld []).2 = .error (.foreign "IndexError") := by rfl
/-- a write that is answered: the DINT and one bit of the BOOL array -/
example : (write exLogixHook exCfg exLiveWorld [(nm "x", .int 9), (nm "d[5]", .bool true)]).2 =
    .ok [{ tag := nm "x", value := .int 9, type := some (nm "DINT"), error := none },
         { tag := nm "d[5]", value := .bool true, type := some (nm "BOOL"), error := none }] := by rfl

end Pycomm.Lgx.Drv
