/-
  LogixDriver.open(), end to end, part 7: the fresh world, the configured route, and the composition
  `CIPDriver.open` → `_list_identity` → `get_plc_info` → (`get_plc_name`) → `get_tag_list` for the ControlLogix and the
  Micro800 variant.
-/
import PycommProofs.LOpenE6
namespace Pycomm.Lgx.Opn
open Pycomm Pycomm.Tgt Pycomm.Path Pycomm.Reply Pycomm.Encap Pycomm.Cli Pycomm.Ident Pycomm.EP Pycomm.Lgx.Drv

/-- a fresh driver — no socket, no session, default configuration apart from the route — on a transport without faults,
    in front of a reference target that holds no session and no connection, accepts sessions and at least one of the
    two Forward Open services, and whose handle / connection-id counters are in the wire ranges -/
structure loe_Fresh (w : Cli.World Ext) : Prop where
  /-- every driver attribute has its default value (`Cli.Drv`), apart from the route -/
  drv : w.drv = { cipPath := w.drv.cipPath }
  faults : w.net.faults = []
  sessions : w.net.target.base.sessions = []
  conns : w.net.target.base.conns = []
  sessionOk : w.net.target.base.policy.sessionOk = true
  foOk : w.net.target.base.policy.largeFoOk = true ∨ w.net.target.base.policy.stdFoOk = true
  ns0 : w.net.target.base.nextSession ≠ 0
  ns32 : w.net.target.base.nextSession < 2 ^ 32
  cid32 : w.net.target.base.nextCid < 2 ^ 32

/-- a configured route the driver can use: it encodes as the route of an Unconnected Send (`get_plc_info`), and followed by
    the message router it encodes to a connection path the target accepts in a Forward Open (`Cli.PathOk`) -/
structure loe_Route (path : List Seg) : Prop where
  ucs : ∃ ps, EncAll path ps 300
  fo : ∃ n route, encEpath true (path ++ msgRouterPath) true false = .ok (n :: route) ∧ route.length = 2 * n.toNat ∧
    foPathOk route = true

/-- no route (`LogixDriver("10.0.0.1")` against a CompactLogix / the default of the model's driver) -/
theorem loe_Route_nil : loe_Route [] :=
  ⟨⟨[], EncAll.nil.mono (by decide)⟩, ⟨2, [0x20, 0x02, 0x24, 0x01], by rfl, by decide, by decide⟩⟩

/-- what `open()` leaves of the driver: everything `CIPDriver.__init__` set, with the socket, the session, the random
    connection serials, the connection id and the Forward Open variant that succeeded -/
def loe_drvAfter (d : Cli.Drv) (rnd : Bytes) (sess : Nat) (cidb : Bytes) (large : Bool) : Cli.Drv :=
  { d with hasSock := true, connectionOpened := true, cid := rnd.take 4, vsn := (rnd.drop 4).take 4, session := some sess,
           targetCid := some cidb, targetIsConnected := true,
           extendedFo := large, connectionSize := if large then 4000 else 500 }

/-- the target-side facts the composition threads through: the Logix state, the identity, the program name -/
theorem loe_opened_target (w : Cli.World Ext) (rnd frm : Bytes) :
    (loe_opened w rnd frm).net.target.ext = w.net.target.ext ∧
    (loe_opened w rnd frm).net.target.base.identity = w.net.target.base.identity ∧
    (loe_opened w rnd frm).net.target.base.plcName = w.net.target.base.plcName ∧
    (loe_opened w rnd frm).net.target.base.policy = w.net.target.base.policy ∧
    (loe_opened w rnd frm).net.target.base.conns = w.net.target.base.conns ∧
    (loe_opened w rnd frm).net.target.base.nextCid = w.net.target.base.nextCid ∧
    (loe_opened w rnd frm).net.sent = w.net.sent ++ [frm] :=
  ⟨rfl, rfl, rfl, rfl, rfl, rfl, rfl⟩

/-- the Forward-Open configuration of the opened driver -/
theorem loe_opened_cfg (w : Cli.World Ext) (rnd frm : Bytes) (hf : loe_Fresh w) (hrnd : rnd.length = 8)
    (path : List Seg) (n : UInt8) (route : Bytes)
    (hr : encEpath true (path ++ msgRouterPath) true false = .ok (n :: route)) (hl : route.length = 2 * n.toNat)
    (hok : foPathOk route = true) (d : Cli.Drv)
    (hd : d = { (loe_opened w rnd frm).drv with cipPath := path }) : loe_FoCfg d n route := by
  subst hd
  refine ⟨?_, ?_, ?_, ?_, hr, hl, hok⟩
  · show (rnd.take 4).length = 4
    rw [List.length_take]; omega
  · show w.drv.csn.length = 2
    rw [hf.drv]; rfl
  · show w.drv.vid.length = 2
    rw [hf.drv]; rfl
  · show ((rnd.drop 4).take 4).length = 4
    rw [List.length_take, List.length_drop]; omega

/-- `CIPDriver.open()`, `_list_identity()`, `get_plc_info()` from the fresh world: the registered session, both
    identity answers, three frames; the target keeps its Logix state, identity, program name, policy; no connection yet -/
theorem loe_open_identify (w : Cli.World Ext) (rnd : Bytes) (micro : Bool) (hf : loe_Fresh w)
    (hroute : loe_Route w.drv.cipPath) (hid : IdOk w.net.target.base.identity) :
    ∃ w1 w2 w3 frms,
      openDrv hookAll w rnd = (w1, .ok true) ∧
      listIdentity hookAll w1 = (w2, .ok (ide_presentList w.net.target.base.identity)) ∧
      getPlcInfo hookAll w2 micro = (w3, .ok (ide_presentInfo w.net.target.base.identity)) ∧
      gme_Session w3 w.net.target.base.nextSession ∧
      w3.drv = { w.drv with hasSock := true, connectionOpened := true, cid := rnd.take 4, vsn := (rnd.drop 4).take 4,
                            session := some w.net.target.base.nextSession } ∧
      w3.net.target.ext = w.net.target.ext ∧ w3.net.target.base.plcName = w.net.target.base.plcName ∧
      w3.net.target.base.policy = w.net.target.base.policy ∧ w3.net.target.base.conns = [] ∧
      w3.net.target.base.nextCid = w.net.target.base.nextCid ∧ w3.net.sent = w.net.sent ++ frms := by
  obtain ⟨frm0, hopen⟩ := loe_openDrv hookAll w rnd (by rw [hf.drv]) (by rw [hf.drv]) (by rw [hf.drv])
    (by rw [hf.drv]; rfl) (by rw [hf.drv]) hf.faults hf.sessionOk hf.ns32
  have hs1 := loe_opened_session w rnd frm0 (by rw [hf.drv]; rfl) (by rw [hf.drv]) hf.faults hf.ns32
  obtain ⟨e1, e2, e3, e4, e5, e6, e7⟩ := loe_opened_target w rnd frm0
  obtain ⟨ps, henc⟩ := hroute.ucs
  obtain ⟨w2, w3, hli, hpi, hd3, hs3, hk3, f1, f2, hsent3⟩ := loe_identify hookAll (loe_opened w rnd frm0)
    w.net.target.base.nextSession micro ps hs1 (by rw [e2]; exact hid) henc
  rw [e2] at hli hpi
  refine ⟨_, w2, w3, [frm0, f1, f2], hopen, hli, hpi, hs3, hd3, ?_, ?_, ?_, ?_, ?_, ?_⟩
  · rw [hk3.ext, e1]
  · rw [hk3.plcName, e3]
  · rw [hk3.policy, e4]
  · rw [hk3.conns, e5, hf.conns]
  · rw [hk3.nextCid, e6]
  · rw [hsent3, e7]; simp

/-- the project-side hypotheses of the tag upload (those of `open_tags_nested_project` / `open_tags_program_scopes`) -/
structure loe_Project (st : LState) (b : Bool) : Prop where
  /-- the symbols' fields fit their wire fields -/
  wf : ∀ s ∈ st.proj.controller, Up.WfSymbol s
  /-- the controller lists its symbols by strictly increasing instance id -/
  sorted : st.proj.controller.Pairwise (fun a b => a.inst < b.inst)
  /-- `PAGE_FUEL` pages suffice -/
  fuel : st.proj.controller.length < PAGE_FUEL
  /-- every kept structure symbol refers to a template the client can follow (well-formed, nesting ≤ 64) -/
  nest : ∀ s ∈ st.proj.controller, K.keepSymbol s.name s.symbolType = true → s.symbolType / 32768 % 2 = 1 →
    lon_NestedTemplate st.proj (s.symbolType % 4096)
  /-- program names are plain, program symbol tables well-formed (only needed with `init_program_tags`) -/
  progs : b = true → loe_Programs st.proj 500

theorem loe_drvAfter_eq (w : Cli.World Ext) (rnd : Bytes) (sess : Nat) (cidb : Bytes) (hf : loe_Fresh w) (large : Bool)
    (d3 d4 : Cli.Drv)
    (h3 : d3 = { w.drv with hasSock := true, connectionOpened := true, cid := rnd.take 4, vsn := (rnd.drop 4).take 4,
                            session := some sess })
    (h4 : (large = true → d4 = { d3 with targetCid := some cidb, targetIsConnected := true }) ∧
          (large = false → d4 = { d3 with targetCid := some cidb, targetIsConnected := true, extendedFo := false,
                                          connectionSize := 500 })) :
    d4 = loe_drvAfter w.drv rnd sess cidb large := by
  cases large with
  | true =>
    rw [h4.1 rfl, h3, hf.drv]
    rfl
  | false =>
    rw [h4.2 rfl, h3]
    rfl

/-- `LogixDriver.open()` of a fresh driver in front of a ControlLogix / CompactLogix -/
theorem loe_open_logix (w : Cli.World Ext) (st : LState) (b : Bool) (rnd : Bytes) (db : TagDb)
    (hf : loe_Fresh w) (hroute : loe_Route w.drv.cipPath) (hrnd : rnd.length = 8)
    (hid : IdOk w.net.target.base.identity)
    (hnm : PyStr.startsWith Gen.MICRO800_PREFIX (w.net.target.base.identity.name.map (·.toNat)) = false)
    (hname : w.net.target.base.plcName.length < 65536)
    (hlogix : w.net.target.ext.logix = some st)
    (hrev : 18 ≤ w.net.target.base.identity.major → 18 ≤ st.rev)
    (hp : loe_Project st b) (hdb : tagDbOf st.proj b = some db) :
    ∃ w' l' conn c,
      openLogixSt hookAll { initTags := true, initProgramTags := b } w {} rnd = (w', l', .ok true) ∧
      l'.tags = db ∧
      l'.metas = loe_metasOf st.proj (decide (w.net.target.base.identity.major ≥ Gen.MIN_VER_EXTERNAL_ACCESS)) b ∧
      l'.info = loe_infoOf st.proj b { plc := ide_presentInfo w.net.target.base.identity,
                                       name := some (w.net.target.base.plcName.map (·.toNat)) } ∧
      l'.micro800 = false ∧ l'.useInstanceIds = Drv.useInstanceIdsOf w.net.target.base.identity.major false ∧
      l'.cacheLeft = false ∧
      ldr_Healthy w' w.net.target.base.nextSession (le 4 w.net.target.base.nextCid) conn ∧
      conn.size = (if w.net.target.base.policy.largeFoOk then 4000 else 500) ∧
      lo_SameDrv (loe_drvAfter w.drv rnd w.net.target.base.nextSession (le 4 w.net.target.base.nextCid)
        w.net.target.base.policy.largeFoOk) w'.drv ∧
      w'.net.target.ext.logix = some { st with ctr := c } ∧
      (∃ frms, w'.net.sent = w.net.sent ++ frms) := by
  obtain ⟨w1, w2, w3, frms3, hopen, hli, hpi, hs3, hd3, hx3, hn3, hpol3, hc3, hcid3, hsent3⟩ :=
    loe_open_identify w rnd false hf hroute hid
  obtain ⟨n, route, hr, hrl, hrok⟩ := hroute.fo
  have hcfg3 : loe_FoCfg w3.drv n route := by
    apply loe_opened_cfg w rnd [] hf hrnd w.drv.cipPath n route hr hrl hrok
    rw [hd3]
    rfl
  -- the Forward Open of `with_forward_open` in front of `get_plc_name`
  obtain ⟨w4, conn4, hfo4, hh4, hls4, hsame4, ⟨frms4, hsent4⟩, hL, hS⟩ := loe_ensureFO hookAll 5 w3
    w.net.target.base.nextSession n route hs3 hf.ns0 (by rw [hd3]; show w.drv.targetIsConnected = false; rw [hf.drv])
    hcfg3 (by rw [hd3]; show w.drv.extendedFo = true; rw [hf.drv]) (by rw [hd3]; show w.drv.connectionSize = 4000; rw [hf.drv])
    hc3 (by rw [hcid3]; exact hf.cid32) (by rw [hpol3]; exact hf.foOk)
  rw [hcid3] at hh4 hL hS
  rw [hpol3] at hL hS
  have hfo4' : ensureForwardOpen hookAll FUEL w3 = (w4, .ok ()) := hfo4
  have hsz4 : 500 ≤ conn4.size := by
    cases hl : w.net.target.base.policy.largeFoOk with
    | true => have := (hL hl).1; omega
    | false => have := (hS hl).1; omega
  -- `get_plc_name`
  obtain ⟨w5, frm5, hgn, hh5, hd5, hsent5, hx5⟩ := loe_getPlcName hookAll w4 w.net.target.base.nextSession
    (le 4 w.net.target.base.nextCid) conn4 hh4 (by omega) (by rw [hsame4.plcName, hn3]; exact hname)
  rw [hsame4.plcName, hn3] at hgn
  have hgn3 : getPlcName hookAll w3 = (w5, .ok (w.net.target.base.plcName.map (·.toNat))) := by
    rw [loe_getPlcName_via hookAll w3 w4 hfo4' hh4.connected]; exact hgn
  -- `_initialize_driver`
  have hm : isMicro800 (ide_presentList w.net.target.base.identity) = false := by rw [ide_isMicro800]; exact hnm
  have hinit := loe_initialize_logix hookAll { initTags := true, initProgramTags := b } w1 w2 w3 w5 {} _ _ _ hli hm hpi hgn3
  simp only [if_true] at hinit
  -- `get_tag_list`
  have hlogix5 : w5.net.target.ext.logix = some st := by rw [hx5, hsame4.ext, hx3]; exact hlogix
  obtain ⟨w', l', conn', c, hgt, ht, hm', hi', hmi, hui, hcl, hh', hcs', hsd', ⟨frms6, hsent6⟩, hlx'⟩ :=
    loe_getTagList w5 (loe_identified {} false (ide_presentInfo w.net.target.base.identity)
      (some (w.net.target.base.plcName.map (·.toNat)))) w.net.target.base.nextSession (le 4 w.net.target.base.nextCid)
      { conn4 with lastSeq := some w4.drv.nextSeq.1 } st b db (gme_to_ldr_Healthy hh5) hlogix5
      (fun h => hrev h) hp.wf hp.sorted (by show 32 ≤ conn4.size; omega) hp.fuel hp.nest
      (fun hb => loe_Programs_mono (hp.progs hb) (by show 500 ≤ conn4.size; exact hsz4)) hdb
  refine ⟨w', l', conn', c, ?_, ht, hm', hi', hmi, hui, hcl, hh', ?_, ?_, hlx', ⟨frms3 ++ frms4 ++ [frm5] ++ frms6, ?_⟩⟩
  · unfold openLogixSt
    rw [hopen]
    dsimp only
    rw [hinit, hgt]
    rfl
  · rw [hcs']
    show conn4.size = _
    cases hl : w.net.target.base.policy.largeFoOk with
    | true => rw [(hL hl).1]; rfl
    | false => rw [(hS hl).1]; rfl
  · have hd4 : w4.drv = loe_drvAfter w.drv rnd w.net.target.base.nextSession (le 4 w.net.target.base.nextCid)
        w.net.target.base.policy.largeFoOk :=
      loe_drvAfter_eq w rnd _ _ hf _ w3.drv w4.drv hd3 ⟨fun h => (hL h).2.2, fun h => (hS h).2.2⟩
    rw [← hd4]
    exact lo_SameDrv.trans (by rw [hd5]; exact lo_SameDrv.nextSeq w4.drv) hsd'
  · rw [hsent6, hsent5, hsent4, hsent3]
    simp

theorem loe_drvAfter_eq' (w : Cli.World Ext) (rnd : Bytes) (sess : Nat) (cidb : Bytes) (hf : loe_Fresh w) (large : Bool)
    (p : List Seg) (d3 d4 : Cli.Drv)
    (h3 : d3 = { w.drv with hasSock := true, connectionOpened := true, cid := rnd.take 4, vsn := (rnd.drop 4).take 4,
                            session := some sess, cipPath := p })
    (h4 : (large = true → d4 = { d3 with targetCid := some cidb, targetIsConnected := true }) ∧
          (large = false → d4 = { d3 with targetCid := some cidb, targetIsConnected := true, extendedFo := false,
                                          connectionSize := 500 })) :
    d4 = { loe_drvAfter w.drv rnd sess cidb large with cipPath := p } := by
  cases large with
  | true =>
    rw [h4.1 rfl, h3, hf.drv]
    rfl
  | false =>
    rw [h4.2 rfl, h3]
    rfl

theorem loe_useInstanceIds_micro (rev : Nat) : Drv.useInstanceIdsOf rev true = false := by
  unfold Drv.useInstanceIdsOf
  simp

/-- `LogixDriver.open()` of a fresh driver in front of a Micro800 (product name starts with "2080"): no program name is
    read, the trailing backplane segment of the route is dropped BEFORE the first Forward Open (which `get_tag_list`
    triggers), instance ids are not used -/
theorem loe_open_micro (w : Cli.World Ext) (st : LState) (b : Bool) (rnd : Bytes) (db : TagDb)
    (hf : loe_Fresh w) (hroute : loe_Route w.drv.cipPath) (hroute' : loe_Route (popPortSegment w.drv.cipPath))
    (hrnd : rnd.length = 8) (hid : IdOk w.net.target.base.identity)
    (hnm : PyStr.startsWith Gen.MICRO800_PREFIX (w.net.target.base.identity.name.map (·.toNat)) = true)
    (hlogix : w.net.target.ext.logix = some st)
    (hrev : 18 ≤ w.net.target.base.identity.major → 18 ≤ st.rev)
    (hp : loe_Project st b) (hdb : tagDbOf st.proj b = some db) :
    ∃ w' l' conn c,
      openLogixSt hookAll { initTags := true, initProgramTags := b } w {} rnd = (w', l', .ok true) ∧
      l'.tags = db ∧
      l'.metas = loe_metasOf st.proj (decide (w.net.target.base.identity.major ≥ Gen.MIN_VER_EXTERNAL_ACCESS)) b ∧
      l'.info = loe_infoOf st.proj b { plc := ide_presentInfo w.net.target.base.identity, name := none } ∧
      l'.micro800 = true ∧ l'.useInstanceIds = false ∧ l'.cacheLeft = false ∧
      ldr_Healthy w' w.net.target.base.nextSession (le 4 w.net.target.base.nextCid) conn ∧
      conn.size = (if w.net.target.base.policy.largeFoOk then 4000 else 500) ∧
      lo_SameDrv { loe_drvAfter w.drv rnd w.net.target.base.nextSession (le 4 w.net.target.base.nextCid)
                     w.net.target.base.policy.largeFoOk with cipPath := popPortSegment w.drv.cipPath } w'.drv ∧
      w'.net.target.ext.logix = some { st with ctr := c } ∧
      (∃ frms, w'.net.sent = w.net.sent ++ frms) := by
  obtain ⟨w1, w2, w3, frms3, hopen, hli, hpi, hs3, hd3, hx3, hn3, hpol3, hc3, hcid3, hsent3⟩ :=
    loe_open_identify w rnd true hf hroute hid
  obtain ⟨n, route, hr, hrl, hrok⟩ := hroute'.fo
  -- `_initialize_driver`
  have hm : isMicro800 (ide_presentList w.net.target.base.identity) = true := by rw [ide_isMicro800]; exact hnm
  have hinit := loe_initialize_micro hookAll { initTags := true, initProgramTags := b } w1 w2 w3 {} _ _ hli hm hpi
  simp only [if_true] at hinit
  -- the world with the shortened route
  obtain ⟨w3', hw3'⟩ : ∃ w3' : Cli.World Ext, w3' = { w3 with drv := { w3.drv with cipPath := popPortSegment w3.drv.cipPath } } :=
    ⟨_, rfl⟩
  rw [← hw3'] at hinit
  have hpop : popPortSegment w3.drv.cipPath = popPortSegment w.drv.cipPath := by rw [hd3]
  have hd3' : w3'.drv = { (loe_opened w rnd []).drv with cipPath := popPortSegment w.drv.cipPath } := by
    rw [hw3']
    show ({ w3.drv with cipPath := popPortSegment w3.drv.cipPath } : Cli.Drv) = _
    rw [hpop, hd3]
    rfl
  have hs3' : gme_Session w3' w.net.target.base.nextSession := by
    rw [hw3']
    exact { sock := hs3.sock, ctx8 := hs3.ctx8, opt0 := hs3.opt0, session := hs3.session, session32 := hs3.session32,
            sessionReg := hs3.sessionReg, pend := hs3.pend, faults := hs3.faults }
  have hcfg3 : loe_FoCfg w3'.drv n route :=
    loe_opened_cfg w rnd [] hf hrnd (popPortSegment w.drv.cipPath) n route hr hrl hrok _ hd3'
  have ht3' : w3'.net.target = w3.net.target := by rw [hw3']
  -- the Forward Open of `with_forward_open` in front of `get_tag_list`
  obtain ⟨w4, conn4, hfo4, hh4, hls4, hsame4, ⟨frms4, hsent4⟩, hL, hS⟩ := loe_ensureFO hookAll 5 w3'
    w.net.target.base.nextSession n route hs3' hf.ns0
    (by rw [hd3']; show w.drv.targetIsConnected = false; rw [hf.drv])
    hcfg3 (by rw [hd3']; show w.drv.extendedFo = true; rw [hf.drv])
    (by rw [hd3']; show w.drv.connectionSize = 4000; rw [hf.drv])
    (by rw [ht3']; exact hc3) (by rw [ht3', hcid3]; exact hf.cid32) (by rw [ht3', hpol3]; exact hf.foOk)
  rw [ht3', hcid3] at hh4 hL hS
  rw [hpol3] at hL hS
  have hfo4' : ensureForwardOpen hookAll FUEL w3' = (w4, .ok ()) := hfo4
  have hsz4 : 500 ≤ conn4.size := by
    cases hl : w.net.target.base.policy.largeFoOk with
    | true => have := (hL hl).1; omega
    | false => have := (hS hl).1; omega
  -- `get_tag_list`
  have hlogix4 : w4.net.target.ext.logix = some st := by rw [hsame4.ext, ht3', hx3]; exact hlogix
  obtain ⟨w', l', conn', c, hgt, ht, hm', hi', hmi, hui, hcl, hh', hcs', hsd', ⟨frms6, hsent6⟩, hlx'⟩ :=
    loe_getTagList w4 (loe_identified {} true (ide_presentInfo w.net.target.base.identity) none)
      w.net.target.base.nextSession (le 4 w.net.target.base.nextCid) conn4 st b db (gme_to_ldr_Healthy hh4) hlogix4
      (fun h => hrev h) hp.wf hp.sorted (by omega) hp.fuel hp.nest
      (fun hb => loe_Programs_mono (hp.progs hb) hsz4) hdb
  rw [← loe_getTagList_via hookAll w3' w4 _ b hfo4' hh4.connected] at hgt
  refine ⟨w', l', conn', c, ?_, ht, hm', hi', hmi, ?_, hcl, hh', ?_, ?_, hlx', ⟨frms3 ++ frms4 ++ frms6, ?_⟩⟩
  · unfold openLogixSt
    rw [hopen]
    dsimp only
    rw [hinit, hgt]
    rfl
  · rw [hui]
    exact loe_useInstanceIds_micro _
  · rw [hcs']
    cases hl : w.net.target.base.policy.largeFoOk with
    | true => rw [(hL hl).1]; rfl
    | false => rw [(hS hl).1]; rfl
  · have hd4 : w4.drv = { loe_drvAfter w.drv rnd w.net.target.base.nextSession (le 4 w.net.target.base.nextCid)
        w.net.target.base.policy.largeFoOk with cipPath := popPortSegment w.drv.cipPath } :=
      loe_drvAfter_eq' w rnd _ _ hf _ _ w3'.drv w4.drv (by rw [hd3']; rfl) ⟨fun h => (hL h).2.2, fun h => (hS h).2.2⟩
    rw [← hd4]
    exact hsd'
  · rw [hsent6, hsent4, hw3']
    show w3.net.sent ++ frms4 ++ frms6 = _
    rw [hsent3]
    simp

end Pycomm.Lgx.Opn
