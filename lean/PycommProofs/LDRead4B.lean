/-
  LogixDriver.read, layer (d, addressing and memory) for a MEMBER PATH of any depth: where the reference controller
  resolves `base[i].m1[j].m2 … .leaf` and which bytes it holds there.
    `ldr4_Hop`, `ldr4_HopOk`, `ldr4_Chain`   a walk through nested structure definitions of the project
    `ldr4_offset`, `ldr4_avail`              the byte offset it accumulates, the elements available at its end
    `ldr4_resolveMembers`, `ldr4_resolve_path`  `resolve` follows the walk (induction over the path)
    `ldr4_readBytes`                          the bytes of `n` elements at a location inside the symbol's memory
-/
import PycommProofs.LDRead4A
namespace Pycomm.Lgx.Drv
open Pycomm Pycomm.Tgt Pycomm.Path Pycomm.Reply Pycomm.EP Pycomm.Lgx Pycomm.Lgx.E2E

/-- one step of a member path: the structure definition the member is looked up in, the member, the element index
    written after its name (`[]` or `[i]`), and the size in bytes of one element of the member's type -/
structure ldr4_Hop where
  tm : Template
  m : MemberDef
  idx : List Nat
  sz : Nat

/-- the step as written in the tag string -/
def ldr4_Hop.level (h : ldr4_Hop) : TagLevel := ⟨h.m.name, h.idx⟩
/-- the element type the step leads to -/
def ldr4_Hop.ty (h : ldr4_Hop) : ElTy := elTyOfWord h.m.typeWord
/-- the byte offset of the addressed element inside the enclosing structure: member offset + index · element size -/
def ldr4_Hop.off (h : ldr4_Hop) : Nat := h.m.offset + h.idx.headD 0 * h.sz
/-- the number of elements available from the addressed element: 1 for a scalar member, the array tail otherwise -/
def ldr4_Hop.avail (h : ldr4_Hop) : Nat := if h.m.info = 0 then 1 else h.m.info - h.idx.headD 0

/-- the step is a legal one from the structure definition `tid` of project `p` -/
structure ldr4_HopOk (p : Project) (tid : Nat) (h : ldr4_Hop) : Prop where
  tmpl : p.template? tid = some h.tm
  mem : h.m ∈ h.tm.members
  bytes : ∀ m' ∈ h.tm.members, ∀ ch ∈ m'.name, ch < 256
  uniq : ∀ m' ∈ h.tm.members, m'.name = h.m.name → m' = h.m
  notBool : elTyOfWord h.m.typeWord ≠ .atomic 0xC1
  size : p.elSize (elTyOfWord h.m.typeWord) = some h.sz
  index : h.idx = [] ∨ ∃ i, h.idx = [i] ∧ i < h.m.info

/-- a walk from an element of type `cur` through the steps `hops` ends at an element of type `final`: every step but
    possibly the last leads to a structure, whose definition the next step is taken from -/
def ldr4_Chain (p : Project) : ElTy → List ldr4_Hop → ElTy → Prop
  | cur, [], final => final = cur
  | cur, h :: rest, final => ∃ tid, cur = .struct tid ∧ ldr4_HopOk p tid h ∧ ldr4_Chain p h.ty rest final

/-- the byte offset a walk accumulates: the sum of the steps' offsets -/
def ldr4_offset (hops : List ldr4_Hop) : Nat := (hops.map (·.off)).sum

/-- the elements available at the end of a walk that started with `a` available -/
def ldr4_avail (a : Nat) : List ldr4_Hop → Nat
  | [] => a
  | h :: rest => ldr4_avail h.avail rest

/-- the path segments of a walk -/
def ldr4_segs (hops : List ldr4_Hop) : List PSeg := hops.flatMap fun h => levelSegs h.level

theorem ldr4_segs_cons (h : ldr4_Hop) (rest : List ldr4_Hop) :
    ldr4_segs (h :: rest) = PSeg.symbol (h.m.name.map UInt8.ofNat) :: (h.idx.map (PSeg.logical 8) ++ ldr4_segs rest) := by
  simp [ldr4_segs, levelSegs, ldr4_Hop.level]

theorem ldr4_segs_head (hops : List ldr4_Hop) : ldr4_segs hops = [] ∨ ∃ n r, ldr4_segs hops = PSeg.symbol n :: r := by
  cases hops with
  | nil => exact Or.inl rfl
  | cons h rest => exact Or.inr ⟨_, _, ldr4_segs_cons h rest⟩

theorem ldr4_segs_length (hops : List ldr4_Hop) : hops.length ≤ (ldr4_segs hops).length := by
  induction hops with
  | nil => simp
  | cons h rest ih =>
    rw [ldr4_segs_cons]
    simp only [List.length_cons, List.length_append, List.length_map]
    omega

/-- the member ids after a name are taken up to the next name -/
theorem ldr4_takeIndices (idx : List Nat) (rest : List PSeg) (h : rest = [] ∨ ∃ n r, rest = PSeg.symbol n :: r) :
    takeIndices (idx.map (PSeg.logical 8) ++ rest) = (idx, rest) := by
  induction idx with
  | nil =>
    rcases h with rfl | ⟨n, r, rfl⟩
    · simp [takeIndices]
    · simp [takeIndices]
  | cons i idx ih =>
    simp only [List.map_cons, List.cons_append, takeIndices, ih]

/-- (d, addressing) `resolveMembers` follows a walk: the offsets add up, type and availability are those of the end -/
theorem ldr4_resolveMembers (p : Project) : ∀ (hops : List ldr4_Hop) (cur final : ElTy) (loc : Loc) (fuel : Nat),
    ldr4_Chain p cur hops final → loc.ty = cur → hops.length < fuel →
    resolveMembers p fuel loc (ldr4_segs hops) =
      .ok { loc with offset := loc.offset + ldr4_offset hops, ty := final, avail := ldr4_avail loc.avail hops }
  | [], cur, final, loc, fuel, hc, hty, hf => by
    obtain ⟨f, rfl⟩ : ∃ f, fuel = f + 1 := ⟨fuel - 1, by omega⟩
    simp only [ldr4_Chain] at hc
    subst hc
    obtain ⟨si, sc, o, ty, av⟩ := loc
    simp only at hty
    subst hty
    simp [ldr4_segs, resolveMembers, ldr4_offset, ldr4_avail]
  | h :: rest, cur, final, loc, fuel, hc, hty, hf => by
    obtain ⟨f, rfl⟩ : ∃ f, fuel = f + 1 := ⟨fuel - 1, by omega⟩
    simp only [ldr4_Chain] at hc
    obtain ⟨tid, rfl, hok, hrest⟩ := hc
    obtain ⟨si, sc, o, ty, av⟩ := loc
    simp only at hty
    subst hty
    have hfm := ldr3_find_member h.tm h.m hok.mem hok.bytes hok.uniq
    have hnb : (elTyOfWord h.m.typeWord == ElTy.atomic 0xC1) = false := by
      simpa using hok.notBool
    have hti := ldr4_takeIndices h.idx (ldr4_segs rest) (ldr4_segs_head rest)
    have hlen : rest.length < f := by simp only [List.length_cons] at hf; omega
    rw [ldr4_segs_cons]
    rcases hok.index with hidx | ⟨i, hidx, hi⟩
    · -- no index: element 0 of the member
      by_cases h0 : h.m.info = 0
      · have ih := ldr4_resolveMembers p rest h.ty final
          { symInst := si, scope := sc, offset := o + h.m.offset, ty := elTyOfWord h.m.typeWord, avail := 1 } f hrest rfl hlen
        rw [hidx] at hti
        simp only [List.map_nil, List.nil_append] at hti
        simp only [hidx, List.map_nil, List.nil_append, resolveMembers, hok.tmpl, hfm, hnb, Bool.false_eq_true, if_false,
          hti, hok.size, h0, if_true, ne_eq, not_true_eq_false, ih, ldr4_offset, ldr4_avail, List.map_cons, List.sum_cons,
          ldr4_Hop.off, ldr4_Hop.avail, List.headD_nil, Nat.zero_mul, Nat.add_zero, Nat.add_assoc]
      · have ih := ldr4_resolveMembers p rest h.ty final
          { symInst := si, scope := sc, offset := o + h.m.offset, ty := elTyOfWord h.m.typeWord, avail := h.m.info } f hrest rfl hlen
        rw [hidx] at hti
        simp only [List.map_nil, List.nil_append] at hti
        simp only [hidx, List.map_nil, List.nil_append, resolveMembers, hok.tmpl, hfm, hnb, Bool.false_eq_true, if_false,
          hti, hok.size, h0, ih, ldr4_offset, ldr4_avail, List.map_cons, List.sum_cons,
          ldr4_Hop.off, ldr4_Hop.avail, List.headD_nil, Nat.zero_mul, Nat.add_zero, Nat.add_assoc, Nat.sub_zero]
    · -- element `i` of an array member
      have h0 : h.m.info ≠ 0 := by omega
      have hge : ¬ (i ≥ h.m.info) := by omega
      have ih := ldr4_resolveMembers p rest h.ty final
        { symInst := si, scope := sc, offset := o + h.m.offset + i * h.sz, ty := elTyOfWord h.m.typeWord,
          avail := h.m.info - i } f hrest rfl hlen
      rw [hidx] at hti
      simp only [List.map_cons, List.map_nil] at hti
      simp only [hidx, List.map_cons, List.map_nil, resolveMembers, hok.tmpl, hfm, hnb, Bool.false_eq_true, if_false,
        hti, hok.size, h0, hge]
      rw [ih]
      simp only [ldr4_offset, ldr4_avail, List.map_cons, List.sum_cons, ldr4_Hop.off, ldr4_Hop.avail, hidx,
        List.headD_cons, h0, if_false, Nat.add_assoc]

/-- (d, addressing) the symbolic path of a member path resolves to the end of the walk inside the symbol: byte offset
    `li · (size of the tag's structure) + ldr4_offset hops`, where `li` is the (row-major) linear index written after
    the tag name (0 without indexes) -/
theorem ldr4_resolve_path (p : Project) (s : Symbol) (tid0 : Nat) (tm0 : Template) (idx0 : List Nat) (li : Nat)
    (hops : List ldr4_Hop) (final : ElTy)
    (hid : PlainIdent s.name) (hs : s ∈ p.controller)
    (hbytes : ∀ s' ∈ p.controller, ∀ ch ∈ s'.name, ch < 256)
    (huniqN : ∀ s' ∈ p.controller, s'.name = s.name → s' = s)
    (hty : elTyOfWord s.symbolType = .struct tid0) (htm0 : p.template? tid0 = some tm0) (hmem : s.mem ≠ [])
    (hidx : (idx0 = [] ∧ li = 0) ∨ (idx0 ≠ [] ∧ linearIndex s.dims idx0 = some li))
    (hchain : ldr4_Chain p (.struct tid0) hops final) :
    resolve p (levelSegs ⟨s.name, idx0⟩ ++ ldr4_segs hops) =
      .ok { symInst := s.inst, scope := none, offset := li * tm0.size + ldr4_offset hops, ty := final,
            avail := ldr4_avail (dimsProduct s.dims - li) hops } := by
  have hme : s.mem.isEmpty = false := by
    cases h : s.mem with
    | nil => exact absurd h hmem
    | cons _ _ => rfl
  have hel : p.elSize (.struct tid0) = some tm0.size := by simp [Project.elSize, htm0]
  have hti := ldr4_takeIndices idx0 (ldr4_segs hops) (ldr4_segs_head hops)
  have hfuel : hops.length < (ldr4_segs hops).length + 1 := by have := ldr4_segs_length hops; omega
  unfold resolve
  rcases hidx with ⟨h0, hli⟩ | ⟨h0, hli⟩
  · subst h0 hli
    have hrm := ldr4_resolveMembers p hops (.struct tid0) final
      { symInst := s.inst, scope := none, offset := 0 * tm0.size, ty := .struct tid0, avail := dimsProduct s.dims }
      ((ldr4_segs hops).length + 1) hchain rfl hfuel
    simp only [List.map_nil, List.nil_append] at hti
    simp only [levelSegs, List.map_nil, List.cons_append, List.nil_append, ldr_not_programName s.name hid,
      Bool.false_eq_true, if_false, Project.findSymbol, ldr_find_name p s hs hbytes huniqN, Option.map_some, hme, hty,
      hel, hti, if_true, hrm, Nat.sub_zero]
  · have hrm := ldr4_resolveMembers p hops (.struct tid0) final
      { symInst := s.inst, scope := none, offset := li * tm0.size, ty := .struct tid0, avail := dimsProduct s.dims - li }
      ((ldr4_segs hops).length + 1) hchain rfl hfuel
    simp only [levelSegs, List.cons_append, ldr_not_programName s.name hid,
      Bool.false_eq_true, if_false, Project.findSymbol, ldr_find_name p s hs hbytes huniqN, Option.map_some, hme, hty,
      hel, hti, h0, hli, hrm]

/-- (d, memory) the bytes of `n` elements (not packed BOOLs) at a location inside the symbol's memory -/
theorem ldr4_readBytes (p : Project) (s : Symbol) (off : Nat) (ty : ElTy) (avail sz n : Nat) (hs : s ∈ p.controller)
    (huniqI : ∀ s' ∈ p.controller, s'.inst = s.inst → s' = s)
    (hnb : ∀ b, ty ≠ .boolBit b) (hsz : p.elSize ty = some sz) (hin : off + n * sz ≤ s.mem.length) :
    readBytes p { symInst := s.inst, scope := none, offset := off, ty := ty, avail := avail } n =
      some ((s.mem.drop off).take (n * sz)) := by
  unfold readBytes
  simp only [Project.symbolOf, Project.findSymbol, ldr_find_inst p s hs huniqI, hsz]
  cases ty with
  | boolBit b => exact absurd rfl (hnb b)
  | atomic c => simp only [hin, if_true]
  | struct t => simp only [hin, if_true]

end Pycomm.Lgx.Drv
