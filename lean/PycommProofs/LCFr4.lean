/-
  Helper lemmas for C11 at driver level (LifecycleFrames.lean).  Part 4: when does a frame carry session handle 0?
  On a target that accepts sessions and with an empty fault plan ("healthy"): RegisterSession frames only.

  * `lcfr_Z`: every written frame with handle 0 is a RegisterSession frame;
  * `lcfr_ZStep`: what generic_message, the decorator, Forward Open / Close, connected requests do: they leave
    session handle, socket and `_connection_opened` alone, and keep `lcfr_Z` when an existing socket means a non-zero
    handle;
  * `lcfr_H`: the healthy invariant (LCFr1 invariant + idle invariant of LCIdle.lean + "socket ⇔ opened ⇔ handle ≠ 0"
    + `lcfr_Z`) and its preservation by every call of the four alphabets.
-/
import PycommProofs.LCFr3
import PycommProofs.LCIdle
import PycommProofs.LCLogix2
namespace Pycomm.Cli
open Pycomm.Tgt Pycomm.Encap Pycomm.Path Pycomm.Reply Pycomm.EN

/-- every written frame with session handle 0 is a RegisterSession frame -/
def lcfr_Z {σ} (w : World σ) : Prop :=
  ∀ f ∈ w.net.sent, ∀ fr, parseFrame f = some fr → fr.session = 0 → fr.command = CMD_REGISTER

/-- a step that leaves session handle, `_connection_opened`, socket and context alone and keeps `lcfr_Z` provided
    that an existing socket means a non-zero handle -/
def lcfr_ZStep {σ} (w w' : World σ) : Prop :=
  w'.drv.session = w.drv.session ∧ w'.drv.connectionOpened = w.drv.connectionOpened ∧
  w'.drv.hasSock = w.drv.hasSock ∧ w'.drv.context = w.drv.context ∧
  (w.drv.context.length = 8 → (w.drv.hasSock = true → w.drv.session ≠ some 0) → lcfr_Z w → lcfr_Z w')

theorem lcfr_ZStep_refl {σ} (w : World σ) : lcfr_ZStep w w := ⟨rfl, rfl, rfl, rfl, fun _ _ h => h⟩

theorem lcfr_ZStep_trans {σ} {a b c : World σ} (h1 : lcfr_ZStep a b) (h2 : lcfr_ZStep b c) : lcfr_ZStep a c := by
  obtain ⟨a1, a2, a3, a4, a5⟩ := h1
  obtain ⟨b1, b2, b3, b4, b5⟩ := h2
  refine ⟨b1.trans a1, b2.trans a2, b3.trans a3, b4.trans a4, fun hc hk hz => ?_⟩
  exact b5 (by rw [a4]; exact hc) (by rw [a3, a1]; exact hk) (a5 hc hk hz)

/-- changing driver attributes other than the four -/
theorem lcfr_ZStep_drv {σ} (w w' : World σ) (d : Drv) (h : lcfr_ZStep w w') (h1 : d.session = w'.drv.session)
    (h2 : d.connectionOpened = w'.drv.connectionOpened) (h3 : d.hasSock = w'.drv.hasSock)
    (h4 : d.context = w'.drv.context) : lcfr_ZStep w ({ w' with drv := d } : World σ) := by
  obtain ⟨a1, a2, a3, a4, a5⟩ := h
  exact ⟨h1.trans a1, h2.trans a2, h3.trans a3, h4.trans a4, a5⟩

/-- the session handle of a built frame is the driver's -/
theorem lcfr_built_session {σ} (w : World σ) (hc : w.drv.context.length = 8) (r : Req) (frame : Bytes)
    (hb : buildRequest r w.drv.ctx = .ok frame) (fr : Frame) (hp : parseFrame frame = some fr) :
    w.drv.session = some fr.session ∧ fr.command = r.command := by
  obtain ⟨s, common, g1, _, _, g4⟩ := parse_built r w.drv.ctx frame hc hb
  rw [g4] at hp
  cases hp
  exact ⟨g1, rfl⟩

theorem lcfr_ZStep_sendReq {σ} (hook : ObjHook σ) (w : World σ) (r : Req) (nr : Bool) :
    lcfr_ZStep w (sendReq hook w r nr).1 := by
  obtain ⟨hd, hn⟩ := lcfr_sendReq_net hook w r nr
  refine ⟨by rw [hd], by rw [hd], by rw [hd], by rw [hd], ?_⟩
  intro hc hk hz
  rcases hn with ⟨h1, _⟩ | ⟨frame, hb, hs, h1, _⟩
  · intro f hf
    rw [h1] at hf
    exact hz f hf
  · intro f hf fr hp h0
    rw [h1] at hf
    rcases List.mem_append.1 hf with hf | hf
    · exact hz f hf fr hp h0
    · simp only [List.mem_singleton] at hf
      subst hf
      obtain ⟨g1, _⟩ := lcfr_built_session w hc r f hb fr hp
      rw [h0] at g1
      exact absurd g1 (hk hs)

/-- a RegisterSession request keeps `lcfr_Z` whatever the handle -/
theorem lcfr_Z_sendRegister {σ} (hook : ObjHook σ) (w : World σ) (hc : w.drv.context.length = 8) (pv fl : Bytes)
    (hz : lcfr_Z w) : lcfr_Z (sendReq hook w (.registerSession pv fl) false).1 := by
  obtain ⟨_, hn⟩ := lcfr_sendReq_net hook w (.registerSession pv fl) false
  rcases hn with ⟨h1, _⟩ | ⟨frame, hb, _, h1, _⟩
  · intro f hf
    rw [h1] at hf
    exact hz f hf
  · intro f hf fr hp h0
    rw [h1] at hf
    rcases List.mem_append.1 hf with hf | hf
    · exact hz f hf fr hp h0
    · simp only [List.mem_singleton] at hf
      subst hf
      exact (lcfr_built_session w hc _ f hb fr hp).2

theorem lcfr_Z_registerSession {σ} (hook : ObjHook σ) (w : World σ) (hc : w.drv.context.length = 8)
    (hz : lcfr_Z w) : lcfr_Z (registerSession hook w).1 := by
  have hs := lcfr_Z_sendRegister hook w hc [1, 0] [0, 0] hz
  unfold registerSession
  split
  · split
    · exact hz
    · simp only []
      split
      · exact hs
      · split
        · exact hs
        · exact hs
  · simp only []
    split
    · exact hs
    · split
      · exact hs
      · exact hs

/-- forward open / the decorator / generic_message, by induction on the fuel (the pattern of `lci_NStep_mutual`) -/
theorem lcfr_ZStep_mutual {σ} (hook : ObjHook σ) (fuel : Nat) :
    (∀ w : World σ, lcfr_ZStep w (forwardOpen hook fuel w).1) ∧
    (∀ w : World σ, lcfr_ZStep w (ensureForwardOpen hook fuel w).1) ∧
    (∀ (w : World σ) (a : GenArgs), lcfr_ZStep w (genericMessage hook fuel w a).1) := by
  induction fuel with
  | zero =>
    refine ⟨fun w => ?_, fun w => ?_, fun w a => ?_⟩
    · unfold forwardOpen; exact lcfr_ZStep_refl _
    · unfold ensureForwardOpen; exact lcfr_ZStep_refl _
    · unfold genericMessage; exact lcfr_ZStep_refl _
  | succ fuel ih =>
    obtain ⟨ihF, ihE, ihG⟩ := ih
    refine ⟨fun w => ?_, fun w => ?_, fun w a => ?_⟩
    · generalize hr : forwardOpen hook (fuel + 1) w = r
      unfold forwardOpen at hr
      split at hr
      · subst hr; exact lcfr_ZStep_refl _
      split at hr
      · subst hr; exact lcfr_ZStep_refl _
      simp only [] at hr
      split at hr
      · generalize hgg : genericMessage hook fuel w _ = g at hr
        have hg : lcfr_ZStep w g.1 := hgg ▸ ihG w _
        clear hgg
        obtain ⟨w1, r1⟩ := g
        cases r1 with
        | error e => simp only [] at hr; subst hr; exact hg
        | ok tag =>
          simp only [] at hr
          split at hr
          · subst hr; exact lcfr_ZStep_drv _ _ _ hg rfl rfl rfl rfl
          · subst hr; exact hg
      · subst hr; exact lcfr_ZStep_refl _
    · generalize hr : ensureForwardOpen hook (fuel + 1) w = r
      unfold ensureForwardOpen at hr
      split at hr
      · subst hr; exact lcfr_ZStep_refl _
      have h1 := ihF w
      generalize forwardOpen hook fuel w = r1 at hr h1
      obtain ⟨w1, o1⟩ := r1
      cases o1 with
      | error e => simp only [] at hr; subst hr; exact h1
      | ok b =>
        cases b with
        | true => simp only [] at hr; subst hr; exact h1
        | false =>
          simp only [] at hr
          split at hr
          · have h2 := ihF ({ w1 with drv := { w1.drv with extendedFo := false, connectionSize := 500 } } : World σ)
            have h12 := lcfr_ZStep_trans (lcfr_ZStep_drv _ _ { w1.drv with extendedFo := false, connectionSize := 500 } h1 rfl rfl rfl rfl) h2
            generalize forwardOpen hook fuel _ = r2 at hr h12
            obtain ⟨w3, o3⟩ := r2
            cases o3 with
            | error e => simp only [] at hr; subst hr; exact h12
            | ok b => cases b <;> (simp only [] at hr; subst hr; exact h12)
          · subst hr; exact h1
    · generalize hr : genericMessage hook (fuel + 1) w a = r
      unfold genericMessage at hr
      have h0 : lcfr_ZStep w (if a.connected = true then ensureForwardOpen hook fuel w else (w, Except.ok ())).1 := by
        split
        · exact ihE w
        · exact lcfr_ZStep_refl _
      generalize (if a.connected = true then ensureForwardOpen hook fuel w else (w, Except.ok ())) = p0 at hr h0
      obtain ⟨w0, pre⟩ := p0
      cases pre with
      | error e => simp only [] at hr; subst hr; exact h0
      | ok u =>
        simp only [] at hr
        split at hr
        · subst hr; exact h0
        rename_i reqPath _
        split at hr
        · have hs := lcfr_ZStep_trans (lcfr_ZStep_drv _ _ w0.drv.nextSeq.2 h0 rfl rfl rfl rfl)
            (lcfr_ZStep_sendReq hook ({ w0 with drv := w0.drv.nextSeq.2 } : World σ)
              (.sendUnit w0.drv.nextSeq.1 ([UInt8.ofNat a.service] ++ reqPath ++ a.data)) false)
          split at hr
          · subst hr; exact hs
          · split at hr <;> (subst hr; exact hs)
        · split at hr
          · subst hr; exact h0
          split at hr
          · subst hr; exact h0
          rename_i m _
          have hs := lcfr_ZStep_trans h0 (lcfr_ZStep_sendReq hook w0 (.sendRR m) false)
          split at hr
          · subst hr; exact hs
          · split at hr <;> (subst hr; exact hs)

theorem lcfr_ZStep_forwardCloseF {σ} (hook : ObjHook σ) (fuel : Nat) (w : World σ) :
    lcfr_ZStep w (lci_forwardCloseF hook fuel w).1 := by
  generalize hf : lci_forwardCloseF hook fuel w = r
  unfold lci_forwardCloseF at hf
  by_cases hs0 : (w.drv.session == some 0) = true
  · simp only [hs0, if_true] at hf
    subst hf; exact lcfr_ZStep_refl _
  simp only [hs0, if_false, Bool.false_eq_true] at hf
  split at hf
  · subst hf; exact lcfr_ZStep_refl _
  rename_i route hroute
  have key := (lcfr_ZStep_mutual hook fuel).2.2 w
    { service := 0x4E, cls := .bytes [0x06], inst := .bytes [0x01], connected := false, route := .bytes route,
      data := [0x0a, 0x05] ++ w.drv.csn ++ w.drv.vid ++ w.drv.vsn, name := nm "forward_close" }
  generalize genericMessage hook fuel w _ = g at hf key
  cases hgr : g.2 with
  | error e => simp only [hgr] at hf; subst hf; exact key
  | ok tag =>
    simp only [hgr] at hf
    by_cases htr : tag.truthy = true
    · simp only [htr, if_true] at hf
      subst hf
      exact lcfr_ZStep_drv _ _ _ key rfl rfl rfl rfl
    · simp only [htr, Bool.false_eq_true, if_false] at hf
      subst hf; exact key

theorem lcfr_ZStep_forwardClose {σ} (hook : ObjHook σ) (w : World σ) : lcfr_ZStep w (forwardClose hook w).1 := by
  have key : ∀ fuel, FUEL = fuel → forwardClose hook w = lci_forwardCloseF hook fuel w := by
    intro fuel hfu
    unfold forwardClose lci_forwardCloseF
    rw [hfu]
    rfl
  rw [key FUEL rfl]
  exact lcfr_ZStep_forwardCloseF hook FUEL w

theorem lcfr_ZStep_reach {σ} {hook : ObjHook σ} {w w' : World σ} (h : Lgx.Drv.lcl_Reach hook w w') :
    lcfr_ZStep w w' := by
  induction h with
  | refl => exact lcfr_ZStep_refl _
  | @draw w1 v _ ih => exact lcfr_ZStep_drv _ _ _ ih rfl rfl rfl rfl
  | @send w1 seq msg _ ih => exact lcfr_ZStep_trans ih (lcfr_ZStep_sendReq hook w1 _ false)

theorem lcfr_ZStep_decorated {σ} (hook : ObjHook σ) (w wf : World σ)
    (hr : (∀ e, (ensureForwardOpen hook FUEL w).2 = .error e → wf = (ensureForwardOpen hook FUEL w).1) ∧
          (∀ u, (ensureForwardOpen hook FUEL w).2 = .ok u → Lgx.Drv.lcl_Reach hook (ensureForwardOpen hook FUEL w).1 wf)) :
    lcfr_ZStep w wf := by
  have b := (lcfr_ZStep_mutual hook FUEL).2.1 w
  obtain ⟨r1, r2⟩ := hr
  generalize ensureForwardOpen hook FUEL w = r0 at b r1 r2
  obtain ⟨w0, pre⟩ := r0
  cases pre with
  | error e => rw [r1 e rfl]; exact b
  | ok u => exact lcfr_ZStep_trans b (lcfr_ZStep_reach (r2 u rfl))

/-! ### the healthy invariant -/

/-- on a target that accepts sessions (`P.sessionOk`, asked for where it is needed) with an empty fault plan:
    the invariant of LCFr1.lean, the idle invariant of LCIdle.lean, "socket ⇔ `_connection_opened` ⇔ handle ≠ 0",
    and handle 0 on RegisterSession frames only -/
structure lcfr_H (cid0 : Nat) (P : Policy) {σ} (w : World σ) : Prop where
  i : lcfr_I cid0 w
  n : lci_Net [] P w
  co : w.drv.connectionOpened = w.drv.hasSock
  s1 : w.drv.hasSock = true → w.drv.session ≠ some 0
  s0 : w.drv.hasSock = false → w.drv.session = some 0
  z : lcfr_Z w

theorem lcfr_H_step {cid0 : Nat} {P : Policy} {σ} {w w' : World σ} (h : lcfr_H cid0 P w) (hz : lcfr_ZStep w w')
    (hi : lcfr_I cid0 w') (hn : lci_Net [] P w') : lcfr_H cid0 P w' := by
  obtain ⟨a1, a2, a3, _, a5⟩ := hz
  exact ⟨hi, hn, by rw [a2, a3]; exact h.co, by rw [a3, a1]; exact h.s1, by rw [a3, a1]; exact h.s0,
    a5 h.i.1.ctx8 h.s1 h.z⟩

theorem lcfr_H_generic {σ} (hook : ObjHook σ) (hh : lci_HookOk hook) (cid0 : Nat) (P : Policy) (w : World σ)
    (a : GenArgs) (h : lcfr_H cid0 P w) : lcfr_H cid0 P (genericMessage hook FUEL w a).1 :=
  lcfr_H_step h ((lcfr_ZStep_mutual hook FUEL).2.2 w a) (lcfr_cli_generic hook hh cid0 FUEL w a h.i.1 h.i.2)
    (lci_Net_step h.n ((lci_NStep_mutual hook hh FUEL).2.2 w a))

theorem lcfr_H_efo {σ} (hook : ObjHook σ) (hh : lci_HookOk hook) (cid0 : Nat) (P : Policy) (w : World σ)
    (h : lcfr_H cid0 P w) : lcfr_H cid0 P (ensureForwardOpen hook FUEL w).1 :=
  lcfr_H_step h ((lcfr_ZStep_mutual hook FUEL).2.1 w) (lcfr_cli_ensureFO hook hh cid0 FUEL w h.i.1 h.i.2)
    (lci_Net_step h.n ((lci_NStep_mutual hook hh FUEL).2.1 w))

theorem lcfr_H_reach {σ} (hook : ObjHook σ) (hh : lci_HookOk hook) (cid0 : Nat) (P : Policy) {w w' : World σ}
    (hr : Lgx.Drv.lcl_Reach hook w w') (hcon : w.drv.targetIsConnected = true) (h : lcfr_H cid0 P w) :
    lcfr_H cid0 P w' :=
  lcfr_H_step h (lcfr_ZStep_reach hr) (lcfr_Reach hh hr h.i hcon).1 (lci_Net_step h.n (Lgx.Drv.lcl_Reach_nstep hh hr))

theorem lcfr_H_decorated {σ} (hook : ObjHook σ) (hh : lci_HookOk hook) (cid0 : Nat) (P : Policy) (w wf : World σ)
    (h : lcfr_H cid0 P w)
    (hr : (∀ e, (ensureForwardOpen hook FUEL w).2 = .error e → wf = (ensureForwardOpen hook FUEL w).1) ∧
          (∀ u, (ensureForwardOpen hook FUEL w).2 = .ok u → Lgx.Drv.lcl_Reach hook (ensureForwardOpen hook FUEL w).1 wf)) :
    lcfr_H cid0 P wf := by
  have b := lcfr_H_efo hook hh cid0 P w h
  have b3 := lcfr_efo_ok_conn hook FUEL w
  obtain ⟨r1, r2⟩ := hr
  generalize ensureForwardOpen hook FUEL w = r0 at b b3 r1 r2
  obtain ⟨w0, pre⟩ := r0
  cases pre with
  | error e => rw [r1 e rfl]; exact b
  | ok u => exact lcfr_H_reach hook hh cid0 P (r2 u rfl) (b3 w0 u rfl) b

/-- `open()` on a healthy transport: a closed driver registers and gets a non-zero handle -/
theorem lcfr_H_open {σ} (hook : ObjHook σ) (hh : lci_HookOk hook) (cid0 : Nat) (P : Policy) (hP : P.sessionOk = true)
    (w : World σ) (rnd : Bytes) (h : lcfr_H cid0 P w) : lcfr_H cid0 P (openDrv hook w rnd).1 := by
  have hI := lcfr_openDrv hook hh cid0 w rnd h.i.1 h.i.2
  have hN := lci_Net_open hook hh w rnd h.n
  by_cases hco : w.drv.connectionOpened = true
  · have : (openDrv hook w rnd).1 = w := by
      unfold openDrv
      rw [if_pos hco]
    rw [this]; exact h
  have hco : w.drv.connectionOpened = false := by simpa using hco
  have hsk : w.drv.hasSock = false := by rw [← h.co]; exact hco
  have hs0 := h.s0 hsk
  -- the intermediate world: socket connected, nothing registered yet
  have hpol : w.net.target.base.policy.sessionOk = true := by rw [h.n.pol]; exact hP
  obtain ⟨a1, a2, a3, _⟩ := lc_register_ok hook
    ({ drv := { w.drv with hasSock := true, connectionOpened := true, cid := rnd.take 4, vsn := (rnd.drop 4).take 4 }, net := { w.net with tcpOpen := true, pending := [] } } : World σ)
    hs0 rfl h.i.1.ctx8 h.i.1.opt0 h.n.faults rfl hpol h.i.1.t.ns
  have a4 := (lci_NStep_register hook hh
    ({ drv := { w.drv with hasSock := true, connectionOpened := true, cid := rnd.take 4, vsn := (rnd.drop 4).take 4 }, net := { w.net with tcpOpen := true, pending := [] } } : World σ)).1
  have a5 := lcfr_Z_registerSession hook
    ({ drv := { w.drv with hasSock := true, connectionOpened := true, cid := rnd.take 4, vsn := (rnd.drop 4).take 4 }, net := { w.net with tcpOpen := true, pending := [] } } : World σ)
    h.i.1.ctx8 h.z
  have e : (openDrv hook w rnd).1 = (registerSession hook
      ({ drv := { w.drv with hasSock := true, connectionOpened := true, cid := rnd.take 4, vsn := (rnd.drop 4).take 4 }, net := { w.net with tcpOpen := true, pending := [] } } : World σ)).1 := by
    unfold openDrv
    simp only [hco, hsk, Bool.false_eq_true, if_false]
    rw [a1]
  rw [e] at hI hN ⊢
  refine ⟨hI, hN, by rw [a3, a4], ?_, ?_, a5⟩
  · intro _
    rw [a2]
    intro hc
    have h1 : w.net.target.base.nextSession = 0 := Option.some.inj hc
    have h2 := h.n.ns0
    omega
  · intro hc
    rw [a4] at hc
    cases hc

/-- `close()` on a healthy transport -/
theorem lcfr_H_close {σ} (hook : ObjHook σ) (hh : lci_HookOk hook) (cid0 : Nat) (P : Policy)
    (w : World σ) (h : lcfr_H cid0 P w) : lcfr_H cid0 P (closeDrv hook w).1 := by
  have hI := lcfr_closeDrv hook hh cid0 w h.i.1 h.i.2
  have hN := lci_Net_close hook w h.i.1.ctx8 h.n
  -- `lcfr_Z` across the first try-block
  have hz : lcfr_Z (lcCloseTry hook w).1 := by
    have f1 : lcfr_ZStep w (lcCloseFc hook w).1 := by
      unfold lcCloseFc
      split
      · have := lcfr_ZStep_forwardClose hook w
        generalize forwardClose hook w = fc at this ⊢
        obtain ⟨w', r⟩ := fc
        cases r <;> exact this
      · exact lcfr_ZStep_refl _
    unfold lcCloseTry
    generalize lcCloseFc hook w = p at f1
    obtain ⟨wa, ra⟩ := p
    obtain ⟨b1, _, b3, b4, b5⟩ := f1
    have za : lcfr_Z wa := b5 h.i.1.ctx8 h.s1 h.z
    unfold lcCloseUnreg
    cases ra with
    | error e => exact za
    | ok u =>
      dsimp only
      split
      · have f2 := lcfr_ZStep_sendReq hook wa .unregisterSession true
        generalize sendReq hook wa .unregisterSession true = sr at f2 ⊢
        obtain ⟨wb, rb⟩ := sr
        have zb : lcfr_Z wb := f2.2.2.2.2 (by rw [b4]; exact h.i.1.ctx8) (by rw [b3, b1]; exact h.s1) za
        cases rb with
        | error e => exact zb
        | ok x => exact zb
      · exact za
  rw [lc_closeDrv_eq] at hI hN ⊢
  dsimp only at hI hN ⊢
  refine ⟨hI, hN, rfl, (fun hc => nomatch hc), (fun _ => rfl), ?_⟩
  intro f hf
  have : f ∈ (lcCloseTry hook w).1.net.sent := by
    have hs : (if (lcCloseTry hook w).1.drv.hasSock then (lcCloseTry hook w).1.net.sockClose
        else (lcCloseTry hook w).1.net).sent = (lcCloseTry hook w).1.net.sent := by
      split
      · unfold Net.sockClose
        split <;> rfl
      · rfl
    rw [← hs]; exact hf
  exact hz f this

theorem lcfr_H_call {σ} (hook : ObjHook σ) (hh : lci_HookOk hook) (cid0 : Nat) (P : Policy) (hP : P.sessionOk = true)
    (w : World σ) (h : lcfr_H cid0 P w) :
    (∀ rnd, lcfr_H cid0 P (openDrv hook w rnd).1) ∧ lcfr_H cid0 P (closeDrv hook w).1 ∧
    (∀ a, lcfr_H cid0 P (genericMessage hook FUEL w a).1) ∧
    (∀ cfg tags, lcfr_H cid0 P (Lgx.Drv.read hook cfg w tags).1) ∧
    (∀ cfg tvs, lcfr_H cid0 P (Lgx.Drv.write hook cfg w tvs).1) ∧
    (∀ ts, lcfr_H cid0 P (Slc.Drv.slcRead hook w ts).1) ∧
    (∀ avs, lcfr_H cid0 P (Slc.Drv.slcWrite hook w avs).1) :=
  ⟨fun rnd => lcfr_H_open hook hh cid0 P hP w rnd h, lcfr_H_close hook hh cid0 P w h,
   fun a => lcfr_H_generic hook hh cid0 P w a h,
   fun cfg tags => lcfr_H_decorated hook hh cid0 P w _ h (Lgx.Drv.lcl_read_reach hook cfg w tags _ rfl),
   fun cfg tvs => lcfr_H_decorated hook hh cid0 P w _ h (Lgx.Drv.lcl_write_reach hook cfg w tvs _ rfl),
   fun ts => lcfr_H_decorated hook hh cid0 P w _ h (Slc.Drv.lcsl_slcRead_reach hook w ts _ rfl),
   fun avs => lcfr_H_decorated hook hh cid0 P w _ h (Slc.Drv.lcsl_slcWrite_reach hook w avs _ rfl)⟩

/-- the healthy invariant is closed in the sense of LCUp2.lean -/
theorem lcfr_H_closed {σ} (hook : ObjHook σ) (hh : lci_HookOk hook) (cid0 : Nat) (P : Policy) (hP : P.sessionOk = true) :
    Lgx.Opn.lcu_Closed hook (fun _ => True) (fun w : World σ => lcfr_H cid0 P w) where
  openD w rnd _ h := lcfr_H_open hook hh cid0 P hP w rnd h
  listId w h := lcfr_H_step h (lcfr_ZStep_sendReq hook w _ _)
    ⟨lcfr_sendReq hook hh cid0 w h.i.1 .listIdentity trivial false, lcfr_sendReq_pend hook w h.i.2 _⟩
    (lci_Net_step h.n (lci_NStep_sendReq hook hh w _ _))
  gm w a _ _ h := lcfr_H_generic hook hh cid0 P w a h
  efo w h := lcfr_H_efo hook hh cid0 P w h
  pop w h := lcfr_H_step h (lcfr_ZStep_drv w w _ (lcfr_ZStep_refl w) rfl rfl rfl rfl)
    ⟨lcfr_Inv_drv h.i.1 _ rfl rfl rfl rfl rfl, h.i.2⟩ (lci_Net_step h.n (lci_NStep_drv w w _ (lci_NStep_refl w) rfl))
  fresh _w _w' hcon hf h := lcfr_H_reach hook hh cid0 P (Lgx.Opn.lcu_Fresh_reach hf) hcon h

end Pycomm.Cli
