/-
  Program-scoped tag addresses, transferred to the controller-scope lemmas: the reference controller resolves
  `Program:P` ++ (a symbolic tag address) exactly like the tag address alone in the project whose controller scope is
  the symbol table of `P` (`ldp_view`), except that the location carries the program scope; the bytes read there are
  the same. With these two facts every addressing lemma about controller-scope tags (elements `ldr2_resolve_elem`,
  members `ldr3_resolve_member`, …) applies to program-scoped tags.
-/
import PycommProofs.LDProg1
namespace Pycomm.Lgx.Drv
open Pycomm Pycomm.Tgt Pycomm.Path Pycomm.Reply Pycomm.EP Pycomm.Lgx Pycomm.Lgx.E2E

/-- the project seen from inside a program: its symbol table takes the place of the controller scope -/
def ldp_view (p : Project) (syms : List Symbol) : Project := { p with controller := syms }

/-- the same location / error, in the scope `sc` -/
def ldp_rescope (sc : Option Name) : Except Nat Loc → Except Nat Loc
  | .ok loc => .ok { loc with scope := sc }
  | .error e => .error e

theorem ldp_view_template (p : Project) (syms : List Symbol) (tid : Nat) :
    (ldp_view p syms).template? tid = p.template? tid := rfl

theorem ldp_view_elSize (p : Project) (syms : List Symbol) (ty : ElTy) : (ldp_view p syms).elSize ty = p.elSize ty := by
  cases ty <;> rfl

/-- the member walk does not look at the scope or at the symbol tables -/
theorem ldp_resolveMembers_scope (p : Project) (syms : List Symbol) (sc : Option Name) :
    ∀ (fuel : Nat) (loc : Loc) (rest : List PSeg),
      resolveMembers p fuel { loc with scope := sc } rest =
        ldp_rescope sc (resolveMembers (ldp_view p syms) fuel loc rest) := by
  intro fuel
  induction fuel with
  | zero => intro loc rest; rfl
  | succ fuel ih =>
    intro loc rest
    cases rest with
    | nil => rfl
    | cons seg rest =>
      cases seg with
      | logical a b => rfl
      | port a b => rfl
      | symbol nmb =>
        simp only [resolveMembers, ldp_view_template, ldp_view_elSize]
        cases hty : loc.ty with
        | atomic c => rfl
        | boolBit b => rfl
        | struct tid =>
          simp only []
          cases htm : p.template? tid with
          | none => rfl
          | some tm =>
            simp only []
            cases hfm : List.find? (fun m => List.map (fun c => UInt8.ofNat c) m.name == nmb) tm.members with
            | none => rfl
            | some m =>
              simp only []
              by_cases hbb : (elTyOfWord m.typeWord == ElTy.atomic 193) = true
              · rw [if_pos hbb, if_pos hbb]
                exact ih { loc with offset := loc.offset + m.offset, ty := ElTy.boolBit m.info, avail := 1 } rest
              · rw [if_neg hbb, if_neg hbb]
                cases hes : p.elSize (elTyOfWord m.typeWord) with
                | none => rfl
                | some sz =>
                  simp only []
                  by_cases hmi : m.info = 0
                  · rw [if_pos hmi, if_pos hmi]
                    by_cases hix : (takeIndices rest).fst ≠ []
                    · rw [if_pos hix, if_pos hix]; rfl
                    · rw [if_neg hix, if_neg hix]
                      exact ih { loc with offset := loc.offset + m.offset, ty := elTyOfWord m.typeWord, avail := 1 } _
                  · rw [if_neg hmi, if_neg hmi]
                    cases hix : (takeIndices rest).fst with
                    | nil =>
                      exact ih { loc with offset := loc.offset + m.offset, ty := elTyOfWord m.typeWord, avail := m.info } _
                    | cons i is =>
                      cases is with
                      | nil =>
                        simp only []
                        by_cases hge : i ≥ m.info
                        · rw [if_pos hge, if_pos hge]; rfl
                        · rw [if_neg hge, if_neg hge]
                          exact ih { loc with offset := loc.offset + m.offset + i * sz, ty := elTyOfWord m.typeWord,
                                              avail := m.info - i } _
                      | cons j js => rfl

/-- the part of `resolve` after the base symbol `s` has been found in the scope `scope` -/
def ldp_from (p : Project) (scope : Option Name) (s : Symbol) (rest : List PSeg) : Except Nat Loc :=
  if s.mem.isEmpty then .error 0x05 else
  match p.elSize (elTyOfWord s.symbolType) with
  | none => .error 0x05
  | some sz =>
      match (if (takeIndices rest).1 = [] then (.ok (0, dimsProduct s.dims) : Except Nat (Nat × Nat))
             else match linearIndex s.dims (takeIndices rest).1 with
               | some li => .ok (li, dimsProduct s.dims - li)
               | none => .error 0xFF) with
      | .error e => .error e
      | .ok (li, avail) =>
          resolveMembers p ((takeIndices rest).2.length + 1)
            { symInst := s.inst, scope := scope, offset := li * sz, ty := elTyOfWord s.symbolType, avail := avail }
            (takeIndices rest).2

/-- `resolve` of `Program:P` followed by a symbolic address: the base symbol is looked up in the program's table -/
theorem ldp_resolve_prog (p : Project) (pnb nmb : Bytes) (pn : Name) (syms : List Symbol) (rest : List PSeg)
    (hpn : isProgramName pnb = true) (hmap : pnb.map (·.toNat) = pn)
    (hfind : p.programs.find? (·.1 == pn) = some (pn, syms)) :
    resolve p (.symbol pnb :: .symbol nmb :: rest) =
      match syms.find? (fun s => s.name.map (fun c => UInt8.ofNat c) == nmb) with
      | none => .error 0x05
      | some s => ldp_from p (some pn) s rest := by
  unfold resolve
  simp only [hpn, if_true, hmap, Project.findSymbol, hfind, Option.map_some, Option.bind_some]
  cases syms.find? (fun s => s.name.map (fun c => UInt8.ofNat c) == nmb) with
  | none => rfl
  | some s => rfl

/-- `resolve` of a symbolic address whose first name is not a program name: the base symbol is looked up in the
    controller scope -/
theorem ldp_resolve_ctl (p : Project) (nmb : Bytes) (rest : List PSeg) (hn : isProgramName nmb = false) :
    resolve p (.symbol nmb :: rest) =
      match p.controller.find? (fun s => s.name.map (fun c => UInt8.ofNat c) == nmb) with
      | none => .error 0x05
      | some s => ldp_from p none s rest := by
  unfold resolve
  simp only [hn, Bool.false_eq_true, if_false, Project.findSymbol]
  cases p.controller.find? (fun s => s.name.map (fun c => UInt8.ofNat c) == nmb) with
  | none => rfl
  | some s => rfl

theorem ldp_from_scope (p : Project) (syms : List Symbol) (sc : Option Name) (s : Symbol) (rest : List PSeg) :
    ldp_from p sc s rest = ldp_rescope sc (ldp_from (ldp_view p syms) none s rest) := by
  unfold ldp_from
  rw [ldp_view_elSize]
  by_cases hme : s.mem.isEmpty = true
  · rw [if_pos hme, if_pos hme]; rfl
  · rw [if_neg hme, if_neg hme]
    cases p.elSize (elTyOfWord s.symbolType) with
    | none => rfl
    | some sz =>
      simp only []
      by_cases hix : (takeIndices rest).1 = []
      · simp only [hix, if_true]
        exact ldp_resolveMembers_scope p syms sc _
          { symInst := s.inst, scope := none, offset := 0 * sz, ty := elTyOfWord s.symbolType, avail := dimsProduct s.dims } _
      · simp only [hix, if_false]
        cases linearIndex s.dims (takeIndices rest).1 with
        | none => rfl
        | some li =>
          exact ldp_resolveMembers_scope p syms sc _
            { symInst := s.inst, scope := none, offset := li * sz, ty := elTyOfWord s.symbolType,
              avail := dimsProduct s.dims - li } _

/-- (d, addressing) THE TRANSFER: the controller resolves `Program:P` ++ (symbolic tag address) like the tag address
    alone in the project whose controller scope is the symbol table of `P`, and puts the location into the scope of
    `P`. `hn`: the tag name is not itself a program name. -/
theorem ldp_resolve_view (p : Project) (P : Name) (syms : List Symbol) (nmb : Bytes) (rest : List PSeg)
    (hP : PlainIdent P) (hprog : (ldp_prog P, syms) ∈ p.programs)
    (hprogU : ∀ pr ∈ p.programs, pr.1 = ldp_prog P → pr = (ldp_prog P, syms))
    (hn : isProgramName nmb = false) :
    resolve p (.symbol ((ldp_prog P).map UInt8.ofNat) :: .symbol nmb :: rest) =
      ldp_rescope (some (ldp_prog P)) (resolve (ldp_view p syms) (.symbol nmb :: rest)) := by
  rw [ldp_resolve_prog p _ nmb (ldp_prog P) syms rest (ldp_prog_isProgramName P) (ldp_prog_toNat P hP)
    (ldp_find_prog p _ syms hprog hprogU), ldp_resolve_ctl (ldp_view p syms) nmb rest hn]
  show _ = ldp_rescope _ (match syms.find? _ with | none => _ | some s => _)
  cases syms.find? (fun s => s.name.map (fun c => UInt8.ofNat c) == nmb) with
  | none => rfl
  | some s => exact ldp_from_scope p syms _ s rest

/-- (d, memory) the bytes at a location of the program scope are the bytes at the same location of the view -/
theorem ldp_readBytes_view (p : Project) (pn : Name) (syms : List Symbol) (loc : Loc) (n : Nat)
    (hprog : (pn, syms) ∈ p.programs) (hprogU : ∀ pr ∈ p.programs, pr.1 = pn → pr = (pn, syms))
    (hsc : loc.scope = none) :
    readBytes p { loc with scope := some pn } n = readBytes (ldp_view p syms) loc n := by
  have h1 : p.symbolOf { loc with scope := some pn } = (ldp_view p syms).symbolOf loc := by
    simp only [Project.symbolOf, Project.findSymbol, hsc, ldp_find_prog p pn syms hprog hprogU, Option.map_some,
      Option.bind_some, ldp_view]
  unfold readBytes
  rw [h1, ldp_view_elSize]

/-- the transfer for a successful resolution -/
theorem ldp_resolve_view_ok (p : Project) (P : Name) (syms : List Symbol) (nmb : Bytes) (rest : List PSeg) (loc : Loc)
    (hP : PlainIdent P) (hprog : (ldp_prog P, syms) ∈ p.programs)
    (hprogU : ∀ pr ∈ p.programs, pr.1 = ldp_prog P → pr = (ldp_prog P, syms))
    (hn : isProgramName nmb = false) (hr : resolve (ldp_view p syms) (.symbol nmb :: rest) = .ok loc) :
    resolve p (.symbol ((ldp_prog P).map UInt8.ofNat) :: .symbol nmb :: rest) =
      .ok { loc with scope := some (ldp_prog P) } := by
  rw [ldp_resolve_view p P syms nmb rest hP hprog hprogU hn, hr]
  rfl

end Pycomm.Lgx.Drv
