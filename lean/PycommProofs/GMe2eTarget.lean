/-
  C14 end to end, target side and transport: what the message router does with a parsed request (`gme_dispatch`),
  what `handle` does with a SendRRData frame (direct UCMM request, Unconnected Send), and one `CIPDriver.send`
  exchange of an unconnected request on a registered session.
-/
import PycommModel.Client
import PycommProofs.GenericProofs
import PycommProofs.EncapProofs
import PycommProofs.LCSeq
import PycommProofs.LDReadTransport
namespace Pycomm.Cli
open Pycomm.Tgt Pycomm.Encap Pycomm.Path Pycomm.Reply Pycomm.EN

/-! ### the message router after the request is parsed and logged -/

/-- the object that answers a parsed message-router request: connection manager, the base objects (identity, program
    name, wall clock), the extension hook, or the configurable generic object -/
def gme_dispatch {σ} (hook : ObjHook σ) (t : Target σ) (session : Nat) (connSize : Option Nat) (connected : Bool)
    (req : MRReq) : Target σ × MRReply :=
  match classInst req.path with
  | some (0x06, 1, []) =>
      if connected then (t, { status := 0x08 })
      else if req.service = 0x54 ∨ req.service = 0x5B then
        ({ t with base := (Tgt.forwardOpen t.base session (req.service = 0x5B) req.data).1 },
         (Tgt.forwardOpen t.base session (req.service = 0x5B) req.data).2)
      else if req.service = 0x4E then
        ({ t with base := (Tgt.forwardClose t.base req.data).1 }, (Tgt.forwardClose t.base req.data).2)
      else (t, { status := 0x08 })
  | _ =>
    match baseObject t.base req with
    | some (b, r) => ({ t with base := b }, r)
    | none =>
      match hook t connSize req with
      | some (t', r) => (t', r)
      | none => (t, { status := t.base.generic.status, ext := t.base.generic.ext, data := t.base.generic.data })

theorem gme_dispatch_cm {σ} (hook : ObjHook σ) (t : Target σ) (session : Nat) (connSize : Option Nat) (connected : Bool)
    (req : MRReq) (h : classInst req.path = some (0x06, 1, [])) :
    gme_dispatch hook t session connSize connected req =
      if connected then (t, { status := 0x08 })
      else if req.service = 0x54 ∨ req.service = 0x5B then
        ({ t with base := (Tgt.forwardOpen t.base session (req.service = 0x5B) req.data).1 },
         (Tgt.forwardOpen t.base session (req.service = 0x5B) req.data).2)
      else if req.service = 0x4E then
        ({ t with base := (Tgt.forwardClose t.base req.data).1 }, (Tgt.forwardClose t.base req.data).2)
      else (t, { status := 0x08 }) := by
  unfold gme_dispatch
  simp only [h]

theorem gme_dispatch_other {σ} (hook : ObjHook σ) (t : Target σ) (session : Nat) (connSize : Option Nat) (connected : Bool)
    (req : MRReq) (h : classInst req.path ≠ some (0x06, 1, [])) :
    gme_dispatch hook t session connSize connected req =
      match baseObject t.base req with
      | some (b, r) => ({ t with base := b }, r)
      | none =>
        match hook t connSize req with
        | some (t', r) => (t', r)
        | none => (t, { status := t.base.generic.status, ext := t.base.generic.ext, data := t.base.generic.data }) := by
  unfold gme_dispatch
  split
  · next h' => exact absurd h' h
  · rfl

/-- `execMR` on a message that parses as `req`: the request is logged (with the transport flags and the route), the
    object answers, the answer is framed as the reply to `req.service` -/
theorem gme_execMR_eq {σ} (hook : ObjHook σ) (t : Target σ) (session : Nat) (connSize : Option Nat)
    (connected viaUcs : Bool) (route msg : Bytes) (req : MRReq) (hp : parseMR msg = some req) :
    execMR hook t session connSize connected viaUcs route msg =
      ((gme_dispatch hook { t with base := t.base.event (.mr connected viaUcs req route) } session connSize connected req).1,
       encMRReply req.service
        (gme_dispatch hook { t with base := t.base.event (.mr connected viaUcs req route) } session connSize connected req).2) := by
  unfold execMR
  rw [hp]
  dsimp only
  split
  · next h =>
    rw [gme_dispatch_cm _ _ _ _ _ _ h]
    split
    · rfl
    · split
      · rfl
      · split <;> rfl
  · next h =>
    rw [gme_dispatch_other _ _ _ _ _ _ (fun h' => h h')]
    dsimp only
    split
    · next h2 => rw [h2]
    · next h2 =>
      rw [h2]
      dsimp only
      split
      · next h3 => rw [h3]
      · next h3 => rw [h3]

/-- an object neither the connection manager nor the base nor the hook implements: the generic object answers and
    nothing but the log changes -/
theorem gme_dispatch_generic {σ} (hook : ObjHook σ) (t : Target σ) (session : Nat) (connSize : Option Nat)
    (connected : Bool) (req : MRReq) (hcm : classInst req.path ≠ some (0x06, 1, []))
    (hb : baseObject t.base req = none) (hh : hook t connSize req = none) :
    gme_dispatch hook t session connSize connected req =
      (t, { status := t.base.generic.status, ext := t.base.generic.ext, data := t.base.generic.data }) := by
  unfold gme_dispatch
  split
  · next h => exact absurd h hcm
  · rw [hb, hh]

/-- an object of the base target -/
theorem gme_dispatch_base {σ} (hook : ObjHook σ) (t : Target σ) (session : Nat) (connSize : Option Nat)
    (connected : Bool) (req : MRReq) (b : Base) (r : MRReply) (hcm : classInst req.path ≠ some (0x06, 1, []))
    (hb : baseObject t.base req = some (b, r)) :
    gme_dispatch hook t session connSize connected req = ({ t with base := b }, r) := by
  unfold gme_dispatch
  split
  · next h => exact absurd h hcm
  · rw [hb]

/-! ### `handle` on a SendRRData frame -/

/-- a SendRRData frame of a registered session whose message is not an Unconnected Send: the message router executes
    the message itself (no connection, no route) -/
theorem gme_handle_rr {σ} (hook : ObjHook σ) (t : Target σ) (raw : Bytes) (f : Frame) (msg : Bytes)
    (hp : parseFrame raw = some f) (hst : f.status = 0) (hopt : f.options = 0) (hc : f.command = CMD_SEND_RR)
    (hs : f.session ∈ t.base.sessions) (hcpf : parseCpf f.body = some (.unconnected msg)) (hucs : isUcs msg = none) :
    handle hook t raw =
      ((execMR hook { t with base := t.base.event (.encap CMD_SEND_RR f.session true) } f.session none false false [] msg).1,
       some (frame CMD_SEND_RR f.session 0 f.context (cpfReplyUnconnected
        (execMR hook { t with base := t.base.event (.encap CMD_SEND_RR f.session true) } f.session none false false [] msg).2))) := by
  have c1 : ¬ (CMD_SEND_RR = CMD_REGISTER) := by decide
  have c2 : ¬ (CMD_SEND_RR = CMD_LIST_IDENTITY) := by decide
  have c3 : ¬ (CMD_SEND_RR = CMD_UNREGISTER) := by decide
  have hcon : t.base.sessions.contains f.session = true := by simpa using hs
  unfold handle
  simp only [hp]
  rw [if_neg (by simp [hst, hopt])]
  simp only [hc, c1, c2, c3, if_false, if_true, hcon, Bool.not_true, Bool.false_eq_true, hcpf, hucs]

/-- … and one whose message is a well-formed Unconnected Send: the embedded request is executed, the route is recorded -/
theorem gme_handle_ucs {σ} (hook : ObjHook σ) (t : Target σ) (raw : Bytes) (f : Frame) (msg d inner route : Bytes)
    (hp : parseFrame raw = some f) (hst : f.status = 0) (hopt : f.options = 0) (hc : f.command = CMD_SEND_RR)
    (hs : f.session ∈ t.base.sessions) (hcpf : parseCpf f.body = some (.unconnected msg))
    (hucs : isUcs msg = some d) (hun : unwrapUcs d = some (inner, route)) :
    handle hook t raw =
      ((execMR hook { t with base := t.base.event (.encap CMD_SEND_RR f.session true) } f.session none false true route inner).1,
       some (frame CMD_SEND_RR f.session 0 f.context (cpfReplyUnconnected
        (execMR hook { t with base := t.base.event (.encap CMD_SEND_RR f.session true) } f.session none false true route inner).2))) := by
  have c1 : ¬ (CMD_SEND_RR = CMD_REGISTER) := by decide
  have c2 : ¬ (CMD_SEND_RR = CMD_LIST_IDENTITY) := by decide
  have c3 : ¬ (CMD_SEND_RR = CMD_UNREGISTER) := by decide
  have hcon : t.base.sessions.contains f.session = true := by simpa using hs
  unfold handle
  simp only [hp]
  rw [if_neg (by simp [hst, hopt])]
  simp only [hc, c1, c2, c3, if_false, if_true, hcon, Bool.not_true, Bool.false_eq_true, hcpf, hucs, hun]

/-! ### the client's side of one exchange -/

/-- a driver with a registered session on a transport without faults and with nothing pending -/
structure gme_Session {σ} (w : World σ) (sess : Nat) : Prop where
  /-- the socket exists -/
  sock : w.drv.hasSock = true
  /-- the sender context is 8 bytes -/
  ctx8 : w.drv.context.length = 8
  /-- the option field is 0 -/
  opt0 : w.drv.option = 0
  /-- the driver holds session handle `sess` (32 bit) … -/
  session : w.drv.session = some sess
  session32 : sess < 2 ^ 32
  /-- … which the target has registered -/
  sessionReg : sess ∈ w.net.target.base.sessions
  /-- no reply is pending, no transport faults are scheduled -/
  pend : w.net.pending = []
  faults : w.net.faults = []

/-- … that also holds an open class-3 connection (the `ldr_Healthy` of the Logix proofs, for any extension state) -/
structure gme_Healthy {σ} (w : World σ) (sess : Nat) (cidb : Bytes) (conn : Conn) : Prop extends gme_Session w sess where
  /-- the driver believes the connection is open (`_target_is_connected`) -/
  connected : w.drv.targetIsConnected = true
  /-- the driver holds the 4-byte connection id from the Forward Open reply … -/
  cid : w.drv.targetCid = some cidb
  cid4 : cidb.length = 4
  /-- … and the target holds that connection for the session -/
  conn : w.net.target.base.conns.find? (fun c => c.cid == leVal cidb && c.session == sess) = some conn

theorem gme_buildCpf_none (aT mT : Nat) (msg : Bytes) (hm : msg.length < 65536) :
    buildCpf aT none mT msg = .ok ([0, 0, 0, 0] ++ [0x0a, 0x00] ++ [0x02, 0x00] ++ leBytes 2 aT ++
      [0, 0] ++ leBytes 2 mT ++ leBytes 2 msg.length ++ msg) := by
  unfold buildCpf
  dsimp only [bind, Except.bind, pure, Except.pure]
  rw [lcs_u16_val _ hm]

/-- an unconnected request of reasonable size can be built on a registered session -/
theorem gme_build_rr (ctx : Ctx) (s : Nat) (hs : ctx.session = some s) (hs32 : s < 2 ^ 32) (ho : ctx.option = 0)
    (m : Bytes) (hm : m.length ≤ 65400) : ∃ frm, buildRequest (.sendRR m) ctx = .ok frm := by
  have e3 := gme_buildCpf_none ITEM_NULL ITEM_UNCONNECTED_DATA m (by omega)
  generalize hcm : ([0, 0, 0, 0] ++ [0x0a, 0x00] ++ [0x02, 0x00] ++ leBytes 2 ITEM_NULL ++
      [0, 0] ++ leBytes 2 ITEM_UNCONNECTED_DATA ++ leBytes 2 m.length ++ m : Bytes) = common at e3
  have hcl : common.length < 65536 := by
    rw [← hcm]; simp [leBytes_length]; omega
  have e4 := lcs_buildHeader_ok (Req.sendRR m).command common.length ctx s hs hs32 ho hcl
  unfold buildRequest
  dsimp only
  rw [e3]
  dsimp only [bind, Except.bind, pure, Except.pure]
  rw [e4]
  exact ⟨_, rfl⟩

/-- one exchange on a healthy transport, as an equation: the frame is written, the target's answer is returned -/
theorem gme_sendReq_eq {σ} (hook : ObjHook σ) (w : World σ) (r : Req) (frm reply : Bytes) (t1 : Target σ)
    (hs : w.drv.hasSock = true) (hf : w.net.faults = []) (hpend : w.net.pending = [])
    (hb : buildRequest r w.drv.ctx = .ok frm) (hh : handle hook w.net.target frm = (t1, some reply)) :
    sendReq hook w r false =
      ({ w with net := { w.net with nSend := w.net.nSend + 1, nRecv := w.net.nRecv + 1, sent := w.net.sent ++ [frm],
                                    pending := [], target := t1 } }, .ok (some reply)) := by
  unfold sendReq
  rw [hb]
  simp only [hs, Bool.not_true, Bool.false_eq_true, if_false]
  unfold Net.sockSend
  simp only [hf, List.contains_nil, Bool.false_eq_true, if_false, hh, hpend, List.nil_append]
  unfold Net.sockReceive
  simp only [List.contains_nil, Bool.false_eq_true, if_false, dropNones]

/-- the frame of an unconnected request as the target's strict parsers read it -/
theorem gme_frame_rr (ctx : Ctx) (s : Nat) (m frm : Bytes) (hc : ctx.context.length = 8) (hs : ctx.session = some s)
    (hb : buildRequest (.sendRR m) ctx = .ok frm) :
    ∃ f, parseFrame frm = some f ∧ f.status = 0 ∧ f.options = ctx.option ∧ f.command = CMD_SEND_RR ∧ f.session = s ∧
      f.context = ctx.context ∧ parseCpf f.body = some (.unconnected m) := by
  obtain ⟨s2, common, g1, g2, _, g4⟩ := parse_built _ ctx frm hc hb
  rw [hs] at g1; cases g1
  obtain ⟨hm, rfl⟩ := g2
  exact ⟨_, g4, rfl, rfl, rfl, rfl, rfl, parseCpf_unconnected m hm⟩

/-- `CIPDriver.send` of a direct UCMM request on a registered session: one frame, the message router executes the
    message, the framed answer comes back -/
theorem gme_sendRR_direct {σ} (hook : ObjHook σ) (w : World σ) (s : Nat) (m : Bytes) (hw : gme_Session w s)
    (hm : m.length ≤ 65400) (hucs : isUcs m = none) :
    ∃ frm f, buildRequest (.sendRR m) w.drv.ctx = .ok frm ∧
      parseFrame frm = some f ∧ f.command = CMD_SEND_RR ∧ f.session = s ∧ parseCpf f.body = some (.unconnected m) ∧
      sendReq hook w (.sendRR m) false =
        ({ w with net := { w.net with
              nSend := w.net.nSend + 1, nRecv := w.net.nRecv + 1, sent := w.net.sent ++ [frm], pending := [],
              target := (execMR hook { w.net.target with base := w.net.target.base.event (.encap CMD_SEND_RR s true) }
                                          s none false false [] m).1 } },
         .ok (some (frame CMD_SEND_RR s 0 w.drv.context (cpfReplyUnconnected
            (execMR hook { w.net.target with base := w.net.target.base.event (.encap CMD_SEND_RR s true) }
                                          s none false false [] m).2)))) := by
  obtain ⟨frm, hb⟩ := gme_build_rr w.drv.ctx s hw.session hw.session32 hw.opt0 m hm
  obtain ⟨f, hf, h1, h2, h3, h4, h5, h6⟩ := gme_frame_rr w.drv.ctx s m frm hw.ctx8 hw.session hb
  have hopt : f.options = 0 := by rw [h2]; exact hw.opt0
  have hh := gme_handle_rr hook w.net.target frm f m hf h1 hopt h3 (by rw [h4]; exact hw.sessionReg) h6 hucs
  rw [h4, h5] at hh
  exact ⟨frm, f, hb, hf, h3, h4, h6, gme_sendReq_eq hook w _ frm _ _ hw.sock hw.faults hw.pend hb hh⟩

/-- `CIPDriver.send` of an Unconnected Send on a registered session: one frame, the target unwraps it, the message
    router executes the embedded request with the route recorded, the framed answer comes back -/
theorem gme_sendRR_ucs {σ} (hook : ObjHook σ) (w : World σ) (s : Nat) (m d inner route : Bytes) (hw : gme_Session w s)
    (hm : m.length ≤ 65400) (hucs : isUcs m = some d) (hun : unwrapUcs d = some (inner, route)) :
    ∃ frm f, buildRequest (.sendRR m) w.drv.ctx = .ok frm ∧
      parseFrame frm = some f ∧ f.command = CMD_SEND_RR ∧ f.session = s ∧ parseCpf f.body = some (.unconnected m) ∧
      sendReq hook w (.sendRR m) false =
        ({ w with net := { w.net with
              nSend := w.net.nSend + 1, nRecv := w.net.nRecv + 1, sent := w.net.sent ++ [frm], pending := [],
              target := (execMR hook { w.net.target with base := w.net.target.base.event (.encap CMD_SEND_RR s true) }
                                          s none false true route inner).1 } },
         .ok (some (frame CMD_SEND_RR s 0 w.drv.context (cpfReplyUnconnected
            (execMR hook { w.net.target with base := w.net.target.base.event (.encap CMD_SEND_RR s true) }
                                          s none false true route inner).2)))) := by
  obtain ⟨frm, hb⟩ := gme_build_rr w.drv.ctx s hw.session hw.session32 hw.opt0 m hm
  obtain ⟨f, hf, h1, h2, h3, h4, h5, h6⟩ := gme_frame_rr w.drv.ctx s m frm hw.ctx8 hw.session hb
  have hopt : f.options = 0 := by rw [h2]; exact hw.opt0
  have hh := gme_handle_ucs hook w.net.target frm f m d inner route hf h1 hopt h3
    (by rw [h4]; exact hw.sessionReg) h6 hucs hun
  rw [h4, h5] at hh
  exact ⟨frm, f, hb, hf, h3, h4, h6, gme_sendReq_eq hook w _ frm _ _ hw.sock hw.faults hw.pend hb hh⟩

/-- `CIPDriver.send` of a connected request on a healthy connection (`ldr_sendUnit`), with the frame as the target reads it -/
theorem gme_sendUnit {σ} (hook : ObjHook σ) (w : World σ) (s : Nat) (cidb : Bytes) (c : Conn) (seq : Nat) (m : Bytes)
    (hw : gme_Healthy w s cidb c) (hseq : seq < 65536) (hm : m.length ≤ 65400) (hfit : m.length + 2 ≤ c.size) :
    ∃ frm f, buildRequest (.sendUnit seq m) w.drv.ctx = .ok frm ∧
      parseFrame frm = some f ∧ f.command = CMD_SEND_UNIT ∧ f.session = s ∧
      parseCpf f.body = some (.connected (leVal cidb) seq m) ∧
      sendReq hook w (.sendUnit seq m) false =
        ({ w with net := { w.net with
              nSend := w.net.nSend + 1, nRecv := w.net.nRecv + 1, sent := w.net.sent ++ [frm], pending := [],
              target := ldr_unitAfter (execMR hook { w.net.target with base := ldr_unitBase w.net.target.base s (leVal cidb) seq c }
                    s (some (c.size - 2)) true false [] m).1 c
                  (execMR hook { w.net.target with base := ldr_unitBase w.net.target.base s (leVal cidb) seq c }
                    s (some (c.size - 2)) true false [] m).2 } },
         .ok (some (frame CMD_SEND_UNIT s 0 w.drv.context (cpfReplyConnected c.toId seq
            (execMR hook { w.net.target with base := ldr_unitBase w.net.target.base s (leVal cidb) seq c }
              s (some (c.size - 2)) true false [] m).2)))) := by
  obtain ⟨frm, hb, hsend⟩ := ldr_sendUnit hook w s cidb c seq m hw.ctx8 hw.opt0 hw.sock hw.session hw.session32
    hw.sessionReg hw.cid hw.cid4 hw.conn hw.pend hw.faults hseq hm hfit
  obtain ⟨s2, common, g1, g2, _, g4⟩ := parse_built _ w.drv.ctx frm hw.ctx8 hb
  have g1' : w.drv.ctx.session = some s := hw.session
  rw [g1'] at g1; cases g1
  obtain ⟨hseq', hml, _, g2⟩ := g2
  have hcid' : w.drv.ctx.targetCid = some cidb := hw.cid
  have hcpf : parseCpf common = some (.connected (leVal cidb) seq m) := by
    rw [g2, hcid']; exact parseCpf_connected cidb m seq hw.cid4 hseq' hml
  exact ⟨frm, _, hb, g4, rfl, rfl, hcpf, hsend⟩

end Pycomm.Cli
