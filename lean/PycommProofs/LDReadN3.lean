/-
  LogixDriver.read of any number of requests: the controller side of a Multiple Service Packet with ANY number of
  embedded Read Tag requests, `_send_requests` for one such packet on the healthy connection, and for a list of them.
-/
import PycommProofs.LDReadN2
namespace Pycomm.Lgx.Drv
open Pycomm Pycomm.Tgt Pycomm.Path Pycomm.Reply Pycomm.Encap Pycomm.Lgx Pycomm.Lgx.E2E

/-- the Read Tag message of a built request -/
def ldrn_msg (q : ReadReq) : Bytes := Cl.readMsg q.path q.elements

/-- the controller's answer to it in state `st` … -/
def ldrn_rep (st : LState) (cap : Nat) (q : ReadReq) : MRReply := (Cl.exchange st cap (ldrn_msg q)).2

/-- … and by how much it advances the schedule counter -/
def ldrn_step (st : LState) (cap : Nat) (q : ReadReq) : Nat := (Cl.exchange st cap (ldrn_msg q)).1.ctr - st.ctr

/-- the answer does not depend on the schedule counter and changes nothing else -/
def ldrn_Stable (st : LState) (cap : Nat) (q : ReadReq) : Prop :=
  ∀ k, Cl.exchange { st with ctr := st.ctr + k } cap (ldrn_msg q) =
    ({ st with ctr := st.ctr + k + ldrn_step st cap q }, ldrn_rep st cap q)

/-! ### (d) the embedded requests, executed in order -/

theorem ldrn_exec (st : LState) (cap : Nat) (qs : List ReadReq) (k : Nat)
    (hden : ∀ q ∈ qs, ∃ segs, Denotes q.path segs) (hst : ∀ q ∈ qs, ldrn_Stable st cap q) :
    execEmbedded cap { st with ctr := st.ctr + k } (qs.map ldrn_msg) =
      ({ st with ctr := st.ctr + k + (qs.map (ldrn_step st cap)).sum },
       qs.map fun q => encMRReply 0x4C (ldrn_rep st cap q)) := by
  induction qs generalizing k with
  | nil => rfl
  | cons q qs ih =>
    obtain ⟨segs, hd⟩ := hden q List.mem_cons_self
    have hq : parseMR (ldrn_msg q) = some { service := 0x4C, path := segs, data := le 2 q.elements } := by
      have := parseMR_msg 0x4C q.path (le 2 q.elements) segs hd
      simpa [ldrn_msg, Cl.readMsg] using this
    have ih' := ih (k + ldrn_step st cap q) (fun q' h' => hden q' (List.mem_cons_of_mem _ h'))
      (fun q' h' => hst q' (List.mem_cons_of_mem _ h'))
    rw [← Nat.add_assoc] at ih'
    rw [List.map_cons, execEmbedded_cons, embStep_exchange cap _ (ldrn_msg q) _ hq (by simp),
      hst q List.mem_cons_self k]
    simp only [ih', List.map_cons, List.sum_cons]
    rw [Nat.add_assoc (st.ctr + k)]

/-- (d) the Logix services answer a Multiple Service Packet by executing the embedded requests in order and packing
    their replies -/
theorem ldrn_logixService_multi (st : LState) (cap : Nat) (msgs : List Bytes) (hne : msgs ≠ [])
    (hsz : 2 + 2 * msgs.length + (msgs.map (·.length)).sum < 65536) (hpos : ∀ m ∈ msgs, m ≠ []) :
    logixService st { service := 0x0A, path := [.logical 0 2, .logical 4 1], data := K.packMulti msgs } (some cap) =
      some ((execEmbedded cap st msgs).1,
        { status := if (execEmbedded cap st msgs).2.any (fun r => r.getD 2 0 != 0) then 0x1E else 0,
          data := K.packMulti (execEmbedded cap st msgs).2 }) := by
  have he := multi_e2e st cap msgs hne hsz hpos
  have hl : logixService st { service := 0x0A, path := [.logical 0 2, .logical 4 1], data := K.packMulti msgs } (some cap) =
      some (multiService st (K.packMulti msgs) cap) := by
    simp [logixService]
  have hx : Cl.exchange st cap (Cl.multiMsg msgs) = multiService st (K.packMulti msgs) cap := by
    unfold Cl.exchange Cl.multiMsg
    rw [parseMR_multi]
    simp only [hl]
  rw [hl, ← hx, he]

/-! ### sizes -/

/-- the part of the length of the multi-service request that depends on the embedded requests -/
def ldrn_mlen (qs : List ReadReq) : Nat := (qs.map fun q => q.path.length + 5).sum

theorem ldrn_msg_length (q : ReadReq) : (ldrn_msg q).length = q.path.length + 3 := by
  simp [ldrn_msg, Cl.readMsg, le, RT.leBytes_length]

theorem ldrn_msgs_sum (qs : List ReadReq) :
    2 * qs.length + ((qs.map ldrn_msg).map (·.length)).sum = ldrn_mlen qs := by
  unfold ldrn_mlen
  induction qs with
  | nil => rfl
  | cons q qs ih =>
    simp only [List.length_cons, List.map_cons, List.sum_cons, ldrn_msg_length] at ih ⊢
    omega

theorem ldrn_multiMsg_length (qs : List ReadReq) : (Cl.multiMsg (qs.map ldrn_msg)).length = 8 + ldrn_mlen qs := by
  unfold Cl.multiMsg
  have h2 : 2 * qs.length + ((qs.map ldrn_msg).map List.length).sum = ldrn_mlen qs := ldrn_msgs_sum qs
  rw [List.length_append, LB.packMulti_length, LB.offOf, LB.psum_all, List.length_flatten, List.length_map]
  simp only [List.length_cons, List.length_nil]
  omega

/-! ### (c)+(d)+(e) one multi-service packet over the healthy connection -/

/-- `ldr2_sendUnit_logix`, also saying which frame is written: the one `CIPDriver.send` builds for the message -/
theorem ldrn_sendUnit_logix (w : Cli.World Ext) (sess : Nat) (cidb : Bytes) (conn : Conn) (st : LState)
    (seq : Nat) (msg : Bytes) (req : MRReq) (r : LState × MRReply)
    (hw : ldr_Healthy w sess cidb conn) (hlogix : w.net.target.ext.logix = some st)
    (hpm : parseMR msg = some req) (hpath : ldr2_LogixPath req.path)
    (hls : logixService st req (some (conn.size - 2)) = some r)
    (hseq : seq < 65536) (hm : msg.length ≤ 65400) (hfit : msg.length + 2 ≤ conn.size) :
    ∃ w' frm, sendUnit hookAll w seq msg =
        (w', .ok (some (frame CMD_SEND_UNIT sess 0 w.drv.context (cpfReplyConnected conn.toId seq
          (encMRReply req.service r.2))))) ∧
      Encap.buildRequest (.sendUnit seq msg) w.drv.ctx = .ok frm ∧
      w'.drv = w.drv ∧ w'.net.sent = w.net.sent ++ [frm] ∧
      w'.net.target.ext = { w.net.target.ext with logix := some r.1 } ∧
      ldr_Healthy w' sess cidb { conn with lastSeq := some seq } := by
  obtain ⟨frm, hbuild, hsend⟩ := Cli.ldr_sendUnit hookAll w sess cidb conn seq msg hw.ctx8 hw.opt0 hw.sock
    hw.session hw.session32 hw.sessionReg hw.cid hw.cid4 hw.conn hw.pend hw.faults hseq hm hfit
  have hmr := ldr2_execMR_logix
    { w.net.target with base := Cli.ldr_unitBase w.net.target.base sess (leVal cidb) seq conn } st hlogix sess
    (conn.size - 2) msg req r hpm hpath hls
  rw [hmr] at hsend
  refine ⟨_, frm, hsend, hbuild, rfl, rfl, ?_, ?_⟩
  · simp only [Cli.ldr_unitAfter_ext]
  · refine ⟨hw.connected, hw.sock, hw.ctx8, hw.opt0, hw.session, hw.session32, ?_, hw.cid, hw.cid4, ?_, rfl, hw.faults⟩
    · simp only [Cli.ldr_unitAfter_sessions]
      show sess ∈ (Cli.ldr_unitBase w.net.target.base sess (leVal cidb) seq conn).sessions
      rw [Cli.ldr_unitBase_sessions]
      exact hw.sessionReg
    · simp only [Cli.ldr_unitAfter_conns]
      show ((Cli.ldr_unitBase w.net.target.base sess (leVal cidb) seq conn).conns).find? _ = _
      rw [Cli.ldr_unitBase_conns]
      exact Cli.ldr_find_seq _ _ _ _ _ hw.conn

theorem ldrn_sendRequest_multi (w : Cli.World Ext) (sess : Nat) (cidb : Bytes) (conn : Conn) (st : LState)
    (rs : Results) (seq : Nat) (qs : List ReadReq)
    (hw : ldr_Healthy w sess cidb conn) (hlogix : w.net.target.ext.logix = some st) (hne : qs ≠ [])
    (hden : ∀ q ∈ qs, ∃ segs, Denotes q.path segs)
    (hseq : seq < 65536)
    (hfit : 10 + ldrn_mlen qs ≤ conn.size) (h64 : 8 + ldrn_mlen qs ≤ 65400)
    (hrl : 2 + 2 * qs.length + ((execEmbedded (conn.size - 2) st (qs.map ldrn_msg)).2.map (·.length)).sum < 65536) :
    ∃ w' frm, sendRequest hookAll w rs (.multiRead seq qs) =
        (w', multiReadResults rs (qs.zip ((execEmbedded (conn.size - 2) st (qs.map ldrn_msg)).2.map
          fun b => some (List.replicate 46 0 ++ b)))) ∧
      Encap.buildRequest (.sendUnit seq (Cl.multiMsg (qs.map ldrn_msg))) w.drv.ctx = .ok frm ∧
      w'.drv = w.drv ∧ w'.net.sent = w.net.sent ++ [frm] ∧
      w'.net.target.ext = { w.net.target.ext with logix := some (execEmbedded (conn.size - 2) st (qs.map ldrn_msg)).1 } ∧
      ldr_Healthy w' sess cidb { conn with lastSeq := some seq } := by
  have hmne : qs.map ldrn_msg ≠ [] := by
    intro h; exact hne (List.map_eq_nil_iff.1 h)
  have hmpos : ∀ m ∈ qs.map ldrn_msg, m ≠ [] := by
    intro m hm
    obtain ⟨q, _, rfl⟩ := List.mem_map.1 hm
    intro h
    have := ldrn_msg_length q
    rw [h] at this
    simp at this
  have hsum := ldrn_msgs_sum qs
  have hls := ldrn_logixService_multi st (conn.size - 2) (qs.map ldrn_msg) hmne
    (by rw [List.length_map]; omega) hmpos
  have hml := ldrn_multiMsg_length qs
  obtain ⟨w2, frm, hsend, hfrm, hd2, hsent2, hext2, hh2⟩ := ldrn_sendUnit_logix w sess cidb conn st seq
    (Cl.multiMsg (qs.map ldrn_msg))
    { service := 0x0A, path := [.logical 0 2, .logical 4 1], data := K.packMulti (qs.map ldrn_msg) } _
    hw hlogix (parseMR_multi _)
    (Or.inr ⟨2, 1, [], rfl, by decide, by decide, by decide, by decide, by decide⟩) hls
    hseq (by rw [hml]; omega) (by rw [hml]; omega)
  have hdata := ldx_multi_data sess conn.toId seq w.drv.context
    (K.packMulti (execEmbedded (conn.size - 2) st (qs.map ldrn_msg)).2)
    ((execEmbedded (conn.size - 2) st (qs.map ldrn_msg)).2.any (fun r => r.getD 2 0 != 0)) hw.ctx8
  have hcount : (execEmbedded (conn.size - 2) st (qs.map ldrn_msg)).2.length = qs.length := by
    rw [multi_reply_count, List.length_map]
  have hrne : (execEmbedded (conn.size - 2) st (qs.map ldrn_msg)).2 ≠ [] := by
    intro h
    rw [h, List.length_nil] at hcount
    exact hne (List.length_eq_zero_iff.1 hcount.symm)
  have hemb : embeddedReplies (some (K.packMulti (execEmbedded (conn.size - 2) st (qs.map ldrn_msg)).2)) =
      (execEmbedded (conn.size - 2) st (qs.map ldrn_msg)).2.map fun b => some (List.replicate 46 0 ++ b) := by
    unfold embeddedReplies
    simp only
    rw [if_neg (by rw [LB.packMulti_length, LB.offOf]; omega),
      K.client_unpacks_packed _ hrne (by rw [K.fsum_eq, hcount]; exact hrl)]
  refine ⟨w2, frm, ?_, hfrm, hd2, hsent2, hext2, hh2⟩
  have hsend' : sendUnit hookAll w seq (Cl.multiMsg (qs.map fun q => Cl.readMsg q.path q.elements)) =
      (w2, .ok (some (frame CMD_SEND_UNIT sess 0 w.drv.context (cpfReplyConnected conn.toId seq
        (encMRReply 0x0A
          { status := if (execEmbedded (conn.size - 2) st (qs.map ldrn_msg)).2.any (fun r => r.getD 2 0 != 0) then 0x1E else 0,
            data := K.packMulti (execEmbedded (conn.size - 2) st (qs.map ldrn_msg)).2 }))))) := hsend
  rw [ldr2_sendRequest_multi w w2 rs seq _ _ hsend' (ldr_tagResp_commandStatus _ _ _ _), hdata, hemb]

/-! ### `multiReadResults` over a concatenation -/

theorem ldrn_zip_map {α β} (f : α → β) (l : List α) : l.zip (l.map f) = l.map fun q => (q, f q) := by
  induction l with
  | nil => rfl
  | cons a t ih => rw [List.map_cons, List.zip_cons_cons, ih, List.map_cons]

theorem ldrn_mrr_append (a b : List (ReadReq × Option Bytes)) (rs : Results) :
    multiReadResults rs (a ++ b) =
      (match multiReadResults rs a with
       | .ok r1 => multiReadResults r1 b
       | .error e => .error e) := by
  induction a generalizing rs with
  | nil => rfl
  | cons x a ih =>
    obtain ⟨req, raw⟩ := x
    rw [List.cons_append, multiReadResults, multiReadResults]
    simp only []
    split
    · exact ih _
    · split
      · rfl
      · exact ih _

/-! ### `_send_requests` over the multi-service packets of a call -/

/-- the sequence number of the last packet of the list (or what was there before) -/
def ldrn_lastSeq : Cli.Drv → List (List ReadReq) → Option Nat → Option Nat
  | _, [], o => o
  | d, _ :: gs, _ => ldrn_lastSeq d.nextSeq.2 gs (some d.nextSeq.1)

/-- the frames written for the multi-service packets: the j-th is the frame `CIPDriver.send` builds (driver context
    `ctx`) for the Multiple Service Packet message over the j-th group, with the j-th sequence number drawn from `d` -/
def ldrn_FramesOf (ctx : Encap.Ctx) : Cli.Drv → List (List ReadReq) → List Bytes → Prop
  | _, [], [] => True
  | d, g :: gs, frm :: frms =>
      Encap.buildRequest (.sendUnit d.nextSeq.1 (Cl.multiMsg (g.map ldrn_msg))) ctx = .ok frm ∧
        ldrn_FramesOf ctx d.nextSeq.2 gs frms
  | _, _, _ => False

theorem ldrn_send_groups (sess : Nat) (cidb : Bytes) (st0 : LState) (cap : Nat) (gs : List (List ReadReq)) :
    ∀ (w : Cli.World Ext) (conn : Conn) (k : Nat) (rs rsf : Results) (d : Cli.Drv),
    ldr_Healthy w sess cidb conn → conn.size - 2 = cap →
    w.net.target.ext.logix = some { st0 with ctr := st0.ctr + k } →
    (∀ g ∈ gs, g ≠ []) →
    (∀ g ∈ gs, ∀ q ∈ g, (∃ segs, Denotes q.path segs) ∧ ldrn_Stable st0 cap q) →
    (∀ g ∈ gs, 10 + ldrn_mlen g ≤ conn.size ∧ 8 + ldrn_mlen g ≤ 65400) →
    (∀ g ∈ gs, 2 + 2 * g.length + ((g.map fun q => (encMRReply 0x4C (ldrn_rep st0 cap q)).length).sum) < 65536) →
    multiReadResults rs (gs.flatten.map fun q =>
      (q, some (List.replicate 46 0 ++ encMRReply 0x4C (ldrn_rep st0 cap q)))) = .ok rsf →
    ∃ w' frms, sendRequests hookAll w rs (ldrn_seqd d gs) = (w', .ok rsf) ∧ w'.drv = w.drv ∧
      w'.net.sent = w.net.sent ++ frms ∧ frms.length = gs.length ∧ ldrn_FramesOf w.drv.ctx d gs frms ∧
      w'.net.target.ext = { w.net.target.ext with
        logix := some { st0 with ctr := st0.ctr + k + (gs.flatten.map (ldrn_step st0 cap)).sum } } ∧
      ldr_Healthy w' sess cidb { conn with lastSeq := ldrn_lastSeq d gs conn.lastSeq } := by
  induction gs with
  | nil =>
    intro w conn k rs rsf d hw _ hlogix _ _ _ _ hmr
    have : rs = rsf := by
      simp only [List.flatten_nil, List.map_nil, multiReadResults, Except.ok.injEq] at hmr
      exact hmr
    subst this
    refine ⟨w, [], rfl, rfl, by simp, rfl, trivial, ?_, hw⟩
    simp only [List.flatten_nil, List.map_nil, List.sum_nil, Nat.add_zero]
    exact (ldx_ext_eta _ _ hlogix).symm
  | cons g gs ih =>
    intro w conn k rs rsf d hw hcap hlogix hne hq hfit hrl hmr
    subst hcap
    have hqg := hq g List.mem_cons_self
    have hex := ldrn_exec st0 (conn.size - 2) g k (fun q h => (hqg q h).1) (fun q h => (hqg q h).2)
    obtain ⟨w1, frm, hsend, hfrm, hd1, hsent1, hext1, hh1⟩ := ldrn_sendRequest_multi w sess cidb conn
      { st0 with ctr := st0.ctr + k } rs d.nextSeq.1 g hw hlogix (hne g List.mem_cons_self)
      (fun q h => (hqg q h).1) (ldr_nextSeq_lt d) (hfit g List.mem_cons_self).1 (hfit g List.mem_cons_self).2
      (by rw [hex]; simp only [List.map_map]; exact hrl g List.mem_cons_self)
    rw [hex] at hsend hext1
    simp only [List.map_map] at hsend
    rw [ldrn_zip_map] at hsend
    rw [List.flatten_cons, List.map_append, ldrn_mrr_append] at hmr
    simp only [Function.comp_def] at hsend
    cases h1 : multiReadResults rs (g.map fun q =>
        (q, some (List.replicate 46 0 ++ encMRReply 0x4C (ldrn_rep st0 (conn.size - 2) q)))) with
    | error e => rw [h1] at hmr; cases hmr
    | ok rs1 =>
      rw [h1] at hmr hsend
      simp only [] at hmr
      have hlogix1 : w1.net.target.ext.logix =
          some { st0 with ctr := st0.ctr + (k + (g.map (ldrn_step st0 (conn.size - 2))).sum) } := by
        rw [hext1, Nat.add_assoc]
      obtain ⟨w2, frms, hsend2, hd2, hsent2, hlen2, hfrms2, hext2, hh2⟩ := ih w1 { conn with lastSeq := some d.nextSeq.1 }
        (k + (g.map (ldrn_step st0 (conn.size - 2))).sum) rs1 rsf d.nextSeq.2 hh1 rfl hlogix1
        (fun g' h' => hne g' (List.mem_cons_of_mem _ h')) (fun g' h' => hq g' (List.mem_cons_of_mem _ h'))
        (fun g' h' => hfit g' (List.mem_cons_of_mem _ h')) (fun g' h' => hrl g' (List.mem_cons_of_mem _ h')) hmr
      rw [hd1] at hfrms2
      refine ⟨w2, frm :: frms, ?_, by rw [hd2, hd1], ?_, by simp [hlen2], ⟨hfrm, hfrms2⟩, ?_, ?_⟩
      · rw [ldrn_seqd, sendRequests, hsend]
        exact hsend2
      · rw [hsent2, hsent1]; simp
      · rw [hext2, hext1, List.flatten_cons, List.map_append, List.sum_append]
        simp only [Nat.add_assoc]
      · exact hh2

end Pycomm.Lgx.Drv
