/-
  LogixDriver.write of ONE request that is sent as one plain Write Tag service: the layers composed, for any tag
  string whose parse, `encode_value`, request path and address resolution are known. The request shapes (array
  element, slice, aligned BOOL-array range) instantiate `ldw2_write_single`.

    effect:   `ldw2_proj`, `ldw2_written_eq`, `ldw2_ctl_other`, `ldw2_effect`
    (b)       `ldw2_build_single`
    (c)+(d)   `ldw2_logixService_tag`, `ldw2_sendUnit_tag`, `ldw2_sendUnit_write`
    (f)       `ldw2_writeResult`
    composed  `ldw2_write_single`
-/
import PycommProofs.LogixDriverWrite
import PycommProofs.LogixDriverRead2
namespace Pycomm.Lgx.Drv
open Pycomm Pycomm.Tgt Pycomm.Path Pycomm.Reply Pycomm.Encap Pycomm.Lgx Pycomm.Lgx.E2E

/-! ### the effect of a write inside a controller-scope symbol -/

/-- the symbol with `bytes` spliced into its memory at byte `off` -/
def ldw2_sym (s : Symbol) (off : Nat) (bytes : Bytes) : Symbol := { s with mem := splice s.mem off bytes }

/-- the controller scope with `bytes` spliced at `off` into the memory of the symbols of instance id `inst` -/
def ldw2_ctl (l : List Symbol) (inst off : Nat) (bytes : Bytes) : List Symbol :=
  l.map fun x => if x.inst == inst then ldw2_sym x off bytes else x

/-- the project after a write inside the symbol `s`: the bytes spliced in at `off`, one write logged -/
def ldw2_proj (p : Project) (s : Symbol) (off : Nat) (bytes : Bytes) : Project :=
  { p with controller := ldw2_ctl p.controller s.inst off bytes, writeLog := p.writeLog ++ [(s.inst, off, bytes.length)] }

/-- a write-type effect at a controller-scope location of the symbol `s` is `ldw2_proj` -/
theorem ldw2_written_eq (p : Project) (s : Symbol) (loc : Loc) (off : Nat) (bytes : Bytes)
    (hi : loc.symInst = s.inst) (hsc : loc.scope = none) : written p loc off bytes = ldw2_proj p s off bytes := by
  unfold written logWrite Project.updateSymbol ldw2_proj ldw2_ctl ldw2_sym
  rw [hsc, hi]

/-- position by position: the symbol `s` has the bytes spliced in, every other symbol is untouched -/
theorem ldw2_ctl_other (l : List Symbol) (s : Symbol) (off : Nat) (bytes : Bytes)
    (huniqI : ∀ s' ∈ l, s'.inst = s.inst → s' = s) (i : Nat) (x : Symbol) (hx : l[i]? = some x) :
    (ldw2_ctl l s.inst off bytes)[i]? = some (if x.inst = s.inst then ldw2_sym s off bytes else x) ∧
    (x.inst = s.inst → x = s) := by
  have hmem : x ∈ l := List.mem_of_getElem? hx
  refine ⟨?_, huniqI x hmem⟩
  unfold ldw2_ctl
  rw [List.getElem?_map, hx, Option.map_some]
  by_cases hi : x.inst = s.inst
  · rw [huniqI x hmem hi]; simp
  · simp [hi]

theorem ldw2_mem_ctl (l : List Symbol) (s : Symbol) (off : Nat) (bytes : Bytes) (hs : s ∈ l) :
    ldw2_sym s off bytes ∈ ldw2_ctl l s.inst off bytes := by
  unfold ldw2_ctl
  exact List.mem_map.2 ⟨s, hs, by simp⟩

theorem ldw2_ctl_inv (l : List Symbol) (inst off : Nat) (bytes : Bytes) (y : Symbol) (hy : y ∈ ldw2_ctl l inst off bytes) :
    ∃ x ∈ l, y = (if x.inst == inst then ldw2_sym x off bytes else x) ∧ y.name = x.name ∧ y.inst = x.inst ∧
      y.symbolType = x.symbolType ∧ y.dims = x.dims := by
  unfold ldw2_ctl at hy
  obtain ⟨x, hx, rfl⟩ := List.mem_map.1 hy
  refine ⟨x, hx, rfl, ?_, ?_, ?_, ?_⟩ <;> split <;> rfl

theorem ldw2_ctl_bytes (l : List Symbol) (inst off : Nat) (bytes : Bytes)
    (hbytes : ∀ s' ∈ l, ∀ ch ∈ s'.name, ch < 256) :
    ∀ s' ∈ ldw2_ctl l inst off bytes, ∀ ch ∈ s'.name, ch < 256 := by
  intro y hy ch hch
  obtain ⟨x, hx, _, hn, _⟩ := ldw2_ctl_inv l inst off bytes y hy
  rw [hn] at hch
  exact hbytes x hx ch hch

theorem ldw2_ctl_uniqN (l : List Symbol) (s : Symbol) (off : Nat) (bytes : Bytes)
    (huniqN : ∀ s' ∈ l, s'.name = s.name → s' = s) :
    ∀ s' ∈ ldw2_ctl l s.inst off bytes, s'.name = (ldw2_sym s off bytes).name → s' = ldw2_sym s off bytes := by
  intro y hy hn
  obtain ⟨x, hx, he, hn', _⟩ := ldw2_ctl_inv l s.inst off bytes y hy
  have : x = s := huniqN x hx (by rw [← hn', hn]; rfl)
  subst this
  rw [he]; simp

theorem ldw2_ctl_uniqI (l : List Symbol) (s : Symbol) (off : Nat) (bytes : Bytes)
    (huniqI : ∀ s' ∈ l, s'.inst = s.inst → s' = s) :
    ∀ s' ∈ ldw2_ctl l s.inst off bytes, s'.inst = (ldw2_sym s off bytes).inst → s' = ldw2_sym s off bytes := by
  intro y hy hn
  obtain ⟨x, hx, he, _, hi', _⟩ := ldw2_ctl_inv l s.inst off bytes y hy
  have : x = s := huniqI x hx (by rw [← hi', hn]; rfl)
  subst this
  rw [he]; simp

/-- what `ldw2_proj p s off bytes` means: templates, program scopes, the number and order of the controller-scope
    symbols are unchanged; every other controller-scope symbol is unchanged byte for byte; the symbol `s` keeps
    name, instance id, type word and dimensions, its memory keeps its length, holds exactly `bytes` at
    `[off, off + |bytes|)` and is unchanged at every other byte; ONE write-log entry `(instance, off, |bytes|)` is
    appended -/
theorem ldw2_effect (p : Project) (s : Symbol) (off : Nat) (bytes : Bytes)
    (huniqI : ∀ s' ∈ p.controller, s'.inst = s.inst → s' = s) (hfit : off + bytes.length ≤ s.mem.length) :
    (ldw2_proj p s off bytes).templates = p.templates ∧ (ldw2_proj p s off bytes).programs = p.programs ∧
    (ldw2_proj p s off bytes).controller.length = p.controller.length ∧
    (∀ (i : Nat) (x : Symbol), p.controller[i]? = some x →
        (ldw2_proj p s off bytes).controller[i]? = some (if x.inst = s.inst then ldw2_sym s off bytes else x) ∧
        (x.inst = s.inst → x = s)) ∧
    ((ldw2_sym s off bytes).inst = s.inst ∧ (ldw2_sym s off bytes).name = s.name ∧
      (ldw2_sym s off bytes).symbolType = s.symbolType ∧ (ldw2_sym s off bytes).dims = s.dims) ∧
    (ldw2_sym s off bytes).mem.length = s.mem.length ∧
    ((ldw2_sym s off bytes).mem.drop off).take bytes.length = bytes ∧
    (∀ j, (j < off ∨ off + bytes.length ≤ j) → (ldw2_sym s off bytes).mem[j]? = s.mem[j]?) ∧
    (ldw2_proj p s off bytes).writeLog = p.writeLog ++ [(s.inst, off, bytes.length)] := by
  obtain ⟨h1, h2, h3⟩ := splice_frame s.mem bytes off hfit
  refine ⟨rfl, rfl, ?_, ?_, ⟨rfl, rfl, rfl, rfl⟩, h1, h2, h3, rfl⟩
  · simp [ldw2_proj, ldw2_ctl]
  · intro i x hx
    exact ldw2_ctl_other p.controller s off bytes huniqI i x hx

/-! ### (b) `_write_build_requests`, one request of `n` elements -/

/-- (b) `_write_build_requests` for one error-free parsed request that is not a bit write, whose value encodes (the
    request `encode_value` hands back is `p1`, with `n` elements) and whose request stays below the fragmentation
    threshold of the single-request path (`len(value) + len(request.message)`, logix_driver.py:1225): one sequence
    number is drawn, the result is one plain Write Tag request for `n` elements -/
theorem ldw2_build_single (cfg : Cfg) (d : Cli.Drv) (p p1 : Parsed) (info : TagInfo) (path value : Bytes) (n : Nat)
    (hp : p.error = none) (hinfo : p.info = some info) (hbw : p.isBitWrite = false)
    (henc : encodeValue p info = (p1, some value)) (hrid : p1.requestId = p.requestId)
    (hel : p1.elements = (n : Int)) (hn : n ≤ 65535)
    (hpath : requestPathOf cfg p1.plcTag info = .ok path)
    (hsize : value.length + (2 + (Cl.writeMsg path (packedTypeOf info) n value).length) ≤ d.connectionSize) :
    writeBuildRequests cfg d [p] =
      (d.nextSeq.2, .ok ([p1], [Request.write
        { seq := d.nextSeq.1, tag := p1.plcTag, elements := n, info := info, rid := p1.requestId, path := path,
          typeBytes := packedTypeOf info, value := value }])) := by
  have hel' : elementsNat p1.elements = .ok n := by
    rw [hel]; unfold elementsNat
    rw [if_pos (by omega)]; rfl
  have hnf : ¬ (value.length + (2 + (Cl.writeMsg path (packedTypeOf info) n value).length) > d.connectionSize) := by omega
  have hrid' : (p.requestId == p1.requestId) = true := by rw [hrid]; simp
  unfold writeBuildRequests
  simp only [List.length_cons, List.length_nil, Nat.zero_add, ne_eq, not_true_eq_false, false_and, if_false,
    writeBuildSingles, hp, hinfo, hbw, Bool.false_eq_true, henc, mkWriteReq, hpath, hel', WriteReq.messageLen, hnf,
    decide_false, Except.map, replaceParsed, List.map_cons, List.map_nil, hrid', if_true]

/-! ### (c)+(d) a write-type tag service at any tag address -/

/-- (d) the Logix services answer a write-type tag service whose path resolves by what `exchange` computes -/
theorem ldw2_logixService_tag (st : LState) (cap : Nat) (svc : UInt8) (path data : Bytes) (segs : List PSeg) (loc : Loc)
    (hp : Denotes path segs) (hr : resolve st.proj segs = .ok loc)
    (hsvc : svc = 0x4D ∨ svc = 0x53 ∨ svc = 0x4E) :
    logixService st (ldw_req svc segs data) (some cap) = some (Cl.exchange st cap ([svc] ++ path ++ data)) := by
  have hpm : parseMR ([svc] ++ path ++ data) = some (ldw_req svc segs data) := parseMR_msg svc path data segs hp
  have hsv : (ldw_req svc segs data).service = 0x4D ∨ (ldw_req svc segs data).service = 0x53 ∨
      (ldw_req svc segs data).service = 0x4E := by
    rcases hsvc with rfl | rfl | rfl
    · exact Or.inl rfl
    · exact Or.inr (Or.inl rfl)
    · exact Or.inr (Or.inr rfl)
  have hx : logixService st (ldw_req svc segs data) (some cap) = tagService st (ldw_req svc segs data) cap := by
    simp only [logixService, Option.getD_some]
    rw [if_neg (by rcases hsv with h | h | h <;> rw [h] <;> simp), w_single_of_resolve st _ cap loc hr hsv]
  rw [w_tagService_of_resolve st _ cap loc hr hsv] at hx
  unfold Cl.exchange
  rw [hpm]
  simp only [hx]

/-- (c)+(d) `ldw_sendUnit_tag` for any tag address (indexes, members): a write-type tag service message sent on
    the healthy connection, when the controller accepts it: one frame is written, the reply is the framed status-0
    answer, the Logix state of the target is `st'`, the world is healthy again -/
theorem ldw2_sendUnit_tag (w : Cli.World Ext) (sess : Nat) (cidb : Bytes) (conn : Conn) (st st' : LState)
    (svc : UInt8) (path data : Bytes) (segs : List PSeg) (loc : Loc) (seq : Nat)
    (hw : ldr_Healthy w sess cidb conn) (hlogix : w.net.target.ext.logix = some st)
    (hp : Denotes path segs) (hr : resolve st.proj segs = .ok loc)
    (hsvc : svc = 0x4D ∨ svc = 0x53 ∨ svc = 0x4E)
    (hex : Cl.exchange st (conn.size - 2) ([svc] ++ path ++ data) = (st', {}))
    (hseq : seq < 65536) (hm : ([svc] ++ path ++ data).length ≤ 65400)
    (hfit : ([svc] ++ path ++ data).length + 2 ≤ conn.size) :
    ∃ w' frm, sendUnit hookAll w seq ([svc] ++ path ++ data) =
        (w', .ok (some (frame CMD_SEND_UNIT sess 0 w.drv.context (cpfReplyConnected conn.toId seq
          (encMRReply svc.toNat { status := 0, ext := [], data := [] }))))) ∧
      w'.drv = w.drv ∧ w'.net.sent = w.net.sent ++ [frm] ∧
      w'.net.target.ext = { w.net.target.ext with logix := some st' } ∧
      ldr_Healthy w' sess cidb { conn with lastSeq := some seq } := by
  have hls := ldw2_logixService_tag st (conn.size - 2) svc path data segs loc hp hr hsvc
  rw [hex] at hls
  have hpm : parseMR ([svc] ++ path ++ data) = some (ldw_req svc segs data) := parseMR_msg svc path data segs hp
  exact ldr2_sendUnit_logix w sess cidb conn st seq ([svc] ++ path ++ data) (ldw_req svc segs data) (st', {}) hw hlogix
    hpm (ldr2_logixPath_of_resolve _ _ _ hr) hls hseq hm hfit

/-- (c)+(d) the driver's Write Tag request for `n` elements at a tag address that resolves to an elementary
    location, carrying the type code and exactly the `n` elements' bytes, sent on the healthy connection: one
    frame is written, the controller accepts it (status 0, no data), and its whole effect on the Logix state is the
    bytes written at the location with one logged write -/
theorem ldw2_sendUnit_write (w : Cli.World Ext) (sess : Nat) (cidb : Bytes) (conn : Conn) (st : LState)
    (path : Bytes) (segs : List PSeg) (loc : Loc) (s : Symbol) (c sz n : Nat) (bytes : Bytes) (seq : Nat)
    (hw : ldr_Healthy w sess cidb conn) (hlogix : w.net.target.ext.logix = some st)
    (hp : Denotes path segs) (hr : resolve st.proj segs = .ok loc) (hty : loc.ty = .atomic c)
    (hn : 1 ≤ n ∧ n ≤ loc.avail ∧ n < 65536)
    (hs : st.proj.symbolOf loc = some s) (hsz : atomicSize c = some sz)
    (hbl : bytes.length = n * sz) (hmem : loc.offset + n * sz ≤ s.mem.length)
    (hseq : seq < 65536) (hm : path.length + 5 + bytes.length ≤ 65400) (hfit : path.length + 7 + bytes.length ≤ conn.size) :
    ∃ w' frm, sendUnit hookAll w seq (Cl.writeMsg path (le 2 c) n bytes) =
        (w', .ok (some (frame CMD_SEND_UNIT sess 0 w.drv.context (cpfReplyConnected conn.toId seq
          (encMRReply 0x4D { status := 0, ext := [], data := [] }))))) ∧
      w'.drv = w.drv ∧ w'.net.sent = w.net.sent ++ [frm] ∧
      w'.net.target.ext =
        { w.net.target.ext with logix := some { st with proj := written st.proj loc loc.offset bytes } } ∧
      ldr_Healthy w' sess cidb { conn with lastSeq := some seq } := by
  have hmsg : Cl.writeMsg path (le 2 c) n bytes = [0x4D] ++ path ++ (le 2 c ++ le 2 n ++ bytes) := by
    simp only [Cl.writeMsg, List.append_assoc]
  have hml : ([0x4D] ++ path ++ (le 2 c ++ le 2 n ++ bytes) : Bytes).length = path.length + 5 + bytes.length := by
    simp only [List.length_append, List.length_cons, List.length_nil, le_length]; omega
  have hex := write_e2e st (conn.size - 2) path segs loc n sz bytes s hp hr (by intro b; rw [hty]; simp) hn hs
    (by rw [hty]; exact hsz) hbl hmem
  have htb : typeBytes st.proj loc.ty = le 2 c := by rw [hty]; rfl
  rw [htb, hmsg] at hex
  rw [hmsg]
  exact ldw2_sendUnit_tag w sess cidb conn st _ 0x4D path _ segs loc seq hw hlogix hp hr (Or.inl rfl) hex hseq
    (by rw [hml]; omega) (by rw [hml]; omega)

/-! ### (f) the result loop -/

/-- the type string of a write result: `T` for one element, `T[n]` for more -/
theorem ldw2_typeStr_eq (name : Name) (n : Nat) :
    (if ((n : Nat) : Int) > 1 then name ++ [91] ++ renderDec ((n : Nat) : Int) ++ [93] else name) = ldr2_typeStr name n := by
  unfold ldr2_typeStr
  by_cases h : n > 1
  · rw [if_pos h, if_pos (by omega)]
  · rw [if_neg h, if_neg (by omega)]

/-- (f) the result loop of `write` for an error-free request of `n` elements that is neither a bit write nor a
    BOOL-array range, whose response was recorded without error: the Tag carries the request's tag (without the
    element count), the caller's value and the type string `T` / `T[n]` -/
theorem ldw2_writeResult (p : Parsed) (info : TagInfo) (t : LTag) (n : Nat)
    (herr : p.error = none) (hinfo : p.info = some info) (hbit : p.bit = none) (hbe : p.boolElements = none)
    (hel : p.elements = (n : Int)) (hte : t.error = none) :
    writeResult p [((p.requestId : Nat), t)] =
      { tag := p.userTag, value := p.value, type := some (ldr2_typeStr info.core.dataTypeName n), error := none } := by
  unfold writeResult
  simp only [herr, hinfo, Results.get?, List.find?_cons, beq_self_eq_true, Option.map_some, hbit, hbe, hel, hte,
    Option.isSome_none, Bool.false_and, Bool.false_eq_true, if_false, ldw2_typeStr_eq]

/-! ### the layers composed -/

/-- `LogixDriver.write` of one `(tag string, value)` pair on a healthy connected driver, when the request is sent as
    one plain Write Tag service for `n` elements and accepted: the result is what the result loop of `write` makes
    of the recorded Tag. Exactly one frame is written, one sequence number is drawn, the controller's project
    afterwards is `written st.proj loc loc.offset bytes`, the resulting world is healthy again.

    `p` is the parsed request (with the caller's value), `p1` what `encode_value` hands back with the bytes;
    `path`/`segs` the request path and what it denotes; `loc` where the controller resolves it, inside the symbol
    `s`. -/
theorem ldw2_write_single (cfg : Cfg) (w : Cli.World Ext) (sess : Nat) (cidb : Bytes) (conn : Conn)
    (st : LState) (tag0 : Name) (v : PyVal) (p0 p1 : Parsed) (info : TagInfo) (path : Bytes) (segs : List PSeg) (loc : Loc)
    (s : Symbol) (c sz n : Nat) (bytes : Bytes)
    (hw : ldr_Healthy w sess cidb conn) (hlogix : w.net.target.ext.logix = some st)
    (hparse : parseTagRequest cfg.tags true 0 tag0 = p0)
    (hperr : p0.error = none) (hpinfo : p0.info = some info) (hbw : p0.isBitWrite = false)
    (henc : encodeValue { p0 with value := v } info = (p1, some bytes)) (hrid : p1.requestId = 0) (hrid0 : p0.requestId = 0)
    (hpel : p1.elements = (n : Int))
    (hpath : requestPathOf cfg p1.plcTag info = .ok path) (hden : Denotes path segs) (hpl : path.length ≤ 600)
    (hr : resolve st.proj segs = .ok loc) (hty : loc.ty = .atomic c) (hpt : packedTypeOf info = le 2 c)
    (hn : 1 ≤ n ∧ n ≤ loc.avail ∧ n < 65536)
    (hs : st.proj.symbolOf loc = some s) (hsz : atomicSize c = some sz)
    (hbl : bytes.length = n * sz) (hmem : loc.offset + n * sz ≤ s.mem.length) (hb16 : bytes.length ≤ 64000)
    (hC : 2 * bytes.length + path.length + 7 ≤ w.drv.connectionSize)
    (hT : bytes.length + path.length + 7 ≤ conn.size) :
    ∃ w' frm, write hookAll cfg w [(tag0, v)] =
        (w', .ok [writeResult p1 [((0 : Nat), { tag := p1.plcTag, value := .bytes bytes, type := some info.core.dataTypeName,
                                                error := none })]]) ∧
      w'.drv = w.drv.nextSeq.2 ∧ w'.net.sent = w.net.sent ++ [frm] ∧
      w'.net.target.ext =
        { w.net.target.ext with logix := some { st with proj := written st.proj loc loc.offset bytes } } ∧
      ldr_Healthy w' sess cidb { conn with lastSeq := some w.drv.nextSeq.1 } := by
  have hparsed : ((parseRequestedTags cfg.tags true ([(tag0, v)].map (·.1))).zip ([(tag0, v)].map (·.2))).map
      (fun x => ({ x.1 with value := x.2 } : Drv.Parsed)) = [{ p0 with value := v }] := by
    show ([parseTagRequest cfg.tags true 0 tag0].zip [v]).map _ = _
    rw [hparse]; rfl
  have hml : (Cl.writeMsg path (packedTypeOf info) n bytes).length = path.length + 5 + bytes.length := by
    rw [hpt]
    simp only [Cl.writeMsg, List.length_append, List.length_cons, List.length_nil, le_length]; omega
  have hbuild := ldw2_build_single cfg w.drv { p0 with value := v } p1 info path bytes n hperr hpinfo
    (by simpa [Parsed.isBitWrite] using hbw) henc (by rw [hrid]; exact hrid0.symm) hpel (by omega) hpath
    (by rw [hml]; omega)
  have hw1 : ldr_Healthy ({ w with drv := w.drv.nextSeq.2 } : Cli.World Ext) sess cidb conn :=
    ldr_Healthy_seq hw _ (by rw [(Cli.lcs_nextSeq w.drv).2])
  obtain ⟨w2, frm, hsend, hd2, hsent2, hext2, hh2⟩ := ldw2_sendUnit_write ({ w with drv := w.drv.nextSeq.2 } : Cli.World Ext)
    sess cidb conn st path segs loc s c sz n bytes w.drv.nextSeq.1 hw1 hlogix hden hr hty hn hs hsz hbl hmem
    (ldr_nextSeq_lt w.drv) (by omega) (by omega)
  rw [← hpt] at hsend
  have hresp := ldw_writeTag_ok p1.plcTag (.bytes bytes) info.core.dataTypeName 0x4D sess conn.toId w.drv.nextSeq.1
    w.drv.nextSeq.2.context hw1.ctx8
  have hfo : Cli.ensureForwardOpen hookAll Cli.FUEL w = (w, .ok ()) := ldr_ensureFO_connected hookAll 7 w hw.connected
  refine ⟨w2, frm, ?_, hd2, hsent2, hext2, hh2⟩
  unfold write
  rw [hfo]
  dsimp only
  rw [hparsed, hbuild]
  dsimp only
  unfold sendRequests sendRequest
  dsimp only
  rw [hsend]
  dsimp only
  rw [hresp]
  dsimp only [Except.map]
  unfold sendRequests
  dsimp only [ldw_fanOut_write, List.isEmpty_cons, Bool.false_eq_true, if_false, List.map_cons, List.map_nil,
    Results.set, List.any_nil, List.nil_append]
  simp only [Bool.false_eq_true, if_false, List.map_cons, List.map_nil, hrid]

end Pycomm.Lgx.Drv
