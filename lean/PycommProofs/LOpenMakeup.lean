/-
  LogixDriver.open(), template upload: `_get_structure_makeup` (Get_Attribute_List of the template object, attributes
  4, 5, 2, 1) through the whole stack: the four attributes of the controller's template come back.
-/
import PycommProofs.LOpenTemplate
namespace Pycomm.Lgx.Opn
open Pycomm Pycomm.Tgt Pycomm.Path Pycomm.Reply Pycomm.Encap Pycomm.Lgx Pycomm.EP Pycomm.Lgx.E2E Pycomm.Lgx.Drv

/-! ### decoding the reply structure -/

theorem lo_decodeInt_unsigned (k : IntK) (hk : k.signed = false) (n : Nat) (rest : Bytes) (h : n < 256 ^ k.size) :
    decode (.int k) (leBytes k.size n ++ rest) = .ok (.int n, rest) := by
  have hv : decodeIntVal k (leBytes k.size n ++ rest) = .ok ((n : Int), rest) := by
    unfold decodeIntVal
    rw [RT.decodeIntNat_append k n rest h]
    simp only [bind, Except.bind, hk, Bool.false_eq_true, if_false]
  simp only [decode, bind, Except.bind, hv]

/-- a named unsigned integer member -/
theorem lo_dm_int (x : Name) (k : IntK) (hk : k.signed = false) (more : Members) (n : Nat) (bs : Bytes)
    (acc : List (Name × PyVal)) (hx : x ≠ []) (h : n < 256 ^ k.size) :
    decodeMembers (.cons (some x) (.int k) more) (leBytes k.size n ++ bs) acc =
      decodeMembers more bs (dictSet acc x (.int n)) := by
  rw [decodeMembers, lo_decodeInt_unsigned k hk n bs h]
  have : x.isEmpty = false := by cases x <;> simp_all
  simp only [bind, Except.bind, this, Bool.false_eq_true, if_false]

/-- a named structure member -/
theorem lo_dm_struct (x : Name) (ms more : Members) (bs : Bytes) (acc kvs : List (Name × PyVal)) (r : Bytes)
    (hx : x ≠ []) (h : decodeMembers ms bs [] = .ok (kvs, r)) :
    decodeMembers (.cons (some x) (.struct ms) more) bs acc = decodeMembers more r (dictSet acc x (.dict kvs)) := by
  rw [decodeMembers, decode, h]
  have : x.isEmpty = false := by cases x <;> simp_all
  simp only [bind, Except.bind, this, Bool.false_eq_true, if_false]

/-- `TemplateAttributes` (the struct type of the reply) with the member names spelled out -/
def lo_attrMembers (x : Name) (k : IntK) : Members :=
  .cons (some (nm "attr_num")) (.int .uint) (.cons (some (nm "status")) (.int .uint) (.cons (some x) (.int k) .nil))

theorem lo_templateAttributesMembers : Gen.templateAttributesMembers =
    .cons (some (nm "count")) (.int .uint)
      (.cons (some (nm "object_definition_size")) (.struct (lo_attrMembers (nm "size") .udint))
        (.cons (some (nm "structure_size")) (.struct (lo_attrMembers (nm "size") .udint))
          (.cons (some (nm "member_count")) (.struct (lo_attrMembers (nm "count") .uint))
            (.cons (some (nm "structure_handle")) (.struct (lo_attrMembers (nm "handle") .uint)) .nil)))) := by
  rfl

/-- one attribute of the reply: attribute number, status, value -/
theorem lo_dm_attr (x : Name) (k : IntK) (hk : k.signed = false) (a s v : Nat) (rest : Bytes)
    (hx : x ≠ []) (hx1 : nm "attr_num" ≠ x) (hx2 : nm "status" ≠ x)
    (ha : a < 65536) (hs : s < 65536) (hv : v < 256 ^ k.size) :
    decodeMembers (lo_attrMembers x k) (le 2 a ++ (le 2 s ++ (leBytes k.size v ++ rest))) [] =
      .ok ([(nm "attr_num", .int a), (nm "status", .int s), (x, .int v)], rest) := by
  unfold lo_attrMembers
  have e2 : ∀ n, le 2 n = leBytes IntK.uint.size n := fun _ => rfl
  rw [e2 a, e2 s, lo_dm_int _ .uint rfl _ a _ _ (by decide) (by simpa [IntK.size] using ha),
    lo_dm_int _ .uint rfl _ s _ _ (by decide) (by simpa [IntK.size] using hs),
    lo_dm_int x k hk _ v _ _ hx hv, decodeMembers]
  have h1 : (nm "attr_num" == nm "status") = false := by decide
  have h2 : (nm "attr_num" == x) = false := by simpa using hx1
  have h3 : (nm "status" == x) = false := by simpa using hx2
  simp [dictSet, h1, h2, h3]

/-- the value `_get_structure_makeup` decodes: the `count` field and one structure per attribute -/
def lo_makeupDict (W S M H : Nat) : List (Name × PyVal) :=
  [(nm "count", .int 4),
   (nm "object_definition_size", .dict [(nm "attr_num", .int 4), (nm "status", .int 0), (nm "size", .int W)]),
   (nm "structure_size", .dict [(nm "attr_num", .int 5), (nm "status", .int 0), (nm "size", .int S)]),
   (nm "member_count", .dict [(nm "attr_num", .int 2), (nm "status", .int 0), (nm "count", .int M)]),
   (nm "structure_handle", .dict [(nm "attr_num", .int 1), (nm "status", .int 0), (nm "handle", .int H)])]

/-- the reply data: attribute count, then (attribute number, status, value) per attribute -/
def lo_makeupData (W S M H : Nat) : Bytes :=
  le 2 4 ++ (le 2 4 ++ (le 2 0 ++ (le 4 W ++ (le 2 5 ++ (le 2 0 ++ (le 4 S ++ (le 2 2 ++ (le 2 0 ++ (le 2 M ++ (le 2 1 ++ (le 2 0 ++ (le 2 H ++ []))))))))))))

/-- the Get_Attribute_List reply of the template object (attributes 4, 5, 2, 1) decodes to `lo_makeupDict` -/
theorem lo_decode_makeup (W S M H : Nat) (hW : W < 2 ^ 32) (hS : S < 2 ^ 32) (hM : M < 65536) (hH : H < 65536) :
    decode (.struct Gen.templateAttributesMembers) (lo_makeupData W S M H) = .ok (.dict (lo_makeupDict W S M H), []) := by
  have e2 : ∀ n, le 2 n = leBytes IntK.uint.size n := fun _ => rfl
  have e4 : ∀ n, le 4 n = leBytes IntK.udint.size n := fun _ => rfl
  have a1 := lo_dm_attr (nm "size") .udint rfl 4 0 W
    (le 2 5 ++ (le 2 0 ++ (le 4 S ++ (le 2 2 ++ (le 2 0 ++ (le 2 M ++ (le 2 1 ++ (le 2 0 ++ (le 2 H ++ [])))))))))
    (by decide) (by decide) (by decide) (by omega) (by omega) (by simpa [IntK.size] using hW)
  have a2 := lo_dm_attr (nm "size") .udint rfl 5 0 S
    (le 2 2 ++ (le 2 0 ++ (le 2 M ++ (le 2 1 ++ (le 2 0 ++ (le 2 H ++ []))))))
    (by decide) (by decide) (by decide) (by omega) (by omega) (by simpa [IntK.size] using hS)
  have a3 := lo_dm_attr (nm "count") .uint rfl 2 0 M (le 2 1 ++ (le 2 0 ++ (le 2 H ++ [])))
    (by decide) (by decide) (by decide) (by omega) (by omega) (by simpa [IntK.size] using hM)
  have a4 := lo_dm_attr (nm "handle") .uint rfl 1 0 H []
    (by decide) (by decide) (by decide) (by omega) (by omega) (by simpa [IntK.size] using hH)
  rw [← e4 W] at a1
  rw [← e4 S] at a2
  rw [← e2 M] at a3
  rw [← e2 H] at a4
  rw [lo_templateAttributesMembers]
  unfold lo_makeupData
  rw [decode]
  rw [e2 4, lo_dm_int _ .uint rfl _ 4 _ _ (by decide) (by decide), ← e2 4]
  rw [lo_dm_struct _ _ _ _ _ _ _ (by decide) a1, lo_dm_struct _ _ _ _ _ _ _ (by decide) a2,
    lo_dm_struct _ _ _ _ _ _ _ (by decide) a3, lo_dm_struct _ _ _ _ _ _ _ (by decide) a4, decodeMembers]
  rfl

/-! ### the controller's side -/

/-- the attribute list of `_get_structure_makeup` -/
def lo_makeupReq : Bytes := [0x04, 0x00, 0x04, 0x00, 0x05, 0x00, 0x02, 0x00, 0x01, 0x00]

/-- Get_Attribute_List of the template object on that request: the four attributes of the template -/
theorem lo_templateAttrs (t : Template) :
    templateAttrs t lo_makeupReq =
      { status := 0, ext := [], data := lo_makeupData t.defWords t.size t.members.length t.handle } := by
  have hp : parseAttrList lo_makeupReq = some [4, 5, 2, 1] := by decide
  unfold templateAttrs
  rw [hp]
  simp [lo_makeupData]

theorem lo_logixService_templateAttrs (st : LState) (t : Template) (tid : Nat) (d : Bytes) (cap : Nat)
    (ht : st.proj.template? tid = some t) :
    logixService st { service := 0x03, path := [PSeg.logical 0 0x6C, PSeg.logical 4 tid], data := d } (some cap) =
      some (st, templateAttrs t d) := by
  simp [logixService, single, ht]

/-! ### the client's side -/

/-- `generic_message(connected=True)` on a connected driver: the decorator does nothing (any fuel), one sequence
    number is drawn, the request is sent as a connected message and the reply is parsed by the generic response class -/
theorem lo_genericMessage_connected {σ} (hook : ObjHook σ) (fuel : Nat) (w : Cli.World σ) (a : Cli.GenArgs)
    (hc : a.connected = true) (hcon : w.drv.targetIsConnected = true) (path : Bytes)
    (hpath : requestPath a.cls a.inst a.attr = .ok path) :
    Cli.genericMessage hook (fuel + 2) w a =
      match Cli.sendReq hook { w with drv := w.drv.nextSeq.2 }
          (.sendUnit w.drv.nextSeq.1 ([UInt8.ofNat a.service] ++ path ++ a.data)) false with
      | (w2, .error e) => (w2, .error e)
      | (w2, .ok reply) =>
          match errorCip reply .connected (parseGeneric reply .connected a.dataType).2.1
              (parseGeneric reply .connected a.dataType).2.2 with
          | .error e => (w2, .error e)
          | .ok err => (w2, .ok { name := a.name, value := (parseGeneric reply .connected a.dataType).1, error := err }) := by
  rw [Cli.genericMessage]
  simp only [hc, if_true]
  rw [ldr_ensureFO_connected hook fuel w hcon]
  dsimp only
  rw [hpath]
  dsimp only
  generalize Cli.sendReq hook _ _ false = r
  obtain ⟨w2, r⟩ := r
  cases r <;> rfl

/-- the attributes of a template as `_get_structure_makeup` reports them -/
def lo_attrsOf (t : Template) : TemplateAttrs :=
  { objectDefinitionSize := t.defWords, structureSize := t.size, memberCount := t.members.length,
    structureHandle := t.handle }

/-- `_get_structure_makeup(tid)` (not cached) on a healthy connection: one frame; the four attributes of the
    controller's template come back and are cached; nothing else changes.
    The field ranges are what the 32- and 16-bit attribute fields of the reply can carry. -/
theorem lo_getStructureMakeup (s0 : St Ext) (sess : Nat) (cidb : Bytes) (conn : Conn) (st : LState)
    (t : Template) (tid : Nat)
    (hw : ldr_Healthy s0.w sess cidb conn) (hlogix : s0.w.net.target.ext.logix = some st)
    (ht : st.proj.template? tid = some t) (htid : tid < 2 ^ 32) (hsize : 26 ≤ conn.size)
    (hcache : natGet s0.cache.idStruct tid = none)
    (hW : t.defWords < 2 ^ 32) (hS : t.size < 2 ^ 32) (hM : t.members.length < 65536) (hH : t.handle < 65536) :
    ∃ w', getStructureMakeup hookAll s0 tid =
        ({ s0 with w := w', cache := { s0.cache with idStruct := natSet s0.cache.idStruct tid (lo_attrsOf t) } },
         .ok (lo_attrsOf t)) ∧
      ldr_Healthy w' sess cidb { conn with lastSeq := some s0.w.drv.nextSeq.1 } ∧ w'.drv = s0.w.drv.nextSeq.2 ∧
      (∃ frm, w'.net.sent = s0.w.net.sent ++ [frm]) ∧
      w'.net.target.ext = s0.w.net.target.ext := by
  obtain ⟨path, hpath, hpl, hden⟩ := lo_templatePath tid htid
  have hw1 : ldr_Healthy ({ s0.w with drv := s0.w.drv.nextSeq.2 } : Cli.World Ext) sess cidb conn :=
    ldr_Healthy_seq hw _ (by rw [(Cli.lcs_nextSeq s0.w.drv).2])
  have hpm : parseMR ([UInt8.ofNat 0x03] ++ path ++ lo_makeupReq) =
      some { service := 0x03, path := [PSeg.logical 0 0x6C, PSeg.logical 4 tid], data := lo_makeupReq } :=
    parseMR_msg (UInt8.ofNat 0x03) path lo_makeupReq _ hden
  have hls' := lo_logixService_templateAttrs st t tid lo_makeupReq (conn.size - 2) ht
  rw [lo_templateAttrs] at hls'
  have hlp : ldr2_LogixPath [PSeg.logical 0 0x6C, PSeg.logical 4 tid] :=
    Or.inr ⟨0x6C, tid, [], rfl, by decide, by decide, by decide, by decide, by decide⟩
  have hml : ([UInt8.ofNat 0x03] ++ path ++ lo_makeupReq).length = path.length + 11 := by
    simp [lo_makeupReq]
  obtain ⟨w', frm, hsend, hdrv, hsent, hext, hh⟩ := ldr2_sendUnit_logix ({ s0.w with drv := s0.w.drv.nextSeq.2 } : Cli.World Ext)
    sess cidb conn st s0.w.drv.nextSeq.1 ([UInt8.ofNat 0x03] ++ path ++ lo_makeupReq) _ _ hw1 hlogix hpm hlp hls'
    (ldr_nextSeq_lt s0.w.drv) (by omega) (by omega)
  generalize hdat : lo_makeupData t.defWords t.size t.members.length t.handle = dat at hsend
  have hdec : decode (.struct Gen.templateAttributesMembers) dat =
      .ok (.dict (lo_makeupDict t.defWords t.size t.members.length t.handle), []) := by
    rw [← hdat]; exact lo_decode_makeup _ _ _ _ hW hS hM hH
  obtain ⟨cmd, svc', _, hp⟩ := lo_parseCip_reply 0x03 0 sess conn.toId s0.w.drv.nextSeq.1
    s0.w.drv.nextSeq.2.context dat hw1.ctx8 (by omega)
  have hv : validCip .connected (parseCip (some (frame CMD_SEND_UNIT sess 0 s0.w.drv.nextSeq.2.context
      (cpfReplyConnected conn.toId s0.w.drv.nextSeq.1 (encMRReply 0x03 { status := 0, ext := [], data := dat })))) .connected) = true := by
    rw [hp]; exact (validCip_record _ _ _ _ _ _).2 ⟨rfl, Or.inl rfl⟩
  have hpg : parseGeneric (some (frame CMD_SEND_UNIT sess 0 s0.w.drv.nextSeq.2.context
      (cpfReplyConnected conn.toId s0.w.drv.nextSeq.1 (encMRReply 0x03 { status := 0, ext := [], data := dat }))))
      .connected (some (.struct Gen.templateAttributesMembers)) =
      (.dict (lo_makeupDict t.defWords t.size t.members.length t.handle),
       parseCip (some (frame CMD_SEND_UNIT sess 0 s0.w.drv.nextSeq.2.context
        (cpfReplyConnected conn.toId s0.w.drv.nextSeq.1 (encMRReply 0x03 { status := 0, ext := [], data := dat })))) .connected,
       true) := by
    unfold parseGeneric
    simp only [hv, if_true]
    rw [hp]
    simp only [Option.getD_some, hdec]
  have hgm := lo_genericMessage_connected hookAll 6 s0.w
    { service := 0x03, cls := .bytes [0x6c], inst := .int tid, connected := true, data := lo_makeupReq,
      dataType := some (.struct Gen.templateAttributesMembers), name := nm "_get_structure_makeup" }
    rfl hw.connected path hpath
  unfold Drv.sendUnit at hsend
  dsimp only at hsend hgm
  rw [hsend] at hgm
  dsimp only at hgm
  rw [hpg] at hgm
  dsimp only [errorCip, if_true] at hgm
  refine ⟨w', ?_, hh, hdrv, ⟨frm, hsent⟩, ?_⟩
  · unfold getStructureMakeup
    rw [hcache]
    dsimp only
    have hgm' : Cli.genericMessage hookAll Cli.FUEL s0.w
        { service := 0x03, cls := .bytes [0x6c], inst := .int tid, connected := true, data := lo_makeupReq,
          dataType := some (.struct Gen.templateAttributesMembers), name := nm "_get_structure_makeup" } = _ := hgm
    unfold lo_makeupReq at hgm'
    rw [hgm']
    rfl
  · rw [hext]
    show ({ s0.w.net.target.ext with logix := some st } : Ext) = _
    rw [← hlogix]

end Pycomm.Lgx.Opn
