/-
  C17 over histories with LogixDriver reads and writes, WITHOUT the structural hypothesis `LoopsLast`.
  Part 1: counting the sequence numbers the fragment loops draw (`slb_readFragDraws`, `slb_writeFragSegs`,
  `slb_loopDraws`), and the invariant `lcl_Mid` of LCLogix4.lean along a fragment loop that runs while packets built
  earlier are still waiting in the pool: every round of the loop makes every waiting number one draw older, so the
  bound `D` of the invariant grows by the number of rounds.
-/
import PycommProofs.LCLogix6
namespace Pycomm.Lgx.Drv
open Pycomm.Tgt Pycomm.Path Pycomm.Reply

/-! ### counting the rounds -/

/-- the number of sequence numbers the loop of `_send_read_fragmented` draws (same recursion as `readFragLoop`): one
    for every answer "more data follows" (status 6) -/
def slb_readFragDraws {σ} (hook : ObjHook σ) (req : ReadReq) : Nat → Cli.World σ → (seq offset : Nat) → Nat
  | 0, _, _, _ => 0
  | fuel + 1, w, seq, offset =>
      let (w1, r) := sendUnit hook w seq (Cl.readFragMsg req.path req.elements offset)
      match r with
      | .error _ => 0
      | .ok raw =>
          let resp := tagResp raw
          match resp.p.data with
          | none => 0
          | some d =>
              let (_, vb) := Cl.splitTyped d
              if resp.p.serviceStatus == some Gen.INSUFFICIENT_PACKETS then
                let (seq', d') := w1.drv.nextSeq
                1 + slb_readFragDraws hook req fuel { w1 with drv := d' } seq' (offset + vb.length)
              else 0

/-- the number of segments of a fragmented write on a connection of size `C`: one sequence number is drawn per
    segment (fewer when a send fails: the loop stops) -/
def slb_writeFragSegs (C : Nat) (req : WriteReq) : Nat :=
  (K.writeFragments (Cl.writeSegSize C req.path req.typeBytes) req.value).length

/-- the sequence numbers the loop of one packet draws (an upper bound for a fragmented write) -/
def slb_reqDraws {σ} (hook : ObjHook σ) (w : Cli.World σ) : Request → Nat
  | .readFrag req => slb_readFragDraws hook req FRAG_FUEL w req.seq 0
  | .writeFrag req => slb_writeFragSegs w.drv.connectionSize req
  | _ => 0

/-- some packet of the list carries a sequence number that was drawn when it was built -/
def slb_pending (rest : List Request) : Bool := !(rest.flatMap Request.lcl_seqs).isEmpty

/-- the rounds of the fragment loops of `_send_requests` that run while a packet built earlier is still waiting to be
    sent (same recursion as `sendRequests`) -/
def slb_loopDraws {σ} (hook : ObjHook σ) : Cli.World σ → Results → List Request → Nat
  | _, _, [] => 0
  | w, rs, q :: rest =>
      let here := if slb_pending rest then slb_reqDraws hook w q else 0
      match sendRequest hook w rs q with
      | (w1, .ok rs1) => here + slb_loopDraws hook w1 rs1 rest
      | (_, .error _) => here

theorem slb_pending_false (rest : List Request) (h : slb_pending rest = false) : rest.flatMap Request.lcl_seqs = [] := by
  unfold slb_pending at h
  cases hx : rest.flatMap Request.lcl_seqs with
  | nil => rfl
  | cons a b => rw [hx] at h; cases h

theorem slb_pending_true (rest : List Request) (h : slb_pending rest = true) : rest.flatMap Request.lcl_seqs ≠ [] := by
  unfold slb_pending at h
  intro hx
  rw [hx] at h
  cases h

/-! ### pools that grow older -/

theorem slb_PoolLe_age {A : Nat} {pool : List (Nat × Nat)} (h : lcl_PoolLe A pool) :
    lcl_PoolLe (A + 1) (pool.map (fun p => (p.1, p.2 + 1))) := by
  intro q hq
  obtain ⟨p, hp, rfl⟩ := List.mem_map.1 hq
  have := h p hp
  show p.2 + 1 ≤ A + 1
  omega

theorem slb_PoolLe_cons {A s : Nat} {pool : List (Nat × Nat)} (h : lcl_PoolLe (A + 1) pool) :
    lcl_PoolLe (A + 1) ((s, 1) :: pool) := by
  intro q hq
  rcases List.mem_cons.1 hq with rfl | hq
  · show 1 ≤ A + 1
    omega
  · exact h q hq

theorem slb_map_age_fst (pool : List (Nat × Nat)) :
    (pool.map (fun p => (p.1, p.2 + 1))).map (·.1) = pool.map (·.1) := by
  rw [List.map_map]
  rfl

/-! ### the loop of a fragmented read, with packets waiting -/

theorem slb_readFragLoop_mid {σ} (hook : ObjHook σ) (hh : Cli.lci_HookOk hook) (hn : Cli.lcs_HookNoSeq hook) (S : Prop)
    (req : ReadReq) (fuel : Nat) :
    ∀ (w : Cli.World σ) (seq a D A off : Nat) (acc : Bytes) (allOk : Bool) (rest : List (Nat × Nat)),
      Cli.lcl_Open S w → Cli.lcl_Mid D w ((seq, a) :: rest) → lcl_PoolLe A ((seq, a) :: rest) →
      D + slb_readFragDraws hook req fuel w seq off ≤ 65534 →
      ∃ pool', Cli.lcl_Mid (D + slb_readFragDraws hook req fuel w seq off)
          (readFragLoop hook req fuel w seq off acc allOk).1 pool' ∧
        pool'.map (·.1) = rest.map (·.1) ∧
        lcl_PoolLe (A + slb_readFragDraws hook req fuel w seq off) pool' := by
  induction fuel with
  | zero =>
    intro w seq a D A off acc allOk rest _ hm hA _
    simp only [readFragLoop, slb_readFragDraws, Nat.add_zero]
    exact ⟨rest, Cli.lcl_Mid_sub hm (List.sublist_cons_self _ _), rfl, lcl_PoolLe_sub hA (List.sublist_cons_self _ _)⟩
  | succ n ih =>
    intro w seq a D A off acc allOk rest ho hm hA hD
    generalize hk : slb_readFragDraws hook req (n + 1) w seq off = k at hD ⊢
    rw [slb_readFragDraws] at hk
    rw [readFragLoop]
    obtain ⟨m1, _⟩ := lcl_sendUnit_mid hook hh hn S D w ho seq a rest hm (Cl.readFragMsg req.path req.elements off)
    have ho1 : Cli.lcl_Open S (sendUnit hook w seq (Cl.readFragMsg req.path req.elements off)).1 :=
      Cli.lcl_Open_send hook hh ho seq _
    rcases hs : sendUnit hook w seq (Cl.readFragMsg req.path req.elements off) with ⟨w1, r⟩
    rw [hs] at m1 ho1 hk
    dsimp only at m1 ho1 hk ⊢
    have hArest : lcl_PoolLe A rest := lcl_PoolLe_sub hA (List.sublist_cons_self _ _)
    have fin : k = 0 → ∃ pool', Cli.lcl_Mid (D + k) w1 pool' ∧ pool'.map (·.1) = rest.map (·.1) ∧ lcl_PoolLe (A + k) pool' := by
      intro h0
      subst h0
      exact ⟨rest, m1, rfl, hArest⟩
    cases r with
    | error e => exact fin hk.symm
    | ok raw =>
      dsimp only at hk ⊢
      split
      · next hdat =>
        rw [hdat] at hk
        dsimp only at hk
        split <;> exact fin hk.symm
      · next d hdat =>
        rw [hdat] at hk
        dsimp only at hk
        split
        · next hst =>
          rw [if_pos hst] at hk
          subst hk
          have hD1 : D < 65534 := by omega
          have m4 := Cli.lcl_Mid_draw m1 hD1
          have ho2 := Cli.lcl_Open_next ho1
          have hA2 : lcl_PoolLe (A + 1) ((w1.drv.nextSeq.1, 1) :: rest.map (fun p => (p.1, p.2 + 1))) :=
            slb_PoolLe_cons (slb_PoolLe_age hArest)
          obtain ⟨pool', k1, k2, k3⟩ := ih _ _ 1 (D + 1) (A + 1) (off + (Cl.splitTyped d).2.length)
            (acc ++ (Cl.splitTyped d).2) (allOk && (tagResp raw).valid) _ ho2 m4 hA2 (by omega)
          refine ⟨pool', ?_, ?_, ?_⟩
          · rw [show ∀ x, D + (1 + x) = D + 1 + x from fun x => by omega]
            exact k1
          · rw [k2, slb_map_age_fst]
          · rw [show ∀ x, A + (1 + x) = A + 1 + x from fun x => by omega]
            exact k3
        · next hst =>
          rw [if_neg hst] at hk
          split
          · exact fin hk.symm
          · split
            · split <;> exact fin hk.symm
            · exact fin hk.symm

/-! ### the loop of a fragmented write, with packets waiting -/

theorem slb_writeFragSend_mid {σ} (hook : ObjHook σ) (hh : Cli.lci_HookOk hook) (hn : Cli.lcs_HookNoSeq hook) (S : Prop)
    (req : WriteReq) (segs : List (Nat × Bytes)) :
    ∀ (w : Cli.World σ) (allOk : Bool) (last : Option Resp) (D A : Nat) (pool : List (Nat × Nat)),
      Cli.lcl_Open S w → Cli.lcl_Mid D w pool → lcl_PoolLe A pool → D + segs.length ≤ 65534 →
      ∃ pool', Cli.lcl_Mid (D + segs.length) (writeFragSend hook req w segs allOk last).1 pool' ∧
        pool'.map (·.1) = pool.map (·.1) ∧ lcl_PoolLe (A + segs.length) pool' := by
  induction segs with
  | nil =>
    intro w allOk last D A pool _ hm hA _
    simp only [writeFragSend, List.length_nil, Nat.add_zero]
    exact ⟨pool, hm, rfl, hA⟩
  | cons x rest ih =>
    intro w allOk last D A pool ho hm hA hD
    obtain ⟨off, seg⟩ := x
    simp only [List.length_cons] at hD ⊢
    rw [writeFragSend]
    dsimp only
    have m0 := Cli.lcl_Mid_draw hm (by omega)
    have ho0 := Cli.lcl_Open_next ho
    obtain ⟨m1, _⟩ := lcl_sendUnit_mid hook hh hn S (D + 1) _ ho0 _ 1 _ m0
      (Cl.writeFragMsg req.path req.typeBytes req.elements off seg)
    have ho1 := Cli.lcl_Open_send hook hh ho0 w.drv.nextSeq.1 (Cl.writeFragMsg req.path req.typeBytes req.elements off seg)
    have hA1 : lcl_PoolLe (A + 1) (pool.map (fun p => (p.1, p.2 + 1))) := slb_PoolLe_age hA
    rcases hs : sendUnit hook { w with drv := w.drv.nextSeq.2 } w.drv.nextSeq.1
        (Cl.writeFragMsg req.path req.typeBytes req.elements off seg) with ⟨w1, r⟩
    rw [hs] at m1
    have ho1' : Cli.lcl_Open S w1 := by
      have : (sendUnit hook { w with drv := w.drv.nextSeq.2 } w.drv.nextSeq.1
        (Cl.writeFragMsg req.path req.typeBytes req.elements off seg)).1 = w1 := by rw [hs]
      rw [← this]; exact ho1
    dsimp only at m1 ⊢
    cases r with
    | error e =>
      exact ⟨_, Cli.lcl_Mid_mono m1 (by omega) (by omega), slb_map_age_fst pool, lcl_PoolLe_mono hA1 (by omega)⟩
    | ok raw =>
      obtain ⟨pool', k1, k2, k3⟩ := ih w1 (allOk && (tagResp raw).valid) (some (tagResp raw)) (D + 1) (A + 1) _ ho1' m1 hA1
        (by omega)
      refine ⟨pool', ?_, ?_, ?_⟩
      · rw [show D + (rest.length + 1) = D + 1 + rest.length by omega]
        exact k1
      · rw [k2, slb_map_age_fst]
      · rw [show A + (rest.length + 1) = A + 1 + rest.length by omega]
        exact k3

theorem slb_sendWriteFragmented_mid {σ} (hook : ObjHook σ) (hh : Cli.lci_HookOk hook) (hn : Cli.lcs_HookNoSeq hook)
    (S : Prop) (w : Cli.World σ) (req : WriteReq) (D A : Nat) (pool : List (Nat × Nat)) (ho : Cli.lcl_Open S w)
    (hm : Cli.lcl_Mid D w pool) (hA : lcl_PoolLe A pool)
    (hD : D + slb_writeFragSegs w.drv.connectionSize req ≤ 65534) :
    ∃ pool', Cli.lcl_Mid (D + slb_writeFragSegs w.drv.connectionSize req) (sendWriteFragmented hook w req).1 pool' ∧
      pool'.map (·.1) = pool.map (·.1) ∧ lcl_PoolLe (A + slb_writeFragSegs w.drv.connectionSize req) pool' := by
  have keep : ∃ pool', Cli.lcl_Mid (D + slb_writeFragSegs w.drv.connectionSize req) w pool' ∧
      pool'.map (·.1) = pool.map (·.1) ∧ lcl_PoolLe (A + slb_writeFragSegs w.drv.connectionSize req) pool' :=
    ⟨pool, Cli.lcl_Mid_mono hm (by omega) hD, rfl, lcl_PoolLe_mono hA (by omega)⟩
  unfold sendWriteFragmented
  dsimp only
  split
  · exact keep
  · split
    · exact keep
    · split
      · exact keep
      · obtain ⟨pool', h2, h3, h4⟩ := slb_writeFragSend_mid hook hh hn S req
          (K.writeFragments (Cl.writeSegSize w.drv.connectionSize req.path req.typeBytes) req.value) w true none D A pool
          ho hm hA hD
        rcases hw : writeFragSend hook req w
          (K.writeFragments (Cl.writeSegSize w.drv.connectionSize req.path req.typeBytes) req.value) true none with ⟨w1, r⟩
        rw [hw] at h2
        dsimp only at h2 ⊢
        cases r with
        | error e => exact ⟨pool', h2, h3, h4⟩
        | ok x =>
          obtain ⟨allOk, lastr⟩ := x
          dsimp only
          split <;> exact ⟨pool', h2, h3, h4⟩

end Pycomm.Lgx.Drv
