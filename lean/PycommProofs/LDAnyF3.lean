/-
  C13 at the driver level for ARBITRARY reply bytes, fragmented requests, part 3: `_send_write_fragmented` over a
  queue of arbitrary replies, and the iteration of `_send_requests` for a fragmented request.

    * `ldaf_segments`: the segments `_send_write_fragmented` cuts the value into; `ldaf_segments_ne_nil`;
    * `ldaf_writeFragSend_spec`: every segment is sent and consumes one reply, whatever the replies are;
      `all(responses)` is the conjunction of `is_valid()` of the replies read;
    * `ldaf_writeFragOutcome`, `ldaf_sendRequest_writeFrag`: the Tag recorded for the request — the written value
      without error when ALL replies read had OK status words, else `None` with "One or more fragment responses failed";
    * `ldaf_sendRequest_readFrag`: the iteration for a fragmented read is `ldaf_readFragOutcome` of the replies.
-/
import PycommProofs.LDAnyF2
namespace Pycomm.Lgx.Drv
open Pycomm Pycomm.Tgt Pycomm.Path Pycomm.Reply Pycomm.Encap Pycomm.RP

/-! ### the iteration of `_send_requests` for a fragmented read -/

/-- with the arbitrary replies `raws` waiting in the queue, one of which ends the loop within the fuel, the iteration of
    `_send_requests` for a Read Tag Fragmented request records `ldaf_readFragOutcome` of the replies (one frame per
    reply read), or the transport fails with CommError / DataError -/
theorem ldaf_sendRequest_readFrag {σ} (hook : ObjHook σ) (w : Cli.World σ) (rs : Results) (req : ReadReq)
    (raws : List Bytes) (rest : List (Option Bytes)) (o : Except Exn LTag)
    (hp : w.net.pending = raws.map some ++ rest) (ho : ldaf_readFragOutcome req raws = some o)
    (hfuel : (ldaf_consumed raws).length ≤ FRAG_FUEL) :
    ((sendRequest hook w rs (.readFrag req)).2 = o.map (fun t => rs.set req.rid t) ∧
      (sendRequest hook w rs (.readFrag req)).1.net.sent.length = w.net.sent.length + (ldaf_consumed raws).length) ∨
    (sendRequest hook w rs (.readFrag req)).2 = .error .comm ∨
    (sendRequest hook w rs (.readFrag req)).2 = .error .data := by
  unfold ldaf_readFragOutcome at ho
  cases hpure : ldaf_readFragPure req raws [] true with
  | none => rw [hpure] at ho; cases ho
  | some out =>
    rw [hpure] at ho
    simp only [Option.map_some, Option.some.injEq] at ho
    have hl := ldaf_readFragLoop_spec hook req raws FRAG_FUEL w req.seq 0 [] true rest out hp hpure hfuel
    unfold sendRequest
    dsimp only
    rcases hloop : readFragLoop hook req FRAG_FUEL w req.seq 0 [] true with ⟨w1, r⟩
    rw [hloop] at hl
    dsimp only at hl ⊢
    rcases hl with ⟨h1, h2⟩ | h1 | h1
    · subst h1
      left
      cases r with
      | error e => subst ho; exact ⟨rfl, h2⟩
      | ok x =>
        obtain ⟨resp, v, dt⟩ := x
        subst ho
        exact ⟨rfl, h2⟩
    · subst h1; exact .inr (.inl rfl)
    · subst h1; exact .inr (.inr rfl)

/-- … and the fuel marker comes out exactly when `FRAG_FUEL` replies in a row say "more to come" -/
theorem ldaf_sendRequest_readFrag_hang {σ} (hook : ObjHook σ) (w : Cli.World σ) (rs : Results) (req : ReadReq)
    (raws : List Bytes) (rest : List (Option Bytes))
    (hp : w.net.pending = raws.map some ++ rest) (hlen : FRAG_FUEL ≤ raws.length)
    (hall : ∀ raw ∈ raws.take FRAG_FUEL, ldaf_continues raw = true) :
    (sendRequest hook w rs (.readFrag req)).2 = .error .hang ∨
    (sendRequest hook w rs (.readFrag req)).2 = .error .comm ∨
    (sendRequest hook w rs (.readFrag req)).2 = .error .data := by
  have hl := ldaf_readFragLoop_hang hook req FRAG_FUEL raws w req.seq 0 [] true rest hp hlen hall
  unfold sendRequest
  dsimp only
  rcases hloop : readFragLoop hook req FRAG_FUEL w req.seq 0 [] true with ⟨w1, r⟩
  rw [hloop] at hl
  dsimp only at hl ⊢
  rcases hl with h1 | h1 | h1 <;> subst h1
  · exact .inl rfl
  · exact .inr (.inl rfl)
  · exact .inr (.inr rfl)

/-! ### `_send_write_fragmented` -/

/-- the (offset, segment) pairs `_send_write_fragmented` sends for `req` over a connection of size `C` -/
def ldaf_segments (C : Nat) (req : WriteReq) : List (Nat × Bytes) :=
  K.writeFragments (Cl.writeSegSize C req.path req.typeBytes) req.value

/-- the bytes a Write Tag Fragmented request carries besides the value -/
def ldaf_writeOverhead (req : WriteReq) : Nat := 2 + 1 + req.path.length + req.typeBytes.length + 2 + 4

theorem ldaf_segments_ne_nil (C : Nat) (req : WriteReq) (hv : req.value ≠ []) (hC : ldaf_writeOverhead req < C) :
    ldaf_segments C req ≠ [] := by
  unfold ldaf_segments K.writeFragments Cl.writeSegSize
  unfold ldaf_writeOverhead at hC
  rw [if_neg (by omega)]
  rw [K.writeSegments]
  have hl : 0 < req.value.length := List.length_pos_iff.2 hv
  rw [if_neg (by omega)]
  simp

/-- `all(responses)` over the replies read -/
def ldaf_allValid (raws : List Bytes) : Bool := raws.all fun r => (tagResp (some r)).valid

theorem ldaf_allValid_iff (raws : List Bytes) : ldaf_allValid raws = true ↔ ∀ raw ∈ raws, StatusWordsOk .connected raw := by
  unfold ldaf_allValid
  rw [List.all_eq_true]
  exact ⟨fun h r hr => (valid_iff .connected r).1 (h r hr), fun h r hr => (valid_iff .connected r).2 (h r hr)⟩

/-- `responses[-1]` -/
def ldaf_lastResp (raws : List Bytes) (last : Option Resp) : Option Resp :=
  match raws.getLast? with
  | some r => some (tagResp (some r))
  | none => last

/-- the loop of `_send_write_fragmented` over a queue that starts with the arbitrary replies `raws`, at least one per
    segment: EVERY segment is sent (one frame each), each consumes one reply; or the transport fails -/
theorem ldaf_writeFragSend_spec {σ} (hook : ObjHook σ) (req : WriteReq) : ∀ (segs : List (Nat × Bytes)) (raws : List Bytes)
    (w : Cli.World σ) (allOk : Bool) (last : Option Resp) (rest : List (Option Bytes)),
    w.net.pending = raws.map some ++ rest → segs.length ≤ raws.length →
    ((writeFragSend hook req w segs allOk last).2 =
        .ok (allOk && ldaf_allValid (raws.take segs.length), ldaf_lastResp (raws.take segs.length) last) ∧
      (writeFragSend hook req w segs allOk last).1.net.sent.length = w.net.sent.length + segs.length) ∨
    (writeFragSend hook req w segs allOk last).2 = .error .comm ∨
    (writeFragSend hook req w segs allOk last).2 = .error .data := by
  intro segs
  induction segs with
  | nil =>
    intro raws w allOk last rest _ _
    left
    rw [writeFragSend]
    simp [ldaf_allValid, ldaf_lastResp]
  | cons sg more_segs ih =>
    intro raws w allOk last rest hp hlen
    obtain ⟨off, seg⟩ := sg
    cases raws with
    | nil => simp at hlen
    | cons raw more =>
      rw [ldaf_queue_cons] at hp
      rw [writeFragSend]
      dsimp only
      have hp1 : ({ w with drv := w.drv.nextSeq.2 } : Cli.World σ).net.pending = some raw :: (more.map some ++ rest) := hp
      have hq := ldaf_sendUnit_queue hook { w with drv := w.drv.nextSeq.2 } w.drv.nextSeq.1
        (Cl.writeFragMsg req.path req.typeBytes req.elements off seg) raw _ hp1
      rcases hs : sendUnit hook { w with drv := w.drv.nextSeq.2 } w.drv.nextSeq.1
        (Cl.writeFragMsg req.path req.typeBytes req.elements off seg) with ⟨w1, r⟩
      rw [hs] at hq
      dsimp only at hq ⊢
      rcases hq with h | h | ⟨h1, _, ⟨x, hx⟩, hsent⟩
      · subst h; exact .inr (.inl rfl)
      · subst h; exact .inr (.inr rfl)
      · subst h1
        dsimp only
        have hp2 : w1.net.pending = more.map some ++ (rest ++ [x]) := by rw [hx, List.append_assoc]
        have hl2 : more_segs.length ≤ more.length := by simpa using hlen
        rcases ih more w1 (allOk && (tagResp (some raw)).valid) (some (tagResp (some raw))) (rest ++ [x]) hp2 hl2 with
          ⟨h2, h3⟩ | h2 | h2
        · left
          refine ⟨?_, ?_⟩
          · rw [h2, List.length_cons, List.take_succ_cons]
            have e1 : ldaf_allValid (raw :: more.take more_segs.length) =
                ((tagResp (some raw)).valid && ldaf_allValid (more.take more_segs.length)) := by
              simp [ldaf_allValid]
            have e2 : ldaf_lastResp (raw :: more.take more_segs.length) last =
                ldaf_lastResp (more.take more_segs.length) (some (tagResp (some raw))) := by
              unfold ldaf_lastResp
              cases more.take more_segs.length with
              | nil => rfl
              | cons c cs =>
                rw [List.getLast?_cons_cons, List.getLast?_eq_some_getLast (l := c :: cs) (by simp)]
            rw [e1, e2, Bool.and_assoc]
          · rw [h3, List.length_cons]
            show w1.net.sent.length + _ = w.net.sent.length + _
            have : ({ w with drv := w.drv.nextSeq.2 } : Cli.World σ).net.sent.length = w.net.sent.length := rfl
            omega
        · exact .inr (.inl h2)
        · exact .inr (.inr h2)

/-- the Tag `_send_requests` records for a fragmented write whose segments were answered by `raws` -/
def ldaf_writeFragOutcome (tag : Name) (value : PyVal) (dtn : Name) (raws : List Bytes) : LTag :=
  if ldaf_allValid raws then { tag := tag, value := value, type := some dtn, error := none }
  else { tag := tag, value := .none, type := none, error := some ldaf_fragFailed }

theorem ldaf_lastResp_valid (raws : List Bytes) (hne : raws ≠ []) (hall : ldaf_allValid raws = true) :
    ∃ resp, ldaf_lastResp raws none = some resp ∧ resp.valid = true := by
  unfold ldaf_lastResp
  cases hl : raws.getLast? with
  | none => exact absurd (List.getLast?_eq_none_iff.1 hl) hne
  | some r =>
    refine ⟨_, rfl, ?_⟩
    unfold ldaf_allValid at hall
    rw [List.all_eq_true] at hall
    exact hall r (List.mem_of_getLast? hl)

/-- `_send_write_fragmented` over a queue that starts with arbitrary replies, at least one per segment (non-empty value, a
    connection that leaves room for at least one value byte per segment): every segment is sent, and `writeTag` of the
    response handed back is `ldaf_writeFragOutcome` of the replies read; or the transport fails -/
theorem ldaf_sendWriteFragmented_spec {σ} (hook : ObjHook σ) (w : Cli.World σ) (req : WriteReq)
    (raws : List Bytes) (rest : List (Option Bytes)) (tag : Name) (value : PyVal) (dtn : Name)
    (hp : w.net.pending = raws.map some ++ rest) (hv : req.value ≠ [])
    (hC : ldaf_writeOverhead req < w.drv.connectionSize)
    (hlen : (ldaf_segments w.drv.connectionSize req).length ≤ raws.length) :
    (∃ resp, (sendWriteFragmented hook w req).2 = .ok resp ∧
      writeTag tag value dtn resp =
        .ok (ldaf_writeFragOutcome tag value dtn (raws.take (ldaf_segments w.drv.connectionSize req).length)) ∧
      (sendWriteFragmented hook w req).1.net.sent.length =
        w.net.sent.length + (ldaf_segments w.drv.connectionSize req).length) ∨
    (sendWriteFragmented hook w req).2 = .error .comm ∨
    (sendWriteFragmented hook w req).2 = .error .data := by
  have hne := ldaf_segments_ne_nil w.drv.connectionSize req hv hC
  have hspec := ldaf_writeFragSend_spec hook req (ldaf_segments w.drv.connectionSize req) raws w true none rest hp hlen
  have hvE : req.value.isEmpty = false := by
    cases hval : req.value with
    | nil => exact absurd hval hv
    | cons _ _ => rfl
  have htake : raws.take (ldaf_segments w.drv.connectionSize req).length ≠ [] := by
    intro h0
    have := congrArg List.length h0
    rw [List.length_take, List.length_nil] at this
    have hpos : 0 < (ldaf_segments w.drv.connectionSize req).length := List.length_pos_iff.2 hne
    omega
  unfold ldaf_writeOverhead at hC
  unfold sendWriteFragmented
  dsimp only
  rw [hvE]
  simp only [Bool.false_eq_true, if_false]
  rw [if_neg (by omega), if_neg (by omega)]
  rw [show K.writeFragments (Cl.writeSegSize w.drv.connectionSize req.path req.typeBytes) req.value =
    ldaf_segments w.drv.connectionSize req from rfl]
  rcases hsend : writeFragSend hook req w (ldaf_segments w.drv.connectionSize req) true none with ⟨w1, r⟩
  rw [hsend] at hspec
  dsimp only at hspec ⊢
  rcases hspec with ⟨h1, h2⟩ | h1 | h1
  · subst h1
    left
    dsimp only
    rw [Bool.true_and]
    unfold ldaf_writeFragOutcome
    cases hall : ldaf_allValid (raws.take (ldaf_segments w.drv.connectionSize req).length) with
    | true =>
      obtain ⟨resp, hl, hvalid⟩ := ldaf_lastResp_valid _ htake hall
      rw [hl]
      refine ⟨resp, rfl, ?_, h2⟩
      unfold writeTag
      rw [lda_resp_error_valid resp hvalid]
      dsimp only
      rw [hvalid]
      rfl
    | false =>
      refine ⟨failedResp "One or more fragment responses failed", ?_, ?_, ?_⟩
      · cases ldaf_lastResp (raws.take (ldaf_segments w.drv.connectionSize req).length) none <;> rfl
      · unfold writeTag
        rw [ldaf_failedResp_error]
        rfl
      · cases ldaf_lastResp (raws.take (ldaf_segments w.drv.connectionSize req).length) none <;> exact h2
  · subst h1; exact .inr (.inl rfl)
  · subst h1; exact .inr (.inr rfl)

/-- with arbitrary replies waiting in the queue, at least one per segment, the iteration of `_send_requests` for a Write
    Tag Fragmented request (non-empty value, a connection that leaves room for at least one value byte per segment)
    sends EVERY segment — one frame each, whatever the replies are — and records `ldaf_writeFragOutcome` of the
    replies read; or the transport fails with CommError / DataError -/
theorem ldaf_sendRequest_writeFrag {σ} (hook : ObjHook σ) (w : Cli.World σ) (rs : Results) (req : WriteReq)
    (raws : List Bytes) (rest : List (Option Bytes))
    (hp : w.net.pending = raws.map some ++ rest) (hv : req.value ≠ [])
    (hC : ldaf_writeOverhead req < w.drv.connectionSize)
    (hlen : (ldaf_segments w.drv.connectionSize req).length ≤ raws.length) :
    ((sendRequest hook w rs (.writeFrag req)).2 =
        .ok (rs.set req.rid (ldaf_writeFragOutcome req.tag (.bytes req.value) req.info.core.dataTypeName
          (raws.take (ldaf_segments w.drv.connectionSize req).length))) ∧
      (sendRequest hook w rs (.writeFrag req)).1.net.sent.length =
        w.net.sent.length + (ldaf_segments w.drv.connectionSize req).length) ∨
    (sendRequest hook w rs (.writeFrag req)).2 = .error .comm ∨
    (sendRequest hook w rs (.writeFrag req)).2 = .error .data := by
  have hspec := ldaf_sendWriteFragmented_spec hook w req raws rest req.tag (.bytes req.value) req.info.core.dataTypeName
    hp hv hC hlen
  unfold sendRequest
  dsimp only
  rcases hsend : sendWriteFragmented hook w req with ⟨w1, r⟩
  rw [hsend] at hspec
  dsimp only at hspec ⊢
  rcases hspec with ⟨resp, h1, h2, h3⟩ | h1 | h1
  · subst h1
    left
    dsimp only
    rw [h2]
    exact ⟨rfl, h3⟩
  · subst h1; exact .inr (.inl rfl)
  · subst h1; exact .inr (.inr rfl)

/-- the Tag of a fragmented write is a good table entry for the claim "all replies read have OK status words" -/
theorem ldaf_writeFragOutcome_good (tag : Name) (value : PyVal) (dtn : Name) (raws : List Bytes) :
    lda_GoodEntryW (∀ raw ∈ raws, StatusWordsOk .connected raw) (ldaf_writeFragOutcome tag value dtn raws) := by
  unfold ldaf_writeFragOutcome
  cases h : ldaf_allValid raws with
  | true => exact .inl ⟨rfl, (ldaf_allValid_iff raws).1 h⟩
  | false => exact .inr ⟨_, rfl, ldaf_fragFailed_text⟩

end Pycomm.Lgx.Drv
