/-
  LogixDriver.read of ANY number of one-element requests in one call — driver side, lists:
  `_parse_requested_tags`, `_read_build_multi_requests` (first loop, grouping by `K.plan`, sequence numbers of the
  multi-service packets), the results table and the result loop.

  Every request is described by an entry `ldrn_Ent` (request string, tag-database entry, request path, the
  controller's answer, the Tag recorded for it); `ldrn_EntOk` collects what the layers need to know about one entry.
-/
import PycommProofs.LDFailMixed
import PycommProofs.LDMultiEncap
namespace Pycomm.Lgx.Drv
open Pycomm Pycomm.Tgt Pycomm.Path Pycomm.Reply Pycomm.Encap Pycomm.Lgx Pycomm.Lgx.E2E

/-- one request of the call, with what the layers compute for it -/
structure ldrn_Ent where
  /-- the request string (also `plc_tag` and `user_tag`) -/
  tag : Name
  /-- the tag-database entry -/
  info : TagInfo
  /-- the request path bytes -/
  path : Bytes
  /-- what the controller's parser reads them as -/
  segs : List PSeg
  /-- the controller's answer to the embedded Read Tag request -/
  reply : MRReply
  /-- by how much the answer advances the controller's schedule counter -/
  adv : Nat
  /-- the Tag `_send_requests` records (and `read` returns) for the request -/
  res : LTag

/-- the driver after `n` sequence numbers were drawn -/
def ldrn_adv : Nat → Cli.Drv → Cli.Drv
  | 0, d => d
  | n + 1, d => ldrn_adv n d.nextSeq.2

theorem ldrn_adv_succ (n : Nat) (d : Cli.Drv) : ldrn_adv (n + 1) d = (ldrn_adv n d).nextSeq.2 := by
  induction n generalizing d with
  | zero => rfl
  | succ n ih => rw [ldrn_adv, ih d.nextSeq.2]; rfl

theorem ldrn_adv_add (a b : Nat) (d : Cli.Drv) : ldrn_adv (a + b) d = ldrn_adv b (ldrn_adv a d) := by
  induction a generalizing d with
  | zero => simp [ldrn_adv]
  | succ a ih => rw [Nat.succ_add, ldrn_adv, ih]; rfl

/-- drawing sequence numbers changes nothing but the counter -/
theorem ldrn_adv_eq (n : Nat) (d : Cli.Drv) : ldrn_adv n d = { d with seqVal := (ldrn_adv n d).seqVal } := by
  induction n generalizing d with
  | zero => rfl
  | succ n ih =>
    rw [ldrn_adv, ih d.nextSeq.2, (Cli.lcs_nextSeq d).2]

theorem ldrn_adv_connectionSize (n : Nat) (d : Cli.Drv) : (ldrn_adv n d).connectionSize = d.connectionSize := by
  rw [ldrn_adv_eq]

/-- the parsed requests of the entries, request ids from `k` -/
def ldrn_parsed : Nat → List ldrn_Ent → List Parsed
  | _, [] => []
  | k, e :: es => ldr2_parsedAt k e.tag e.info :: ldrn_parsed (k + 1) es

theorem ldrn_parsed_length (k : Nat) (es : List ldrn_Ent) : (ldrn_parsed k es).length = es.length := by
  induction es generalizing k with
  | nil => rfl
  | cons e es ih => simp [ldrn_parsed, ih]

/-- the Read Tag packets built for them: one sequence number each, request ids from `k` -/
def ldrn_reqs : Cli.Drv → Nat → List ldrn_Ent → List ReadReq
  | _, _, [] => []
  | d, k, e :: es =>
      { seq := d.nextSeq.1, tag := e.tag, elements := 1, info := e.info, rid := k, path := e.path } ::
        ldrn_reqs d.nextSeq.2 (k + 1) es

theorem ldrn_reqs_length (d : Cli.Drv) (k : Nat) (es : List ldrn_Ent) : (ldrn_reqs d k es).length = es.length := by
  induction es generalizing d k with
  | nil => rfl
  | cons e es ih => simp [ldrn_reqs, ih]

/-! ### (a) parsing -/

theorem ldrn_parse_aux (db : TagDb) (es : List ldrn_Ent)
    (h : ∀ e ∈ es, ∀ rid, parseTagRequest db false rid e.tag = ldr2_parsedAt rid e.tag e.info) (k : Nat) :
    ((List.range' k es.length).zip (es.map (·.tag))).map (fun x => parseTagRequest db false x.1 x.2) = ldrn_parsed k es := by
  induction es generalizing k with
  | nil => rfl
  | cons e es ih =>
    rw [List.length_cons, List.range'_succ, List.map_cons, List.zip_cons_cons, List.map_cons, ldrn_parsed,
      ih (fun e' he' => h e' (List.mem_cons_of_mem _ he')) (k + 1), h e List.mem_cons_self k]

/-- (a) `_parse_requested_tags` of the request strings: the i-th request gets request id i -/
theorem ldrn_parse (db : TagDb) (es : List ldrn_Ent)
    (h : ∀ e ∈ es, ∀ rid, parseTagRequest db false rid e.tag = ldr2_parsedAt rid e.tag e.info) :
    parseRequestedTags db false (es.map (·.tag)) = ldrn_parsed 0 es := by
  unfold parseRequestedTags
  rw [List.length_map, List.range_eq_range']
  exact ldrn_parse_aux db es h 0

/-! ### (b) the first loop of `_read_build_multi_requests` -/

/-- the driver's estimate for a built one-element request -/
def ldrn_est (r : ReadReq) : Nat := ldr2_estimate r.info r.path

theorem ldrn_buildLive (cfg : Cfg) (C : Nat) (es : List ldrn_Ent) (d : Cli.Drv) (k : Nat)
    (hp : ∀ e ∈ es, requestPathOf cfg e.tag e.info = .ok e.path)
    (hf : ∀ e ∈ es, ldr2_estimate e.info e.path + K.OVERHEAD ≤ C) :
    readBuildLive cfg C true d (ldrn_parsed k es) =
      (ldrn_adv es.length d, .ok ((ldrn_reqs d k es).map fun r => (r, ldrn_est r, false))) := by
  induction es generalizing d k with
  | nil => rfl
  | cons e es ih =>
    have hpe := hp e List.mem_cons_self
    have hfe : ¬ (tagReturnSize e.info 1 + (2 + (Cl.readMsg e.path 1).length) + 2 + K.OVERHEAD > C) := by
      have := hf e List.mem_cons_self
      unfold ldr2_estimate at this
      omega
    have hel : elementsNat 1 = .ok 1 := rfl
    have ih' := ih d.nextSeq.2 (k + 1) (fun e' he' => hp e' (List.mem_cons_of_mem _ he'))
      (fun e' he' => hf e' (List.mem_cons_of_mem _ he'))
    rw [ldrn_parsed, readBuildLive]
    simp only [ldr2_parsedAt, mkReadReq, hpe, hel, ReadReq.returnSize, ReadReq.messageLen, hfe, decide_false,
      Bool.false_eq_true, if_false, if_true]
    rw [ih']
    simp only [Except.map, ldrn_reqs, List.map_cons, List.length_cons, ldrn_adv, ldrn_est, ldr2_estimate]

/-! ### (b) the grouping -/

/-- the items the grouping loop sees -/
def ldrn_kitems (rs : List ReadReq) : List K.Item :=
  rs.map fun r => { id := r.rid, error := false, size := ldrn_est r }

/-- the groups of requests `_read_build_multi_requests` forms -/
def ldrn_groups (C : Nat) (rs : List ReadReq) : List (List ReadReq) :=
  (K.plan C (ldrn_kitems rs)).groups.map fun g => g.filterMap fun id => rs.find? (·.rid == id)

/-- the multi-service packets over the groups: one sequence number each -/
def ldrn_seqd : Cli.Drv → List (List ReadReq) → List Request
  | _, [] => []
  | d, g :: gs => .multiRead d.nextSeq.1 g :: ldrn_seqd d.nextSeq.2 gs

theorem ldrn_drawSeqs (d : Cli.Drv) (gs : List (List ReadReq)) :
    (drawSeqs d gs).1 = ldrn_adv gs.length d ∧
    (drawSeqs d gs).2.map (fun m => Request.multiRead m.1 m.2) = ldrn_seqd d gs := by
  induction gs generalizing d with
  | nil => exact ⟨rfl, rfl⟩
  | cons g gs ih =>
    obtain ⟨h1, h2⟩ := ih d.nextSeq.2
    refine ⟨?_, ?_⟩
    · simp only [drawSeqs, List.length_cons, ldrn_adv]; exact h1
    · simp only [drawSeqs, List.map_cons, ldrn_seqd]; rw [h2]

/-- (b) `_read_build_requests` for any number (≠ 1) of error-free one-element requests none of which needs the
    fragmented service: one sequence number per request, then one per multi-service packet -/
theorem ldrn_build (cfg : Cfg) (d : Cli.Drv) (es : List ldrn_Ent) (hmicro : cfg.micro800 = false)
    (hlen : es.length ≠ 1)
    (hp : ∀ e ∈ es, requestPathOf cfg e.tag e.info = .ok e.path)
    (hf : ∀ e ∈ es, ldr2_estimate e.info e.path + K.OVERHEAD ≤ d.connectionSize) :
    readBuildRequests cfg d (ldrn_parsed 0 es) =
      (ldrn_adv (ldrn_groups d.connectionSize (ldrn_reqs d 0 es)).length (ldrn_adv es.length d),
       .ok (ldrn_seqd (ldrn_adv es.length d) (ldrn_groups d.connectionSize (ldrn_reqs d 0 es)))) := by
  have hfind : ∀ (rs : List ReadReq) (id : Nat),
      ((rs.map fun r => (r, ldrn_est r, false)).find? (fun x => x.1.rid == id)).map (·.1) = rs.find? (·.rid == id) := by
    intro rs id
    induction rs with
    | nil => rfl
    | cons r rs ih =>
      rw [List.map_cons, List.find?_cons, List.find?_cons]
      cases h : (r.rid == id) with
      | true => rfl
      | false => exact ih
  have hfrag : ∀ (rs : List ReadReq), (rs.map fun r => (r, ldrn_est r, false)).filter (·.2.2) = [] := by
    intro rs
    rw [List.filter_eq_nil_iff]
    intro x hx
    obtain ⟨r, _, rfl⟩ := List.mem_map.1 hx
    simp
  unfold readBuildRequests
  rw [ldrn_parsed_length, if_pos ⟨hlen, by rw [hmicro]; rfl⟩]
  simp only [ldrn_buildLive cfg d.connectionSize es d 0 hp hf, hfrag, List.map_nil, List.append_nil, List.map_map]
  have hitems : (ldrn_reqs d 0 es).map ((fun x : ReadReq × Nat × Bool => ({ id := x.1.rid, error := false, size := x.2.1 } : K.Item)) ∘
      fun r => (r, ldrn_est r, false)) = ldrn_kitems (ldrn_reqs d 0 es) := rfl
  rw [hitems]
  have hgroups : (K.plan d.connectionSize (ldrn_kitems (ldrn_reqs d 0 es))).groups.map (fun g => g.filterMap fun id =>
      (((ldrn_reqs d 0 es).map fun r => (r, ldrn_est r, false)).find? (fun x => x.1.rid == id)).map (·.1)) =
      ldrn_groups d.connectionSize (ldrn_reqs d 0 es) := by
    unfold ldrn_groups
    apply List.map_congr_left
    intro g _
    have : (fun id => (((ldrn_reqs d 0 es).map fun r => (r, ldrn_est r, false)).find? (fun x => x.1.rid == id)).map (·.1)) =
        (fun id => (ldrn_reqs d 0 es).find? (·.rid == id)) := funext (hfind _)
    rw [this]
  rw [hgroups]
  obtain ⟨h1, h2⟩ := ldrn_drawSeqs (ldrn_adv es.length d) (ldrn_groups d.connectionSize (ldrn_reqs d 0 es))
  rw [← h1, ← h2]

end Pycomm.Lgx.Drv
