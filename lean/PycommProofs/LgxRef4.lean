/-
  Refinement of histories of `LogixDriver.read` / `LogixDriver.write`: stability of the per-request hypotheses, kind by
  kind (`lgrf_*_stable`), composed (`lgrf_atR_stable`, `lgrf_atW_stable`), the shape kept by a write call
  (`lgrf_same_applyAll`) and the domain of a whole history from hypotheses on the INITIAL memory only
  (`lgrf_opsOk_of_base`).
-/
import PycommProofs.LgxRef3
namespace Pycomm.Lgx.Drv
open Pycomm Pycomm.Tgt Pycomm.Path Pycomm.Reply Pycomm.Encap Pycomm.Lgx Pycomm.Lgx.E2E

/-! ### read requests -/

theorem lgrf_scalar_stable (cfg : Cfg) (p p' : Project) (x : ldrn_Scalar) (h : ldrn_ScalarOk cfg { proj := p } x)
    (hs : lgrf_Same p p') : ldrn_ScalarOk cfg { proj := p' } (lgrf_scalarAt p' x) := by
  obtain ⟨⟨m, un, ui⟩, hl⟩ := lgrf_symAt_same p p' x.s ⟨h.mem, h.uniqN, h.uniqI⟩ hs
  obtain ⟨haty, _⟩ := ldr_atomic_table x.c x.sz x.name x.t h.atomic h.notBits h.size
  have hdec := lgrf_decAt_spec x.t (lgrf_memAt p' x.s)
    (lgrf_decode_total x.c x.sz x.t haty h.notBits h.size _ (by rw [hl, h.memLen]; exact Nat.le_refl _))
  exact ⟨m, un, ui, h.ident, h.inst32, h.ty, h.atomic, h.notBits, h.size, hl.trans h.memLen, h.get, h.infoOf, hdec⟩

theorem lgrf_el_stable (cfg : Cfg) (p p' : Project) (x : ldmx_El) (h : ldmx_ElOk cfg { proj := p } x)
    (hs : lgrf_Same p p') : ldmx_ElOk cfg { proj := p' } (lgrf_elAt p' x) := by
  obtain ⟨⟨m, un, ui⟩, hl⟩ := lgrf_symAt_same p p' x.s ⟨h.mem, h.uniqN, h.uniqI⟩ hs
  obtain ⟨haty, _⟩ := ldr_atomic_table x.c x.sz x.name x.t h.atomic h.notBits h.size
  have hlen : (lgrf_memAt p' x.s).length = x.dim * x.sz := hl.trans h.memLen
  have hin : (x.i + 1) * x.sz ≤ x.dim * x.sz := Nat.mul_le_mul_right _ h.inside
  have hdec := lgrf_decAt_spec x.t ((lgrf_memAt p' x.s).drop (x.i * x.sz))
    (lgrf_decode_total x.c x.sz x.t haty h.notBits h.size _ (by
      rw [List.length_drop, hlen]; rw [Nat.add_mul, Nat.one_mul] at hin; omega))
  exact ⟨m, un, ui, h.ident, h.inst32, h.ty, h.atomic, h.notBits, h.size, h.dims, hlen, h.get, h.infoOf, h.inside, h.i32,
    hdec⟩

theorem lgrf_slice_stable (cfg : Cfg) (p p' : Project) (x : ldmx_Slice) (h : ldmx_SliceOk cfg { proj := p } x)
    (hs : lgrf_Same p p') : ldmx_SliceOk cfg { proj := p' } (lgrf_sliceAt p' x) := by
  obtain ⟨⟨m, un, ui⟩, hl⟩ := lgrf_symAt_same p p' x.s ⟨h.mem, h.uniqN, h.uniqI⟩ hs
  obtain ⟨haty, _⟩ := ldr_atomic_table x.c x.sz x.name x.t h.atomic h.notBits h.size
  have hlen : (lgrf_memAt p' x.s).length = x.dim * x.sz := hl.trans h.memLen
  have hvl : (lgrf_sliceAt p' x).vs.length = x.n := by simp [lgrf_sliceAt]
  refine ⟨m, un, ui, h.ident, h.inst32, h.ty, h.atomic, h.notBits, h.size, h.dims, hlen, h.get, h.infoOf, h.start0, h.i32,
    h.n1, h.n16, h.inside, hvl, ?_⟩
  intro k hk
  have hkn : k < x.n := by rw [hvl] at hk; exact hk
  have hin : (x.i + k + 1) * x.sz ≤ x.dim * x.sz := Nat.mul_le_mul_right _ (by have := h.inside; omega)
  have hdec := lgrf_decAt_spec x.t ((lgrf_memAt p' x.s).drop ((x.i + k) * x.sz))
    (lgrf_decode_total x.c x.sz x.t haty h.notBits h.size _ (by
      rw [List.length_drop, hlen]; rw [Nat.add_mul _ 1, Nat.one_mul] at hin; omega))
  have hv : (lgrf_sliceAt p' x).vs[k] = (lgrf_decAt x.t ((lgrf_memAt p' x.s).drop ((x.i + k) * x.sz))).1 := by
    simp [lgrf_sliceAt]
  refine ⟨(lgrf_decAt x.t ((lgrf_memAt p' x.s).drop ((x.i + k) * x.sz))).2, ?_⟩
  rw [hv]
  exact hdec

theorem lgrf_bit_stable (cfg : Cfg) (p p' : Project) (x : ldmx_Bit) (h : ldmx_BitOk cfg { proj := p } x)
    (hs : lgrf_Same p p') : ldmx_BitOk cfg { proj := p' } { x with s := lgrf_symAt p' x.s } := by
  obtain ⟨⟨m, un, ui⟩, hl⟩ := lgrf_symAt_same p p' x.s ⟨h.mem, h.uniqN, h.uniqI⟩ hs
  exact ⟨m, un, ui, h.ident, h.inst32, h.ty, h.atomic, h.size, hl.trans h.memLen, h.get, h.infoOf, h.bit⟩

theorem lgrf_boolEl_stable (cfg : Cfg) (p p' : Project) (x : ldmx_BoolEl) (h : ldmx_BoolElOk cfg { proj := p } x)
    (hs : lgrf_Same p p') : ldmx_BoolElOk cfg { proj := p' } { x with s := lgrf_symAt p' x.s } := by
  obtain ⟨⟨m, un, ui⟩, hl⟩ := lgrf_symAt_same p p' x.s ⟨h.mem, h.uniqN, h.uniqI⟩ hs
  exact ⟨m, un, ui, h.ident, h.inst32, h.ty, h.dims, hl.trans h.memLen, h.get, h.infoOf, h.inside, h.words16⟩

theorem lgrf_member_stable (cfg : Cfg) (p p' : Project) (x : ldmx_Member) (h : ldmx_MemberOk cfg { proj := p } x)
    (hs : lgrf_Same p p') : ldmx_MemberOk cfg { proj := p' } (lgrf_memberAt p' x) := by
  obtain ⟨⟨m, un, ui⟩, hl⟩ := lgrf_symAt_same p p' x.s ⟨h.mem, h.uniqN, h.uniqI⟩ hs
  obtain ⟨haty, _⟩ := ldr_atomic_table x.c x.sz x.name x.t h.atomic h.notBits h.size
  have hin : x.off + x.sz ≤ (lgrf_memAt p' x.s).length := by rw [hl]; exact h.inside
  have hdec := lgrf_decAt_spec x.t ((lgrf_memAt p' x.s).drop x.off)
    (lgrf_decode_total x.c x.sz x.t haty h.notBits h.size _ (by rw [List.length_drop]; omega))
  exact ⟨m, un, ui, h.level0, h.ty, (lgrf_same_template p p' hs x.tid0).trans h.tmpl, h.idxOk, h.ne,
    ldwx_chain_congr p p' hs.templates _ _ _ h.chain, h.levels, h.notNum, h.pathSize, h.atomic, h.notBits, h.size, hin, h.get,
    h.kind, h.infoPath, h.leafOf, hdec⟩

theorem lgrf_boolMember_stable (cfg : Cfg) (p p' : Project) (x : ldmx_BoolMember)
    (h : ldmx_BoolMemberOk cfg { proj := p } x) (hs : lgrf_Same p p') :
    ldmx_BoolMemberOk cfg { proj := p' } { x with s := lgrf_symAt p' x.s } := by
  obtain ⟨⟨m, un, ui⟩, hl⟩ := lgrf_symAt_same p p' x.s ⟨h.mem, h.uniqN, h.uniqI⟩ hs
  have hin : x.off < (lgrf_memAt p' x.s).length := by rw [hl]; exact h.inside
  exact ⟨m, un, ui, h.level0, h.ty, (lgrf_same_template p p' hs x.tid0).trans h.tmpl, h.idxOk,
    ldwx_chain_congr p p' hs.templates _ _ _ h.chain, (lgrf_same_template p p' hs x.tidL).trans h.tmplL, h.levels, h.mbMem,
    h.mbBytes, h.mbUniq, h.mbIdent, h.mbNotNum, h.mbTy, h.pathSize, hin, h.get, h.kind, h.infoPath, h.leafOf⟩

theorem lgrf_str_stable (cfg : Cfg) (p p' : Project) (x : ldmx_Str) (h : ldmx_StrOk cfg { proj := p } x)
    (hs : lgrf_Same p p') : ldmx_StrOk cfg { proj := p' } { x with s := lgrf_symAt p' x.s } := by
  obtain ⟨⟨m, un, ui⟩, hl⟩ := lgrf_symAt_same p p' x.s ⟨h.mem, h.uniqN, h.uniqI⟩ hs
  exact ⟨m, un, ui, h.ident, h.inst32, h.ty, (lgrf_same_template p p' hs x.tid).trans h.tmpl, hl.trans h.memLen, h.tmSize,
    h.cap1, h.get, h.structOf, h.notDword, h.sizeLe⟩

/-- a whole flat structure: the codec must decode the new memory to a dict with the visible attributes as keys (for
    the other kinds nothing of this sort is needed: elementary values always decode) -/
theorem lgrf_struct_stable (cfg : Cfg) (p p' : Project) (x : ldmx_Struct) (h : ldmx_StructOk cfg { proj := p } x)
    (hs : lgrf_Same p p')
    (hdec : ∃ kvs r, decode (.structTag x.ms x.bits x.priv x.size) (lgrf_memAt p' x.s) = .ok (.dict kvs, r) ∧
      kvs.map (·.1) = x.si.attributes) :
    ldmx_StructOk cfg { proj := p' } (lgrf_structAt p' x) := by
  obtain ⟨⟨m, un, ui⟩, hl⟩ := lgrf_symAt_same p p' x.s ⟨h.mem, h.uniqN, h.uniqI⟩ hs
  obtain ⟨kvs, r, hd, hk⟩ := hdec
  have e : lgrf_dictAt (.structTag x.ms x.bits x.priv x.size) (lgrf_memAt p' x.s) = (kvs, r) := by
    unfold lgrf_dictAt; rw [hd]
  refine ⟨m, un, ui, h.ident, h.inst32, h.ty, (lgrf_same_template p p' hs x.tid).trans h.tmpl, hl.trans h.memLen, h.pos,
    h.get, h.structOf, h.notDword, h.sizeLe, ?_, ?_, h.nodup⟩
  · show decode _ (lgrf_memAt p' x.s) = .ok (.dict (lgrf_dictAt _ (lgrf_memAt p' x.s)).1, (lgrf_dictAt _ (lgrf_memAt p' x.s)).2)
    rw [e]; exact hd
  · show (lgrf_dictAt _ (lgrf_memAt p' x.s)).1.map (·.1) = _
    rw [e]; exact hk

theorem lgrf_prog_stable (cfg : Cfg) (p p' : Project) (x : ldmx_Prog) (h : ldmx_ProgOk cfg { proj := p } x)
    (hs : lgrf_Same p p') : ldmx_ProgOk cfg { proj := p' } x := by
  have hp : p'.programs = p.programs := hs.programs
  exact ⟨h.progIdent, h.progLen, by show _ ∈ p'.programs; rw [hp]; exact h.prog,
    by intro pr hpr; exact h.progU pr (by show pr ∈ p.programs; rw [← hp]; exact hpr), h.mem, h.bytes, h.uniqN, h.uniqI,
    h.ident, h.ty, h.atomic, h.notBits, h.size, h.memLen, h.get, h.infoOf, h.dec⟩

theorem lgrf_oob_stable (cfg : Cfg) (p p' : Project) (y : ldrn_Elem) (h : ldrn_ElemOob cfg { proj := p } y)
    (hs : lgrf_Same p p') : ldrn_ElemOob cfg { proj := p' } { y with s := lgrf_symAt p' y.s } := by
  obtain ⟨⟨m, un, ui⟩, hl⟩ := lgrf_symAt_same p p' y.s ⟨h.mem, h.uniqN, h.uniqI⟩ hs
  exact ⟨m, un, ui, h.ident, h.inst32, h.ty, h.atomic, h.notBits, h.size, h.dims, hl.trans h.memLen, h.get, h.infoOf, h.oob,
    h.i32⟩

/-- the kinds of read requests whose hypotheses are stable without a condition on the new memory: all but the whole
    flat structure (`lgrf_struct_stable`) -/
def lgrf_StableKind : ldmx_Item → Prop
  | .struct _ => False
  | _ => True

/-- C01, stability: a read request that satisfies its hypotheses on `p` satisfies them, re-based, on every project
    of the same shape — whatever the memories hold -/
theorem lgrf_atR_stable (cfg : Cfg) (p p' : Project) (it : ldmx_Item) (hk : lgrf_StableKind it)
    (h : it.Ok cfg { proj := p }) (hs : lgrf_Same p p') : (lgrf_atR p' it).Ok cfg { proj := p' } := by
  cases it with
  | scalar x => exact lgrf_scalar_stable cfg p p' x h hs
  | elem x => exact lgrf_el_stable cfg p p' x h hs
  | slice x => exact lgrf_slice_stable cfg p p' x h hs
  | bit x => exact lgrf_bit_stable cfg p p' x h hs
  | boolElem x => exact lgrf_boolEl_stable cfg p p' x h hs
  | member x => exact lgrf_member_stable cfg p p' x h hs
  | boolMember x => exact lgrf_boolMember_stable cfg p p' x h hs
  | string x => exact lgrf_str_stable cfg p p' x h hs
  | struct x => exact absurd hk id
  | prog x => exact lgrf_prog_stable cfg p p' x h hs
  | oob y => exact lgrf_oob_stable cfg p p' y h hs

/-! ### re-basing a request on the project it was stated for changes nothing -/

theorem lgrf_memAt_self (p : Project) (s : Symbol) (h : lgrf_SymOk p s) : lgrf_memAt p s = s.mem :=
  congrArg Symbol.mem (lgrf_symAt_self p s h)

/-- a read request that satisfies its hypotheses on `p` as given IS its re-basing on `p`: the specification's Tag
    `(lgrf_atR p it).out` is the Tag `it.out` of the one-call theorems -/
theorem lgrf_atR_self (cfg : Cfg) (p : Project) (it : ldmx_Item) (h : it.Ok cfg { proj := p }) : lgrf_atR p it = it := by
  cases it with
  | scalar x =>
    have h : ldrn_ScalarOk cfg { proj := p } x := h
    have hs : lgrf_SymOk p x.s := ⟨h.mem, h.uniqN, h.uniqI⟩
    show ldmx_Item.scalar (lgrf_scalarAt p x) = _
    unfold lgrf_scalarAt
    rw [lgrf_symAt_self p x.s hs, lgrf_memAt_self p x.s hs, lgrf_decAt_ok _ _ _ _ h.dec]
  | elem x =>
    have h : ldmx_ElOk cfg { proj := p } x := h
    have hs : lgrf_SymOk p x.s := ⟨h.mem, h.uniqN, h.uniqI⟩
    show ldmx_Item.elem (lgrf_elAt p x) = _
    unfold lgrf_elAt
    rw [lgrf_symAt_self p x.s hs, lgrf_memAt_self p x.s hs, lgrf_decAt_ok _ _ _ _ h.dec]
  | slice x =>
    have h : ldmx_SliceOk cfg { proj := p } x := h
    have hs : lgrf_SymOk p x.s := ⟨h.mem, h.uniqN, h.uniqI⟩
    show ldmx_Item.slice (lgrf_sliceAt p x) = _
    unfold lgrf_sliceAt
    rw [lgrf_symAt_self p x.s hs, lgrf_memAt_self p x.s hs]
    have hvs : ((List.range x.n).map fun k => (lgrf_decAt x.t (x.s.mem.drop ((x.i + k) * x.sz))).1) = x.vs := by
      apply List.ext_getElem
      · rw [List.length_map, List.length_range, h.vsLen]
      · intro k h1 h2
        obtain ⟨r, hr⟩ := h.dec k h2
        rw [List.getElem_map, List.getElem_range, lgrf_decAt_ok _ _ _ _ hr]
    rw [hvs]
  | bit x =>
    have h : ldmx_BitOk cfg { proj := p } x := h
    show ldmx_Item.bit { x with s := lgrf_symAt p x.s } = _
    rw [lgrf_symAt_self p x.s ⟨h.mem, h.uniqN, h.uniqI⟩]
  | boolElem x =>
    have h : ldmx_BoolElOk cfg { proj := p } x := h
    show ldmx_Item.boolElem { x with s := lgrf_symAt p x.s } = _
    rw [lgrf_symAt_self p x.s ⟨h.mem, h.uniqN, h.uniqI⟩]
  | member x =>
    have h : ldmx_MemberOk cfg { proj := p } x := h
    have hs : lgrf_SymOk p x.s := ⟨h.mem, h.uniqN, h.uniqI⟩
    show ldmx_Item.member (lgrf_memberAt p x) = _
    unfold lgrf_memberAt
    rw [lgrf_symAt_self p x.s hs, lgrf_memAt_self p x.s hs, lgrf_decAt_ok _ _ _ _ h.dec]
  | boolMember x =>
    have h : ldmx_BoolMemberOk cfg { proj := p } x := h
    show ldmx_Item.boolMember { x with s := lgrf_symAt p x.s } = _
    rw [lgrf_symAt_self p x.s ⟨h.mem, h.uniqN, h.uniqI⟩]
  | string x =>
    have h : ldmx_StrOk cfg { proj := p } x := h
    show ldmx_Item.string { x with s := lgrf_symAt p x.s } = _
    rw [lgrf_symAt_self p x.s ⟨h.mem, h.uniqN, h.uniqI⟩]
  | struct x =>
    have h : ldmx_StructOk cfg { proj := p } x := h
    have hs : lgrf_SymOk p x.s := ⟨h.mem, h.uniqN, h.uniqI⟩
    show ldmx_Item.struct (lgrf_structAt p x) = _
    unfold lgrf_structAt
    have e : lgrf_dictAt (.structTag x.ms x.bits x.priv x.size) x.s.mem = (x.kvs, x.rest) := by
      unfold lgrf_dictAt; rw [h.dec]
    rw [lgrf_symAt_self p x.s hs, lgrf_memAt_self p x.s hs, e]
  | prog x => rfl
  | oob y =>
    have h : ldrn_ElemOob cfg { proj := p } y := h
    show ldmx_Item.oob { y with s := lgrf_symAt p y.s } = _
    rw [lgrf_symAt_self p y.s ⟨h.mem, h.uniqN, h.uniqI⟩]

/-- on requests that satisfy their hypotheses on `p` as given, the specification's read is `its.map (·.out)` -/
theorem lgrf_specRead_self (cfg : Cfg) (p : Project) (its : List ldmx_Item) (h : ∀ it ∈ its, it.Ok cfg { proj := p }) :
    lgrf_specRead p its = its.map (·.out) := by
  unfold lgrf_specRead
  apply List.map_congr_left
  intro it hit
  rw [lgrf_atR_self cfg p it (h it hit)]

/-! ### write requests -/

/-- C02, stability: a write request that satisfies its hypotheses on `p` satisfies them, re-based, on every project of
    the same shape -/
theorem lgrf_atW_stable (cfg : Cfg) (p p' : Project) (x : ldwx_Item) (h : ldwx_ItemOk cfg p x) (hs : lgrf_Same p p') :
    ldwx_ItemOk cfg p' (lgrf_atW p' x) := by
  cases x with
  | scalar x =>
    have h : ldwn_ScalarOk cfg p x := h
    obtain ⟨⟨m, un, ui⟩, hl⟩ := lgrf_symAt_same p p' x.s ⟨h.mem, h.uniqN, h.uniqI⟩ hs
    exact (⟨m, un, ui, h.ident, h.inst32, h.ty, h.atom, h.notBits, h.size, hl.trans h.len, h.get, h.infoOf, h.canon, h.enc⟩ :
      ldwn_ScalarOk cfg p' { x with s := lgrf_symAt p' x.s })
  | elem x =>
    have h : ldwx_ElemOk cfg p x := h
    obtain ⟨⟨m, un, ui⟩, hl⟩ := lgrf_symAt_same p p' x.s ⟨h.mem, h.uniqN, h.uniqI⟩ hs
    exact (⟨m, un, ui, h.ident, h.inst32, h.ty, h.atom, h.notBits, h.size, h.dims, hl.trans h.len, h.get, h.infoOf, h.canon,
      h.enc, h.inside, h.i32⟩ : ldwx_ElemOk cfg p' { x with s := lgrf_symAt p' x.s })
  | slice x =>
    have h : ldwx_SliceOk cfg p x := h
    obtain ⟨⟨m, un, ui⟩, hl⟩ := lgrf_symAt_same p p' x.s ⟨h.mem, h.uniqN, h.uniqI⟩ hs
    exact (⟨m, un, ui, h.ident, h.inst32, h.ty, h.atom, h.notBits, h.size, h.dims, hl.trans h.len, h.get, h.infoOf, h.count,
      h.count16, h.vlen, h.canon, h.enc, h.inside, h.i32⟩ : ldwx_SliceOk cfg p' { x with s := lgrf_symAt p' x.s })
  | member x =>
    have h : ldwx_MemberOk cfg p x := h
    obtain ⟨⟨m, un, ui⟩, hl⟩ := lgrf_symAt_same p p' x.s ⟨h.mem, h.uniqN, h.uniqI⟩ hs
    have hin : x.li * x.tm0.size + ldr4_offset x.hops + x.sz ≤ (lgrf_memAt p' x.s).length := by rw [hl]; exact h.inside
    exact (⟨m, un, ui, h.level0, h.ty, (lgrf_same_template p p' hs x.tid0).trans h.tmpl, h.index, h.nonempty,
      ldwx_chain_congr p p' hs.templates _ _ _ h.chain, h.levels, h.notNumber, h.pathSize, h.atom, h.notBits, h.size, hin, h.get,
      h.kind, h.infoPath, h.leafOf, h.canon, h.enc⟩ : ldwx_MemberOk cfg p' { x with s := lgrf_symAt p' x.s })
  | str x =>
    have h : ldwx_StrOk cfg p x := h
    obtain ⟨⟨m, un, ui⟩, hl⟩ := lgrf_symAt_same p p' x.s ⟨h.mem, h.uniqN, h.uniqI⟩ hs
    exact (⟨m, un, ui, h.ident, h.inst32, h.ty, (lgrf_same_template p p' hs x.tid).trans h.tmpl, hl.trans h.len, h.size, h.cap1,
      h.cap32, h.get, h.structOf, h.notDword, h.handle, h.chars⟩ : ldwx_StrOk cfg p' { x with s := lgrf_symAt p' x.s })
  | struct x =>
    have h : ldwx_StructOk cfg p x := h
    obtain ⟨⟨m, un, ui⟩, hl⟩ := lgrf_symAt_same p p' x.s ⟨h.mem, h.uniqN, h.uniqI⟩ hs
    exact (⟨m, un, ui, h.ident, h.inst32, h.ty, (lgrf_same_template p p' hs x.tid).trans h.tmpl, hl.trans h.len, h.pos, h.get,
      h.structOf, h.notDword, h.handle, h.enc, h.blen⟩ : ldwx_StructOk cfg p' { x with s := lgrf_symAt p' x.s })
  | oob x =>
    have h : ldwn_OobOk cfg p x := h
    obtain ⟨⟨m, un, ui⟩, hl⟩ := lgrf_symAt_same p p' x.s ⟨h.mem, h.uniqN, h.uniqI⟩ hs
    exact (⟨m, un, ui, h.ident, h.inst32, h.ty, h.atom, h.notBits, h.size, h.dims, hl.trans h.len, h.get, h.infoOf, h.canon,
      h.enc, h.beyond, h.i32⟩ : ldwn_OobOk cfg p' { x with s := lgrf_symAt p' x.s })

/-! ### a write call keeps the shape -/

theorem lgrf_stepSym_only_mem (y : Symbol) (w : ldwx_Wr) : ldwx_stepSym y w = { y with mem := (ldwx_stepSym y w).mem } := by
  unfold ldwx_stepSym
  split <;> rfl

theorem lgrf_symAfter_only_mem (ws : List ldwx_Wr) : ∀ y : Symbol, ldwx_symAfter ws y = { y with mem := (ldwx_symAfter ws y).mem } := by
  induction ws with
  | nil => intro y; rfl
  | cons w rest ih =>
    intro y
    show ldwx_symAfter rest (ldwx_stepSym y w) = { y with mem := (ldwx_symAfter rest (ldwx_stepSym y w)).mem }
    rw [ih (ldwx_stepSym y w), lgrf_stepSym_only_mem y w]

/-- every accepted write of requests that satisfy their hypotheses stays inside the memory of its symbol -/
theorem lgrf_fits_of_ok (cfg : Cfg) (p : Project) (its : List ldwx_Item)
    (hbytes : ∀ s' ∈ p.controller, ∀ ch ∈ s'.name, ch < 256) (hok : ∀ x ∈ its, ldwx_ItemOk cfg p x) :
    ∀ y ∈ p.controller, ldwx_FitsSym (ldwx_targets its) y := by
  intro y hy w hw hi
  obtain ⟨x, hx, hxt⟩ := List.mem_filterMap.1 hw
  obtain ⟨s, hs, hsi, huniq, hfit⟩ := ldwx_target_fits cfg p x (ldwx_item_facts cfg p x hbytes (hok x hx)) w hxt
  rw [huniq y hy hi.symm]
  exact hfit

/-- writes that stay inside the memories keep the shape of the project (`ldwx_symAfter_shape`, `ldwx_symAfter_len`) -/
theorem lgrf_same_applyAll (p : Project) (ws : List ldwx_Wr) (hfit : ∀ y ∈ p.controller, ldwx_FitsSym ws y) :
    lgrf_Same p (ldwx_applyAll p ws) := by
  rw [ldwx_applyAll_eq]
  exact ⟨rfl, rfl, ldwx_symAfter ws, rfl, fun y hy => ⟨lgrf_symAfter_only_mem ws y, ldwx_symAfter_len ws y (hfit y hy)⟩⟩

/-- one specification step keeps the shape -/
theorem lgrf_same_step (cfg : Cfg) (C : Nat) (p : Project) (op : lgrf_Op)
    (hbytes : ∀ s' ∈ p.controller, ∀ ch ∈ s'.name, ch < 256) (hok : lgrf_OpOk cfg C p op) :
    lgrf_Same p (lgrf_specStep p op).1 := by
  cases op with
  | read its => exact lgrf_same_refl p
  | write its =>
    have hok' : ∀ x ∈ its.map (lgrf_atW p), ldwx_ItemOk cfg p x := by
      intro x hx
      obtain ⟨x0, h0, rfl⟩ := List.mem_map.1 hx
      exact hok.1 x0 h0
    have := lgrf_fits_of_ok cfg p (its.map (lgrf_atW p)) hbytes hok'
    rw [lgrf_atW_targets] at this
    exact lgrf_same_applyAll p _ this

/-- the specification run keeps the shape -/
theorem lgrf_same_run (cfg : Cfg) (C : Nat) (ops : List lgrf_Op) : ∀ (p : Project),
    (∀ s' ∈ p.controller, ∀ ch ∈ s'.name, ch < 256) → lgrf_OpsOk cfg C p ops → lgrf_Same p (lgrf_specRun p ops).1 := by
  induction ops with
  | nil => intro p _ _; exact lgrf_same_refl p
  | cons op ops ih =>
    intro p hb hok
    have h1 := lgrf_same_step cfg C p op hb hok.1
    exact lgrf_same_trans _ _ _ h1 (ih _ (lgrf_same_names _ _ h1 hb) hok.2)

/-! ### the domain of a history from hypotheses on the initial memory -/

/-- the hypotheses on one call, all against ONE fixed project `p0` (the requests as they are, not re-based) -/
def lgrf_OpOkBase (cfg : Cfg) (C : Nat) (p0 : Project) : lgrf_Op → Prop
  | .read its => (∀ it ∈ its, lgrf_StableKind it ∧ it.Ok cfg { proj := p0 }) ∧
      ((2 ≤ its.length ∧ ∀ it ∈ its, it.estimate cfg + K.OVERHEAD ≤ C) ∨ ∃ it, its = [it] ∧ lgrf_single1R C it)
  | .write its => (∀ x ∈ its, ldwx_ItemOk cfg p0 x) ∧
      ((2 ≤ its.length ∧ ∀ x ∈ its, x.acct cfg + K.OVERHEAD ≤ C) ∨ ∃ x, its = [x] ∧ lgrf_single1W C x)

theorem lgrf_opOk_of_base (cfg : Cfg) (C : Nat) (p0 p : Project) (op : lgrf_Op) (hb : lgrf_OpOkBase cfg C p0 op)
    (hs : lgrf_Same p0 p) : lgrf_OpOk cfg C p op := by
  cases op with
  | read its => exact ⟨fun it hit => lgrf_atR_stable cfg p0 p it (hb.1 it hit).1 (hb.1 it hit).2 hs, hb.2⟩
  | write its => exact ⟨fun x hx => lgrf_atW_stable cfg p0 p x (hb.1 x hx) hs, hb.2⟩

/-- C01 / C02, stability over a history: when every call of the history satisfies its hypotheses on the INITIAL
    project `p0` (kinds other than the whole flat structure for reads), the history is in the domain `lgrf_OpsOk` from
    every project of the shape of `p0` — in particular from `p0` itself: the values written in between do not matter -/
theorem lgrf_opsOk_of_base (cfg : Cfg) (C : Nat) (p0 : Project)
    (hnames : ∀ s' ∈ p0.controller, ∀ ch ∈ s'.name, ch < 256) (ops : List lgrf_Op) :
    (∀ op ∈ ops, lgrf_OpOkBase cfg C p0 op) → ∀ p, lgrf_Same p0 p → lgrf_OpsOk cfg C p ops := by
  induction ops with
  | nil => intro _ _ _; trivial
  | cons op ops ih =>
    intro hb p hs
    have hop := lgrf_opOk_of_base cfg C p0 p op (hb op List.mem_cons_self) hs
    refine ⟨hop, ih (fun o ho => hb o (List.mem_cons_of_mem _ ho)) _ ?_⟩
    exact lgrf_same_trans _ _ _ hs (lgrf_same_step cfg C p op (lgrf_same_names p0 p hs hnames) hop)

end Pycomm.Lgx.Drv
