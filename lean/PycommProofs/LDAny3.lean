/-
  C13 at the driver level for ARBITRARY reply bytes, part 3: a value the codec decodes is never `None`, and a
  sequence it decodes has no `None` among its items (`lda_Solid`). This is what makes "falsy Tag ⇒ it carries an
  error" true for reads: a Tag without error carries a decoded value, and `Tag.__bool__` only asks `value is not None`.
-/
import PycommProofs.LDAny2
import PycommProofs.ERRec
namespace Pycomm.Lgx.Drv
open Pycomm Pycomm.Tgt Pycomm.Path Pycomm.Reply Pycomm.Encap Pycomm.ER

/-- not `None`, and — when it is indexable — no `None` among its items -/
def lda_Solid (v : PyVal) : Prop := v ≠ .none ∧ ∀ xs, v.seq? = some xs → ∀ x ∈ xs, x ≠ .none

theorem lda_solid_bool (b : Bool) : lda_Solid (.bool b) := ⟨by simp, fun xs h => by cases h⟩
theorem lda_solid_int (i : Int) : lda_Solid (.int i) := ⟨by simp, fun xs h => by cases h⟩
theorem lda_solid_float (n : Nat) : lda_Solid (.float n) := ⟨by simp, fun xs h => by cases h⟩
theorem lda_solid_dict (kvs : List (Name × PyVal)) : lda_Solid (.dict kvs) := ⟨by simp, fun xs h => by cases h⟩
theorem lda_solid_str (cs : Name) : lda_Solid (.str cs) := by
  refine ⟨by simp, fun xs h x hx => ?_⟩
  simp only [PyVal.seq?, Option.some.injEq] at h
  subst h
  obtain ⟨c, _, rfl⟩ := List.mem_map.1 hx
  simp
theorem lda_solid_bytes (bs : Bytes) : lda_Solid (.bytes bs) := by
  refine ⟨by simp, fun xs h x hx => ?_⟩
  simp only [PyVal.seq?, Option.some.injEq] at h
  subst h
  obtain ⟨c, _, rfl⟩ := List.mem_map.1 hx
  simp
theorem lda_solid_list (xs : List PyVal) (h : ∀ x ∈ xs, x ≠ .none) : lda_Solid (.list xs) := by
  refine ⟨by simp, fun ys hy x hx => ?_⟩
  simp only [PyVal.seq?, Option.some.injEq] at hy
  subst hy
  exact h x hx
theorem lda_solid_tuple (xs : List PyVal) (h : ∀ x ∈ xs, x ≠ .none) : lda_Solid (.tuple xs) := by
  refine ⟨by simp, fun ys hy x hx => ?_⟩
  simp only [PyVal.seq?, Option.some.injEq] at hy
  subst hy
  exact h x hx

/-! ### the leaves -/

theorem lda_decodeStr_shape (k : IntK) (enc : Enc) (bs : Bytes) (v : PyVal) (r : Bytes)
    (h : decodeStr k enc bs = .ok (v, r)) : ∃ cs, v = .str cs := by
  unfold decodeStr at h
  simp only [bind, Except.bind] at h
  split at h
  · cases h
  · split at h
    · cases h; exact ⟨_, rfl⟩
    · split at h
      · cases h
      · split at h
        · cases h
        · split at h
          · cases h; exact ⟨_, rfl⟩
          · cases h

theorem lda_decodeStringN_shape (bs : Bytes) (v : PyVal) (r : Bytes)
    (h : decodeStringN bs = .ok (v, r)) : ∃ cs, v = .str cs := by
  unfold decodeStringN at h
  simp only [bind, Except.bind] at h
  split at h
  · cases h
  · split at h
    · cases h
    · split at h
      · cases h
      · split at h
        · cases h; exact ⟨_, rfl⟩
        · split at h
          · cases h
          · split at h
            · cases h
            · split at h
              · cases h; exact ⟨_, rfl⟩
              · cases h

theorem lda_decodeStringIItems_shape : ∀ (n : Nat) (bs : Bytes) (ss ls cs : List PyVal) (v : PyVal) (r : Bytes),
    decodeStringIItems n bs ss ls cs = .ok (v, r) → ∃ a b c, v = .tuple [.list a, .list b, .list c] := by
  intro n
  induction n with
  | zero =>
    intro bs ss ls cs v r h
    unfold decodeStringIItems at h
    cases h
    exact ⟨_, _, _, rfl⟩
  | succ n ih =>
    intro bs ss ls cs v r h
    unfold decodeStringIItems at h
    dsimp only at h
    split at h
    · cases h
    · split at h
      · cases h
      · split at h
        · cases h
        · split at h
          · cases h
          · simp only [bind, Except.bind] at h
            split at h
            · cases h
            · split at h
              · cases h
              · exact ih _ _ _ _ _ _ h

theorem lda_natToBits_bool : ∀ (w n : Nat), ∀ x ∈ natToBits w n, ∃ b, x = .bool b := by
  intro w
  induction w with
  | zero => intro n x hx; cases hx
  | succ w ih =>
    intro n x hx
    unfold natToBits at hx
    rcases List.mem_cons.1 hx with rfl | hx
    · exact ⟨_, rfl⟩
    · exact ih _ x hx

/-! ### arrays -/

theorem lda_decodeN_mem (f : D PyVal) : ∀ (n : Nat) (bs : Bytes) (vs : List PyVal) (r : Bytes),
    decodeN f n bs = .ok (vs, r) → ∀ x ∈ vs, ∃ b r', f b = .ok (x, r') := by
  intro n
  induction n with
  | zero =>
    intro bs vs r h x hx
    unfold decodeN at h
    cases h
    cases hx
  | succ n ih =>
    intro bs vs r h x hx
    unfold decodeN at h
    simp only [bind, Except.bind] at h
    split at h
    · cases h
    · next p hp =>
      obtain ⟨v, r1⟩ := p
      dsimp only at h
      split at h
      · cases h
      · next q hq =>
        obtain ⟨vs', r2⟩ := q
        cases h
        rcases List.mem_cons.1 hx with rfl | hx
        · exact ⟨_, _, hp⟩
        · exact ih _ _ _ hq x hx

theorem lda_decodeAll_mem (f : D PyVal) : ∀ (fuel : Nat) (bs : Bytes) (vs : List PyVal) (r : Bytes),
    decodeAll f fuel bs = .ok (vs, r) → ∀ x ∈ vs, ∃ b r', f b = .ok (x, r') := by
  intro fuel
  induction fuel with
  | zero =>
    intro bs vs r h
    unfold decodeAll at h
    cases h
  | succ fuel ih =>
    intro bs vs r h x hx
    unfold decodeAll at h
    split at h
    · cases h; cases hx
    · cases h
    · next v r1 hp =>
      split at h
      · cases h
      · simp only [bind, Except.bind] at h
        split at h
        · cases h
        · next q hq =>
          obtain ⟨vs', r2⟩ := q
          cases h
          rcases List.mem_cons.1 hx with rfl | hx
          · exact ⟨_, _, hp⟩
          · exact ih _ _ _ hq x hx

theorem lda_flattenBits_bool : ∀ (vs : List PyVal), (∀ x ∈ vs, ∃ xs, x = .list xs ∧ ∀ y ∈ xs, ∃ b, y = .bool b) →
    ∀ y ∈ flattenBits vs, ∃ b, y = .bool b := by
  intro vs
  induction vs with
  | nil => intro _ y hy; cases hy
  | cons x rest ih =>
    intro h y hy
    obtain ⟨xs, rfl, hxs⟩ := h x List.mem_cons_self
    unfold flattenBits at hy
    rcases List.mem_append.1 hy with hy | hy
    · exact hxs y hy
    · exact ih (fun x hx => h x (List.mem_cons_of_mem _ hx)) y hy

theorem lda_decodeBits_shape (k : IntK) (bs : Bytes) (v : PyVal) (r : Bytes) (h : decodeBits k bs = .ok (v, r)) :
    ∃ xs, v = .list xs ∧ ∀ y ∈ xs, ∃ b, y = .bool b := by
  unfold decodeBits at h
  simp only [bind, Except.bind] at h
  split at h
  · cases h
  · cases h
    exact ⟨_, rfl, lda_natToBits_bool _ _⟩

/-- the value of a decoded array: a list of values the element decoder produced (bit strings flattened to BOOLs) -/
theorem lda_decode_arr_shape (len : ArrLen) (t : Ty) (bs : Bytes) (v : PyVal) (r : Bytes)
    (h : decode (.arr len t) bs = .ok (v, r)) :
    ∃ vs, v = post t vs ∧ ∀ x ∈ vs, ∃ b r', decode t b = .ok (x, r') := by
  rw [decode_arr_eq] at h
  cases len with
  | all =>
    unfold arrDec at h
    obtain ⟨vs, r1, h1, h2⟩ := (bindD_ok ..).1 h
    simp only [ER.ret, Except.ok.injEq, Prod.mk.injEq] at h2
    exact ⟨vs, h2.1.symm, lda_decodeAll_mem _ _ _ _ _ h1⟩
  | fixed n =>
    unfold arrDec at h
    obtain ⟨vs, r1, h1, h2⟩ := (bindD_ok ..).1 h
    simp only [ER.ret, Except.ok.injEq, Prod.mk.injEq] at h2
    exact ⟨vs, h2.1.symm, lda_decodeN_mem _ _ _ _ _ h1⟩
  | pref k =>
    unfold arrDec at h
    obtain ⟨n, r0, _, h2⟩ := (bindD_ok ..).1 h
    unfold prefK at h2
    split at h2
    · split at h2 <;> cases h2
    · obtain ⟨vs, r1, h1, h3⟩ := (bindD_ok ..).1 h2
      simp only [ER.ret, Except.ok.injEq, Prod.mk.injEq] at h3
      exact ⟨vs, h3.1.symm, lda_decodeN_mem _ _ _ _ _ h1⟩

/-! ### every decoded value -/

/-- a decoded value is never `None` -/
theorem lda_decode_ne_none (t : Ty) (bs : Bytes) (v : PyVal) (r : Bytes) (h : decode t bs = .ok (v, r)) : v ≠ .none := by
  cases t with
  | bool => simp only [decode, bind, Except.bind] at h; split at h <;> cases h; simp
  | int k => simp only [decode, bind, Except.bind] at h; split at h <;> cases h; simp
  | real => simp only [decode, bind, Except.bind] at h; split at h <;> cases h; simp
  | lreal => simp only [decode, bind, Except.bind] at h; split at h <;> cases h; simp
  | dateAndTime =>
    simp only [decode, bind, Except.bind] at h
    split at h
    · cases h
    · split at h <;> cases h; simp
  | str k enc => rw [decode] at h; obtain ⟨cs, rfl⟩ := lda_decodeStr_shape _ _ _ _ _ h; simp
  | stringN c => rw [decode] at h; obtain ⟨cs, rfl⟩ := lda_decodeStringN_shape _ _ _ h; simp
  | stringI =>
    rw [decode] at h
    unfold decodeStringI at h
    simp only [bind, Except.bind] at h
    split at h
    · cases h
    · obtain ⟨a, b, c, rfl⟩ := lda_decodeStringIItems_shape _ _ _ _ _ _ _ h; simp
  | bits k => rw [decode] at h; obtain ⟨xs, rfl, _⟩ := lda_decodeBits_shape _ _ _ _ h; simp
  | nbytes n =>
    rw [decode] at h
    unfold decodeNBytes at h
    simp only [bind, Except.bind] at h
    split at h
    · cases h
    · split at h <;> cases h; simp
  | arr len t => obtain ⟨vs, rfl, _⟩ := lda_decode_arr_shape len t bs v r h; simp [post]
  | struct ms =>
    rw [decode] at h
    split at h <;> cases h; simp
  | fixedStr size k =>
    rw [decode] at h
    unfold decodeFixedStr at h
    simp only [bind, Except.bind] at h
    split at h
    · cases h
    · split at h
      · cases h
      · split at h <;> cases h; simp
  | structTag ms bits priv size =>
    rw [decode] at h
    split at h
    · cases h
    · split at h
      · cases h
      · split at h
        · cases h
        · split at h <;> cases h; simp
  | ipAddr =>
    rw [decode] at h
    unfold decodeIp at h
    simp only [bind, Except.bind] at h
    split at h
    · cases h
    · split at h <;> cases h; simp

/-- a decoded value is never `None`, and a decoded sequence has no `None` among its items -/
theorem lda_decode_solid (t : Ty) (bs : Bytes) (v : PyVal) (r : Bytes) (h : decode t bs = .ok (v, r)) : lda_Solid v := by
  cases t with
  | bool => simp only [decode, bind, Except.bind] at h; split at h <;> cases h; exact lda_solid_bool _
  | int k => simp only [decode, bind, Except.bind] at h; split at h <;> cases h; exact lda_solid_int _
  | real => simp only [decode, bind, Except.bind] at h; split at h <;> cases h; exact lda_solid_float _
  | lreal => simp only [decode, bind, Except.bind] at h; split at h <;> cases h; exact lda_solid_float _
  | dateAndTime =>
    simp only [decode, bind, Except.bind] at h
    split at h
    · cases h
    · split at h <;> cases h
      exact lda_solid_tuple _ (by simp)
  | str k enc => rw [decode] at h; obtain ⟨cs, rfl⟩ := lda_decodeStr_shape _ _ _ _ _ h; exact lda_solid_str _
  | stringN c => rw [decode] at h; obtain ⟨cs, rfl⟩ := lda_decodeStringN_shape _ _ _ h; exact lda_solid_str _
  | stringI =>
    rw [decode] at h
    unfold decodeStringI at h
    simp only [bind, Except.bind] at h
    split at h
    · cases h
    · obtain ⟨a, b, c, rfl⟩ := lda_decodeStringIItems_shape _ _ _ _ _ _ _ h
      exact lda_solid_tuple _ (by simp)
  | bits k =>
    rw [decode] at h
    obtain ⟨xs, rfl, hx⟩ := lda_decodeBits_shape _ _ _ _ h
    exact lda_solid_list _ (fun x hx' => by obtain ⟨b, rfl⟩ := hx x hx'; simp)
  | nbytes n =>
    rw [decode] at h
    unfold decodeNBytes at h
    simp only [bind, Except.bind] at h
    split at h
    · cases h
    · split at h <;> cases h
      exact lda_solid_bytes _
  | arr len t =>
    obtain ⟨vs, rfl, hvs⟩ := lda_decode_arr_shape len t bs v r h
    unfold post
    apply lda_solid_list
    cases hb : t.isBits with
    | none =>
      simp only [Option.isSome_none, Bool.false_eq_true, if_false]
      intro x hx
      obtain ⟨b, r', hd⟩ := hvs x hx
      exact lda_decode_ne_none t b x r' hd
    | some k =>
      simp only [Option.isSome_some, if_true]
      have ht : t = .bits k := by
        cases t <;> simp [Ty.isBits] at hb
        subst hb; rfl
      subst ht
      intro y hy
      obtain ⟨b, rfl⟩ := lda_flattenBits_bool vs (fun x hx => by
        obtain ⟨b, r', hd⟩ := hvs x hx
        rw [decode] at hd
        exact lda_decodeBits_shape _ _ _ _ hd) y hy
      simp
  | struct ms =>
    rw [decode] at h
    split at h <;> cases h
    exact lda_solid_dict _
  | fixedStr size k =>
    rw [decode] at h
    unfold decodeFixedStr at h
    simp only [bind, Except.bind] at h
    split at h
    · cases h
    · split at h
      · cases h
      · split at h <;> cases h
        exact lda_solid_str _
  | structTag ms bits priv size =>
    rw [decode] at h
    split at h
    · cases h
    · split at h
      · cases h
      · split at h
        · cases h
        · split at h <;> cases h
          exact lda_solid_dict _
  | ipAddr =>
    rw [decode] at h
    unfold decodeIp at h
    simp only [bind, Except.bind] at h
    split at h
    · cases h
    · split at h <;> cases h
      exact lda_solid_str _

/-! ### `parse_read_reply` -/

/-- the value `parse_read_reply` hands over is never `None` and, when it is a sequence, has no `None` among its items -/
theorem lda_parseReadReply_solid (data : Bytes) (info : TagInfo) (n : Nat) (v : PyVal) (dt : Name)
    (h : parseReadReply data info n = .ok (v, dt)) : lda_Solid v := by
  unfold parseReadReply at h
  dsimp only at h
  split at h
  · cases h
  · next v' hv =>
    cases h
    split at hv
    · next m t hty =>
      split at hv
      · cases hd : decode (.arr (.fixed m) t) (Cl.splitTyped data).2 with
        | error e => rw [hd] at hv; cases hv
        | ok x =>
          rw [hd] at hv
          cases hv
          exact lda_decode_solid _ _ _ _ hd
      · unfold Cl.parseReadReply at hv
        simp only [if_true] at hv
        split at hv
        · cases hv
        · next v2 r2 hd =>
          split at hv
          · split at hv
            · next x xs =>
              cases hv
              obtain ⟨vs, hpost, hvs⟩ := lda_decode_arr_shape _ _ _ _ _ hd
              rename_i hcond _
              have hb : t.isBits = none := hcond.2
              unfold post at hpost
              simp only [hb, Option.isSome_none, Bool.false_eq_true, if_false, PyVal.list.injEq] at hpost
              obtain ⟨b, r', hx⟩ := hvs v (by rw [← hpost]; exact List.mem_cons_self)
              exact lda_decode_solid _ _ _ _ hx
            · cases hv
          · cases hv
            exact lda_decode_solid _ _ _ _ hd
    · next t hnot =>
      split at hv
      · cases hv
      · next v2 r2 hd =>
        split at hv
        · cases hv; exact lda_decode_solid _ _ _ _ hd
        · split at hv
          · cases hv; exact lda_solid_dict _
          · cases hv
        · cases hv
        · cases hv; exact lda_decode_solid _ _ _ _ hd

end Pycomm.Lgx.Drv
