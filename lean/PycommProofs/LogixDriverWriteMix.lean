/-
  C02 / C03 at the driver level: NESTED member paths, and requests of MIXED shapes in one `LogixDriver.write` call —
  through the whole stack of the model (tag-string parsing, tag database, `encode_value`, `_write_build_multi_requests`
  with the grouping kernel `K.plan`, `CIPDriver.send`, encapsulation, the reference target's encapsulation layer /
  message router / Multiple Service Packet / Write Tag service with its address resolver, reply framing,
  `MultiServiceResponsePacket`, `_send_requests`, result assembly).

  Goal A  `write_member_path_e2e`, `write_member_path_effect`, `write_then_read_member_path_e2e`:
          `write(("tag[i].m1[j]. … .leaf", v))`, any depth, indexes at any level (the write analogue of LogixDriverRead4).
  Goal B  `write_mixed_e2e`, `write_mixed_effect`, `write_mixed_order_irrelevant`, `write_mixed_isolated_e2e`:
          ANY number n ≥ 2 of requests, each a whole scalar tag, an array element, an array slice, a member path, a
          string tag, a whole structure tag (dict), or an element beyond an array (refused by the controller) —
          generalises `write_n_tags_e2e` / `write_n_tags_isolated_e2e` (LogixDriverWriteN: scalars only).
          NOT covered: bit writes (`tag.5`, sent as Read-Modify-Write in frames of their own after the multi-service
          packets: `write_n_bits_e2e`), BOOL-array ranges, packed BOOL members, requests so large that they leave the
          multi-service path (Write Tag Fragmented), program-scoped tags, and requests that fail before anything is
          sent (unknown tag, value that does not encode).

  Layers (lemmas usable on their own):
    LDWMix1  `ldwx_leaf_encodeValue`, `ldwx_path_core`, `ldwx_write_path_leaf`, `ldwx_chain_congr`, `ldwx_write_then_read_path`
    LDWMix2  `ldwx_It`, `ldwx_buildLive`, `ldwx_build`, `ldwx_results`, `ldwx_write_general` (any answers of the controller)
    LDWMix3  `ldwx_Beh`, `ldwx_BehOk`, `ldwx_Ev_wr`, `ldwx_run` (the controller's answers judged on the project BEFORE the call)
    LDWMix4  `ldwx_Facts`, `ldwx_facts_of_ldwn`, `ldwx_elem_facts`, `ldwx_slice_facts`
    LDWMix5  `ldwx_member_facts`, `ldwx_whole_facts`, `ldwx_Item`, `ldwx_item_facts`, `ldwx_item_acct_le`, `ldwx_write_mixed`
    LDWMix6  `ldwx_applyAll_eq`, `ldwx_symAfter_*`, `ldwx_Disj`, `ldwx_splice_comm`, `ldwx_symAfter_perm`, `ldwx_target_fits`
-/
import PycommProofs.LDWMix6
import PycommProofs.LogixDriverWriteN
namespace Pycomm.Lgx.Drv
open Pycomm Pycomm.Tgt Pycomm.Path Pycomm.Reply Pycomm.Encap Pycomm.Lgx Pycomm.Lgx.E2E

/-- a canonical value of an elementary type is not `None` -/
theorem ldwx_canon_ne_none (c : Nat) (t : Ty) (v : PyVal) (haty : Cl.atomicTy c = some t) (hb : t.isBits = none)
    (hcanon : Canon t v) : v ≠ .none := by
  rcases ldr_atomicTy_shape c t haty hb with rfl | ⟨k, rfl⟩ | rfl | rfl
  · obtain ⟨x, rfl⟩ := hcanon; simp
  · obtain ⟨x, rfl, _⟩ := hcanon; simp
  · obtain ⟨x, _, rfl, _⟩ := hcanon; simp
  · obtain ⟨x, rfl, _⟩ := hcanon; simp

theorem ldwx_truthy_of (t : LTag) (hv : t.value ≠ .none) (he : t.error = none) : t.truthy = true := by
  unfold LTag.truthy
  rw [he]
  cases hval : t.value <;> simp_all

/-- the writes of a call do not overlap pairwise: different symbols, or byte ranges that do not meet -/
def ldwx_Disjoint (its : List ldwx_Item) : Prop := (ldwx_targets its).Pairwise ldwx_Disj

/-- the Tag of an accepted request is error-free and truthy, the Tag of a refused one is falsy and carries the
    controller's error -/
theorem ldwx_out_accepted (cfg : Cfg) (p : Project) (x : ldwx_Item) (h : ldwx_ItemOk cfg p x) :
    (x.accepted = true → x.out.error = none ∧ x.out.truthy = true) ∧
    (x.accepted = false → x.out.truthy = false ∧ x.out.error = some ldwn_oobError) := by
  cases x with
  | scalar x =>
    obtain ⟨haty, _⟩ := ldr_atomic_table x.c x.sz x.tname x.t h.atom h.notBits h.size
    exact ⟨fun _ => ⟨rfl, ldwx_truthy_of _ (ldwx_canon_ne_none x.c x.t x.v haty h.notBits h.canon) rfl⟩, fun e => by cases e⟩
  | elem x =>
    obtain ⟨haty, _⟩ := ldr_atomic_table x.c x.sz x.tname x.t h.atom h.notBits h.size
    exact ⟨fun _ => ⟨rfl, ldwx_truthy_of _ (ldwx_canon_ne_none x.c x.t x.v haty h.notBits h.canon) rfl⟩, fun e => by cases e⟩
  | slice x => exact ⟨fun _ => ⟨rfl, rfl⟩, fun e => by cases e⟩
  | member x =>
    obtain ⟨haty, _⟩ := ldr_atomic_table x.c x.sz x.tname x.t h.atom h.notBits h.size
    exact ⟨fun _ => ⟨rfl, ldwx_truthy_of _ (ldwx_canon_ne_none x.c x.t x.v haty h.notBits h.canon) rfl⟩, fun e => by cases e⟩
  | str x => exact ⟨fun _ => ⟨rfl, rfl⟩, fun e => by cases e⟩
  | struct x => exact ⟨fun _ => ⟨rfl, rfl⟩, fun e => by cases e⟩
  | oob x => exact ⟨fun e => (by cases e), fun _ => ⟨ldx_falsy_of_error _ _ rfl, rfl⟩⟩

/-- requests that address pairwise DIFFERENT symbols are disjoint -/
theorem ldwx_disjoint_of_nodup (its : List ldwx_Item) (h : ((ldwx_targets its).map (·.1)).Nodup) : ldwx_Disjoint its := by
  unfold ldwx_Disjoint
  have := List.pairwise_map.1 h
  exact this.imp (fun hab => Or.inl hab)

theorem ldwx_filter_length_le {α} (l : List α) (f : α → Bool) : (l.filter f).length ≤ l.length := List.length_filter_le f l

-- PROPERTY THEOREMS

/-- C02, driver level, member paths of ANY depth: `write(("tag[i].m1[j]. … .leaf", v))`, where `tag` is a
    controller-scope structure tag (or, with indexes `idx0`, an element of an array of structures), every `m` is a member
    of the structure definition reached so far (optionally followed by ONE element index when the member is an array)
    and the last member is of an elementary type other than BOOL / bit string, with a canonical value `v` of the leaf's
    type, on a healthy connected driver returns exactly one error-free, TRUTHY Tag named as requested, carrying the
    caller's value and the leaf's type name. One plain Write Tag request is sent whose request path is SYMBOLIC — all
    names and indexes as written — whatever `use_instance_ids` says, carrying the leaf's type code and the codec's
    encoding `bytes` of the value (`sz` bytes); one frame, one sequence number. The controller's project afterwards is
        `written st.proj loc off bytes`,   `off = li · (size of the tag's structure) + Σ (member offset + element index · element size)`
    (`li` = the row-major linear index written after the tag name, 0 without; `ldr4_offset hops`): by
    `write_member_path_effect` exactly the bytes `[off, off + sz)` of the TAG's memory hold `bytes`, every other byte of
    the tag, every other symbol, the templates and the program scopes are unchanged, and ONE write-log entry
    `(instance, off, sz)` is appended. The resulting world is healthy again.

    The path is given by the list `hops` of steps (`ldr4_Hop`: definition, member, index, element size) as in
    `read_member_path_e2e`; the theorem is an induction over `hops` (`ldr4_resolveMembers`): there is no depth bound.

    Hypotheses: those of `read_member_path_e2e` on the world, the symbol, the walk and the tag database (`hw` …
    `hleaf`), and
    * `hcanon`, `henc`  `v` is a canonical value of the leaf's type and `bytes` its encoding;
    * `hC`   the request stays below the fragmentation threshold of the single-request path, which counts the value
             twice (logix_driver.py:1225): `path size + 2·size + 8` bytes suffice;
    * `hT`   the request fits the size the target granted (`path size + size + 8` bytes suffice). -/
theorem write_member_path_e2e (cfg : Cfg) (w : Cli.World Ext) (sess : Nat) (cidb : Bytes) (conn : Conn)
    (st : LState) (s : Symbol) (tid0 : Nat) (tm0 : Template) (idx0 : List Nat) (li : Nat) (hops : List ldr4_Hop)
    (info leaf : TagInfo) (c sz : Nat) (name : Name) (t : Ty) (v : PyVal) (bytes : Bytes)
    (hw : ldr_Healthy w sess cidb conn) (hlogix : w.net.target.ext.logix = some st)
    (hs : s ∈ st.proj.controller)
    (hbytes : ∀ s' ∈ st.proj.controller, ∀ ch ∈ s'.name, ch < 256)
    (huniqN : ∀ s' ∈ st.proj.controller, s'.name = s.name → s' = s)
    (huniqI : ∀ s' ∈ st.proj.controller, s'.inst = s.inst → s' = s)
    (hl0 : ldr2_Level ⟨s.name, idx0⟩)
    (hty : elTyOfWord s.symbolType = .struct tid0) (htm0 : st.proj.template? tid0 = some tm0)
    (hidx : (idx0 = [] ∧ li = 0) ∨ (idx0 ≠ [] ∧ linearIndex s.dims idx0 = some li))
    (hne : hops ≠ []) (hchain : ldr4_Chain st.proj (.struct tid0) hops (.atomic c))
    (hlv : ∀ h ∈ hops, ldr2_Level h.level)
    (hnum : ∀ h, hops.getLast? = some h → PyStr.isDigit h.m.name = false)
    (hsize : ldr4_pathSize (ldr4_levels s.name idx0 hops) ≤ 500)
    (hat : atomicOfCode c = some (name, t)) (hb : t.isBits = none) (hsz : atomicSize c = some sz)
    (hin : li * tm0.size + ldr4_offset hops + sz ≤ s.mem.length)
    (hget : cfg.tags.get? s.name = some info) (hk : info.core.tagType = .struct)
    (hpath : ldr4_InfoPath info.members (hops.map (·.m.name)) leaf) (hleaf : ldr4_LeafOf leaf name t)
    (hcanon : Canon t v) (henc : encode t v = .ok bytes)
    (hC : ldr4_pathSize (ldr4_levels s.name idx0 hops) + 2 * sz + 8 ≤ w.drv.connectionSize)
    (hT : ldr4_pathSize (ldr4_levels s.name idx0 hops) + sz + 8 ≤ conn.size) :
    ∃ w' frm, write hookAll cfg w [(renderTag (ldr4_levels s.name idx0 hops), v)] =
        (w', .ok [{ tag := renderTag (ldr4_levels s.name idx0 hops), value := v, type := some name, error := none }]) ∧
      (({ tag := renderTag (ldr4_levels s.name idx0 hops), value := v, type := some name, error := none } : LTag).truthy = true) ∧
      w'.drv = w.drv.nextSeq.2 ∧ w'.net.sent = w.net.sent ++ [frm] ∧
      w'.net.target.ext =
        { w.net.target.ext with
          logix := some { st with proj := written st.proj (ldwx_locPath s tm0 li hops (.atomic c))
                                    (li * tm0.size + ldr4_offset hops) bytes } } ∧
      bytes.length = sz ∧
      ldr_Healthy w' sess cidb { conn with lastSeq := some w.drv.nextSeq.1 } := by
  obtain ⟨w', frm, h1, h2, h3, h4, h5, h6⟩ := ldwx_write_path_leaf cfg w sess cidb conn st s tid0 tm0 idx0 li hops info leaf c sz
    name t v bytes hw hlogix hs hbytes huniqN huniqI hl0 hty htm0 hidx hne hchain hlv hnum hsize hat hb hsz hin hget hk hpath
    hleaf hcanon henc hC hT
  obtain ⟨haty, _⟩ := ldr_atomic_table c sz name t hat hb hsz
  exact ⟨w', frm, h1, ldwx_truthy_of _ (ldwx_canon_ne_none c t v haty hb hcanon) rfl, h2, h3, h4, h5, h6⟩

/-- C02, what `written p loc off bytes` of `write_member_path_e2e` means, for the location `loc` of the leaf (byte
    offset `off = li · tm0.size + ldr4_offset hops`, `sz` bytes) inside the controller-scope structure symbol `s`: the
    project afterwards is `ldw2_proj p s off bytes`, in which
    * templates, program scopes, the number and order of the controller-scope symbols are unchanged;
    * every other controller-scope symbol is unchanged byte for byte, and `s` is the only symbol with its instance id;
    * the changed symbol keeps name, instance id, type word, dimensions and the length of its memory;
    * its memory holds exactly `bytes` at the leaf's bytes `[off, off + sz)`, and EVERY other byte of the tag — every
      other member at every level, every other array element, every padding byte — is unchanged;
    * ONE write-log entry `(instance, off, sz)` was appended: the write was applied exactly once. -/
theorem write_member_path_effect (p : Project) (s : Symbol) (tm0 : Template) (li : Nat) (hops : List ldr4_Hop)
    (c sz : Nat) (bytes : Bytes)
    (huniqI : ∀ s' ∈ p.controller, s'.inst = s.inst → s' = s)
    (hin : li * tm0.size + ldr4_offset hops + sz ≤ s.mem.length) (hbl : bytes.length = sz) :
    written p (ldwx_locPath s tm0 li hops (.atomic c)) (li * tm0.size + ldr4_offset hops) bytes =
      ldw2_proj p s (li * tm0.size + ldr4_offset hops) bytes ∧
    (ldw2_proj p s (li * tm0.size + ldr4_offset hops) bytes).templates = p.templates ∧
    (ldw2_proj p s (li * tm0.size + ldr4_offset hops) bytes).programs = p.programs ∧
    (ldw2_proj p s (li * tm0.size + ldr4_offset hops) bytes).controller.length = p.controller.length ∧
    (∀ (j : Nat) (x : Symbol), p.controller[j]? = some x →
        (ldw2_proj p s (li * tm0.size + ldr4_offset hops) bytes).controller[j]? =
          some (if x.inst = s.inst then ldw2_sym s (li * tm0.size + ldr4_offset hops) bytes else x) ∧
        (x.inst = s.inst → x = s)) ∧
    ((ldw2_sym s (li * tm0.size + ldr4_offset hops) bytes).inst = s.inst ∧
      (ldw2_sym s (li * tm0.size + ldr4_offset hops) bytes).name = s.name ∧
      (ldw2_sym s (li * tm0.size + ldr4_offset hops) bytes).symbolType = s.symbolType ∧
      (ldw2_sym s (li * tm0.size + ldr4_offset hops) bytes).dims = s.dims) ∧
    (ldw2_sym s (li * tm0.size + ldr4_offset hops) bytes).mem.length = s.mem.length ∧
    ((ldw2_sym s (li * tm0.size + ldr4_offset hops) bytes).mem.drop (li * tm0.size + ldr4_offset hops)).take sz = bytes ∧
    (∀ j, (j < li * tm0.size + ldr4_offset hops ∨ li * tm0.size + ldr4_offset hops + sz ≤ j) →
        (ldw2_sym s (li * tm0.size + ldr4_offset hops) bytes).mem[j]? = s.mem[j]?) ∧
    (ldw2_proj p s (li * tm0.size + ldr4_offset hops) bytes).writeLog =
      p.writeLog ++ [(s.inst, li * tm0.size + ldr4_offset hops, sz)] := by
  obtain ⟨h1, h2, h3, h4, h5, h6, h7, h8, h9⟩ := ldw2_effect p s (li * tm0.size + ldr4_offset hops) bytes huniqI (by omega)
  rw [hbl] at h7 h8 h9
  exact ⟨ldw2_written_eq p s _ _ bytes rfl rfl, h1, h2, h3, h4, h5, h6, h7, h8, h9⟩

/-- C02, driver level: `write` of a member path of any depth followed by `read` of the same path returns the written
    value; both Tags are error-free. Hypotheses as in `write_member_path_e2e`; the sizes `path size + 24` (driver) and
    `path size + 18` (target) cover both requests. The controller's project after both calls is the one after the
    write (`ldw2_proj`: the leaf's bytes hold `bytes`, one write logged — `write_member_path_effect`); two frames were
    written. -/
theorem write_then_read_member_path_e2e (cfg : Cfg) (w : Cli.World Ext) (sess : Nat) (cidb : Bytes) (conn : Conn)
    (st : LState) (s : Symbol) (tid0 : Nat) (tm0 : Template) (idx0 : List Nat) (li : Nat) (hops : List ldr4_Hop)
    (info leaf : TagInfo) (c sz : Nat) (name : Name) (t : Ty) (v : PyVal) (bytes : Bytes)
    (hw : ldr_Healthy w sess cidb conn) (hlogix : w.net.target.ext.logix = some st)
    (hs : s ∈ st.proj.controller)
    (hbytes : ∀ s' ∈ st.proj.controller, ∀ ch ∈ s'.name, ch < 256)
    (huniqN : ∀ s' ∈ st.proj.controller, s'.name = s.name → s' = s)
    (huniqI : ∀ s' ∈ st.proj.controller, s'.inst = s.inst → s' = s)
    (hl0 : ldr2_Level ⟨s.name, idx0⟩)
    (hty : elTyOfWord s.symbolType = .struct tid0) (htm0 : st.proj.template? tid0 = some tm0)
    (hidx : (idx0 = [] ∧ li = 0) ∨ (idx0 ≠ [] ∧ linearIndex s.dims idx0 = some li))
    (hne : hops ≠ []) (hchain : ldr4_Chain st.proj (.struct tid0) hops (.atomic c))
    (hlv : ∀ h ∈ hops, ldr2_Level h.level)
    (hnum : ∀ h, hops.getLast? = some h → PyStr.isDigit h.m.name = false)
    (hsize : ldr4_pathSize (ldr4_levels s.name idx0 hops) ≤ 500)
    (hat : atomicOfCode c = some (name, t)) (hb : t.isBits = none) (hsz : atomicSize c = some sz)
    (hin : li * tm0.size + ldr4_offset hops + sz ≤ s.mem.length)
    (hget : cfg.tags.get? s.name = some info) (hk : info.core.tagType = .struct)
    (hpath : ldr4_InfoPath info.members (hops.map (·.m.name)) leaf) (hleaf : ldr4_LeafOf leaf name t)
    (hcanon : Canon t v) (henc : encode t v = .ok bytes)
    (hC : ldr4_pathSize (ldr4_levels s.name idx0 hops) + 24 ≤ w.drv.connectionSize)
    (hT : ldr4_pathSize (ldr4_levels s.name idx0 hops) + 18 ≤ conn.size) :
    ∃ w1 w2 frm1 frm2,
      write hookAll cfg w [(renderTag (ldr4_levels s.name idx0 hops), v)] =
        (w1, .ok [{ tag := renderTag (ldr4_levels s.name idx0 hops), value := v, type := some name, error := none }]) ∧
      read hookAll cfg w1 [renderTag (ldr4_levels s.name idx0 hops)] =
        (w2, .ok [{ tag := renderTag (ldr4_levels s.name idx0 hops), value := v, type := some name, error := none }]) ∧
      w2.net.sent = w.net.sent ++ [frm1, frm2] ∧
      w2.net.target.ext =
        { w.net.target.ext with
          logix := some { st with proj := ldw2_proj st.proj s (li * tm0.size + ldr4_offset hops) bytes,
                                  ctr := st.ctr + 1 } } ∧
      ldr_Healthy w2 sess cidb { conn with lastSeq := some w.drv.nextSeq.2.nextSeq.1 } :=
  ldwx_write_then_read_path cfg w sess cidb conn st s tid0 tm0 idx0 li hops info leaf c sz name t v bytes hw hlogix hs hbytes
    huniqN huniqI hl0 hty htm0 hidx hne hchain hlv hnum hsize hat hb hsz hin hget hk hpath hleaf hcanon henc hC hT

/-- what the functions of `ldwx_Item` are, kind by kind: the `(tag string, value)` pair handed to `write`, the Tag
    returned, and the write `(instance id, byte offset, bytes)` the controller performs (`none`: refused).
    * `scalar x`  `(name, v)`; Tag `name`, `v`, type name; the whole symbol: offset 0, the encoding of `v`;
    * `elem x`    `(name[i], v)`; Tag `name[i]`, `v`, type name; element `i`: offset `i · sz`;
    * `slice x`   `(name[i]{n}, [v1 … vn])`; Tag `name[i]` (no `{n}`), the list, type `T[n]` (`T` for n = 1); elements
                  `i … i + n - 1`: offset `i · sz`, `n · sz` bytes;
    * `member x`  `(tag[i].m1[j]. … .leaf, v)`; Tag named as requested, `v`, the leaf's type name; the leaf's bytes at
                  `li · (structure size) + ldr4_offset hops` of the tag;
    * `str x`     `(name, "text")`; Tag `name`, the caller's text, the string type's name; the whole tag: LEN, the
                  characters kept, zero padding (`ldw3_strBytes`);
    * `struct x`  `(name, {…})`; Tag `name`, the dict, the structure's name; the whole tag: the structure encoding;
    * `oob x`     `(name[i], v)` with `i` beyond the array; a falsy Tag with the controller's error; nothing written. -/
theorem write_mixed_items (cfg : Cfg) (a : ldwn_Scalar) (e : ldwx_Elem) (sl : ldwx_Slice) (m : ldwx_Member) (st : ldwx_Str)
    (su : ldwx_Struct) (o : ldwn_Oob) :
    ((ldwx_Item.scalar a).request cfg = (a.s.name, a.v) ∧
      (ldwx_Item.scalar a).out = { tag := a.s.name, value := a.v, type := some a.tname, error := none } ∧
      (ldwx_Item.scalar a).target = some (a.s.inst, 0, a.bytes)) ∧
    ((ldwx_Item.elem e).request cfg = (e.s.name ++ [91] ++ decRender e.i ++ [93], e.v) ∧
      (ldwx_Item.elem e).out = { tag := e.s.name ++ [91] ++ decRender e.i ++ [93], value := e.v, type := some e.tname, error := none } ∧
      (ldwx_Item.elem e).target = some (e.s.inst, e.i * e.sz, e.bytes)) ∧
    ((ldwx_Item.slice sl).request cfg =
        (sl.s.name ++ [91] ++ decRender sl.i ++ [93] ++ [123] ++ decRender sl.n ++ [125], .list sl.vs) ∧
      (ldwx_Item.slice sl).out = { tag := sl.s.name ++ [91] ++ decRender sl.i ++ [93], value := .list sl.vs,
                                   type := some (ldr2_typeStr sl.tname sl.n), error := none } ∧
      (ldwx_Item.slice sl).target = some (sl.s.inst, sl.i * sl.sz, sl.bytes)) ∧
    ((ldwx_Item.member m).request cfg = (renderTag (ldr4_levels m.s.name m.idx0 m.hops), m.v) ∧
      (ldwx_Item.member m).out = { tag := renderTag (ldr4_levels m.s.name m.idx0 m.hops), value := m.v, type := some m.tname,
                                   error := none } ∧
      (ldwx_Item.member m).target = some (m.s.inst, m.li * m.tm0.size + ldr4_offset m.hops, m.bytes)) ∧
    ((ldwx_Item.str st).request cfg = (st.s.name, .str st.cs) ∧
      (ldwx_Item.str st).out = { tag := st.s.name, value := .str st.cs, type := some st.si.name, error := none } ∧
      (ldwx_Item.str st).target = some (st.s.inst, 0, ldw3_strBytes st.cap st.cs)) ∧
    ((ldwx_Item.struct su).request cfg = (su.s.name, .dict su.kvs) ∧
      (ldwx_Item.struct su).out = { tag := su.s.name, value := .dict su.kvs, type := some su.si.name, error := none } ∧
      (ldwx_Item.struct su).target = some (su.s.inst, 0, su.bytes)) ∧
    ((ldwx_Item.oob o).request cfg = (o.s.name ++ [91] ++ decRender o.i ++ [93], o.v) ∧
      (ldwx_Item.oob o).out = { tag := o.s.name ++ [91] ++ decRender o.i ++ [93], value := o.v, type := some o.tname,
                                error := some ldwn_oobError } ∧
      (ldwx_Item.oob o).target = none) :=
  ⟨⟨rfl, rfl, rfl⟩, ⟨rfl, rfl, rfl⟩, ⟨rfl, rfl, rfl⟩, ⟨rfl, rfl, rfl⟩, ⟨rfl, rfl, rfl⟩, ⟨rfl, rfl, rfl⟩, ⟨rfl, rfl, rfl⟩⟩

/-- the driver's accounting `len(request.message)` of a request (`ldwx_Item.acct`, the quantity `hfit1` of
    `write_mixed_e2e` speaks about) in terms of names, sizes and indexes only (`ldwx_Item.bound`): at most
    * `name length + 32` for a scalar tag, `name length + size + 26` for an array element,
      `name length + n · size + 26` for a slice of `n` elements,
    * `path size + size + 8` for a member path (`ldr4_pathSize`: 3 bytes + the name per level, 6 bytes per index),
    * `name length + structure size + 22` for a string or a whole structure,
    * `name length + digits of the index + 34` for an element beyond an array.
    So `hfit1` holds whenever `bound + 10 ≤ connection size`; it excludes only requests that are so large that the
    driver sends them with Write Tag Fragmented (for the elementary kinds: connections of a few dozen bytes). -/
theorem write_mixed_acct_le (cfg : Cfg) (p : Project) (x : ldwx_Item)
    (hbytes : ∀ s' ∈ p.controller, ∀ ch ∈ s'.name, ch < 256) (h : ldwx_ItemOk cfg p x) : x.acct cfg ≤ x.bound :=
  ldwx_item_acct_le cfg p x hbytes h

/-- C02 (and C03), driver level, MIXED shapes in one call: `write(r1, …, rn)`, n ≥ 2, where every request is one of the
    kinds of `ldwx_Item` (`write_mixed_items`) — a whole elementary scalar tag, an element of a one-dimensional array
    of an elementary type, a slice of such an array, a member path of any depth ending at an elementary member (Goal A),
    a string tag with a `str`, a whole structure tag with a dict, or an element BEYOND an array (refused by the
    controller) — in any order and any combination, on a healthy connected driver that is not a Micro800, each request
    fitting a multi-service packet alone: no exception; the Tags come back one per request in request order
    (`its.map (·.out)`: the Tag each request gets alone — `write_atomic_scalar_e2e`, `write_atomic_element_e2e`,
    `write_atomic_slice_e2e`, `write_member_path_e2e`, `write_string_e2e`, `write_struct_e2e`,
    `write_refused_single_e2e`), error-free and truthy for every accepted request, falsy with the controller's "beyond
    end of the object" error for a refused one. The driver draws `n` sequence numbers for the Write Tag packets, groups
    them greedily into `k` Multiple Service Packets (`K.plan` over the accounted sizes `len(request.message)`: a packet
    is closed when the next request would push the accounted size beyond the connection size), draws one sequence number
    per packet and writes `k` frames. The controller executes the embedded requests one after the other; its project
    afterwards is
        `ldwx_applyAll st.proj (ldwx_targets its)`
    — the old project with the write `(instance id, byte offset, bytes)` of every ACCEPTED request applied, in request
    order, each exactly once; a refused request leaves no trace —, described by `write_mixed_effect`. The resulting
    world is healthy again.

    Disjointness of the target locations is NOT needed here (overlapping writes are applied in request order, the later
    one wins on the bytes they share); it is what makes "afterwards every request's bytes are in memory" true:
    `write_mixed_effect` under `ldwx_Disjoint`.

    Hypotheses: `hok`: per request the hypotheses of the single-request theorem of its kind (`ldwx_ItemOk`), all about
    the project BEFORE the call; `hmicro`, `hn`: a single request or a Micro800 takes the single-request path; `hfit1`:
    every request stays below the fragmentation threshold of the multi-request path, `len(request.message) + 10 ≤
    connection size` by the driver's own accounting (`ldwx_Item.acct`: 2 + 1 + request path + type (2, or 4 for a
    structure) + 2 + value bytes, bounded by `write_mixed_acct_le`; excluded: requests sent with Write Tag Fragmented after
    the packets); `hCT`, `hCmax`
    as in `write_n_tags_e2e`. -/
theorem write_mixed_e2e (cfg : Cfg) (w : Cli.World Ext) (sess : Nat) (cidb : Bytes) (conn : Conn)
    (st : LState) (its : List ldwx_Item)
    (hw : ldr_Healthy w sess cidb conn) (hlogix : w.net.target.ext.logix = some st) (hmicro : cfg.micro800 = false)
    (hn : 2 ≤ its.length)
    (hbytes : ∀ s' ∈ st.proj.controller, ∀ ch ∈ s'.name, ch < 256)
    (hok : ∀ x ∈ its, ldwx_ItemOk cfg st.proj x)
    (hfit1 : ∀ x ∈ its, x.acct cfg + K.OVERHEAD ≤ w.drv.connectionSize)
    (hCT : w.drv.connectionSize ≤ conn.size) (hCmax : w.drv.connectionSize ≤ 65400) :
    ∃ w' frms ls, write hookAll cfg w (its.map (·.request cfg)) = (w', .ok (its.map (·.out))) ∧
      (∀ x ∈ its, x.accepted = true → x.out.error = none ∧ x.out.truthy = true) ∧
      (∀ x ∈ its, x.accepted = false → x.out.truthy = false ∧ x.out.error = some ldwn_oobError) ∧
      frms.length = (K.plan w.drv.connectionSize (ldwn_planItems 0 (its.map (·.acct cfg)))).groups.length ∧
      w'.drv = ldwn_seqN (its.length + frms.length) w.drv ∧ w'.net.sent = w.net.sent ++ frms ∧
      w'.net.target.ext =
        { w.net.target.ext with logix := some { st with proj := ldwx_applyAll st.proj (ldwx_targets its) } } ∧
      ldr_Healthy w' sess cidb { conn with lastSeq := ls } := by
  obtain ⟨w', frms, h1, h2, h3, h4, h5, h6⟩ := ldwx_write_mixed cfg w sess cidb conn st its hw hlogix hmicro hn hbytes hok
    hfit1 hCT hCmax
  rw [ldwx_apply_targets] at h5
  rw [← h4] at h2
  rw [ldwx_packets_eq] at h4
  exact ⟨w', frms, _, h1, fun x hx => (ldwx_out_accepted cfg st.proj x (hok x hx)).1,
    fun x hx => (ldwx_out_accepted cfg st.proj x (hok x hx)).2, h4, h2, h3, h5, h6⟩

/-- C02, what the project `ldwx_applyAll p (ldwx_targets its)` after `write_mixed_e2e` is — the old project with the
    writes `(instance id, byte offset, bytes)` of the accepted requests (`ldwx_targets its`, in request order;
    `write_mixed_items`) applied one after the other —, for requests that satisfy the per-request hypotheses on `p`:
    * templates, program scopes, the number and order of the controller-scope symbols are unchanged;
    * the symbol at every position becomes `ldwx_symAfter ws y`: it keeps instance id, name, type word, dimensions
      and the LENGTH of its memory;
    * a symbol no accepted request addresses is unchanged byte for byte;
    * EVERY byte of a symbol outside the byte ranges of the requests that address it is unchanged — other elements,
      other members, padding;
    * when the target locations are pairwise DISJOINT (`ldwx_Disjoint its`: different symbols, or byte ranges that do
      not meet), the bytes of EVERY accepted request are in memory afterwards, at its offset — whatever else was
      written in the same call;
    * the write log grew by exactly one entry `(instance, offset, length)` per accepted request, in request order:
      every accepted write was applied exactly once, a refused request was not applied at all.
    Without disjointness (overlapping writes in one call) the writes are still applied in request order, so a later
    write wins on the bytes it shares with an earlier one (`ExMix`: `#guard` under "the hypotheses"). -/
theorem write_mixed_effect (cfg : Cfg) (p : Project) (its : List ldwx_Item)
    (hbytes : ∀ s' ∈ p.controller, ∀ ch ∈ s'.name, ch < 256)
    (hok : ∀ x ∈ its, ldwx_ItemOk cfg p x) :
    (ldwx_applyAll p (ldwx_targets its)).templates = p.templates ∧
    (ldwx_applyAll p (ldwx_targets its)).programs = p.programs ∧
    (ldwx_applyAll p (ldwx_targets its)).controller.length = p.controller.length ∧
    (∀ (i : Nat) (y : Symbol), p.controller[i]? = some y →
        (ldwx_applyAll p (ldwx_targets its)).controller[i]? = some (ldwx_symAfter (ldwx_targets its) y)) ∧
    (∀ y ∈ p.controller,
        (ldwx_symAfter (ldwx_targets its) y).inst = y.inst ∧ (ldwx_symAfter (ldwx_targets its) y).name = y.name ∧
        (ldwx_symAfter (ldwx_targets its) y).symbolType = y.symbolType ∧
        (ldwx_symAfter (ldwx_targets its) y).dims = y.dims ∧
        (ldwx_symAfter (ldwx_targets its) y).mem.length = y.mem.length) ∧
    (∀ y ∈ p.controller, (∀ w ∈ ldwx_targets its, w.1 ≠ y.inst) → ldwx_symAfter (ldwx_targets its) y = y) ∧
    (∀ y ∈ p.controller, ∀ j, (∀ w ∈ ldwx_targets its, w.1 = y.inst → j < w.2.1 ∨ w.2.1 + w.2.2.length ≤ j) →
        (ldwx_symAfter (ldwx_targets its) y).mem[j]? = y.mem[j]?) ∧
    (ldwx_Disjoint its → ∀ y ∈ p.controller, ∀ w ∈ ldwx_targets its, w.1 = y.inst →
        ((ldwx_symAfter (ldwx_targets its) y).mem.drop w.2.1).take w.2.2.length = w.2.2) ∧
    (∀ w ∈ ldwx_targets its, ∃ y ∈ p.controller, y.inst = w.1 ∧ w.2.1 + w.2.2.length ≤ y.mem.length) ∧
    (ldwx_applyAll p (ldwx_targets its)).writeLog =
      p.writeLog ++ (ldwx_targets its).map fun w => (w.1, w.2.1, w.2.2.length) := by
  have hfits : ∀ y ∈ p.controller, ldwx_FitsSym (ldwx_targets its) y := by
    intro y hy w hw hi
    obtain ⟨x, hx, hxt⟩ := List.mem_filterMap.1 hw
    obtain ⟨s, hs, hsi, huniq, hfit⟩ := ldwx_target_fits cfg p x (ldwx_item_facts cfg p x hbytes (hok x hx)) w hxt
    rw [huniq y hy hi.symm]
    exact hfit
  rw [ldwx_applyAll_eq]
  refine ⟨rfl, rfl, by simp, ?_, ?_, ?_, ?_, ?_, ?_, rfl⟩
  · intro i y hy
    show (p.controller.map (ldwx_symAfter (ldwx_targets its)))[i]? = _
    rw [List.getElem?_map, hy]; rfl
  · intro y hy
    obtain ⟨a, b, c, d⟩ := ldwx_symAfter_shape (ldwx_targets its) y
    exact ⟨a, b, c, d, ldwx_symAfter_len _ y (hfits y hy)⟩
  · intro y _ h
    exact ldwx_symAfter_untouched _ y h
  · intro y hy j h
    exact ldwx_symAfter_outside _ y j (hfits y hy) h
  · intro hd y hy w hw hi
    exact ldwx_symAfter_holds _ y (hfits y hy) hd w hw hi
  · intro w hw
    obtain ⟨x, hx, hxt⟩ := List.mem_filterMap.1 hw
    obtain ⟨s, hs, hsi, _, hfit⟩ := ldwx_target_fits cfg p x (ldwx_item_facts cfg p x hbytes (hok x hx)) w hxt
    exact ⟨s, hs, hsi, hfit⟩

/-- C02, the ORDER of the requests is irrelevant for the memory when their target locations are pairwise disjoint:
    two calls with the same requests in any two orders (`its'` a permutation of `its`) leave every controller-scope
    symbol with the same bytes (the write logs list the writes in the respective request order). Pure statement about
    `ldwx_applyAll`; with `write_mixed_e2e` for both calls it says that the controller's memory after
    `write(r1, …, rn)` does not depend on the order of disjoint requests. -/
theorem write_mixed_order_irrelevant (cfg : Cfg) (p : Project) (its its' : List ldwx_Item)
    (hbytes : ∀ s' ∈ p.controller, ∀ ch ∈ s'.name, ch < 256)
    (hok : ∀ x ∈ its, ldwx_ItemOk cfg p x) (hperm : its.Perm its') (hdisj : ldwx_Disjoint its) :
    (ldwx_applyAll p (ldwx_targets its')).controller = (ldwx_applyAll p (ldwx_targets its)).controller ∧
    (ldwx_applyAll p (ldwx_targets its')).templates = (ldwx_applyAll p (ldwx_targets its)).templates ∧
    (ldwx_applyAll p (ldwx_targets its')).programs = (ldwx_applyAll p (ldwx_targets its)).programs := by
  have hp : (ldwx_targets its).Perm (ldwx_targets its') := hperm.filterMap _
  rw [ldwx_applyAll_eq, ldwx_applyAll_eq]
  refine ⟨?_, rfl, rfl⟩
  show p.controller.map (ldwx_symAfter (ldwx_targets its')) = p.controller.map (ldwx_symAfter (ldwx_targets its))
  apply List.map_congr_left
  intro y hy
  refine (ldwx_symAfter_perm _ _ hp y ?_ hdisj).symm
  intro w hw hi
  obtain ⟨x, hx, hxt⟩ := List.mem_filterMap.1 hw
  obtain ⟨s, hs, hsi, huniq, hfit⟩ := ldwx_target_fits cfg p x (ldwx_item_facts cfg p x hbytes (hok x hx)) w hxt
  rw [huniq y hy hi.symm]
  exact hfit

/-- C03 (and C02), driver level, failure isolation among requests of mixed shapes: in `write(r1, …, rn)` as in
    `write_mixed_e2e`, with any subset of the requests refused by the controller (elements beyond an array) and at
    least two accepted ones, compare the call with the call that leaves the refused requests out
    (`its.filter (·.accepted)`), from the same world:
    * both return without exception; the refused requests get falsy Tags carrying the controller's error, and the
      Tags of the accepted requests are THE SAME in both calls (`x.out` depends on the request alone): what a request
      returns does not depend on its neighbours in the packet;
    * the controller's Logix state after both calls is THE SAME — memory of every symbol AND write log: the refused
      requests leave no trace, every accepted write is applied exactly once, in request order, whatever its
      neighbours are. -/
theorem write_mixed_isolated_e2e (cfg : Cfg) (w : Cli.World Ext) (sess : Nat) (cidb : Bytes) (conn : Conn)
    (st : LState) (its : List ldwx_Item)
    (hw : ldr_Healthy w sess cidb conn) (hlogix : w.net.target.ext.logix = some st) (hmicro : cfg.micro800 = false)
    (hn : 2 ≤ (its.filter (·.accepted)).length)
    (hbytes : ∀ s' ∈ st.proj.controller, ∀ ch ∈ s'.name, ch < 256)
    (hok : ∀ x ∈ its, ldwx_ItemOk cfg st.proj x)
    (hfit1 : ∀ x ∈ its, x.acct cfg + K.OVERHEAD ≤ w.drv.connectionSize)
    (hCT : w.drv.connectionSize ≤ conn.size) (hCmax : w.drv.connectionSize ≤ 65400) :
    ∃ w1 w2 ls1 ls2,
      write hookAll cfg w (its.map (·.request cfg)) = (w1, .ok (its.map (·.out))) ∧
      write hookAll cfg w ((its.filter (·.accepted)).map (·.request cfg)) = (w2, .ok ((its.filter (·.accepted)).map (·.out))) ∧
      (∀ x ∈ its, x.accepted = false → x.out.truthy = false ∧ x.out.error = some ldwn_oobError) ∧
      (∀ x ∈ its, x.accepted = true → x.out.error = none ∧ x.out.truthy = true) ∧
      w1.net.target.ext = w2.net.target.ext ∧
      w1.net.target.ext =
        { w.net.target.ext with logix := some { st with proj := ldwx_applyAll st.proj (ldwx_targets its) } } ∧
      ldr_Healthy w1 sess cidb { conn with lastSeq := ls1 } ∧ ldr_Healthy w2 sess cidb { conn with lastSeq := ls2 } := by
  have hle := ldwx_filter_length_le its (·.accepted)
  obtain ⟨w1, _, ls1, a1, a2, a3, _, _, _, a7, a8⟩ := write_mixed_e2e cfg w sess cidb conn st its hw hlogix hmicro (by omega)
    hbytes hok hfit1 hCT hCmax
  obtain ⟨w2, _, ls2, b1, _, _, _, _, _, b7, b8⟩ := write_mixed_e2e cfg w sess cidb conn st (its.filter (·.accepted)) hw hlogix
    hmicro hn hbytes (fun x hx => hok x (List.mem_filter.1 hx).1) (fun x hx => hfit1 x (List.mem_filter.1 hx).1) hCT hCmax
  rw [ldwx_targets_accepted] at b7
  exact ⟨w1, w2, ls1, ls2, a1, b1, a3, a2, by rw [a7, b7], a7, a8, b8⟩

/-! ### non-vacuity: a project with a scalar `abc : DINT`, an array `arr : DINT[4]`, a flat structure `p1 : Pt`, a string
    `s1 : STR8` and a NESTED structure `o1 : Outer { a : DINT; inn : Inner { x : INT; y : REAL }; arr : Inner[2] }`; the
    world is obtained by RUNNING the model (`open()`, Forward Open) for a driver that asks for a `c`-byte connection -/

namespace ExMix
open Ex

def projM : Project :=
  { templates := [Ex3.tmplPt, Ex3.tmplStr, Ex4.tInner, Ex4.tOuter],
    controller := [ExWN.symA, ExWN.symArr, Ex3.symP1, Ex3.symS1, Ex4.symO1], programs := [] }
def stateM : LState := { proj := projM }
/-- a fresh driver asking for a `c`-byte connection in front of a fresh target holding the project -/
def world0M (c : Nat) : Cli.World Ext :=
  { drv := { connectionSize := c }, net := { target := { base := base, ext := { logix := some stateM } } } }
/-- after `open()` and the Forward Open: the model is run; the target grants the `c` bytes -/
def worldM (c : Nat) : Cli.World Ext :=
  (Cli.ensureForwardOpen hookAll Cli.FUEL (Cli.openDrv hookAll (world0M c) [1, 2, 3, 4, 5, 6, 7, 8]).1).1
/-- the driver configuration after the tag upload: the tag database computed from the project -/
def cfgM : Cfg := { tags := (tagDbOf projM false).getD [] }
def connM (c : Nat) : Tgt.Conn := { conn with size := c }

/-- the steps of `o1.inn.y` and of `o1.arr[1].x` -/
def hopInn : ldr4_Hop := ⟨Ex4.tOuter, Ex4.mInn, [], 8⟩
def hopY : ldr4_Hop := ⟨Ex4.tInner, Ex4.mY, [], 4⟩
def hopArr1 : ldr4_Hop := ⟨Ex4.tOuter, Ex4.mArr, [1], 8⟩
def hopX : ldr4_Hop := ⟨Ex4.tInner, Ex4.mX, [], 2⟩

/-- `("abc", 5)` -/
def iA : ldwx_Item := .scalar ExWN.xA
/-- `("arr[2]", 77)` -/
def eArr2 : ldwx_Elem :=
  { s := ExWN.symArr, info := ExWN.infoArrN, c := 0xC4, sz := 4, dim := 4, i := 2, tname := Drv.nm "DINT", t := .int .dint,
    v := .int 77, bytes := [77, 0, 0, 0] }
/-- `("o1.inn.y", 2.5)`: depth two, the REAL at byte 4 + 4 of `o1` -/
def mInnY : ldwx_Member :=
  { s := Ex4.symO1, tid0 := 0x211, tm0 := Ex4.tOuter, idx0 := [], li := 0, hops := [hopInn, hopY], info := Ex4.infoO1,
    leaf := Ex4.minfoY, c := 0xCA, sz := 4, tname := Drv.nm "REAL", t := .real, v := .float 4612811918334230528,
    bytes := [0, 0, 32, 64] }
/-- `("s1", "Hi")` -/
def sHi : ldwx_Str :=
  { s := Ex3.symS1, tid := 0x202, tm := Ex3.tmplStr, info := Ex3.infoS1, si := Ex3.siStr, cap := 8, cs := [72, 105] }
/-- `("arr[0]{2}", [11, 12])` -/
def slArr : ldwx_Slice :=
  { s := ExWN.symArr, info := ExWN.infoArrN, c := 0xC4, sz := 4, dim := 4, i := 0, n := 2, tname := Drv.nm "DINT",
    t := .int .dint, vs := [.int 11, .int 12], bytes := [11, 0, 0, 0, 12, 0, 0, 0] }
/-- `("p1", {"x": 9, "y": 3})` -/
def suP1 : ldwx_Struct :=
  { s := Ex3.symP1, tid := 0x201, tm := Ex3.tmplPt, info := Ex3.infoP1, si := Ex3.siPt, ms := ExW3.msPt, bits := [], priv := [],
    size := 8, kvs := ExW3.kvsPt, bytes := [9, 0, 0, 0, 3, 0, 0, 0] }
/-- `("o1.arr[1].x", 7)`: an index inside the path, the INT at byte 12 + 1 · 8 + 0 of `o1` -/
def mArrX : ldwx_Member :=
  { s := Ex4.symO1, tid0 := 0x211, tm0 := Ex4.tOuter, idx0 := [], li := 0, hops := [hopArr1, hopX], info := Ex4.infoO1,
    leaf := Ex4.minfoX, c := 0xC3, sz := 2, tname := Drv.nm "INT", t := .int .int, v := .int 7, bytes := [7, 0] }

/-- a scalar, an element, a nested member and a string in one call -/
def four : List ldwx_Item := [iA, .elem eArr2, .member mInnY, .str sHi]
/-- a slice, a refused element, a whole structure and a nested member behind an index in one call -/
def mixed : List ldwx_Item := [.slice slArr, .oob (ExWN.oob 9), .struct suP1, .member mArrX]

def tvsFour : List (Name × PyVal) :=
  [(Drv.nm "abc", .int 5), (Drv.nm "arr[2]", .int 77), (Drv.nm "o1.inn.y", .float 4612811918334230528), (Drv.nm "s1", .str [72, 105])]
def tvsMixed : List (Name × PyVal) :=
  [(Drv.nm "arr[0]{2}", .list [.int 11, .int 12]), (Drv.nm "arr[9]", .int 1), (Drv.nm "p1", .dict ExW3.kvsPt),
   (Drv.nm "o1.arr[1].x", .int 7)]

/-- `o1` after `o1.inn.y := 2.5` / after `o1.arr[1].x := 7` -/
def memO1y : Bytes := [100, 0, 0, 0, 101, 0, 0, 0, 0, 0, 32, 64, 102, 0, 0, 0, 0, 0, 0, 64, 103, 0, 0, 0, 0, 0, 64, 64]
def memO1x : Bytes := [100, 0, 0, 0, 101, 0, 0, 0, 0, 0, 128, 63, 102, 0, 0, 0, 0, 0, 0, 64, 7, 0, 0, 0, 0, 0, 64, 64]

-- evaluation checks of the runs (interpreter)
#guard (worldM 4000).drv.targetIsConnected && (worldM 4000).drv.connectionSize == 4000 &&
  (worldM 4000).net.target.base.conns == [connM 4000]
#guard (worldM 60).drv.targetIsConnected && (worldM 60).drv.connectionSize == 60 &&
  (worldM 60).net.target.base.conns == [connM 60]
#guard cfgM.tags.map (·.1) == [Drv.nm "abc", Drv.nm "arr", Drv.nm "p1", Drv.nm "s1", Drv.nm "o1"]
-- the requests of the items are the strings above
#guard (four.map (·.request cfgM)).map (·.1) == tvsFour.map (·.1)
#guard (mixed.map (·.request cfgM)).map (·.1) == tvsMixed.map (·.1)
-- Goal A, one request: `write(("o1.inn.y", 2.5))` changes bytes 8–11 of `o1`, one log entry; the read-back returns 2.5
#guard wout (worldM 4000) cfgM [(Drv.nm "o1.inn.y", .float 4612811918334230528)] ==
  some ([(Drv.nm "o1.inn.y", some (Drv.nm "REAL"), true)],
        [ExWN.symA.mem, ExWN.symArr.mem, Ex3.symP1.mem, Ex3.symS1.mem, memO1y], [(30, 8, 4)], 1, 1)
#guard Ex4.okV (read hookAll cfgM (write hookAll cfgM (worldM 4000) [(Drv.nm "o1.inn.y", .float 4612811918334230528)]).1
  [Drv.nm "o1.inn.y"]).2 "o1.inn.y" "REAL" (.float 4612811918334230528)
-- … `write(("o1.arr[1].x", 7))` changes bytes 20–21
#guard wout (worldM 4000) cfgM [(Drv.nm "o1.arr[1].x", .int 7)] ==
  some ([(Drv.nm "o1.arr[1].x", some (Drv.nm "INT"), true)],
        [ExWN.symA.mem, ExWN.symArr.mem, Ex3.symP1.mem, Ex3.symS1.mem, memO1x], [(30, 20, 2)], 1, 1)
-- Goal B: scalar + element + nested member + string in ONE frame, 4 + 1 sequence numbers, four log entries in order
#guard wout (worldM 4000) cfgM tvsFour ==
  some ([(Drv.nm "abc", some (Drv.nm "DINT"), true), (Drv.nm "arr[2]", some (Drv.nm "DINT"), true),
         (Drv.nm "o1.inn.y", some (Drv.nm "REAL"), true), (Drv.nm "s1", some (Drv.nm "STR8"), true)],
        [[5, 0, 0, 0], [1, 0, 0, 0, 2, 0, 0, 0, 77, 0, 0, 0, 4, 0, 0, 0], Ex3.symP1.mem,
         [2, 0, 0, 0, 72, 105, 0, 0, 0, 0, 0, 0], memO1y],
        [(7, 0, 4), (9, 8, 4), (30, 8, 4), (22, 0, 12)], 1, 5)
-- the accounted sizes `len(request.message)` of the four Write Tag packets
#guard four.map (·.acct cfgM) == [16, 18, 26, 26] && mixed.map (·.acct cfgM) == [22, 18, 22, 26]
-- … on a 60-byte connection: THREE packets (10 + 16 + 18 = 44, + 26 = 70 > 60 | 10 + 26 = 36, + 26 = 62 > 60 | 10 + 26)
#guard (wout (worldM 60) cfgM tvsFour).map (fun r => (r.2.1, r.2.2.1, r.2.2.2)) ==
  some ([[5, 0, 0, 0], [1, 0, 0, 0, 2, 0, 0, 0, 77, 0, 0, 0, 4, 0, 0, 0], Ex3.symP1.mem,
         [2, 0, 0, 0, 72, 105, 0, 0, 0, 0, 0, 0], memO1y],
        [(7, 0, 4), (9, 8, 4), (30, 8, 4), (22, 0, 12)], 3, 7)
-- slice + refused element + whole structure + nested member behind an index: the refused one is falsy, no trace
#guard wout (worldM 4000) cfgM tvsMixed ==
  some ([(Drv.nm "arr[0]", some (Drv.nm "DINT[2]"), true), (Drv.nm "arr[9]", some (Drv.nm "DINT"), false),
         (Drv.nm "p1", some (Drv.nm "Pt"), true), (Drv.nm "o1.arr[1].x", some (Drv.nm "INT"), true)],
        [ExWN.symA.mem, [11, 0, 0, 0, 12, 0, 0, 0, 0xFF, 0xFF, 0xFF, 0xFF, 4, 0, 0, 0], [9, 0, 0, 0, 3, 0, 0, 0],
         Ex3.symS1.mem, memO1x],
        [(9, 0, 8), (21, 0, 8), (30, 20, 2)], 1, 5)
-- the same call without the refused request: same memory, same log
#guard (wout (worldM 4000) cfgM [(Drv.nm "arr[0]{2}", .list [.int 11, .int 12]), (Drv.nm "p1", .dict ExW3.kvsPt),
    (Drv.nm "o1.arr[1].x", .int 7)]).map (fun r => (r.2.1, r.2.2.1)) ==
  (wout (worldM 4000) cfgM tvsMixed).map (fun r => (r.2.1, r.2.2.1))
-- the targets of the calls
#guard ldwx_targets four == [(7, 0, [5, 0, 0, 0]), (9, 8, [77, 0, 0, 0]), (30, 8, [0, 0, 32, 64]),
  (22, 0, [2, 0, 0, 0, 72, 105, 0, 0, 0, 0, 0, 0])]
#guard ldwx_targets mixed == [(9, 0, [11, 0, 0, 0, 12, 0, 0, 0]), (21, 0, [9, 0, 0, 0, 3, 0, 0, 0]), (30, 20, [7, 0])]

private theorem healthyM4000 : ldr_Healthy (worldM 4000) 4097 [238, 255, 192, 0] (connM 4000) :=
  ⟨by decide +kernel, by decide +kernel, by decide +kernel, by decide +kernel, by decide +kernel, by decide,
   by decide +kernel, by decide +kernel, by decide, by decide +kernel, by decide +kernel, by decide +kernel⟩

private theorem healthyM60 : ldr_Healthy (worldM 60) 4097 [238, 255, 192, 0] (connM 60) :=
  ⟨by decide +kernel, by decide +kernel, by decide +kernel, by decide +kernel, by decide +kernel, by decide,
   by decide +kernel, by decide +kernel, by decide, by decide +kernel, by decide +kernel, by decide +kernel⟩

private theorem mem_ctlM (s' : Symbol) (h : s' ∈ projM.controller) :
    s' = ExWN.symA ∨ s' = ExWN.symArr ∨ s' = Ex3.symP1 ∨ s' = Ex3.symS1 ∨ s' = Ex4.symO1 := by
  simpa [projM] using h

private theorem bytesM (s' : Symbol) (h : s' ∈ stateM.proj.controller) : ∀ ch ∈ s'.name, ch < 256 := by
  rcases mem_ctlM s' h with rfl | rfl | rfl | rfl | rfl <;> decide

private theorem uniqNM (s : Symbol) (hs : s ∈ stateM.proj.controller) (s' : Symbol) (h : s' ∈ stateM.proj.controller)
    (e : s'.name = s.name) : s' = s := by
  rcases mem_ctlM s hs with rfl | rfl | rfl | rfl | rfl <;>
    rcases mem_ctlM s' h with rfl | rfl | rfl | rfl | rfl <;> first | rfl | (exfalso; revert e; decide)

private theorem uniqIM (s : Symbol) (hs : s ∈ stateM.proj.controller) (s' : Symbol) (h : s' ∈ stateM.proj.controller)
    (e : s'.inst = s.inst) : s' = s := by
  rcases mem_ctlM s hs with rfl | rfl | rfl | rfl | rfl <;>
    rcases mem_ctlM s' h with rfl | rfl | rfl | rfl | rfl <;> first | rfl | (exfalso; revert e; decide)

private theorem hsA : ExWN.symA ∈ stateM.proj.controller := by simp [stateM, projM]
private theorem hsArr : ExWN.symArr ∈ stateM.proj.controller := by simp [stateM, projM]
private theorem hsP1 : Ex3.symP1 ∈ stateM.proj.controller := by simp [stateM, projM]
private theorem hsS1 : Ex3.symS1 ∈ stateM.proj.controller := by simp [stateM, projM]
private theorem hsO1 : Ex4.symO1 ∈ stateM.proj.controller := by simp [stateM, projM]

private theorem mem_outer (m' : MemberDef) (h : m' ∈ Ex4.tOuter.members) : m' = Ex4.mA ∨ m' = Ex4.mInn ∨ m' = Ex4.mArr := by
  simpa [Ex4.tOuter, Ex4.mA, Ex4.mInn, Ex4.mArr] using h
private theorem mem_inner (m' : MemberDef) (h : m' ∈ Ex4.tInner.members) : m' = Ex4.mX ∨ m' = Ex4.mY := by
  simpa [Ex4.tInner, Ex4.mX, Ex4.mY] using h
private theorem outer_bytes (m' : MemberDef) (h : m' ∈ Ex4.tOuter.members) : ∀ ch ∈ m'.name, ch < 256 := by
  rcases mem_outer m' h with rfl | rfl | rfl <;> decide
private theorem inner_bytes (m' : MemberDef) (h : m' ∈ Ex4.tInner.members) : ∀ ch ∈ m'.name, ch < 256 := by
  rcases mem_inner m' h with rfl | rfl <;> decide
private theorem outer_uniq (m : MemberDef) (hm : m ∈ Ex4.tOuter.members) (m' : MemberDef) (h : m' ∈ Ex4.tOuter.members)
    (e : m'.name = m.name) : m' = m := by
  rcases mem_outer m hm with rfl | rfl | rfl <;> rcases mem_outer m' h with rfl | rfl | rfl <;>
    first | rfl | (exfalso; revert e; decide)
private theorem inner_uniq (m : MemberDef) (hm : m ∈ Ex4.tInner.members) (m' : MemberDef) (h : m' ∈ Ex4.tInner.members)
    (e : m'.name = m.name) : m' = m := by
  rcases mem_inner m hm with rfl | rfl <;> rcases mem_inner m' h with rfl | rfl <;>
    first | rfl | (exfalso; revert e; decide)

private theorem hokInn : ldr4_HopOk stateM.proj 0x211 hopInn :=
  ⟨by rfl, by simp [hopInn, Ex4.tOuter, Ex4.mInn], outer_bytes, outer_uniq Ex4.mInn (by simp [Ex4.tOuter, Ex4.mInn]), by decide,
   by rfl, Or.inl rfl⟩
private theorem hokY : ldr4_HopOk stateM.proj 0x210 hopY :=
  ⟨by rfl, by simp [hopY, Ex4.tInner, Ex4.mY], inner_bytes, inner_uniq Ex4.mY (by simp [Ex4.tInner, Ex4.mY]), by decide, by rfl,
   Or.inl rfl⟩
private theorem hokArr1 : ldr4_HopOk stateM.proj 0x211 hopArr1 :=
  ⟨by rfl, by simp [hopArr1, Ex4.tOuter, Ex4.mArr], outer_bytes, outer_uniq Ex4.mArr (by simp [Ex4.tOuter, Ex4.mArr]), by decide,
   by rfl, Or.inr ⟨1, rfl, by decide⟩⟩
private theorem hokX : ldr4_HopOk stateM.proj 0x210 hopX :=
  ⟨by rfl, by simp [hopX, Ex4.tInner, Ex4.mX], inner_bytes, inner_uniq Ex4.mX (by simp [Ex4.tInner, Ex4.mX]), by decide, by rfl,
   Or.inl rfl⟩

private theorem chainInnY : ldr4_Chain stateM.proj (.struct 0x211) [hopInn, hopY] (.atomic 0xCA) :=
  ⟨0x211, rfl, hokInn, 0x210, by decide, hokY, (by show ElTy.atomic 0xCA = elTyOfWord 0xCA; decide)⟩
private theorem chainArrX : ldr4_Chain stateM.proj (.struct 0x211) [hopArr1, hopX] (.atomic 0xC3) :=
  ⟨0x211, rfl, hokArr1, 0x210, by decide, hokX, (by show ElTy.atomic 0xC3 = elTyOfWord 0xC3; decide)⟩

private theorem lvInnY : ∀ h ∈ [hopInn, hopY], ldr2_Level h.level := by
  intro h hh
  simp only [List.mem_cons, List.not_mem_nil, or_false] at hh
  rcases hh with rfl | rfl <;> exact ⟨⟨by decide, by decide, by decide⟩, by decide, by decide⟩
private theorem lvArrX : ∀ h ∈ [hopArr1, hopX], ldr2_Level h.level := by
  intro h hh
  simp only [List.mem_cons, List.not_mem_nil, or_false] at hh
  rcases hh with rfl | rfl <;> exact ⟨⟨by decide, by decide, by decide⟩, by decide, by decide⟩
private theorem numInnY : ∀ h, [hopInn, hopY].getLast? = some h → PyStr.isDigit h.m.name = false := by
  intro h hh
  simp only [List.getLast?_cons_cons, List.getLast?_singleton, Option.some.injEq] at hh
  subst hh; decide
private theorem numArrX : ∀ h, [hopArr1, hopX].getLast? = some h → PyStr.isDigit h.m.name = false := by
  intro h hh
  simp only [List.getLast?_cons_cons, List.getLast?_singleton, Option.some.injEq] at hh
  subst hh; decide

private theorem getO1 : cfgM.tags.get? (Drv.nm "o1") = some Ex4.infoO1 := by rfl
private theorem leafY : ldr4_LeafOf Ex4.minfoY (Drv.nm "REAL") .real := ⟨rfl, rfl, Or.inl rfl, rfl, rfl⟩
private theorem leafX : ldr4_LeafOf Ex4.minfoX (Drv.nm "INT") (.int .int) := ⟨rfl, rfl, Or.inl rfl, rfl, rfl⟩
private theorem canon25 : Canon .real (.float 4612811918334230528) :=
  ⟨4612811918334230528, 0x40200000, rfl, by decide, by rfl, by rfl⟩

private theorem strInnY : renderTag (ldr4_levels Ex4.symO1.name [] [hopInn, hopY]) = Drv.nm "o1.inn.y" := by rfl
private theorem strArrX : renderTag (ldr4_levels Ex4.symO1.name [] [hopArr1, hopX]) = Drv.nm "o1.arr[1].x" := by
  simp only [renderTag, ldr4_levels, ldr4_Hop.level, hopArr1, hopX, List.map_cons, List.map_nil, renderLevel, joinWith,
    ldr2_decRender_small 1 (by omega)]
  rfl

/-- every hypothesis of `write_member_path_e2e` holds for the concrete world: `write(("o1.inn.y", 2.5))` succeeds with a
    truthy Tag and the project afterwards is `written proj loc 8 [00 00 20 40]` -/
example : ∃ w' frm, write hookAll cfgM (worldM 4000) [(Drv.nm "o1.inn.y", .float 4612811918334230528)] =
      (w', .ok [{ tag := Drv.nm "o1.inn.y", value := .float 4612811918334230528, type := some (Drv.nm "REAL"), error := none }]) ∧
    w'.drv = (worldM 4000).drv.nextSeq.2 ∧ w'.net.sent = (worldM 4000).net.sent ++ [frm] ∧
    w'.net.target.ext =
      { (worldM 4000).net.target.ext with
        logix := some { stateM with
          proj := written stateM.proj (ldwx_locPath Ex4.symO1 Ex4.tOuter 0 [hopInn, hopY] (.atomic 0xCA)) 8 [0, 0, 32, 64] } } ∧
    ldr_Healthy w' 4097 [238, 255, 192, 0] { connM 4000 with lastSeq := some (worldM 4000).drv.nextSeq.1 } := by
  obtain ⟨w', frm, h1, _, h2, h3, h4, _, h5⟩ := write_member_path_e2e cfgM (worldM 4000) 4097 [238, 255, 192, 0] (connM 4000)
    stateM Ex4.symO1 0x211 Ex4.tOuter [] 0 [hopInn, hopY] Ex4.infoO1 Ex4.minfoY 0xCA 4 (Drv.nm "REAL") .real
    (.float 4612811918334230528) [0, 0, 32, 64]
    healthyM4000 (by rfl) hsO1 bytesM (uniqNM _ hsO1) (uniqIM _ hsO1)
    ⟨⟨by decide, by decide, by decide⟩, by decide, by decide⟩              -- hl0
    (by decide) (by rfl) (Or.inl ⟨rfl, rfl⟩) (by simp) chainInnY lvInnY numInnY   -- hty htm0 hidx hne hchain hlv hnum
    (by decide) rfl rfl rfl (by decide)                                    -- hsize hat hb hsz hin
    getO1 rfl ⟨Ex4.minfoInn, by rfl, rfl, by rfl⟩ leafY                    -- hget hk hpath hleaf
    canon25 (by rfl)                                                       -- hcanon henc
    (by decide +kernel) (by decide)
  rw [strInnY] at h1
  exact ⟨w', frm, h1, h2, h3, h4, h5⟩

/-- … of `write_member_path_effect`: only bytes 8–11 of `o1` changed, one write logged -/
example : written stateM.proj (ldwx_locPath Ex4.symO1 Ex4.tOuter 0 [hopInn, hopY] (.atomic 0xCA)) 8 [0, 0, 32, 64] =
    { projM with controller := [ExWN.symA, ExWN.symArr, Ex3.symP1, Ex3.symS1, { Ex4.symO1 with mem := memO1y }],
                 writeLog := [(30, 8, 4)] } := by
  have h := (write_member_path_effect stateM.proj Ex4.symO1 Ex4.tOuter 0 [hopInn, hopY] 0xCA 4 [0, 0, 32, 64]
    (uniqIM _ hsO1) (by decide) rfl).1
  rw [show (0 : Nat) * Ex4.tOuter.size + ldr4_offset [hopInn, hopY] = 8 from by decide] at h
  rw [h]
  rfl

/-- … of `write_then_read_member_path_e2e`, with an index inside the path: `write(("o1.arr[1].x", 7))`, then
    `read("o1.arr[1].x")` returns 7 -/
example : ∃ w1 w2 frm1 frm2,
    write hookAll cfgM (worldM 4000) [(Drv.nm "o1.arr[1].x", .int 7)] =
      (w1, .ok [{ tag := Drv.nm "o1.arr[1].x", value := .int 7, type := some (Drv.nm "INT"), error := none }]) ∧
    read hookAll cfgM w1 [Drv.nm "o1.arr[1].x"] =
      (w2, .ok [{ tag := Drv.nm "o1.arr[1].x", value := .int 7, type := some (Drv.nm "INT"), error := none }]) ∧
    w2.net.sent = (worldM 4000).net.sent ++ [frm1, frm2] := by
  obtain ⟨w1, w2, frm1, frm2, h1, h2, h3, _, _⟩ := write_then_read_member_path_e2e cfgM (worldM 4000) 4097 [238, 255, 192, 0]
    (connM 4000) stateM Ex4.symO1 0x211 Ex4.tOuter [] 0 [hopArr1, hopX] Ex4.infoO1 Ex4.minfoX 0xC3 2 (Drv.nm "INT") (.int .int)
    (.int 7) [7, 0]
    healthyM4000 (by rfl) hsO1 bytesM (uniqNM _ hsO1) (uniqIM _ hsO1)
    ⟨⟨by decide, by decide, by decide⟩, by decide, by decide⟩
    (by decide) (by rfl) (Or.inl ⟨rfl, rfl⟩) (by simp) chainArrX lvArrX numArrX
    (by decide) rfl rfl rfl (by decide)
    getO1 rfl ⟨Ex4.minfoArr, by rfl, rfl, by rfl⟩ leafX
    ⟨7, rfl, by decide, by decide⟩ (by rfl)
    (by decide +kernel) (by decide)
  rw [strArrX] at h1 h2
  exact ⟨w1, w2, frm1, frm2, h1, h2, h3⟩

/-! #### the per-request hypotheses of the mixed calls -/

private theorem okA : ldwx_ItemOk cfgM stateM.proj iA :=
  show ldwn_ScalarOk cfgM stateM.proj ExWN.xA from
  ⟨hsA, uniqNM _ hsA, uniqIM _ hsA, ⟨by decide, by decide, by decide⟩, by decide, by decide, rfl, rfl, rfl, rfl,
   by rfl, ⟨rfl, rfl, rfl, rfl, rfl⟩, ⟨5, rfl, by decide, by decide⟩, by rfl⟩
private theorem okArr2 : ldwx_ItemOk cfgM stateM.proj (.elem eArr2) :=
  show ldwx_ElemOk cfgM stateM.proj eArr2 from
  ⟨hsArr, uniqNM _ hsArr, uniqIM _ hsArr, ⟨by decide, by decide, by decide⟩, by decide, by decide, rfl, rfl, rfl,
   by decide, by decide, by rfl, ⟨rfl, rfl, rfl, rfl, rfl⟩, ⟨77, rfl, by decide, by decide⟩, by rfl, by decide, by decide⟩
private theorem okInnY : ldwx_ItemOk cfgM stateM.proj (.member mInnY) :=
  show ldwx_MemberOk cfgM stateM.proj mInnY from
  ⟨hsO1, uniqNM _ hsO1, uniqIM _ hsO1, ⟨⟨by decide, by decide, by decide⟩, by decide, by decide⟩, by decide, by rfl,
   Or.inl ⟨rfl, rfl⟩, by simp [mInnY], chainInnY, lvInnY, numInnY, by decide, rfl, rfl, rfl, by decide, getO1, rfl,
   ⟨Ex4.minfoInn, by rfl, rfl, by rfl⟩, leafY, canon25, by rfl⟩
private theorem okHi : ldwx_ItemOk cfgM stateM.proj (.str sHi) :=
  show ldwx_StrOk cfgM stateM.proj sHi from
  ⟨hsS1, uniqNM _ hsS1, uniqIM _ hsS1, ⟨by decide, by decide, by decide⟩, by decide, by decide, by rfl, by decide, by decide,
   by decide, by decide, by rfl, ⟨rfl, rfl, rfl, rfl, rfl⟩, by decide, rfl, by decide⟩
private theorem okSl : ldwx_ItemOk cfgM stateM.proj (.slice slArr) :=
  show ldwx_SliceOk cfgM stateM.proj slArr from
  ⟨hsArr, uniqNM _ hsArr, uniqIM _ hsArr, ⟨by decide, by decide, by decide⟩, by decide, by decide, rfl, rfl, rfl,
   by decide, by decide, by rfl, ⟨rfl, rfl, rfl, rfl, rfl⟩, by decide, by decide, rfl,
   (by
     intro v hv
     simp only [slArr, List.mem_cons, List.not_mem_nil, or_false] at hv
     rcases hv with rfl | rfl
     · exact ⟨11, rfl, by decide, by decide⟩
     · exact ⟨12, rfl, by decide, by decide⟩),
   by rfl, by decide, by decide⟩
private theorem okOob9 : ldwx_ItemOk cfgM stateM.proj (.oob (ExWN.oob 9)) :=
  show ldwn_OobOk cfgM stateM.proj (ExWN.oob 9) from
  ⟨hsArr, uniqNM _ hsArr, uniqIM _ hsArr, ⟨by decide, by decide, by decide⟩, by decide, by decide, rfl, rfl,
   rfl, by decide, by decide, by rfl, ⟨rfl, rfl, rfl, rfl, rfl⟩, ⟨1, rfl, by decide, by decide⟩, by rfl, by decide, by decide⟩
private theorem okP1 : ldwx_ItemOk cfgM stateM.proj (.struct suP1) :=
  show ldwx_StructOk cfgM stateM.proj suP1 from
  ⟨hsP1, uniqNM _ hsP1, uniqIM _ hsP1, ⟨by decide, by decide, by decide⟩, by decide, by decide, by rfl, by decide, by decide,
   by rfl, ⟨rfl, rfl, rfl, rfl, rfl⟩, by decide, rfl, by rfl, by decide⟩
private theorem okArrX : ldwx_ItemOk cfgM stateM.proj (.member mArrX) :=
  show ldwx_MemberOk cfgM stateM.proj mArrX from
  ⟨hsO1, uniqNM _ hsO1, uniqIM _ hsO1, ⟨⟨by decide, by decide, by decide⟩, by decide, by decide⟩, by decide, by rfl,
   Or.inl ⟨rfl, rfl⟩, by simp [mArrX], chainArrX, lvArrX, numArrX, by decide, rfl, rfl, rfl, by decide, getO1, rfl,
   ⟨Ex4.minfoArr, by rfl, rfl, by rfl⟩, leafX, ⟨7, rfl, by decide, by decide⟩, by rfl⟩

private theorem okFour : ∀ x ∈ four, ldwx_ItemOk cfgM stateM.proj x := by
  intro x hx
  simp only [four, List.mem_cons, List.not_mem_nil, or_false] at hx
  rcases hx with rfl | rfl | rfl | rfl
  · exact okA
  · exact okArr2
  · exact okInnY
  · exact okHi

private theorem okMixed : ∀ x ∈ mixed, ldwx_ItemOk cfgM stateM.proj x := by
  intro x hx
  simp only [mixed, List.mem_cons, List.not_mem_nil, or_false] at hx
  rcases hx with rfl | rfl | rfl | rfl
  · exact okSl
  · exact okOob9
  · exact okP1
  · exact okArrX

private theorem acctFour : four.map (·.acct cfgM) = [16, 18, 26, 26] := by decide +kernel
private theorem acctMixed : mixed.map (·.acct cfgM) = [22, 18, 22, 26] := by decide +kernel

private theorem e2 : ExWN.symArr.name ++ [91] ++ decRender 2 ++ [93] = Drv.nm "arr[2]" := by
  rw [ldr2_decRender_small 2 (by omega)]; rfl
private theorem e0 : ExWN.symArr.name ++ [91] ++ decRender 0 ++ [93] = Drv.nm "arr[0]" := by
  rw [ldr2_decRender_small 0 (by omega)]; rfl
private theorem e9 : ExWN.symArr.name ++ [91] ++ decRender 9 ++ [93] = Drv.nm "arr[9]" := by
  rw [ldr2_decRender_small 9 (by omega)]; rfl
private theorem e02 : ExWN.symArr.name ++ [91] ++ decRender 0 ++ [93] ++ [123] ++ decRender 2 ++ [125] = Drv.nm "arr[0]{2}" := by
  rw [ldr2_decRender_small 0 (by omega), ldr2_decRender_small 2 (by omega)]; rfl

private theorem rqA : iA.request cfgM = (Drv.nm "abc", .int 5) := rfl
private theorem rqArr2 : (ldwx_Item.elem eArr2).request cfgM = (Drv.nm "arr[2]", .int 77) := by
  show (ExWN.symArr.name ++ [91] ++ decRender 2 ++ [93], PyVal.int 77) = _
  rw [e2]
private theorem rqInnY : (ldwx_Item.member mInnY).request cfgM = (Drv.nm "o1.inn.y", .float 4612811918334230528) := by
  show (renderTag (ldr4_levels Ex4.symO1.name [] [hopInn, hopY]), PyVal.float 4612811918334230528) = _
  rw [strInnY]
private theorem rqHi : (ldwx_Item.str sHi).request cfgM = (Drv.nm "s1", .str [72, 105]) := rfl
private theorem rqSl : (ldwx_Item.slice slArr).request cfgM = (Drv.nm "arr[0]{2}", .list [.int 11, .int 12]) := by
  show (ExWN.symArr.name ++ [91] ++ decRender 0 ++ [93] ++ [123] ++ decRender 2 ++ [125], PyVal.list [.int 11, .int 12]) = _
  rw [e02]
private theorem rqOob9 : (ldwx_Item.oob (ExWN.oob 9)).request cfgM = (Drv.nm "arr[9]", .int 1) := by
  show (ExWN.symArr.name ++ [91] ++ decRender 9 ++ [93], PyVal.int 1) = _
  rw [e9]
private theorem rqP1 : (ldwx_Item.struct suP1).request cfgM = (Drv.nm "p1", .dict ExW3.kvsPt) := rfl
private theorem rqArrX : (ldwx_Item.member mArrX).request cfgM = (Drv.nm "o1.arr[1].x", .int 7) := by
  show (renderTag (ldr4_levels Ex4.symO1.name [] [hopArr1, hopX]), PyVal.int 7) = _
  rw [strArrX]

private theorem reqFour : four.map (·.request cfgM) = tvsFour := by
  simp only [four, List.map_cons, List.map_nil, rqA, rqArr2, rqInnY, rqHi]
  rfl
private theorem reqMixed : mixed.map (·.request cfgM) = tvsMixed := by
  simp only [mixed, List.map_cons, List.map_nil, rqSl, rqOob9, rqP1, rqArrX]
  rfl

private theorem outA : iA.out = { tag := Drv.nm "abc", value := .int 5, type := some (Drv.nm "DINT"), error := none } := rfl
private theorem outArr2 : (ldwx_Item.elem eArr2).out =
    { tag := Drv.nm "arr[2]", value := .int 77, type := some (Drv.nm "DINT"), error := none } := by
  show ({ tag := ExWN.symArr.name ++ [91] ++ decRender 2 ++ [93], value := .int 77, type := some (Drv.nm "DINT"),
          error := none } : LTag) = _
  rw [e2]
private theorem outInnY : (ldwx_Item.member mInnY).out =
    { tag := Drv.nm "o1.inn.y", value := .float 4612811918334230528, type := some (Drv.nm "REAL"), error := none } := by
  show ({ tag := renderTag (ldr4_levels Ex4.symO1.name [] [hopInn, hopY]), value := .float 4612811918334230528,
          type := some (Drv.nm "REAL"), error := none } : LTag) = _
  rw [strInnY]
private theorem outHi : (ldwx_Item.str sHi).out =
    { tag := Drv.nm "s1", value := .str [72, 105], type := some (Drv.nm "STR8"), error := none } := rfl
private theorem outSl : (ldwx_Item.slice slArr).out =
    { tag := Drv.nm "arr[0]", value := .list [.int 11, .int 12], type := some (Drv.nm "DINT[2]"), error := none } := by
  show ({ tag := ExWN.symArr.name ++ [91] ++ decRender 0 ++ [93], value := .list [.int 11, .int 12],
          type := some (ldr2_typeStr (Drv.nm "DINT") 2), error := none } : LTag) = _
  rw [e0, show ldr2_typeStr (Drv.nm "DINT") 2 = Drv.nm "DINT[2]" from by decide]
private theorem outOob9 : (ldwx_Item.oob (ExWN.oob 9)).out =
    { tag := Drv.nm "arr[9]", value := .int 1, type := some (Drv.nm "DINT"), error := some ldwn_oobError } := by
  show ({ tag := ExWN.symArr.name ++ [91] ++ decRender 9 ++ [93], value := .int 1, type := some (Drv.nm "DINT"),
          error := some ldwn_oobError } : LTag) = _
  rw [e9]
private theorem outP1 : (ldwx_Item.struct suP1).out =
    { tag := Drv.nm "p1", value := .dict ExW3.kvsPt, type := some (Drv.nm "Pt"), error := none } := rfl
private theorem outArrX : (ldwx_Item.member mArrX).out =
    { tag := Drv.nm "o1.arr[1].x", value := .int 7, type := some (Drv.nm "INT"), error := none } := by
  show ({ tag := renderTag (ldr4_levels Ex4.symO1.name [] [hopArr1, hopX]), value := .int 7, type := some (Drv.nm "INT"),
          error := none } : LTag) = _
  rw [strArrX]

private theorem fitOf (its : List ldwx_Item) (l : List Nat) (C : Nat) (h : its.map (·.acct cfgM) = l)
    (hl : ∀ a ∈ l, a + 10 ≤ C) : ∀ x ∈ its, x.acct cfgM + K.OVERHEAD ≤ C := by
  intro x hx
  have : x.acct cfgM ∈ its.map (·.acct cfgM) := List.mem_map_of_mem hx
  rw [h] at this
  exact hl _ this

/-- every hypothesis of `write_mixed_e2e` holds for the concrete world with the 4000-byte connection: a scalar, an array
    element, a NESTED member and a string in one call travel in ONE frame, five sequence numbers are drawn, the four
    truthy Tags come back in order, and the project afterwards has exactly the four byte ranges replaced and four log
    entries in request order -/
example : ∃ w' frms ls, write hookAll cfgM (worldM 4000) tvsFour =
      (w', .ok [{ tag := Drv.nm "abc", value := .int 5, type := some (Drv.nm "DINT"), error := none },
                { tag := Drv.nm "arr[2]", value := .int 77, type := some (Drv.nm "DINT"), error := none },
                { tag := Drv.nm "o1.inn.y", value := .float 4612811918334230528, type := some (Drv.nm "REAL"), error := none },
                { tag := Drv.nm "s1", value := .str [72, 105], type := some (Drv.nm "STR8"), error := none }]) ∧
    frms.length = 1 ∧ w'.drv = ldwn_seqN 5 (worldM 4000).drv ∧ w'.net.sent = (worldM 4000).net.sent ++ frms ∧
    w'.net.target.ext =
      { (worldM 4000).net.target.ext with
        logix := some { stateM with proj :=
          { projM with
            controller := [{ ExWN.symA with mem := [5, 0, 0, 0] },
                           { ExWN.symArr with mem := [1, 0, 0, 0, 2, 0, 0, 0, 77, 0, 0, 0, 4, 0, 0, 0] }, Ex3.symP1,
                           { Ex3.symS1 with mem := [2, 0, 0, 0, 72, 105, 0, 0, 0, 0, 0, 0] },
                           { Ex4.symO1 with mem := memO1y }],
            writeLog := [(7, 0, 4), (9, 8, 4), (30, 8, 4), (22, 0, 12)] } } } ∧
    ldr_Healthy w' 4097 [238, 255, 192, 0] { connM 4000 with lastSeq := ls } := by
  obtain ⟨w', frms, ls, h1, _, _, h4, h5, h6, h7, h8⟩ := write_mixed_e2e cfgM (worldM 4000) 4097 [238, 255, 192, 0] (connM 4000)
    stateM four healthyM4000 (by rfl) rfl (by decide) bytesM okFour
    (fitOf four _ _ acctFour (by
      have hc : (worldM 4000).drv.connectionSize = 4000 := by decide +kernel
      rw [hc]; decide))
    (by decide +kernel) (by decide +kernel)
  have hk : (K.plan (worldM 4000).drv.connectionSize (ldwn_planItems 0 (four.map (·.acct cfgM)))).groups = [[0, 1, 2, 3]] := by
    rw [acctFour]; decide +kernel
  rw [hk] at h4
  have h4' : frms.length = 1 := h4
  rw [h4'] at h5
  rw [reqFour] at h1
  simp only [four, List.map_cons, List.map_nil, outA, outArr2, outInnY, outHi] at h1
  have hp : ldwx_applyAll stateM.proj (ldwx_targets four) =
      { projM with
        controller := [{ ExWN.symA with mem := [5, 0, 0, 0] },
                       { ExWN.symArr with mem := [1, 0, 0, 0, 2, 0, 0, 0, 77, 0, 0, 0, 4, 0, 0, 0] }, Ex3.symP1,
                       { Ex3.symS1 with mem := [2, 0, 0, 0, 72, 105, 0, 0, 0, 0, 0, 0] },
                       { Ex4.symO1 with mem := memO1y }],
        writeLog := [(7, 0, 4), (9, 8, 4), (30, 8, 4), (22, 0, 12)] } := by rfl
  rw [hp] at h7
  exact ⟨w', frms, ls, h1, h4', h5, h6, h7, h8⟩

/-- … for the world with the 60-byte connection: the driver's grouping makes THREE packets of the four requests
    (`abc`, `arr[2]` | `o1.inn.y` | `s1`), three frames, seven sequence numbers; the effect is the same -/
example : ∃ w' frms ls, write hookAll cfgM (worldM 60) tvsFour = (w', .ok (four.map (·.out))) ∧
    frms.length = 3 ∧ w'.drv = ldwn_seqN 7 (worldM 60).drv ∧ w'.net.sent = (worldM 60).net.sent ++ frms ∧
    w'.net.target.ext =
      { (worldM 60).net.target.ext with logix := some { stateM with proj := ldwx_applyAll stateM.proj (ldwx_targets four) } } ∧
    ldr_Healthy w' 4097 [238, 255, 192, 0] { connM 60 with lastSeq := ls } := by
  obtain ⟨w', frms, ls, h1, _, _, h4, h5, h6, h7, h8⟩ := write_mixed_e2e cfgM (worldM 60) 4097 [238, 255, 192, 0] (connM 60)
    stateM four healthyM60 (by rfl) rfl (by decide) bytesM okFour
    (fitOf four _ _ acctFour (by
      have hc : (worldM 60).drv.connectionSize = 60 := by decide +kernel
      rw [hc]; decide))
    (by decide +kernel) (by decide +kernel)
  have hk : (K.plan (worldM 60).drv.connectionSize (ldwn_planItems 0 (four.map (·.acct cfgM)))).groups = [[0, 1], [2], [3]] := by
    rw [acctFour]; decide +kernel
  rw [hk] at h4
  have h4' : frms.length = 3 := h4
  rw [h4'] at h5
  rw [reqFour] at h1
  exact ⟨w', frms, ls, h1, h4', h5, h6, h7, h8⟩

-- the bounds of `write_mixed_acct_le` for the four requests (accounted: 16, 18, 26, 26)
#guard four.map (·.bound) == [35, 33, 27, 36]

/-- … of `write_mixed_acct_le` -/
example : ∀ x ∈ four, x.acct cfgM ≤ x.bound :=
  fun x hx => write_mixed_acct_le cfgM stateM.proj x bytesM (okFour x hx)

private theorem disjFour : ldwx_Disjoint four :=
  ldwx_disjoint_of_nodup four (by decide)

/-- … of `write_mixed_effect`: the four target locations are pairwise disjoint, so the bytes of every request are in
    memory afterwards; `p1`, which no request addresses, is unchanged; the log has the four entries -/
example : (∀ w ∈ ldwx_targets four, ∃ y ∈ projM.controller, y.inst = w.1 ∧
      ((ldwx_symAfter (ldwx_targets four) y).mem.drop w.2.1).take w.2.2.length = w.2.2) ∧
    ldwx_symAfter (ldwx_targets four) Ex3.symP1 = Ex3.symP1 ∧
    (ldwx_applyAll projM (ldwx_targets four)).writeLog = [(7, 0, 4), (9, 8, 4), (30, 8, 4), (22, 0, 12)] := by
  obtain ⟨_, _, _, _, _, h6, _, h8, h9, h10⟩ := write_mixed_effect cfgM projM four bytesM okFour
  have hp1 : ∀ w ∈ ldwx_targets four, w.1 ≠ Ex3.symP1.inst := by decide
  refine ⟨?_, h6 Ex3.symP1 hsP1 hp1, h10⟩
  intro w hw
  obtain ⟨y, hy, hi, _⟩ := h9 w hw
  exact ⟨y, hy, hi, h8 disjFour y hy w hw hi.symm⟩

/-- … of `write_mixed_order_irrelevant`: the same four requests in reverse order leave the same memory -/
example : (ldwx_applyAll projM (ldwx_targets four.reverse)).controller = (ldwx_applyAll projM (ldwx_targets four)).controller :=
  (write_mixed_order_irrelevant cfgM projM four four.reverse bytesM okFour (List.reverse_perm four).symm disjFour).1

/-- requests inside the SAME symbols, with byte ranges that do not meet: `arr[0]{2}` (bytes 0–7 of `arr`), `arr[2]` (bytes
    8–11), `o1.inn.y` (bytes 8–11 of `o1`), `o1.arr[1].x` (bytes 20–21) -/
def sameSym : List ldwx_Item := [.slice slArr, .elem eArr2, .member mInnY, .member mArrX]

#guard wout (worldM 4000) cfgM [(Drv.nm "arr[0]{2}", .list [.int 11, .int 12]), (Drv.nm "arr[2]", .int 77),
    (Drv.nm "o1.inn.y", .float 4612811918334230528), (Drv.nm "o1.arr[1].x", .int 7)] ==
  some ([(Drv.nm "arr[0]", some (Drv.nm "DINT[2]"), true), (Drv.nm "arr[2]", some (Drv.nm "DINT"), true),
         (Drv.nm "o1.inn.y", some (Drv.nm "REAL"), true), (Drv.nm "o1.arr[1].x", some (Drv.nm "INT"), true)],
        [ExWN.symA.mem, [11, 0, 0, 0, 12, 0, 0, 0, 77, 0, 0, 0, 4, 0, 0, 0], Ex3.symP1.mem, Ex3.symS1.mem,
         [100, 0, 0, 0, 101, 0, 0, 0, 0, 0, 32, 64, 102, 0, 0, 0, 0, 0, 0, 64, 7, 0, 0, 0, 0, 0, 64, 64]],
        [(9, 0, 8), (9, 8, 4), (30, 8, 4), (30, 20, 2)], 1, 5)

private theorem disjSame : ldwx_Disjoint sameSym := by
  show List.Pairwise ldwx_Disj (ldwx_targets sameSym)
  have e : ldwx_targets sameSym = [(9, 0, [11, 0, 0, 0, 12, 0, 0, 0]), (9, 8, [77, 0, 0, 0]), (30, 8, [0, 0, 32, 64]),
      (30, 20, [7, 0])] := by rfl
  rw [e]
  refine List.Pairwise.cons ?_ (List.Pairwise.cons ?_ (List.Pairwise.cons ?_ (List.Pairwise.cons ?_ List.Pairwise.nil)))
  · intro b hb
    simp only [List.mem_cons, List.not_mem_nil, or_false] at hb
    rcases hb with rfl | rfl | rfl
    · exact Or.inr (Or.inl (by decide))
    · exact Or.inl (by decide)
    · exact Or.inl (by decide)
  · intro b hb
    simp only [List.mem_cons, List.not_mem_nil, or_false] at hb
    rcases hb with rfl | rfl
    · exact Or.inl (by decide)
    · exact Or.inl (by decide)
  · intro b hb
    simp only [List.mem_cons, List.not_mem_nil, or_false] at hb
    subst hb
    exact Or.inr (Or.inl (by decide))
  · intro b hb
    cases hb

/-- … of `write_mixed_effect` for them: afterwards `arr` holds the slice AND the element, `o1` holds both members' bytes;
    every other byte of `arr` and `o1` is the old one -/
example : (∀ w ∈ ldwx_targets sameSym, ∃ y ∈ projM.controller, y.inst = w.1 ∧
      ((ldwx_symAfter (ldwx_targets sameSym) y).mem.drop w.2.1).take w.2.2.length = w.2.2) ∧
    (∀ j, 12 ≤ j → (ldwx_symAfter (ldwx_targets sameSym) ExWN.symArr).mem[j]? = ExWN.symArr.mem[j]?) ∧
    (∀ j, (j < 8 ∨ (12 ≤ j ∧ j < 20) ∨ 22 ≤ j) →
      (ldwx_symAfter (ldwx_targets sameSym) Ex4.symO1).mem[j]? = Ex4.symO1.mem[j]?) := by
  have hok : ∀ x ∈ sameSym, ldwx_ItemOk cfgM stateM.proj x := by
    intro x hx
    simp only [sameSym, List.mem_cons, List.not_mem_nil, or_false] at hx
    rcases hx with rfl | rfl | rfl | rfl
    · exact okSl
    · exact okArr2
    · exact okInnY
    · exact okArrX
  have e : ldwx_targets sameSym = [(9, 0, [11, 0, 0, 0, 12, 0, 0, 0]), (9, 8, [77, 0, 0, 0]), (30, 8, [0, 0, 32, 64]),
      (30, 20, [7, 0])] := by rfl
  obtain ⟨_, _, _, _, _, _, h7, h8, h9, _⟩ := write_mixed_effect cfgM projM sameSym bytesM hok
  refine ⟨?_, ?_, ?_⟩
  · intro w hw
    obtain ⟨y, hy, hi, _⟩ := h9 w hw
    exact ⟨y, hy, hi, h8 disjSame y hy w hw hi.symm⟩
  · intro j hj
    apply h7 ExWN.symArr hsArr j
    rw [e]
    intro w hw hi
    simp only [List.mem_cons, List.not_mem_nil, or_false] at hw
    rcases hw with rfl | rfl | rfl | rfl
    · right; show 0 + 8 ≤ j; omega
    · right; show 8 + 4 ≤ j; omega
    · exact absurd hi (by decide)
    · exact absurd hi (by decide)
  · intro j hj
    apply h7 Ex4.symO1 hsO1 j
    rw [e]
    intro w hw hi
    simp only [List.mem_cons, List.not_mem_nil, or_false] at hw
    rcases hw with rfl | rfl | rfl | rfl
    · exact absurd hi (by decide)
    · exact absurd hi (by decide)
    · show j < 8 ∨ 8 + 4 ≤ j; omega
    · show j < 20 ∨ 20 + 2 ≤ j; omega

/-- every hypothesis of `write_mixed_isolated_e2e` holds: slice, REFUSED element, whole structure, nested member behind
    an index — in one call on the 4000-byte connection: four Tags in request order, the refused one falsy with the
    controller's error text; the controller's state afterwards is the one after the call WITHOUT the refused request:
    the slice, the structure and the member's two bytes written, three log entries -/
example : ∃ w1 w2 ls1 ls2, write hookAll cfgM (worldM 4000) tvsMixed =
      (w1, .ok [{ tag := Drv.nm "arr[0]", value := .list [.int 11, .int 12], type := some (Drv.nm "DINT[2]"), error := none },
                { tag := Drv.nm "arr[9]", value := .int 1, type := some (Drv.nm "DINT"), error := some ldwn_oobError },
                { tag := Drv.nm "p1", value := .dict ExW3.kvsPt, type := some (Drv.nm "Pt"), error := none },
                { tag := Drv.nm "o1.arr[1].x", value := .int 7, type := some (Drv.nm "INT"), error := none }]) ∧
    write hookAll cfgM (worldM 4000) [(Drv.nm "arr[0]{2}", .list [.int 11, .int 12]), (Drv.nm "p1", .dict ExW3.kvsPt),
        (Drv.nm "o1.arr[1].x", .int 7)] =
      (w2, .ok [{ tag := Drv.nm "arr[0]", value := .list [.int 11, .int 12], type := some (Drv.nm "DINT[2]"), error := none },
                { tag := Drv.nm "p1", value := .dict ExW3.kvsPt, type := some (Drv.nm "Pt"), error := none },
                { tag := Drv.nm "o1.arr[1].x", value := .int 7, type := some (Drv.nm "INT"), error := none }]) ∧
    w1.net.target.ext = w2.net.target.ext ∧
    w1.net.target.ext =
      { (worldM 4000).net.target.ext with
        logix := some { stateM with proj :=
          { projM with
            controller := [ExWN.symA, { ExWN.symArr with mem := [11, 0, 0, 0, 12, 0, 0, 0, 0xFF, 0xFF, 0xFF, 0xFF, 4, 0, 0, 0] },
                           { Ex3.symP1 with mem := [9, 0, 0, 0, 3, 0, 0, 0] }, Ex3.symS1, { Ex4.symO1 with mem := memO1x }],
            writeLog := [(9, 0, 8), (21, 0, 8), (30, 20, 2)] } } } ∧
    ldr_Healthy w1 4097 [238, 255, 192, 0] { connM 4000 with lastSeq := ls1 } ∧
    ldr_Healthy w2 4097 [238, 255, 192, 0] { connM 4000 with lastSeq := ls2 } := by
  obtain ⟨w1, w2, ls1, ls2, h1, h2, _, _, h5, h6, h7, h8⟩ := write_mixed_isolated_e2e cfgM (worldM 4000) 4097 [238, 255, 192, 0]
    (connM 4000) stateM mixed healthyM4000 (by rfl) rfl (by decide) bytesM okMixed
    (fitOf mixed _ _ acctMixed (by
      have hc : (worldM 4000).drv.connectionSize = 4000 := by decide +kernel
      rw [hc]; decide))
    (by decide +kernel) (by decide +kernel)
  rw [reqMixed] at h1
  have hf : mixed.filter (·.accepted) = [.slice slArr, .struct suP1, .member mArrX] := by rfl
  have hr2 : [ldwx_Item.slice slArr, .struct suP1, .member mArrX].map (·.request cfgM) =
      [(Drv.nm "arr[0]{2}", .list [.int 11, .int 12]), (Drv.nm "p1", .dict ExW3.kvsPt), (Drv.nm "o1.arr[1].x", .int 7)] := by
    simp only [List.map_cons, List.map_nil, rqSl, rqP1, rqArrX]
  rw [hf, hr2] at h2
  simp only [mixed, List.map_cons, List.map_nil, outSl, outOob9, outP1, outArrX] at h1 h2
  have hp : ldwx_applyAll stateM.proj (ldwx_targets mixed) =
      { projM with
        controller := [ExWN.symA, { ExWN.symArr with mem := [11, 0, 0, 0, 12, 0, 0, 0, 0xFF, 0xFF, 0xFF, 0xFF, 4, 0, 0, 0] },
                       { Ex3.symP1 with mem := [9, 0, 0, 0, 3, 0, 0, 0] }, Ex3.symS1, { Ex4.symO1 with mem := memO1x }],
        writeLog := [(9, 0, 8), (21, 0, 8), (30, 20, 2)] } := by rfl
  rw [hp] at h6
  exact ⟨w1, w2, ls1, ls2, h1, h2, h5, h6, h7, h8⟩

/-! #### the hypotheses: what the model does outside them -/

-- DISJOINTNESS (`write_mixed_effect`): `write_mixed_e2e` itself does not need it — overlapping writes in one call are
-- applied in request order —, but "afterwards every request's bytes are in memory" is false without it: the slice
-- `arr[0]{2}` and the element `arr[1]` overlap on bytes 4–7; the LATER request wins there, both writes are logged
#guard wout (worldM 4000) cfgM [(Drv.nm "arr[0]{2}", .list [.int 11, .int 12]), (Drv.nm "arr[1]", .int 99)] ==
  some ([(Drv.nm "arr[0]", some (Drv.nm "DINT[2]"), true), (Drv.nm "arr[1]", some (Drv.nm "DINT"), true)],
        [ExWN.symA.mem, [11, 0, 0, 0, 99, 0, 0, 0, 0xFF, 0xFF, 0xFF, 0xFF, 4, 0, 0, 0], Ex3.symP1.mem, Ex3.symS1.mem,
         Ex4.symO1.mem],
        [(9, 0, 8), (9, 4, 4)], 1, 3)
-- … the whole NESTED structure `o1` written (with a nested dict) after its member `o1.inn.y`: the member's bytes are
-- overwritten again (y is 1.0 = 00 00 80 3F as in the dict, not the 2.5 of the first request); both writes are logged
#guard wout (worldM 4000) cfgM [(Drv.nm "o1.inn.y", .float 4612811918334230528), (Drv.nm "o1", Ex4.vOuter 100)] ==
  some ([(Drv.nm "o1.inn.y", some (Drv.nm "REAL"), true), (Drv.nm "o1", some (Drv.nm "Outer"), true)],
        [ExWN.symA.mem, ExWN.symArr.mem, Ex3.symP1.mem, Ex3.symS1.mem, Ex4.symO1.mem],
        [(30, 8, 4), (30, 0, 28)], 1, 3)
-- … a member of the flat `p1` before the whole `p1`
#guard wout (worldM 4000) cfgM [(Drv.nm "p1.y", .int 5), (Drv.nm "p1", .dict ExW3.kvsPt)] ==
  some ([(Drv.nm "p1.y", some (Drv.nm "INT"), true), (Drv.nm "p1", some (Drv.nm "Pt"), true)],
        [ExWN.symA.mem, ExWN.symArr.mem, [9, 0, 0, 0, 3, 0, 0, 0], Ex3.symS1.mem, Ex4.symO1.mem],
        [(21, 4, 2), (21, 0, 8)], 1, 3)

-- `hfit1`: a request whose message alone exceeds the packet (here a 35-byte connection: 26 + 10 > 35 for `o1.inn.y`)
-- leaves the multi-service path: it is sent with Write Tag Fragmented AFTER the packets — the log order changes
#guard (wout (worldM 35) cfgM [(Drv.nm "abc", .int 5), (Drv.nm "o1.inn.y", .float 4612811918334230528), (Drv.nm "arr[2]", .int 77)]).map
    (fun r => r.2.2.1) == some [(7, 0, 4), (9, 8, 4), (30, 8, 4)]

-- BIT writes are outside `ldwx_Item`: in a mixed call they travel as Read-Modify-Write requests in frames of their own,
-- AFTER the multi-service packet (two frames here; the log shows the RMW last although it was requested first)
#guard wout (worldM 4000) cfgM [(Drv.nm "abc.1", .bool false), (Drv.nm "arr[2]", .int 77), (Drv.nm "o1.inn.y", .float 4612811918334230528)] ==
  some ([(Drv.nm "abc.1", some (Drv.nm "BOOL"), true), (Drv.nm "arr[2]", some (Drv.nm "DINT"), true),
         (Drv.nm "o1.inn.y", some (Drv.nm "REAL"), true)],
        [[0x28, 0, 0, 0], [1, 0, 0, 0, 2, 0, 0, 0, 77, 0, 0, 0, 4, 0, 0, 0], Ex3.symP1.mem, Ex3.symS1.mem, memO1y],
        [(9, 8, 4), (30, 8, 4), (7, 0, 4)], 2, 4)

-- OBSERVATION (outside the property: overlapping requests): because the driver sends multi-service packets first, then
-- fragmented writes, then Read-Modify-Write requests (logix_driver.py:1192 `multi_requests + fragmented_requests +
-- bit_writes`), overlapping requests of different transport classes are applied in an order that is NOT the request
-- order: `write(("abc.0", False), ("abc", 5))` leaves 4, not 5 — the whole-tag write goes out first, the bit write
-- (requested first) is applied last; both Tags are truthy
#guard (wout (worldM 4000) cfgM [(Drv.nm "abc.0", .bool false), (Drv.nm "abc", .int 5)]).map
    (fun r => (r.1.map (·.2.2), r.2.1.head?, r.2.2.1)) == some ([true, true], some [4, 0, 0, 0], [(7, 0, 4), (7, 0, 4)])

-- `hn`: a single request takes the single-request path (one plain Write Tag, ONE sequence number): `write_member_path_e2e`
#guard (wout (worldM 4000) cfgM [(Drv.nm "o1.inn.y", .float 4612811918334230528)]).map (fun r => (r.2.2.1, r.2.2.2)) ==
  some ([(30, 8, 4)], 1, 1)

end ExMix

end Pycomm.Lgx.Drv
