/-
  Helper lemmas for C10 over histories with `SLCDriver.read` / `SLCDriver.write` calls.  Part 2: which exceptions
  escape `slcRead` / `slcWrite` — library exceptions, and for a write the TypeError / KeyError of `writeable_value`
  given a value without `len()` / a dict with too many entries for an address with an element count `{n}`, n > 1.
-/
import PycommProofs.LCSlc1
import PycommProofs.SlcAny1
import PycommProofs.LCBasic
namespace Pycomm.Slc.Drv
open Pycomm Pycomm.Tgt Pycomm.Slc Pycomm.Lgx.Drv

theorem lcsl_sendPccc_err {σ} (hook : ObjHook σ) (w : Cli.World σ) (msg : Bytes) (e : Exn)
    (h : (sendPccc hook w msg).2 = .error e) : e = .comm ∨ e = .data :=
  Cli.lc_sendReq_err hook _ _ false e ((lcsl_sendPccc hook w msg).2.2 e h)

theorem lcsl_replyRefused_err (raw : Bytes) (e : Exn) (h : replyRefused raw = .error e) :
    e = .bufferEmpty ∨ e = .data := by
  unfold replyRefused at h
  dsimp only at h
  split at h
  · cases h
  · exact Cli.lc_errorCip_err _ _ _ _ e (lcl_map_err _ _ e h)

/-- `_read_tag` raises library exceptions only: RequestError (address), DataError (encoding the message, framing,
    rendering the error of a reply cut inside its extended status), CommError (transport), BufferEmptyError -/
theorem lcsl_readTag_err {σ} (hook : ObjHook σ) (w : Cli.World σ) (t : Name) (e : Exn)
    (h : (readTag hook w t).2 = .error e) : e = .request ∨ e = .data ∨ e = .comm ∨ e = .bufferEmpty := by
  unfold readTag at h
  cases hparse : parseTag t with
  | none => rw [hparse] at h; cases h; exact .inl rfl
  | some a =>
    rw [hparse] at h
    dsimp only at h
    cases hm : slcReadMsg a w.drv.nextSeq.1 with
    | error e' =>
      rw [hm] at h
      cases h
      exact .inr (.inl (sda_readMsg_err a _ e hm))
    | ok pccc =>
      rw [hm] at h
      dsimp only at h
      have hs := lcsl_sendPccc_err hook { w with drv := w.drv.nextSeq.2 } (msgStart w.drv.nextSeq.2 ++ pccc)
      generalize sendPccc hook { w with drv := w.drv.nextSeq.2 } (msgStart w.drv.nextSeq.2 ++ pccc) = sp at hs h
      obtain ⟨w2, r⟩ := sp
      cases r with
      | error e' =>
        cases h
        rcases hs e rfl with rfl | rfl
        · exact .inr (.inr (.inl rfl))
        · exact .inr (.inl rfl)
      | ok raw =>
        dsimp only at h
        cases hr : replyRefused raw with
        | error e' =>
          rw [hr] at h
          cases h
          rcases lcsl_replyRefused_err raw e hr with rfl | rfl
          · exact .inr (.inr (.inr rfl))
          · exact .inr (.inl rfl)
        | ok o => cases o <;> (rw [hr] at h; cases h)

theorem lcsl_readTags_err {σ} (hook : ObjHook σ) (ts : List Name) :
    ∀ (w : Cli.World σ) (e : Exn), (readTags hook w ts).2 = .error e →
      e = .request ∨ e = .data ∨ e = .comm ∨ e = .bufferEmpty := by
  induction ts with
  | nil => intro w e h; cases h
  | cons t rest ih =>
    intro w e h
    rw [readTags] at h
    have h1 := lcsl_readTag_err hook w t
    generalize readTag hook w t = r1 at h1 h
    obtain ⟨w1, r⟩ := r1
    cases r with
    | error e' => cases h; exact h1 e rfl
    | ok tg =>
      dsimp only at h
      have h2 := ih w1
      generalize readTags hook w1 rest = r2 at h2 h
      obtain ⟨w2, rs⟩ := r2
      cases rs with
      | error e' => cases h; exact h2 e rfl
      | ok tgs => cases h

/-- every exception that escapes `SLCDriver.read` is a library exception -/
theorem lcsl_slcRead_err {σ} (hook : ObjHook σ) (w : Cli.World σ) (ts : List Name) (e : Exn)
    (h : (slcRead hook w ts).2 = .error e) : Cli.LcLib e := by
  unfold slcRead at h
  have h0 := Cli.lc_efo_lib hook 5 w
  rw [show (5 + 3 : Nat) = Cli.FUEL from rfl] at h0
  generalize Cli.ensureForwardOpen hook Cli.FUEL w = r0 at h0 h
  obtain ⟨w0, pre⟩ := r0
  cases pre with
  | error e' => cases h; exact h0 e rfl
  | ok u =>
    dsimp only at h
    rcases lcsl_readTags_err hook ts w0 e h with rfl | rfl | rfl | rfl
    · exact Cli.lc_lib_request
    · exact Cli.lc_lib_data
    · exact Cli.lc_lib_comm
    · exact Cli.lc_lib_bufferEmpty

/-- what `writeable_value` raises besides RequestError, for the address `a` and the value `v`: both need an element
    count `{n}` with n > 1 —
    * KeyError: `v` is a dict with more than n entries (`value[:n]` on a dict);
    * TypeError: `v` has no `len()` (None, a bool, an int, a float), on an address that is not a bit address and whose
      file type has an element codec -/
def lcsl_ValueCorner (a : Addr) (v : PyVal) (e : Exn) : Prop :=
  1 < a.count ∧
    ((e = .foreign "KeyError" ∧ ∃ kvs, v = .dict kvs ∧ a.count < kvs.length) ∨
     (e = .foreign "TypeError" ∧ v.len? = none ∧ a.addressField ≠ 3 ∧ (elemTy a.fileType).isSome = true))

theorem lcsl_writeableValue_err (a : Addr) (v : PyVal) (e : Exn) (h : writeableValue a v = .error e) :
    e = .request ∨ (e = .foreign "TypeError" ∧ 1 < a.count ∧ (v.len? = none ∨ v.seq? = none) ∧ a.addressField ≠ 3 ∧
      (elemTy a.fileType).isSome = true) := by
  unfold writeableValue at h
  dsimp only at h
  split at h
  · cases h; exact .inl rfl
  · next ty hty =>
    split at h
    · next hcnt =>
      split at h
      · cases h; exact .inl rfl
      · next hbf =>
        split at h
        · next n xs hl hs =>
          split at h
          · cases h; exact .inl rfl
          · split at h
            · cases h
            · cases h; exact .inl rfl
        · next hno =>
          cases h
          refine .inr ⟨rfl, hcnt, ?_, hbf, by rw [hty]; rfl⟩
          cases hl : v.len? with
          | none => exact .inl rfl
          | some n =>
            cases hs : v.seq? with
            | none => exact .inr rfl
            | some xs => exact absurd hs (hno n xs hl)
    · split at h
      · split at h
        · split at h
          · cases h
          · cases h; exact .inl rfl
        · split at h
          · cases h
          · cases h; exact .inl rfl
      · split at h
        · cases h
        · cases h; exact .inl rfl

theorem lcsl_writeValue_err (a : Addr) (v : PyVal) (e : Exn) (h : writeValue a v = .error e) :
    e = .request ∨ lcsl_ValueCorner a v e := by
  have key : writeableValue a v = .error e → (∀ kvs, v ≠ .dict kvs) → e = .request ∨ lcsl_ValueCorner a v e := by
    intro hw hnd
    rcases lcsl_writeableValue_err a v e hw with h1 | ⟨h1, h2, h3, h4, h5⟩
    · exact .inl h1
    · refine .inr ⟨h2, .inr ⟨h1, ?_, h4, h5⟩⟩
      rcases h3 with h3 | h3
      · exact h3
      · cases v with
        | dict kvs => exact absurd rfl (hnd kvs)
        | none | bool _ | int _ | float _ => rfl
        | str _ | bytes _ | list _ | tuple _ => cases h3
  cases v with
  | bytes b => cases h
  | dict kvs =>
    unfold writeValue at h
    dsimp only at h
    split at h
    · next hcnt =>
      split at h
      · cases h; exact .inl rfl
      · next hlen =>
        cases h
        exact .inr ⟨hcnt, .inl ⟨rfl, kvs, rfl, by omega⟩⟩
    · next hcnt =>
      rcases lcsl_writeableValue_err a _ e h with h1 | ⟨_, h2, _⟩
      · exact .inl h1
      · exact absurd h2 hcnt
  | none => exact key h (fun _ h' => nomatch h')
  | bool b => exact key h (fun _ h' => nomatch h')
  | int i => exact key h (fun _ h' => nomatch h')
  | float f => exact key h (fun _ h' => nomatch h')
  | str s => exact key h (fun _ h' => nomatch h')
  | list xs => exact key h (fun _ h' => nomatch h')
  | tuple xs => exact key h (fun _ h' => nomatch h')

/-- `_write_tag` raises library exceptions — or what `writeable_value` raises for this address and value -/
theorem lcsl_writeTag_err {σ} (hook : ObjHook σ) (w : Cli.World σ) (t : Name) (v : PyVal) (e : Exn)
    (h : (writeTag hook w t v).2 = .error e) :
    (e = .request ∨ e = .data ∨ e = .comm ∨ e = .bufferEmpty) ∨ ∃ a, parseTag t = some a ∧ lcsl_ValueCorner a v e := by
  unfold writeTag at h
  cases hparse : parseTag t with
  | none => rw [hparse] at h; cases h; exact .inl (.inl rfl)
  | some a =>
    rw [hparse] at h
    dsimp only at h
    cases hv : writeValue a v with
    | error e' =>
      rw [hv] at h
      cases h
      rcases lcsl_writeValue_err a v e hv with h1 | h1
      · exact .inl (.inl h1)
      · exact .inr ⟨a, rfl, h1⟩
    | ok x =>
      rw [hv] at h
      dsimp only at h
      left
      cases hm : writeMsg a w.drv.nextSeq.1 v with
      | error e' =>
        rw [hm] at h
        cases h
        exact .inr (.inl (sda_writeMsg_err a _ v x e hv hm))
      | ok pccc =>
        rw [hm] at h
        dsimp only at h
        have hs := lcsl_sendPccc_err hook { w with drv := w.drv.nextSeq.2 } (msgStart w.drv.nextSeq.2 ++ pccc)
        generalize sendPccc hook { w with drv := w.drv.nextSeq.2 } (msgStart w.drv.nextSeq.2 ++ pccc) = sp at hs h
        obtain ⟨w2, r⟩ := sp
        cases r with
        | error e' =>
          cases h
          rcases hs e rfl with rfl | rfl
          · exact .inr (.inr (.inl rfl))
          · exact .inr (.inl rfl)
        | ok raw =>
          dsimp only at h
          cases hr : replyRefused raw with
          | error e' =>
            rw [hr] at h
            cases h
            rcases lcsl_replyRefused_err raw e hr with rfl | rfl
            · exact .inr (.inr (.inr rfl))
            · exact .inr (.inl rfl)
          | ok o => cases o <;> (rw [hr] at h; cases h)

theorem lcsl_writeTags_err {σ} (hook : ObjHook σ) (avs : List (Name × PyVal)) :
    ∀ (w : Cli.World σ) (e : Exn), (writeTags hook w avs).2 = .error e →
      (e = .request ∨ e = .data ∨ e = .comm ∨ e = .bufferEmpty) ∨
      ∃ t v a, (t, v) ∈ avs ∧ parseTag t = some a ∧ lcsl_ValueCorner a v e := by
  induction avs with
  | nil => intro w e h; cases h
  | cons p rest ih =>
    intro w e h
    obtain ⟨t, v⟩ := p
    rw [writeTags] at h
    have h1 := lcsl_writeTag_err hook w t v
    generalize writeTag hook w t v = r1 at h1 h
    obtain ⟨w1, r⟩ := r1
    cases r with
    | error e' =>
      cases h
      rcases h1 e rfl with h1 | ⟨a, ha, hc⟩
      · exact .inl h1
      · exact .inr ⟨t, v, a, List.mem_cons_self, ha, hc⟩
    | ok tg =>
      dsimp only at h
      have h2 := ih w1
      generalize writeTags hook w1 rest = r2 at h2 h
      obtain ⟨w2, rs⟩ := r2
      cases rs with
      | error e' =>
        cases h
        rcases h2 e rfl with h2 | ⟨t', v', a, hm, ha, hc⟩
        · exact .inl h2
        · exact .inr ⟨t', v', a, List.mem_cons_of_mem _ hm, ha, hc⟩
      | ok tgs => cases h

/-- every exception that escapes `SLCDriver.write` is a library exception, or what `writeable_value` raises for one
    of the (address, value) pairs -/
theorem lcsl_slcWrite_err {σ} (hook : ObjHook σ) (w : Cli.World σ) (avs : List (Name × PyVal)) (e : Exn)
    (h : (slcWrite hook w avs).2 = .error e) :
    Cli.LcLib e ∨ ∃ t v a, (t, v) ∈ avs ∧ parseTag t = some a ∧ lcsl_ValueCorner a v e := by
  unfold slcWrite at h
  have h0 := Cli.lc_efo_lib hook 5 w
  rw [show (5 + 3 : Nat) = Cli.FUEL from rfl] at h0
  generalize Cli.ensureForwardOpen hook Cli.FUEL w = r0 at h0 h
  obtain ⟨w0, pre⟩ := r0
  cases pre with
  | error e' => cases h; exact .inl (h0 e rfl)
  | ok u =>
    dsimp only at h
    rcases lcsl_writeTags_err hook avs w0 e h with (rfl | rfl | rfl | rfl) | h1
    · exact .inl Cli.lc_lib_request
    · exact .inl Cli.lc_lib_data
    · exact .inl Cli.lc_lib_comm
    · exact .inl Cli.lc_lib_bufferEmpty
    · exact .inr h1

end Pycomm.Slc.Drv
