/-
  Helper lemmas for C17 over histories with LogixDriver reads and writes.  Part 7: the connection size of the
  driver is the configured 4000 or the 500 of the standard Forward Open, along every history — independently of
  the other invariants (the request builders decide on fragmentation by this size).
-/
import PycommProofs.LCSeq
import PycommProofs.LCLogix2
namespace Pycomm.Cli
open Pycomm.Tgt Pycomm.Encap Pycomm.Path Pycomm.Reply

/-- a step that leaves the connection size alone or sets it to 500 -/
def lcl_SzStep {σ} (w w' : World σ) : Prop :=
  w'.drv.connectionSize = w.drv.connectionSize ∨ w'.drv.connectionSize = 500

theorem lcl_SzStep_refl {σ} (w : World σ) : lcl_SzStep w w := .inl rfl

theorem lcl_SzStep_trans {σ} {a b c : World σ} (h1 : lcl_SzStep a b) (h2 : lcl_SzStep b c) : lcl_SzStep a c := by
  rcases h2 with h2 | h2
  · rcases h1 with h1 | h1
    · exact .inl (h2.trans h1)
    · exact .inr (h2.trans h1)
  · exact .inr h2

theorem lcl_SzStep_of_drv {σ} (w w' : World σ) (h : w'.drv.connectionSize = w.drv.connectionSize) : lcl_SzStep w w' :=
  .inl h

theorem lcl_SzStep_sendReq {σ} (hook : ObjHook σ) (w : World σ) (r : Req) (nr : Bool) :
    lcl_SzStep w (sendReq hook w r nr).1 := by
  have hd := (lcs_sendReq hook w r nr _ rfl).1
  exact .inl (by rw [hd])

theorem lcl_SzStep_register {σ} (hook : ObjHook σ) (w : World σ) : lcl_SzStep w (registerSession hook w).1 := by
  have hs := lcl_SzStep_sendReq hook w (.registerSession [1, 0] [0, 0]) false
  unfold registerSession
  split
  · split
    · exact lcl_SzStep_refl _
    · simp only []
      split
      · exact hs
      · split
        · exact hs
        · exact hs
  · simp only []
    split
    · exact hs
    · split
      · exact hs
      · exact hs

theorem lcl_SzStep_open {σ} (hook : ObjHook σ) (w : World σ) (rnd : Bytes) : lcl_SzStep w (openDrv hook w rnd).1 := by
  unfold openDrv
  split
  · exact lcl_SzStep_refl _
  · simp only []
    have h2 := lcl_SzStep_register hook ({ drv := { w.drv with hasSock := true, connectionOpened := true, cid := rnd.take 4, vsn := (rnd.drop 4).take 4 }, net := { w.net with tcpOpen := true, pending := if w.drv.hasSock then w.net.pending else [] } } : World σ)
    generalize registerSession hook _ = res at h2 ⊢
    obtain ⟨w2, r⟩ := res
    cases r with
    | error e => exact h2
    | ok o => cases o <;> exact h2

/-- forward open / the decorator / generic_message, by induction on the fuel -/
theorem lcl_SzStep_mutual {σ} (hook : ObjHook σ) (fuel : Nat) :
    (∀ w : World σ, lcl_SzStep w (forwardOpen hook fuel w).1) ∧
    (∀ w : World σ, lcl_SzStep w (ensureForwardOpen hook fuel w).1) ∧
    (∀ (w : World σ) (a : GenArgs), lcl_SzStep w (genericMessage hook fuel w a).1) := by
  induction fuel with
  | zero =>
    refine ⟨fun w => ?_, fun w => ?_, fun w a => ?_⟩
    · unfold forwardOpen; exact lcl_SzStep_refl _
    · unfold ensureForwardOpen; exact lcl_SzStep_refl _
    · unfold genericMessage; exact lcl_SzStep_refl _
  | succ fuel ih =>
    obtain ⟨ihF, ihE, ihG⟩ := ih
    refine ⟨fun w => ?_, fun w => ?_, fun w a => ?_⟩
    · generalize hr : forwardOpen hook (fuel + 1) w = r
      unfold forwardOpen at hr
      split at hr
      · subst hr; exact lcl_SzStep_refl _
      split at hr
      · subst hr; exact lcl_SzStep_refl _
      simp only [] at hr
      split at hr
      · generalize hgg : genericMessage hook fuel w _ = g at hr
        have hg : lcl_SzStep w g.1 := hgg ▸ ihG w _
        clear hgg
        obtain ⟨w1, r1⟩ := g
        cases r1 with
        | error e => simp only [] at hr; subst hr; exact hg
        | ok tag =>
          simp only [] at hr
          split at hr
          · subst hr; exact hg
          · subst hr; exact hg
      · subst hr; exact lcl_SzStep_refl _
    · generalize hr : ensureForwardOpen hook (fuel + 1) w = r
      unfold ensureForwardOpen at hr
      split at hr
      · subst hr; exact lcl_SzStep_refl _
      have h1 := ihF w
      generalize forwardOpen hook fuel w = r1 at hr h1
      obtain ⟨w1, o1⟩ := r1
      cases o1 with
      | error e => simp only [] at hr; subst hr; exact h1
      | ok b =>
        cases b with
        | true => simp only [] at hr; subst hr; exact h1
        | false =>
          simp only [] at hr
          split at hr
          · have h2 := ihF ({ w1 with drv := { w1.drv with extendedFo := false, connectionSize := 500 } } : World σ)
            have h12 : lcl_SzStep w (forwardOpen hook fuel
                ({ w1 with drv := { w1.drv with extendedFo := false, connectionSize := 500 } } : World σ)).1 := by
              rcases h2 with h2 | h2
              · exact .inr h2
              · exact .inr h2
            generalize forwardOpen hook fuel _ = r2 at hr h12
            obtain ⟨w3, o3⟩ := r2
            cases o3 with
            | error e => simp only [] at hr; subst hr; exact h12
            | ok b => cases b <;> (simp only [] at hr; subst hr; exact h12)
          · subst hr; exact h1
    · generalize hr : genericMessage hook (fuel + 1) w a = r
      unfold genericMessage at hr
      have h0 : lcl_SzStep w (if a.connected = true then ensureForwardOpen hook fuel w else (w, Except.ok ())).1 := by
        split
        · exact ihE w
        · exact lcl_SzStep_refl _
      generalize (if a.connected = true then ensureForwardOpen hook fuel w else (w, Except.ok ())) = p0 at hr h0
      obtain ⟨w0, pre⟩ := p0
      cases pre with
      | error e => simp only [] at hr; subst hr; exact h0
      | ok u =>
        simp only [] at hr
        split at hr
        · subst hr; exact h0
        rename_i reqPath _
        split at hr
        · have hs : lcl_SzStep w (sendReq hook ({ w0 with drv := w0.drv.nextSeq.2 } : World σ)
              (.sendUnit w0.drv.nextSeq.1 ([UInt8.ofNat a.service] ++ reqPath ++ a.data)) false).1 :=
            lcl_SzStep_trans h0 (lcl_SzStep_trans (a := w0) (b := ({ w0 with drv := w0.drv.nextSeq.2 } : World σ)) (.inl rfl)
              (lcl_SzStep_sendReq hook _ _ false))
          split at hr
          · subst hr; exact hs
          · split at hr <;> (subst hr; exact hs)
        · split at hr
          · subst hr; exact h0
          split at hr
          · subst hr; exact h0
          rename_i m _
          have hs := lcl_SzStep_trans h0 (lcl_SzStep_sendReq hook w0 (.sendRR m) false)
          split at hr
          · subst hr; exact hs
          · split at hr <;> (subst hr; exact hs)

theorem lcl_SzStep_forwardCloseF {σ} (hook : ObjHook σ) (fuel : Nat) (w : World σ) :
    lcl_SzStep w (lci_forwardCloseF hook fuel w).1 := by
  generalize hr : lci_forwardCloseF hook fuel w = r
  unfold lci_forwardCloseF at hr
  split at hr
  · subst hr; exact lcl_SzStep_refl _
  simp only [] at hr
  split at hr
  · subst hr; exact lcl_SzStep_refl _
  generalize hgg : genericMessage hook fuel w _ = g at hr
  have k1 : lcl_SzStep w g.1 := hgg ▸ (lcl_SzStep_mutual hook fuel).2.2 w _
  clear hgg
  obtain ⟨w1, r1⟩ := g
  cases r1 with
  | error e => simp only [] at hr; subst hr; exact k1
  | ok tag =>
    simp only [] at hr
    split at hr
    · subst hr; exact k1
    · subst hr; exact k1

theorem lcl_SzStep_forwardClose {σ} (hook : ObjHook σ) (w : World σ) : lcl_SzStep w (forwardClose hook w).1 := by
  rw [lcs_forwardCloseF_eq]
  exact lcl_SzStep_forwardCloseF hook FUEL w

theorem lcl_SzStep_close {σ} (hook : ObjHook σ) (w : World σ) : lcl_SzStep w (closeDrv hook w).1 := by
  have h1 : lcl_SzStep w (lcCloseFc hook w).1 := by
    unfold lcCloseFc
    split
    · have := lcl_SzStep_forwardClose hook w
      generalize forwardClose hook w = fc at this ⊢
      obtain ⟨wf, rf⟩ := fc
      cases rf <;> exact this
    · exact lcl_SzStep_refl _
  have h2 : lcl_SzStep w (lcCloseTry hook w).1 := by
    unfold lcCloseTry
    generalize lcCloseFc hook w = p at h1
    obtain ⟨wa, ra⟩ := p
    unfold lcCloseUnreg
    cases ra with
    | error e => exact h1
    | ok u =>
      simp only []
      split
      · have h3 := lcl_SzStep_trans h1 (lcl_SzStep_sendReq hook wa .unregisterSession true)
        generalize sendReq hook wa .unregisterSession true = sr at h3 ⊢
        obtain ⟨wb, rb⟩ := sr
        cases rb with
        | error e => exact h3
        | ok x => exact h3
      · exact h1
  rw [lc_closeDrv_eq]
  exact h2

theorem lcl_SzStep_reach {σ} {hook : ObjHook σ} {w w' : World σ} (h : Lgx.Drv.lcl_Reach hook w w') : lcl_SzStep w w' := by
  induction h with
  | refl => exact lcl_SzStep_refl _
  | @draw w1 v _ ih => exact ih
  | @send w1 seq msg _ ih => exact lcl_SzStep_trans ih (lcl_SzStep_sendReq hook w1 _ false)

theorem lcl_SzStep_read {σ} (hook : ObjHook σ) (cfg : Lgx.Drv.Cfg) (w : World σ) (tags : List Name) :
    lcl_SzStep w (Lgx.Drv.read hook cfg w tags).1 := by
  have b1 := (lcl_SzStep_mutual hook FUEL).2.1 w
  obtain ⟨r1, r2⟩ := Lgx.Drv.lcl_read_reach hook cfg w tags _ rfl
  generalize ensureForwardOpen hook FUEL w = r0 at b1 r1 r2
  obtain ⟨w0, pre⟩ := r0
  cases pre with
  | error e => rw [r1 e rfl]; exact b1
  | ok u => exact lcl_SzStep_trans b1 (lcl_SzStep_reach (r2 u rfl))

theorem lcl_SzStep_write {σ} (hook : ObjHook σ) (cfg : Lgx.Drv.Cfg) (w : World σ) (tvs : List (Name × PyVal)) :
    lcl_SzStep w (Lgx.Drv.write hook cfg w tvs).1 := by
  have b1 := (lcl_SzStep_mutual hook FUEL).2.1 w
  obtain ⟨r1, r2⟩ := Lgx.Drv.lcl_write_reach hook cfg w tvs _ rfl
  generalize ensureForwardOpen hook FUEL w = r0 at b1 r1 r2
  obtain ⟨w0, pre⟩ := r0
  cases pre with
  | error e => rw [r1 e rfl]; exact b1
  | ok u => exact lcl_SzStep_trans b1 (lcl_SzStep_reach (r2 u rfl))

/-- the connection size is the configured 4000 or the 500 of the standard Forward Open -/
def lcl_Sz (d : Drv) : Prop := d.connectionSize = 4000 ∨ d.connectionSize = 500

theorem lcl_Sz_step {σ} {w w' : World σ} (h : lcl_Sz w.drv) (hs : lcl_SzStep w w') : lcl_Sz w'.drv := by
  rcases hs with hs | hs
  · unfold lcl_Sz; rw [hs]; exact h
  · exact .inr hs

end Pycomm.Cli
