/-
  C06, composition of all round-trip results: facts about `decode` that hold for every type
  (stability under appended bytes for `SelfDelim`, BufferEmptyError on the empty buffer,
  fixed-width types are self-delimiting and contain no STRINGI).
-/
import PycommProofs.RTAll1
import PycommProofs.CodecErrors
namespace Pycomm
open Pycomm.ER

/-! ### `SelfDelim` types: a successful decode does not depend on what follows -/

theorem rta_stab_all : (∀ t, SelfDelim t → Stab (decode t)) ∧
    (∀ ms, SelfDelimMembers ms → ∀ acc, Stab (fun bs => decodeMembers ms bs acc)) ∧
    (∀ _ : TMembers, True) := by
  refine Ty.induct3 ?_ ?_ ?_ ?_ ?_ ?_ ?_ ?_
  · intro t h hs
    refine (nonrec_good t h ?_).stab
    intro n hn; subst hn
    simpa only [SelfDelim] using hs
  · intro len t ih hs
    rw [decode_arr_eq]
    cases len with
    | all => simp [SelfDelim] at hs
    | pref k =>
      simp only [SelfDelim] at hs
      exact arr_stab_pref (ih hs) k
    | fixed n =>
      cases n with
      | zero => exact arr_stab_zero
      | succ n =>
        simp only [SelfDelim] at hs
        exact arr_stab_fixed (ih hs) _
  · intro ms ih hs
    rw [decode_struct_eq]
    simp only [SelfDelim] at hs
    exact (ih hs []).bind fun _ => Stab.ret
  · intro ms bits priv size _ _
    rw [decode_tag_eq]; exact tag_stab size
  · intro _ acc; rw [members_nil]; exact Stab.ret
  · intro name t rest iht ihr hs acc
    rw [members_cons]
    simp only [SelfDelimMembers] at hs
    exact (iht hs.1).bind fun v => ihr hs.2 _
  · trivial
  · intros; trivial

/-- a successful decode of a self-delimiting type does not depend on what follows the bytes it consumed -/
theorem rta_stable (t : Ty) (hs : SelfDelim t) (p : Bytes) (v : PyVal) (r : Bytes)
    (h : decode t p = .ok (v, r)) (ext : Bytes) : decode t (p ++ ext) = .ok (v, r ++ ext) :=
  rta_stab_all.1 t hs p v r h ext

theorem rta_selfDelim_all : (∀ t, TailSafe t → SelfDelim t) ∧
    (∀ ms, TailSafeMembers ms → SelfDelimMembers ms) ∧ (∀ _ : TMembers, True) := by
  refine Ty.induct3 ?_ ?_ ?_ ?_ ?_ ?_ ?_ ?_
  · intro t h hs
    cases t <;> simp only [NonRec] at h <;> simp only [SelfDelim]
    case nbytes n => simpa only [TailSafe] using hs
  · intro len t ih hs
    cases len with
    | all => simp [TailSafe] at hs
    | pref k => simp only [TailSafe] at hs; simp only [SelfDelim]; exact ih hs
    | fixed n =>
      cases n with
      | zero => simp only [SelfDelim]
      | succ n => simp only [TailSafe] at hs; simp only [SelfDelim]; exact ih hs
  · intro ms ih hs
    simp only [TailSafe] at hs; simp only [SelfDelim]; exact ih hs
  · intro ms bits priv size _ _; simp only [SelfDelim]
  · intro _; simp only [SelfDelimMembers]
  · intro name t rest iht ihr hs
    simp only [TailSafeMembers] at hs
    simp only [SelfDelimMembers]
    exact ⟨iht hs.1, ihr hs.2⟩
  · trivial
  · intros; trivial

theorem rta_selfDelim_of_tailSafe (t : Ty) (h : TailSafe t) : SelfDelim t := rta_selfDelim_all.1 t h

/-! ### the empty buffer: a self-delimiting decoder that fails on it fails with BufferEmptyError -/

/-- a decoder whose only failure on the empty buffer is BufferEmptyError -/
def NilBE {α} (f : D α) : Prop := ∀ e, f [] = .error e → e = .bufferEmpty

theorem NilBE.bind {α β} {f : D α} {g : α → D β} (hf : NilBE f) (hs : Suf f) (hg : ∀ a, NilBE (g a)) :
    NilBE (bindD f g) := by
  intro e h
  rcases (bindD_err ..).1 h with h | ⟨a, r1, h1, h2⟩
  · exact hf e h
  · have : r1 = [] := List.suffix_nil.1 (hs _ _ _ h1)
    subst this
    exact hg a e h2

theorem NilBE.ret {α} {a : α} : NilBE (ret a) := by
  intro e h; simp [ER.ret] at h

theorem NilBE.of_eq {α} {f : D α} (h : f [] = .error .bufferEmpty) : NilBE f := by
  intro e he; rw [h] at he; cases he; rfl

theorem rta_rd_nil (n : Nat) : rd n [] = .error .bufferEmpty := by simp [rd]

theorem rta_bindD_nil {α β} (f : D α) (g : α → D β) (h : f [] = .error .bufferEmpty) :
    bindD f g [] = .error .bufferEmpty := by
  simp [bindD, h, bind, Except.bind]

theorem rta_intVal_nil (k : IntK) : decodeIntVal k [] = .error .bufferEmpty := RT.decodeIntVal_nil k
theorem rta_intNat_nil (k : IntK) : decodeIntNat k [] = .error .bufferEmpty := RT.decodeIntNat_nil k

theorem rta_nonrec_nil : (t : Ty) → NonRec t → decode t [] = .error .bufferEmpty
  | .bool, _ => by rw [decode_bool_eq]; exact rta_bindD_nil _ _ (rta_rd_nil _)
  | .int k, _ => by rw [decode_int_eq]; exact rta_bindD_nil _ _ (rta_intVal_nil k)
  | .real, _ => by rw [decode_real_eq]; exact rta_bindD_nil _ _ (rta_intNat_nil _)
  | .lreal, _ => by rw [decode_lreal_eq]; exact rta_bindD_nil _ _ (rta_intNat_nil _)
  | .dateAndTime, _ => by rw [decode_dt_eq]; exact rta_bindD_nil _ _ (rta_intNat_nil _)
  | .str _ _, _ => by rw [decode_str_eq, decodeStr_eq]; exact rta_bindD_nil _ _ (rta_intNat_nil _)
  | .stringN _, _ => by rw [decode_stringN_eq, decodeStringN_eq]; exact rta_bindD_nil _ _ (rta_intNat_nil _)
  | .stringI, _ => by rw [decode_stringI_eq, decodeStringI_eq]; exact rta_bindD_nil _ _ (rta_intNat_nil _)
  | .bits k, _ => by rw [decode_bits_eq, decodeBits_eq]; exact rta_bindD_nil _ _ (rta_intNat_nil _)
  | .nbytes n, _ => by
      rw [decode_nbytes_eq]
      simp only [decodeNBytes, RT.streamRead_nil]; rfl
  | .fixedStr _ _, _ => by
      rw [decode_fixedStr_eq, decodeFixedStr_eq]; exact rta_bindD_nil _ _ (rta_intVal_nil _)
  | .ipAddr, _ => by rw [decode_ip_eq, decodeIp_eq]; exact rta_bindD_nil _ _ (rta_rd_nil _)
  | .arr _ _, h => h.elim
  | .struct _, h => h.elim
  | .structTag _ _ _ _, h => h.elim

theorem rta_decodeN_nilBE {f : D PyVal} (hf : NilBE f) (hs : Suf f) : ∀ n, NilBE (decodeN f n)
  | 0 => by rw [decodeN_zero]; exact NilBE.ret
  | n + 1 => by
      rw [decodeN_succ]
      exact hf.bind hs fun _ => (rta_decodeN_nilBE hf hs n).bind (decodeN_suf hs n) fun _ => NilBE.ret

theorem rta_nilBE_all : (∀ t, SelfDelim t → NilBE (decode t)) ∧
    (∀ ms, SelfDelimMembers ms → ∀ acc, NilBE (fun bs => decodeMembers ms bs acc)) ∧
    (∀ _ : TMembers, True) := by
  refine Ty.induct3 ?_ ?_ ?_ ?_ ?_ ?_ ?_ ?_
  · intro t h _; exact NilBE.of_eq (rta_nonrec_nil t h)
  · intro len t ih hs
    rw [decode_arr_eq]
    cases len with
    | all => simp [SelfDelim] at hs
    | pref k => exact NilBE.of_eq (rta_bindD_nil _ _ (rta_intNat_nil k))
    | fixed n =>
      cases n with
      | zero =>
        show NilBE (bindD (decodeN (decode t) 0) fun vs => ret (post t vs))
        rw [decodeN_zero]; exact NilBE.ret.bind Suf.ret fun _ => NilBE.ret
      | succ n =>
        simp only [SelfDelim] at hs
        exact (rta_decodeN_nilBE (ih hs) (suf_all.1 t) _).bind (decodeN_suf (suf_all.1 t) _) fun _ => NilBE.ret
  · intro ms ih hs
    rw [decode_struct_eq]
    simp only [SelfDelim] at hs
    exact (ih hs []).bind (suf_all.2.1 ms []) fun _ => NilBE.ret
  · intro ms bits priv size _ _
    rw [decode_tag_eq]; exact NilBE.of_eq (rta_bindD_nil _ _ (rta_rd_nil size))
  · intro _ acc; rw [members_nil]; exact NilBE.ret
  · intro name t rest iht ihr hs acc
    rw [members_cons]
    simp only [SelfDelimMembers] at hs
    exact (iht hs.1).bind (suf_all.1 t) fun v => ihr hs.2 _
  · trivial
  · intros; trivial

/-- a self-delimiting type whose values take at least one byte raises BufferEmptyError on the empty buffer -/
theorem rta_decode_nil (t : Ty) (hs : SelfDelim t) (hw : PosWidth t) : decode t [] = .error .bufferEmpty := by
  cases h : decode t [] with
  | error e => rw [rta_nilBE_all.1 t hs e h]
  | ok p =>
    obtain ⟨v, r⟩ := p
    have := decode_progress t hw [] v r h
    simp at this

/-! ### fixed-width types -/

theorem rta_fixed_all : (∀ t w, fixedWidth t = some w → SelfDelim t ∧ NoStringI t) ∧
    (∀ ms w, fixedWidthMembers ms = some w → SelfDelimMembers ms ∧ NoStringIMembers ms) ∧
    (∀ _ : TMembers, True) := by
  refine Ty.induct3 ?_ ?_ ?_ ?_ ?_ ?_ ?_ ?_
  · intro t h w hw
    cases t <;> simp only [NonRec] at h <;> simp only [SelfDelim, NoStringI, and_self] <;>
      simp [fixedWidth] at hw
    case nbytes n => exact ⟨Int.le_of_lt hw.1, trivial⟩
  · intro len t ih w hw
    cases len with
    | all => simp [fixedWidth] at hw
    | pref k => simp [fixedWidth] at hw
    | fixed n =>
      simp only [fixedWidth, Option.map_eq_some_iff] at hw
      obtain ⟨w', hw', _⟩ := hw
      cases n with
      | zero => simp only [SelfDelim, NoStringI]; exact ⟨trivial, (ih w' hw').2⟩
      | succ n => simp only [SelfDelim, NoStringI]; exact ih w' hw'
  · intro ms ih w hw
    simp only [fixedWidth] at hw
    simp only [SelfDelim, NoStringI]
    exact ih w hw
  · intro ms bits priv size _ w _; simp only [SelfDelim, NoStringI, and_self]
  · intro w _; simp only [SelfDelimMembers, NoStringIMembers, and_self]
  · intro name t rest iht ihr w hw
    simp only [fixedWidthMembers, bind, Option.bind_eq_some_iff, pure, Option.some.injEq] at hw
    obtain ⟨a, ha, b, hb, _⟩ := hw
    simp only [SelfDelimMembers, NoStringIMembers]
    exact ⟨⟨(iht a ha).1, (ihr b hb).1⟩, (iht a ha).2, (ihr b hb).2⟩
  · trivial
  · intros; trivial

theorem rta_fixed_selfDelim (t : Ty) (w : Nat) (h : fixedWidth t = some w) : SelfDelim t :=
  (rta_fixed_all.1 t w h).1

theorem rta_fixed_noStringI (t : Ty) (w : Nat) (h : fixedWidth t = some w) : NoStringI t :=
  (rta_fixed_all.1 t w h).2

/-! ### `decodedAs` is the identity where there is no STRINGI -/

theorem rta_map_id (f : PyVal → PyVal) (vs : List PyVal) (h : ∀ x, f x = x) : vs.map f = vs := by
  induction vs with
  | nil => rfl
  | cons x xs ih => simp [h x, ih]

theorem rta_argOf_noStringI (t : Ty) (h : NoStringI t) (v : PyVal) : argOf t v = v := by
  apply argOf_of_ne_stringI
  intro e; subst e; simp [NoStringI] at h

theorem rta_noStringI_all : (∀ t, NoStringI t → ∀ v, decodedAs t v = v) ∧
    (∀ ms, NoStringIMembers ms → ∀ kvs, decodedAsMembers ms kvs = kvs) ∧ (∀ _ : TMembers, True) := by
  refine Ty.induct3 ?_ ?_ ?_ ?_ ?_ ?_ ?_ ?_
  · intro t h hn v
    cases t <;> simp only [NonRec] at h <;> simp only [decodedAs]
    case stringI => simp [NoStringI] at hn
  · intro len t ih hn v
    simp only [NoStringI] at hn
    cases v <;> simp only [decodedAs]
    case list vs => rw [rta_map_id _ vs (fun x => by rw [rta_argOf_noStringI t hn x]; exact ih hn x)]
  · intro ms ih hn v
    simp only [NoStringI] at hn
    cases v <;> simp only [decodedAs]
    case dict kvs => rw [ih hn kvs]
  · intro ms bits priv size _ _ v; simp only [decodedAs]
  · intro _ kvs; simp only [decodedAsMembers]
  · intro name t rest iht ihr hn kvs
    simp only [NoStringIMembers] at hn
    cases kvs with
    | nil => simp only [decodedAsMembers]
    | cons kv kvs => simp only [decodedAsMembers, rta_argOf_noStringI t hn.1, iht hn.1, ihr hn.2]
  · trivial
  · intros; trivial

/-- without a STRINGI inside, `decode` returns the encoded value itself -/
theorem rta_noStringI_id (t : Ty) (h : NoStringI t) (v : PyVal) : decodedAs t v = v :=
  rta_noStringI_all.1 t h v

theorem rta_fixed_id (t : Ty) (w : Nat) (h : fixedWidth t = some w) (v : PyVal) : decodedAs t v = v :=
  rta_noStringI_id t (rta_fixed_noStringI t w h) v

end Pycomm
