/-
  Helper lemmas for C17 over histories with LogixDriver reads and writes.  Part 4: the invariant inside a read /
  write call.  `lcl_Mid D w pool`: `pool` lists the sequence numbers that were drawn and are still to be sent,
  each with its age (how many draws ago it was drawn); the ages are pairwise different and at most `D`; the sequence
  count the target saw last on the driver's connection has an age of at most `D` that differs from every age in the
  pool.  With `D ≤ 65534` two numbers of different age are different numbers — so sending a number from the pool
  never repeats the last count.
-/
import PycommProofs.LCLogix3
namespace Pycomm.Cli
open Pycomm.Tgt Pycomm.Encap Pycomm.Path Pycomm.Reply Pycomm.EN

/-- `s` is the number the counter delivered `d` draws ago, when its state is `val` (as in `lcs_recent`) -/
def lcl_ago (s val d : Nat) : Prop := s = 1 + ((val - 1) + 65535 - d) % 65535

theorem lcl_ago_next (s val d : Nat) (hv : 1 ≤ val ∧ val ≤ 65536) (hd : d ≤ 65534) (h : lcl_ago s val d) :
    lcl_ago s ((if val > 65535 then 1 else val) + 1) (d + 1) := by
  unfold lcl_ago at *
  split <;> omega

theorem lcl_ago_new (val : Nat) (hv : 1 ≤ val ∧ val ≤ 65536) :
    lcl_ago (if val > 65535 then 1 else val) ((if val > 65535 then 1 else val) + 1) 1 := by
  unfold lcl_ago
  split <;> omega

theorem lcl_ago_inj (s val d d' : Nat) (h1 : 1 ≤ d ∧ d ≤ 65535) (h2 : 1 ≤ d' ∧ d' ≤ 65535) (hv : 1 ≤ val)
    (h : lcl_ago s val d) (h' : lcl_ago s val d') : d = d' := by
  unfold lcl_ago at *
  omega

theorem lcl_recent_iff (s val D : Nat) : lcs_recent s val D ↔ ∃ d, 1 ≤ d ∧ d ≤ D ∧ lcl_ago s val d := Iff.rfl

structure lcl_Mid (D : Nat) {σ} (w : World σ) (pool : List (Nat × Nat)) : Prop where
  dle : D ≤ 65534
  val : 1 ≤ w.drv.seqVal ∧ w.drv.seqVal ≤ 65536
  ages : pool.Pairwise (fun p q => p.2 ≠ q.2)
  pl : ∀ p ∈ pool, 1 ≤ p.2 ∧ p.2 ≤ D ∧ lcl_ago p.1 w.drv.seqVal p.2
  conns : ∀ c ∈ w.net.target.base.conns, ∀ s, c.lastSeq = some s →
    w.drv.targetIsConnected = true ∧ (∃ cidb, w.drv.targetCid = some cidb ∧ c.cid = leVal cidb) ∧
    ∃ d, 1 ≤ d ∧ d ≤ D ∧ lcl_ago s w.drv.seqVal d ∧ ∀ p ∈ pool, p.2 ≠ d
  log : ∀ e ∈ w.net.target.base.log, lcs_NotSeq e

theorem lcl_Mid_of_seqB {σ} {B : Nat} {w : World σ} (h : lcl_SeqB B w) : lcl_Mid (lcs_D w + B) w [] := by
  refine ⟨?_, h.val, List.Pairwise.nil, (fun p hp => nomatch hp), ?_, h.log⟩
  · have := h.fl
    unfold lcs_D; omega
  · intro c hc s hs
    obtain ⟨a1, a2, d, b1, b2, b3⟩ := h.conns c hc s hs
    exact ⟨a1, a2, d, b1, b2, b3, fun p hp => nomatch hp⟩

theorem lcl_Mid_mono {σ} {D D' : Nat} {w : World σ} {pool : List (Nat × Nat)} (h : lcl_Mid D w pool) (hd : D ≤ D')
    (hd' : D' ≤ 65534) : lcl_Mid D' w pool := by
  refine ⟨hd', h.val, h.ages, ?_, ?_, h.log⟩
  · intro p hp
    obtain ⟨a1, a2, a3⟩ := h.pl p hp
    exact ⟨a1, by omega, a3⟩
  · intro c hc s hs
    obtain ⟨a1, a2, d, b1, b2, b3, b4⟩ := h.conns c hc s hs
    exact ⟨a1, a2, d, b1, by omega, b3, b4⟩

theorem lcl_Mid_sub {σ} {D : Nat} {w : World σ} {pool pool' : List (Nat × Nat)} (h : lcl_Mid D w pool)
    (hs : pool'.Sublist pool) : lcl_Mid D w pool' := by
  refine ⟨h.dle, h.val, h.ages.sublist hs, fun p hp => h.pl p (hs.subset hp), ?_, h.log⟩
  intro c hc s hs'
  obtain ⟨a1, a2, d, b1, b2, b3, b4⟩ := h.conns c hc s hs'
  exact ⟨a1, a2, d, b1, b2, b3, fun p hp => b4 p (hs.subset hp)⟩

theorem lcl_Mid_perm {σ} {D : Nat} {w : World σ} {pool pool' : List (Nat × Nat)} (h : lcl_Mid D w pool)
    (hp : pool.Perm pool') : lcl_Mid D w pool' := by
  refine ⟨h.dle, h.val, hp.pairwise h.ages (fun h => fun e => h e.symm), fun p hp' => h.pl p (hp.mem_iff.2 hp'), ?_, h.log⟩
  intro c hc s hs'
  obtain ⟨a1, a2, d, b1, b2, b3, b4⟩ := h.conns c hc s hs'
  exact ⟨a1, a2, d, b1, b2, b3, fun p hp' => b4 p (hp.mem_iff.2 hp')⟩

/-- back to the invariant between calls -/
theorem lcl_SeqB_of_mid {σ} {D B : Nat} {w : World σ} (h : lcl_Mid D w []) (hD : D ≤ lcs_D w + B)
    (hfl : w.net.faults.length + B < 65534) (hctx : w.drv.context.length = 8)
    (hs32 : ∀ s, w.drv.session = some s → s < 2 ^ 32)
    (hsk : w.drv.targetIsConnected = true → w.drv.hasSock = true) : lcl_SeqB B w := by
  refine ⟨hfl, h.val, hctx, hs32, hsk, ?_, h.log⟩
  intro c hc s hs
  obtain ⟨a1, a2, d, b1, b2, b3, _⟩ := h.conns c hc s hs
  exact ⟨a1, a2, d, b1, by omega, b3⟩

/-- drawing a sequence number: every age grows by one, the new number has age 1 -/
theorem lcl_Mid_draw {σ} {D : Nat} {w : World σ} {pool : List (Nat × Nat)} (hm : lcl_Mid D w pool) (hD : D < 65534) :
    lcl_Mid (D + 1) ({ w with drv := w.drv.nextSeq.2 } : World σ)
      ((w.drv.nextSeq.1, 1) :: pool.map (fun p => (p.1, p.2 + 1))) := by
  obtain ⟨e1, e2⟩ := lcs_nextSeq w.drv
  rw [e1, e2]
  have hv := hm.val
  refine ⟨by omega, ?_, ?_, ?_, ?_, hm.log⟩
  · show 1 ≤ (if w.drv.seqVal > 65535 then 1 else w.drv.seqVal) + 1 ∧
      (if w.drv.seqVal > 65535 then 1 else w.drv.seqVal) + 1 ≤ 65536
    split <;> omega
  · rw [List.pairwise_cons]
    constructor
    · intro q hq
      obtain ⟨p, hp, rfl⟩ := List.mem_map.1 hq
      have := (hm.pl p hp).1
      show 1 ≠ p.2 + 1
      omega
    · exact hm.ages.map _ (fun p q hpq => by show p.2 + 1 ≠ q.2 + 1; omega)
  · intro q hq
    rcases List.mem_cons.1 hq with rfl | hq
    · exact ⟨Nat.le_refl _, by omega, lcl_ago_new _ hv⟩
    · obtain ⟨p, hp, rfl⟩ := List.mem_map.1 hq
      obtain ⟨a1, a2, a3⟩ := hm.pl p hp
      exact ⟨by show 1 ≤ p.2 + 1; omega, by show p.2 + 1 ≤ D + 1; omega, lcl_ago_next _ _ _ hv (by omega) a3⟩
  · intro c hc s hs
    obtain ⟨a1, a2, d, b1, b2, b3, b4⟩ := hm.conns c hc s hs
    refine ⟨a1, a2, d + 1, by omega, by omega, lcl_ago_next _ _ _ hv (by omega) b3, ?_⟩
    intro q hq
    rcases List.mem_cons.1 hq with rfl | hq
    · show 1 ≠ d + 1; omega
    · obtain ⟨p, hp, rfl⟩ := List.mem_map.1 hq
      have := b4 p hp
      show p.2 + 1 ≠ d + 1
      omega

/-- what the lifecycle invariant gives for a connected send -/
structure lcl_Open (S : Prop) {σ} (w : World σ) : Prop where
  inv : lci_Inv S w
  conn : lci_Conn w
  con : w.drv.targetIsConnected = true

theorem lcl_Open_seq {σ} {S : Prop} {w : World σ} (h : lcl_Open S w) (v : Nat) :
    lcl_Open S ({ w with drv := { w.drv with seqVal := v } } : World σ) := by
  refine ⟨⟨h.inv.t, h.inv.ctx8, h.inv.opt0, h.inv.pend, h.inv.sess, ?_⟩, h.conn, h.con⟩
  intro hS
  have c := h.inv.cfg hS
  exact ⟨c.path, c.cid4, c.csn2, c.vid2, c.vsn4, c.mode⟩

theorem lcl_Open_next {σ} {S : Prop} {w : World σ} (h : lcl_Open S w) :
    lcl_Open S ({ w with drv := w.drv.nextSeq.2 } : World σ) := lcl_Open_seq h _

theorem lcl_Open_send {σ} (hook : ObjHook σ) (hh : lci_HookOk hook) {S : Prop} {w : World σ} (h : lcl_Open S w)
    (seq : Nat) (m : Bytes) : lcl_Open S (sendReq hook w (.sendUnit seq m) false).1 := by
  obtain ⟨a1, a2⟩ := lci_sendUnit hook hh S w h.inv h.conn h.con seq m
  refine ⟨a1, a2, ?_⟩
  rw [(lci_sendReq hook w (.sendUnit seq m) false h.inv.pend _ rfl).1]
  exact h.con

/-- sending the number at the head of the pool on the open connection: the invariant holds for the rest of the pool;
    when the send returns a reply and nothing else is pending, the last count is the number just sent -/
theorem lcl_Mid_send {σ} (hook : ObjHook σ) (hh : lci_HookOk hook) (hn : lcs_HookNoSeq hook) (S : Prop) (D : Nat)
    (w : World σ) (ho : lcl_Open S w) (s a : Nat) (rest : List (Nat × Nat)) (hm : lcl_Mid D w ((s, a) :: rest))
    (m : Bytes) :
    lcl_Mid D (sendReq hook w (.sendUnit s m) false).1 rest ∧
    (∀ x, (sendReq hook w (.sendUnit s m) false).2 = .ok x → rest = [] →
      lcl_Mid a (sendReq hook w (.sendUnit s m) false).1 []) := by
  have hi := ho.inv
  have hc := ho.conn
  have hcon := ho.con
  obtain ⟨hd, _, hcases⟩ := lci_sendReq hook w (.sendUnit s m) false hi.pend _ rfl
  generalize sendReq hook w (.sendUnit s m) false = res at hd hcases ⊢
  have hsub : lcl_Mid D w rest := lcl_Mid_sub hm (List.sublist_cons_self _ _)
  obtain ⟨p1, p2, p3⟩ := hm.pl (s, a) List.mem_cons_self
  have hfresh : ∀ p ∈ rest, p.2 ≠ a := by
    intro p hp e
    exact (List.pairwise_cons.1 hm.ages).1 p hp e.symm
  rcases hcases with ⟨ht, hr⟩ | ⟨frame, hb, hsock, ht, hr⟩
  · have hkeep : lcl_Mid D res.1 rest :=
      ⟨hsub.dle, hd ▸ hsub.val, hsub.ages, by rw [hd]; exact hsub.pl, by rw [hd, ht]; exact hsub.conns,
       by rw [ht]; exact hsub.log⟩
    refine ⟨hkeep, ?_⟩
    intro x hx
    rcases hr with ⟨h, _⟩ | ⟨e, he⟩
    · cases h
    · rw [he] at hx; cases hx
  · obtain ⟨s0, cidb, c0, k1, k2, k3, k4, k5, k6, k7⟩ := hc hcon
    obtain ⟨s', hs', hmem⟩ := hi.sess
    rw [k1] at hs'; cases hs'
    have hsm := hmem k2
    obtain ⟨s2, common, g1, g2, _, g4⟩ := parse_built _ w.drv.ctx frame hi.ctx8 hb
    have g1' : w.drv.ctx.session = some s0 := k1
    rw [g1'] at g1; cases g1
    obtain ⟨hseq, hml, _, g2⟩ := g2
    have hcid : w.drv.ctx.targetCid = some cidb := k3
    have hcpf : parseCpf common = some (.connected (leVal cidb) s m) := by
      rw [g2, hcid]; exact parseCpf_connected cidb m s k4 hseq hml
    have hopt : w.drv.ctx.option = 0 := hi.opt0
    cases hfind : w.net.target.base.conns.find? (fun c => c.cid == leVal cidb && c.session == s0) with
    | none =>
      exfalso
      have := List.find?_eq_none.1 hfind c0 k5
      simp [k6, k7] at this
    | some c =>
      have hu := lcs_handle_unit hook hh hn w.net.target frame _ (leVal cidb) s m c g4 rfl hopt rfl hsm hcpf hfind
      rw [← ht] at hu
      have hcm : c ∈ w.net.target.base.conns := List.mem_of_find?_eq_some hfind
      have hne : c.lastSeq ≠ some s := by
        intro hl
        obtain ⟨_, _, d, b1, b2, b3, b4⟩ := hm.conns c hcm s hl
        have hda := b4 (s, a) List.mem_cons_self
        have hdle := hm.dle
        exact hda (lcl_ago_inj s w.drv.seqVal a d ⟨p1, by omega⟩ ⟨b1, by omega⟩ hm.val.1 p3 b3)
      have hlog : ∀ e ∈ res.1.net.target.base.log, lcs_NotSeq e := by
        obtain ⟨extra, hl, hx⟩ := hu.log
        rw [hl]
        intro e he
        rcases List.mem_append.1 he with h | h
        · exact hx hne e h
        · exact hm.log e h
      have hconns : ∀ (E : Nat) (pool' : List (Nat × Nat)), a ≤ E → (∀ p ∈ pool', p.2 ≠ a) →
          ∀ c' ∈ res.1.net.target.base.conns, ∀ s'', c'.lastSeq = some s'' →
            res.1.drv.targetIsConnected = true ∧ (∃ cidb, res.1.drv.targetCid = some cidb ∧ c'.cid = leVal cidb) ∧
            ∃ d, 1 ≤ d ∧ d ≤ E ∧ lcl_ago s'' res.1.drv.seqVal d ∧ ∀ p ∈ pool', p.2 ≠ d := by
        intro E pool' hE hpool' c' hcm' s'' hs''
        rcases hu.conns c' hcm' with hnone | ⟨c1, hc1, hcid1, hor⟩
        · rw [hnone] at hs''; cases hs''
        · rcases hor with ⟨hx, hy⟩ | ⟨hx, hy⟩
          · rw [hy] at hs''; cases hs''
            exact ⟨by rw [hd]; exact hcon, ⟨cidb, by rw [hd]; exact k3, by rw [hcid1, hx]⟩, a, p1, hE,
              by rw [hd]; exact p3, hpool'⟩
          · subst hy
            obtain ⟨_, ⟨cidb', q1, q2⟩, _⟩ := hm.conns c' hc1 s'' hs''
            rw [k3] at q1; cases q1
            exact absurd q2 hx
      constructor
      · exact ⟨hsub.dle, hd ▸ hsub.val, hsub.ages, by rw [hd]; exact hsub.pl, hconns D rest p2 hfresh, hlog⟩
      · intro x hx hrest
        have hdle := hm.dle
        exact ⟨by omega, hd ▸ hsub.val, List.Pairwise.nil, (fun p hp => nomatch hp),
          hconns a [] (Nat.le_refl _) (fun p hp => nomatch hp), hlog⟩

end Pycomm.Cli
