/-
  LogixDriver.read of ONE request that is sent as one plain Read Tag service: the layers composed, for any tag
  string whose parse, request path, address resolution and reply decoding are known. The request shapes
  (array element, slice, integer bit, BOOL-array element) instantiate this theorem.
-/
import PycommProofs.LDRead2Send
import PycommProofs.LogixDriverRead
namespace Pycomm.Lgx.Drv
open Pycomm Pycomm.Tgt Pycomm.Path Pycomm.Reply Pycomm.Encap Pycomm.Lgx Pycomm.Lgx.E2E

/-- (b) `_read_build_requests` for one error-free parsed request of `n` elements whose answer fits the connection:
    one sequence number is drawn, the result is one plain Read Tag request -/
theorem ldr2_build_single (cfg : Cfg) (d : Cli.Drv) (p : Parsed) (info : TagInfo) (path : Bytes) (n : Nat)
    (hp : p.error = none) (hinfo : p.info = some info) (hel : p.elements = (n : Int)) (hn : n ≤ 65535)
    (hpath : requestPathOf cfg p.plcTag info = .ok path)
    (hsize : tagReturnSize info n + (2 + (Cl.readMsg path n).length) + 2 ≤ d.connectionSize) :
    readBuildRequests cfg d [p] =
      (d.nextSeq.2, .ok [Request.read { seq := d.nextSeq.1, tag := p.plcTag, elements := n, info := info,
                                        rid := p.requestId, path := path }]) := by
  have hel' : elementsNat p.elements = .ok n := by
    rw [hel]; unfold elementsNat
    rw [if_pos (by omega)]; rfl
  have hnf : ¬ (tagReturnSize info n + (2 + (Cl.readMsg path n).length) + 2 > d.connectionSize) := by omega
  unfold readBuildRequests
  simp only [List.length_cons, List.length_nil, Nat.zero_add, ne_eq, not_true_eq_false, false_and, if_false,
    readBuildLive, hp, hinfo, mkReadReq, hpath, hel', ReadReq.returnSize, ReadReq.messageLen, hnf, decide_false,
    Bool.false_eq_true, Except.map, List.map_cons, List.map_nil]

/-- (e) `ReadTagResponsePacket` over the reply frame of a successful Read Tag whose data `parse_read_reply` decodes:
    valid, value, type string, no error; and the Tag `_send_requests` records -/
theorem ldr2_readResp (req : ReadReq) (data : Bytes) (v : PyVal) (dt : Name)
    (s toId seq : Nat) (ctx : Bytes) (hc : ctx.length = 8)
    (hp : parseReadReply data req.info req.elements = .ok (v, dt)) :
    readTag req
      (readResp req (some (frame CMD_SEND_UNIT s 0 ctx (cpfReplyConnected toId seq
        (encMRReply 0x4C { status := 0, ext := [], data := data }))))).1
      (readResp req (some (frame CMD_SEND_UNIT s 0 ctx (cpfReplyConnected toId seq
        (encMRReply 0x4C { status := 0, ext := [], data := data }))))).2.1
      (readResp req (some (frame CMD_SEND_UNIT s 0 ctx (cpfReplyConnected toId seq
        (encMRReply 0x4C { status := 0, ext := [], data := data }))))).2.2 =
      .ok { tag := req.tag, value := v, type := some dt, error := none } := by
  obtain ⟨h1, h2, h3⟩ := ldr_tagResp_ok 0x4C s toId seq ctx data hc
  unfold readResp
  simp only [h1, if_true, h2, Option.getD_some, hp]
  unfold readTag
  simp only [h3, h1, if_true]

/-- `LogixDriver.read` of one tag string on a healthy connected driver, when the request is sent as one plain Read
    Tag service and answered with status 0: the result is what the result loop of `read` makes of the recorded Tag
    (name = the addressed tag, decoded value, type string). Exactly one frame is written, one sequence number is
    drawn, the controller's project is unchanged, the resulting world is healthy again.

    `p` is the parsed request; `path`/`segs` its request path and what it denotes; `loc` where the controller
    resolves it; `bs` the bytes the controller holds there; `(v, dt)` what `parse_read_reply` makes of the reply. -/
theorem ldr2_read_single (cfg : Cfg) (w : Cli.World Ext) (sess : Nat) (cidb : Bytes) (conn : Conn)
    (st : LState) (tag0 : Name) (p : Parsed) (info : TagInfo) (path : Bytes) (segs : List PSeg) (loc : Loc)
    (c n : Nat) (bs : Bytes) (v : PyVal) (dt : Name)
    (hw : ldr_Healthy w sess cidb conn) (hlogix : w.net.target.ext.logix = some st)
    (hparse : parseTagRequest cfg.tags false 0 tag0 = p)
    (hperr : p.error = none) (hpinfo : p.info = some info) (hpel : p.elements = (n : Int)) (hrid : p.requestId = 0)
    (hpath : requestPathOf cfg p.plcTag info = .ok path) (hden : Denotes path segs) (hpl : path.length ≤ 600)
    (hr : resolve st.proj segs = .ok loc) (hty : loc.ty = .atomic c)
    (hn : 1 ≤ n ∧ n ≤ loc.avail ∧ n < 65536) (hb : readBytes st.proj loc n = some bs)
    (hreply : parseReadReply (le 2 c ++ bs) info n = .ok (v, dt))
    (hC : tagReturnSize info n + path.length + 7 ≤ w.drv.connectionSize)
    (hT : path.length + 5 ≤ conn.size) (hT2 : bs.length + 8 ≤ conn.size) :
    ∃ w' frm, read hookAll cfg w [tag0] =
        (w', .ok [readResult p [((0 : Nat), { tag := p.plcTag, value := v, type := some dt, error := none })]]) ∧
      w'.drv = w.drv.nextSeq.2 ∧ w'.net.sent = w.net.sent ++ [frm] ∧
      w'.net.target.ext = { w.net.target.ext with logix := some { st with ctr := st.ctr + 1 } } ∧
      ldr_Healthy w' sess cidb { conn with lastSeq := some w.drv.nextSeq.1 } := by
  have hparsed : parseRequestedTags cfg.tags false [tag0] = [p] := by
    show [parseTagRequest cfg.tags false 0 tag0] = _
    rw [hparse]
  have hml : (Cl.readMsg path n).length = path.length + 3 := by
    simp [Cl.readMsg, le, RT.leBytes_length]
  have hbuild := ldr2_build_single cfg w.drv p info path n hperr hpinfo hpel (by omega) hpath (by rw [hml]; omega)
  have hw1 : ldr_Healthy ({ w with drv := w.drv.nextSeq.2 } : Cli.World Ext) sess cidb conn :=
    ldr_Healthy_seq hw _ (by rw [(Cli.lcs_nextSeq w.drv).2])
  obtain ⟨w2, frm, hsend, hd2, hsent2, hext2, hh2⟩ := ldr2_sendUnit_read ({ w with drv := w.drv.nextSeq.2 } : Cli.World Ext)
    sess cidb conn st path segs loc c n bs w.drv.nextSeq.1 hw1 hlogix hden hr hty hn hb (ldr_nextSeq_lt w.drv) hpl hT hT2
  have hresp := ldr2_readResp
    { seq := w.drv.nextSeq.1, tag := p.plcTag, elements := n, info := info, rid := p.requestId, path := path }
    (le 2 c ++ bs) v dt sess conn.toId w.drv.nextSeq.1 w.drv.nextSeq.2.context hw1.ctx8 hreply
  have hfo : Cli.ensureForwardOpen hookAll Cli.FUEL w = (w, .ok ()) := ldr_ensureFO_connected hookAll 7 w hw.connected
  refine ⟨w2, frm, ?_, hd2, hsent2, hext2, hh2⟩
  unfold read
  rw [hfo]
  dsimp only
  rw [hparsed, hbuild]
  dsimp only
  unfold sendRequests sendRequest
  dsimp only
  rw [hsend]
  dsimp only
  rw [hresp]
  dsimp only [Except.map]
  unfold sendRequests
  dsimp only [List.isEmpty_cons, Bool.false_eq_true, if_false, List.map_cons, List.map_nil, Results.set, List.any_nil,
    List.nil_append]
  simp only [Bool.false_eq_true, if_false, List.map_cons, List.map_nil, hrid]

end Pycomm.Lgx.Drv
