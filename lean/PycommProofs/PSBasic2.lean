/-
  Helper lemmas for PathStrProofs2 (C15): Python `int()` on port texts, colon counting, characters of
  spelled segments, lax (leading-zero) digit spellings.
-/
import PycommProofs.PathStrProofs
namespace Pycomm.Path
open PyStr

/-! ### `strip` and `int()` -/

theorem ps2_dropWhile_pad (p : Nat → Bool) (ws x : List Nat) (h : ∀ c ∈ ws, p c = true) :
    (ws ++ x).dropWhile p = x.dropWhile p := by
  induction ws with
  | nil => rfl
  | cons c cs ih =>
    have hc := h c (by simp)
    simp [hc, ih (fun x hx => h x (by simp [hx]))]

theorem ps2_dropWhile_none (p : Nat → Bool) (t : List Nat) (h : ∀ c ∈ t, p c = false) :
    t.dropWhile p = t := by
  cases t with
  | nil => rfl
  | cons a m => simp [h a (by simp)]

theorem ps2_lstrip_pad (ws x : Name) (h : ∀ c ∈ ws, isSpaceC c = true) : lstrip (ws ++ x) = lstrip x :=
  ps2_dropWhile_pad _ ws x h

theorem ps2_rstrip_pad (ws x : Name) (h : ∀ c ∈ ws, isSpaceC c = true) : rstrip (x ++ ws) = rstrip x := by
  simp only [rstrip, List.reverse_append]
  rw [ps2_dropWhile_pad _ ws.reverse x.reverse (by simpa using h)]

theorem ps2_strip_rpad (t ws : Name) (h : ∀ c ∈ ws, isSpaceC c = true) : strip (t ++ ws) = strip t := by
  induction t with
  | nil =>
    have e : ws.dropWhile isSpaceC = [] := by
      have := ps2_dropWhile_pad isSpaceC ws [] h
      simpa using this
    simp [strip, lstrip, e]
  | cons c t ih =>
    by_cases hc : isSpaceC c = true
    · have e1 : strip (c :: (t ++ ws)) = strip (t ++ ws) := by simp [strip, lstrip, hc]
      have e2 : strip (c :: t) = strip t := by simp [strip, lstrip, hc]
      rw [List.cons_append, e1, e2, ih]
    · have hc' : isSpaceC c = false := by simpa using hc
      simp only [strip, lstrip, List.cons_append, List.dropWhile_cons, hc']
      exact ps2_rstrip_pad ws (c :: t) h

theorem ps2_strip_pad (ws1 t ws2 : Name) (h1 : ∀ c ∈ ws1, isSpaceC c = true)
    (h2 : ∀ c ∈ ws2, isSpaceC c = true) : strip (ws1 ++ t ++ ws2) = strip t := by
  rw [ps2_strip_rpad _ ws2 h2]
  simp [strip, ps2_lstrip_pad ws1 t h1]

theorem ps2_strip_id (t : Name) (h : ∀ c ∈ t, isSpaceC c = false) : strip t = t := by
  simp [strip, lstrip, rstrip, ps2_dropWhile_none _ t h, ps2_dropWhile_none _ t.reverse (by simpa using h)]

/-- `int()` ignores surrounding blanks -/
theorem ps2_pyInt_pad (ws1 t ws2 : Name) (h1 : ∀ c ∈ ws1, isSpaceC c = true)
    (h2 : ∀ c ∈ ws2, isSpaceC c = true) : pyInt (ws1 ++ t ++ ws2) = pyInt t := by
  have e := ps2_strip_pad ws1 t ws2 h1 h2
  simp only [pyInt, e]

theorem ps2_digitsU (ds : Name) (h : ∀ c ∈ ds, isDigitC c = true) (b : Bool) (hb : b = true ∨ ds ≠ []) :
    digitsUnderscore ds b = some ds := by
  induction ds generalizing b with
  | nil =>
    rcases hb with hb | hb
    · simp [digitsUnderscore, hb]
    · exact absurd rfl hb
  | cons c cs ih =>
    have hc := h c (by simp)
    simp [digitsUnderscore, hc, ih (fun x hx => h x (by simp [hx])) true (Or.inl rfl)]

theorem ps2_isDigit_all (ds : Name) (h : isDigit ds = true) : ds ≠ [] ∧ ∀ c ∈ ds, isDigitC c = true := by
  simp [isDigit, List.all_eq_true] at h
  exact h

theorem ps2_digit_notspace (c : Nat) (h : isDigitC c = true) : isSpaceC c = false := by
  simp [isDigitC] at h
  simp [isSpaceC]
  omega

theorem ps2_digit_nosep (c : Nat) (h : isDigitC c = true) : c ≠ 58 ∧ c ≠ 47 ∧ c ≠ 92 ∧ c ≠ 44 ∧ c ≠ 45 ∧ c ≠ 43 := by
  simp [isDigitC] at h
  omega

theorem ps2_space_nosep (c : Nat) (h : isSpaceC c = true) : c ≠ 58 ∧ c ≠ 47 ∧ c ≠ 92 ∧ c ≠ 44 := by
  simp [isSpaceC] at h
  omega

/-- the sign split of `int()` -/
def ps2_signBody (t : Name) : Bool × Name :=
  match t with
  | 45 :: r => (true, r)
  | 43 :: r => (false, r)
  | r => (false, r)

theorem ps2_pyInt_eq (s : Name) : pyInt s =
    match digitsUnderscore (ps2_signBody (strip s)).2 false with
    | some ds => if ds.isEmpty then none else
        some (if (ps2_signBody (strip s)).1 then -(decVal ds : Int) else (decVal ds : Int))
    | none => none := by
  unfold pyInt ps2_signBody
  rfl

theorem ps2_signBody_none (c : Nat) (cs : Name) (h45 : c ≠ 45) (h43 : c ≠ 43) :
    ps2_signBody (c :: cs) = (false, c :: cs) := by
  unfold ps2_signBody
  split <;> simp_all

/-- `int("123")` -/
theorem ps2_pyInt_digits (ds : Name) (hd : isDigit ds = true) : pyInt ds = some (decVal ds : Int) := by
  obtain ⟨hne, hall⟩ := ps2_isDigit_all ds hd
  have hs : strip ds = ds := ps2_strip_id ds (fun c hc => ps2_digit_notspace c (hall c hc))
  cases ds with
  | nil => exact absurd rfl hne
  | cons c cs =>
    have hc := ps2_digit_nosep c (hall c (by simp))
    have hdu := ps2_digitsU (c :: cs) hall false (Or.inr (by simp))
    rw [ps2_pyInt_eq, hs, ps2_signBody_none c cs hc.2.2.2.2.1 hc.2.2.2.2.2]
    simp [hdu]

/-- `int("+123")` -/
theorem ps2_pyInt_plus (ds : Name) (hd : isDigit ds = true) : pyInt (43 :: ds) = some (decVal ds : Int) := by
  obtain ⟨hne, hall⟩ := ps2_isDigit_all ds hd
  have hs : strip (43 :: ds) = 43 :: ds := ps2_strip_id _ (fun c hc => by
    simp only [List.mem_cons] at hc
    rcases hc with hc | hc
    · subst hc; decide
    · exact ps2_digit_notspace c (hall c hc))
  have hdu := ps2_digitsU ds hall false (Or.inr hne)
  have hb : ps2_signBody (43 :: ds) = (false, ds) := rfl
  rw [ps2_pyInt_eq, hs, hb]
  simp [hdu, hne]

/-- `int("-123")` -/
theorem ps2_pyInt_minus (ds : Name) (hd : isDigit ds = true) : pyInt (45 :: ds) = some (-(decVal ds : Int)) := by
  obtain ⟨hne, hall⟩ := ps2_isDigit_all ds hd
  have hs : strip (45 :: ds) = 45 :: ds := ps2_strip_id _ (fun c hc => by
    simp only [List.mem_cons] at hc
    rcases hc with hc | hc
    · subst hc; decide
    · exact ps2_digit_notspace c (hall c hc))
  have hdu := ps2_digitsU ds hall false (Or.inr hne)
  have hb : ps2_signBody (45 :: ds) = (true, ds) := rfl
  rw [ps2_pyInt_eq, hs, hb]
  simp [hdu, hne]

/-- leading zeros do not change the value -/
theorem ps2_decVal_zeros (k : Nat) (ds : Name) : decVal (List.replicate k 48 ++ ds) = decVal ds := by
  induction k with
  | zero => rfl
  | succ k ih =>
    simp only [List.replicate_succ, List.cons_append]
    simp only [decVal, List.foldl_cons] at ih ⊢
    exact ih

theorem ps2_isDigit_zeros (k : Nat) (ds : Name) (hd : isDigit ds = true) :
    isDigit (List.replicate k 48 ++ ds) = true := by
  obtain ⟨hne, hall⟩ := ps2_isDigit_all ds hd
  simp only [isDigit, List.all_eq_true, Bool.and_eq_true, Bool.not_eq_true', List.isEmpty_eq_false_iff]
  refine ⟨by simp [hne], ?_⟩
  intro c hc
  simp only [List.mem_append, List.mem_replicate] at hc
  rcases hc with ⟨_, hc⟩ | hc
  · subst hc; decide
  · exact hall c hc

/-! ### counting colons -/

theorem ps2_splitOn_length (sep : Nat) (s : List Nat) : (splitOn sep s).length = s.count sep + 1 := by
  induction s with
  | nil => rfl
  | cons c cs ih =>
    rw [splitOn]
    cases hsp : splitOn sep cs with
    | nil => exact absurd hsp (splitOn_ne_nil sep cs)
    | cons x t =>
      rw [hsp] at ih
      by_cases hc : c = sep
      · simp [hc] at ih ⊢; omega
      · simp [hc] at ih ⊢; omega

/-! ### characters of segments -/

theorem ps2_splitOn_mem (sep : Nat) (s : List Nat) (c : Nat) (hc : c ∈ s) :
    c = sep ∨ ∃ p ∈ splitOn sep s, c ∈ p := by
  induction s with
  | nil => simp at hc
  | cons a cs ih =>
    rw [splitOn]
    cases hsp : splitOn sep cs with
    | nil => exact absurd hsp (splitOn_ne_nil sep cs)
    | cons x t =>
      rw [hsp] at ih
      simp only [List.mem_cons] at hc
      by_cases ha : a = sep
      · simp only [ha, if_true]
        rcases hc with hc | hc
        · exact .inl (hc.trans ha)
        · rcases ih hc with h | ⟨p, hp, hcp⟩
          · exact .inl h
          · exact .inr ⟨p, List.mem_cons_of_mem _ hp, hcp⟩
      · simp only [ha, if_false]
        rcases hc with hc | hc
        · exact .inr ⟨a :: x, by simp, by simp [hc]⟩
        · rcases ih hc with h | ⟨p, hp, hcp⟩
          · exact .inl h
          · simp only [List.mem_cons] at hp
            rcases hp with hp | hp
            · exact .inr ⟨a :: x, by simp, by simp [← hp, hcp]⟩
            · exact .inr ⟨p, by simp [hp], hcp⟩

theorem ps2_parseOctet_digits (cs : List Nat) (v : Nat) (h : parseOctet cs = some v) :
    ∀ c ∈ cs, isDigitC c = true := by
  unfold parseOctet at h
  split at h
  · simp at h
  · split at h
    · simp at h
    · rename_i h2
      simp only [Bool.not_eq_true', Bool.not_eq_false, List.all_eq_true] at h2
      intro c hc
      have := h2 c hc
      simpa [isDigitC] using this

/-- a dotted quad consists of digits and dots -/
theorem ps2_ipv4_chars (s : Name) (o : List Nat) (h : parseIPv4 s = some o) :
    ∀ c ∈ s, c = 46 ∨ isDigitC c = true := by
  intro c hc
  rcases ps2_splitOn_mem 46 s c hc with h46 | ⟨p, hp, hcp⟩
  · exact .inl h46
  · right
    unfold parseIPv4 at h
    simp only at h
    split at h
    · rename_i h4
      match hsp : splitOn 46 s, h4 with
      | [a, b, c', d], _ =>
        rw [hsp] at h hp
        cases ha : parseOctet a with
        | none => simp [ha] at h
        | some va =>
        cases hb : parseOctet b with
        | none => simp [ha, hb] at h
        | some vb =>
        cases hc' : parseOctet c' with
        | none => simp [ha, hb, hc'] at h
        | some vc =>
        cases hd : parseOctet d with
        | none => simp [ha, hb, hc', hd] at h
        | some vd =>
          simp only [List.mem_cons, List.not_mem_nil, or_false] at hp
          rcases hp with hp | hp | hp | hp <;> subst hp
          · exact ps2_parseOctet_digits _ _ ha c hcp
          · exact ps2_parseOctet_digits _ _ hb c hcp
          · exact ps2_parseOctet_digits _ _ hc' c hcp
          · exact ps2_parseOctet_digits _ _ hd c hcp
    · simp at h

theorem ps2_table_nosep : ∀ e ∈ Gen.portSegments, 58 ∉ e.1 ∧ 47 ∉ e.1 ∧ 92 ∉ e.1 ∧ 44 ∉ e.1 := by decide

theorem ps2_digits_clean (s : Name) (h : ∀ c ∈ s, isDigitC c = true) : 58 ∉ s ∧ 47 ∉ s ∧ 92 ∉ s ∧ 44 ∉ s := by
  refine ⟨fun m => ?_, fun m => ?_, fun m => ?_, fun m => ?_⟩ <;>
    · have := h _ m
      simp [isDigitC] at this

theorem ps2_decStr_clean (n : Nat) : 58 ∉ decStr n ∧ 47 ∉ decStr n ∧ 92 ∉ decStr n ∧ 44 ∉ decStr n :=
  ps2_digits_clean _ (decStr_digits n)

theorem ps2_ipv4_clean (s : Name) (o : List Nat) (h : parseIPv4 s = some o) :
    58 ∉ s ∧ 47 ∉ s ∧ 92 ∉ s ∧ 44 ∉ s := by
  have hc := ps2_ipv4_chars s o h
  refine ⟨fun m => ?_, fun m => ?_, fun m => ?_, fun m => ?_⟩ <;>
    · rcases hc _ m with h1 | h1
      · omega
      · simp [isDigitC] at h1

/-! ### lax spellings: any digit string (leading zeros allowed) for a number -/

/-- a port text for port number `n`: any all-digits text with that value, or an alias -/
def LaxPort (p : Name) (n : Nat) : Prop :=
  (isDigit p = true ∧ decVal p = n) ∨ lookupName p Gen.portSegments = some n

/-- a link text for a link: any all-digits text with the slot number as value, or the IPv4 text itself -/
def LaxLink (l : Name) (k : Link) : Prop :=
  match k with
  | .slot n => isDigit l = true ∧ decVal l = n
  | .ip s => l = s

/-- segment texts spelling the hops, with any digit spelling of the numbers -/
def SpellsLax : List Hop → List Name → Prop
  | [], [] => True
  | h :: hs, p :: l :: rest => LaxPort p h.port ∧ LaxLink l h.link ∧ SpellsLax hs rest
  | _, _ => False

/-- what the library requires of a hop (weaker than `WfHop`: any port number 0..255) -/
def LaxHop (h : Hop) : Prop :=
  h.port ≤ 255 ∧
  match h.link with
  | .slot n => n ≤ 255
  | .ip s => ∃ o, parseIPv4 s = some o

theorem ps2_spells_lax : ∀ (hops : List Hop) (segs : List Name), Spells hops segs → SpellsLax hops segs
  | [], [], _ => trivial
  | [], _ :: _, h => by simp [Spells] at h
  | _ :: _, [], h => by simp [Spells] at h
  | _ :: _, [_], h => by simp [Spells] at h
  | h :: hs, p :: l :: rest, hsp => by
    simp only [Spells] at hsp
    obtain ⟨hp, hl, hrest⟩ := hsp
    refine ⟨?_, ?_, ps2_spells_lax hs rest hrest⟩
    · rcases hp with hp | hp
      · exact .inl ⟨by rw [hp]; exact decStr_isDigit _, by rw [hp]; exact decStr_val _⟩
      · exact .inr hp
    · obtain ⟨port, link⟩ := h
      cases link with
      | slot n => exact ⟨by rw [hl]; exact decStr_isDigit _, by rw [hl]; exact decStr_val _⟩
      | ip s => exact hl

theorem ps2_spellsLax_length : ∀ (hops : List Hop) (segs : List Name), SpellsLax hops segs →
    segs.length = 2 * hops.length
  | [], [], _ => rfl
  | [], _ :: _, h => by simp [SpellsLax] at h
  | _ :: _, [], h => by simp [SpellsLax] at h
  | _ :: _, [_], h => by simp [SpellsLax] at h
  | _ :: hs, _ :: _ :: rest, h => by
    simp only [SpellsLax] at h
    have := ps2_spellsLax_length hs rest h.2.2
    simp [this]; omega

theorem ps2_pv_eq (p : Name) (n : Nat) (hp : LaxPort p n) (lk : LinkVal) :
    encPort (if isDigit p then .int (decVal p) else .name p) lk = encPort (.int n) lk := by
  rcases hp with ⟨h1, h2⟩ | hp
  · simp [h1, h2]
  · simp [alias_not_digit p n hp, encPort, hp]

theorem ps2_link_eq (port : PortVal) (l : Name) (n : Nat) (h : isDigit l = true) (hv : decVal l = n) :
    encPort port (.str l) = encPort port (.str (decStr n)) := by
  simp [encPort, h, hv, decStr_isDigit, decStr_val]

theorem ps2_encSeg_lax (h : Hop) (hw : WfHop h) (p l : Name) (hp : LaxPort p h.port) (hl : LaxLink l h.link) :
    encSeg true (Seg.port (if isDigit p then .int (decVal p) else .name p) (.str l)) = .ok (refHop h) := by
  simp only [encSeg]
  rw [ps2_pv_eq p h.port hp, ← encPort_int_hop h hw]
  obtain ⟨port, link⟩ := h
  cases link with
  | slot n => exact ps2_link_eq _ l n hl.1 hl.2
  | ip s =>
    have : l = s := hl
    rw [this]; rfl

theorem ps2_encSegs_lax : ∀ (hops : List Hop) (segs : List Name), (∀ h ∈ hops, WfHop h) → SpellsLax hops segs →
    encSegs true (parseCipRouteList.pairs segs) = .ok (hops.map refHop).flatten
  | [], [], _, _ => rfl
  | [], _ :: _, _, h => by simp [SpellsLax] at h
  | _ :: _, [], _, h => by simp [SpellsLax] at h
  | _ :: _, [_], _, h => by simp [SpellsLax] at h
  | h :: hs, p :: l :: rest, hw, hsp => by
    simp only [SpellsLax] at hsp
    obtain ⟨hp, hl, hrest⟩ := hsp
    have ih := ps2_encSegs_lax hs rest (fun x hx => hw x (by simp [hx])) hrest
    have h1 := ps2_encSeg_lax h (hw h (by simp)) p l hp hl
    simp [parseCipRouteList.pairs, encSegs, h1, ih, bind, Except.bind]

theorem ps2_usint_ok_le (m : Nat) (b : Bytes) (h : usint (m : Int) = .ok b) : m ≤ 255 ∧ b = [UInt8.ofNat m] := by
  by_cases hm : m ≤ 255
  · rw [usint_ok m hm] at h
    simp at h
    exact ⟨hm, h.symm⟩
  · rw [usint_err m (by omega)] at h
    simp at h

/-- what a successful encoding of a numbered port with a text link implies -/
theorem ps2_encPort_nat_inv (n : Nat) (l : Name) (b : Bytes) (h : encPort (.int n) (.str l) = .ok b) :
    n ≤ 255 ∧ ((isDigit l = true ∧ decVal l ≤ 255) ∨ (isDigit l = false ∧ ∃ o, parseIPv4 l = some o)) := by
  have hnn : (0:Int) ≤ (n : Int) := Int.natCast_nonneg _
  cases hd : isDigit l with
  | true =>
    by_cases hv : decVal l ≤ 255
    · refine ⟨?_, .inl ⟨rfl, hv⟩⟩
      by_cases hn : n ≤ 255
      · exact hn
      · simp [encPort, hd, usint_ok _ hv, usint_err n (by omega)] at h
    · simp [encPort, hd, usint_err _ (by omega : 255 < decVal l)] at h
  | false =>
    cases hip : parseIPv4 l with
    | none => simp [encPort, hd, hip] at h
    | some o =>
      refine ⟨?_, .inr ⟨rfl, o, rfl⟩⟩
      by_cases hn : n ≤ 255
      · exact hn
      · exfalso
        have h16 : 255 < n ||| Gen.PORT_EXTENDED_LINK := by
          have := @Nat.left_le_or n Gen.PORT_EXTENDED_LINK
          omega
        by_cases hlen : 1 < l.length
        · simp [encPort, hd, hip, hlen, hnn, usint_err _ h16] at h
        · simp [encPort, hd, hip, hlen, usint_err n (by omega)] at h

/-- a successfully encoded pair of texts spells a hop the library accepts -/
theorem ps2_pair_inv (p l : Name) (b : Bytes)
    (h : encSeg true (Seg.port (if isDigit p then .int (decVal p) else .name p) (.str l)) = .ok b) :
    ∃ hop, LaxPort p hop.port ∧ LaxLink l hop.link ∧ LaxHop hop := by
  simp only [encSeg] at h
  have hport : ∃ n, LaxPort p n := by
    cases hd : isDigit p with
    | true => exact ⟨decVal p, .inl ⟨hd, rfl⟩⟩
    | false =>
      cases hl : lookupName p Gen.portSegments with
      | none => simp [hd, encPort, hl] at h
      | some n => exact ⟨n, .inr hl⟩
  obtain ⟨n, hp⟩ := hport
  rw [ps2_pv_eq p n hp] at h
  obtain ⟨hn, hlk⟩ := ps2_encPort_nat_inv n l b h
  rcases hlk with ⟨hd, hv⟩ | ⟨hd, o, ho⟩
  · exact ⟨⟨n, .slot (decVal l)⟩, hp, ⟨hd, rfl⟩, hn, hv⟩
  · exact ⟨⟨n, .ip l⟩, hp, rfl, hn, o, ho⟩

theorem ps2_pairs_inv : ∀ (route : List Name) (body : Bytes), route.length % 2 = 0 →
    encSegs true (parseCipRouteList.pairs route) = .ok body →
    ∃ hops, SpellsLax hops route ∧ ∀ h ∈ hops, LaxHop h
  | [], _, _, _ => ⟨[], trivial, by simp⟩
  | [_], _, h, _ => by simp at h
  | p :: l :: rest, body, hlen, henc => by
    simp only [parseCipRouteList.pairs, encSegs] at henc
    cases h1 : encSeg true (Seg.port (if isDigit p then .int (decVal p) else .name p) (.str l)) with
    | error e => simp [h1, bind, Except.bind] at henc
    | ok b1 =>
      cases h2 : encSegs true (parseCipRouteList.pairs rest) with
      | error e => simp [h1, h2, bind, Except.bind] at henc
      | ok b2 =>
        obtain ⟨hops, hs, hl⟩ := ps2_pairs_inv rest b2 (by simp at hlen; omega) h2
        obtain ⟨hop, hp, hk, hh⟩ := ps2_pair_inv p l b1 h1
        refine ⟨hop :: hops, ⟨hp, hk, hs⟩, ?_⟩
        intro x hx
        simp only [List.mem_cons] at hx
        rcases hx with hx | hx
        · rw [hx]; exact hh
        · exact hl x hx

theorem ps2_ipv4_len2 (s : Name) (o : List Nat) (h : parseIPv4 s = some o) : 1 < s.length := by
  unfold parseIPv4 at h
  simp only at h
  split at h
  · rename_i h4
    have := splitOn_length_sum 46 s
    omega
  · simp at h

/-- with a port number 1..14 a hop the library accepts is a well-formed hop of the specification -/
theorem ps2_lax_wf (h : Hop) (hl : LaxHop h) (hp : 1 ≤ h.port ∧ h.port ≤ 14) : WfHop h := by
  obtain ⟨port, link⟩ := h
  refine ⟨hp.1, hp.2, ?_⟩
  cases link with
  | slot n => exact hl.2
  | ip s =>
    obtain ⟨_, o, ho⟩ := hl
    refine ⟨⟨o, ho⟩, ps2_ipv4_len2 s o ho, ?_, ?_⟩
    · have := ipv4_length s o ho; omega
    · intro c hc
      rcases ps2_ipv4_chars s o ho c hc with h1 | h1
      · omega
      · simp [isDigitC] at h1; omega

end Pycomm.Path
