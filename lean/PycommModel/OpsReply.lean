import PycommModel.OpsPath
import PycommModel.Reply
namespace Pycomm
open Sexp Reply

def renderErr : Except Exn (Option Err) → String
  | .error e => "raise:" ++ e.render
  | .ok none => "none"
  | .ok (some .noResponse) => "noresp"
  | .ok (some .parseFailed) => "parsefail"
  | .ok (some .unknownError) => "unknown"
  | .ok (some (.text s)) => (Sexp.ofName s).render

def optBytes? : Sexp → Option (Option Bytes)
  | .atom "N" => some none
  | s => (Sexp.bytes? s).map some

def transport? : Sexp → Option Transport
  | .atom "conn" => some .connected
  | .atom "unconn" => some .unconnected
  | _ => none

/-- reply.generic conn|unconn TY|N RAW|N -/
def opReplyGeneric : List Sexp → String
  | [tr, ty, raw] =>
      match transport? tr, optBytes? raw with
      | some tr', some raw' =>
          let ty' : Option (Option Ty) := match ty with
            | .atom "N" => some none
            | t => (Ty.ofSexp t).map some
          match ty' with
          | none => "bad-args"
          | some dt =>
              let (v, p, valid) := parseGeneric raw' tr' dt
              "ok " ++ renderBool valid ++ " " ++ v.toSexp.render ++ " " ++ renderErr (errorCip raw' tr' p valid)
      | _, _ => "bad-args"
  | _ => "bad-args"

/-- reply.register RAW|N -/
def opReplyRegister : List Sexp → String
  | [raw] =>
      match optBytes? raw with
      | some raw' =>
          let r := parseRegister raw'
          "ok " ++ renderBool r.valid ++ " " ++ (match r.session with | some s => toString s | none => "N") ++ " " ++
            renderErr (.ok (errorBase r.p r.valid))
      | none => "bad-args"
  | _ => "bad-args"

/-- status.ext RAW START: packets/util.get_extended_status(msg, start) -/
def opStatusExt : List Sexp → String
  | [raw, st] =>
      match Sexp.bytes? raw, Sexp.toNat? st with
      | some bs, some start =>
          match extendedStatus bs start with
          | .error e => "raise:" ++ e.render
          | .ok none => "ok N"
          | .ok (some t) => "ok " ++ (Sexp.ofName t).render
      | _, _ => "bad-args"
  | _ => "bad-args"

end Pycomm
