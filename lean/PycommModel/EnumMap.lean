/-
  Model of pycomm3/map.py: MapMeta.__new__ (member map construction), __getitem__, get, __contains__.
-/
import PycommModel.PyVal
namespace Pycomm.EMap

/-- keys and values of the lookup tables -/
inductive Atom where
  | int (i : Int)
  | bytes (bs : List Nat)
  | str (s : Name)
  | other (ident : Name)     -- classes, Attribute tuples: compared by identity
  deriving Repr, DecidableEq, Inhabited

structure Table where
  name : Name
  bidirectional : Bool
  capsOnly : Bool
  /-- (member name, value, `_value_key_(value)`) in class-dict order -/
  members : List (Name × Atom × Atom)
  deriving Repr

/-- `str.lower()` / `str.upper()` on ASCII (all member names are ASCII identifiers) -/
def lowerC (c : Nat) : Nat := if 65 ≤ c ∧ c ≤ 90 then c + 32 else c
def upperC (c : Nat) : Nat := if 97 ≤ c ∧ c ≤ 122 then c - 32 else c
def lower (s : Name) : Name := s.map lowerC
def upper (s : Name) : Name := s.map upperC

/-- `_key(item)`: lower-case strings, everything else as is -/
def key (a : Atom) : Atom :=
  match a with
  | .str s => .str (lower s)
  | x => x

/-- last binding wins, as in a dict built by successive assignment -/
def lastBinding (k : Atom) : List (Atom × Atom) → Option Atom
  | [] => none
  | (k', v) :: rest =>
      match lastBinding k rest with
      | some v' => some v'
      | none => if k' = k then some v else none

/-- `members` dict -/
def membersMap (t : Table) : List (Atom × Atom) := t.members.map fun m => (Atom.str m.1, m.2.1)

/-- `lower_members`: lower-cased names not already member names -/
def lowerMap (t : Table) : List (Atom × Atom) :=
  (t.members.filter fun m => !(t.members.any fun m' => m'.1 == lower m.1)).map
    fun m => (Atom.str (lower m.1), m.2.1)

/-- `value_map`: reverse-lookup key -> lower-cased member name -/
def valueMap (t : Table) : List (Atom × Atom) :=
  if t.bidirectional then t.members.map fun m => (m.2.2, Atom.str (lower m.1)) else []

/-- `_members_ = {**members, **lower_members, **value_map}` -/
def merged (t : Table) : List (Atom × Atom) := membersMap t ++ lowerMap t ++ valueMap t

def caps (t : Table) (v : Atom) : Atom :=
  match v with
  | .str s => if t.capsOnly then .str (upper s) else .str s
  | x => x

/-- `cls[item]`; `none` = KeyError -/
def getItem (t : Table) (item : Atom) : Option Atom :=
  (lastBinding (key item) (merged t)).map (caps t)

/-- `cls.get(item, default)` -/
def get (t : Table) (item default : Atom) : Atom :=
  caps t ((lastBinding (key item) (merged t)).getD default)

/-- `item in cls` -/
def contains (t : Table) (item : Atom) : Bool :=
  (lastBinding (key item) (merged t)).isSome

end Pycomm.EMap
