/-
  Model of `SLCDriver.read(*addresses)` / `SLCDriver.write(*address_values)` (slc_driver.py) as a composition through
  the CIPDriver client model (Client.lean): the `@with_forward_open` decorator, `_read_tag` / `_write_tag` per
  address in call order, the PCCC transaction id and the packet sequence count both drawn from `self._sequence`
  (transaction id first, at message construction; the sequence count when `SendUnitDataRequestPacket` is made),
  `_msg_start` (Execute PCCC service 0x4B on class 0x67 instance 1, requestor id = length 7, vendor id, serial number),
  `self.send`, `request_status(response.raw)` (byte 58 of the raw encapsulation frame = the PCCC STS byte),
  `_parse_read_reply(tag, raw[SLC_REPLY_START:])` and the Tags returned.

  The address grammar, the address fields, `writeable_value`, `_parse_read_reply` are those of Slc.lean; the PCCC
  command bytes those of OpsSlc.lean (`slcReadMsg`, `slcWriteMsg`).
-/
import PycommModel.Client
import PycommModel.Slc
import PycommModel.OpsSlc
import PycommModel.StatusText
namespace Pycomm.Slc.Drv
open Pycomm Pycomm.Tgt Pycomm.Slc

/-- `Tag(tag, value, type, error)` as the SLC driver makes it: `type` is the file type letter, `error` a text -/
structure STag where
  tag : Name
  value : PyVal
  type : Name
  error : Option Name
  deriving Repr

/-- `Tag.__bool__`: value is not None and error is None -/
def STag.truthy (t : STag) : Bool := (match t.value with | .none => false | _ => true) && t.error.isNone

/-- slc_driver.py:124 `_msg_start`: service 0x4B, path size 2 words, 8-bit class segment, PCCC_PATH (class 0x67,
    instance segment, 1), requestor id length 7, `_cfg["vid"]`, `_cfg["vsn"]` -/
def msgStart (d : Cli.Drv) : Bytes :=
  [0x4B, 0x02, 0x20] ++ Gen.PCCC_PATH.map UInt8.ofNat ++ [0x07] ++ d.vid ++ d.vsn

def unknownStatus : Name := nm "Unknown Status"
def failedParse : Name := nm "Failed parsing tag read reply"

/-- slc_driver.py:804 `request_status(response.raw)`: byte 58 of the raw reply frame (24 bytes encapsulation header,
    22 bytes common packet format incl. the sequence count, 4 bytes message-router reply header, 7 bytes requestor id,
    CMD, then STS); an exception (reply shorter than 59 bytes) gives "Unknown Status" -/
def requestStatus (raw : Bytes) : Option Name :=
  match raw[58]? with
  | none => some unknownStatus
  | some b =>
      if b.toNat = Gen.SUCCESS then none
      else some ((Status.lookupNat b.toNat Gen.pcccErrorCode).getD unknownStatus)

/-- `_read_tag` after the reply arrived (slc_driver.py:184-193) -/
def readTagOf (a : Addr) (raw : Bytes) : STag :=
  match requestStatus raw with
  | some s => { tag := a.tag, value := .none, type := a.fileType, error := some s }
  | none =>
      match parseReadReply a (raw.drop Gen.SLC_REPLY_START) with
      | .ok v => { tag := a.tag, value := v, type := a.fileType, error := none }
      | .error _ => { tag := a.tag, value := .none, type := a.fileType, error := some failedParse }

/-- `_write_tag` after the reply arrived (slc_driver.py:256-260): the value handed in is echoed -/
def writeTagOf (a : Addr) (v : PyVal) (raw : Bytes) : STag :=
  match requestStatus raw with
  | some s => { tag := a.tag, value := .none, type := a.fileType, error := some s }
  | none => { tag := a.tag, value := v, type := a.fileType, error := none }

/-- `response.error` as the text a Tag carries (the exception text behind "Failed to parse reply" is not modelled) -/
def errText : Reply.Err → Name
  | .noResponse => nm "No response data received"
  | .parseFailed => nm "Failed to parse reply"
  | .text s => s
  | .unknownError => nm "Unknown Error"

/-- `if not response: return Tag(tag, None, file_type, response.error)` in `_read_tag` / `_write_tag`: the reply that
    should carry the PCCC answer is judged first by its own status words (encapsulation status, CIP general status of the
    Execute-PCCC reply); `none` = the response is valid; `response.error` may raise on a truncated extended status -/
def replyRefused (raw : Bytes) : Except Exn (Option Name) :=
  let p := Reply.parseCip (some raw) .connected
  if Reply.validCip .connected p then .ok none
  else (Reply.errorCip (some raw) .connected p false).map fun e => some (errText (e.getD .unknownError))

def refusedTag (a : Addr) (txt : Name) : STag := { tag := a.tag, value := .none, type := a.fileType, error := some txt }

/-- `SendUnitDataRequestPacket(self._sequence)`; `request.add(msg)`; `self.send(request)`: the packet draws its
    sequence count when it is constructed -/
def sendPccc {σ} (hook : ObjHook σ) (w : Cli.World σ) (msg : Bytes) : Cli.World σ × Except Exn Bytes :=
  let (seq, d1) := w.drv.nextSeq
  let (w1, r) := Cli.sendReq hook { w with drv := d1 } (.sendUnit seq msg) false
  match r with
  | .error e => (w1, .error e)
  | .ok (some raw) => (w1, .ok raw)
  | .ok none => (w1, .error (.foreign "TypeError"))      -- unreachable: `no_response` is False

/-- slc_driver.py:159 `_read_tag(tag)` -/
def readTag {σ} (hook : ObjHook σ) (w : Cli.World σ) (tag : Name) : Cli.World σ × Except Exn STag :=
  match parseTag tag with
  | none => (w, .error .request)
  | some a =>
      -- the list literal is evaluated left to right: the transaction id is drawn before the size byte is encoded
      let (tns, d1) := w.drv.nextSeq
      let w1 := { w with drv := d1 }
      match slcReadMsg a tns with
      | .error e => (w1, .error e)
      | .ok pccc =>
          let (w2, r) := sendPccc hook w1 (msgStart w1.drv ++ pccc)
          match r with
          | .error e => (w2, .error e)
          | .ok raw =>
              match replyRefused raw with
              | .error e => (w2, .error e)
              | .ok (some txt) => (w2, .ok (refusedTag a txt))
              | .ok none => (w2, .ok (readTagOf a raw))

/-- `writeable_value` incl. its first line (`bytes` are passed through untouched, the announced size stays the
    element size) -/
def writeValue (a : Addr) (v : PyVal) : Except Exn (Bytes × Nat) :=
  match v with
  | .bytes b => .ok (b, dataSize a.fileType)
  | .dict kvs =>
      -- a dict for `{n}` elements: `len()` works, too few -> RequestError; too many -> `value[:n]` raises KeyError
      -- (slices are hashable since Python 3.12; TypeError before), outside the try; exactly n -> the keys (str) are
      -- handed to the element codec -> RequestError
      if a.count > 1 then
        if kvs.length ≤ a.count then .error .request else .error (.foreign "KeyError")
      else writeableValue a v
  | _ => writeableValue a v

/-- the PCCC part of a write request (`slcWriteMsg` for every value that is not `bytes`) -/
def writeMsg (a : Addr) (tns : Nat) (v : PyVal) : Except Exn Bytes :=
  match v with
  | .bytes b =>
      match packInt .uint (.int tns), writeAddressFields a (dataSize a.fileType * a.count) with
      | .ok t, .ok f => .ok ([0x0F, 0x00] ++ t ++ [0xAB] ++ f ++ b)
      | _, _ => .error .data
  | _ => slcWriteMsg a tns v

/-- slc_driver.py:214 `_write_tag(tag, value)` -/
def writeTag {σ} (hook : ObjHook σ) (w : Cli.World σ) (tag : Name) (v : PyVal) : Cli.World σ × Except Exn STag :=
  match parseTag tag with
  | none => (w, .error .request)
  | some a =>
      -- `writeable_value` runs before the message list is built: its errors leave the counter untouched
      match writeValue a v with
      | .error e => (w, .error e)
      | .ok _ =>
          let (tns, d1) := w.drv.nextSeq
          let w1 := { w with drv := d1 }
          match writeMsg a tns v with
          | .error e => (w1, .error e)
          | .ok pccc =>
              let (w2, r) := sendPccc hook w1 (msgStart w1.drv ++ pccc)
              match r with
              | .error e => (w2, .error e)
              | .ok raw =>
                  match replyRefused raw with
                  | .error e => (w2, .error e)
                  | .ok (some txt) => (w2, .ok (refusedTag a txt))
                  | .ok none => (w2, .ok (writeTagOf a v raw))

/-- `[self._read_tag(tag) for tag in addresses]`: in order, the first exception ends the call -/
def readTags {σ} (hook : ObjHook σ) : Cli.World σ → List Name → Cli.World σ × Except Exn (List STag)
  | w, [] => (w, .ok [])
  | w, t :: rest =>
      let (w1, r) := readTag hook w t
      match r with
      | .error e => (w1, .error e)
      | .ok tg =>
          let (w2, rs) := readTags hook w1 rest
          match rs with
          | .error e => (w2, .error e)
          | .ok tgs => (w2, .ok (tg :: tgs))

def writeTags {σ} (hook : ObjHook σ) : Cli.World σ → List (Name × PyVal) → Cli.World σ × Except Exn (List STag)
  | w, [] => (w, .ok [])
  | w, (t, v) :: rest =>
      let (w1, r) := writeTag hook w t v
      match r with
      | .error e => (w1, .error e)
      | .ok tg =>
          let (w2, rs) := writeTags hook w1 rest
          match rs with
          | .error e => (w2, .error e)
          | .ok tgs => (w2, .ok (tg :: tgs))

/-- slc_driver.py:141 `SLCDriver.read(*addresses)`.  The list is what `results` holds; Python returns `results[0]`
    when the list has exactly one entry and the list itself otherwise (also for no address at all) -/
def slcRead {σ} (hook : ObjHook σ) (w : Cli.World σ) (addresses : List Name) : Cli.World σ × Except Exn (List STag) :=
  let (w0, pre) := Cli.ensureForwardOpen hook Cli.FUEL w
  match pre with
  | .error e => (w0, .error e)
  | .ok _ => readTags hook w0 addresses

/-- slc_driver.py:195 `SLCDriver.write(*address_values)` -/
def slcWrite {σ} (hook : ObjHook σ) (w : Cli.World σ) (avs : List (Name × PyVal)) : Cli.World σ × Except Exn (List STag) :=
  let (w0, pre) := Cli.ensureForwardOpen hook Cli.FUEL w
  match pre with
  | .error e => (w0, .error e)
  | .ok _ => writeTags hook w0 avs

end Pycomm.Slc.Drv
