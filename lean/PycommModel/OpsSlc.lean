import PycommModel.OpsPath
import PycommModel.Slc
namespace Pycomm
open Sexp Slc

def renderAddr (a : Addr) : String :=
  "(" ++ (Sexp.ofName a.fileType).render ++ s!" {a.fileNumber} {a.element} {a.posNumber} {a.subElement} {a.addressField} {a.count} " ++
    (Sexp.ofName a.tag).render ++ ")"

/-- slc.parse "tag" -/
def opSlcParse : List Sexp → String
  | [t] => match Sexp.name? t with
      | some t' => (match parseTag t' with | some a => "ok " ++ renderAddr a | none => "none")
      | none => "bad-args"
  | _ => "bad-args"

/-- the PCCC part of a read request after the requestor id: CMD STS TNS FNC size file type elem sub -/
def slcReadMsg (a : Addr) (tns : Nat) : R Bytes := do
  let t ← packInt .uint (.int tns)
  let f ← addressFields a (dataSize a.fileType * a.count)
  .ok ([0x0F, 0x00] ++ t ++ [0xA2] ++ f)

def opSlcReadReq : List Sexp → String
  | [t, tns] => match Sexp.name? t, Sexp.toNat? tns with
      | some t', some n =>
          (match parseTag t' with
           | some a => renderBytesR (slcReadMsg a n)
           | none => "err request")
      | _, _ => "bad-args"
  | _ => "bad-args"

def slcWriteMsg (a : Addr) (tns : Nat) (v : PyVal) : Except Exn Bytes :=
  match writeableValue a v with
  | .error e => .error e
  | .ok (val, sz) =>
      match packInt .uint (.int tns), writeAddressFields a (sz * a.count) with
      | .ok t, .ok f => .ok ([0x0F, 0x00] ++ t ++ [0xAB] ++ f ++ val)
      | _, _ => .error .data

def opSlcWriteReq : List Sexp → String
  | [t, tns, v] => match Sexp.name? t, Sexp.toNat? tns, PyVal.ofSexp v with
      | some t', some n, some v' =>
          (match parseTag t' with
           | some a => renderBytesR (slcWriteMsg a n v')
           | none => "err request")
      | _, _, _ => "bad-args"
  | _ => "bad-args"

/-- slc.reply "tag" (b data) : the value _parse_read_reply produces -/
def opSlcReply : List Sexp → String
  | [t, d] => match Sexp.name? t, Sexp.bytes? d with
      | some t', some bs =>
          (match parseTag t' with
           | some a => (match parseReadReply a bs with | .ok v => "ok " ++ v.toSexp.render | .error e => "err " ++ e.render)
           | none => "err request")
      | _, _ => "bad-args"
  | _ => "bad-args"

end Pycomm
