import PycommModel.Wire
import PycommModel.Seq
namespace Pycomm
open Sexp Seq

/-- rolling checksum of the first n draws of the driver's counter (executes the generator model) -/
def seqHash (n : Nat) : Nat :=
  let rec go : Nat → Nat → Nat → Nat → Nat
    | 0, _, _, acc => acc
    | k + 1, i, val, acc =>
        let (v, val') := Seq.step STOP START val
        go k (i + 1) val' ((acc * 31 + (i + 1) * v) % 1000000007)
  go n 0 START 0

def opSeqHash : List Sexp → String
  | [n] => match Sexp.toNat? n with
      | some k => "ok " ++ toString (seqHash k)
      | none => "bad-args"
  | _ => "bad-args"

def opSeqNth : List Sexp → String
  | [n] => match Sexp.toNat? n with
      | some k => "ok " ++ toString (nthClosed k)
      | none => "bad-args"
  | _ => "bad-args"

end Pycomm
