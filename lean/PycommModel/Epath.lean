/-
  Model of the CIP path encoders: data_types.py PortSegment/LogicalSegment/DataSegment/EPATH.encode,
  packets/util.py request_path, tag_request_path, _find_tag_index.
-/
import PycommModel.PyStr
import PycommModel.Generated.Consts
namespace Pycomm.Path

inductive LVal where
  | int (v : Int)
  | bytes (bs : Bytes)
  deriving Repr, DecidableEq, Inhabited

inductive PortVal where
  | int (p : Int)
  | name (s : Name)
  deriving Repr, DecidableEq, Inhabited

inductive LinkVal where
  | int (v : Int)
  | str (s : Name)
  | bytes (bs : Bytes)
  deriving Repr, DecidableEq, Inhabited

inductive Seg where
  | logical (v : LVal) (ltype : Name)
  | port (p : PortVal) (link : LinkVal)
  | dataStr (s : Name)
  | dataBytes (bs : Bytes)
  | raw (bs : Bytes)            -- already-encoded bytes passed to EPATH.encode
  deriving Repr, DecidableEq, Inhabited

def lookupName {α} (k : Name) : List (Name × α) → Option α
  | [] => none
  | (k', v) :: rest => if k' = k then some v else lookupName k rest

def lookupNat (k : Nat) : List (Nat × Nat) → Option Nat
  | [] => none
  | (k', v) :: rest => if k' = k then some v else lookupNat k rest

def usint (i : Int) : R Bytes := packInt .usint (.int i)

/-- LogicalSegment._encode (through CIPSegment.encode: every failure is DataError) -/
def encLogical (v : LVal) (ltype : Name) (padded : Bool) : R Bytes :=
  match lookupName ltype Gen.logicalTypes with
  | none => .error .data
  | some ty =>
    let value : R Bytes := match v with
      | .bytes bs => .ok bs
      | .int i =>
          if i ≤ 0xFF then packInt .usint (.int i)
          else if i ≤ 0xFFFF then packInt .uint (.int i)
          else if i ≤ 0xFFFFFFFF then packInt .udint (.int i)
          else .error .data
    match value with
    | .error _ => .error .data
    | .ok val =>
      match lookupNat val.length Gen.logicalFormat with
      | none => .error .data
      | some fmt =>
        let head : Bytes := [UInt8.ofNat (Gen.LOGICAL_SEGMENT_TYPE ||| ty ||| fmt)]
        let head := if padded && (1 + val.length) % 2 == 1 then head ++ [0] else head
        .ok (head ++ val)

/-- PortSegment._encode -/
def encPort (p : PortVal) (link : LinkVal) : R Bytes :=
  let port? : Option Int := match p with
    | .int i => some i
    | .name s => (lookupName s Gen.portSegments).map fun n => (n : Int)
  match port? with
  | none => .error .data
  | some port =>
    let linkBytes : R Bytes := match link with
      | .int v => usint v
      | .bytes bs => .ok bs
      | .str s =>
          if PyStr.isDigit s then usint (PyStr.decVal s)
          else match parseIPv4 s with
            | some _ => .ok (s.map fun c => UInt8.ofNat c)
            | none => .error .data
    match linkBytes with
    | .error _ => .error .data
    | .ok lb =>
      let ext := lb.length > 1
      -- `port |= extended_link` on a Python int (negative ports fail in USINT.encode)
      let portVal : Int := if ext then (if 0 ≤ port then ((port.toNat ||| Gen.PORT_EXTENDED_LINK : Nat) : Int) else port) else port
      match usint portVal, (if ext then usint lb.length else .ok []) with
      | .ok pb, .ok lenb =>
          let seg := pb ++ lenb ++ lb
          .ok (if seg.length % 2 == 1 then seg ++ [0] else seg)
      | _, _ => .error .data

/-- DataSegment._encode -/
def encDataStr (s : Name) : R Bytes :=
  match Text.encode .utf8 s with
  | none => .error .data
  | some d =>
    match usint (Gen.DATA_SEGMENT_TYPE ||| Gen.DATA_EXTENDED_SYMBOL : Nat), usint d.length with
    | .ok a, .ok l => .ok (a ++ l ++ (if d.length % 2 == 1 then d ++ [0] else d))
    | _, _ => .error .data

def encDataBytes (bs : Bytes) : R Bytes :=
  match usint (Gen.DATA_SEGMENT_TYPE : Nat), usint bs.length with
  | .ok a, .ok l => .ok (a ++ l ++ bs)
  | _, _ => .error .data

def encSeg (padded : Bool) : Seg → R Bytes
  | .logical v t => encLogical v t padded
  | .port p l => encPort p l
  | .dataStr s => encDataStr s
  | .dataBytes bs => encDataBytes bs
  | .raw bs => .ok bs

def encSegs (padded : Bool) : List Seg → R Bytes
  | [] => .ok []
  | s :: rest => do
      let a ← encSeg padded s
      let r ← encSegs padded rest
      .ok (a ++ r)

/-- EPATH.encode(segments, length, pad_length) -/
def encEpath (padded : Bool) (segs : List Seg) (length padLen : Bool) : R Bytes :=
  match encSegs padded segs with
  | .error _ => .error .data
  | .ok path =>
    if length then
      match usint (path.length / 2) with
      | .ok l => .ok (l ++ (if padLen then [0] else []) ++ path)
      | .error _ => .error .data
    else .ok path

/-- truthiness of a class/instance/attribute argument (int or bytes) -/
def LVal.truthy : LVal → Bool
  | .int i => i != 0
  | .bytes bs => !bs.isEmpty

def nm (s : String) : Name := s.toList.map Char.toNat

/-- packets/util.py request_path -/
def requestPath (cls inst : LVal) (attr : LVal) : R Bytes :=
  let segs := [Seg.logical cls (nm "class_id"), Seg.logical inst (nm "instance_id")]
  let segs := if attr.truthy then segs ++ [Seg.logical attr (nm "attribute_id")] else segs
  encEpath true segs true false

/-- `_find_tag_index`: (tag without index, list of index strings) -/
def findTagIndex (tag : Name) : Name × List Name :=
  match PyStr.find 91 tag with
  | some _ =>
      let t := tag.take (tag.length - 1)
      match PyStr.find 91 t with
      | some j => (t.take j, PyStr.split 44 (t.drop (j + 1)))
      | none =>
          -- `t.find("[")` = -1: inside = t[0:], tag = t[:-1]
          (t.take (t.length - 1), PyStr.split 44 t)
  | none => (tag, [])

/-- outcome of tag_request_path: bytes, `none` (returned None) or an escaping exception -/
def indexSegs : List Name → Except Exn (List Seg)
  | [] => .ok []
  | i :: rest =>
      match PyStr.pyInt i with
      | none => .error (.foreign "ValueError")
      | some v => do
          let r ← indexSegs rest
          .ok (Seg.logical (.int v) (nm "member_id") :: r)

def attrSegs : List Name → Except Exn (List Seg)
  | [] => .ok []
  | a :: rest => do
      let (name, idx) := findTagIndex a
      let is ← indexSegs idx
      let r ← attrSegs rest
      .ok (Seg.dataStr name :: is ++ r)

/-- packets/util.py tag_request_path(tag, tag_info, use_instance_ids); `instanceId` = tag_info.get("instance_id") -/
def tagRequestPath (tag : Name) (instanceId : Option Nat) (useIds : Bool) : Except Exn (Option Bytes) :=
  match PyStr.split 46 tag with
  | [] => .ok none
  | base :: attrs =>
      let (baseTag, index) := findTagIndex base
      let first : List Seg :=
        if useIds && !(PyStr.startsWith (nm "Program:") base) && (instanceId.getD 0 != 0) then
          [Seg.logical (.bytes [0x6b]) (nm "class_id"), Seg.logical (.int (instanceId.getD 0)) (nm "instance_id")]
        else [Seg.dataStr baseTag]
      match indexSegs index, attrSegs attrs with
      | .error e, _ => .error e
      | _, .error e => .error e
      | .ok is, .ok as =>
          match encEpath true (first ++ is ++ as) true false with
          | .ok bs => .ok (some bs)
          | .error e => .error e

/-! ### an independent strict parser of padded EPATHs (what a target does) -/

inductive PSeg where
  | logical (ltypeBits : Nat) (value : Nat)     -- type bits as in the segment byte (0,4,8,...)
  | symbol (name : Bytes)
  | port (port : Nat) (link : Bytes)
  deriving Repr, DecidableEq, Inhabited

/-- parse segments until the input is exhausted; `none` on anything malformed -/
def parsePadded : Nat → Bytes → Option (List PSeg)
  | 0, _ => none
  | _ + 1, [] => some []
  | fuel + 1, b :: rest =>
      let x := b.toNat
      if x / 32 == 1 then
        -- logical segment: 001 ttt ff
        let ty := x % 32 / 4 * 4
        let fmt := x % 4
        if fmt == 0 then
          match rest with
          | v :: r => (parsePadded fuel r).map (PSeg.logical ty v.toNat :: ·)
          | _ => none
        else if fmt == 1 then
          match rest with
          | p :: a :: b2 :: r => if p == 0 then (parsePadded fuel r).map (PSeg.logical ty (a.toNat + 256 * b2.toNat) :: ·) else none
          | _ => none
        else if fmt == 2 then
          match rest with
          | p :: a :: b2 :: c :: d :: r =>
              if p == 0 then (parsePadded fuel r).map
                (PSeg.logical ty (a.toNat + 256 * b2.toNat + 65536 * c.toNat + 16777216 * d.toNat) :: ·) else none
          | _ => none
        else none
      else if x == 0x91 then
        match rest with
        | l :: r =>
            let n := l.toNat
            let padded := n + n % 2
            if r.length < padded then none
            else if n % 2 == 1 && r.getD n 0 != 0 then none
            else (parsePadded fuel (r.drop padded)).map (PSeg.symbol (r.take n) :: ·)
        | _ => none
      else if x / 32 == 0 then
        -- port segment: 000 e pppp
        let port := x % 16
        if port == 0 || port == 15 then none
        else if x / 16 % 2 == 1 then
          match rest with
          | l :: r =>
              let n := l.toNat
              let padded := n + n % 2
              if r.length < padded then none
              else if n % 2 == 1 && r.getD n 0 != 0 then none
              else (parsePadded fuel (r.drop padded)).map (PSeg.port port (r.take n) :: ·)
          | _ => none
        else
          match rest with
          | l :: r => (parsePadded fuel r).map (PSeg.port port [l] :: ·)
          | _ => none
      else none

/-- a request path as sent in a message-router request: word count, then that many words of segments -/
def parseRequestPath (bs : Bytes) : Option (List PSeg × Bytes) :=
  match bs with
  | [] => none
  | n :: rest =>
      let len := 2 * n.toNat
      if rest.length < len then none
      else (parsePadded (len + 1) (rest.take len)).map fun segs => (segs, rest.drop len)

end Pycomm.Path
