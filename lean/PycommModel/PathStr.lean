/-
  Model of cip_driver.py parse_connection_path / parse_cip_route.
-/
import PycommModel.Epath
namespace Pycomm.Path

/-- parse_cip_route for a list of segment strings -/
def parseCipRouteList (segments : List Name) (autoSlot : Bool) : Except Exn (List Seg) :=
  if segments.isEmpty then .ok (if autoSlot then [Seg.port (.name (nm "bp")) (.int 0)] else [])
  else if segments.length == 1 && autoSlot then .ok [Seg.port (.name (nm "bp")) (.str (segments.headD []))]
  else if segments.length % 2 == 1 then .error .request
  else
    let rec pairs : List Name → List Seg
      | p :: l :: rest =>
          Seg.port (if PyStr.isDigit p then .int (PyStr.decVal p) else .name p) (.str l) :: pairs rest
      | _ => []
    .ok (pairs segments)

/-- parse_cip_route for a str argument -/
def parseCipRouteStr (path : Name) (autoSlot : Bool) : Except Exn (List Seg) :=
  parseCipRouteList (PyStr.split 47 (PyStr.replaceC 92 47 path)) autoSlot

/-- parse_connection_path: (host, tcp port, route) -/
def parseConnectionPath (path : Name) (autoSlot : Bool) : Except Exn (Name × Option Int × List Seg) :=
  let p := PyStr.replaceC 44 47 (PyStr.replaceC 92 47 path)
  match PyStr.split 47 p with
  | [] => .error .request
  | ip :: route =>
      let hostPort : Except Exn (Name × Option Int) :=
        if ip.contains 58 then
          match PyStr.split 58 ip with
          | [h, pt] =>
              match PyStr.pyInt pt with
              | none => .error .request
              | some v => if v ≤ 0 ∨ v ≥ 65535 then .error .request else .ok (h, some v)
          | _ => .error .request      -- "too many values to unpack" -> wrapped as RequestError
        else .ok (ip, none)
      match hostPort with
      | .error e => .error e
      | .ok (h, pt) =>
          match parseCipRouteList route autoSlot with
          | .error e => .error e
          | .ok segs => .ok (h, pt, segs)

end Pycomm.Path
