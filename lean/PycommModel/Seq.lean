/-
  Model of pycomm3/util.py `cycle` (the 16-bit connected sequence counter) and of histories of
  packets that draw a count at construction and may or may not be sent later.
-/
import PycommModel.PyVal
namespace Pycomm.Seq

/-- generator state = the local `val`; one `next()`: returns the yielded value and the new state -/
def step (stop start val : Nat) : Nat × Nat :=
  let v := if val > stop then start else val
  (v, v + 1)

/-- the first `n` values yielded from state `val` -/
def draws (stop start : Nat) : Nat → Nat → List Nat
  | 0, _ => []
  | n + 1, val =>
      let (v, val') := step stop start val
      v :: draws stop start n val'

/-- the driver's counter: cycle(65535, start=1) -/
def STOP : Nat := 65535
def START : Nat := 1

/-- the k-th value (0-based) the driver's counter yields -/
def nth (k : Nat) : Nat := ((draws STOP START (k + 1) START).getLast?).getD 0

/-- closed form -/
def nthClosed (k : Nat) : Nat := 1 + k % 65535

/-- A history: packets are constructed (each draws the next count) and some of them are sent, in any
    order relative to construction.  `sent` lists the draw indices of the packets in send order. -/
def seqOfSends (sent : List Nat) : List Nat := sent.map nthClosed

/-- adjacent sends carry different counts -/
def AdjacentDiffer : List Nat → Prop
  | a :: b :: rest => a ≠ b ∧ AdjacentDiffer (b :: rest)
  | _ => True

end Pycomm.Seq
