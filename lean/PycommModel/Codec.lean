/-
  Model of pycomm3/cip/data_types.py and custom_types.py codecs.
  `encode t v` is the outcome of the *public* `T.encode(v)`, `decode t bs` of the public
  `T.decode(stream)` (value and the unread rest of the stream).
-/
import PycommModel.PyVal
import PycommModel.Float
import PycommModel.Text
namespace Pycomm

inductive IntK where
  | sint | int | dint | lint | usint | uint | udint | ulint
  deriving Repr, DecidableEq, Inhabited

def IntK.size : IntK → Nat
  | .sint => 1 | .int => 2 | .dint => 4 | .lint => 8
  | .usint => 1 | .uint => 2 | .udint => 4 | .ulint => 8

def IntK.signed : IntK → Bool
  | .sint | .int | .dint | .lint => true
  | _ => false

def IntK.lo (k : IntK) : Int := if k.signed then -((2 ^ (8 * k.size - 1) : Nat) : Int) else 0
def IntK.hi (k : IntK) : Int := if k.signed then ((2 ^ (8 * k.size - 1) : Nat) : Int) - 1 else ((2 ^ (8 * k.size) : Nat) : Int) - 1

inductive ArrLen where
  | fixed (n : Nat)
  | pref (k : IntK)     -- length read from the stream as this type
  | all                 -- unbounded: consume the whole buffer
  deriving Repr, DecidableEq, Inhabited

mutual
inductive Ty where
  | bool
  | int (k : IntK)
  | real
  | lreal
  | dateAndTime
  | str (lenK : IntK) (enc : Enc)       -- StringDataType subclasses
  | stringN (charSize : Nat)            -- charSize is the encode-time argument
  | stringI
  | bits (k : IntK)                      -- BitArrayType with this host type
  | nbytes (n : Int)                     -- n_bytes(n); -1 = rest of buffer
  | arr (len : ArrLen) (t : Ty)
  | struct (ms : Members)
  | fixedStr (size : Nat) (lenK : IntK)  -- custom_types.FixedSizeString
  | structTag (ms : TMembers) (bits : List (Name × Nat × Nat)) (priv : List Name) (size : Nat)
  | ipAddr
inductive Members where
  | nil
  | cons (name : Option Name) (t : Ty) (rest : Members)
inductive TMembers where
  | nil
  | cons (name : Name) (t : Ty) (offset : Nat) (rest : TMembers)
end

abbrev R (α : Type) := Except Exn α

/-! ### leaves -/

/-- `struct.pack` with an integer format -/
def packInt (k : IntK) (v : PyVal) : R Bytes :=
  match v.asIndex with
  | some i => if k.lo ≤ i ∧ i ≤ k.hi then .ok (leBytes k.size (ofSigned k.size i)) else .error .data
  | none => .error .data

/-- `DataType._stream_read`: `stream.read(size)`, BufferEmptyError when nothing came back.
    A short read is passed on silently (the callers decide). Negative size reads everything. -/
def streamRead (size : Int) (bs : Bytes) : R (Bytes × Bytes) :=
  let got := if size < 0 then bs else bs.take size.toNat
  let rest := if size < 0 then [] else bs.drop size.toNat
  if got.isEmpty then .error .bufferEmpty else .ok (got, rest)

def decodeIntNat (k : IntK) (bs : Bytes) : R (Nat × Bytes) := do
  let (d, rest) ← streamRead k.size bs
  if d.length < k.size then .error .data else .ok (leVal d, rest)

def decodeIntVal (k : IntK) (bs : Bytes) : R (Int × Bytes) := do
  let (n, rest) ← decodeIntNat k bs
  .ok (if k.signed then toSigned k.size n else (n : Int), rest)

def packReal (v : PyVal) : R Bytes :=
  let f64 : Option Nat := match v with
    | .float b => some b
    | .int i => Flt.ofInt i
    | .bool b => Flt.ofInt (if b then 1 else 0)
    | _ => Option.none
  match f64 with
  | some b => match Flt.narrow b with
      | some b32 => .ok (leBytes 4 b32)
      | none => .error .data
  | none => .error .data

def packLReal (v : PyVal) : R Bytes :=
  match v with
  | .float b => .ok (leBytes 8 b)
  | .int i => match Flt.ofInt i with | some b => .ok (leBytes 8 b) | none => .error .data
  | .bool b => match Flt.ofInt (if b then 1 else 0) with | some x => .ok (leBytes 8 x) | none => .error .data
  | _ => .error .data

def strOf (v : PyVal) : Option Name := match v with | .str cs => some cs | _ => Option.none

/-- `len_type.encode(len(value)) + value.encode(encoding)` for a `str`; anything else → DataError
    (bytes have no `.encode`, `len(None)` is a TypeError — all inside the wrapper). -/
def encodeStr (lenK : IntK) (enc : Enc) (v : PyVal) : R Bytes :=
  match v with
  | .str cs => do
      let l ← packInt lenK (.int cs.length)
      match Text.encode enc cs with
      | some d => .ok (l ++ d)
      | none => .error .data
  | _ => .error .data

def charWidth : Enc → Nat
  | .utf16 => 2 | .utf32 => 4 | _ => 1

def decodeStr (lenK : IntK) (enc : Enc) (bs : Bytes) : R (PyVal × Bytes) := do
  let (n, rest) ← decodeIntNat lenK bs
  if n = 0 then .ok (.str [], rest) else
  let want := n * charWidth enc
  let (d, rest') ← streamRead want rest
  if d.length < want then .error .data else
  match Text.decode enc d with
  | some cs => .ok (.str cs, rest')
  | none => .error .data

def stringNEnc (cs : Nat) : Option Enc :=
  if cs = 1 then some .utf8 else if cs = 2 then some .utf16 else if cs = 4 then some .utf32 else none

def encodeStringN (charSize : Nat) (v : PyVal) : R Bytes :=
  match stringNEnc charSize, v with
  | some enc, .str cs => do
      let a ← packInt .uint (.int charSize)
      let l ← packInt .uint (.int cs.length)
      match Text.encode enc cs with
      | some d => .ok (a ++ l ++ d)
      | none => .error .data
  | _, _ => .error .data

def decodeStringN (bs : Bytes) : R (PyVal × Bytes) := do
  let (csz, r1) ← decodeIntNat .uint bs
  let (cnt, r2) ← decodeIntNat .uint r1
  match stringNEnc csz with
  | none => .error .data
  | some enc =>
    if cnt = 0 then .ok (.str [], r2) else
    let want := cnt * csz
    let (d, r3) ← streamRead want r2
    if d.length < want then .error .data else
    match Text.decode enc d with
    | some cs => .ok (.str cs, r3)
    | none => .error .data

/-- the string classes STRINGI can embed, by CIP type code -/
inductive StrKind where | string | string2 | stringN | shortString
  deriving Repr, DecidableEq

def StrKind.ofCode (c : Nat) : Option StrKind :=
  if c = 0xD0 then some .string else if c = 0xD5 then some .string2
  else if c = 0xD9 then some .stringN else if c = 0xDA then some .shortString else none

def StrKind.code : StrKind → Nat
  | .string => 0xD0 | .string2 => 0xD5 | .stringN => 0xD9 | .shortString => 0xDA

def StrKind.encode : StrKind → PyVal → R Bytes
  | .string, v => encodeStr .uint .latin1 v
  | .string2, v => encodeStr .uint .utf16 v
  | .stringN, v => encodeStringN 1 v
  | .shortString, v => encodeStr .usint .latin1 v

def StrKind.decode : StrKind → Bytes → R (PyVal × Bytes)
  | .string, bs => decodeStr .uint .latin1 bs
  | .string2, bs => decodeStr .uint .utf16 bs
  | .stringN, bs => decodeStringN bs
  | .shortString, bs => decodeStr .usint .latin1 bs

def isAscii (cs : Name) : Bool := cs.all (· < 128)

/-- one `(string, str_type, lang, char_set)` item of STRINGI.encode; the type is given by its code -/
def encodeStringIItem (v : PyVal) : R Bytes :=
  match v.seq? with
  | some [s, .int code, .str lang, cset] =>
      match StrKind.ofCode code.toNat with
      | some k =>
          if code < 0 ∨ !isAscii lang then .error .data else do
          let cs ← packInt .uint cset
          let d ← k.encode s
          .ok (lang.map (fun c => UInt8.ofNat c) ++ [UInt8.ofNat k.code] ++ cs ++ d)
      | none => .error .data
  | _ => .error .data

def encodeStringIItems : List PyVal → R Bytes
  | [] => .ok []
  | x :: xs => do
      let a ← encodeStringIItem x
      let r ← encodeStringIItems xs
      .ok (a ++ r)

def encodeStringI (v : PyVal) : R Bytes :=
  let items? : Option (List PyVal) := match v with
    | .list items => some items
    | .tuple items => some items
    | _ => Option.none
  match items? with
  | some items => do
      let c ← packInt .usint (.int items.length)
      let d ← encodeStringIItems items
      .ok (c ++ d)
  | none => .error .data

/-- items of STRINGI.decode: `count` times (lang, type byte, char set, string) -/
def decodeStringIItems : Nat → Bytes → List PyVal → List PyVal → List PyVal → R (PyVal × Bytes)
  | 0, bs, ss, ls, cs => .ok (.tuple [.list ss.reverse, .list ls.reverse, .list cs.reverse], bs)
  | n + 1, bs, ss, ls, cs =>
      -- SHORT_STRING.decode(b"\x03" + stream.read(3))
      let l3 := bs.take 3
      let r0 := bs.drop 3
      if l3.isEmpty then .error .bufferEmpty
      else if l3.length < 3 then .error .data else
      match r0 with
      | [] => .error .data           -- stream.read(1)[0] → IndexError
      | tb :: r1 =>
        match StrKind.ofCode tb.toNat with
        | none => .error .data       -- KeyError
        | some k => do
            let (cset, r2) ← decodeIntNat .uint r1
            let (s, r3) ← k.decode r2
            decodeStringIItems n r3 (s :: ss) (.str (Text.decLatin1 l3) :: ls) (.int cset :: cs)

def decodeStringI (bs : Bytes) : R (PyVal × Bytes) := do
  let (count, r) ← decodeIntNat .usint bs
  decodeStringIItems count r [] [] []

/-- iteration order of `enumerate(value)` / `zip(members, value)` -/
def PyVal.iter? : PyVal → Option (List PyVal)
  | .dict kvs => some (kvs.map fun kv => .str kv.1)
  | v => v.seq?

def bitsToNat : List PyVal → Nat
  | [] => 0
  | x :: xs => (if x.truthy then 1 else 0) + 2 * bitsToNat xs

def natToBits : Nat → Nat → List PyVal
  | 0, _ => []
  | w + 1, n => .bool (n % 2 == 1) :: natToBits w (n / 2)

def encodeBits (k : IntK) (v : PyVal) : R Bytes :=
  match v.iter? with
  | some xs => if xs.length = 8 * k.size then .ok (leBytes k.size (bitsToNat xs)) else .error .data
  | none => .error .data

def decodeBits (k : IntK) (bs : Bytes) : R (PyVal × Bytes) := do
  let (n, rest) ← decodeIntNat k bs
  .ok (.list (natToBits (8 * k.size) n), rest)

/-- strict dotted quad (what `ipaddress.IPv4Address` accepts from a str) -/
def parseOctet (cs : List Nat) : Option Nat :=
  if cs.isEmpty || cs.length > 3 then none
  else if !cs.all (fun c => 48 ≤ c && c ≤ 57) then none
  else if cs.length > 1 && cs.head? == some 48 then none
  else
    let v := cs.foldl (fun a c => a * 10 + (c - 48)) 0
    if v ≤ 255 then some v else none

def splitOn (sep : Nat) : List Nat → List (List Nat)
  | [] => [[]]
  | c :: cs =>
      match splitOn sep cs with
      | [] => [[]]       -- unreachable
      | h :: t => if c = sep then [] :: h :: t else (c :: h) :: t

def parseIPv4 (cs : Name) : Option (List Nat) :=
  let parts := splitOn 46 cs
  if parts.length = 4 then parts.mapM parseOctet else none

def natToDec (n : Nat) : List Nat := (toString n).toList.map Char.toNat

def renderIPv4 (bs : Bytes) : Name :=
  match bs.map (fun b => natToDec b.toNat) with
  | [] => []
  | x :: xs => xs.foldl (fun acc d => acc ++ [46] ++ d) x

def encodeIp (v : PyVal) : R Bytes :=
  match v with
  | .str cs => match parseIPv4 cs with
      | some os => .ok (os.map fun o => UInt8.ofNat o)
      | none => .error .data
  | .int i => if 0 ≤ i ∧ i < 4294967296 then .ok (leBytes 4 i.toNat).reverse else .error .data
  | .bool b => .ok [0, 0, 0, if b then 1 else 0]
  | .bytes bs => if bs.length = 4 then .ok bs else .error .data
  | _ => .error .data

def decodeIp (bs : Bytes) : R (PyVal × Bytes) := do
  let (d, rest) ← streamRead 4 bs
  if d.length < 4 then .error .data else .ok (.str (renderIPv4 d), rest)

/-- `bytes(value[:n])`: bytes stay bytes, a list/tuple of ints 0..255 is converted, the rest raise -/
def sliceN {α} (n : Int) (xs : List α) : List α :=
  if n = -1 then xs else if n < 0 then xs.take (xs.length - (-n).toNat) else xs.take n.toNat

def byteOfVal (v : PyVal) : Option UInt8 :=
  match v.asIndex with
  | some i => if 0 ≤ i ∧ i < 256 then some (UInt8.ofNat i.toNat) else none
  | none => none

def encodeNBytes (n : Int) (v : PyVal) : R Bytes :=
  match v with
  | .bytes bs => .ok (sliceN n bs)
  | .list xs | .tuple xs =>
      match (sliceN n xs).mapM byteOfVal with
      | some bs => .ok bs
      | none => .error .data
  | _ => .error .data

def decodeNBytes (n : Int) (bs : Bytes) : R (PyVal × Bytes) := do
  let (d, rest) ← streamRead n bs
  if 0 ≤ n ∧ d.length < n.toNat then .error .data else .ok (.bytes d, rest)

def encodeFixedStr (size : Nat) (lenK : IntK) (v : PyVal) : R Bytes :=
  match v with
  | .str cs0 =>
      -- `value = value[: cls.size]`: strings longer than the tag are truncated
      let cs := cs0.take size
      do
      let l ← packInt lenK (.int cs.length)
      match Text.encode .latin1 cs with
      | some d => .ok (l ++ d ++ zeros (size - cs.length))
      | none => .error .data
  | _ => .error .data

/-- python `xs[:n]` for any integer n -/
def pySliceTo {α} (xs : List α) (n : Int) : List α :=
  if 0 ≤ n then xs.take n.toNat else xs.take (xs.length - (-n).toNat)

def decodeFixedStr (size : Nat) (lenK : IntK) (bs : Bytes) : R (PyVal × Bytes) := do
  let (n, rest) ← decodeIntVal lenK bs
  let (d, rest') ← streamRead size rest
  if d.length < size then .error .data else
  .ok (.str (Text.decLatin1 (pySliceTo d n)), rest')

/-! ### higher-order helpers for arrays (the element codec is passed in) -/

def encodeList (f : PyVal → R Bytes) : List PyVal → R Bytes
  | [] => .ok []
  | x :: xs => do
      let a ← f x
      let r ← encodeList f xs
      .ok (a ++ r)

def decodeN (f : Bytes → R (PyVal × Bytes)) : Nat → Bytes → R (List PyVal × Bytes)
  | 0, bs => .ok ([], bs)
  | n + 1, bs => do
      let (v, r) ← f bs
      let (vs, r') ← decodeN f n r
      .ok (v :: vs, r')

/-- `Array._decode_all`: loop until the element decoder raises BufferEmptyError.  An element that was decoded from no
    bytes (`stream.tell()` did not move) would never exhaust the buffer: DataError.  The fuel is kept for totality. -/
def decodeAll (f : Bytes → R (PyVal × Bytes)) : Nat → Bytes → R (List PyVal × Bytes)
  | 0, _ => .error .hang
  | fuel + 1, bs =>
      match f bs with
      | .error .bufferEmpty => .ok ([], bs)
      | .error e => .error e
      | .ok (v, r) =>
          if r.length = bs.length then .error .data else do
          let (vs, r') ← decodeAll f fuel r
          .ok (v :: vs, r')

def chunks (n : Nat) (xs : List PyVal) : Nat → List (List PyVal)
  | 0 => []
  | fuel + 1 => if xs.isEmpty then [] else xs.take n :: chunks n (xs.drop n) fuel

def flattenBits : List PyVal → List PyVal
  | [] => []
  | .list xs :: rest => xs ++ flattenBits rest
  | x :: rest => x :: flattenBits rest

def Ty.isBits : Ty → Option IntK
  | .bits k => some k
  | _ => none

/-- python slice assignment `value[off : off+len(enc)] = enc` on a bytearray -/
def splice (value : Bytes) (off : Nat) (enc : Bytes) : Bytes :=
  value.take off ++ enc ++ value.drop (off + enc.length)

def setBitAt (value : Bytes) (off bit : Nat) (on : Bool) : R Bytes :=
  if off < value.length ∧ bit < 8 then
    let old := (value.getD off 0).toNat
    let nw := if on then old ||| (1 <<< bit) else old &&& (255 - (1 <<< bit))
    .ok (value.set off (UInt8.ofNat nw))
  else if off < value.length ∧ !on then .ok value   -- `& ~(1<<bit)` leaves a byte unchanged for bit ≥ 8
  else .error .data

def encodeTagBits (kvs : List (Name × PyVal)) : List (Name × Nat × Nat) → Bytes → R Bytes
  | [], value => .ok value
  | (nm, off, bit) :: rest, value =>
      match dictGet kvs nm with
      | none => .error .data
      | some bv => do
          let value' ← setBitAt value off bit bv.truthy
          encodeTagBits kvs rest value'

def decodeTagBits (raw : Bytes) : List (Name × Nat × Nat) → List (Name × PyVal) → R (List (Name × PyVal))
  | [], kvs => .ok kvs
  | (nm, off, bit) :: more, kvs =>
      if off < raw.length then
        decodeTagBits raw more (dictSet kvs nm (.bool ((raw.getD off 0).toNat &&& (1 <<< bit) != 0)))
      else .error .data

/-! ### the recursive codec -/

/-- `typ.encode(value)` as `Struct._encode` / `Array.encode` call it for a member or an element: ONE positional
    argument. `STRINGI.encode(*strings)` takes a star-list, so there the value is the single item of the string
    (`Struct(STRINGI('s')).encode({'s': ('Hi', STRING, 'eng', 4)})`); a list of items is rejected. -/
def argOf (t : Ty) (v : PyVal) : PyVal :=
  match t with
  | .stringI => .tuple [v]
  | _ => v


mutual
def encode : Ty → PyVal → R Bytes
  | .bool, v => .ok [if v.truthy then 0xFF else 0x00]
  | .int k, v => packInt k v
  | .real, v => packReal v
  | .lreal, v => packLReal v
  | .dateAndTime, v =>
      match v with
      | .tuple [t, d] | .list [t, d] => do
          let a ← packInt .udint t
          let b ← packInt .uint d
          .ok (a ++ b)
      | _ => .error .data   -- (a call with the wrong arity is a caller error, outside the modelled domain)
  | .str lenK enc, v => encodeStr lenK enc v
  | .stringN cs, v => encodeStringN cs v
  | .stringI, v => encodeStringI v
  | .bits k, v => encodeBits k v
  | .nbytes n, v => encodeNBytes n v
  | .arr len t, v =>
      match v.len? with
      | none => .error .data
      | some vlen =>
        let tooFew : Bool := match len with
          | .fixed n => decide (vlen < n)
          | _ => false
        if tooFew then .error .data else
        match t.isBits with
        | some k =>
            match v.seq? with
            | none => if vlen = 0 then .ok [] else .error .data
            | some xs =>
                let cs := (chunks (8 * k.size) xs (xs.length + 1)).take (vlen / (8 * k.size))
                match encodeList (encode t) (cs.map PyVal.list) with
                | .ok bs => .ok bs
                | .error _ => .error .data
        | none =>
            let cnt := match len with
              | .fixed n => n
              | _ => vlen
            match v.seq? with
            | none => if cnt = 0 then .ok [] else .error .data
            | some xs =>
                match encodeList (fun x => encode t (argOf t x)) (xs.take cnt) with
                | .ok bs => .ok bs
                | .error _ => .error .data
  | .struct ms, v =>
      match v with
      | .dict kvs => match encodeMembersDict ms kvs with
          | .ok bs => .ok bs
          | .error _ => .error .data
      | _ => match v.iter? with
          | some xs => match encodeMembersSeq ms xs with
              | .ok bs => .ok bs
              | .error _ => .error .data
          | none => .error .data
  | .fixedStr size lenK, v => encodeFixedStr size lenK v
  | .structTag ms bits priv size, v =>
      match v with
      | .dict kvs =>
          match encodeTMembers ms priv kvs (zeros size) with
          | .error _ => .error .data
          | .ok value => encodeTagBits kvs bits value
      | _ => .error .data
  | .ipAddr, v => encodeIp v

def encodeMembersDict : Members → List (Name × PyVal) → R Bytes
  | .nil, _ => .ok []
  | .cons name t rest, kvs =>
      match name with
      | none => .error .data         -- values[None] → KeyError (str keys only)
      | some nm =>
        match dictGet kvs nm with
        | none => .error .data
        | some v => do
            let a ← encode t (argOf t v)
            let r ← encodeMembersDict rest kvs
            .ok (a ++ r)

def encodeMembersSeq : Members → List PyVal → R Bytes
  | .nil, _ => .ok []
  | .cons _ _ _, [] => .ok []       -- zip stops at the shorter
  | .cons _ t rest, v :: vs => do
      let a ← encode t (argOf t v)
      let r ← encodeMembersSeq rest vs
      .ok (a ++ r)

def encodeTMembers : TMembers → List Name → List (Name × PyVal) → Bytes → R Bytes
  | .nil, _, _, value => .ok value
  | .cons name t off rest, priv, kvs, value =>
      if priv.contains name then encodeTMembers rest priv kvs value else
      match dictGet kvs name with
      | none => .error .data
      | some v => do
          let enc ← encode t (argOf t v)
          encodeTMembers rest priv kvs (splice value off enc)

def decode : Ty → Bytes → R (PyVal × Bytes)
  | .bool, bs => do
      let (d, rest) ← streamRead 1 bs
      .ok (.bool (d != [0]), rest)
  | .int k, bs => do
      let (i, rest) ← decodeIntVal k bs
      .ok (.int i, rest)
  | .real, bs => do
      let (n, rest) ← decodeIntNat .udint bs
      .ok (.float (Flt.widen n), rest)
  | .lreal, bs => do
      let (n, rest) ← decodeIntNat .ulint bs
      .ok (.float n, rest)
  | .dateAndTime, bs => do
      let (t, r1) ← decodeIntNat .udint bs
      let (d, r2) ← decodeIntNat .uint r1
      .ok (.tuple [.int t, .int d], r2)
  | .str lenK enc, bs => decodeStr lenK enc bs
  | .stringN _, bs => decodeStringN bs
  | .stringI, bs => decodeStringI bs
  | .bits k, bs => decodeBits k bs
  | .nbytes n, bs => decodeNBytes n bs
  | .arr len t, bs =>
      match len with
      | .all =>
          match decodeAll (decode t) (bs.length + 1) bs with
          | .ok (vs, r) => .ok (.list (if t.isBits.isSome then flattenBits vs else vs), r)
          | .error e => .error e
      | .fixed n =>
          match decodeN (decode t) n bs with
          | .ok (vs, r) => .ok (.list (if t.isBits.isSome then flattenBits vs else vs), r)
          | .error e => .error e
      | .pref k =>
          match decodeIntNat k bs with
          | .error e => .error e
          | .ok (n, r0) =>
            -- a count far beyond the buffer can only succeed with zero-width elements, and then the
            -- real loop allocates `n` values: reported as `hang` (resource exhaustion), never unrolled
            if n > r0.length + 65536 then
              match decodeN (decode t) (r0.length + 1) r0 with
              | .ok _ => .error .hang
              | .error e => .error e
            else
            match decodeN (decode t) n r0 with
            | .ok (vs, r) => .ok (.list (if t.isBits.isSome then flattenBits vs else vs), r)
            | .error e => .error e
  | .struct ms, bs =>
      match decodeMembers ms bs [] with
      | .ok (kvs, r) => .ok (.dict kvs, r)
      | .error e => .error e
  | .fixedStr size lenK, bs => decodeFixedStr size lenK bs
  | .structTag ms bits priv size, bs =>
      match streamRead size bs with
      | .error e => .error e
      | .ok (raw, rest) =>
      if raw.length < size then .error .data else
      match decodeTMembers ms raw 0 [] with
      | .error e => .error e
      | .ok kvs =>
          match decodeTagBits raw bits kvs with
          | .error e => .error e
          | .ok kvs' => .ok (.dict (kvs'.filter fun kv => !priv.contains kv.1), rest)
  | .ipAddr, bs => decodeIp bs

def decodeMembers : Members → Bytes → List (Name × PyVal) → R (List (Name × PyVal) × Bytes)
  | .nil, bs, acc => .ok (acc, bs)
  | .cons name t rest, bs, acc => do
      let (v, r) ← decode t bs
      match name with
      | none => decodeMembers rest r acc
      | some nm => if nm.isEmpty then decodeMembers rest r acc else decodeMembers rest r (dictSet acc nm v)

/-- members of a StructTag over the private `size`-byte stream; `pos` = stream.tell() -/
def decodeTMembers : TMembers → Bytes → Nat → List (Name × PyVal) → R (List (Name × PyVal))
  | .nil, _, _, acc => .ok acc
  | .cons name t off rest, raw, pos, acc =>
      let pos' := if pos < off then min off raw.length else pos
      match decode t (raw.drop pos') with
      | .error e => .error e
      | .ok (v, r) => decodeTMembers rest raw (raw.length - r.length) (dictSet acc name v)
end

end Pycomm
