/-
  Model of `LogixDriver.open()` (pycomm3/logix_driver.py:162) as a composition: `CIPDriver.open`, then
  `_initialize_driver` (:168) = `_list_identity`, Micro800 detection, `get_plc_info`, `use_instance_ids`,
  `get_plc_name`, the Micro800 `cip_path` pop, and `get_tag_list(program='*' | None)` with the paged symbol
  upload per scope, `_isolate_user_tags`, `_create_tag`, and the template upload `_get_data_type` →
  `_get_structure_makeup` / `_read_template` / `_parse_template_data` with its recursion into nested
  templates and the two caches.

  Everything runs in a `Cli.World` (driver state + transport + reference target); every request goes through
  `Cli.sendReq`, so the frames come out in the order and with the sequence numbers of the real `open()`:
  sequence numbers are drawn where the real code constructs the packet (`SendUnitDataRequestPacket(self._sequence)`,
  `GenericConnectedRequestPacket(sequence=self._sequence, …)`), i.e. immediately before the corresponding send,
  and only after the lazy Forward Open of `with_forward_open`.

  Exceptions are outcomes (`Except Exn`).  The `try … except Exception … raise ResponseError` wrappers of the
  real code are mirrored one by one (`wrapResponse`); `.hang` (fuel exhausted: the real loop would not end) and
  `unmodelled` (the upload leaves the modelled universe of types, see `Drv.memberInfo`) pass through them.
-/
import PycommModel.Identity
import PycommModel.Logix.Driver
namespace Pycomm.Lgx.Opn
open Pycomm.Tgt Pycomm.Path Pycomm.Reply Pycomm.Lgx

def nm (s : String) : Name := s.toList.map Char.toNat

/-! ## 0. State -/

/-- `LogixDriver.__init__(path, init_tags=True, init_program_tags=True)` (logix_driver.py:107) -/
structure Config where
  initTags : Bool := true
  initProgramTags : Bool := true
  deriving Repr, DecidableEq, Inhabited

/-- `_info["programs"][name]` (logix_driver.py:572) -/
structure ProgInfo where
  instanceId : Nat
  routines : List Name := []
  deriving Repr, DecidableEq, Inhabited

/-- `_info["modules"][name]` (logix_driver.py:603-618): `slots` always exists, `types` / `__UNKNOWN__` once used -/
structure ModInfo where
  slots : List (Nat × List Name) := []       -- slot -> {"types": […]}
  types : Option (List Name) := none
  unknown : Option (List Name) := none
  deriving Repr, DecidableEq, Inhabited

/-- `self._info` -/
structure Info where
  plc : List (Name × PyVal) := []                      -- what `get_plc_info` returned (it replaces `_info`)
  name : Option Name := none                           -- `_info["name"]`
  programs : Option (List (Name × ProgInfo)) := none   -- `none` = key absent
  tasks : Option (List (Name × Nat)) := none           -- task -> instance_id
  modules : Option (List (Name × ModInfo)) := none
  deriving Repr, Inhabited

/-- the fields of a tag definition (logix_driver.py:638 `_create_tag`) that `Drv.TagCore` does not carry -/
structure TagMeta where
  alias : Bool
  instanceId : Nat
  symbolAddress : Nat
  symbolObjectAddress : Nat
  softwareControl : Nat
  externalAccess : Name
  templateInstanceId : Option Nat := none
  bitPosition : Option Nat := none
  deriving Repr, DecidableEq, Inhabited

/-- the attributes `LogixDriver` adds to `CIPDriver` -/
structure LDrv where
  micro800 : Bool := false                     -- `_micro800`
  useInstanceIds : Bool := true                -- `_cfg["use_instance_ids"]`
  info : Info := {}                            -- `_info`
  tags : Drv.TagDb := []                       -- `_tags`
  metas : List (Name × TagMeta) := []          -- the remaining fields of `_tags[name]`
  dataTypes : List Name := []                  -- keys of `_data_types`, in insertion order
  cacheLeft : Bool := false                    -- `_cache is not None` (left behind by a failed `get_tag_list`)

/-- one entry of `_cache["id:struct"]` (logix_driver.py:1475 `_parse_structure_makeup_attributes`) -/
structure TemplateAttrs where
  objectDefinitionSize : Nat
  structureSize : Nat
  memberCount : Nat
  structureHandle : Nat
  deriving Repr, DecidableEq, Inhabited

/-- a `data_type` dict as the read / write paths see it: (non-recursive part, `type_class`, `internal_tags`) -/
abbrev DT := Drv.StructInfo × Ty × Drv.ITags

/-- `self._cache` during `get_tag_list` (`"tag_name:id"` and `"handle:id"` are written but never read) -/
structure Cache where
  idStruct : List (Nat × TemplateAttrs) := []
  idUdt : List (Nat × DT) := []

/-- everything the upload threads through -/
structure St (σ : Type) where
  w : Cli.World σ
  l : LDrv
  cache : Cache := {}

/-- the model cannot follow the real code here (an elementary type outside `Cl.atomicTy`, an unnamed template) -/
def unmodelled : Exn := .foreign "Unmodelled"

/-- `except Exception as err: raise ResponseError(…) from err` -/
def wrapResponse (e : Exn) : Exn := if e == .hang || e == unmodelled then e else .response

def assocSet {α} (xs : List (Name × α)) (k : Name) (v : α) : List (Name × α) :=
  if xs.any (·.1 == k) then xs.map (fun x => if x.1 == k then (k, v) else x) else xs ++ [(k, v)]

def assocGet {α} (xs : List (Name × α)) (k : Name) : Option α := (xs.find? (·.1 == k)).map (·.2)

def natSet {α} (xs : List (Nat × α)) (k : Nat) (v : α) : List (Nat × α) :=
  if xs.any (·.1 == k) then xs.map (fun x => if x.1 == k then (k, v) else x) else xs ++ [(k, v)]

def natGet {α} (xs : List (Nat × α)) (k : Nat) : Option α := (xs.find? (·.1 == k)).map (·.2)

/-! ## 1. Identity, controller info, program name -/

/-- cip_driver.py:262 `_list_identity()`: `response.identity` — `{}` when the reply does not decode; a transport
    failure escapes as CommError -/
def listIdentity {σ} (hook : ObjHook σ) (w : Cli.World σ) : Cli.World σ × Except Exn (List (Name × PyVal)) :=
  let (w1, r) := Cli.sendReq hook w .listIdentity false
  match r with
  | .error e => (w1, .error e)
  | .ok none => (w1, .ok [])
  | .ok (some raw) =>
      match Ident.parseListIdentity raw with
      | some (.dict kvs) => (w1, .ok kvs)
      | _ => (w1, .ok [])

/-- logix_driver.py:173 `target_identity.get("product_name", "").startswith(MICRO800_PREFIX)` -/
def isMicro800 (identity : List (Name × PyVal)) : Bool :=
  match dictGet identity (nm "product_name") with
  | some (.str s) => PyStr.startsWith Gen.MICRO800_PREFIX s
  | _ => false

/-- logix_driver.py:331 `KEYSWITCH.get(status[0], {}).get(status[1], "UNKNOWN")` -/
def keyswitchText (b0 b1 : Nat) : Name :=
  match Status.lookupNat b0 Gen.keyswitch with
  | some tbl => (Status.lookupNat b1 tbl).getD Ident.unknown
  | none => Ident.unknown

/-- logix_driver.py:311 `get_plc_info()`: the identity dict + `keyswitch`; every failure is ResponseError -/
def getPlcInfo {σ} (hook : ObjHook σ) (w : Cli.World σ) (micro800 : Bool) : Cli.World σ × Except Exn (List (Name × PyVal)) :=
  let (w1, r) := Cli.genericMessage hook Cli.FUEL w
    { service := 0x01, cls := .bytes [0x01], inst := .bytes [0x01], connected := false, unconnectedSend := !micro800,
      name := nm "get_plc_info" }
  match r with
  | .error e => (w1, .error (wrapResponse e))
  | .ok tag =>
      -- `data_type=ModuleIdentityObject`: a valid reply that does not decode is a falsy Tag as well
      if !tag.truthy then (w1, .error .response) else
      match tag.value with
      | .bytes b =>
          match Ident.decodeModuleIdentity b with
          | .ok (.dict kvs, _) =>
              match dictGet kvs (nm "status") with
              | some (.bytes [s0, s1]) => (w1, .ok (dictSet kvs (nm "keyswitch") (.str (keyswitchText s0.toNat s1.toNat))))
              | _ => (w1, .error .response)
          | _ => (w1, .error .response)
      | _ => (w1, .error .response)

/-- logix_driver.py:197 `revision_major`: `info.get("revision", {}).get("major", 0)` -/
def revisionMajor (info : Info) : Nat :=
  match dictGet info.plc (nm "revision") with
  | some (.dict rev) =>
      match dictGet rev (nm "major") with
      | some (.int i) => i.toNat
      | _ => 0
  | _ => 0

/-- logix_driver.py:285 `get_plc_name()`: `@with_forward_open` outside the try block (its ResponseError / CommError
    escape as they are), everything inside becomes ResponseError -/
def getPlcName {σ} (hook : ObjHook σ) (w : Cli.World σ) : Cli.World σ × Except Exn Name :=
  let (w0, pre) := Cli.ensureForwardOpen hook Cli.FUEL w
  match pre with
  | .error e => (w0, .error e)
  | .ok _ =>
    let (w1, r) := Cli.genericMessage hook Cli.FUEL w0
      { service := 0x01, cls := .bytes [0x64], inst := .int 1, dataType := some (.str .uint .latin1), name := nm "get_plc_name" }
    match r with
    | .error e => (w1, .error (wrapResponse e))
    | .ok tag =>
        if !tag.truthy then (w1, .error .response) else
        match tag.value with
        | .str s => (w1, .ok s)
        | _ => (w1, .error .response)

/-! ## 2. The symbol list of one scope -/

/-- logix_driver.py:457-476: the request path of one page: `[DataSegment("Program:x")]? class 0x6B, instance last_instance`.
    `if program:` — the empty program name asks for the controller scope -/
def symbolListPath (program : Option Name) (lastInstance : Nat) : R Bytes :=
  let scope : List Seg := match program with
    | none => []
    | some p =>
        if p.isEmpty then []
        else [Seg.dataStr (if PyStr.startsWith (nm "Program:") p then p else nm "Program:" ++ p)]
  encEpath true (scope ++ [Seg.logical (.bytes [0x6b]) (nm "class_id"), Seg.logical (.int lastInstance) (nm "instance_id")]) true false

/-- logix_driver.py:479-496: `request.add(service, path, count, *attributes)` -/
def symbolListMsg (path : Bytes) (withAccess : Bool) : Bytes :=
  let attrs := Up.wantedAttrs withAccess
  [0x55] ++ path ++ le 2 attrs.length ++ (attrs.map (le 2)).flatten

/-- logix_driver.py:442 `_get_instance_attribute_list_service(program)`: the `while last_instance != -1` loop with
    `_parse_instance_attribute_list` (:513).  The sequence number is drawn by `SendUnitDataRequestPacket(self._sequence)`
    after the path was encoded.  Everything is inside `try … except Exception: raise ResponseError`. -/
def getInstanceAttributeList {σ} (hook : ObjHook σ) (program : Option Name) (withAccess : Bool) :
    Nat → Cli.World σ → (lastInstance : Nat) → (acc : List Up.Rec) → Cli.World σ × Except Exn (List Up.Rec)
  | 0, w, _, _ => (w, .error .hang)
  | fuel + 1, w, last, acc =>
      match symbolListPath program last with
      | .error _ => (w, .error .response)
      | .ok path =>
        let (seq, d1) := w.drv.nextSeq
        let (w2, r) := Cli.sendReq hook { w with drv := d1 } (.sendUnit seq (symbolListMsg path withAccess)) false
        match r with
        | .error e => (w2, .error (wrapResponse e))
        | .ok raw =>
            let p := parseCip raw .connected
            -- `if not response: raise ResponseError(…)`
            if !validCip .connected p then (w2, .error .response) else
            let data := p.data.getD []
            match Up.parseRecords withAccess (data.length + 1) data with
            | .error e => (w2, .error (wrapResponse e))
            | .ok recs =>
                match Up.nextInstance (p.serviceStatus.getD 0) recs with
                | none => (w2, .ok (acc ++ recs))
                | some next => getInstanceAttributeList hook program withAccess fuel w2 next (acc ++ recs)

/-- the page loop ends after at most one page per symbol with the reference target; a peer that keeps answering
    status 6 without progress makes the real loop endless (`.hang`) -/
def PAGE_FUEL : Nat := 100000

/-! ## 3. Structure definitions -/

/-- logix_driver.py:687 `_get_structure_makeup(instance_id)`: Get_Attribute_List of the template object
    (attributes 4, 5, 2, 1), cached in `_cache["id:struct"]` -/
def getStructureMakeup {σ} (hook : ObjHook σ) (st : St σ) (tid : Nat) : St σ × Except Exn TemplateAttrs :=
  match natGet st.cache.idStruct tid with
  | some a => (st, .ok a)
  | none =>
    let (w1, r) := Cli.genericMessage hook Cli.FUEL st.w
      { service := 0x03, cls := .bytes [0x6c], inst := .int tid, connected := true,
        data := [0x04, 0x00, 0x04, 0x00, 0x05, 0x00, 0x02, 0x00, 0x01, 0x00],
        dataType := some (.struct Gen.templateAttributesMembers), name := nm "_get_structure_makeup" }
    let st1 := { st with w := w1 }
    match r with
    | .error e => (st1, .error e)
    | .ok tag =>
        -- `if not response: raise ResponseError("send_unit_data returned not valid data", response.error)`
        if !tag.truthy then (st1, .error .response) else
        -- logix_driver.py:1475 `_parse_structure_makeup_attributes(response)`
        let field (outer inner : String) : Option Nat :=
          match tag.value with
          | .dict kvs =>
              match dictGet kvs (nm outer) with
              | some (.dict sub) =>
                  match dictGet sub (nm inner) with
                  | some (.int i) => some i.toNat
                  | _ => none
              | _ => none
          | _ => none
        match field "object_definition_size" "size", field "structure_size" "size", field "member_count" "count",
              field "structure_handle" "handle" with
        | some ods, some ss, some mc, some sh =>
            let a : TemplateAttrs := { objectDefinitionSize := ods, structureSize := ss, memberCount := mc, structureHandle := sh }
            ({ st1 with cache := { st1.cache with idStruct := natSet st1.cache.idStruct tid a } }, .ok a)
        | _, _, _, _ => (st1, .error .response)

/-- cip_driver.py:484 `generic_message(…, connected=True, return_response_packet=True)`: the reply as received.
    `Tag(name, response, data_type, error=response.error)` evaluates `response.error`, which may raise. -/
def genericConnectedRaw {σ} (hook : ObjHook σ) (w : Cli.World σ) (service : Nat) (cls inst : LVal) (data : Bytes) :
    Cli.World σ × Except Exn (Option Bytes) :=
  let (w0, pre) := Cli.ensureForwardOpen hook Cli.FUEL w
  match pre with
  | .error e => (w0, .error e)
  | .ok _ =>
    match requestPath cls inst (.bytes []) with
    | .error e => (w0, .error e)
    | .ok reqPath =>
      let (seq, d1) := w0.drv.nextSeq
      let (w2, r) := Cli.sendReq hook { w0 with drv := d1 } (.sendUnit seq ([UInt8.ofNat service] ++ reqPath ++ data)) false
      match r with
      | .error e => (w2, .error e)
      | .ok reply =>
          let p := parseCip reply .connected
          match errorCip reply .connected p (validCip .connected p) with
          | .error e => (w2, .error e)
          | .ok _ => (w2, .ok reply)

/-- logix_driver.py:717 `_read_template(instance_id, object_definition_size)`: Read Tag service of the template object at
    the running offset until the status is 0.  Only `service_status` is tested (not `is_valid()`); a reply without
    data makes `template_raw += None` fail.  Everything inside `try … except Exception: raise ResponseError`. -/
def readTemplate {σ} (hook : ObjHook σ) (tid ods : Nat) :
    Nat → Cli.World σ → (offset : Nat) → (acc : Bytes) → Cli.World σ × Except Exn Bytes
  | 0, w, _, _ => (w, .error .hang)
  | fuel + 1, w, offset, acc =>
      -- `DINT.encode(offset) + UINT.encode(((object_definition_size * 4) - 21) - offset)`
      match packInt .dint (.int offset), packInt .uint (.int (((ods * 4 : Nat) : Int) - 21 - (offset : Nat))) with
      | .ok o, .ok n =>
          let (w1, r) := genericConnectedRaw hook w 0x4C (.bytes [0x6c]) (.int tid) (o ++ n)
          match r with
          | .error e => (w1, .error (wrapResponse e))
          | .ok reply =>
              let p := parseCip reply .connected
              match p.serviceStatus, p.data with
              | some status, some d =>
                  if status = Gen.SUCCESS then (w1, .ok (acc ++ d))
                  else if status = Gen.INSUFFICIENT_PACKETS then readTemplate hook tid ods fuel w1 (offset + d.length) (acc ++ d)
                  else (w1, .error .response)
              | _, _ => (w1, .error .response)
      | _, _ => (w, .error .response)

/-- a definition of n bytes takes at most n + 1 rounds when every fragment carries at least one byte -/
def TMPL_FUEL : Nat := 100000

/-- is the 16-bit member type a structure (neither `DataTypes.get(typ)` nor `DataTypes.get_type(typ & 0xFFF)` knows it)?
    `error` = an elementary type the model does not have (logix_driver.py:849-860) -/
def memberIsStruct (typ : Nat) : Except Exn Bool :=
  if (Up.atomicOfTyp typ).isSome then .ok false
  else if (Drv.typeNameOfCode typ).isSome ∨ (Drv.typeNameOfCode (typ % 4096)).isSome then .error unmodelled
  else .ok true

/-- logix_driver.py:763 `member_data = [self._parse_template_data_member_info(chunk) for chunk in chunks]`: the members in
    template order; a structure member is resolved (and uploaded, if not cached) before the next chunk is looked at.
    `getDT st tid typ` = `self._get_data_type(tid, typ)`.  Result: the nested definition per member (`none` = elementary). -/
def resolveMembers {σ} (getDT : St σ → Nat → Nat → St σ × Except Exn DT) :
    St σ → List Bytes → St σ × Except Exn (List (Option DT))
  | st, [] => (st, .ok [])
  | st, chunk :: rest =>
      match Up.parseMemberInfo chunk with
      | .error e => (st, .error e)
      | .ok (_, typ, _) =>
          match memberIsStruct typ with
          | .error e => (st, .error e)
          | .ok false =>
              let (st1, more) := resolveMembers getDT st rest
              (st1, more.map fun xs => none :: xs)
          | .ok true =>
              let (st1, r) := getDT st (typ % 4096) typ
              match r with
              | .error e => (st1, .error e)
              | .ok dt =>
                  let (st2, more) := resolveMembers getDT st1 rest
                  (st2, more.map fun xs => some dt :: xs)

/-- logix_driver.py:753 `_parse_template_data(data, template, symbol_type)` after the members were resolved: names, private
    members, string recognition (`Up.parseTemplate`), `internal_tags` (`Drv.memberInfo`) and `type_class` (`Drv.structTy`) -/
def parseTemplateData (data : Bytes) (a : TemplateAttrs) (symbolType : Nat) (nested : List (Option DT)) : Except Exn DT :=
  match Up.parseTemplate a.memberCount symbolType data with
  | .error e => .error e
  | .ok pt =>
      -- `zip(member_names, member_data)`
      match (pt.members.zip nested).mapM (fun x => (Drv.memberInfo (fun _ => x.2) x.1).map fun i => (x.1, i)) with
      | none => .error unmodelled
      | some ms =>
          match pt.name with
          | none => .error unmodelled          -- `data_type["name"]` is None
          | some name =>
              let si : Drv.StructInfo := { name := name, attributes := pt.attributes, size := a.structureSize,
                                           handle := a.structureHandle, string := pt.string }
              .ok (si, Drv.structTy a.structureSize pt.string.isSome ms, Drv.ITags.ofList (ms.map fun x => (x.1.name, x.2)))

/-- logix_driver.py:877 `_get_data_type(instance_id, symbol_type)`: cache lookup, else `_get_structure_makeup`,
    `_read_template`, `_parse_template_data` (which recurses into nested templates *before* this one is cached), then
    `_cache["id:udt"][instance_id] = data_type; _data_types[name] = data_type`.  The whole body is wrapped into ResponseError. -/
def getDataType {σ} (hook : ObjHook σ) : Nat → St σ → (tid symbolType : Nat) → St σ × Except Exn DT
  | 0, st, _, _ => (st, .error .hang)
  | fuel + 1, st, tid, symbolType =>
      match natGet st.cache.idUdt tid with
      | some dt => (st, .ok dt)
      | none =>
        let (st1, r) := getStructureMakeup hook st tid
        match r with
        | .error e => (st1, .error (wrapResponse e))
        | .ok a =>
          let (w2, r2) := readTemplate hook tid a.objectDefinitionSize TMPL_FUEL st1.w 0 []
          let st2 := { st1 with w := w2 }
          match r2 with
          | .error e => (st2, .error (wrapResponse e))
          | .ok data =>
            let chunks := Up.chunks8 a.memberCount (data.take (a.memberCount * Gen.TEMPLATE_MEMBER_INFO_LEN))
            let (st3, r3) := resolveMembers (getDataType hook fuel) st2 chunks
            match r3 with
            | .error e => (st3, .error (wrapResponse e))
            | .ok nested =>
              match parseTemplateData data a symbolType nested with
              | .error e => (st3, .error (wrapResponse e))
              | .ok dt =>
                  let l := st3.l
                  ({ st3 with cache := { st3.cache with idUdt := natSet st3.cache.idUdt tid dt },
                              l := { l with dataTypes := if l.dataTypes.contains dt.1.name then l.dataTypes else l.dataTypes ++ [dt.1.name] } },
                   .ok dt)

/-- nesting depth of structure definitions the model follows (a definition that contains itself makes the real code
    recurse until RecursionError) -/
def DT_FUEL : Nat := 64

/-! ## 4. `_isolate_user_tags` and `_create_tag` -/

/-- `s.replace(pat, "")` -/
def removeAll (pat : Name) : Nat → Name → Name
  | 0, s => s
  | _, [] => []
  | fuel + 1, c :: cs =>
      if !pat.isEmpty && (c :: cs).take pat.length == pat then removeAll pat fuel ((c :: cs).drop pat.length)
      else c :: removeAll pat fuel cs

def pyRemove (pat s : Name) : Name := removeAll pat (s.length + 1) s

/-- `":".join(xs)` -/
def joinColon : List Name → Name
  | [] => []
  | x :: rest => rest.foldl (fun acc y => acc ++ [58] ++ y) x

/-- `any(x in name for x in (":I", ":O", ":C", ":S"))` -/
def isIoName (name : Name) : Bool :=
  K.contains (nm ":I") name || K.contains (nm ":O") name || K.contains (nm ":C") name || K.contains (nm ":S") name

/-- logix_driver.py:599-618: the module bookkeeping of an I/O tag.  `if mod_slot not in modules[mod_name]` tests the
    module dict (keys "slots" / "types" / "__UNKNOWN__"), never the slots dict: it is always true, so every tag of a
    slot resets that slot's `types` list and only the last type survives. -/
def noteModule (mods : List (Name × ModInfo)) (name : Name) : List (Name × ModInfo) :=
  let mod := PyStr.split 58 name
  let modName := mod.headD []
  let m : ModInfo := (assocGet mods modName).getD {}
  let m' : ModInfo :=
    match mod with
    | [_, slot, ty] =>
        if PyStr.isDigit slot then { m with slots := natSet m.slots (PyStr.decVal slot) [ty] }
        else { m with unknown := some (m.unknown.getD [] ++ [joinColon [slot, ty]]) }
    | [_, ty] => { m with types := some (m.types.getD [] ++ [ty]) }
    | _ => { m with unknown := some (m.unknown.getD [] ++ [joinColon (mod.drop 1)]) }
  assocSet mods modName m'

/-- logix_driver.py:570-618: what one symbol record adds to `_info` (programs, routines, tasks, modules).
    `program` = the scope being uploaded (`None` for the controller scope: routines are then dropped with a log line). -/
def noteSymbol (program : Option Name) (info : Info) (r : Up.Rec) : Info :=
  let name := r.name
  if PyStr.startsWith (nm "Program:") name then
    { info with programs := some (assocSet (info.programs.getD []) (pyRemove (nm "Program:") name)
                                   { instanceId := r.inst, routines := [] }) }
  else if PyStr.startsWith (nm "Routine:") name then
    match program.bind (assocGet (info.programs.getD [])) with
    | none => info
    | some pi =>
        { info with programs := some (assocSet (info.programs.getD []) (program.getD [])
                                       { pi with routines := pi.routines ++ [pyRemove (nm "Routine:") name] }) }
  else if PyStr.startsWith (nm "Task:") name then
    { info with tasks := some (assocSet (info.tasks.getD []) (pyRemove (nm "Task:") name) r.inst) }
  else if K.contains (nm "Map:") name || K.contains (nm "Cxn:") name then info
  else if isIoName name then { info with modules := some (noteModule (info.modules.getD []) name) }
  else info

/-- `EXTERNAL_ACCESS.get(access, "Unknown")` (logix_driver.py:546; `access` is None below firmware 18) -/
def externalAccessText (access : Option Nat) : Name :=
  match access.bind (fun a => Status.lookupNat a Gen.externalAccess) with
  | some t => t
  | none => nm "Unknown"

/-- logix_driver.py:638 `_create_tag(name, raw_tag)`: the definition of one user tag; a structure tag resolves its
    template first (`_get_data_type(template_instance_id, symbol_type)`) -/
def createTag {σ} (hook : ObjHook σ) (st : St σ) (r : Up.Rec) : St σ × Except Exn (Drv.TagInfo × TagMeta) :=
  let tw := K.decodeTypeWord r.symbolType
  let dims := (r.dims ++ [0, 0, 0]).take 3
  let total := (dims.take tw.dims).foldl (· * ·) 1
  let wrap (t : Ty) : Ty := if tw.dims ≠ 0 then .arr (.fixed total) t else t
  let tagMeta : TagMeta := { alias := K.isAlias r.swc, instanceId := r.inst, symbolAddress := r.addr, symbolObjectAddress := r.objAddr,
                             softwareControl := r.swc, externalAccess := externalAccessText r.access }
  if tw.isStruct then
    let (st1, d) := getDataType hook DT_FUEL st tw.templateId r.symbolType
    match d with
    | .error e => (st1, .error e)
    | .ok (si, t, ms) =>
        (st1, .ok (.mk { tagType := .struct, dataTypeName := si.name, ty := wrap t, dim := tw.dims, dimensions := dims,
                         instanceId := some r.inst, struct := some si } ms,
                   { tagMeta with templateInstanceId := some tw.templateId }))
  else
    match Drv.atomicOfCode tw.atomicCode with
    | none => (st, .error unmodelled)
    | some (name, t) =>
        (st, .ok (.mk { tagType := .atomic, dataTypeName := name, ty := wrap t, dim := tw.dims, dimensions := dims,
                        instanceId := some r.inst } .nil,
                  { tagMeta with bitPosition := if tw.atomicCode = 0xC1 then some tw.boolBit else none }))

/-- logix_driver.py:562 `_isolate_user_tags(all_tags, program)`: per record the `_info` bookkeeping, the filter
    (`K.keepSymbol` = none of the `continue` branches) and `_create_tag`; the whole loop is wrapped into ResponseError -/
def isolateUserTags {σ} (hook : ObjHook σ) (program : Option Name) :
    St σ → List Up.Rec → St σ × Except Exn (List (Name × Drv.TagInfo × TagMeta))
  | st, [] => (st, .ok [])
  | st, r :: rest =>
      let st0 := { st with l := { st.l with info := noteSymbol program st.l.info r } }
      if !K.keepSymbol r.name r.symbolType then isolateUserTags hook program st0 rest
      else
        let name := match program with
          | some p => nm "Program:" ++ p ++ [46] ++ r.name
          | none => r.name
        let (st1, t) := createTag hook st0 r
        match t with
        | .error e => (st1, .error (wrapResponse e))
        | .ok (info, tagMeta) =>
            let (st2, more) := isolateUserTags hook program st1 rest
            (st2, more.map fun xs => (name, info, tagMeta) :: xs)

/-! ## 5. `get_tag_list` -/

/-- logix_driver.py:436 `_get_tag_list(program)` -/
def getTagListScope {σ} (hook : ObjHook σ) (st : St σ) (program : Option Name) :
    St σ × Except Exn (List (Name × Drv.TagInfo × TagMeta)) :=
  let withAccess := decide (revisionMajor st.l.info ≥ Gen.MIN_VER_EXTERNAL_ACCESS)
  let (w1, r) := getInstanceAttributeList hook program withAccess PAGE_FUEL st.w 0 []
  let st1 := { st with w := w1 }
  match r with
  | .error e => (st1, .error e)
  | .ok recs => isolateUserTags hook program st1 recs

/-- logix_driver.py:423 `for prog in self._info["programs"]: tags += self._get_tag_list(prog)`: the dict is iterated
    while `_isolate_user_tags` may add a key ("Program:…" symbol inside a program): the next step of the iteration
    then raises RuntimeError("dictionary changed size during iteration"), also after the last program -/
def programScopes {σ} (hook : ObjHook σ) (size : Nat) :
    St σ → List Name → St σ × Except Exn (List (Name × Drv.TagInfo × TagMeta))
  | st, progs =>
      if (st.l.info.programs.getD []).length ≠ size then (st, .error (.foreign "RuntimeError")) else
      match progs with
      | [] => (st, .ok [])
      | p :: rest =>
          let (st1, r) := getTagListScope hook st (some p)
          match r with
          | .error e => (st1, .error e)
          | .ok tags =>
              let (st2, more) := programScopes hook size st1 rest
              (st2, more.map fun xs => tags ++ xs)

/-- `{tag["tag_name"]: tag for tag in tags}` for the fields outside `Drv.TagInfo` -/
def metasOfList (xs : List (Name × TagMeta)) : List (Name × TagMeta) := xs.foldl (fun acc x => assocSet acc x.1 x.2) []

/-- logix_driver.py:387 `get_tag_list(program, cache=True)` for `program ∈ {'*', None}`: `@with_forward_open`, a fresh
    `_cache`, empty `programs` / `tasks` / `modules`, the controller scope, then (for '*') every program found there -/
def getTagList {σ} (hook : ObjHook σ) (w : Cli.World σ) (l : LDrv) (allPrograms : Bool) : Cli.World σ × LDrv × Except Exn Unit :=
  let (w0, pre) := Cli.ensureForwardOpen hook Cli.FUEL w
  match pre with
  | .error e => (w0, l, .error e)
  | .ok _ =>
    let l0 := { l with cacheLeft := true, info := { l.info with programs := some [], tasks := some [], modules := some [] } }
    let (st1, r) := getTagListScope hook { w := w0, l := l0 } none
    match r with
    | .error e => (st1.w, st1.l, .error e)
    | .ok ctl =>
        let progs := (st1.l.info.programs.getD []).map (·.1)
        let (st2, r2) : St σ × Except Exn (List (Name × Drv.TagInfo × TagMeta)) :=
          if allPrograms then programScopes hook progs.length st1 progs else (st1, .ok [])
        match r2 with
        | .error e => (st2.w, st2.l, .error e)
        | .ok ptags =>
            let all := ctl ++ ptags
            (st2.w, { st2.l with tags := Drv.TagDb.ofList (all.map fun x => (x.1, x.2.1)),
                                 metas := metasOfList (all.map fun x => (x.1, x.2.2)), cacheLeft := false }, .ok ())

/-! ## 6. `_initialize_driver` and `open` -/

/-- logix_driver.py `_is_backplane`: the port of a port segment is the backplane (number 1, or a name of the table that
    stands for 1; names are looked up in lower case) -/
def isBackplane : Seg → Bool
  | .port (.int p) _ => p == 1
  | .port (.name s) _ => lookupName (PyStr.toLower s) Gen.portSegments == some 1
  | _ => false

/-- logix_driver.py:182-189: a Micro800 does not use the trailing backplane/slot segment of the route; only a backplane
    segment is taken off, so that the next `open()` of the same driver does not take another hop off the route -/
def popPortSegment (path : List Seg) : List Seg :=
  match path.getLast? with
  | some seg => if isBackplane seg then path.dropLast else path
  | none => path

/-- logix_driver.py:168 `_initialize_driver(init_tags, init_program_tags)` -/
def initializeDriver {σ} (hook : ObjHook σ) (cfg : Config) (w : Cli.World σ) (l : LDrv) : Cli.World σ × LDrv × Except Exn Unit :=
  let (w1, idn) := listIdentity hook w
  match idn with
  | .error e => (w1, l, .error e)
  | .ok identity =>
    let l1 := { l with micro800 := isMicro800 identity }
    let (w2, inf) := getPlcInfo hook w1 l1.micro800
    match inf with
    | .error e => (w2, l1, .error e)
    | .ok plc =>
      let l2 := { l1 with info := { plc := plc } }
      let l3 := { l2 with useInstanceIds := Drv.useInstanceIdsOf (revisionMajor l2.info) l2.micro800 }
      let (w3, l4, named) : Cli.World σ × LDrv × Except Exn Unit :=
        if l3.micro800 then (w2, l3, .ok ()) else
        match getPlcName hook w2 with
        | (w', .error e) => (w', l3, .error e)
        | (w', .ok n) => (w', { l3 with info := { l3.info with name := some n } }, .ok ())
      match named with
      | .error e => (w3, l4, .error e)
      | .ok _ =>
        let w4 := if l4.micro800 then { w3 with drv := { w3.drv with cipPath := popPortSegment w3.drv.cipPath } } else w3
        if cfg.initTags then getTagList hook w4 l4 cfg.initProgramTags else (w4, l4, .ok ())

/-- logix_driver.py:162 `LogixDriver.open()` with the driver state made explicit: `ok b` = returned `b`;
    `rnd` = the 8 bytes `urandom` delivers to `CIPDriver.open` -/
def openLogixSt {σ} (hook : ObjHook σ) (cfg : Config) (w : Cli.World σ) (l : LDrv) (rnd : Bytes) : Cli.World σ × LDrv × Except Exn Bool :=
  let (w1, r) := Cli.openDrv hook w rnd
  match r with
  | .error e => (w1, l, .error e)
  | .ok false => (w1, l, .ok false)
  | .ok true =>
      let (w2, l2, r2) := initializeDriver hook cfg w1 l
      (w2, l2, r2.map fun _ => true)

/-- what the driver holds after a successful `open()` -/
structure OpenResult where
  ret : Bool                              -- the value `open()` returned (False: session refused, nothing uploaded)
  tags : Drv.TagDb
  metas : List (Name × TagMeta)
  micro800 : Bool
  useInstanceIds : Bool
  info : Info
  dataTypes : List Name

/-- `LogixDriver(path, init_tags, init_program_tags).open()` on a fresh driver -/
def openLogix {σ} (hook : ObjHook σ) (cfg : Config) (w : Cli.World σ) (rnd : Bytes) : Cli.World σ × Except Exn OpenResult :=
  let (w1, l, r) := openLogixSt hook cfg w {} rnd
  (w1, r.map fun b => { ret := b, tags := l.tags, metas := l.metas, micro800 := l.micro800, useInstanceIds := l.useInstanceIds,
                        info := l.info, dataTypes := l.dataTypes })

/-- the configuration `Drv.read` / `Drv.write` need, from the driver state `open()` left -/
def LDrv.cfg (l : LDrv) : Drv.Cfg := { tags := l.tags, micro800 := l.micro800, useInstanceIds := l.useInstanceIds }

end Pycomm.Lgx.Opn
