/-
  Model of the tag read / write paths of `LogixDriver` (pycomm3/logix_driver.py, packets/logix.py,
  packets/util.py): from the tag strings handed to `read(*tags)` / `write(*tags_values)` to the returned
  `Tag`s, running in a `Cli.World` (driver state + transport + reference target) like `Cli.genericMessage`.

  Parts:
    1. the tag database the driver holds after `open()` (`self._tags`), computed from the controller project
       the way the upload delivers it (`tagDbOf`);
    2. `_parse_requested_tags` / `_parse_tag_request` / `_get_tag_info`;
    3. `_read_build_requests` / `_write_build_requests` (sequence numbers are drawn at packet construction, in
       the order of the real constructors), `encode_value`, read-modify-write grouping;
    4. `_send_requests`, `send`, `_send_read_fragmented`, `_send_write_fragmented`, the response classes;
    5. result assembly of `read` / `write`.

  Every Python exception that would escape `read` / `write` is the `.error` outcome of the model functions.
  Strings are code-point lists; tag strings are assumed to be printable ASCII without quotes or backslashes
  (only then is `repr(str)` the text between single quotes).
-/
import PycommModel.Client
import PycommModel.Logix.Client
import PycommModel.Logix.Upload
namespace Pycomm.Lgx.Drv
open Pycomm.Tgt Pycomm.Path Pycomm.Reply

def nm (s : String) : Name := s.toList.map Char.toNat

/-! ## 1. The tag database -/

inductive TagKind where
  | atomic | struct
  deriving Repr, DecidableEq, Inhabited

/-- the non-recursive part of a `data_type` dict of a structure (logix_driver.py:753 `_parse_template_data`) -/
structure StructInfo where
  name : Name                  -- data_type["name"]
  attributes : List Name       -- data_type["attributes"]: the visible members, in template order
  size : Nat                   -- data_type["template"]["structure_size"]
  handle : Nat                 -- data_type["template"]["structure_handle"]
  string : Option Nat          -- data_type.get("string"): capacity when recognised as a string type
  deriving Repr, DecidableEq, Inhabited

/-- the non-recursive part of a tag definition (logix_driver.py:638 `_create_tag`) or of an internal tag
    (logix_driver.py:842 `_parse_template_data_member_info`): exactly what the read / write paths consult -/
structure TagCore where
  tagType : TagKind                    -- "tag_type"
  dataTypeName : Name                  -- "data_type_name" (for atomic tags also "data_type")
  ty : Ty                              -- "type_class", with the array wrapping
  dim : Nat := 0                       -- top-level tags only
  dimensions : List Nat := []          -- top-level tags only
  instanceId : Option Nat := none      -- top-level tags only (`tag_info.get("instance_id")`)
  offset : Option Nat := none          -- internal tags only
  bit : Option Nat := none             -- internal BOOL tags
  array : Option Nat := none           -- internal non-BOOL tags
  struct : Option StructInfo := none   -- structures: the `data_type` dict

mutual
inductive TagInfo where
  | mk (core : TagCore) (members : ITags)     -- members = data_type["internal_tags"] (nil for atomic tags)
inductive ITags where
  | nil
  | cons (name : Name) (info : TagInfo) (rest : ITags)
end

def TagInfo.core : TagInfo → TagCore
  | .mk c _ => c

def TagInfo.members : TagInfo → ITags
  | .mk _ ms => ms

/-- `internal_tags[name]` (a dict: the last binding of a repeated key wins) -/
def ITags.get? : ITags → Name → Option TagInfo
  | .nil, _ => none
  | .cons n i rest, k =>
      match rest.get? k with
      | some j => some j
      | none => if n = k then some i else none

def ITags.ofList : List (Name × TagInfo) → ITags
  | [] => .nil
  | (n, i) :: rest => .cons n i (ITags.ofList rest)

def ITags.toList : ITags → List (Name × TagInfo)
  | .nil => []
  | .cons n i rest => (n, i) :: rest.toList

/-- `self._tags`: tag name → definition, in upload order -/
abbrev TagDb := List (Name × TagInfo)

def TagDb.get? (db : TagDb) (k : Name) : Option TagInfo :=
  match db with
  | [] => none
  | (n, i) :: rest =>
      match TagDb.get? rest k with
      | some j => some j
      | none => if n = k then some i else none

/-- `{tag["tag_name"]: tag for tag in tags}`: first position, last value -/
def TagDb.ofList (xs : List (Name × TagInfo)) : TagDb :=
  xs.foldl (fun db x => if db.any (·.1 == x.1) then db.map (fun y => if y.1 == x.1 then x else y) else db ++ [x]) []

/-- `DataTypes.get(code)`: class name of an elementary type code (`_return_caps_only_`) -/
def typeNameOfCode (code : Nat) : Option Name :=
  (Gen.dataTypes.find? (fun e => e.2.2.1 == code)).map (·.2.1)

/-- `DataTypes.get(name)` / `DataTypes[name]`: (class name, code, size), case-insensitive -/
def typeEntryOfName (n : Name) : Option (Name × Nat × Nat) :=
  (Gen.dataTypes.find? (fun e => e.1 == EMap.lower n)).map fun e => (e.2.1, e.2.2.1, e.2.2.2.1)

/-- the elementary types of the model: (class name, codec type) of a type code -/
def atomicOfCode (code : Nat) : Option (Name × Ty) :=
  match typeNameOfCode code, Cl.atomicTy code with
  | some n, some t => some (n, t)
  | _, _ => none

def wrapArray (n : Nat) (t : Ty) : Ty := if n ≠ 0 then .arr (.fixed n) t else t

def tmembersOfList : List (Name × Ty × Nat) → TMembers
  | [] => .nil
  | (n, t, o) :: rest => .cons n t o (tmembersOfList rest)

/-- logix_driver.py:842 `_parse_template_data_member_info` + the per-member part of `_parse_template_data` (:800-819).
    `dt tid` = `_get_data_type(tid, …)` -/
def memberInfo (dt : Nat → Option (StructInfo × Ty × ITags)) (m : Up.PMember) : Option TagInfo :=
  match Up.atomicOfTyp m.typ with
  | some code =>
      match atomicOfCode code with
      | none => none                     -- an elementary type outside the model
      | some (name, t) =>
          if code = 0xC1 then
            some (.mk { tagType := .atomic, dataTypeName := name, ty := t, offset := some m.offset, bit := some m.info } .nil)
          else
            some (.mk { tagType := .atomic, dataTypeName := name, ty := wrapArray m.info t, offset := some m.offset,
                        array := some m.info } .nil)
  | none =>
      -- a code DataTypes knows but the model does not would be an elementary member in the real driver
      if (typeNameOfCode m.typ).isSome ∨ (typeNameOfCode (m.typ % 4096)).isSome then none else
      match dt (m.typ % 4096) with
      | none => none
      | some (si, t, ms) =>
          some (.mk { tagType := .struct, dataTypeName := si.name, ty := wrapArray m.info t, offset := some m.offset,
                      array := some m.info, struct := some si } ms)

/-- logix_driver.py:821-836: the `type_class` of a structure, `FixedSizeString(structure_size - 4)` or `StructTag(…)` -/
def structTy (size : Nat) (isString : Bool) (ms : List (Up.PMember × TagInfo)) : Ty :=
  if isString then .fixedStr (size - 4) .udint else
  let plain := ms.filter fun x => x.2.core.bit.isNone
  let bits := ms.filter fun x => x.2.core.bit.isSome
  .structTag (tmembersOfList (plain.map fun x => (x.1.name, x.2.core.ty, x.1.offset)))
    (bits.map fun x => (x.1.name, x.1.offset, x.2.core.bit.getD 0))
    ((ms.filter (·.1.priv)).map (·.1.name)) size

/-- the bytes `_read_template` (logix_driver.py:717) collects: the definition, zero-padded to `object_definition_size * 4 - 23` -/
def templateData (t : Template) : Bytes :=
  t.defBytes ++ List.replicate (t.defWords * 4 - 23 - t.defBytes.length) 0

/-- logix_driver.py:877 `_get_data_type(instance_id, symbol_type)`: (data_type dict, type_class, internal_tags).
    `none` = the upload fails or leaves the model (unnamed template, unknown elementary code). -/
def dataTypeOf (p : Project) : Nat → Nat → Option (StructInfo × Ty × ITags)
  | 0, _ => none
  | fuel + 1, tid =>
      match p.template? tid with
      | none => none
      | some t =>
          match Up.parseTemplate t.members.length tid (templateData t) with
          | .error _ => none
          | .ok pt =>
              match pt.name, pt.members.mapM (fun m => (memberInfo (dataTypeOf p fuel) m).map fun i => (m, i)) with
              | some name, some ms =>
                  let si : StructInfo := { name := name, attributes := pt.attributes, size := t.size, handle := t.handle,
                                           string := pt.string }
                  some (si, structTy t.size pt.string.isSome ms, ITags.ofList (ms.map fun x => (x.1.name, x.2)))
              | _, _ => none

/-- logix_driver.py:638 `_create_tag(name, raw_tag)` -/
def createTag (p : Project) (s : Symbol) : Option TagInfo :=
  let w := K.decodeTypeWord s.symbolType
  let dims := (s.dims ++ [0, 0, 0]).take 3
  let total := (dims.take w.dims).foldl (· * ·) 1
  let wrap (t : Ty) : Ty := if w.dims ≠ 0 then .arr (.fixed total) t else t
  if w.isStruct then
    match dataTypeOf p (p.templates.length + 1) w.templateId with
    | none => none
    | some (si, t, ms) =>
        some (.mk { tagType := .struct, dataTypeName := si.name, ty := wrap t, dim := w.dims, dimensions := dims,
                    instanceId := some s.inst, struct := some si } ms)
  else
    match atomicOfCode w.atomicCode with
    | none => none
    | some (name, t) =>
        some (.mk { tagType := .atomic, dataTypeName := name, ty := wrap t, dim := w.dims, dimensions := dims,
                    instanceId := some s.inst } .nil)

/-- logix_driver.py:562 `_isolate_user_tags(all_tags, program)` -/
def userTags (p : Project) (pfx : Name) (syms : List Symbol) : Option (List (Name × TagInfo)) :=
  (syms.filter fun s => K.keepSymbol s.name s.symbolType).mapM fun s => (createTag p s).map fun i => (pfx ++ s.name, i)

/-- keys of `self._info["programs"]` (logix_driver.py:570-576), in upload order -/
def programNames (p : Project) : List Name :=
  ((p.controller.filter fun s => PyStr.startsWith (nm "Program:") s.name).map fun s => s.name.drop 8).eraseDups

/-- `self._tags` after `open()`: logix_driver.py:388 `get_tag_list(program="*" if init_program_tags else None)` -/
def tagDbOf (p : Project) (programTags : Bool) : Option TagDb :=
  match userTags p [] p.controller with
  | none => none
  | some ctl =>
      if !programTags then some (TagDb.ofList ctl) else
      match (programNames p).mapM (fun pn =>
          match p.programs.find? (·.1 == nm "Program:" ++ pn) with
          | none => none
          | some pr => userTags p (nm "Program:" ++ pn ++ [46]) pr.2) with
      | none => none
      | some progs => some (TagDb.ofList (ctl ++ progs.flatten))

/-- what `open()` leaves in the driver besides the `CIPDriver` state -/
structure Cfg where
  tags : TagDb
  micro800 : Bool := false
  useInstanceIds : Bool := true

/-- logix_driver.py:176 `_initialize_driver`: `use_instance_ids = revision_major >= MIN_VER_INSTANCE_IDS and not micro800` -/
def useInstanceIdsOf (rev : Nat) (micro800 : Bool) : Bool := decide (rev ≥ Gen.MIN_VER_INSTANCE_IDS) && !micro800

/-! ## 2. Parsing the requested tags -/

/-- what a `Tag.error` can be -/
inductive TagErr where
  | text (s : Name)              -- a message of the driver itself, verbatim
  | reply (e : Err)              -- `response.error`
  | invalid (exn : String)       -- "Invalid tag request - {err!r}": the class of the swallowed exception
  deriving Repr, DecidableEq, Inhabited

/-- `repr(s)` for a printable ASCII str without quotes or backslashes -/
def pyRepr (s : Name) : Name := [39] ++ s ++ [39]

/-- `repr(list of str)` -/
def pyReprList (xs : List Name) : Name :=
  [91] ++ (match xs.map pyRepr with
           | [] => []
           | x :: rest => rest.foldl (fun acc y => acc ++ [44, 32] ++ y) x) ++ [93]

/-- `".".join(xs)` -/
def joinDot : List Name → Name
  | [] => []
  | x :: rest => rest.foldl (fun acc y => acc ++ [46] ++ y) x

/-- `str(i)` -/
def pyStrInt (i : Int) : Name := (toString i).toList.map Char.toNat

/-- util.py:32 `strip_array` -/
def stripArray (t : Name) : Name :=
  match PyStr.find 91 t with
  | some i => t.take i
  | none => t

/-- util.py:44 `get_array_index`: `none` = ValueError from `int()` -/
def getArrayIndex (tag : Name) : Option (Name × Option Int) :=
  if tag.getLast? == some 93 && tag.contains 91 then
    match PyStr.rsplit1 91 tag with
    | [t, tmp] =>
        match PyStr.pyInt (tmp.take (tmp.length - 1)) with
        | some i => some (t, some i)
        | none => none
    | _ => none
  else some (tag, none)

/-- outcomes of `_recurse_attrs` -/
inductive Lookup where
  | found (i : TagInfo)
  | missing                 -- returned None
  | keyError (k : Name)
  | typeError               -- `"DINT"["internal_tags"]`

/-- logix_driver.py:1249 `_get_tag_info._recurse_attrs(attrs, data)`; `data` = an `internal_tags` dict -/
def recurseAttrs : List Name → ITags → Lookup
  | [], _ => .typeError      -- (`cur, *remain = []` raises ValueError; never called with [])
  | [cur], data =>
      match data.get? (stripArray cur) with
      | some i => .found i
      | none => .keyError (stripArray cur)
  | cur :: r :: remain, data =>
      match data.get? (stripArray cur) with
      | none => .missing
      | some i =>
          match i.core.tagType with
          | .struct => recurseAttrs (r :: remain) i.members
          | .atomic => .typeError

def tagDoesntExist (k : Name) : TagErr := .text (nm "Tag doesn't exist - " ++ k)

def failedTagData (base : Name) (attrs : List Name) : TagErr :=
  .text (nm "failed to get tag data for: " ++ base ++ nm ", " ++ pyReprList attrs)

/-- `str(RequestError("Failed to parse tag request", tag))` -/
def failedParse (tag : Name) : TagErr := .text (nm "('Failed to parse tag request', " ++ pyRepr tag ++ nm ")")

/-- logix_driver.py:1248 `_get_tag_info(base, attrs)`: `ok none` = returned None; error = `str(RequestError)` -/
def getTagInfo (db : TagDb) (base : Name) (attrs : List Name) : Except TagErr (Option TagInfo) :=
  match db.get? (stripArray base) with
  | none => .error (tagDoesntExist (stripArray base))
  | some data =>
      if attrs.isEmpty then .ok (some data) else
      let r := match data.core.tagType with
        | .struct => recurseAttrs attrs data.members
        | .atomic => .typeError
      match r with
      | .found i => .ok (some i)
      | .missing => .ok none
      | .keyError k => .error (tagDoesntExist k)
      | .typeError => .error (failedTagData base attrs)

/-- one entry of the `parsed_requests` dict (the fields after `userTag` exist only without `error`) -/
structure Parsed where
  requestId : Nat
  requestTag : Name                    -- the tag as given by the caller
  error : Option TagErr := none
  userTag : Name := []                 -- without the element count
  plcTag : Name := []                  -- the tag the request addresses
  bit : Option Int := none
  elements : Int := 1
  info : Option TagInfo := none
  boolElements : Option Int := none
  value : PyVal := .none               -- writes: the caller's value

def isDword (i : TagInfo) : Bool := i.core.tagType == .atomic && i.core.dataTypeName == nm "DWORD"

/-- logix_driver.py:1298-1304, the element-count suffix: (tag, elements, implicit_element) -/
def splitElements (tag : Name) : Except TagErr (Name × Int × Bool) :=
  if tag.getLast? == some 125 && tag.contains 123 then
    match PyStr.split 123 tag with
    | [t, tmp] =>
        match PyStr.pyInt (tmp.take (tmp.length - 1)) with
        | some n => .ok (t, n, false)
        | none => .error (failedParse t)
    | _ => .error (failedParse tag)
  else .ok (tag, 1, true)

/-- `name, _, index = part.partition("[")` and the three tests of the index validation in `_parse_tag_request`:
    a part that mentions a bracket must be `name[i,j,…]` with decimal indexes -/
def indexPartOk (part : Name) : Bool :=
  if !(part.contains 91 || part.contains 93) then true else
  let name := part.takeWhile (· != 91)
  let index := (part.dropWhile (· != 91)).drop 1
  !name.isEmpty && index.getLast? == some 93 &&
    (PyStr.split 44 (index.take (index.length - 1))).all (fun i => PyStr.isDigit (PyStr.strip i))

/-- the integer types a bit number may address, with their width in bits -/
def intBits (dataTypeName : Name) : Option Nat :=
  if [nm "SINT", nm "INT", nm "DINT", nm "LINT", nm "USINT", nm "UINT", nm "UDINT", nm "ULINT"].contains dataTypeName then
    (typeEntryOfName dataTypeName).map (fun e => e.2.2 * 8)
  else none

/-- logix_driver.py:1293 `_parse_tag_request(tag, rw)` -/
def parseTagRequest (db : TagDb) (write : Bool) (rid : Nat) (tag0 : Name) : Parsed :=
  let fail (e : TagErr) : Parsed := { requestId := rid, requestTag := tag0, error := some e }
  match splitElements tag0 with
  | .error e => fail e
  | .ok (tag, elements, implicit) =>
    if !(0 ≤ elements ∧ elements ≤ 65535) then fail (.text (nm "Element count out of range: " ++ pyStrInt elements)) else
    match (PyStr.split 46 tag).find? (fun part => !indexPartOk part) with
    | some part => fail (.text (nm "Invalid array index: " ++ part))
    | none =>
    match PyStr.split 46 tag with
    | [] => fail (failedParse tag)
    | base0 :: attrs0 =>
      -- `base = f"{base}.{attrs.pop(0)}"` for program-scoped tags
      let scopedBase : Option (Name × List Name) :=
        if PyStr.startsWith (nm "Program:") base0 then
          match attrs0 with
          | a :: rest => some (base0 ++ [46] ++ a, rest)
          | [] => none                       -- IndexError: pop from empty list
        else some (base0, attrs0)
      match scopedBase with
      | none => fail (failedParse tag)
      | some (base, attrs1) =>
        -- a trailing all-digit attribute is a bit number
        let (bit, attrs, tag1) : Option Int × List Name × Name :=
          match attrs1.getLast? with
          | some l =>
              if PyStr.isDigit l then
                let as := attrs1.dropLast
                (some (PyStr.decVal l : Int), as, if as.isEmpty then base else base ++ [46] ++ joinDot as)
              else (none, attrs1, tag)
          | none => (none, attrs1, tag)
        match getTagInfo db base attrs with
        | .error e => fail e
        | .ok none => fail (failedParse tag1)        -- `None["data_type"]`
        | .ok (some info) =>
          -- a bit number addresses one bit of an integer
          let bitBad : Bool := match bit with
            | none => false
            | some b => info.core.tagType != .atomic ||
                (match intBits info.core.dataTypeName with | some w => decide ((w : Int) ≤ b) | none => true)
          if bitBad then
            fail (.text (nm "Invalid bit number for a " ++ info.core.dataTypeName ++ nm ": " ++ pyStrInt (bit.getD 0)))
          else
          if isDword info then
            match getArrayIndex tag1 with
            | none => fail (failedParse tag1)
            | some (t, idx) =>
                let plc := match idx with
                  | some i => if write then t ++ [91] ++ pyStrInt (i / 32) ++ [93] else t ++ nm "[0]"
                  | none => tag1
                let total : Int := idx.getD 0 + elements
                let words : Int := total / 32 + (if total % 32 ≠ 0 then 1 else 0)
                -- the number of 32-bit words must fit the request's count field
                if words > 65535 then fail (.text (nm "Array index out of range: " ++ pyStrInt (idx.getD 0))) else
                { requestId := rid, requestTag := tag0, userTag := tag, plcTag := plc, bit := idx,
                  elements := words, info := some info,
                  boolElements := if implicit || elements == 1 then none else some elements }
          else
            { requestId := rid, requestTag := tag0, userTag := tag, plcTag := tag1, bit := bit, elements := elements,
              info := some info, boolElements := none }

/-- logix_driver.py:1275 `_parse_requested_tags(tags, rw)` -/
def parseRequestedTags (db : TagDb) (write : Bool) (tags : List Name) : List Parsed :=
  (List.range tags.length).zip tags |>.map fun x => parseTagRequest db write x.1 x.2

/-! ## 3. Building the requests -/

structure ReadReq where
  seq : Nat
  tag : Name
  elements : Nat
  info : TagInfo
  rid : Nat
  path : Bytes

structure WriteReq where
  seq : Nat
  tag : Name
  elements : Nat
  info : TagInfo
  rid : Nat
  path : Bytes
  typeBytes : Bytes         -- `_packed_data_type`
  value : Bytes

structure RmwReq where
  seq : Nat
  tag : Name
  info : TagInfo
  rid : Int                 -- negative
  path : Bytes
  maskSize : Nat
  masks : K.Masks := K.initMasks
  requestIds : List Nat := []

inductive Request where
  | read (r : ReadReq)
  | readFrag (r : ReadReq)
  | write (r : WriteReq)
  | writeFrag (r : WriteReq)
  | rmw (r : RmwReq)
  | multiRead (seq : Nat) (rs : List ReadReq)
  | multiWrite (seq : Nat) (rs : List WriteReq)

/-- `UINT.encode(self.elements)` in `tag_only_message` (packets/logix.py:71, :253) -/
def elementsNat (e : Int) : Except Exn Nat := if 0 ≤ e ∧ e ≤ 65535 then .ok e.toNat else .error .data

/-- packets/util.py:94 `tag_request_path(tag, tag_info, use_instance_ids)`; a `None` path would fail in `b"".join` -/
def requestPathOf (cfg : Cfg) (tag : Name) (info : TagInfo) : Except Exn Bytes :=
  match tagRequestPath tag info.core.instanceId cfg.useInstanceIds with
  | .error e => .error e
  | .ok none => .error (.foreign "TypeError")
  | .ok (some p) => .ok p

/-- packets/logix.py:99 `ReadTagRequestPacket(self._sequence, …)` + `build_message()` (logix_driver.py:979-987): one sequence number is drawn -/
def mkReadReq (cfg : Cfg) (d : Cli.Drv) (p : Parsed) (info : TagInfo) : Cli.Drv × Except Exn ReadReq :=
  let (seq, d1) := d.nextSeq
  match requestPathOf cfg p.plcTag info, elementsNat p.elements with
  | .error e, _ => (d1, .error e)
  | _, .error e => (d1, .error e)
  | .ok path, .ok n => (d1, .ok { seq := seq, tag := p.plcTag, elements := n, info := info, rid := p.requestId, path := path })

/-- `len(request.message)` of a built read request (sequence count included) -/
def ReadReq.messageLen (r : ReadReq) : Nat := 2 + (Cl.readMsg r.path r.elements).length

/-- logix_driver.py:1515 `_tag_return_size(tag_data)` -/
def tagReturnSize (info : TagInfo) (elements : Nat) : Nat :=
  (match info.core.struct with
   | some si => si.size
   | none => ((typeEntryOfName info.core.dataTypeName).map (·.2.2)).getD 0) * elements

def ReadReq.returnSize (r : ReadReq) : Nat := tagReturnSize r.info r.elements + r.messageLen + 2

/-- packets/logix.py:180 `ReadTagFragmentedRequestPacket.from_request(self._sequence, request)`: draws a fresh sequence number -/
def ReadReq.refresh (d : Cli.Drv) (r : ReadReq) : Cli.Drv × ReadReq :=
  let (seq, d1) := d.nextSeq
  (d1, { r with seq := seq })

/-- first loop of `_read_build_multi_requests` (logix_driver.py:972-997) / `_read_build_single_request` (:1018): (request, return size, fragmented) per live request -/
def readBuildLive (cfg : Cfg) (C : Nat) (multi : Bool) : Cli.Drv → List Parsed → Cli.Drv × Except Exn (List (ReadReq × Nat × Bool))
  | d, [] => (d, .ok [])
  | d, p :: rest =>
      match p.error, p.info with
      | none, some info =>
          let (d1, r) := mkReadReq cfg d p info
          match r with
          | .error e => (d1, .error e)
          | .ok req =>
              let size := req.returnSize
              let frag := if multi then decide (size + K.OVERHEAD > C) else decide (size > C)
              let (d2, req2) := if frag then req.refresh d1 else (d1, req)
              let (d3, more) := readBuildLive cfg C multi d2 rest
              (d3, more.map fun xs => (req2, size, frag) :: xs)
      | _, _ => readBuildLive cfg C multi d rest

/-- `MultiServiceRequestPacket(self._sequence, group)` for every group (logix_driver.py:1012, :1182): one sequence number each -/
def drawSeqs {α} : Cli.Drv → List α → Cli.Drv × List (Nat × α)
  | d, [] => (d, [])
  | d, x :: rest =>
      let (seq, d1) := d.nextSeq
      let (d2, more) := drawSeqs d1 rest
      (d2, (seq, x) :: more)

/-- logix_driver.py:957 `_read_build_requests(parsed_tags)` -/
def readBuildRequests (cfg : Cfg) (d : Cli.Drv) (ps : List Parsed) : Cli.Drv × Except Exn (List Request) :=
  let C := d.connectionSize
  if ps.length ≠ 1 ∧ !cfg.micro800 then
    -- _read_build_multi_requests
    let (d1, live) := readBuildLive cfg C true d ps
    match live with
    | .error e => (d1, .error e)
    | .ok items =>
        let plan := K.plan C (items.map fun x => { id := x.1.rid, error := false, size := x.2.1 })
        let groups := plan.groups.map fun g => g.filterMap fun id => (items.find? (·.1.rid == id)).map (·.1)
        let (d2, multis) := drawSeqs d1 groups
        (d2, .ok (multis.map (fun m => Request.multiRead m.1 m.2) ++
                  (items.filter (·.2.2)).map (fun x => Request.readFrag x.1)))
  else
    -- _read_build_single_request for every parsed tag
    let (d1, live) := readBuildLive cfg C false d ps
    (d1, live.map fun items => items.map fun x => if x.2.2 then Request.readFrag x.1 else Request.read x.1)

/-- python `xs[:n]` on a value that supports slicing -/
def pySliceVal (v : PyVal) (n : Int) : Option PyVal :=
  match v with
  | .list xs => some (.list (pySliceTo xs n))
  | .tuple xs => some (.tuple (pySliceTo xs n))
  | .str cs => some (.str (pySliceTo cs n))
  | .bytes bs => some (.bytes (pySliceTo bs n))
  | _ => none

/-- `isinstance(value, Sequence) and not isinstance(value, str)` -/
def isNonStrSequence : PyVal → Bool
  | .list _ | .tuple _ | .bytes _ => true
  | _ => false

/-- cip/data_types.py:804 `_type.encode(value, value_elements)` for `_type = Array(n, t)`: `_length = length or cls.length`;
    a negative length encodes like 0 (`range(_len)` is empty, the length test cannot fail) -/
def encodeArrayLen (n : Nat) (t : Ty) (v : PyVal) (len : Int) : R Bytes :=
  let l : Nat := if len = 0 then n else len.toNat
  encode (.arr (.fixed l) t) v

/-- logix_driver.py:1475 `encode_value(parsed_tag)`: the (possibly mutated) request and the bytes, `none` = RequestError -/
def encodeValue (p : Parsed) (info : TagInfo) : Parsed × Option Bytes :=
  match p.value with
  | .bytes b => (p, some b)
  | value =>
    let valueElements : Int := match p.boolElements with
      | some b => if b ≠ 0 then b else p.elements
      | none => p.elements
    let bit0 : Int := p.bit.getD 0
    let dword := info.core.dataTypeName == nm "DWORD"
    if dword ∧ bit0 % 32 ≠ 0 then (p, none) else
    let p := if dword then { p with elements := p.elements - bit0 / 32 } else p
    match info.core.ty with
    | .arr (.fixed n) t =>
        let value? : Option PyVal :=
          if valueElements > 1 then
            match value.len? with
            | none => none
            | some l =>
                if (l : Int) < valueElements then none
                else if (l : Int) > valueElements then pySliceVal value valueElements
                else some value
          else if !isNonStrSequence value then some (.list [value])
          else some value
        match value? with
        | none => (p, none)
        | some v =>
            match encodeArrayLen n t v valueElements with
            | .ok b => (p, some b)
            | .error _ => (p, none)
    | t =>
        match encode t value with
        | .ok b => (p, some b)
        | .error _ => (p, none)

def unableToWrite : Name := nm "RequestError('Unable to create a writable value')"

/-- packets/logix.py:233-243 `WriteTagRequestPacket._packed_data_type` -/
def packedTypeOf (info : TagInfo) : Bytes :=
  match info.core.struct with
  | some si => Cl.packedType (some si.handle) 0
  | none => Cl.packedType none (((typeEntryOfName info.core.dataTypeName).map (·.2.1)).getD 0)

/-- packets/logix.py:212 `WriteTagRequestPacket(self._sequence, …, write_value)` + `build_message()` (logix_driver.py:1149-1158) -/
def mkWriteReq (cfg : Cfg) (d : Cli.Drv) (p : Parsed) (info : TagInfo) (value : Bytes) : Cli.Drv × Except Exn WriteReq :=
  let (seq, d1) := d.nextSeq
  match requestPathOf cfg p.plcTag info, elementsNat p.elements with
  | .error e, _ => (d1, .error e)
  | _, .error e => (d1, .error e)
  | .ok path, .ok n =>
      (d1, .ok { seq := seq, tag := p.plcTag, elements := n, info := info, rid := p.requestId, path := path,
                 typeBytes := packedTypeOf info, value := value })

/-- `len(request.message)` of a built write request -/
def WriteReq.messageLen (r : WriteReq) : Nat := 2 + (Cl.writeMsg r.path r.typeBytes r.elements r.value).length

def WriteReq.refresh (d : Cli.Drv) (r : WriteReq) : Cli.Drv × WriteReq :=
  let (seq, d1) := d.nextSeq
  (d1, { r with seq := seq })

/-- packets/logix.py:339 `ReadModifyWriteRequestPacket(self._sequence, tag, tag_info, request_id, use_instance_id)`:
    `DataTypes.get(data_type_name).size` is an AttributeError for a structure -/
def mkRmwReq (cfg : Cfg) (d : Cli.Drv) (p : Parsed) (info : TagInfo) (rid : Int) : Cli.Drv × Except Exn RmwReq :=
  let (seq, d1) := d.nextSeq
  match requestPathOf cfg p.plcTag info with
  | .error e => (d1, .error e)
  | .ok path =>
      match typeEntryOfName info.core.dataTypeName with
      | none => (d1, .error (.foreign "AttributeError"))
      | some (_, _, size) => (d1, .ok { seq := seq, tag := p.plcTag, info := info, rid := rid, path := path, maskSize := size })

/-- packets/logix.py:368 `request.set_bit(bit, value, request_id)` -/
def RmwReq.setBit (r : RmwReq) (bit : Int) (value : PyVal) (rid : Nat) : RmwReq :=
  let b : Nat := if r.info.core.dataTypeName == nm "DWORD" then (bit % 32).toNat else bit.toNat
  { r with masks := K.setBit r.masks b value.truthy, requestIds := r.requestIds ++ [rid] }

/-- a bit write: `bit is not None and bool_elements is None` -/
def Parsed.isBitWrite (p : Parsed) : Bool := p.bit.isSome && p.boolElements.isNone

structure WriteBuild where
  parsed : List Parsed := []                      -- with errors / mutated element counts
  writes : List (WriteReq × Bool) := []           -- (request, fragmented) in order
  rmws : List RmwReq := []                        -- `bit_writes.values()`

def replaceParsed (ps : List Parsed) (p : Parsed) : List Parsed :=
  ps.map fun q => if q.requestId == p.requestId then p else q

/-- first loop of `_write_build_multi_requests` (logix_driver.py:1121-1166) -/
def writeBuildLive (cfg : Cfg) (C : Nat) : Cli.Drv → WriteBuild → List Parsed → Cli.Drv × Except Exn WriteBuild
  | d, acc, [] => (d, .ok acc)
  | d, acc, p :: rest =>
      match p.error, p.info with
      | none, some info =>
          if p.isBitWrite then
            match acc.rmws.find? (·.tag == p.plcTag) with
            | some r =>
                let r' := r.setBit (p.bit.getD 0) p.value p.requestId
                writeBuildLive cfg C d { acc with rmws := acc.rmws.map fun x => if x.tag == p.plcTag then r' else x } rest
            | none =>
                let (d1, r) := mkRmwReq cfg d p info (-(1 + (acc.rmws.length : Int)))
                match r with
                | .error e => (d1, .error e)
                | .ok r => writeBuildLive cfg C d1 { acc with rmws := acc.rmws ++ [r.setBit (p.bit.getD 0) p.value p.requestId] } rest
          else
            let (p1, enc) := encodeValue p info
            match enc with
            | none =>
                let p2 := { p1 with error := some (.text (nm "Error encoding value - " ++ unableToWrite)) }
                writeBuildLive cfg C d { acc with parsed := replaceParsed acc.parsed p2 } rest
            | some value =>
                let acc := { acc with parsed := replaceParsed acc.parsed p1 }
                let (d1, r) := mkWriteReq cfg d p1 info value
                match r with
                | .error e => (d1, .error e)
                | .ok req =>
                    let frag := decide (req.messageLen + K.OVERHEAD > C)
                    let (d2, req2) := if frag then req.refresh d1 else (d1, req)
                    writeBuildLive cfg C d2 { acc with writes := acc.writes ++ [(req2, frag)] } rest
      | _, _ => writeBuildLive cfg C d acc rest

/-- logix_driver.py:1193 `_write_build_single_request` for every parsed tag (a single tag, or a Micro800) -/
def writeBuildSingles (cfg : Cfg) (C : Nat) : Cli.Drv → List Parsed → List Parsed → Cli.Drv × Except Exn (List Parsed × List Request)
  | d, acc, [] => (d, .ok (acc, []))
  | d, acc, p :: rest =>
      match p.error, p.info with
      | none, some info =>
          if p.isBitWrite then
            let (d1, r) := mkRmwReq cfg d p info (-(1 + (p.requestId : Int)))
            match r with
            | .error e => (d1, .error e)
            | .ok r =>
                let (d2, more) := writeBuildSingles cfg C d1 acc rest
                (d2, more.map fun x => (x.1, Request.rmw (r.setBit (p.bit.getD 0) p.value p.requestId) :: x.2))
          else
            let (p1, enc) := encodeValue p info
            match enc with
            | none =>
                let p2 := { p1 with error := some (.text (nm "Invalid Tag Request - " ++ unableToWrite)) }
                writeBuildSingles cfg C d (replaceParsed acc p2) rest
            | some value =>
                let (d1, r) := mkWriteReq cfg d p1 info value
                match r with
                | .error e => (d1, .error e)
                | .ok req =>
                    -- `req_size = len(write_value) + len(request.message)`: the value is counted twice
                    let frag := decide (value.length + req.messageLen > C)
                    let (d2, req2) := if frag then req.refresh d1 else (d1, req)
                    let (d3, more) := writeBuildSingles cfg C d2 (replaceParsed acc p1) rest
                    (d3, more.map fun x => (x.1, (if frag then Request.writeFrag req2 else Request.write req2) :: x.2))
      | _, _ => writeBuildSingles cfg C d acc rest

/-- logix_driver.py:1108 `_write_build_requests(parsed_tags)`: the parsed requests (errors and element counts updated) and the packets -/
def writeBuildRequests (cfg : Cfg) (d : Cli.Drv) (ps : List Parsed) : Cli.Drv × Except Exn (List Parsed × List Request) :=
  let C := d.connectionSize
  if ps.length ≠ 1 ∧ !cfg.micro800 then
    let (d1, b) := writeBuildLive cfg C d { parsed := ps } ps
    match b with
    | .error e => (d1, .error e)
    | .ok b =>
        let grouped := (b.writes.filter (!·.2)).map (·.1)
        let plan := K.plan C (grouped.map fun r => { id := r.rid, error := false, size := r.messageLen })
        let groups := plan.groups.map fun g => g.filterMap fun id => grouped.find? (·.rid == id)
        let (d2, multis) := drawSeqs d1 groups
        (d2, .ok (b.parsed, multis.map (fun m => Request.multiWrite m.1 m.2) ++
                  (b.writes.filter (·.2)).map (fun x => Request.writeFrag x.1) ++ b.rmws.map Request.rmw))
  else writeBuildSingles cfg C d ps ps

/-! ## 4. Sending -/

/-- a `Tag` as returned by `read` / `write` -/
structure LTag where
  tag : Name
  value : PyVal
  type : Option Name
  error : Option TagErr

/-- tag.py:38 `Tag.__bool__` -/
def LTag.truthy (t : LTag) : Bool := (match t.value with | .none => false | _ => true) && t.error.isNone

/-- the response classes over a connected reply (packets/ethernetip.py:55 SendUnitDataResponsePacket): parsed fields and `is_valid()` -/
structure Resp where
  raw : Option Bytes
  p : Reply.Parsed := {}
  valid : Bool := false

def tagResp (raw : Option Bytes) : Resp :=
  let p := parseCip raw .connected
  { raw := raw, p := p, valid := validCip .connected p }

/-- packets/base.py:66 `response.error` -/
def Resp.error (r : Resp) : Except Exn (Option TagErr) :=
  (errorCip r.raw .connected r.p r.valid).map fun e => e.map TagErr.reply

/-- a failed response built by the driver: `response_class(request, None)` with `_error` replaced -/
def failedResp (msg : String) : Resp := { raw := none, p := { err := some (.text (nm msg)) }, valid := false }

/-- python `xs[i]` -/
def pyIndex {α} (xs : List α) (i : Int) : Option α :=
  let j : Int := if i < 0 then i + xs.length else i
  if 0 ≤ j ∧ j < xs.length then xs[j.toNat]? else none

/-- python `xs[a:b]` -/
def pySlice {α} (xs : List α) (a b : Int) : List α :=
  let norm (i : Int) : Nat := if i < 0 then (i + xs.length).toNat else min i.toNat xs.length
  (xs.take (norm b)).drop (norm a)

def renderDec (n : Int) : Name := pyStrInt n

/-- packets/util.py:176 `parse_read_reply(data, tag_info, elements)`: (value, data type string) -/
def parseReadReply (data : Bytes) (info : TagInfo) (elements : Nat) : Except Exn (PyVal × Name) :=
  let isStruct := data.take 2 == [0xA0, 0x02]
  let stream := (Cl.splitTyped data).2
  let value : Except Exn PyVal :=
    match info.core.ty with
    | .arr (.fixed n) t =>
        -- `_type.decode(stream, length=elements)`: `_length = length or cls.length`
        if elements = 0 then (decode (.arr (.fixed n) t) stream).map (·.1)
        else Cl.parseReadReply data t true elements
    | t =>
        match decode t stream with
        | .error e => .error e
        | .ok (v, _) =>
            match isStruct, t, v with
            | true, .fixedStr _ _, _ => .ok v
            | true, _, .dict kvs =>
                -- `{attr: _value[attr] for attr in data_type["data_type"]["attributes"]}`
                match ((info.core.struct.map (·.attributes)).getD []).mapM (fun a => (dictGet kvs a).map fun x => (a, x)) with
                | some kvs' => .ok (.dict kvs')
                | none => .error (.foreign "KeyError")
            | true, _, _ => .error (.foreign "TypeError")
            | false, _, _ => .ok v
  match value with
  | .error e => .error e
  | .ok v =>
      let dt := info.core.dataTypeName
      let dt := if dt == nm "DWORD" then nm "BOOL[" ++ renderDec (elements * 32 : Nat) ++ [93]
                else if elements > 1 then dt ++ [91] ++ renderDec (elements : Nat) ++ [93] else dt
      .ok (v, dt)

/-- packets/logix.py:83 `ReadTagResponsePacket._parse_reply`: response, value, data type -/
def readResp (req : ReadReq) (raw : Option Bytes) : Resp × PyVal × Option Name :=
  let r := tagResp raw
  if r.valid then
    match parseReadReply (r.p.data.getD []) req.info req.elements with
    | .ok (v, dt) => (r, v, some dt)
    | .error _ => ({ r with p := { r.p with err := some .parseFailed }, valid := false }, .none, none)
  else (r, .none, none)

/-- the dict `results` of `_send_requests` -/
abbrev Results := List (Int × LTag)

def Results.set (rs : Results) (k : Int) (t : LTag) : Results :=
  if rs.any (·.1 == k) then rs.map (fun x => if x.1 == k then (k, t) else x) else rs ++ [(k, t)]

def Results.get? (rs : Results) (k : Int) : Option LTag := (rs.find? (·.1 == k)).map (·.2)

def Results.erase (rs : Results) (k : Int) : Results := rs.filter (·.1 != k)

/-- the `Tag` of a non-multi read request (logix_driver.py:1356-1365) -/
def readTag (req : ReadReq) (r : Resp) (v : PyVal) (dt : Option Name) : Except Exn LTag :=
  match r.error with
  | .error e => .error e
  | .ok err => .ok (if r.valid then { tag := req.tag, value := v, type := dt, error := err }
                    else { tag := req.tag, value := .none, type := none, error := err })

/-- the `Tag` of a non-multi write-type request (`request.value`, `request.data_type`; logix_driver.py:1356-1365) -/
def writeTag (tag : Name) (value : PyVal) (dataType : Name) (r : Resp) : Except Exn LTag :=
  match r.error with
  | .error e => .error e
  | .ok err => .ok (if r.valid then { tag := tag, value := value, type := some dataType, error := err }
                    else { tag := tag, value := .none, type := none, error := err })

/-- cip_driver.py:564 `CIPDriver.send` of a connected request -/
def sendUnit {σ} (hook : ObjHook σ) (w : Cli.World σ) (seq : Nat) (msg : Bytes) : Cli.World σ × Except Exn (Option Bytes) :=
  Cli.sendReq hook w (.sendUnit seq msg) false

/-- logix_driver.py:1387 `_send_read_fragmented(request)`: the loop; `seq` = sequence number of the request about to be sent,
    `acc` = value bytes so far, `allOk` = `all(responses)` so far -/
def readFragLoop {σ} (hook : ObjHook σ) (req : ReadReq) :
    Nat → Cli.World σ → (seq offset : Nat) → (acc : Bytes) → (allOk : Bool) → Cli.World σ × Except Exn (Resp × PyVal × Option Name)
  | 0, w, _, _, _, _ => (w, .error .hang)
  | fuel + 1, w, seq, offset, acc, allOk =>
      let (w1, r) := sendUnit hook w seq (Cl.readFragMsg req.path req.elements offset)
      match r with
      | .error e => (w1, .error e)
      | .ok raw =>
          let resp := tagResp raw
          match resp.p.data with
          | none =>
              -- `value_bytes` stays None: the loop ends (status is not 6), `all(responses)` is false;
              -- `if response.error:` (evaluated for the log line) may raise on a truncated extended status
              match resp.error with
              | .error e => (w1, .error e)
              | .ok _ => (w1, .ok (failedResp "One or more fragment responses failed", .none, none))
          | some d =>
              let (ty, vb) := Cl.splitTyped d
              if resp.p.serviceStatus == some Gen.INSUFFICIENT_PACKETS then
                let (seq', d') := w1.drv.nextSeq
                readFragLoop hook req fuel { w1 with drv := d' } seq' (offset + vb.length) (acc ++ vb) (allOk && resp.valid)
              else
                match resp.error with
                | .error e => (w1, .error e)
                | .ok _ =>
                  if allOk && resp.valid then
                    -- final_response.parse_value() over all value bytes
                    match parseReadReply (ty ++ acc ++ vb) req.info req.elements with
                    | .ok (v, dt) => (w1, .ok (resp, v, some dt))
                    | .error _ => (w1, .ok ({ resp with p := { resp.p with err := some .parseFailed }, valid := false }, .none, none))
                  else (w1, .ok (failedResp "One or more fragment responses failed", .none, none))

/-- logix_driver.py:1420 `_send_write_fragmented(request)`: every segment is sent; `all(responses)` and the last response -/
def writeFragSend {σ} (hook : ObjHook σ) (req : WriteReq) :
    Cli.World σ → List (Nat × Bytes) → (allOk : Bool) → (last : Option Resp) → Cli.World σ × Except Exn (Bool × Option Resp)
  | w, [], allOk, last => (w, .ok (allOk, last))
  | w, (off, seg) :: rest, allOk, _ =>
      let (seq, d1) := w.drv.nextSeq
      let (w1, r) := sendUnit hook { w with drv := d1 } seq (Cl.writeFragMsg req.path req.typeBytes req.elements off seg)
      match r with
      | .error e => (w1, .error e)
      | .ok raw =>
          let resp := tagResp raw
          writeFragSend hook req w1 rest (allOk && resp.valid) (some resp)

def sendWriteFragmented {σ} (hook : ObjHook σ) (w : Cli.World σ) (req : WriteReq) : Cli.World σ × Except Exn Resp :=
  -- `segment_size = connection_size - (len(request.message) - len(request.value))`
  let overhead := 2 + 1 + req.path.length + req.typeBytes.length + 2 + 4
  let C := w.drv.connectionSize
  if req.value.isEmpty then (w, .error (.foreign "IndexError"))            -- `responses[-1]` of an empty list
  else if C = overhead then (w, .error (.foreign "ValueError"))           -- `range(0, n, 0)`
  else if C < overhead then (w, .error (.foreign "IndexError"))           -- empty range, `responses[-1]`
  else
    let (w1, r) := writeFragSend hook req w (K.writeFragments (Cl.writeSegSize C req.path req.typeBytes) req.value) true none
    match r with
    | .error e => (w1, .error e)
    | .ok (allOk, last) =>
        match allOk, last with
        | true, some resp => (w1, .ok resp)
        | _, _ => (w1, .ok (failedResp "One or more fragment responses failed"))

/-- packets/logix.py:382 `ReadModifyWriteRequestPacket._setup_message`: `ULINT.encode(mask)` fails for a bit number ≥ 64 -/
def rmwMessage (r : RmwReq) : Except Exn Bytes :=
  if r.masks.orM ≥ 2 ^ 64 ∨ r.masks.andM ≥ 2 ^ 64 then .error .data
  else
    match packInt .uint (.int r.maskSize) with
    | .error e => .error e
    | .ok _ => .ok (Cl.rmwMsg r.path r.maskSize r.masks)

/-- packets/logix.py:403 `MultiServiceResponsePacket._parse_reply`: the embedded replies, each padded with 46 zero
    bytes; they are paired with the requests by `zip` (which truncates) -/
def embeddedReplies (data : Option Bytes) : List (Option Bytes) :=
  match data with
  | none => []
  | some d => if d.length < 2 then [] else (K.unpackMulti d).map fun b => some (List.replicate 46 0 ++ b)

def multiReadResults (rs : Results) : List (ReadReq × Option Bytes) → Except Exn Results
  | [] => .ok rs
  | (req, raw) :: rest =>
      let (r, v, dt) := readResp req raw
      if r.valid then multiReadResults (rs.set req.rid { tag := req.tag, value := v, type := dt, error := none }) rest
      else
        match r.error with
        | .error e => .error e
        | .ok err => multiReadResults (rs.set req.rid { tag := req.tag, value := .none, type := none, error := err }) rest

def multiWriteResults (rs : Results) : List (WriteReq × Option Bytes) → Except Exn Results
  | [] => .ok rs
  | (req, raw) :: rest =>
      let r := tagResp raw
      if r.valid then
        multiWriteResults (rs.set req.rid { tag := req.tag, value := .bytes req.value, type := some req.info.core.dataTypeName, error := none }) rest
      else
        match r.error with
        | .error e => .error e
        | .ok err => multiWriteResults (rs.set req.rid { tag := req.tag, value := .none, type := none, error := err }) rest

/-- logix_driver.py `_send_requests`, multi branch: `response.error if response.command_status != SUCCESS else None` —
    the embedded replies are parsed on their own (behind 46 zero bytes), so the encapsulation status of the packet that
    carried them is looked at here -/
def multiPacketError (outer : Resp) : Except Exn (Option TagErr) :=
  if outer.p.commandStatus = some 0 then .ok none
  -- no embedded replies = the multi-service parse itself failed: `response.error` is that recorded failure (nothing is
  -- raised) and there is no request it could be attached to
  else if (embeddedReplies outer.p.data).isEmpty then .ok (some (.reply .parseFailed))
  else outer.error

/-- every embedded reply that was paired with a request becomes a falsy Tag carrying the packet's error -/
def multiFailAll (rs : Results) (err : TagErr) : List (Int × Name) → Results
  | [] => rs
  | (rid, tag) :: rest => multiFailAll (rs.set rid { tag := tag, value := .none, type := none, error := some err }) err rest

/-- the read fragment loop cannot take more rounds than there are value bytes (+ slack) -/
def FRAG_FUEL : Nat := 70000

/-- one iteration of `_send_requests` (logix_driver.py:1345-1376) with `send` (:1379): `self.send(request)` and the entries it adds to `results` -/
def sendRequest {σ} (hook : ObjHook σ) (w : Cli.World σ) (rs : Results) : Request → Cli.World σ × Except Exn Results
  | .read req =>
      let (w1, r) := sendUnit hook w req.seq (Cl.readMsg req.path req.elements)
      match r with
      | .error e => (w1, .error e)
      | .ok raw =>
          let (resp, v, dt) := readResp req raw
          (w1, (readTag req resp v dt).map fun t => rs.set req.rid t)
  | .readFrag req =>
      let (w1, r) := readFragLoop hook req FRAG_FUEL w req.seq 0 [] true
      match r with
      | .error e => (w1, .error e)
      | .ok (resp, v, dt) => (w1, (readTag req resp v dt).map fun t => rs.set req.rid t)
  | .write req =>
      let (w1, r) := sendUnit hook w req.seq (Cl.writeMsg req.path req.typeBytes req.elements req.value)
      match r with
      | .error e => (w1, .error e)
      | .ok raw => (w1, (writeTag req.tag (.bytes req.value) req.info.core.dataTypeName (tagResp raw)).map fun t => rs.set req.rid t)
  | .writeFrag req =>
      let (w1, r) := sendWriteFragmented hook w req
      match r with
      | .error e => (w1, .error e)
      | .ok resp => (w1, (writeTag req.tag (.bytes req.value) req.info.core.dataTypeName resp).map fun t => rs.set req.rid t)
  | .rmw req =>
      match rmwMessage req with
      | .error e => (w, .error e)
      | .ok msg =>
          let (w1, r) := sendUnit hook w req.seq msg
          match r with
          | .error e => (w1, .error e)
          | .ok raw => (w1, (writeTag req.tag .none req.info.core.dataTypeName (tagResp raw)).map fun t => rs.set req.rid t)
  | .multiRead seq reqs =>
      let (w1, r) := sendUnit hook w seq (Cl.multiMsg (reqs.map fun q => Cl.readMsg q.path q.elements))
      match r with
      | .error e => (w1, .error e)
      | .ok raw =>
          match multiPacketError (tagResp raw) with
          | .error e => (w1, .error e)
          | .ok (some err) => (w1, .ok (multiFailAll rs err ((reqs.zip (embeddedReplies (tagResp raw).p.data)).map fun q => ((q.1.rid : Int), q.1.tag))))
          | .ok none => (w1, multiReadResults rs (reqs.zip (embeddedReplies (tagResp raw).p.data)))
  | .multiWrite seq reqs =>
      let (w1, r) := sendUnit hook w seq (Cl.multiMsg (reqs.map fun q => Cl.writeMsg q.path q.typeBytes q.elements q.value))
      match r with
      | .error e => (w1, .error e)
      | .ok raw =>
          match multiPacketError (tagResp raw) with
          | .error e => (w1, .error e)
          | .ok (some err) => (w1, .ok (multiFailAll rs err ((reqs.zip (embeddedReplies (tagResp raw).p.data)).map fun q => ((q.1.rid : Int), q.1.tag))))
          | .ok none => (w1, multiWriteResults rs (reqs.zip (embeddedReplies (tagResp raw).p.data)))

/-- logix_driver.py:1342 `_send_requests(requests)` -/
def sendRequests {σ} (hook : ObjHook σ) : Cli.World σ → Results → List Request → Cli.World σ × Except Exn Results
  | w, rs, [] => (w, .ok rs)
  | w, rs, q :: rest =>
      let (w1, r) := sendRequest hook w rs q
      match r with
      | .error e => (w1, .error e)
      | .ok rs1 => sendRequests hook w1 rs1 rest

/-! ## 5. `read` and `write` -/

/-- logix_driver.py:930 `bool(result.value & 1 << bit)`; `none` = TypeError -/
def bitOfValue (v : PyVal) (bit : Int) : Option Bool :=
  match v.asIndex with
  | some i => some ((i / (2 ^ bit.toNat : Nat)) % 2 == 1)
  | none => none

def invalidTag (tag : Name) (exn : String) : LTag := { tag := tag, value := .none, type := none, error := some (.invalid exn) }

/-- the body of the result loop of `read` for one request (logix_driver.py:914-950) -/
def readResult (p : Parsed) (rs : Results) : LTag :=
  match p.error with
  | some e => { tag := p.requestTag, value := .none, type := none, error := some e }
  | none =>
    match rs.get? p.requestId, p.info with
    | none, _ => invalidTag p.requestTag "KeyError"
    | _, none => invalidTag p.requestTag "KeyError"
    | some result, some info =>
        if result.truthy then
          if info.core.dataTypeName != nm "DWORD" then
            match p.bit with
            | some bit =>
                match bitOfValue result.value bit with
                | some b => { tag := p.userTag, value := .bool b, type := some (nm "BOOL"), error := result.error }
                | none => invalidTag p.requestTag "TypeError"
            | none => result
          else
            let bit : Int := p.bit.getD 0
            match result.value.seq? with
            | none => invalidTag p.requestTag "TypeError"
            | some xs =>
                match p.boolElements with
                | some n =>
                    { tag := p.userTag, value := .list (pySlice xs bit (bit + n)),
                      type := some (nm "BOOL[" ++ renderDec n ++ [93]), error := result.error }
                | none =>
                    match pyIndex xs bit with
                    | some v => { tag := p.userTag, value := v, type := some (nm "BOOL"), error := result.error }
                    | none => invalidTag p.requestTag "IndexError"
        else { tag := p.userTag, value := .none, type := none, error := result.error }

/-- logix_driver.py:896 `LogixDriver.read(*tags)`: the list of Tags (the real call returns the single Tag for one request) -/
def read {σ} (hook : ObjHook σ) (cfg : Cfg) (w : Cli.World σ) (tags : List Name) : Cli.World σ × Except Exn (List LTag) :=
  -- @with_forward_open
  let (w0, pre) := Cli.ensureForwardOpen hook Cli.FUEL w
  match pre with
  | .error e => (w0, .error e)
  | .ok _ =>
    let parsed := parseRequestedTags cfg.tags false tags
    let (d1, reqs) := readBuildRequests cfg w0.drv parsed
    let w1 := { w0 with drv := d1 }
    match reqs with
    | .error e => (w1, .error e)
    | .ok reqs =>
        let (w2, rs) := sendRequests hook w1 [] reqs
        match rs with
        | .error e => (w2, .error e)
        | .ok rs =>
            if tags.isEmpty then (w2, .error (.foreign "IndexError"))     -- `results[0]`
            else (w2, .ok (parsed.map fun p => readResult p rs))

/-- logix_driver.py:1070-1074: `write_results.pop(r.request_id)` and fan-out to the bit requests, for every RMW packet -/
def fanOutRmw : Results → List Request → Option Results
  | rs, [] => some rs
  | rs, .rmw r :: rest =>
      match rs.get? r.rid with
      | none => none
      | some result => fanOutRmw (r.requestIds.foldl (fun acc (id : Nat) => acc.set (id : Int) result) (rs.erase r.rid)) rest
  | rs, _ :: rest => fanOutRmw rs rest

/-- the body of the result loop of `write` for one request (logix_driver.py:1077-1101) -/
def writeResult (p : Parsed) (rs : Results) : LTag :=
  match p.error with
  | some e => { tag := p.requestTag, value := .none, type := none, error := some e }
  | none =>
    match rs.get? p.requestId, p.info with
    | none, _ => invalidTag p.requestTag "KeyError"
    | _, none => invalidTag p.requestTag "KeyError"
    | some result, some info =>
        let dt := info.core.dataTypeName
        let dt :=
          if p.bit.isSome && p.boolElements.isNone then nm "BOOL"
          else match p.boolElements with
            | some n => if n ≠ 0 then nm "BOOL[" ++ renderDec n ++ [93]
                        else if p.elements > 1 then dt ++ [91] ++ renderDec p.elements ++ [93] else dt
            | none => if p.elements > 1 then dt ++ [91] ++ renderDec p.elements ++ [93] else dt
        { tag := p.userTag, value := p.value, type := some dt, error := result.error }

/-- logix_driver.py:1044 `LogixDriver.write(*tags_values)` with (tag, value) pairs -/
def write {σ} (hook : ObjHook σ) (cfg : Cfg) (w : Cli.World σ) (tvs : List (Name × PyVal)) : Cli.World σ × Except Exn (List LTag) :=
  let (w0, pre) := Cli.ensureForwardOpen hook Cli.FUEL w
  match pre with
  | .error e => (w0, .error e)
  | .ok _ =>
    let parsed := (parseRequestedTags cfg.tags true (tvs.map (·.1))).zip (tvs.map (·.2)) |>.map fun x => { x.1 with value := x.2 }
    let (d1, built) := writeBuildRequests cfg w0.drv parsed
    let w1 := { w0 with drv := d1 }
    match built with
    | .error e => (w1, .error e)
    | .ok (parsed', reqs) =>
        let (w2, rs) := sendRequests hook w1 [] reqs
        match rs with
        | .error e => (w2, .error e)
        | .ok rs =>
            match fanOutRmw rs reqs with
            | none => (w2, .error (.foreign "KeyError"))
            | some rs' =>
                if tvs.isEmpty then (w2, .error (.foreign "IndexError"))
                else (w2, .ok (parsed'.map fun p => writeResult p rs'))

end Pycomm.Lgx.Drv
