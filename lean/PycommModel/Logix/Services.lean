/-
  The reference target, part 2: Logix objects and tag services (1756-PM020): symbol list upload with
  pagination, template attributes and fragmented template read, Read/Write Tag, their fragmented forms,
  Read-Modify-Write, and the Multiple Service Packet.
-/
import PycommModel.Logix.Project
namespace Pycomm.Lgx
open Pycomm.Tgt Pycomm.Path

structure LState where
  proj : Project
  rev : Nat := 32            -- firmware major revision (external access attribute from 18)
  ctr : Nat := 0             -- running index into the cyclic schedules
  deriving Repr, Inhabited

def cyc (sched : List Nat) (i : Nat) (dflt : Nat) : Nat :=
  if sched.isEmpty then dflt else max 1 (sched.getD (i % sched.length) dflt)

/-! ### symbol object (class 0x6B): Get_Instance_Attribute_List -/

def encSymbolRecord (s : Symbol) (attrs : List Nat) : Bytes :=
  le 4 s.inst ++ (attrs.map fun a =>
    if a = 1 then le 2 s.name.length ++ s.name.map (fun c => UInt8.ofNat c)
    else if a = 2 then le 2 s.symbolType
    else if a = 3 then le 4 s.attr3
    else if a = 5 then le 4 s.attr5
    else if a = 6 then le 4 s.attr6
    else if a = 8 then (s.dims ++ [0, 0, 0]).take 3 |>.map (le 4) |>.flatten
    else if a = 10 then [UInt8.ofNat s.access]
    else []).flatten

def parseAttrList (d : Bytes) : Option (List Nat) :=
  if d.length < 2 then none else
  let n := leAt d 0 2
  if d.length ≠ 2 + 2 * n then none else some ((List.range n).map fun i => leAt d (2 + 2 * i) 2)

/-- take records while they fit the page quota and the byte capacity; at least one record per page -/
def takePage : List Symbol → List Nat → Nat → Nat → Bytes → Nat → Bytes × List Symbol
  | [], _, _, _, acc, _ => (acc, [])
  | s :: rest, attrs, quota, cap, acc, n =>
      let r := encSymbolRecord s attrs
      if n > 0 ∧ (quota = 0 ∨ acc.length + r.length > cap) then (acc, s :: rest)
      else takePage rest attrs (quota - 1) cap (acc ++ r) (n + 1)

def symbolList (st : LState) (scope : Option Name) (start : Nat) (d : Bytes) (cap : Nat) : LState × MRReply :=
  match parseAttrList d with
  | none => (st, { status := 0x13 })
  | some attrs =>
    if attrs.any (fun a => !(([1, 2, 3, 5, 6, 8, 10] : List Nat).contains a)) ∨ (attrs.contains 10 ∧ st.rev < 18) then
      (st, { status := 0x09 }) else
    let syms? : Option (List Symbol) := match scope with
      | none => some st.proj.controller
      | some prog => (st.proj.programs.find? (·.1 == prog)).map (·.2)
    match syms? with
    | none => (st, { status := 0x05 })
    | some syms =>
      let todo := syms.filter (·.inst ≥ start)
      let quota := cyc st.proj.pageSchedule st.ctr 1000000
      let (bytes, left) := takePage todo attrs quota cap [] 0
      ({ st with ctr := st.ctr + 1 }, { status := if left.isEmpty then 0 else 6, data := bytes })

/-! ### template object (class 0x6C) -/

/-- the definition bytes: member infos, then "Name;…\0member\0member\0…\0" -/
def Template.defBytes (t : Template) : Bytes :=
  (t.members.map fun m => le 2 m.info ++ le 2 m.typeWord ++ le 4 m.offset).flatten ++
  t.nameField ++ [0] ++ (t.members.map fun m => m.name.map (fun c => UInt8.ofNat c) ++ [0]).flatten

/-- object definition size in 32-bit words such that words*4 - 23 covers the definition -/
def Template.defWords (t : Template) : Nat := (t.defBytes.length + 23 + 3) / 4

def templateAttrs (t : Template) (d : Bytes) : MRReply :=
  match parseAttrList d with
  | none => { status := 0x13 }
  | some attrs =>
      if attrs.any (fun a => !(([1, 2, 4, 5] : List Nat).contains a)) then { status := 0x09 } else
      { data := le 2 attrs.length ++ (attrs.map fun a =>
          le 2 a ++ le 2 0 ++
            (if a = 4 then le 4 t.defWords else if a = 5 then le 4 t.size
             else if a = 2 then le 2 t.members.length else le 2 t.handle)).flatten }

def templateRead (st : LState) (t : Template) (d : Bytes) (cap : Nat) : LState × MRReply :=
  if d.length ≠ 6 then (st, { status := 0x13 }) else
  let off := leAt d 0 4
  let want := leAt d 4 2
  -- the stored definition is padded with zeros up to words*4 - 23 bytes
  let full := t.defBytes ++ List.replicate (t.defWords * 4 - 23 - t.defBytes.length) 0
  if off > full.length then (st, { status := 0x13 }) else
  let remaining := full.length - off
  let n := min (min remaining want) (min cap (cyc st.proj.tmplSchedule st.ctr 1000000))
  ({ st with ctr := st.ctr + 1 },
   { status := if n < min remaining want then 6 else 0, data := (full.drop off).take n })

/-! ### tag services -/

def typeBytes (p : Project) (ty : ElTy) : Bytes :=
  match ty with
  | .atomic c => le 2 c
  | .boolBit _ => le 2 0xC1
  | .struct tid => [0xA0, 0x02] ++ le 2 ((p.template? tid).map (·.handle) |>.getD 0)

/-- the value bytes of `n` elements at a location -/
def readBytes (p : Project) (loc : Loc) (n : Nat) : Option Bytes :=
  match p.symbolOf loc, p.elSize loc.ty with
  | some s, some sz =>
      match loc.ty with
      | .boolBit bit =>
          if loc.offset < s.mem.length then
            some [if (s.mem.getD loc.offset 0).toNat / 2 ^ bit % 2 = 1 then 0xFF else 0x00]
          else none
      | _ => if loc.offset + n * sz ≤ s.mem.length then some ((s.mem.drop loc.offset).take (n * sz)) else none
  | _, _ => none

def readTag (st : LState) (loc : Loc) (d : Bytes) (cap : Nat) (fragmented : Bool) : LState × MRReply :=
  let need := if fragmented then 6 else 2
  if d.length ≠ need then (st, { status := 0x13 }) else
  let n := leAt d 0 2
  let off := if fragmented then leAt d 2 4 else 0
  if n = 0 then (st, { status := 0x26 }) else
  if n > loc.avail then (st, { status := 0xFF, ext := [0x2105] }) else
  match readBytes st.proj loc n with
  | none => (st, { status := 0xFF, ext := [0x2105] })
  | some all =>
      let ty := typeBytes st.proj loc.ty
      if off > all.length ∨ (off = all.length ∧ all.length > 0) then (st, { status := 0xFF, ext := [0x2105] }) else
      let remaining := all.length - off
      let room := cap - 4 - ty.length
      let quota := if fragmented then min room (cyc st.proj.readSchedule st.ctr 1000000) else room
      let k := min remaining quota
      ({ st with ctr := st.ctr + 1 }, { status := if k < remaining then 6 else 0, data := ty ++ (all.drop off).take k })

def logWrite (p : Project) (loc : Loc) (off len : Nat) : Project :=
  { p with writeLog := p.writeLog ++ [(loc.symInst, off, len)] }

def writeTag (st : LState) (loc : Loc) (d : Bytes) (fragmented : Bool) : LState × MRReply :=
  -- request data: type (2 bytes, or A0 02 + handle), element count, [byte offset], data
  let tyLen := match loc.ty with | .struct _ => 4 | _ => 2
  let hdr := tyLen + 2 + (if fragmented then 4 else 0)
  if d.length < hdr then (st, { status := 0x13 }) else
  if d.take tyLen ≠ typeBytes st.proj loc.ty then (st, { status := 0xFF, ext := [0x2107] }) else
  let n := leAt d tyLen 2
  let off := if fragmented then leAt d (tyLen + 2) 4 else 0
  let data := d.drop hdr
  if n = 0 then (st, { status := 0x26 }) else
  if n > loc.avail then (st, { status := 0xFF, ext := [0x2105] }) else
  match st.proj.symbolOf loc, st.proj.elSize loc.ty with
  | some s, some sz =>
      match loc.ty with
      | .boolBit bit =>
          if fragmented ∨ data.length ≠ 1 ∨ loc.offset ≥ s.mem.length then (st, { status := 0x13 }) else
          let old := (s.mem.getD loc.offset 0).toNat
          let nw := if data.getD 0 0 != 0 then old ||| 2 ^ bit else old - (old / 2 ^ bit % 2) * 2 ^ bit
          ({ st with proj := logWrite (st.proj.updateSymbol loc fun s => { s with mem := splice s.mem loc.offset [UInt8.ofNat nw] })
                              loc loc.offset 1 }, {})
      | _ =>
          let total := n * sz
          if !fragmented ∧ data.length ≠ total then
            (st, { status := if data.length < total then 0x13 else 0x15 })
          else if fragmented ∧ (off + data.length > total ∨ data.isEmpty) then (st, { status := 0x15 })
          else if loc.offset + total > s.mem.length then (st, { status := 0xFF, ext := [0x2105] })
          else
            ({ st with proj := logWrite (st.proj.updateSymbol loc fun s => { s with mem := splice s.mem (loc.offset + off) data })
                                loc (loc.offset + off) data.length }, {})
  | _, _ => (st, { status := 0x05 })

/-- Read-Modify-Write: new = (old ||| or) &&& and, on the located integer -/
def rmwTag (st : LState) (loc : Loc) (d : Bytes) : LState × MRReply :=
  if d.length < 2 then (st, { status := 0x13 }) else
  let msz := leAt d 0 2
  if d.length ≠ 2 + 2 * msz then (st, { status := if d.length < 2 + 2 * msz then 0x13 else 0x15 }) else
  match loc.ty, st.proj.symbolOf loc with
  | .atomic c, some s =>
      match atomicSize c with
      | none => (st, { status := 0x05 })
      | some sz =>
          if c = 0xCA ∨ c = 0xCB ∨ c = 0xC1 then (st, { status := 0xFF, ext := [0x2107] }) else
          if msz ≠ sz then (st, { status := 0x03 }) else
          if loc.offset + sz > s.mem.length then (st, { status := 0xFF, ext := [0x2105] }) else
          let old := leVal ((s.mem.drop loc.offset).take sz)
          let orM := leAt d 2 sz
          let andM := leAt d (2 + sz) sz
          let nw := (old ||| orM) &&& andM
          ({ st with proj := logWrite (st.proj.updateSymbol loc fun s => { s with mem := splice s.mem loc.offset (le sz nw) })
                              loc loc.offset sz }, {})
  | _, _ => (st, { status := 0xFF, ext := [0x2107] })

def tagService (st : LState) (req : MRReq) (cap : Nat) : Option (LState × MRReply) :=
  if !(req.service = 0x4C ∨ req.service = 0x52 ∨ req.service = 0x4D ∨ req.service = 0x53 ∨ req.service = 0x4E) then none else
  -- only symbolic / symbol-instance paths are tag services
  let isTagPath := match req.path with
    | .symbol _ :: _ => true
    | .logical 0 0x6B :: .logical 4 _ :: _ => true
    | _ => false
  if !isTagPath then none else
  match resolve st.proj req.path with
  | .error e => some (st, { status := e, ext := if e = 0xFF then [0x2105] else [] })
  | .ok loc =>
      if req.service = 0x4C then some (readTag st loc req.data cap false)
      else if req.service = 0x52 then some (readTag st loc req.data cap true)
      else if req.service = 0x4D then some (writeTag st loc req.data false)
      else if req.service = 0x53 then some (writeTag st loc req.data true)
      else some (rmwTag st loc req.data)

/-- one (non-multi) Logix service -/
def single (st : LState) (req : MRReq) (cap : Nat) : Option (LState × MRReply) :=
  -- symbol list: [Program:x]? class 0x6B, instance = start
  match req.path with
  | [.logical 0 0x6B, .logical 4 start] =>
      if req.service = 0x55 then some (symbolList st none start req.data (cap - 4)) else
      tagService st req cap
  | [.symbol prog, .logical 0 0x6B, .logical 4 start] =>
      if req.service = 0x55 ∧ isProgramName prog then some (symbolList st (some (prog.map (·.toNat))) start req.data (cap - 4))
      else tagService st req cap
  | [.logical 0 0x6C, .logical 4 tid] =>
      match st.proj.template? tid with
      | none => some (st, { status := 0x05 })
      | some t =>
          if req.service = 0x03 then some (st, templateAttrs t req.data)
          else if req.service = 0x4C then some (templateRead st t req.data (cap - 4))
          else some (st, { status := 0x08 })
  | _ => tagService st req cap

/-- Multiple Service Packet (service 0x0A, class 2 instance 1) -/
def parseMulti (d : Bytes) : Option (List Bytes) :=
  if d.length < 2 then none else
  let n := leAt d 0 2
  if d.length < 2 + 2 * n then none else
  let offs := (List.range n).map fun i => leAt d (2 + 2 * i) 2
  -- offsets are from the count field, strictly increasing, the first right after the offset table
  if n = 0 then none
  else if offs.headD 0 ≠ 2 + 2 * n then none
  else
    let ends := offs.drop 1 ++ [d.length]
    if (offs.zip ends).any (fun p => p.1 ≥ p.2) then none
    else some ((offs.zip ends).map fun p => (d.drop p.1).take (p.2 - p.1))

def execEmbedded (cap : Nat) : LState → List Bytes → LState × List Bytes
  | st, [] => (st, [])
  | st, m :: rest =>
      let (st1, rep) : LState × Bytes :=
        match parseMR m with
        | none => (st, encMRReply ((m.headD 0).toNat) { status := 0x04 })
        | some req =>
            match single st req cap with
            | some (st', r) => (st', encMRReply req.service r)
            | none => (st, encMRReply req.service { status := 0x08 })
      let (st2, reps) := execEmbedded cap st1 rest
      (st2, rep :: reps)

def multiService (st : LState) (d : Bytes) (cap : Nat) : LState × MRReply :=
  match parseMulti d with
  | none => (st, { status := 0x13 })
  | some msgs =>
      let (st', reps) := execEmbedded cap st msgs
      let n := reps.length
      let sizes := reps.map (·.length)
      let offs := (List.range n).map fun i => 2 + 2 * n + (sizes.take i).foldl (· + ·) 0
      let anyFail := reps.any fun r => r.getD 2 0 != 0
      (st', { status := if anyFail then 0x1E else 0, data := le 2 n ++ (offs.map (le 2)).flatten ++ reps.flatten })

def logixService (st : LState) (req : MRReq) (connSize : Option Nat) : Option (LState × MRReply) :=
  let cap := connSize.getD 504
  if req.service = 0x0A ∧ req.path = [.logical 0 2, .logical 4 1] then some (multiService st req.data cap)
  else single st req cap

end Pycomm.Lgx
