/-
  Model of the decision kernels of logix_driver.py and packets/logix.py:
  request grouping and fragmentation decisions, fragment offset bookkeeping, read-modify-write masks,
  BOOL-array index arithmetic, symbol-list pagination, symbol filtering and symbol-type decoding,
  multi-service packing / unpacking.
-/
import PycommModel.Logix.Services
import PycommModel.PyStr
import PycommModel.Generated.Consts
namespace Pycomm.Lgx.K

/-! ### grouping of requests into multi-service packets -/

/-- one parsed request as the grouping loop sees it -/
structure Item where
  id : Nat
  error : Bool          -- the request already carries an error: skipped
  size : Nat            -- reads: estimated reply size (data + len(message) + 2); writes: len(message)
  deriving Repr, DecidableEq

structure Plan where
  groups : List (List Nat)     -- ids per multi-service packet, in order
  fragmented : List Nat        -- ids sent with the fragmented service, in order
  deriving Repr, DecidableEq

def OVERHEAD : Nat := Gen.MULTISERVICE_READ_OVERHEAD

/-- the greedy loop of _read_build_multi_requests / _write_build_multi_requests:
    state = (closed groups reversed, current group reversed, current size) -/
def groupStep (C : Nat) (st : List (List Nat) × List Nat × Nat) (it : Nat × Nat) : List (List Nat) × List Nat × Nat :=
  let (done, cur, sz) := st
  if sz + it.2 > C then (cur.reverse :: done, [it.1], OVERHEAD + it.2)
  else (done, it.1 :: cur, sz + it.2)

def plan (C : Nat) (items : List Item) : Plan :=
  let live := items.filter (!·.error)
  let frag := live.filter (fun i => i.size + OVERHEAD > C)
  let grp := live.filter (fun i => !(i.size + OVERHEAD > C))
  let (done, cur, _) := (grp.map fun i => (i.id, i.size)).foldl (groupStep C) ([], [], OVERHEAD)
  { groups := ((cur.reverse :: done).reverse).filter (· ≠ []), fragmented := frag.map (·.id) }

/-! ### fragmented transfers -/

/-- write: `segment_size = connection_size - overhead`; offsets 0, s, 2s, … -/
def writeSegments (segSize : Nat) (value : Bytes) : Nat → Nat → List (Nat × Bytes)
  | 0, _ => []
  | fuel + 1, off =>
      if off ≥ value.length then []
      else
        let seg := (value.drop off).take segSize
        (off, seg) :: writeSegments segSize value fuel (off + seg.length)

def writeFragments (segSize : Nat) (value : Bytes) : List (Nat × Bytes) :=
  if segSize = 0 then [] else writeSegments segSize value (value.length + 1) 0

/-- read: the controller returns any prefix of what remains (lengths from `schedule`, each ≥ 1);
    the client asks for offset = bytes received so far; returns (offsets requested, reassembled value) -/
def readFragments (value : Bytes) : List Nat → Nat → Nat → List Nat × Bytes
  | _, 0, _ => ([], [])
  | sched, fuel + 1, off =>
      let k := max 1 (sched.headD (value.length - off))
      let got := (value.drop off).take k
      if off + got.length ≥ value.length then ([off], got)
      else
        let (offs, rest) := readFragments value (sched.drop 1) fuel (off + got.length)
        (off :: offs, got ++ rest)

/-! ### read-modify-write masks (ReadModifyWriteRequestPacket.set_bit) -/

structure Masks where
  orM : Nat
  andM : Nat
  deriving Repr, DecidableEq

def ones64 : Nat := 2 ^ 64 - 1

def initMasks : Masks := { orM := 0, andM := ones64 }

/-- `~(1 << bit)` under `&=` with a non-negative mask below 2^64 -/
def setBit (m : Masks) (bit : Nat) (v : Bool) : Masks :=
  if v then { orM := m.orM ||| (1 <<< bit), andM := m.andM ||| (1 <<< bit) }
  else { orM := m.orM &&& (ones64 ^^^ (1 <<< bit)), andM := m.andM &&& (ones64 ^^^ (1 <<< bit)) }

def applyOps (ops : List (Nat × Bool)) : Masks := ops.foldl (fun m o => setBit m o.1 o.2) initMasks

/-- the two masks as sent: ULINT.encode(mask)[:mask_size] -/
def maskBytes (w : Nat) (m : Nat) : Bytes := (leBytes 8 m).take w

/-- what the controller computes on a `w`-byte integer -/
def rmwResult (w old : Nat) (m : Masks) : Nat :=
  (old ||| leVal (maskBytes w m.orM)) &&& leVal (maskBytes w m.andM)

/-! ### BOOL arrays are DWORD arrays -/

/-- _parse_tag_request for a BOOL-array tag: (DWORD element addressed by the request path, `bit`, `elements`).
    Reads always start at DWORD 0; writes address DWORD idx/32 (and encode_value then lowers the element
    count by idx/32, see `writeElements`). -/
def boolWindow (write : Bool) (idx n : Nat) : Nat × Nat × Nat :=
  let total := idx + n
  let elements := total / 32 + (if total % 32 = 0 then 0 else 1)
  if write then (idx / 32, idx, elements) else (0, idx, elements)

/-- encode_value: `elements - bit // 32` DWORDs are written -/
def writeElements (idx n : Nat) : Nat := (boolWindow true idx n).2.2 - idx / 32

/-- the bits of a list of DWORDs, least significant first -/
def dwordBits (ws : List Nat) : List Bool := ws.flatMap fun w => (List.range 32).map fun i => w.testBit i

/-! ### symbol list pagination -/

/-- the controller answers a request starting at instance `start` with a non-empty prefix (page size from the
    schedule) of the remaining symbols; the client continues at last + 1 -/
def upload (insts : List Nat) : List Nat → Nat → Nat → List Nat
  | _, 0, _ => []
  | sched, fuel + 1, start =>
      let todo := insts.filter (· ≥ start)
      let k := max 1 (sched.headD todo.length)
      let page := todo.take k
      match page.getLast? with
      | none => []
      | some last =>
          if page.length ≥ todo.length then page
          else page ++ upload insts (sched.drop 1) fuel (last + 1)

/-! ### which symbols are user tags (_isolate_user_tags) and what a symbol type word means (_create_tag) -/

def nm (s : String) : Name := s.toList.map Char.toNat

def contains (sub s : Name) : Bool :=
  (List.range (s.length + 1)).any fun i => (s.drop i).take sub.length == sub

/-- kept as a user tag (module I/O tags are kept) -/
def keepSymbol (name : Name) (symbolType : Nat) : Bool :=
  if PyStr.startsWith (nm "Program:") name || PyStr.startsWith (nm "Routine:") name || PyStr.startsWith (nm "Task:") name then false
  else if contains (nm "Map:") name || contains (nm "Cxn:") name then false
  else
    let io := contains (nm ":I") name || contains (nm ":O") name || contains (nm ":C") name || contains (nm ":S") name
    if (!io && name.contains 58) || PyStr.startsWith (nm "__") name then false
    else if symbolType / 4096 % 2 = 1 then false
    else true

structure TypeWord where
  isStruct : Bool
  dims : Nat
  templateId : Nat
  atomicCode : Nat
  boolBit : Nat
  deriving Repr, DecidableEq

def decodeTypeWord (w : Nat) : TypeWord :=
  { isStruct := w / 32768 % 2 = 1, dims := w / 8192 % 4, templateId := w % 4096, atomicCode := w % 256, boolBit := w / 256 % 8 }

def isAlias (softwareControl : Nat) : Bool := softwareControl / 2 ^ 26 % 2 = 0

/-! ### multi-service packing (client) -/

/-- MultiServiceRequestPacket.build_message: count, offsets (from the count field), messages -/
def packMulti (msgs : List Bytes) : Bytes :=
  let n := msgs.length
  let offs := (List.range n).map fun i => 2 + 2 * n + ((msgs.take i).map (·.length)).foldl (· + ·) 0
  leBytes 2 n ++ (offs.map (leBytes 2)).flatten ++ msgs.flatten

/-- MultiServiceResponsePacket._parse_reply: split the reply data at the offsets -/
def unpackMulti (d : Bytes) : List Bytes :=
  let n := leVal (d.take 2)
  -- `offset_data = data[2 : 2 + 2 * n]` is cut by the slice when the reply is short; a trailing single byte makes
  -- `UINT.decode` fail (the whole parse then fails: no embedded replies)
  let tbl := min (2 * n) (d.length - 2)
  if tbl % 2 = 1 then [] else
  let offs := (List.range (tbl / 2)).map fun i => leVal ((d.drop (2 + 2 * i)).take 2)
  let ends := offs.drop 1
  (List.range offs.length).map fun i =>
    match ends[i]? with
    | some e => (d.take e).drop (offs.getD i 0)
    | none => d.drop (offs.getD i 0)

end Pycomm.Lgx.K
