/-
  Client side of the Logix tag services (packets/logix.py, logix_driver.py), at the message-router level:
  the request messages the driver builds (`tag_only_message` of every tag-service packet class), the
  multi-service wrapper, the fragmented read / write loops (`_send_read_fragmented`,
  `_send_write_fragmented`) and `parse_read_reply`, together with `exchange`: what the reference
  controller answers to one message on a connection of a given size.

  The encapsulation / common-packet-format layers around these messages are the subject of C11, C13, C14.
-/
import PycommModel.Logix.Kernels
import PycommModel.Codec
namespace Pycomm.Lgx.Cl
open Pycomm.Tgt Pycomm.Path Pycomm.Lgx

/-! ### request messages (service, request path incl. its word count, service data) -/

def readMsg (path : Bytes) (n : Nat) : Bytes := [0x4C] ++ path ++ le 2 n
def readFragMsg (path : Bytes) (n off : Nat) : Bytes := [0x52] ++ path ++ le 2 n ++ le 4 off
def writeMsg (path ty : Bytes) (n : Nat) (value : Bytes) : Bytes := [0x4D] ++ path ++ ty ++ le 2 n ++ value
def writeFragMsg (path ty : Bytes) (n off : Nat) (value : Bytes) : Bytes :=
  [0x53] ++ path ++ ty ++ le 2 n ++ le 4 off ++ value
/-- ReadModifyWriteRequestPacket.tag_only_message: mask size, OR mask, AND mask -/
def rmwMsg (path : Bytes) (size : Nat) (m : K.Masks) : Bytes :=
  [0x4E] ++ path ++ le 2 size ++ K.maskBytes size m.orM ++ K.maskBytes size m.andM
/-- MultiServiceRequestPacket.build_message: service 0x0A, class 2 instance 1, packed messages -/
def multiMsg (msgs : List Bytes) : Bytes := [0x0A, 0x02, 0x20, 0x02, 0x24, 0x01] ++ K.packMulti msgs

/-- WriteTagRequestPacket._packed_data_type -/
def packedType (structHandle : Option Nat) (code : Nat) : Bytes :=
  match structHandle with
  | some h => [0xA0, 0x02] ++ le 2 h
  | none => le 2 code

/-! ### the controller's answer to one message -/

def exchange (st : LState) (cap : Nat) (msg : Bytes) : LState × MRReply :=
  match parseMR msg with
  | none => (st, { status := 0x04 })
  | some req =>
      match logixService st req (some cap) with
      | some r => r
      | none => (st, { status := 0x08 })

/-! ### fragmented transfers (client loops) -/

/-- ReadTagFragmentedResponsePacket._parse_reply: (type bytes, value bytes) -/
def splitTyped (d : Bytes) : Bytes × Bytes :=
  if d.take 2 == [0xA0, 0x02] then (d.take 4, d.drop 4) else (d.take 2, d.drop 2)

/-- _send_read_fragmented: ask again at offset = value bytes received so far while the status is 6.
    Result: (type bytes of the last reply, all value bytes) or the failing status. `fuel` bounds the loop
    (the real loop has no bound: a controller that keeps answering 6 with no data is not modelled). -/
def readFragLoop (path : Bytes) (n cap : Nat) : Nat → LState → Nat → Bytes → LState × Except Nat (Bytes × Bytes)
  | 0, st, _, _ => (st, .error 0xFFFF)
  | fuel + 1, st, off, acc =>
      let (st', r) := exchange st cap (readFragMsg path n off)
      let (ty, vb) := splitTyped r.data
      if r.status = 6 then readFragLoop path n cap fuel st' (off + vb.length) (acc ++ vb)
      else if r.status = 0 then (st', .ok (ty, acc ++ vb))
      else (st', .error r.status)

/-- segment size of _send_write_fragmented: connection size minus everything in the message but the value
    (`request.message` starts with the 2-byte sequence count) -/
def writeSegSize (cap : Nat) (path ty : Bytes) : Nat := cap - (2 + 1 + path.length + ty.length + 2 + 4)

/-- _send_write_fragmented: one request per segment, all are sent; the statuses in order -/
def writeFragSend (path ty : Bytes) (n cap : Nat) : LState → List (Nat × Bytes) → LState × List Nat
  | st, [] => (st, [])
  | st, (off, seg) :: rest =>
      let (st', r) := exchange st cap (writeFragMsg path ty n off seg)
      let (st'', ss) := writeFragSend path ty n cap st' rest
      (st'', r.status :: ss)

def writeFragmented (path ty : Bytes) (n cap : Nat) (value : Bytes) (st : LState) : LState × List Nat :=
  writeFragSend path ty n cap st (K.writeFragments (writeSegSize cap path ty) value)

/-! ### parse_read_reply for elementary types and arrays of them -/

/-- the codec class of an elementary CIP type code -/
def atomicTy (code : Nat) : Option Ty :=
  if code = 0xC1 then some .bool else if code = 0xC2 then some (.int .sint) else if code = 0xC3 then some (.int .int)
  else if code = 0xC4 then some (.int .dint) else if code = 0xC5 then some (.int .lint)
  else if code = 0xC6 then some (.int .usint) else if code = 0xC7 then some (.int .uint)
  else if code = 0xC8 then some (.int .udint) else if code = 0xC9 then some (.int .ulint)
  else if code = 0xCA then some .real else if code = 0xCB then some .lreal
  else if code = 0xD3 then some (.bits .udint) else none

/-- parse_read_reply(data, tag_info, elements) where tag_info["type_class"] is `t` (scalar tag) or
    `ArrayType` of `t` (`isArray`): the value handed to the caller -/
def parseReadReply (data : Bytes) (t : Ty) (isArray : Bool) (elements : Nat) : Except Exn PyVal :=
  let stream := (splitTyped data).2
  if isArray then
    match decode (.arr (.fixed elements) t) stream with
    | .error e => .error e
    | .ok (v, _) =>
        if elements = 1 ∧ t.isBits = none then
          match v with
          | .list (x :: _) => .ok x
          | _ => .error (.foreign "IndexError")
        else .ok v
  else
    match decode t stream with
    | .error e => .error e
    | .ok (v, _) => .ok v

end Pycomm.Lgx.Cl
