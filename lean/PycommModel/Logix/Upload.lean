/-
  Client side of the tag-list / data-type upload (logix_driver.py): `_parse_instance_attribute_list`
  (symbol records of a Get_Instance_Attribute_List reply) and `_parse_template_data` /
  `_parse_template_data_member_info` (a structure definition read from the template object).
  Names are sequences of code points; template and member names are decoded as UTF-8 with replacement
  (`PyStr.utf8Replace`), as the real code does.
-/
import PycommModel.Logix.Services
import PycommModel.Codec
import PycommModel.PyStr
namespace Pycomm.Lgx.Up
open Pycomm.Tgt Pycomm.Lgx

/-! ### symbol records -/

structure Rec where
  inst : Nat
  name : Name
  symbolType : Nat
  addr : Nat
  objAddr : Nat
  swc : Nat
  dims : List Nat
  access : Option Nat      -- attribute 10, requested from firmware revision 18
  deriving Repr, DecidableEq, Inhabited

/-- one iteration of the `while stream.tell() < length` loop -/
def parseRecord (withAccess : Bool) (bs : Bytes) : R (Rec × Bytes) := do
  let (inst, r) ← decodeIntNat .udint bs
  let (nm, r) ← decodeStr .uint .latin1 r
  let (ty, r) ← decodeIntNat .uint r
  let (a3, r) ← decodeIntNat .udint r
  let (a5, r) ← decodeIntNat .udint r
  let (a6, r) ← decodeIntNat .udint r
  let (d1, r) ← decodeIntNat .udint r
  let (d2, r) ← decodeIntNat .udint r
  let (d3, r) ← decodeIntNat .udint r
  let name := match nm with | .str cs => cs | _ => []
  if withAccess then do
    let (ac, r) ← decodeIntNat .usint r
    .ok ({ inst := inst, name := name, symbolType := ty, addr := a3, objAddr := a5, swc := a6, dims := [d1, d2, d3], access := some ac }, r)
  else
    .ok ({ inst := inst, name := name, symbolType := ty, addr := a3, objAddr := a5, swc := a6, dims := [d1, d2, d3], access := none }, r)

/-- the loop; any codec error becomes ResponseError("failed to parse instance attribute list") -/
def parseRecords (withAccess : Bool) : Nat → Bytes → R (List Rec)
  | 0, _ => .error .hang
  | fuel + 1, bs =>
      if bs.isEmpty then .ok [] else
      match parseRecord withAccess bs with
      | .error _ => .error .response
      | .ok (rec, rest) =>
          match parseRecords withAccess fuel rest with
          | .error e => .error e
          | .ok rs => .ok (rec :: rs)

/-- the continuation instance: -1 (stop) on success, last instance + 1 on status 6 -/
def nextInstance (status : Nat) (recs : List Rec) : Option Nat :=
  if status = 6 then some ((recs.getLast?.map (·.inst)).getD 0 + 1) else none

/-- the attribute list the client asks for -/
def wantedAttrs (withAccess : Bool) : List Nat := [1, 2, 3, 5, 6, 8] ++ (if withAccess then [10] else [])

def recOfSymbol (withAccess : Bool) (s : Symbol) : Rec :=
  { inst := s.inst, name := s.name, symbolType := s.symbolType, addr := s.attr3, objAddr := s.attr5, swc := s.attr6,
    dims := (s.dims ++ [0, 0, 0]).take 3, access := if withAccess then some s.access else none }

/-! ### structure definitions -/

/-- `bytes.split(b"\x00")` -/
def splitNul : Bytes → List Bytes
  | [] => [[]]
  | b :: rest =>
      match splitNul rest with
      | [] => [[]]      -- unreachable
      | cur :: more => if b = 0 then [] :: cur :: more else (b :: cur) :: more

structure PMember where
  name : Name
  info : Nat          -- bit number (BOOL) or array length
  typ : Nat           -- the 16-bit type field
  offset : Nat
  priv : Bool
  deriving Repr, DecidableEq, Inhabited

structure PTemplate where
  name : Option Name
  members : List PMember
  attributes : List Name      -- the visible members, in order
  string : Option Nat         -- Some(capacity) when the structure is recognised as a string type
  deriving Repr, DecidableEq, Inhabited

def nm (s : String) : Name := s.toList.map Char.toNat

/-- `_parse_template_data_member_info` on one 8-byte chunk (short chunks raise inside the codecs) -/
def parseMemberInfo (chunk : Bytes) : R (Nat × Nat × Nat) := do
  let (info, r) ← decodeIntNat .uint chunk
  let (typ, r) ← decodeIntNat .uint r
  let (off, _) ← decodeIntNat .udint r
  .ok (info, typ, off)

def chunks8 : Nat → Bytes → List Bytes
  | 0, _ => []
  | n + 1, bs => bs.take 8 :: chunks8 n (bs.drop 8)

/-- split the decoded names into the template name (first one containing ';', cut there) and member names -/
def splitNames : Option Name → List Name → Option Name × List Name
  | tn, [] => (tn, [])
  | none, n :: rest =>
      if n.contains 59 then splitNames (some (n.takeWhile (· != 59))) rest
      else let (t, ms) := splitNames none rest; (t, n :: ms)
  | some t, n :: rest => let (t', ms) := splitNames (some t) rest; (t', n :: ms)

/-- decimal rendering for `__unknown{k}` -/
def decN (n : Nat) : Name := (toString n).toList.map Char.toNat

/-- is this 16-bit member type an elementary type (directly, or after masking with 0xFFF)? returns its code -/
def atomicOfTyp (typ : Nat) : Option Nat :=
  if (atomicSize typ).isSome then some typ
  else if (atomicSize (typ % 4096)).isSome then some (typ % 4096) else none

def buildMembers (predefine : Bool) : Nat → List Name → List (Nat × Nat × Nat) → List PMember
  | _, [], _ => []
  | _, _, [] => []
  | k, n :: ns, (info, typ, off) :: is =>
      let (name, k') := if n.isEmpty then (nm "__unknown" ++ decN k, k + 1) else (n, k)
      let priv := PyStr.startsWith (nm "ZZZZZZZZZZ") name || PyStr.startsWith (nm "__") name ||
                  (predefine && (name == nm "CTL" || name == nm "Control"))
      { name := name, info := info, typ := typ, offset := off, priv := priv } :: buildMembers predefine k' ns is

/-- `_parse_template_data(data, template, symbol_type)` with `template["member_count"] = count` -/
def parseTemplate (count symbolType : Nat) (data : Bytes) : R PTemplate := do
  let infoLen := count * 8
  let infos ← (chunks8 count (data.take infoLen)).mapM parseMemberInfo
  let names := (splitNul (data.drop infoLen)).map PyStr.utf8Replace
  let (tname, mnames) := splitNames none names
  let ty := symbolType % 4096
  let predefine := ty < 0x100 || ty > 0xEFF
  let (tname, mnames) := match tname, predefine, mnames with
    | none, true, first :: rest => (some first, rest)
    | t, _, ms => (t, ms)
  let tname := tname.map fun t => if t == nm "ASCIISTRING82" then nm "STRING" else t
  let members := buildMembers predefine 0 mnames infos
  let attrs := (members.filter (!·.priv)).map (·.name)
  let isString : Option Nat :=
    if attrs == [nm "LEN", nm "DATA"] then
      match members.find? (·.name == nm "DATA") with
      | some m => if atomicOfTyp m.typ = some 0xC2 ∧ m.info ≠ 0 then some m.info else none
      | none => none
    else none
  .ok { name := tname, members := members, attributes := attrs, string := isString }

end Pycomm.Lgx.Up
