/-
  The controller project held by the reference target: templates (UDT definitions), symbols with their
  memory, and the reference interpretation of addresses (row-major indices, member offsets, element sizes).
  Written from 1756-PM020 (Logix 5000 Data Access); independent of the client model.
-/
import PycommModel.Target
namespace Pycomm.Lgx
open Pycomm.Tgt Pycomm.Path

/-- a member of a structure definition, as in the template object -/
structure MemberDef where
  name : Name
  info : Nat        -- array length (0 = scalar), or the bit number for BOOL members
  typeWord : Nat    -- 16-bit type field: atomic code, or 0x8000 | template instance id (+ array bits)
  offset : Nat
  deriving Repr, DecidableEq, Inhabited

structure Template where
  id : Nat           -- template instance id (12 bits)
  handle : Nat       -- structure handle (CRC) used in read replies / write requests
  size : Nat         -- structure size in bytes
  nameField : Bytes  -- "Name;…" as stored in the definition
  members : List MemberDef
  deriving Repr, Inhabited

structure Symbol where
  inst : Nat
  name : Name
  symbolType : Nat         -- 16-bit symbol type word
  dims : List Nat          -- 3 dimensions (0 = unused)
  attr3 : Nat
  attr5 : Nat
  attr6 : Nat              -- software control (bit 26 = base tag)
  access : Nat             -- external access
  mem : Bytes              -- the tag's data (empty for program / task / routine / map symbols)
  deriving Repr, Inhabited

structure Project where
  templates : List Template
  controller : List Symbol                    -- controller scope, ascending instance ids
  programs : List (Name × List Symbol)        -- "Program:X" -> its symbols
  /-- how the controller paginates / fragments: symbols per list page, bytes per template fragment,
      bytes per read fragment (all cyclic schedules; every entry ≥ 1) -/
  pageSchedule : List Nat := []
  tmplSchedule : List Nat := []
  readSchedule : List Nat := []
  /-- counts of executed write-type services per (symbol instance) for the exactly-once oracle -/
  writeLog : List (Nat × Nat × Nat) := []      -- (instance, byte offset, length)
  deriving Repr, Inhabited

def atomicSize (code : Nat) : Option Nat :=
  if code = 0xC1 then some 1 else if code = 0xC2 then some 1 else if code = 0xC3 then some 2
  else if code = 0xC4 then some 4 else if code = 0xC5 then some 8 else if code = 0xC6 then some 1
  else if code = 0xC7 then some 2 else if code = 0xC8 then some 4 else if code = 0xC9 then some 8
  else if code = 0xCA then some 4 else if code = 0xCB then some 8 else if code = 0xD3 then some 4
  else none

/-- element type of a located value -/
inductive ElTy where
  | atomic (code : Nat)
  | struct (tid : Nat)
  | boolBit (bit : Nat)      -- a BOOL structure member living in bit `bit` of the byte at the offset
  deriving Repr, DecidableEq, Inhabited

def Project.template? (p : Project) (tid : Nat) : Option Template := p.templates.find? (·.id == tid)

def Project.elSize (p : Project) : ElTy → Option Nat
  | .atomic c => atomicSize c
  | .struct tid => (p.template? tid).map (·.size)
  | .boolBit _ => some 1

/-- the 16-bit type word of a symbol / member: bit 15 struct, low 12 bits template id, else low byte atomic code -/
def elTyOfWord (w : Nat) : ElTy :=
  if w / 32768 % 2 = 1 then .struct (w % 4096) else .atomic (w % 256)

/-- a resolved address -/
structure Loc where
  symInst : Nat
  scope : Option Name      -- program, if any
  offset : Nat             -- byte offset into the symbol's memory
  ty : ElTy
  avail : Nat              -- number of elements of `ty` available from this offset (array tail), ≥ 1
  deriving Repr, DecidableEq, Inhabited

def dimsProduct (dims : List Nat) : Nat := (dims.filter (· != 0)).foldl (· * ·) 1

/-- row-major linear index; `none` when the index count does not match or an index is out of range -/
def linearIndex (dims idx : List Nat) : Option Nat :=
  let ds := dims.filter (· != 0)
  if idx.length ≠ ds.length then none
  else if (idx.zip ds).any (fun p => p.1 ≥ p.2) then none
  else some ((idx.zip ds).foldl (fun acc p => acc * p.2 + p.1) 0)

def takeIndices : List PSeg → List Nat × List PSeg
  | .logical 8 i :: rest => let (is, r) := takeIndices rest; (i :: is, r)
  | r => ([], r)

/-- walk the member part of a path: names and member ids after the base symbol -/
def resolveMembers (p : Project) : Nat → Loc → List PSeg → Except Nat Loc
  | 0, _, _ => .error 0x04
  | _ + 1, loc, [] => .ok loc
  | fuel + 1, loc, .symbol nm :: rest =>
      match loc.ty with
      | .struct tid =>
          match p.template? tid with
          | none => .error 0x05
          | some t =>
              match t.members.find? (fun m => m.name.map (fun c => UInt8.ofNat c) == nm) with
              | none => .error 0x05       -- unknown member: path destination unknown
              | some m =>
                  let ty := elTyOfWord m.typeWord
                  if ty == .atomic 0xC1 then
                    -- BOOL member: lives in a bit of its host byte, no array
                    resolveMembers p fuel { loc with offset := loc.offset + m.offset, ty := .boolBit m.info, avail := 1 } rest
                  else
                    let (idx, rest') := takeIndices rest
                    match p.elSize ty with
                    | none => .error 0x05
                    | some sz =>
                        if m.info = 0 then
                          if idx ≠ [] then .error 0x05
                          else resolveMembers p fuel { loc with offset := loc.offset + m.offset, ty := ty, avail := 1 } rest'
                        else
                          match idx with
                          | [] => resolveMembers p fuel { loc with offset := loc.offset + m.offset, ty := ty, avail := m.info } rest'
                          | [i] =>
                              if i ≥ m.info then .error 0xFF
                              else resolveMembers p fuel { loc with offset := loc.offset + m.offset + i * sz, ty := ty, avail := m.info - i } rest'
                          | _ => .error 0x05
      | _ => .error 0x05
  | _ + 1, _, _ => .error 0x05

def Project.findSymbol (p : Project) (scope : Option Name) (pred : Symbol → Bool) : Option Symbol :=
  match scope with
  | none => p.controller.find? pred
  | some prog => ((p.programs.find? (·.1 == prog)).map (·.2)).bind (·.find? pred)

def isProgramName (nm : Bytes) : Bool := nm.take 8 == [80, 114, 111, 103, 114, 97, 109, 58]   -- "Program:"

/-- resolve a tag-service path; error = CIP general status -/
def resolve (p : Project) (path : List PSeg) : Except Nat Loc :=
  -- optional program scope
  let (scope, path) : Option Name × List PSeg := match path with
    | .symbol nm :: rest => if isProgramName nm then (some (nm.map (·.toNat)), rest) else (none, .symbol nm :: rest)
    | other => (none, other)
  let base? : Option (Symbol × List PSeg) := match path with
    | .symbol nm :: rest => (p.findSymbol scope (fun s => s.name.map (fun c => UInt8.ofNat c) == nm)).map (·, rest)
    | .logical 0 0x6B :: .logical 4 i :: rest => (p.findSymbol scope (fun s => s.inst == i)).map (·, rest)
    | _ => none
  match base? with
  | none => .error 0x05
  | some (s, rest) =>
      if s.mem.isEmpty then .error 0x05 else
      let ty := elTyOfWord s.symbolType
      match p.elSize ty with
      | none => .error 0x05
      | some sz =>
          let (idx, rest') := takeIndices rest
          let total := dimsProduct s.dims
          let start? : Except Nat (Nat × Nat) :=
            if idx = [] then .ok (0, total)
            else match linearIndex s.dims idx with
              | some li => .ok (li, total - li)
              | none => .error 0xFF
          match start? with
          | .error e => .error e
          | .ok (li, avail) =>
              resolveMembers p (rest'.length + 1) { symInst := s.inst, scope := scope, offset := li * sz, ty := ty, avail := avail } rest'

def Project.symbolOf (p : Project) (loc : Loc) : Option Symbol :=
  p.findSymbol loc.scope (fun s => s.inst == loc.symInst)

def Project.updateSymbol (p : Project) (loc : Loc) (f : Symbol → Symbol) : Project :=
  match loc.scope with
  | none => { p with controller := p.controller.map fun s => if s.inst == loc.symInst then f s else s }
  | some prog => { p with programs := p.programs.map fun pr =>
      if pr.1 == prog then (pr.1, pr.2.map fun s => if s.inst == loc.symInst then f s else s) else pr }

def splice (mem : Bytes) (off : Nat) (d : Bytes) : Bytes := mem.take off ++ d ++ mem.drop (off + d.length)

end Pycomm.Lgx
