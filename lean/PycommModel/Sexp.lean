/-
  S-expressions for the line protocol (driver side only; nothing here is used in a theorem).
-/
import PycommModel.PyVal
namespace Pycomm

inductive Sexp where
  | atom (s : String)
  | list (xs : List Sexp)
  deriving Repr, Inhabited

namespace Sexp

partial def render : Sexp → String
  | atom s => s
  | list xs => "(" ++ " ".intercalate (xs.map render) ++ ")"

private def isDelim (c : Char) : Bool := c == '(' || c == ')' || c == ' ' || c == '\t' || c == '\n' || c == '\r'

private def takeAtom : List Char → List Char → (List Char × List Char)
  | [], acc => (acc.reverse, [])
  | c :: cs, acc => if isDelim c then (acc.reverse, c :: cs) else takeAtom cs (c :: acc)

mutual
partial def parseOne : List Char → Option (Sexp × List Char)
  | [] => none
  | c :: cs =>
    if c == ' ' || c == '\t' || c == '\n' || c == '\r' then parseOne cs
    else if c == '(' then parseList cs []
    else if c == ')' then none
    else
      let (a, rest) := takeAtom (c :: cs) []
      some (atom (String.ofList a), rest)
partial def parseList : List Char → List Sexp → Option (Sexp × List Char)
  | [], _ => none
  | c :: cs, acc =>
    if c == ' ' || c == '\t' || c == '\n' || c == '\r' then parseList cs acc
    else if c == ')' then some (list acc.reverse, cs)
    else match parseOne (c :: cs) with
      | none => none
      | some (x, rest) => parseList rest (x :: acc)
end

/-- parse all top-level s-expressions of a line -/
partial def parseAll (cs : List Char) (acc : List Sexp := []) : Option (List Sexp) :=
  match cs with
  | [] => some acc.reverse
  | c :: rest =>
    if c == ' ' || c == '\t' || c == '\n' || c == '\r' then parseAll rest acc
    else match parseOne (c :: rest) with
      | none => none
      | some (x, r) => parseAll r (x :: acc)

def parseLine (s : String) : Option (List Sexp) := parseAll s.toList

def toNat? : Sexp → Option Nat
  | atom s => s.toNat?
  | _ => none

def toInt? : Sexp → Option Int
  | atom s => s.toInt?
  | _ => none

def nats? (xs : List Sexp) : Option (List Nat) := xs.mapM toNat?

def ofNat (n : Nat) : Sexp := atom (toString n)
def ofInt (i : Int) : Sexp := atom (toString i)
def ofName (n : Name) : Sexp := list (atom "s" :: n.map ofNat)
def ofBytes (bs : Bytes) : Sexp := if bs.isEmpty then list [atom "b"] else list [atom "b", atom (toHex bs)]

def name? : Sexp → Option Name
  | list (atom "s" :: cs) => nats? cs
  | _ => none

def bytes? : Sexp → Option Bytes
  | list [atom "b"] => some []
  | list [atom "b", atom h] => ofHex h
  | _ => none

end Sexp

/-! ### PyVal ↔ Sexp -/

partial def PyVal.toSexp : PyVal → Sexp
  | .none => .atom "N"
  | .bool true => .atom "T"
  | .bool false => .atom "F"
  | .int i => .list [.atom "i", Sexp.ofInt i]
  | .float b => .list [.atom "f", Sexp.ofNat b]
  | .str cs => Sexp.ofName cs
  | .bytes bs => Sexp.ofBytes bs
  | .list xs => .list (.atom "l" :: xs.map toSexp)
  | .tuple xs => .list (.atom "t" :: xs.map toSexp)
  | .dict kvs => .list (.atom "d" :: kvs.map fun kv => .list [Sexp.ofName kv.1, toSexp kv.2])

partial def PyVal.ofSexp : Sexp → Option PyVal
  | .atom "N" => some .none
  | .atom "T" => some (.bool true)
  | .atom "F" => some (.bool false)
  | .list [.atom "i", x] => (Sexp.toInt? x).map PyVal.int
  | .list [.atom "f", x] => (Sexp.toNat? x).map PyVal.float
  | s@(.list (.atom "s" :: _)) => (Sexp.name? s).map PyVal.str
  | s@(.list (.atom "b" :: _)) => (Sexp.bytes? s).map PyVal.bytes
  | .list (.atom "l" :: xs) => (xs.mapM ofSexp).map PyVal.list
  | .list (.atom "t" :: xs) => (xs.mapM ofSexp).map PyVal.tuple
  | .list (.atom "d" :: kvs) =>
      (kvs.mapM fun (kv : Sexp) => match kv with
        | Sexp.list [k, v] => do
            let k' ← Sexp.name? k
            let v' ← ofSexp v
            pure (k', v')
        | _ => Option.none).map PyVal.dict
  | _ => Option.none

def Exn.render : Exn → String
  | .data => "data"
  | .bufferEmpty => "empty"
  | .request => "request"
  | .response => "response"
  | .comm => "comm"
  | .foreign n => "foreign:" ++ n
  | .hang => "hang"

end Pycomm
