/-
  The reference target (simulated controller), part 1: EtherNet/IP encapsulation, UCMM, connection manager,
  message router, identity / program-name / wall-clock objects and a configurable generic object.
  Written from the ODVA/Rockwell documents (DESIGN.md Appendix A), with its own strict parsers.
  Object-specific services (Logix tags, templates, PCCC) are plugged in through `objects`.
-/
import PycommModel.Encap
namespace Pycomm.Tgt
open Pycomm.Encap Pycomm.Path

/-- a parsed message-router request -/
structure MRReq where
  service : Nat
  path : List PSeg
  data : Bytes
  deriving Repr, DecidableEq

/-- a message-router reply (before framing) -/
structure MRReply where
  status : Nat := 0
  ext : List Nat := []       -- extended status words
  data : Bytes := []
  deriving Repr, DecidableEq

structure Conn where
  cid : Nat            -- O→T connection id the originator must address
  toId : Nat           -- T→O id chosen by the originator
  session : Nat
  size : Nat           -- granted connection size (bytes per message in each direction)
  large : Bool
  serial : Nat         -- connection serial number
  vendor : Nat
  origSerial : Nat
  lastSeq : Option Nat
  route : Bytes        -- connection path as received (after the size byte)
  deriving Repr, DecidableEq

structure Policy where
  sessionOk : Bool := true
  largeFoOk : Bool := true
  stdFoOk : Bool := true
  deriving Repr, DecidableEq

structure Identity where
  vendor : Nat
  productType : Nat
  productCode : Nat
  major : Nat
  minor : Nat
  status : Nat          -- 16-bit status word
  serial : Nat
  name : Bytes          -- product name (Latin-1 bytes)
  state : Nat
  ip : Nat              -- IPv4 as 32-bit big-endian number
  deriving Repr, DecidableEq

inductive Event where
  | encap (cmd session : Nat) (ok : Bool)
  | mr (connected viaUcs : Bool) (req : MRReq) (route : Bytes)
  | fo (large : Bool) (size : Nat) (ok : Bool)
  | fc (ok : Bool)
  | violation (what : String)
  deriving Repr, DecidableEq

/-- configurable reply of objects the target does not implement itself (used by the C14 scenarios) -/
structure GenericReply where
  status : Nat := 0x08
  ext : List Nat := []
  data : Bytes := []
  deriving Repr, DecidableEq

structure Base where
  policy : Policy := {}
  identity : Identity
  plcName : Bytes
  timeUs : Nat := 0
  generic : GenericReply := {}
  sessions : List Nat := []
  nextSession : Nat := 0x1001
  conns : List Conn := []
  nextCid : Nat := 0x00C0FFEE
  log : List Event := []
  deriving Repr

/-- events are kept newest-first (constant-time append); readers reverse -/
def Base.event (b : Base) (e : Event) : Base := { b with log := e :: b.log }
def Base.events (b : Base) : List Event := b.log.reverse

/-! ### wire helpers -/

def le (w n : Nat) : Bytes := leBytes w n
def u8at (bs : Bytes) (i : Nat) : Nat := (bs.getD i 0).toNat
def leAt (bs : Bytes) (i w : Nat) : Nat := leVal ((bs.drop i).take w)

def encIdentity (id : Identity) : Bytes :=
  le 2 id.vendor ++ le 2 id.productType ++ le 2 id.productCode ++ [UInt8.ofNat id.major, UInt8.ofNat id.minor] ++
  le 2 id.status ++ le 4 id.serial ++ [UInt8.ofNat id.name.length] ++ id.name

/-- ListIdentity reply body (EtherNet/IP Vol 2, 2-4.2): one CIP Identity item -/
def listIdentityBody (id : Identity) : Bytes :=
  let sock : Bytes := [0x00, 0x02] ++ [0xAF, 0x12] ++ (le 4 id.ip).reverse ++ List.replicate 8 0
  let item := le 2 1 ++ sock ++ encIdentity id ++ [UInt8.ofNat id.state]
  le 2 1 ++ le 2 0x000C ++ le 2 item.length ++ item

def encHeader (cmd len session status : Nat) (context : Bytes) : Bytes :=
  le 2 cmd ++ le 2 len ++ le 4 session ++ le 4 status ++ context ++ le 4 0

def frame (cmd session status : Nat) (context body : Bytes) : Bytes :=
  encHeader cmd body.length session status context ++ body

def encMRReply (service : Nat) (r : MRReply) : Bytes :=
  [UInt8.ofNat (service % 128 + 128), 0, UInt8.ofNat r.status, UInt8.ofNat r.ext.length] ++
  (r.ext.map (le 2)).flatten ++ r.data

/-- message-router request = service, path size in words, padded EPATH, data -/
def parseMR (bs : Bytes) : Option MRReq :=
  match bs with
  | [] => none
  | s :: rest =>
      match parseRequestPath rest with
      | none => none
      | some (segs, data) => some { service := s.toNat, path := segs, data := data }

def classInst (p : List PSeg) : Option (Nat × Nat × List PSeg) :=
  match p with
  | .logical 0 c :: .logical 4 i :: rest => some (c, i, rest)
  | _ => none

/-- session handles are 32-bit and never 0 (0 = "no session" on the wire) -/
def nextHandle (s : Nat) : Nat := if (s + 0x111) % 2 ^ 32 = 0 then 0x111 else (s + 0x111) % 2 ^ 32

/-! ### connection manager -/

structure FoReq where
  large : Bool
  toId : Nat
  serial : Nat
  vendor : Nat
  origSerial : Nat
  size : Nat
  path : Bytes
  deriving Repr

def parseFo (large : Bool) (d : Bytes) : Option FoReq :=
  let pw := if large then 4 else 2
  let fixed := 2 + 4 + 4 + 2 + 2 + 4 + 1 + 3 + 4 + pw + 4 + pw + 1 + 1
  if d.length < fixed then none else
  let otParams := leAt d 26 pw
  let toParams := leAt d (26 + pw + 4) pw
  let size := if large then otParams % 65536 else otParams % 512
  let size2 := if large then toParams % 65536 else toParams % 512
  let pathWords := u8at d (fixed - 1)
  let path := d.drop fixed
  if path.length ≠ 2 * pathWords then none
  else if size ≠ size2 then none
  else some { large := large, toId := leAt d 6 4, serial := leAt d 10 2, vendor := leAt d 12 2,
              origSerial := leAt d 14 4, size := size, path := path }

/-- the connection path must be port segments followed by the message router (class 2, instance 1) -/
def foPathOk (path : Bytes) : Bool :=
  match parsePadded (path.length + 1) path with
  | none => false
  | some segs =>
      let rec go : List PSeg → Bool
        | [.logical 0 2, .logical 4 1] => true
        | .port _ _ :: rest => go rest
        | _ => false
      go segs

def forwardOpen (b : Base) (session : Nat) (large : Bool) (d : Bytes) : Base × MRReply :=
  match parseFo large d with
  | none => (b.event (.violation "malformed forward open"), { status := 0x01, ext := [0x0315] })
  | some r =>
    let allowed := if large then b.policy.largeFoOk else b.policy.stdFoOk
    if !allowed then
      -- a controller that does not know the service (old firmware) / refuses it
      (b.event (.fo large r.size false), if large then { status := 0x08 } else { status := 0x01, ext := [0x0113] })
    else if !foPathOk r.path then
      (b.event (.violation "forward open: bad connection path"), { status := 0x01, ext := [0x0315] })
    else if b.conns.any (fun c => c.serial == r.serial && c.vendor == r.vendor && c.origSerial == r.origSerial) then
      (b.event (.fo large r.size false), { status := 0x01, ext := [0x0100] })
    else
      let cid := b.nextCid
      let c : Conn := { cid := cid, toId := r.toId, session := session, size := r.size, large := large,
                        serial := r.serial, vendor := r.vendor, origSerial := r.origSerial, lastSeq := none, route := r.path }
      let b' := { b with conns := b.conns ++ [c], nextCid := (b.nextCid + 0x10001) % 2 ^ 32 }
      (b'.event (.fo large r.size true),
       { data := le 4 cid ++ le 4 r.toId ++ le 2 r.serial ++ le 2 r.vendor ++ le 4 r.origSerial ++
                 le 4 0x00204001 ++ le 4 0x00204001 ++ [0, 0] })

def forwardClose (b : Base) (d : Bytes) : Base × MRReply :=
  if d.length < 12 then (b.event (.violation "malformed forward close"), { status := 0x13 }) else
  let serial := leAt d 2 2
  let vendor := leAt d 4 2
  let orig := leAt d 6 4
  let pathWords := u8at d 10
  if (d.drop 12).length ≠ 2 * pathWords then (b.event (.violation "forward close: bad path length"), { status := 0x13 }) else
  if b.conns.any (fun c => c.serial == serial && c.vendor == vendor && c.origSerial == orig) then
    ({ b with conns := b.conns.filter fun c => !(c.serial == serial && c.vendor == vendor && c.origSerial == orig) }.event (.fc true),
     { data := le 2 serial ++ le 2 vendor ++ le 4 orig ++ [0, 0] })
  else (b.event (.fc false), { status := 0x01, ext := [0x0107] })

/-! ### objects implemented by the base target -/

def wallClockGet (b : Base) (d : Bytes) : MRReply :=
  -- Get_Attribute_List: count, attribute ids; only attribute 0x0B (current value, µs) is implemented
  if d.length ≥ 4 ∧ leAt d 0 2 = 1 ∧ leAt d 2 2 = 0x0B then
    { data := le 2 1 ++ le 2 0x0B ++ le 2 0 ++ le 8 b.timeUs }
  else { status := 0x09 }

def wallClockSet (b : Base) (d : Bytes) : Base × MRReply :=
  if d.length = 12 ∧ leAt d 0 2 = 1 ∧ leAt d 2 2 = 6 then
    ({ b with timeUs := leAt d 4 8 }, { data := le 2 1 ++ le 2 6 ++ le 2 0 })
  else (b, { status := 0x13 })

/-- services of objects owned by the base target; `none` = not handled here -/
def baseObject (b : Base) (req : MRReq) : Option (Base × MRReply) :=
  match classInst req.path with
  | some (0x01, 1, []) =>
      if req.service = 0x01 then some (b, { data := encIdentity b.identity }) else some (b, { status := 0x08 })
  | some (0x64, 1, []) =>
      if req.service = 0x01 then some (b, { data := le 2 b.plcName.length ++ b.plcName }) else some (b, { status := 0x08 })
  | some (0x8B, 1, []) =>
      if req.service = 0x03 then some (b, wallClockGet b req.data)
      else if req.service = 0x04 then some (wallClockSet b req.data)
      else some (b, { status := 0x08 })
  | _ => none

/-! ### the whole target: state = base + object-specific state `σ` -/

structure Target (σ : Type) where
  base : Base
  ext : σ

/-- object hook: services the extension implements (Logix tags, templates, PCCC …) -/
abbrev ObjHook (σ : Type) := Target σ → (connSize : Option Nat) → MRReq → Option (Target σ × MRReply)

def execMR {σ} (hook : ObjHook σ) (t : Target σ) (session : Nat) (connSize : Option Nat) (connected viaUcs : Bool)
    (route : Bytes) (msg : Bytes) : Target σ × Bytes :=
  match parseMR msg with
  | none =>
      ({ t with base := t.base.event (.violation "malformed message router request") },
       encMRReply ((msg.headD 0).toNat) { status := 0x04 })
  | some req =>
    let t := { t with base := t.base.event (.mr connected viaUcs req route) }
    -- connection manager
    match classInst req.path with
    | some (0x06, 1, []) =>
        if connected then (t, encMRReply req.service { status := 0x08 })
        else if req.service = 0x54 ∨ req.service = 0x5B then
          let (b, r) := forwardOpen t.base session (req.service = 0x5B) req.data
          ({ t with base := b }, encMRReply req.service r)
        else if req.service = 0x4E then
          let (b, r) := forwardClose t.base req.data
          ({ t with base := b }, encMRReply req.service r)
        else (t, encMRReply req.service { status := 0x08 })
    | _ =>
      match baseObject t.base req with
      | some (b, r) => ({ t with base := b }, encMRReply req.service r)
      | none =>
        match hook t connSize req with
        | some (t', r) => (t', encMRReply req.service r)
        | none =>
            let g := t.base.generic
            (t, encMRReply req.service { status := g.status, ext := g.ext, data := g.data })

/-- Unconnected Send (service 0x52 to the connection manager): unwrap, check the structure -/
def unwrapUcs (d : Bytes) : Option (Bytes × Bytes) :=
  if d.length < 4 then none else
  let len := leAt d 2 2
  let afterMsg := d.drop (4 + len + len % 2)
  if d.length < 4 + len + len % 2 + 2 then none else
  if len % 2 = 1 ∧ u8at d (4 + len) ≠ 0 then none else
  let routeWords := u8at afterMsg 0
  let route := afterMsg.drop 2
  if u8at afterMsg 1 ≠ 0 then none else
  if route.length ≠ 2 * routeWords then none else
  match parsePadded (route.length + 1) route with
  | none => none
  | some _ => some ((d.drop 4).take len, route)

def isUcs (msg : Bytes) : Option Bytes :=
  -- service 0x52, path = class 6 instance 1
  match parseMR msg with
  | some req => if req.service = 0x52 ∧ classInst req.path = some (0x06, 1, []) then some req.data else none
  | none => none

def cpfReplyUnconnected (mr : Bytes) : Bytes :=
  le 4 0 ++ le 2 0 ++ le 2 2 ++ le 2 0 ++ le 2 0 ++ le 2 ITEM_UNCONNECTED_DATA ++ le 2 mr.length ++ mr

def cpfReplyConnected (toId seq : Nat) (mr : Bytes) : Bytes :=
  le 4 0 ++ le 2 0 ++ le 2 2 ++ le 2 ITEM_CONNECTION ++ le 2 4 ++ le 4 toId ++
  le 2 ITEM_CONNECTED_DATA ++ le 2 (mr.length + 2) ++ le 2 seq ++ mr

/-- one frame from the client: new state and the reply frame (if any) -/
def handle {σ} (hook : ObjHook σ) (t : Target σ) (raw : Bytes) : Target σ × Option Bytes :=
  match parseFrame raw with
  | none => ({ t with base := t.base.event (.violation "malformed encapsulation frame") }, none)
  | some f =>
    let b := t.base
    let bad (why : String) : Target σ := { t with base := b.event (.violation why) }
    if f.status ≠ 0 ∨ f.options ≠ 0 then (bad "non-zero status/options in a request", none) else
    if f.command = CMD_REGISTER then
      if f.body ≠ [1, 0, 0, 0] then (bad "register session: bad body", some (frame CMD_REGISTER 0 0x03 f.context f.body))
      else if f.session ≠ 0 then (bad "register session with a non-zero handle", some (frame CMD_REGISTER 0 0x03 f.context f.body))
      else if !b.policy.sessionOk then
        ({ t with base := b.event (.encap CMD_REGISTER 0 false) }, some (frame CMD_REGISTER 0 0x02 f.context f.body))
      else
        let s := b.nextSession
        ({ t with base := { b with sessions := b.sessions ++ [s], nextSession := nextHandle s }.event (.encap CMD_REGISTER s true) },
         some (frame CMD_REGISTER s 0 f.context f.body))
    else if f.command = CMD_LIST_IDENTITY then
      if f.body ≠ [] then (bad "list identity with a body", none)
      else ({ t with base := b.event (.encap CMD_LIST_IDENTITY f.session true) },
            some (frame CMD_LIST_IDENTITY f.session 0 f.context (listIdentityBody b.identity)))
    else if f.command = CMD_UNREGISTER then
      if f.body ≠ [] then (bad "unregister session with a body", none)
      else if !b.sessions.contains f.session then (bad "unregister of an unknown session", none)
      else
        ({ t with base := { b with sessions := b.sessions.filter (· != f.session),
                                    conns := b.conns.filter (·.session != f.session) }.event (.encap CMD_UNREGISTER f.session true) }, none)
    else if f.command = CMD_SEND_RR then
      if !b.sessions.contains f.session then
        ({ t with base := b.event (.violation "SendRRData without a registered session") }, some (frame CMD_SEND_RR f.session 0x64 f.context []))
      else match parseCpf f.body with
      | some (.unconnected msg) =>
          let t0 := { t with base := b.event (.encap CMD_SEND_RR f.session true) }
          match isUcs msg with
          | some ucsData =>
              match unwrapUcs ucsData with
              | none => ({ t0 with base := t0.base.event (.violation "malformed unconnected send") },
                         some (frame CMD_SEND_RR f.session 0 f.context (cpfReplyUnconnected (encMRReply 0x52 { status := 0x13 }))))
              | some (inner, route) =>
                  let (t1, mr) := execMR hook t0 f.session none false true route inner
                  (t1, some (frame CMD_SEND_RR f.session 0 f.context (cpfReplyUnconnected mr)))
          | none =>
              let (t1, mr) := execMR hook t0 f.session none false false [] msg
              (t1, some (frame CMD_SEND_RR f.session 0 f.context (cpfReplyUnconnected mr)))
      | _ => (bad "SendRRData: malformed common packet format", some (frame CMD_SEND_RR f.session 0x03 f.context []))
    else if f.command = CMD_SEND_UNIT then
      if !b.sessions.contains f.session then
        ({ t with base := b.event (.violation "SendUnitData without a registered session") }, none)
      else match parseCpf f.body with
      | some (.connected cid seq msg) =>
          match b.conns.find? (fun c => c.cid == cid && c.session == f.session) with
          | none => (bad "SendUnitData on a connection that is not open", none)
          | some c =>
              let b1 := b.event (.encap CMD_SEND_UNIT f.session true)
              -- the connection size counts the connected data item: 2-byte sequence count + message (Vol 1, 3-5.5.1.1)
              let b1 := if msg.length + 2 > c.size then b1.event (.violation s!"connected request of {msg.length + 2} bytes on a {c.size}-byte connection") else b1
              let b1 := if c.lastSeq == some seq then b1.event (.violation s!"sequence count {seq} repeated on consecutive connected messages") else b1
              let b1 := { b1 with conns := b1.conns.map fun c' => if c'.cid == cid then { c' with lastSeq := some seq } else c' }
              if msg.length + 2 > c.size then
                ({ t with base := b1 }, some (frame CMD_SEND_UNIT f.session 0 f.context
                    (cpfReplyConnected c.toId seq (encMRReply ((msg.headD 0).toNat) { status := 0x11 }))))
              else
              let (t1, mr) := execMR hook { t with base := b1 } f.session (some (c.size - 2)) true false [] msg
              let t2 := if mr.length + 2 > c.size then
                  { t1 with base := t1.base.event (.violation s!"connected reply of {mr.length + 2} bytes on a {c.size}-byte connection") } else t1
              (t2, some (frame CMD_SEND_UNIT f.session 0 f.context (cpfReplyConnected c.toId seq mr)))
      | _ => (bad "SendUnitData: malformed common packet format", none)
    else (bad s!"unsupported encapsulation command {f.command}", some (frame f.command f.session 0x01 f.context []))

/-- the TCP connection went away: sessions and their class-3 connections are dropped (Vol 2, 2-4.5, 3-3) -/
def tcpClosed {σ} (t : Target σ) : Target σ :=
  { t with base := { t.base with sessions := [], conns := [] } }

end Pycomm.Tgt
