/-
  Line-protocol ops for the SLCDriver model (SlcDriver.lean); driver glue only, nothing here is used in a theorem.

    sd.new BASE (slc FILE…) (cfg (path (s ..)) (session n) (connected b) (tcid (b ..)|N) (cid (b ..)) (csn (b ..))
                             (vid (b ..)) (vsn (b ..)) (seq n) (connsize n) (extfo b)) (pre (b frame)…)
        a Lean-side session: a fresh reference target on the scenario, brought to the state the real driver's calls so
        far left it in by replaying the frames the real driver emitted (`pre`), and the driver state as given.
    sd.open BASE (slc FILE…) (cfg (path (s ..)) (rnd (b 16 hex digits)))
        a self-contained Lean-side session: a fresh reference target and a fresh driver on which `Cli.openDrv`
        (= `CIPDriver.open()`, which is all `SLCDriver.open()` does) runs with the 8 bytes `urandom` delivers.
        -> ok (result (ok T|F)|(raise exn)) (frames (b ..)…) (drv …)
    sd.read (s address)…          -> ok (tags (tag NAME VALUE TYPE ERROR)…)|(raise exn) (frames (b ..)…)
    sd.write ((s address) VALUE)…
    sd.slc / sd.log / sd.state / sd.drv   the session's own target / driver (renderings of target.slc / .log / .state)
-/
import PycommModel.OpsClient
import PycommModel.OpsLogixDrv
import PycommModel.SlcDriver
namespace Pycomm
open Sexp Tgt

structure SdSession where
  w : Cli.World Ext

def renderSTag (t : Slc.Drv.STag) : String :=
  "(tag " ++ (Sexp.ofName t.tag).render ++ " " ++ t.value.toSexp.render ++ " " ++ (Sexp.ofName t.type).render ++ " " ++
    (match t.error with | some e => (Sexp.ofName e).render | none => "N") ++ ")"

def renderSdResult (w : Cli.World Ext) (r : Except Exn (List Slc.Drv.STag)) : String :=
  "ok " ++ (match r with
    | .ok ts => "(tags " ++ " ".intercalate (ts.map renderSTag) ++ ")"
    | .error e => "(raise " ++ e.render ++ ")") ++
  " (frames " ++ " ".intercalate (w.net.sent.map fun f => (Sexp.ofBytes f).render) ++ ")"

def slcTarget? (b : Sexp) (s : Sexp) : Option FullTarget :=
  match s with
  | .list (.atom "slc" :: _) => targetNew [b, s]
  | .atom "noslc" => targetNew [b]
  | _ => none

def sdNew : List Sexp → Option SdSession ⊕ String
  | [b, s, .list (.atom "cfg" :: fs), .list (.atom "pre" :: pre)] =>
      match slcTarget? b s, pre.mapM Sexp.bytes? with
      | some t0, some frames =>
          let get (k : String) := field? k fs
          let tcid : Option (Option Bytes) := match get "tcid" with
            | some (.atom "N") => some none
            | some x => (Sexp.bytes? x).map some
            | none => none
          match (get "path").bind Sexp.name?, (get "session").bind Sexp.toNat?, (get "connected").bind bool?, tcid,
                (get "cid").bind Sexp.bytes?, (get "csn").bind Sexp.bytes?, (get "vid").bind Sexp.bytes?,
                (get "vsn").bind Sexp.bytes?, (get "seq").bind Sexp.toNat?, (get "connsize").bind Sexp.toNat?,
                (get "extfo").bind bool? with
          | some path, some sess, some conn, some tcid, some cid, some csn, some vid, some vsn, some seq, some csize, some extfo =>
              -- SLCDriver._auto_slot_cip_path = True
              match Path.parseConnectionPath path true with
              | .error e => .inr ("bad-path " ++ e.render)
              | .ok (_, _, cip) =>
                  let t1 := replayFrames t0 frames
                  let t2 : FullTarget := { t1 with base := { t1.base with log := [] } }
                  let drv : Cli.Drv := { hasSock := true, session := some sess, connectionOpened := true,
                                         targetCid := tcid, targetIsConnected := conn, extendedFo := extfo,
                                         connectionSize := csize, cid := cid, csn := csn, vid := vid, vsn := vsn,
                                         cipPath := cip, seqVal := seq }
                  .inl (some { w := { drv := drv, net := { target := t2, tcpOpen := true } } })
          | _, _, _, _, _, _, _, _, _, _, _ => .inr "bad-cfg"
      | _, _ => .inr "bad-args"
  | _ => .inr "bad-args"

def sdOpen : List Sexp → Option SdSession × String
  | [b, s, .list (.atom "cfg" :: fs)] =>
      match slcTarget? b s with
      | none => (none, "err bad-target")
      | some t0 =>
          match (field? "path" fs).bind Sexp.name?, (field? "rnd" fs).bind Sexp.bytes? with
          | some path, some rnd =>
              match Path.parseConnectionPath path true with
              | .error e => (none, "err " ++ e.render)
              | .ok (_, _, cip) =>
                  let w0 : Cli.World Ext := { drv := { cipPath := cip }, net := { target := t0 } }
                  let (w, r) := Cli.openDrv hookAll w0 rnd
                  (some { w := w },
                   "ok (result " ++ (match r with | .ok b => "(ok " ++ renderBool b ++ ")" | .error e => "(raise " ++ e.render ++ ")") ++
                     ") (frames " ++ " ".intercalate (w.net.sent.map fun f => (Sexp.ofBytes f).render) ++ ") " ++ renderDrv w.drv)
          | _, _ => (none, "err bad-cfg")
  | _ => (none, "err bad-args")

def SdSession.clearSent (s : SdSession) : SdSession := { s with w := { s.w with net := { s.w.net with sent := [] } } }

def sdRead (s : SdSession) (args : List Sexp) : SdSession × String :=
  match args.mapM Sexp.name? with
  | none => (s, "bad-args")
  | some tags =>
      let s0 := s.clearSent
      let (w, r) := Slc.Drv.slcRead hookAll s0.w tags
      ({ s0 with w := w }, renderSdResult w r)

def sdWrite (s : SdSession) (args : List Sexp) : SdSession × String :=
  match args.mapM (fun a => match a with
      | .list [t, v] => do pure ((← Sexp.name? t), (← PyVal.ofSexp v))
      | _ => none) with
  | none => (s, "bad-args")
  | some tvs =>
      let s0 := s.clearSent
      let (w, r) := Slc.Drv.slcWrite hookAll s0.w tvs
      ({ s0 with w := w }, renderSdResult w r)

/-- ops on the Lean-side SLCDriver session held by the driver process -/
def dispatchSd (sd : Option SdSession) (op : String) (args : List Sexp) : Option SdSession × String :=
  match op, sd with
  | "sd.new", _ =>
      match sdNew args with
      | .inl s => (s, "ok")
      | .inr why => (sd, "err " ++ why)
  | "sd.open", _ =>
      match sdOpen args with
      | (some s, out) => (some s, out)
      | (none, out) => (sd, out)
  | "sd.pending", some s =>
      -- replies already waiting in the transport's queue (scripted / stale replies), read before anything the target answers
      match args.mapM Sexp.bytes? with
      | none => (sd, "bad-args")
      | some rs => (some { s with w := { s.w with net := { s.w.net with pending := rs.map some } } }, "ok")
  | "sd.drv", some s => (sd, "ok " ++ renderDrv s.w.drv)
  | "sd.read", some s => let (s', out) := sdRead s args; (some s', out)
  | "sd.write", some s => let (s', out) := sdWrite s args; (some s', out)
  | "sd.slc", some s => (sd, targetSlc s.w.net.target)
  | "sd.state", some s => (sd, targetState s.w.net.target)
  | "sd.log", some s =>
      let (t', out) := targetLog s.w.net.target
      (some { s with w := { s.w with net := { s.w.net with target := t' } } }, out)
  | _, _ => (sd, "no-session")

end Pycomm
