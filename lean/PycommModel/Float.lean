/-
  IEEE-754 bit-level conversions performed by CPython's `struct` for `<f` / `<d`:
  binary64 → binary32 (round to nearest even, overflow detected), binary32 → binary64 (exact),
  and int → binary64 for |i| < 2^53 (exact).
  These are *assumed* to describe CPython/x86-64; the correspondence validates them on samples.
-/
import PycommModel.Bytes
namespace Pycomm.Flt

/-- binary64 bits → binary32 bits; `none` = OverflowError (finite value too large for a float) -/
def narrow (b : Nat) : Option Nat :=
  let sign := b / 2 ^ 63 % 2
  let e := b / 2 ^ 52 % 2048
  let m := b % 2 ^ 52
  if e = 2047 then
    if m = 0 then some (sign * 2 ^ 31 + 0x7f800000)
    else some (sign * 2 ^ 31 + 0x7fc00000 + (m / 2 ^ 29) % 2 ^ 22)
  else
    let M := if e = 0 then m else m + 2 ^ 52
    if M = 0 then some (sign * 2 ^ 31) else
    -- value = M * 2^(E) with E = (max e 1) - 1075 ; work with the biased quantity eb = max e 1
    let eb := if e = 0 then 1 else e
    let p := Nat.log2 M + 1                    -- bit length of M
    -- target exponent E' = max (p - 24 + E) (-149); with E = eb - 1075:
    -- s = E' - E = max (p - 24) (926 - eb)   (always ≥ 29 because p = 53 for normal numbers)
    let s := max (p - 24) (926 - eb)
    let q := M / 2 ^ s
    let r := M % 2 ^ s
    let half := 2 ^ (s - 1)
    let q' := if r > half ∨ (r = half ∧ q % 2 = 1) then q + 1 else q
    -- E' + 149 = s + eb - 926
    let bits := (s + eb - 926) * 2 ^ 23 + q'
    if bits ≥ 0x7f800000 then none else some (sign * 2 ^ 31 + bits)

/-- binary32 bits → binary64 bits (exact; NaNs are quieted as the hardware conversion does) -/
def widen (b : Nat) : Nat :=
  let sign := b / 2 ^ 31 % 2
  let e := b / 2 ^ 23 % 256
  let m := b % 2 ^ 23
  if e = 255 then
    if m = 0 then sign * 2 ^ 63 + 0x7ff * 2 ^ 52
    else sign * 2 ^ 63 + 0x7ff * 2 ^ 52 + 2 ^ 51 + (m * 2 ^ 29) % 2 ^ 51
  else if e = 0 then
    if m = 0 then sign * 2 ^ 63
    else
      let p := Nat.log2 m
      sign * 2 ^ 63 + (p + 874) * 2 ^ 52 + (m - 2 ^ p) * 2 ^ (52 - p)
  else
    sign * 2 ^ 63 + (e + 896) * 2 ^ 52 + m * 2 ^ 29

/-- int → binary64 bits as `float(i)` does (round to nearest even); `none` = OverflowError -/
def ofInt (i : Int) : Option Nat :=
  let n := i.natAbs
  let sign := if i < 0 then 1 else 0
  if n = 0 then some 0
  else
    let p := Nat.log2 n          -- position of the leading bit
    if p ≤ 52 then
      some (sign * 2 ^ 63 + (1023 + p) * 2 ^ 52 + (n - 2 ^ p) * 2 ^ (52 - p))
    else
      let s := p - 52
      let q := n / 2 ^ s
      let r := n % 2 ^ s
      let half := 2 ^ (s - 1)
      let q' := if r > half ∨ (r = half ∧ q % 2 = 1) then q + 1 else q
      let bits := (1023 + p - 1) * 2 ^ 52 + q'     -- q' carries the hidden bit (and a rounding carry)
      if bits ≥ 0x7ff * 2 ^ 52 then none else some (sign * 2 ^ 63 + bits)

def isNaN64 (b : Nat) : Bool := b / 2 ^ 52 % 2048 == 2047 && b % 2 ^ 52 != 0

end Pycomm.Flt
