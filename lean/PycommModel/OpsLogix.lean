import PycommModel.OpsPath
import PycommModel.Logix.Kernels
import PycommModel.Logix.Client
import PycommModel.Logix.Upload
namespace Pycomm
open Sexp Lgx.K

def item? : Sexp → Option Item
  | .list [i, e, s] => do pure { id := ← Sexp.toNat? i, error := ← bool? e, size := ← Sexp.toNat? s }
  | _ => none

def renderNats (xs : List Nat) : String := "(" ++ " ".intercalate (xs.map toString) ++ ")"

/-- k.plan C (id err size)… -/
def opKPlan : List Sexp → String
  | c :: items =>
      match Sexp.toNat? c, items.mapM item? with
      | some C, some its =>
          let p := plan C its
          "ok (groups " ++ " ".intercalate (p.groups.map renderNats) ++ ") (frag " ++ " ".intercalate (p.fragmented.map toString) ++ ")"
      | _, _ => "bad-args"
  | _ => "bad-args"

/-- k.masks w (bit T|F)… -> or-mask bytes, and-mask bytes -/
def opKMasks : List Sexp → String
  | w :: ops =>
      match Sexp.toNat? w, ops.mapM (fun o => match o with
          | .list [b, v] => do pure ((← Sexp.toNat? b), (← bool? v))
          | _ => none) with
      | some w', some ops' =>
          let m := applyOps ops'
          "ok " ++ (Sexp.ofBytes (maskBytes w' m.orM)).render ++ " " ++ (Sexp.ofBytes (maskBytes w' m.andM)).render
      | _, _ => "bad-args"
  | _ => "bad-args"

def opKBoolWin : List Sexp → String
  | [w, i, n] =>
      match bool? w, Sexp.toNat? i, Sexp.toNat? n with
      | some w', some i', some n' => let r := boolWindow w' i' n'; s!"ok {r.1} {r.2.1} {r.2.2}"
      | _, _, _ => "bad-args"
  | _ => "bad-args"

def opKKeep : List Sexp → String
  | [n, t] =>
      match Sexp.name? n, Sexp.toNat? t with
      | some n', some t' => "ok " ++ renderBool (keepSymbol n' t')
      | _, _ => "bad-args"
  | _ => "bad-args"

def opKTypeWord : List Sexp → String
  | [w, sc] =>
      match Sexp.toNat? w, Sexp.toNat? sc with
      | some w', some sc' =>
          let t := decodeTypeWord w'
          s!"ok {renderBool t.isStruct} {t.dims} {t.templateId} {t.atomicCode} {t.boolBit} {renderBool (isAlias sc')}"
      | _, _ => "bad-args"
  | _ => "bad-args"

def opKPackMulti : List Sexp → String
  | msgs =>
      match msgs.mapM Sexp.bytes? with
      | some ms => "ok " ++ (Sexp.ofBytes (packMulti ms)).render
      | none => "bad-args"

def opKUnpackMulti : List Sexp → String
  | [d] =>
      match Sexp.bytes? d with
      | some bs => "ok (" ++ " ".intercalate ((unpackMulti bs).map fun b => (Sexp.ofBytes b).render) ++ ")"
      | none => "bad-args"
  | _ => "bad-args"

/-- k.writefrags segSize len -> (offset length)… -/
def opKWriteFrags : List Sexp → String
  | [s, n] =>
      match Sexp.toNat? s, Sexp.toNat? n with
      | some s', some n' =>
          "ok " ++ " ".intercalate ((writeFragments s' (List.replicate n' 0)).map fun p => s!"({p.1} {p.2.length})")
      | _, _ => "bad-args"
  | _ => "bad-args"

/-- k.readfrags len (schedule…) -> offsets -/
def opKReadFrags : List Sexp → String
  | [n, .list sched] =>
      match Sexp.toNat? n, sched.mapM Sexp.toNat? with
      | some n', some sc =>
          let cyc := if sc.isEmpty then [] else (List.range (n' + 1)).map fun i => sc.getD (i % sc.length) 1
          "ok " ++ renderNats (readFragments (List.replicate n' 0) cyc (n' + 1) 0).1
      | _, _ => "bad-args"
  | _ => "bad-args"

/-- k.upload (insts…) (schedule…) -> uploaded instance ids -/
def opKUpload : List Sexp → String
  | [.list is, .list sched] =>
      match is.mapM Sexp.toNat?, sched.mapM Sexp.toNat? with
      | some is', some sc =>
          let cyc := if sc.isEmpty then [] else (List.range (is'.length + 1)).map fun i => sc.getD (i % sc.length) 1
          "ok " ++ renderNats (upload is' cyc (is'.length + 1) 0)
      | _, _ => "bad-args"
  | _ => "bad-args"

/-! ### client request messages (Logix/Client.lean) -/

def pathOf (t inst u : Sexp) : Option (Except Exn (Option Bytes)) :=
  match Sexp.name? t, Sexp.toNat? inst, bool? u with
  | some t', some i, some u' => some (Path.tagRequestPath t' (if i == 0 then none else some i) u')
  | _, _, _ => none

def withPath (t inst u : Sexp) (k : Bytes → String) : String :=
  match pathOf t inst u with
  | none => "bad-args"
  | some (.error e) => "err " ++ e.render
  | some (.ok none) => "ok N"
  | some (.ok (some p)) => k p

def handle? (h : Sexp) : Option (Option Nat) :=
  match h with
  | .atom "nil" => some none
  | x => (Sexp.toNat? x).map some

def bitOps? (ops : List Sexp) : Option (List (Nat × Bool)) :=
  ops.mapM fun o => match o with
    | .list [b, v] => do pure ((← Sexp.toNat? b), (← bool? v))
    | _ => none

/-- k.msg <kind> "tag" inst useIds … : the message-router request the packet class builds -/
def opKMsg : List Sexp → String
  | [.atom "read", t, i, u, n] =>
      match Sexp.toNat? n with
      | some n' => withPath t i u fun p => "ok " ++ (Sexp.ofBytes (Lgx.Cl.readMsg p n')).render
      | none => "bad-args"
  | [.atom "readfrag", t, i, u, n, off] =>
      match Sexp.toNat? n, Sexp.toNat? off with
      | some n', some o => withPath t i u fun p => "ok " ++ (Sexp.ofBytes (Lgx.Cl.readFragMsg p n' o)).render
      | _, _ => "bad-args"
  | [.atom "write", t, i, u, h, c, n, v] =>
      match handle? h, Sexp.toNat? c, Sexp.toNat? n, Sexp.bytes? v with
      | some h', some c', some n', some v' =>
          withPath t i u fun p => "ok " ++ (Sexp.ofBytes (Lgx.Cl.writeMsg p (Lgx.Cl.packedType h' c') n' v')).render
      | _, _, _, _ => "bad-args"
  | [.atom "writefrag", t, i, u, h, c, n, off, v] =>
      match handle? h, Sexp.toNat? c, Sexp.toNat? n, Sexp.toNat? off, Sexp.bytes? v with
      | some h', some c', some n', some o, some v' =>
          withPath t i u fun p => "ok " ++ (Sexp.ofBytes (Lgx.Cl.writeFragMsg p (Lgx.Cl.packedType h' c') n' o v')).render
      | _, _, _, _, _ => "bad-args"
  | .atom "rmw" :: t :: i :: u :: w :: ops =>
      match Sexp.toNat? w, bitOps? ops with
      | some w', some ops' => withPath t i u fun p => "ok " ++ (Sexp.ofBytes (Lgx.Cl.rmwMsg p w' (applyOps ops'))).render
      | _, _ => "bad-args"
  | .atom "multi" :: msgs =>
      match msgs.mapM Sexp.bytes? with
      | some ms => "ok " ++ (Sexp.ofBytes (Lgx.Cl.multiMsg ms)).render
      | none => "bad-args"
  | [.atom "writeseg", cap, t, i, u, h, c] =>
      match Sexp.toNat? cap, handle? h, Sexp.toNat? c with
      | some cap', some h', some c' => withPath t i u fun p => s!"ok {Lgx.Cl.writeSegSize cap' p (Lgx.Cl.packedType h' c')}"
      | _, _, _ => "bad-args"
  | _ => "bad-args"

/-- k.readreply (b data) code isArray elements : parse_read_reply for an elementary type -/
def opKReadReply : List Sexp → String
  | [d, c, a, n] =>
      match Sexp.bytes? d, Sexp.toNat? c, bool? a, Sexp.toNat? n with
      | some d', some c', some a', some n' =>
          match Lgx.Cl.atomicTy c' with
          | none => "bad-args"
          | some t =>
              match Lgx.Cl.parseReadReply d' t a' n' with
              | .ok v => "ok " ++ v.toSexp.render
              | .error e => "err " ++ e.render
      | _, _, _, _ => "bad-args"
  | _ => "bad-args"

/-! ### upload parsing (Logix/Upload.lean) -/

def renderName (n : Name) : String := "(s" ++ String.join (n.map fun c => " " ++ toString c) ++ ")"

/-- k.records T|F (b data) -/
def opKRecords : List Sexp → String
  | [w, d] =>
      match bool? w, Sexp.bytes? d with
      | some w', some bs =>
          match Lgx.Up.parseRecords w' (bs.length + 1) bs with
          | .error e => "err " ++ e.render
          | .ok rs => "ok (" ++ " ".intercalate (rs.map fun r =>
              s!"({r.inst} {renderName r.name} {r.symbolType} {r.addr} {r.objAddr} {r.swc} {renderNats r.dims} " ++
              (match r.access with | some a => toString a | none => "N") ++ ")") ++ ")"
      | _, _ => "bad-args"
  | _ => "bad-args"

/-- k.template count symbolType (b data) -/
def opKTemplate : List Sexp → String
  | [c, t, d] =>
      match Sexp.toNat? c, Sexp.toNat? t, Sexp.bytes? d with
      | some c', some t', some bs =>
          match Lgx.Up.parseTemplate c' t' bs with
          | .error e => "err " ++ e.render
          | .ok pt =>
              "ok " ++ (match pt.name with | some n => renderName n | none => "N") ++ " (" ++
              " ".intercalate (pt.members.map fun m =>
                s!"({renderName m.name} {m.info} {m.typ} {m.offset} {renderBool m.priv})") ++ ") (" ++
              " ".intercalate (pt.attributes.map renderName) ++ ") " ++
              (match pt.string with | some n => toString n | none => "N")
      | _, _, _ => "bad-args"
  | _ => "bad-args"

end Pycomm
