import PycommModel.OpsPath
import PycommModel.Logix.Kernels
namespace Pycomm
open Sexp Lgx.K

def item? : Sexp → Option Item
  | .list [i, e, s] => do pure { id := ← Sexp.toNat? i, error := ← bool? e, size := ← Sexp.toNat? s }
  | _ => none

def renderNats (xs : List Nat) : String := "(" ++ " ".intercalate (xs.map toString) ++ ")"

/-- k.plan C (id err size)… -/
def opKPlan : List Sexp → String
  | c :: items =>
      match Sexp.toNat? c, items.mapM item? with
      | some C, some its =>
          let p := plan C its
          "ok (groups " ++ " ".intercalate (p.groups.map renderNats) ++ ") (frag " ++ " ".intercalate (p.fragmented.map toString) ++ ")"
      | _, _ => "bad-args"
  | _ => "bad-args"

/-- k.masks w (bit T|F)… -> or-mask bytes, and-mask bytes -/
def opKMasks : List Sexp → String
  | w :: ops =>
      match Sexp.toNat? w, ops.mapM (fun o => match o with
          | .list [b, v] => do pure ((← Sexp.toNat? b), (← bool? v))
          | _ => none) with
      | some w', some ops' =>
          let m := applyOps ops'
          "ok " ++ (Sexp.ofBytes (maskBytes w' m.orM)).render ++ " " ++ (Sexp.ofBytes (maskBytes w' m.andM)).render
      | _, _ => "bad-args"
  | _ => "bad-args"

def opKBoolWin : List Sexp → String
  | [w, i, n] =>
      match bool? w, Sexp.toNat? i, Sexp.toNat? n with
      | some w', some i', some n' => let r := boolWindow w' i' n'; s!"ok {r.1} {r.2.1} {r.2.2}"
      | _, _, _ => "bad-args"
  | _ => "bad-args"

def opKKeep : List Sexp → String
  | [n, t] =>
      match Sexp.name? n, Sexp.toNat? t with
      | some n', some t' => "ok " ++ renderBool (keepSymbol n' t')
      | _, _ => "bad-args"
  | _ => "bad-args"

def opKTypeWord : List Sexp → String
  | [w, sc] =>
      match Sexp.toNat? w, Sexp.toNat? sc with
      | some w', some sc' =>
          let t := decodeTypeWord w'
          s!"ok {renderBool t.isStruct} {t.dims} {t.templateId} {t.atomicCode} {t.boolBit} {renderBool (isAlias sc')}"
      | _, _ => "bad-args"
  | _ => "bad-args"

def opKPackMulti : List Sexp → String
  | msgs =>
      match msgs.mapM Sexp.bytes? with
      | some ms => "ok " ++ (Sexp.ofBytes (packMulti ms)).render
      | none => "bad-args"

def opKUnpackMulti : List Sexp → String
  | [d] =>
      match Sexp.bytes? d with
      | some bs => "ok (" ++ " ".intercalate ((unpackMulti bs).map fun b => (Sexp.ofBytes b).render) ++ ")"
      | none => "bad-args"
  | _ => "bad-args"

/-- k.writefrags segSize len -> (offset length)… -/
def opKWriteFrags : List Sexp → String
  | [s, n] =>
      match Sexp.toNat? s, Sexp.toNat? n with
      | some s', some n' =>
          "ok " ++ " ".intercalate ((writeFragments s' (List.replicate n' 0)).map fun p => s!"({p.1} {p.2.length})")
      | _, _ => "bad-args"
  | _ => "bad-args"

/-- k.readfrags len (schedule…) -> offsets -/
def opKReadFrags : List Sexp → String
  | [n, .list sched] =>
      match Sexp.toNat? n, sched.mapM Sexp.toNat? with
      | some n', some sc =>
          let cyc := if sc.isEmpty then [] else (List.range (n' + 1)).map fun i => sc.getD (i % sc.length) 1
          "ok " ++ renderNats (readFragments (List.replicate n' 0) cyc (n' + 1) 0).1
      | _, _ => "bad-args"
  | _ => "bad-args"

/-- k.upload (insts…) (schedule…) -> uploaded instance ids -/
def opKUpload : List Sexp → String
  | [.list is, .list sched] =>
      match is.mapM Sexp.toNat?, sched.mapM Sexp.toNat? with
      | some is', some sc =>
          let cyc := if sc.isEmpty then [] else (List.range (is'.length + 1)).map fun i => sc.getD (i % sc.length) 1
          "ok " ++ renderNats (upload is' cyc (is'.length + 1) 0)
      | _, _ => "bad-args"
  | _ => "bad-args"

end Pycomm
