import PycommModel.Wire
import PycommModel.PathStr
namespace Pycomm
open Sexp Path

def lval? : Sexp → Option LVal
  | .list [.atom "i", x] => (Sexp.toInt? x).map LVal.int
  | s@(.list (.atom "b" :: _)) => (Sexp.bytes? s).map LVal.bytes
  | _ => none

def seg? : Sexp → Option Seg
  | .list [.atom "lg", v, t] => do
      let v' ← lval? v
      let t' ← Sexp.name? t
      pure (Seg.logical v' t')
  | .list [.atom "pt", p, l] => do
      let p' ← (match p with
        | .list [.atom "i", x] => (Sexp.toInt? x).map PortVal.int
        | s => (Sexp.name? s).map PortVal.name)
      let l' ← (match l with
        | .list [.atom "i", x] => (Sexp.toInt? x).map LinkVal.int
        | s@(.list (.atom "b" :: _)) => (Sexp.bytes? s).map LinkVal.bytes
        | s => (Sexp.name? s).map LinkVal.str)
      pure (Seg.port p' l')
  | .list [.atom "ds", s] => (Sexp.name? s).map Seg.dataStr
  | .list [.atom "db", b] => (Sexp.bytes? b).map Seg.dataBytes
  | .list [.atom "raw", b] => (Sexp.bytes? b).map Seg.raw
  | _ => none

def bool? : Sexp → Option Bool
  | .atom "T" => some true
  | .atom "F" => some false
  | _ => none

def renderBool (b : Bool) : String := if b then "T" else "F"

def renderBytesR (r : R Bytes) : String := renderR (fun bs => (Sexp.ofBytes bs).render) r

def renderPSeg : PSeg → String
  | .logical t v => "(lg " ++ toString t ++ " " ++ toString v ++ ")"
  | .symbol n => "(sym " ++ (Sexp.ofBytes n).render ++ ")"
  | .port p l => "(pt " ++ toString p ++ " " ++ (Sexp.ofBytes l).render ++ ")"

/-- path.epath (segs...) padded length padlen -/
def opPathEpath : List Sexp → String
  | [.list segs, p, l, pl] =>
      match segs.mapM seg?, bool? p, bool? l, bool? pl with
      | some ss, some p', some l', some pl' => renderBytesR (encEpath p' ss l' pl')
      | _, _, _, _ => "bad-args"
  | _ => "bad-args"

/-- path.seg seg padded -/
def opPathSeg : List Sexp → String
  | [s, p] =>
      match seg? s, bool? p with
      | some s', some p' =>
          -- a public CIPSegment.encode call: failures are DataError
          renderBytesR (match encSeg p' s' with | .ok b => .ok b | .error _ => .error .data)
      | _, _ => "bad-args"
  | _ => "bad-args"

def opPathReq : List Sexp → String
  | [c, i, a] =>
      match lval? c, lval? i, lval? a with
      | some c', some i', some a' => renderBytesR (requestPath c' i' a')
      | _, _, _ => "bad-args"
  | _ => "bad-args"

/-- path.tag name instanceId useIds -/
def opPathTag : List Sexp → String
  | [t, inst, u] =>
      match Sexp.name? t, Sexp.toNat? inst, bool? u with
      | some t', some i, some u' =>
          match tagRequestPath t' (if i == 0 then none else some i) u' with
          | .ok (some bs) => "ok " ++ (Sexp.ofBytes bs).render
          | .ok none => "ok N"
          | .error e => "err " ++ e.render
      | _, _, _ => "bad-args"
  | _ => "bad-args"

/-- path.parsepadded hex : the independent parser -/
def opPathParse : List Sexp → String
  | [b] =>
      match Sexp.bytes? b with
      | some bs => match parsePadded (bs.length + 1) bs with
          | some segs => "ok (" ++ " ".intercalate (segs.map renderPSeg) ++ ")"
          | none => "none"
      | none => "bad-args"
  | _ => "bad-args"

/-- path.conn "string" auto : host, port, encoded route (PADDED_EPATH.encode(route, length=True)) -/
def opPathConn : List Sexp → String
  | [s, a] =>
      match Sexp.name? s, bool? a with
      | some s', some a' =>
          match parseConnectionPath s' a' with
          | .error e => "err " ++ e.render
          | .ok (h, pt, segs) =>
              "ok " ++ (Sexp.ofName h).render ++ " " ++ (match pt with | some p => toString p | none => "N") ++ " " ++
                (match encEpath true segs true false with
                 | .ok bs => (Sexp.ofBytes bs).render
                 | .error e => "(err " ++ e.render ++ ")")
      | _, _ => "bad-args"
  | _ => "bad-args"

/-- path.route "string" : parse_cip_route(str) encoded -/
def opPathRoute : List Sexp → String
  | [s] =>
      match Sexp.name? s with
      | some s' =>
          match parseCipRouteStr s' false with
          | .error e => "err " ++ e.render
          | .ok segs => renderBytesR (encEpath true segs true true)
      | none => "bad-args"
  | _ => "bad-args"

end Pycomm
