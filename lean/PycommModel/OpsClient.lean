import PycommModel.OpsTarget
import PycommModel.OpsReply
import PycommModel.Client
import PycommModel.Identity
namespace Pycomm
open Sexp Tgt Path Cli Reply

def fault? : Sexp → Option Fault
  | .list [.atom "sendraise", k] => (Sexp.toNat? k).map Fault.sendRaise
  | .list [.atom "senddrop", k] => (Sexp.toNat? k).map Fault.sendDrop
  | .list [.atom "recvraise", k] => (Sexp.toNat? k).map Fault.recvRaise
  | _ => none

def route? : Sexp → Option RoutePath
  | .atom "T" => some .useCfg
  | .atom "F" => some .off
  | s@(.list (.atom "s" :: _)) => (Sexp.name? s).map RoutePath.str
  | s@(.list (.atom "b" :: _)) => (Sexp.bytes? s).map RoutePath.bytes
  | .list (.atom "segs" :: ss) => (ss.mapM seg?).map RoutePath.segs
  | _ => none

def renderTag (t : Tag) : String :=
  "(tag " ++ renderBool t.truthy ++ " " ++ t.value.toSexp.render ++ " " ++ renderErr (.ok t.error) ++ ")"

def renderExn (e : Exn) : String := "(raise " ++ e.render ++ ")"

inductive Op where
  | open
  | close
  | gm (a : GenArgs)
  | listId
  | modInfo (slot : Nat)
  | plcName
  | plcInfo (micro800 : Bool)
  | plcTime
  | setPlcTime (us : Nat)
  | withBlock (body : List Op) (bodyRaises : Bool)
  | pending (replies : List Bytes)   -- harness only: replies already waiting in the socket's queue (scripted / stale)

partial def op? : Sexp → Option Op
  | .list [.atom "open"] => some .open
  | .list [.atom "close"] => some .close
  | .list [.atom "listid"] => some .listId
  | .list [.atom "modinfo", s] => (Sexp.toNat? s).map Op.modInfo
  | .list [.atom "plcname"] => some .plcName
  | .list [.atom "plcinfo", m] => (bool? m).map Op.plcInfo
  | .list [.atom "plctime"] => some .plcTime
  | .list [.atom "setplctime", u] => (Sexp.toNat? u).map Op.setPlcTime
  | .list [.atom "gm", svc, c, i, a, d, dt, n, conn, ucs, rt] => do
      let dt' : Option Ty ← (match dt with | .atom "N" => some none | t => (Ty.ofSexp t).map some)
      pure (.gm { service := ← Sexp.toNat? svc, cls := ← lval? c, inst := ← lval? i, attr := ← lval? a, data := ← Sexp.bytes? d,
                  dataType := dt', name := ← Sexp.name? n, connected := ← bool? conn, unconnectedSend := ← bool? ucs,
                  route := ← route? rt })
  | .list (.atom "pending" :: rs) => (rs.mapM Sexp.bytes?).map Op.pending
  | .list [.atom "with", .list body, r] => do
      let b ← body.mapM op?
      let r' ← bool? r
      pure (.withBlock b r')
  | _ => none

abbrev W := World Ext

/-- list_identity / _list_identity: returns the identity dict or raises -/
def listIdentityOp (w : W) : W × String :=
  let (w1, r) := sendReq hookAll w .listIdentity false
  match r with
  | .error e => (w1, renderExn e)
  | .ok reply =>
      match reply with
      | none => (w1, "(identity (d))")
      | some raw =>
          match Ident.parseListIdentity raw with
          | some v => (w1, "(identity " ++ v.toSexp.render ++ ")")
          | none => (w1, "(identity (d))")

/-- get_module_info(slot): dict or ResponseError -/
def modInfoOp (w : W) (slot : Nat) : W × String :=
  let segs := w.drv.cipPath.take (w.drv.cipPath.length - 1) ++ [Seg.port (.name (nm "bp")) (.int slot)]
  match encEpath true segs true true with
  | .error _ => (w, renderExn .response)
  | .ok route =>
    let (w1, r) := genericMessage hookAll FUEL w
      { service := 0x01, cls := .bytes [0x01], inst := .bytes [0x01], connected := false, unconnectedSend := true,
        route := .bytes route, name := nm "get_module_info" }
    match r with
    | .error _ => (w1, renderExn .response)
    | .ok tag =>
        if tag.truthy then
          match tag.value with
          | .bytes b =>
              match Ident.decodeModuleIdentity b with
              | .ok (v, _) => (w1, "(identity " ++ v.toSexp.render ++ ")")
              | .error _ => (w1, renderExn .response)
          | _ => (w1, renderExn .response)
        else (w1, renderExn .response)

/-- LogixDriver.get_plc_name: the name or ResponseError -/
def plcNameOp (w : W) : W × String :=
  let (w0, pre) := ensureForwardOpen hookAll FUEL w
  match pre with
  | .error e => (w0, renderExn e)
  | .ok _ =>
    let (w1, r) := genericMessage hookAll FUEL w0
      { service := 0x01, cls := .bytes [0x64], inst := .int 1, dataType := some (.str .uint .latin1), name := nm "get_plc_name" }
    match r with
    | .error _ => (w1, renderExn .response)
    | .ok tag => if tag.truthy then (w1, "(ok " ++ tag.value.toSexp.render ++ ")") else (w1, renderExn .response)

def keyswitchText (b0 b1 : Nat) : Name :=
  match Status.lookupNat b0 Gen.keyswitch with
  | some tbl => (Status.lookupNat b1 tbl).getD Ident.unknown
  | none => Ident.unknown

/-- LogixDriver.get_plc_info: identity dict + keyswitch, or ResponseError -/
def plcInfoOp (w : W) (micro800 : Bool) : W × String :=
  let (w1, r) := genericMessage hookAll FUEL w
    { service := 0x01, cls := .bytes [0x01], inst := .bytes [0x01], connected := false, unconnectedSend := !micro800,
      name := nm "get_plc_info" }
  match r with
  | .error _ => (w1, renderExn .response)
  | .ok tag =>
      if tag.truthy then
        match tag.value with
        | .bytes b =>
            match Ident.decodeModuleIdentity b with
            | .ok (.dict kvs, _) =>
                match dictGet kvs ("status".toList.map Char.toNat) with
                | some (.bytes [s0, s1]) =>
                    (w1, "(identity " ++ (PyVal.dict (dictSet kvs ("keyswitch".toList.map Char.toNat)
                        (.str (keyswitchText s0.toNat s1.toNat)))).toSexp.render ++ ")")
                | _ => (w1, renderExn .response)
            | _ => (w1, renderExn .response)
        | _ => (w1, renderExn .response)
      else (w1, renderExn .response)

def usName : Name := [0xB5, 115]   -- "µs"

/-- LogixDriver.get_plc_time: microseconds or a falsy tag -/
def plcTimeOp (w : W) : W × String :=
  let ty : Ty := .struct (.cons (some []) (.nbytes 6) (.cons (some usName) (.int .ulint) .nil))
  let (w1, r) := genericMessage hookAll FUEL w
    { service := 0x03, cls := .bytes [0x8b], inst := .bytes [0x01], data := [1, 0, 0x0B, 0], dataType := some ty }
  match r with
  | .error e => (w1, renderExn e)
  | .ok tag =>
      if tag.truthy then
        match tag.value with
        | .dict kvs =>
            match dictGet kvs usName with
            | some (.int us) =>
                -- datetime(1970,1,1) + timedelta(microseconds=us) overflows after year 9999
                if us ≥ 253402300800000000 then (w1, renderExn (.foreign "OverflowError"))
                else (w1, "(time (i " ++ toString us ++ ") " ++ renderErr (.ok tag.error) ++ ")")
            | _ => (w1, "(time N " ++ renderErr (.ok tag.error) ++ ")")
        | _ => (w1, "(time N " ++ renderErr (.ok tag.error) ++ ")")
      else (w1, "(time N " ++ renderErr (.ok tag.error) ++ ")")

/-- LogixDriver.set_plc_time(us) -/
def setPlcTimeOp (w : W) (us : Nat) : W × String :=
  match encode (.struct (.cons none (.int .uint) (.cons none (.int .uint) (.cons none (.int .ulint) .nil))))
      (.list [.int 1, .int 6, .int us]) with
  | .error e => (w, renderExn e)
  | .ok data =>
    let (w1, r) := genericMessage hookAll FUEL w
      { service := 0x04, cls := .bytes [0x8b], inst := .bytes [0x01], data := data, name := nm "set_plc_time" }
    match r with
    | .error e => (w1, renderExn e)
    | .ok tag => (w1, renderTag tag)

partial def runOp (rnd : List Bytes) (w : W) : Op → W × List Bytes × String
  | .open =>
      let (w', r) := openDrv hookAll w (rnd.headD [])
      (w', rnd.drop (if w.drv.connectionOpened then 0 else 1),
        match r with | .ok b => "(ok " ++ renderBool b ++ ")" | .error e => renderExn e)
  | .close =>
      let (w', r) := closeDrv hookAll w
      (w', rnd, match r with | .ok _ => "(ok N)" | .error e => renderExn e)
  | .gm a =>
      let (w', r) := genericMessage hookAll FUEL w a
      (w', rnd, match r with | .ok t => renderTag t | .error e => renderExn e)
  | .listId => let (w', s) := listIdentityOp w; (w', rnd, s)
  | .modInfo s => let (w', out) := modInfoOp w s; (w', rnd, out)
  | .plcName => let (w', out) := plcNameOp w; (w', rnd, out)
  | .plcInfo m => let (w', out) := plcInfoOp w m; (w', rnd, out)
  | .plcTime => let (w', out) := plcTimeOp w; (w', rnd, out)
  | .setPlcTime u => let (w', out) := setPlcTimeOp w u; (w', rnd, out)
  | .pending rs =>
      -- the queue belongs to the socket object: without a socket there is nothing to pre-load
      (if w.drv.hasSock then { w with net := { w.net with pending := rs.map some } } else w, rnd, "(ok N)")
  | .withBlock body raises =>
      -- __enter__: open()
      let (w1, r) := openDrv hookAll w (rnd.headD [])
      let rnd1 := rnd.drop (if w.drv.connectionOpened then 0 else 1)
      match r with
      | .error e => (w1, rnd1, "(with " ++ renderExn e ++ ")")
      | .ok _ =>
          let rec go (w : W) (rnd : List Bytes) (ops : List Op) (acc : List String) : W × List Bytes × List String × Bool :=
            match ops with
            | [] => (w, rnd, acc, false)
            | o :: rest =>
                let (w', rnd', s) := runOp rnd w o
                if s.startsWith "(raise" then (w', rnd', acc ++ [s], true) else go w' rnd' rest (acc ++ [s])
          let (w2, rnd2, outs, raised) := go w1 rnd1 body []
          -- __exit__: close(); a CommError from close is logged and swallowed
          let (w3, _) := closeDrv hookAll w2
          let tail := if raised then "" else if raises then " (raise foreign:UserError)" else ""
          (w3, rnd2, "(with " ++ " ".intercalate outs ++ tail ++ ")")

/-- client.run BASE (driver (s path) auto) (faults…) (rnd hex…) (ops…) -/
def opClientRun : List Sexp → String
  | [b, .list [.atom "driver", p, auto], .list faults, .list rnds, .list ops] =>
      match base? b, Sexp.name? p, bool? auto, faults.mapM fault?, rnds.mapM Sexp.bytes?, ops.mapM op? with
      | some base, some path, some auto', some fl, some rnd, some ops' =>
          match parseConnectionPath path auto' with
          | .error e => "err " ++ e.render
          | .ok (_, _, cip) =>
              let w0 : W := { drv := { cipPath := cip }, net := { target := { base := base, ext := {} }, faults := fl } }
              let rec go (w : W) (rnd : List Bytes) (ops : List Op) (acc : List String) : W × List String :=
                match ops with
                | [] => (w, acc)
                | o :: rest => let (w', rnd', s) := runOp rnd w o; go w' rnd' rest (acc ++ [s])
              let (w, outs) := go w0 rnd ops' []
              "ok (results " ++ " ".intercalate outs ++ ") (frames " ++
                " ".intercalate (w.net.sent.map fun f => (Sexp.ofBytes f).render) ++ ") (connected " ++
                renderBool w.drv.connectionOpened ++ ") " ++ (targetState w.net.target).drop 3 ++ " (log " ++
                " ".intercalate (w.net.target.base.events.map renderEvent) ++ ")"
      | _, _, _, _, _, _ => "bad-args"
  | _ => "bad-args"

end Pycomm

namespace Pycomm
open Sexp

def renderDec (r : R (PyVal × Bytes)) : String :=
  renderR (fun (x : PyVal × Bytes) => x.1.toSexp.render ++ " " ++ toString x.2.length) r

def opIdentDecMod : List Sexp → String
  | [b] => match Sexp.bytes? b with | some bs => renderDec (Ident.decodeModuleIdentity bs) | none => "bad-args"
  | _ => "bad-args"

def opIdentDecList : List Sexp → String
  | [b] => match Sexp.bytes? b with | some bs => renderDec (Ident.decodeListIdentity bs) | none => "bad-args"
  | _ => "bad-args"

def opIdentEncMod : List Sexp → String
  | [v] => match PyVal.ofSexp v with
      | some v' => renderR (fun bs => (Sexp.ofBytes bs).render) (Ident.encodeModuleIdentity v')
      | none => "bad-args"
  | _ => "bad-args"

end Pycomm

namespace Pycomm
open Sexp Encap

/-- encap.build KIND session|N (b context) option (b cid)|N seq (b message) -/
def opEncapBuild : List Sexp → String
  | [.atom kind, sess, ctx8, opt, cid, seq, msg] =>
      let sess' : Option (Option Nat) := match sess with | .atom "N" => some none | s => (Sexp.toNat? s).map some
      match sess', Sexp.bytes? ctx8, Sexp.toNat? opt, optBytes? cid, Sexp.toNat? seq, Sexp.bytes? msg with
      | some s, some c, some o, some cid', some sq, some m =>
          let ctx : Ctx := { session := s, context := c, option := o, targetCid := cid' }
          let req : Option Req := match kind with
            | "register" => some (.registerSession (m.take 2) (m.drop 2))
            | "unregister" => some .unregisterSession
            | "listidentity" => some .listIdentity
            | "rr" => some (.sendRR m)
            | "unit" => some (.sendUnit sq m)
            | _ => none
          match req with
          | some r =>
              let out := buildRequest r ctx
              renderR (fun bs => (Sexp.ofBytes bs).render ++ " " ++
                (match parseFrame bs with
                 | some f => "frame-ok " ++ (match parseCpf f.body with | some _ => "cpf-ok" | none => "cpf-none")
                 | none => "frame-bad")) out
          | none => "bad-args"
      | _, _, _, _, _, _ => "bad-args"
  | _ => "bad-args"

end Pycomm
