/-
  The universe of Python values the model talks about, and exception outcomes.
-/
import PycommModel.Bytes
namespace Pycomm

/-- Unicode code points -/
abbrev Name := List Nat

inductive Exn where
  | data          -- pycomm3.DataError
  | bufferEmpty   -- pycomm3.BufferEmptyError (a DataError subclass)
  | request       -- pycomm3.RequestError
  | response      -- pycomm3.ResponseError
  | comm          -- pycomm3.CommError
  | foreign (name : String)  -- anything that is not a PycommError
  | hang          -- the call would not terminate (fuel exhausted)
  deriving Repr, DecidableEq, Inhabited

def Exn.isLibrary : Exn → Bool
  | .foreign _ => false
  | .hang => false
  | _ => true

inductive PyVal where
  | none
  | bool (b : Bool)
  | int (i : Int)
  | float (bits : Nat)          -- IEEE-754 binary64 bit pattern
  | str (cs : Name)
  | bytes (bs : Bytes)
  | list (xs : List PyVal)
  | tuple (xs : List PyVal)
  | dict (kvs : List (Name × PyVal))   -- insertion order; str keys only
  deriving Repr, Inhabited

/-- Python truthiness -/
def PyVal.truthy : PyVal → Bool
  | .none => false
  | .bool b => b
  | .int i => i != 0
  | .float bits => bits % 2 ^ 63 != 0     -- ±0.0 are falsy, NaN truthy
  | .str cs => !cs.isEmpty
  | .bytes bs => !bs.isEmpty
  | .list xs => !xs.isEmpty
  | .tuple xs => !xs.isEmpty
  | .dict kvs => !kvs.isEmpty

/-- `operator.index`-like view used by `struct.pack` integer formats: ints and bools only -/
def PyVal.asIndex : PyVal → Option Int
  | .int i => some i
  | .bool b => some (if b then 1 else 0)
  | _ => Option.none

/-- `len(v)`; `none` = TypeError -/
def PyVal.len? : PyVal → Option Nat
  | .str cs => some cs.length
  | .bytes bs => some bs.length
  | .list xs => some xs.length
  | .tuple xs => some xs.length
  | .dict kvs => some kvs.length
  | _ => Option.none

/-- view of a value as an indexable sequence (`v[i]` for i in range(len)); dict → none (KeyError) -/
def PyVal.seq? : PyVal → Option (List PyVal)
  | .list xs => some xs
  | .tuple xs => some xs
  | .bytes bs => some (bs.map fun b => .int b.toNat)
  | .str cs => some (cs.map fun c => .str [c])
  | _ => Option.none

def dictGet (kvs : List (Name × PyVal)) (k : Name) : Option PyVal :=
  (kvs.find? (fun kv => kv.1 == k)).map (·.2)

/-- dict assignment `d[k] = v` preserving first-insertion position -/
def dictSet (kvs : List (Name × PyVal)) (k : Name) (v : PyVal) : List (Name × PyVal) :=
  if kvs.any (fun kv => kv.1 == k) then kvs.map (fun kv => if kv.1 == k then (k, v) else kv)
  else kvs ++ [(k, v)]

def dictDel (kvs : List (Name × PyVal)) (k : Name) : List (Name × PyVal) :=
  kvs.filter (fun kv => kv.1 != k)

end Pycomm
