/-
  Model of slc_driver.py: parse_tag (the seven address patterns, applied with fullmatch, in the code's
  order), the PCCC typed-read / masked-write request fields, writeable_value, _parse_read_reply,
  request_status — and the reference SLC target's data table (DF1 protected typed logical read / masked
  write with three address fields, 1770-RM516).
-/
import PycommModel.PyStr
import PycommModel.Generated.Pccc
import PycommModel.Generated.Consts
import PycommModel.Codec
namespace Pycomm.Slc
open Pycomm.PyStr

def nm (s : String) : Name := s.toList.map Char.toNat

/-- what parse_tag returns -/
structure Addr where
  fileType : Name          -- upper-case letters
  fileNumber : Nat
  element : Nat
  posNumber : Nat := 0     -- I/O files: position (sub-element of the request)
  subElement : Nat := 0    -- bit number, or PRE/ACC/bit of timers and counters
  addressField : Nat       -- 2 = word, 3 = bit / sub-element
  count : Nat := 1
  tag : Name               -- address text without the {count} token
  deriving Repr, DecidableEq

/-- take 1..max decimal digits (greedy); `none` if there is no digit -/
def digits (max : Nat) (s : Name) : Option (Name × Name) :=
  let d := (s.takeWhile isDigitC).take max
  if d.isEmpty then none else some (d, s.drop d.length)

/-- optional `{digits}` at the very end; returns the count (default 1) and whether the whole rest was consumed -/
def countToken (s : Name) : Option (Option Nat) :=
  match s with
  | [] => some none
  | 123 :: r =>
      let d := r.takeWhile isDigitC
      if d.isEmpty then none
      else if r.drop d.length == [125] then some (some (decVal d)) else none
  | _ => none

def stripCount (tag : Name) : Name :=
  match find 123 tag with
  | some i => tag.take i
  | none => tag

def upperC (c : Nat) : Nat := if 97 ≤ c ∧ c ≤ 122 then c - 32 else c

def lookup (k : Name) : List (Name × Nat) → Option Nat
  | [] => none
  | (k', v) :: rest => if k' = k then some v else lookup k rest

def ctNames : List Name := (nm "ACC|PRE|EN|DN|TT|CU|CD|OV|UN|UA").splitOn 124

/-- try element digit counts from the longest down (regex backtracking): digits, one separator char, a name -/
def ctTail (r1 : Name) : Nat → Option (Nat × Nat)
  | 0 => none
  | k + 1 =>
      let d := r1.take (k + 1)
      if d.length = k + 1 ∧ d.all isDigitC then
        match r1.drop (k + 1) with
        | _sep :: sub =>
            if ctNames.contains (sub.map upperC) then
              match lookup (sub.map upperC) Gen.pcccCT with
              | some v => some (decVal d, v)
              | none => ctTail r1 k
            else ctTail r1 k
        | [] => ctTail r1 k
      else ctTail r1 k

/-- CT_RE: [CT]nnn:nnn<any char>(ACC|PRE|EN|…) -/
def parseCT (tag : Name) : Option Addr :=
  match tag with
  | t :: r0 =>
      if upperC t = 67 ∨ upperC t = 84 then
        match digits 3 r0 with
        | some (fn, 58 :: r1) =>
            match ctTail r1 3 with
            | some (el, v) =>
                if 1 ≤ decVal fn ∧ decVal fn ≤ 255 ∧ el ≤ 255 then
                  some { fileType := [upperC t], fileNumber := decVal fn, element := el, subElement := v,
                         addressField := 3, count := 1, tag := tag }
                else none
            | none => none
        | _ => none
      else none
  | [] => none

/-- optional `/dd` (1–2 digits) -/
def optBit (s : Name) : Option (Option Nat × Name) :=
  match s with
  | 47 :: r =>
      match digits 2 r with
      | some (d, rest) => some (some (decVal d), rest)
      | none => none
  | _ => some (none, s)

/-- LFBN_RE: [LFBN]nnn:nnn(/bb)?({n})? -/
def parseLFBN (tag : Name) : Option (Option Addr) :=
  match tag with
  | t :: r0 =>
      if upperC t = 76 ∨ upperC t = 70 ∨ upperC t = 66 ∨ upperC t = 78 then
        match digits 3 r0 with
        | some (fn, 58 :: r1) =>
            match digits 3 r1 with
            | some (el, r2) =>
                match optBit r2 with
                | some (bit, r3) =>
                    match countToken r3 with
                    | some cnt =>
                        -- the pattern matched: range checks decide, no further pattern is tried for word/bit forms
                        let ok := 1 ≤ decVal fn ∧ decVal fn ≤ 255 ∧ decVal el ≤ 255 ∧ (bit.getD 0) ≤ 15
                        some (if ok then
                          some { fileType := [upperC t], fileNumber := decVal fn, element := decVal el,
                                 subElement := bit.getD 0, addressField := if bit.isSome then 3 else 2,
                                 count := cnt.getD 1, tag := stripCount tag }
                        else none)
                    | none => none
                | none => none
            | none => none
        | _ => none
      else none
  | [] => none

/-- IO_RE: [IO](nnn)?:nnn(.nnn)?(/bb)?({n})? -/
def parseIO (tag : Name) : Option (Option Addr) :=
  match tag with
  | t :: r0 =>
      if upperC t = 73 ∨ upperC t = 79 then
        let r1 := match digits 3 r0 with | some (_, r) => r | none => r0
        match r1 with
        | 58 :: r2 =>
            match digits 3 r2 with
            | some (el, r3) =>
                let posRest : Option (Nat × Name) := match r3 with
                  | 46 :: r4 => (match digits 3 r4 with | some (p, r5) => some (decVal p, r5) | none => none)
                  | _ => some (0, r3)
                match posRest with
                | some (pos, r5) =>
                    match optBit r5 with
                    | some (bit, r6) =>
                        match countToken r6 with
                        | some cnt =>
                            let ok := decVal el ≤ 255 ∧ (bit.getD 0) ≤ 15
                            some (if ok then
                              some { fileType := [upperC t], fileNumber := if upperC t = 79 then 0 else 1, element := decVal el,
                                     posNumber := pos, subElement := bit.getD 0, addressField := if bit.isSome then 3 else 2,
                                     count := cnt.getD 1, tag := stripCount tag }
                            else none)
                        | none => none
                    | none => none
                | none => none
            | none => none
        | _ => none
      else none
  | [] => none

/-- S_RE: S:nnn(/bb)?({n})? -/
def parseS (tag : Name) : Option (Option Addr) :=
  match tag with
  | t :: 58 :: r1 =>
      if upperC t = 83 then
        match digits 3 r1 with
        | some (el, r2) =>
            match optBit r2 with
            | some (bit, r3) =>
                match countToken r3 with
                | some cnt =>
                    let ok := decVal el ≤ 255 ∧ (bit.getD 0) ≤ 15
                    some (if ok then
                      some { fileType := [83], fileNumber := 2, element := decVal el, subElement := bit.getD 0,
                             addressField := if bit.isSome then 3 else 2, count := cnt.getD 1,
                             tag := if bit.isSome then tag else stripCount tag }
                    else none)
                | none => none
            | none => none
        | none => none
      else none
  | _ => none

/-- B_RE: Bnnn/nnnn({n})? : word n // 16, bit n % 16 -/
def parseB (tag : Name) : Option Addr :=
  match tag with
  | t :: r0 =>
      if upperC t = 66 then
        match digits 3 r0 with
        | some (fn, 47 :: r1) =>
            match digits 4 r1 with
            | some (bn, r2) =>
                match countToken r2 with
                | some cnt =>
                    if 1 ≤ decVal fn ∧ decVal fn ≤ 255 ∧ decVal bn ≤ 4095 then
                      some { fileType := [66], fileNumber := decVal fn, element := decVal bn / 16, subElement := decVal bn % 16,
                             addressField := 3, count := cnt.getD 1, tag := stripCount tag }
                    else none
                | none => none
            | none => none
        | _ => none
      else none
  | [] => none

/-- parse_tag for the integer / binary / float / long / status / input / output / timer / counter files
    (ST and A files are outside C18 and not modelled: `none` here means "not one of the modelled patterns") -/
def parseTag (tag : Name) : Option Addr :=
  match parseCT tag with
  | some a => some a
  | none =>
    match parseLFBN tag with
    | some r => r
    | none =>
      match parseIO tag with
      | some r => r
      | none =>
        match parseS tag with
        | some r => r
        | none => parseB tag

def dataSize (ft : Name) : Nat := (lookup ft Gen.pcccDataSize).getD 0
def typeCode (ft : Name) : Nat := (lookup ft Gen.pcccDataType).getD 0

/-- one DF1 address field as the target reads it (1770-6.5.16, "protected typed logical read/write with three address
    fields"): a single byte addresses 0–254; the byte 0xFF expands the field to three bytes, the 16-bit value following
    low byte first -/
def readField : Bytes → Option (Nat × Bytes)
  | [] => none
  | b :: rest =>
      if b.toNat = 255 then
        match rest with
        | lo :: hi :: rest' => some (lo.toNat + 256 * hi.toNat, rest')
        | _ => none
      else some (b.toNat, rest)

/-- byte size, file number, file type, element, sub-element of a request, and what follows them -/
def decodeAddress (bs : Bytes) : Option (Nat × Nat × Nat × Nat × Nat × Bytes) :=
  match bs with
  | [] => none
  | size :: r0 =>
      match readField r0 with
      | none => none
      | some (fnum, r1) =>
        match r1 with
        | [] => none
        | ftype :: r2 =>
          match readField r2 with
          | none => none
          | some (elem, r3) =>
            match readField r3 with
            | none => none
            | some (sub, r4) => some (size.toNat, fnum, ftype.toNat, elem, sub, r4)

/-- slc_driver.py `_address_field`: one address field as the driver writes it: a single byte below 255, otherwise 0xFF and
    the 16-bit value (UINT.encode fails above 65535) -/
def packField (n : Nat) : R Bytes :=
  if n < 255 then packInt .usint (.int n)
  else do
    let w ← packInt .uint (.int n)
    .ok (0xFF :: w)

/-- the address fields of the PCCC request: byte size, file number, file type, element, sub-element -/
def addressFields (a : Addr) (size : Nat) : R Bytes := do
  let s ← packInt .usint (.int size)
  let f ← packField a.fileNumber
  let e ← packField a.element
  let p ← packField a.posNumber
  .ok (s ++ f ++ [UInt8.ofNat (typeCode a.fileType)] ++ e ++ p)

/-- `_write_tag`: the sub-element byte of a write request is the I/O position, except for the preset / accumulator of a
    timer or counter, which are words 1 and 2 of the element (word 0 holds the status bits) -/
def writeSub (a : Addr) : Nat :=
  if (a.fileType = nm "T" ∨ a.fileType = nm "C") ∧
     (a.subElement = (lookup (nm "PRE") Gen.pcccCT).getD 1 ∨ a.subElement = (lookup (nm "ACC") Gen.pcccCT).getD 2)
  then a.subElement else a.posNumber

/-- the address fields of a write request -/
def writeAddressFields (a : Addr) (size : Nat) : R Bytes := addressFields { a with posNumber := writeSub a } size

/-- element codec of a file type: INT (N,B,T,C,S,O,I), REAL (F), DINT (L) -/
def elemTy (ft : Name) : Option Ty :=
  match lookup ft (Gen.pcccCodec.map fun p => (p.1, if p.2 = nm "INT" then 1 else if p.2 = nm "REAL" then 2 else if p.2 = nm "DINT" then 3 else 0)) with
  | some 1 => some (.int .int)
  | some 2 => some .real
  | some 3 => some (.int .dint)
  | _ => none

/-- writeable_value: mask ++ data; also returns the data size to announce -/
def writeableValue (a : Addr) (v : PyVal) : Except Exn (Bytes × Nat) :=
  let bitField := a.addressField = 3
  let size := dataSize a.fileType
  match elemTy a.fileType with
  | none => .error .request
  | some ty =>
    if a.count > 1 then
      -- a bit address takes a single value: `Xf:e/b{n}` is refused before the values are looked at
      if bitField then .error .request else
      match v.len?, v.seq? with
      | some n, some xs =>
          if n < a.count then .error .request else
          match encodeList (encode ty) (xs.take a.count) with
          | .ok bs => .ok ([0xFF, 0xFF] ++ bs, size)
          | .error _ => .error .request
      | _, _ => .error (.foreign "TypeError")
    else if bitField then
      let isCT := a.fileType = [84] ∨ a.fileType = [67]
      if isCT ∧ (a.subElement = 1 ∨ a.subElement = 2) then
        match encode ty v with
        | .ok bs => .ok ([0xFF, 0xFF] ++ bs, 2)
        | .error _ => .error .request
      else
        match packInt .uint (.int (2 ^ a.subElement)) with
        | .ok m => .ok (m ++ (if v.truthy then m else [0, 0]), 2)
        | .error _ => .error .request
    else
      match encode ty v with
      | .ok bs => .ok ([0xFF, 0xFF] ++ bs, size)
      | .error _ => .error .request

/-- `(value & (1 << idx)) != 0` on a Python int (two's complement for negative values) -/
def intBit (i : Int) (b : Nat) : Bool := (i % ((2 ^ 64 : Nat) : Int)).toNat / 2 ^ b % 2 = 1

/-- _parse_read_reply on the data part of the reply -/
def parseReadReply (a : Addr) (data : Bytes) : Except Exn PyVal :=
  match elemTy a.fileType with
  | none => .error .response
  | some ty =>
    let size := dataSize a.fileType
    let dec (bs : Bytes) : Except Exn PyVal := match decode ty bs with | .ok (v, _) => .ok v | .error _ => .error .response
    if a.addressField = 3 then
      let isCT := a.fileType = [84] ∨ a.fileType = [67]
      if isCT ∧ a.subElement = 1 then dec ((data.drop 2).take size)
      else if isCT ∧ a.subElement = 2 then dec ((data.drop 4).take size)
      else if a.fileType = [70] then
        -- a float has no bits of its own: the bit of the element's first word, which is the word a bit write masks
        match decode (.int .uint) (data.take 2) with
        | .ok (.int i, _) => .ok (.bool (intBit i a.subElement))
        | _ => .error .response
      else
        match dec (data.take size) with
        | .ok (.int i) => .ok (.bool (intBit i a.subElement))
        | .ok _ => .error .response     -- `value & (1 << idx)` on a non-integer raises TypeError -> ResponseError
        | .error e => .error e
    else
      if size = 0 then .error .response else
      let rec go : Nat → Bytes → Except Exn (List PyVal)
        | 0, _ => .ok []
        | fuel + 1, bs =>
            if bs.isEmpty then .ok [] else
            match dec (bs.take size) with
            | .error e => .error e
            | .ok v => (go fuel (bs.drop size)).map (v :: ·)
      match go (data.length + 1) data with
      | .error e => .error e
      | .ok [v] => .ok v
      | .ok [] => .error .response      -- values_list[0] -> IndexError
      | .ok vs => .ok (.list vs)

/-! ### the reference SLC target: data table + DF1 typed read / masked write -/

structure SlcFile where
  num : Nat
  ftype : Nat        -- file type code (0x89 N, 0x85 B, …)
  data : Bytes
  deriving Repr, DecidableEq

abbrev Table := List SlcFile

def elemBytes (ftype : Nat) : Nat :=
  if ftype = 0x86 ∨ ftype = 0x87 then 6 else if ftype = 0x8A ∨ ftype = 0x91 then 4 else 2

/-- byte offset addressed by (element, sub-element): sub-elements are 16-bit words inside an element -/
def byteOffset (ftype elem sub : Nat) : Nat := elem * elemBytes ftype + 2 * sub

/-- protected typed logical read with three address fields -/
def typedRead (tbl : Table) (size fnum ftype elem sub : Nat) : Except Nat Bytes :=
  match tbl.find? (fun f => f.num == fnum) with
  | none => .error 0x10
  | some f =>
      if f.ftype ≠ ftype then .error 0x10
      else if size = 0 then .error 0x10
      else
        let off := byteOffset ftype elem sub
        if off + size > f.data.length then .error 0x50 else .ok ((f.data.drop off).take size)

def maskWords (mask : Nat) : Bytes → Bytes → Bytes
  | o1 :: o2 :: old, d1 :: d2 :: dat =>
      let o := o1.toNat + 256 * o2.toNat
      let d := d1.toNat + 256 * d2.toNat
      let n := (o &&& (65535 - mask)) ||| (d &&& mask)
      UInt8.ofNat (n % 256) :: UInt8.ofNat (n / 256) :: maskWords mask old dat
  | _, _ => []

/-- protected typed logical masked write: new word = (old & ~mask) | (data & mask) for every data word -/
def maskedWrite (tbl : Table) (size fnum ftype elem sub mask : Nat) (data : Bytes) : Except Nat Table :=
  match tbl.find? (fun f => f.num == fnum) with
  | none => .error 0x10
  | some f =>
      if f.ftype ≠ ftype then .error 0x10
      else if size = 0 ∨ size % 2 = 1 ∨ data.length ≠ size then .error 0x10
      else
        let off := byteOffset ftype elem sub
        if off + size > f.data.length then .error 0x50 else
        let old := (f.data.drop off).take size
        let nw := maskWords mask old data
        .ok (tbl.map fun g => if g.num == fnum then { g with data := f.data.take off ++ nw ++ f.data.drop (off + size) } else g)

end Pycomm.Slc
