/-
  Model of custom_types.py ModuleIdentityObject / ListIdentityObject (struct layouts regenerated from the
  source) and packets/ethernetip.py ListIdentityResponsePacket.
-/
import PycommModel.Generated.Identity
import PycommModel.StatusText
namespace Pycomm.Ident

def unknown : Name := [85, 78, 75, 78, 79, 87, 78]   -- "UNKNOWN"

/-- `TABLE.get(id, "UNKNOWN")` on the int-keyed part of VENDORS / PRODUCT_TYPES -/
def lookupId (k : Nat) : List (Nat × Name) → Name
  | [] => unknown
  | (k', v) :: rest => if k' = k then v else lookupId k rest

/-- `f"{n:08x}"` -/
def hex8 (n : Nat) : Name :=
  let d := Status.hexDigits n
  if d.length < 8 then List.replicate (8 - d.length) 48 ++ d else d

def kVendor : Name := "vendor".toList.map Char.toNat
def kProductType : Name := "product_type".toList.map Char.toNat
def kSerial : Name := "serial".toList.map Char.toNat

/-- the three replacements made after the plain struct decode (dict positions are kept) -/
def postprocess (kvs : List (Name × PyVal)) : Option (List (Name × PyVal)) :=
  match dictGet kvs kProductType, dictGet kvs kVendor, dictGet kvs kSerial with
  | some (.int pt), some (.int vd), some (.int se) =>
      some (dictSet (dictSet (dictSet kvs kProductType (.str (lookupId pt.toNat Gen.productTypes)))
              kVendor (.str (lookupId vd.toNat Gen.vendors))) kSerial (.str (hex8 se.toNat)))
  | _, _, _ => none

/-- ModuleIdentityObject.decode -/
def decodeModuleIdentity (bs : Bytes) : R (PyVal × Bytes) :=
  match decode (.struct Gen.moduleIdentityMembers) bs with
  | .ok (.dict kvs, rest) =>
      match postprocess kvs with
      | some kvs' => .ok (.dict kvs', rest)
      | none => .error .data
  | .ok _ => .error .data
  | .error e => .error e

/-- ListIdentityObject.decode -/
def decodeListIdentity (bs : Bytes) : R (PyVal × Bytes) :=
  match decode (.struct Gen.listIdentityMembers) bs with
  | .ok (.dict kvs, rest) =>
      match postprocess kvs with
      | some kvs' => .ok (.dict kvs', rest)
      | none => .error .data
  | .ok _ => .error .data
  | .error e => .error e

/-- ListIdentityResponsePacket: the `identity` attribute after parsing (`{}` when parsing failed) -/
def parseListIdentity (raw : Bytes) : Option PyVal :=
  match decodeListIdentity (raw.drop 26) with
  | .ok (v, _) => some v
  | .error _ => none

def lookupByName (k : Name) : List (Name × Nat) → Option Nat
  | [] => none
  | (k', v) :: rest =>
      -- dict built by successive assignment: a later duplicate name overrides
      match lookupByName k rest with
      | some v' => some v'
      | none => if k' = k then some v else none

def parseHex (cs : Name) : Option Nat :=
  cs.foldl (fun acc c => acc.bind fun a =>
    if 48 ≤ c ∧ c ≤ 57 then some (a * 16 + (c - 48))
    else if 97 ≤ c ∧ c ≤ 102 then some (a * 16 + (c - 87))
    else if 65 ≤ c ∧ c ≤ 70 then some (a * 16 + (c - 55))
    else none) (some 0)

/-- ModuleIdentityObject.encode(values): names back to ids, hex serial back to int, then the struct encoder -/
def encodeModuleIdentity (v : PyVal) : R Bytes :=
  match v with
  | .dict kvs =>
      match dictGet kvs kProductType, dictGet kvs kVendor, dictGet kvs kSerial with
      | some (.str pt), some (.str vd), some (.str se) =>
          match lookupByName pt Gen.productTypesByName, lookupByName vd Gen.vendorsByName,
                (if se.length % 2 == 0 then parseHex se else none) with
          | some pti, some vdi, some sei =>
              encode (.struct Gen.moduleIdentityMembers)
                (.dict (dictSet (dictSet (dictSet kvs kProductType (.int pti)) kVendor (.int vdi)) kSerial (.int sei)))
          | _, _, _ => .error .data
      | _, _, _ => .error .data
  | _ => .error .data

end Pycomm.Ident
