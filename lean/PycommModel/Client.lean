/-
  Model of cip_driver.py: CIPDriver state, open/close, session registration, forward open/close with the
  extended→standard fallback, generic_message, send/_send/_receive — running against the reference target
  through a scripted transport (the same script semantics as harness/fakesock.py).
-/
import PycommModel.Target
import PycommModel.Reply
import PycommModel.Seq
import PycommModel.PathStr
namespace Pycomm.Cli
open Pycomm.Tgt Pycomm.Encap Pycomm.Path Pycomm.Reply

inductive Fault where
  | sendRaise (k : Nat)   -- the k-th Socket.send raises (nothing leaves the client)
  | sendDrop (k : Nat)    -- the k-th message is lost on the way (no reply will come)
  | recvRaise (k : Nat)   -- the k-th Socket.receive raises
  deriving Repr, DecidableEq

/-- transport + peer -/
structure Net (σ : Type) where
  target : Target σ
  faults : List Fault := []
  nSend : Nat := 0
  nRecv : Nat := 0
  pending : List (Option Bytes) := []
  sent : List Bytes := []          -- every frame written by the client, in order
  tcpOpen : Bool := false

def Net.sockSend {σ} (hook : ObjHook σ) (n : Net σ) (msg : Bytes) : Net σ × Except Exn Unit :=
  let k := n.nSend
  let n := { n with nSend := k + 1 }
  if n.faults.contains (.sendRaise k) then (n, .error .comm)
  else
    let n := { n with sent := n.sent ++ [msg] }
    if n.faults.contains (.sendDrop k) then ({ n with pending := n.pending ++ [none] }, .ok ())
    else
      let (t', r) := handle hook n.target msg
      ({ n with target := t', pending := n.pending ++ [r] }, .ok ())

def dropNones : List (Option Bytes) → Option (Bytes × List (Option Bytes))
  | [] => none
  | none :: rest => dropNones rest
  | some r :: rest => some (r, rest)

def Net.sockReceive {σ} (n : Net σ) : Net σ × Except Exn Bytes :=
  let k := n.nRecv
  let n := { n with nRecv := k + 1 }
  if n.faults.contains (.recvRaise k) then ({ n with pending := n.pending.drop 1 }, .error .comm)
  else match dropNones n.pending with
    | some (r, rest) => ({ n with pending := rest }, .ok r)
    | none => ({ n with pending := [] }, .error .comm)

def Net.sockClose {σ} (n : Net σ) : Net σ :=
  if n.tcpOpen then { n with target := tcpClosed n.target, tcpOpen := false } else n

/-- CIPDriver attributes -/
structure Drv where
  hasSock : Bool := false
  session : Option Nat := some 0
  connectionOpened : Bool := false
  targetCid : Option Bytes := none
  targetIsConnected : Bool := false
  extendedFo : Bool := true
  connectionSize : Nat := 4000
  cid : Bytes := [0x27, 0x04, 0x19, 0x71]
  csn : Bytes := [0x27, 0x04]
  vid : Bytes := [0x09, 0x10]
  vsn : Bytes := [0x09, 0x10, 0x19, 0x71]
  cipPath : List Seg := []
  seqVal : Nat := 1          -- state of cycle(65535, start=1)
  context : Bytes := [95, 112, 121, 99, 111, 109, 109, 95]   -- b"_pycomm_"
  option : Nat := 0
  deriving Repr

def Drv.ctx (d : Drv) : Ctx := { session := d.session, context := d.context, option := d.option, targetCid := d.targetCid }

def Drv.nextSeq (d : Drv) : Nat × Drv :=
  let (v, val') := Seq.step Seq.STOP Seq.START d.seqVal
  (v, { d with seqVal := val' })

structure World (σ : Type) where
  drv : Drv
  net : Net σ

/-- CIPDriver.send for a request without `request.error`: build, _send, _receive (unless no_response) -/
def sendReq {σ} (hook : ObjHook σ) (w : World σ) (r : Req) (noResponse : Bool) : World σ × Except Exn (Option Bytes) :=
  match buildRequest r w.drv.ctx with
  | .error e => (w, .error e)
  | .ok frame =>
    -- `self._sock` is None before open() / after close(): AttributeError inside _send's try -> CommError
    if !w.drv.hasSock then (w, .error .comm) else
    let (n1, s) := w.net.sockSend hook frame
    match s with
    | .error _ => ({ w with net := n1 }, .error .comm)
    | .ok _ =>
      if noResponse then ({ w with net := n1 }, .ok none)
      else
        let (n2, rcv) := n1.sockReceive
        match rcv with
        | .error _ => ({ w with net := n2 }, .error .comm)
        | .ok reply => ({ w with net := n2 }, .ok (some reply))

/-- _register_session: `ok none` = returned None -/
def registerSession {σ} (hook : ObjHook σ) (w : World σ) : World σ × Except Exn (Option Nat) :=
  match w.drv.session with
  | some s => if s ≠ 0 then (w, .ok (some s)) else
      let (w1, r) := sendReq hook w (.registerSession [1, 0] [0, 0]) false
      match r with
      | .error e => (w1, .error e)
      | .ok reply =>
          let rr := parseRegister reply
          if rr.valid then ({ w1 with drv := { w1.drv with session := rr.session } }, .ok rr.session)
          else (w1, .ok none)
  | none =>
      -- `if self._session:` is falsy for None as well
      let (w1, r) := sendReq hook w (.registerSession [1, 0] [0, 0]) false
      match r with
      | .error e => (w1, .error e)
      | .ok reply =>
          let rr := parseRegister reply
          if rr.valid then ({ w1 with drv := { w1.drv with session := rr.session } }, .ok rr.session)
          else (w1, .ok none)

/-- CIPDriver.open: `ok b` = returned b; every exception is wrapped as CommError.
    `rnd` = the 8 bytes urandom delivers (cid, vsn) -/
def openDrv {σ} (hook : ObjHook σ) (w : World σ) (rnd : Bytes) : World σ × Except Exn Bool :=
  if w.drv.connectionOpened then (w, .ok true) else
  let d := { w.drv with hasSock := true, connectionOpened := true, cid := rnd.take 4, vsn := (rnd.drop 4).take 4 }
  let w1 : World σ := { drv := d, net := { w.net with tcpOpen := true, pending := if w.drv.hasSock then w.net.pending else [] } }
  let (w2, r) := registerSession hook w1
  match r with
  | .error _ => (w2, .error .comm)
  | .ok none => (w2, .ok false)
  | .ok (some _) => (w2, .ok true)

inductive RoutePath where
  | useCfg                 -- True
  | off                    -- False / empty
  | str (s : Name)
  | bytes (b : Bytes)
  | segs (s : List Seg)
  deriving Repr

/-- a Tag as returned to the caller -/
structure Tag where
  name : Name
  value : PyVal
  error : Option Err
  deriving Repr

def Tag.truthy (t : Tag) : Bool :=
  (match t.value with | .none => false | _ => true) && t.error.isNone

structure GenArgs where
  service : Nat
  cls : LVal
  inst : LVal
  attr : LVal := .bytes []
  data : Bytes := []
  dataType : Option Ty := none
  name : Name := []
  connected : Bool := true
  unconnectedSend : Bool := false
  route : RoutePath := .useCfg

def msgRouterPath : List Seg :=
  [Seg.logical (.bytes [0x02]) (nm "class_id"), Seg.logical (.int 1) (nm "instance_id")]

mutual
/-- _forward_open: `ok b` = returned b -/
def forwardOpen {σ} (hook : ObjHook σ) (fuel : Nat) (w : World σ) : World σ × Except Exn Bool :=
  match fuel with
  | 0 => (w, .error .hang)
  | fuel + 1 =>
  if w.drv.targetIsConnected then (w, .ok true) else
  if w.drv.session == some 0 then (w, .error .comm) else
  let d := w.drv
  let initNet := 0x4200
  let netParams : R Bytes :=
    if d.extendedFo then u32 ((d.connectionSize % 65536) + initNet * 65536)
    else u16 ((d.connectionSize % 512) ||| initNet)
  match netParams, encEpath true (d.cipPath ++ msgRouterPath) true false with
  | .ok np, .ok route =>
      let data := [0x0a, 0x05] ++ [0, 0, 0, 0] ++ d.cid ++ d.csn ++ d.vid ++ d.vsn ++ [0x07] ++ [0, 0, 0] ++
                  [0x01, 0x40, 0x20, 0x00] ++ np ++ [0x01, 0x40, 0x20, 0x00] ++ np ++ [0xa3]
      let (w1, r) := genericMessage hook fuel w
        { service := if d.extendedFo then 0x5B else 0x54, cls := .bytes [0x06], inst := .bytes [0x01], data := data,
          route := .bytes route, connected := false, name := nm "forward_open" }
      match r with
      | .error e => (w1, .error e)
      | .ok tag =>
          if tag.truthy then
            let cid := match tag.value with | .bytes b => b.take 4 | _ => []
            ({ w1 with drv := { w1.drv with targetCid := some cid, targetIsConnected := true } }, .ok true)
          else (w1, .ok false)
  | _, _ => (w, .error .data)

/-- the with_forward_open decorator body: `ok ()` = the wrapped call may proceed -/
def ensureForwardOpen {σ} (hook : ObjHook σ) (fuel : Nat) (w : World σ) : World σ × Except Exn Unit :=
  match fuel with
  | 0 => (w, .error .hang)
  | fuel + 1 =>
  if w.drv.targetIsConnected then (w, .ok ()) else
  let (w1, r) := forwardOpen hook fuel w
  match r with
  | .error e => (w1, .error e)
  | .ok true => (w1, .ok ())
  | .ok false =>
      if w1.drv.extendedFo then
        let w2 := { w1 with drv := { w1.drv with extendedFo := false, connectionSize := 500 } }
        let (w3, r2) := forwardOpen hook fuel w2
        match r2 with
        | .error e => (w3, .error e)
        | .ok true => (w3, .ok ())
        | .ok false => (w3, .error .response)
      else (w1, .error .response)

/-- generic_message -/
def genericMessage {σ} (hook : ObjHook σ) (fuel : Nat) (w : World σ) (a : GenArgs) : World σ × Except Exn Tag :=
  match fuel with
  | 0 => (w, .error .hang)
  | fuel + 1 =>
  let (w0, pre) : World σ × Except Exn Unit := if a.connected then ensureForwardOpen hook fuel w else (w, .ok ())
  match pre with
  | .error e => (w0, .error e)
  | .ok _ =>
    match requestPath a.cls a.inst a.attr with
    | .error e => (w0, .error e)
    | .ok reqPath =>
      if a.connected then
        let (seq, d1) := w0.drv.nextSeq
        let w1 := { w0 with drv := d1 }
        let msg := [UInt8.ofNat a.service] ++ reqPath ++ a.data
        let (w2, r) := sendReq hook w1 (.sendUnit seq msg) false
        match r with
        | .error e => (w2, .error e)
        | .ok reply =>
            let (v, p, valid) := parseGeneric reply .connected a.dataType
            match errorCip reply .connected p valid with
            | .error e => (w2, .error e)
            | .ok err => (w2, .ok { name := a.name, value := v, error := err })
      else
        let route : R Bytes := match a.route with
          | .useCfg => encEpath true w0.drv.cipPath true true
          | .off => .ok []
          | .bytes b => .ok b
          | .str s =>
              match parseCipRouteStr s false with
              | .ok segs => encEpath true segs true true
              | .error e => .error e
          | .segs s => if s.isEmpty then .ok [] else encEpath true s true true
        match route with
        | .error e => (w0, .error e)
        | .ok rp =>
          let inner := [UInt8.ofNat a.service] ++ reqPath ++ a.data
          let msg : R Bytes :=
            if a.unconnectedSend then
              match requestPath (.bytes [0x06]) (.bytes [0x01]) (.bytes []), u16 inner.length with
              | .ok cm, .ok l => .ok ([0x52] ++ cm ++ [0x0a, 0x05] ++ l ++ inner ++ (if inner.length % 2 == 1 then [0] else []) ++ rp)
              | _, _ => .error .data
            else .ok (inner ++ rp)
          match msg with
          | .error e => (w0, .error e)
          | .ok m =>
            let (w2, r) := sendReq hook w0 (.sendRR m) false
            match r with
            | .error e => (w2, .error e)
            | .ok reply =>
                let (v, p, valid) := parseGeneric reply .unconnected a.dataType
                match errorCip reply .unconnected p valid with
                | .error e => (w2, .error e)
                | .ok err => (w2, .ok { name := a.name, value := v, error := err })
end

/-- enough fuel for forward open → generic message → (fallback) forward open … (depth ≤ 4) -/
def FUEL : Nat := 8

/-- _forward_close -/
def forwardClose {σ} (hook : ObjHook σ) (w : World σ) : World σ × Except Exn Bool :=
  if w.drv.session == some 0 then (w, .error .comm) else
  let d := w.drv
  match encEpath true (d.cipPath ++ msgRouterPath) true true with
  | .error e => (w, .error e)
  | .ok route =>
    let (w1, r) := genericMessage hook FUEL w
      { service := 0x4E, cls := .bytes [0x06], inst := .bytes [0x01], connected := false, route := .bytes route,
        data := [0x0a, 0x05] ++ d.csn ++ d.vid ++ d.vsn, name := nm "forward_close" }
    match r with
    | .error e => (w1, .error e)
    | .ok tag =>
        if tag.truthy then ({ w1 with drv := { w1.drv with targetIsConnected := false } }, .ok true)
        else (w1, .ok false)

/-- CIPDriver.close: `ok ()` or CommError when any step raised -/
def closeDrv {σ} (hook : ObjHook σ) (w : World σ) : World σ × Except Exn Unit :=
  -- first try block
  let (w1, e1) : World σ × Bool :=
    let (wa, ra) : World σ × Except Exn Unit :=
      if w.drv.targetIsConnected then
        (match forwardClose hook w with | (w', .error e) => (w', .error e) | (w', .ok _) => (w', .ok ()))
      else (w, .ok ())
    match ra with
    | .error _ => (wa, true)
    | .ok _ =>
        if wa.drv.session != some 0 then
          -- _un_register_session: send (no response), then session = None
          let (wb, rb) := sendReq hook wa .unregisterSession true
          match rb with
          | .error _ => (wb, true)
          | .ok _ => ({ wb with drv := { wb.drv with session := none } }, false)
        else (wa, false)
  -- second try block: socket close
  let n2 := if w1.drv.hasSock then w1.net.sockClose else w1.net
  let d2 := { w1.drv with hasSock := false, targetIsConnected := false, session := some 0, connectionOpened := false }
  ({ drv := d2, net := n2 }, if e1 then .error .comm else .ok ())

end Pycomm.Cli
