/-
  Line-protocol ops for the LogixDriver model (Logix/Driver.lean); driver glue only, nothing here is used in
  a theorem.

    ld.new BASE LOGIX (cfg (rev n) (micro800 b) (progtags b) (session n) (cid (b ..)) (seq n) (connsize n) (extfo b))
           (pre (b frame)…)
        a Lean-side session: a fresh reference target on the scenario, brought to the state the real `open()`
        left it in by replaying the frames the real driver emitted (`pre`), the driver state after `open()`,
        and the tag database computed from the project.
    ld.open BASE LOGIX (cfg (path (s ..)) (inittags b) (progtags b) (rnd (b 16 hex digits)) (faults FAULT…))
        a self-contained Lean-side session: a fresh reference target on the scenario and a fresh driver on which
        `Opn.openLogixSt` (= `LogixDriver.open()`) runs; nothing is taken from the real driver.
        -> ok (result (ok T|F)|(raise exn)) (frames (b ..)…) (drv …) (ldrv …)
    ld.tagdbof T|F     `Drv.tagDbOf` (program tags on / off) of the project held by the session's target, as `ld.tags` prints it
    ld.tags            the tag database, canonically
    ld.read (s tag)…   -> ok (tags …)|(raise exn) (frames (b ..)…)
    ld.write ((s tag) VALUE)…
    ld.mem / ld.log / ld.state   the session's own target (same renderings as target.mem / .log / .state)
-/
import PycommModel.OpsClient
import PycommModel.Logix.Driver
import PycommModel.Logix.Open
namespace Pycomm
open Sexp Tgt Lgx

structure LdSession where
  w : Cli.World Ext
  cfg : Drv.Cfg
  ldrv : Option Opn.LDrv := none       -- sessions made by `ld.open`: the LogixDriver state `open()` left

/-! ### rendering -/

def IntK.atom : IntK → String
  | .sint => "sint" | .int => "int" | .dint => "dint" | .lint => "lint"
  | .usint => "usint" | .uint => "uint" | .udint => "udint" | .ulint => "ulint"

def Enc.atom : Enc → String
  | .latin1 => "latin1" | .utf8 => "utf8" | .utf16 => "utf16" | .utf32 => "utf32"

mutual
/-- inverse of `Ty.ofSexp` (the format of harness/tygen.py `to_sx`) -/
partial def Ty.render : Ty → String
  | .bool => "bool"
  | .int k => "(int " ++ k.atom ++ ")"
  | .real => "real"
  | .lreal => "lreal"
  | .dateAndTime => "dt"
  | .str k e => "(str " ++ k.atom ++ " " ++ e.atom ++ ")"
  | .stringN n => s!"(stringn {n})"
  | .stringI => "stringi"
  | .bits k => "(bits " ++ k.atom ++ ")"
  | .nbytes n => s!"(nbytes {n})"
  | .arr l t =>
      "(arr " ++ (match l with
        | .all => "all"
        | .fixed n => s!"(fixed {n})"
        | .pref k => "(pref " ++ k.atom ++ ")") ++ " " ++ t.render ++ ")"
  | .struct ms => "(struct" ++ renderMembers ms ++ ")"
  | .fixedStr n k => s!"(fstr {n} " ++ k.atom ++ ")"
  | .structTag ms bits priv size =>
      s!"(stag {size} (" ++ " ".intercalate (renderTMembers ms) ++ ") (" ++
        " ".intercalate (bits.map fun b => "(" ++ (Sexp.ofName b.1).render ++ s!" {b.2.1} {b.2.2})") ++ ") (" ++
        " ".intercalate (priv.map fun n => (Sexp.ofName n).render) ++ "))"
  | .ipAddr => "ip"
partial def renderMembers : Members → String
  | .nil => ""
  | .cons n t rest =>
      " (" ++ (match n with | some x => (Sexp.ofName x).render | none => "N") ++ " " ++ t.render ++ ")" ++ renderMembers rest
partial def renderTMembers : TMembers → List String
  | .nil => []
  | .cons n t o rest => ("(" ++ (Sexp.ofName n).render ++ " " ++ t.render ++ s!" {o})") :: renderTMembers rest
end

def renderOptNat : Option Nat → String
  | some n => toString n
  | none => "N"

mutual
/-- (ti kind (s type name) TY dim (dims) inst off bit array STRUCT) -/
partial def renderTagInfo (i : Drv.TagInfo) : String :=
  let c := i.core
  "(ti " ++ (match c.tagType with | .atomic => "atomic" | .struct => "struct") ++ " " ++ (Sexp.ofName c.dataTypeName).render ++ " " ++
    c.ty.render ++ s!" {c.dim} (" ++ " ".intercalate (c.dimensions.map toString) ++ ") " ++ renderOptNat c.instanceId ++ " " ++
    renderOptNat c.offset ++ " " ++ renderOptNat c.bit ++ " " ++ renderOptNat c.array ++ " " ++
    (match c.struct with
     | none => "N"
     | some si =>
         "(st " ++ (Sexp.ofName si.name).render ++ " (" ++ " ".intercalate (si.attributes.map fun a => (Sexp.ofName a).render) ++
           s!") {si.size} {si.handle} " ++ renderOptNat si.string ++ " (" ++ " ".intercalate (renderITags i.members) ++ "))") ++ ")"
partial def renderITags : Drv.ITags → List String
  | .nil => []
  | .cons n i rest => ("(" ++ (Sexp.ofName n).render ++ " " ++ renderTagInfo i ++ ")") :: renderITags rest
end

def renderTagErr : Option Drv.TagErr → String
  | none => "none"
  | some (.text s) => (Sexp.ofName s).render
  | some (.reply e) => renderErr (.ok (some e))
  | some (.invalid exn) => "(invalid " ++ exn ++ ")"

def renderLTag (t : Drv.LTag) : String :=
  "(tag " ++ (Sexp.ofName t.tag).render ++ " " ++ t.value.toSexp.render ++ " " ++
    (match t.type with | some n => (Sexp.ofName n).render | none => "N") ++ " " ++ renderTagErr t.error ++ ")"

def renderLdResult (w : Cli.World Ext) (r : Except Exn (List Drv.LTag)) : String :=
  "ok " ++ (match r with
    | .ok ts => "(tags " ++ " ".intercalate (ts.map renderLTag) ++ ")"
    | .error e => "(raise " ++ e.render ++ ")") ++
  " (frames " ++ " ".intercalate (w.net.sent.map fun f => (Sexp.ofBytes f).render) ++ ")"

/-! ### session -/

def replayFrames (t : FullTarget) : List Bytes → FullTarget
  | [] => t
  | f :: rest => replayFrames (handle hookAll t f).1 rest

def field? (key : String) : List Sexp → Option Sexp
  | [] => none
  | .list [.atom k, v] :: rest => if k == key then some v else field? key rest
  | _ :: rest => field? key rest

def ldNew : List Sexp → Option LdSession ⊕ String
  | [b, l, .list (.atom "cfg" :: fs), .list (.atom "pre" :: pre)] =>
      match targetNew [b, l], pre.mapM Sexp.bytes? with
      | some t0, some frames =>
          let get (k : String) := field? k fs
          match (get "rev").bind Sexp.toNat?, (get "micro800").bind bool?, (get "progtags").bind bool?,
                (get "session").bind Sexp.toNat?, (get "cid").bind Sexp.bytes?, (get "seq").bind Sexp.toNat?,
                (get "connsize").bind Sexp.toNat?, (get "extfo").bind bool? with
          | some rev, some micro, some prog, some sess, some cid, some seq, some csize, some extfo =>
              let t1 := replayFrames t0 frames
              let t2 : FullTarget := { t1 with base := { t1.base with log := [] } }
              match t2.ext.logix with
              | none => .inr "no-logix"
              | some st =>
                  match Drv.tagDbOf st.proj prog with
                  | none => .inr "no-tagdb"
                  | some db =>
                      let drv : Cli.Drv := { hasSock := true, session := some sess, connectionOpened := true,
                                             targetCid := some cid, targetIsConnected := true, extendedFo := extfo,
                                             connectionSize := csize, seqVal := seq }
                      .inl (some { w := { drv := drv, net := { target := t2, tcpOpen := true } },
                                   cfg := { tags := db, micro800 := micro, useInstanceIds := Drv.useInstanceIdsOf rev micro } })
          | _, _, _, _, _, _, _, _ => .inr "bad-cfg"
      | _, _ => .inr "bad-args"
  | _ => .inr "bad-args"


/-! ### `ld.open`: the Lean-side `LogixDriver.open()` -/

def renderNames (xs : List Name) : String := " ".intercalate (xs.map fun n => (Sexp.ofName n).render)

def renderOptNames : Option (List Name) → String
  | none => "N"
  | some xs => "(" ++ renderNames xs ++ ")"

/-- (info PLC (name …) (programs …) (tasks …) (modules …)) -/
def renderInfo (i : Opn.Info) : String :=
  "(info " ++ (PyVal.dict i.plc).toSexp.render ++ " (name " ++ (match i.name with | some n => (Sexp.ofName n).render | none => "N") ++ ") (programs " ++
    (match i.programs with
     | none => "N"
     | some ps => " ".intercalate (ps.map fun p => "(" ++ (Sexp.ofName p.1).render ++ s!" {p.2.instanceId} (" ++ renderNames p.2.routines ++ "))")) ++
    ") (tasks " ++
    (match i.tasks with
     | none => "N"
     | some ts => " ".intercalate (ts.map fun t => "(" ++ (Sexp.ofName t.1).render ++ s!" {t.2})")) ++
    ") (modules " ++
    (match i.modules with
     | none => "N"
     | some ms => " ".intercalate (ms.map fun m => "(" ++ (Sexp.ofName m.1).render ++ " (slots " ++
         " ".intercalate (m.2.slots.map fun s => s!"({s.1} " ++ renderNames s.2 ++ ")") ++ ") (types " ++ renderOptNames m.2.types ++
         ") (unknown " ++ renderOptNames m.2.unknown ++ "))")) ++ "))"

def renderMeta (x : Name × Opn.TagMeta) : String :=
  let m := x.2
  "(" ++ (Sexp.ofName x.1).render ++ " " ++ renderBool m.alias ++ s!" {m.instanceId} {m.symbolAddress} {m.symbolObjectAddress} {m.softwareControl} " ++
    (Sexp.ofName m.externalAccess).render ++ " " ++ renderOptNat m.templateInstanceId ++ " " ++ renderOptNat m.bitPosition ++ ")"

def renderLDrv (l : Opn.LDrv) : String :=
  "(ldrv (micro800 " ++ renderBool l.micro800 ++ ") (useids " ++ renderBool l.useInstanceIds ++ ") (cacheleft " ++ renderBool l.cacheLeft ++ ") " ++
    renderInfo l.info ++ " (datatypes " ++ renderNames l.dataTypes ++ ") (metas " ++ " ".intercalate (l.metas.map renderMeta) ++ "))"

def renderDrv (d : Cli.Drv) : String :=
  "(drv (session " ++ renderOptNat d.session ++ ") (opened " ++ renderBool d.connectionOpened ++ ") (connected " ++ renderBool d.targetIsConnected ++
    ") (cid " ++ (match d.targetCid with | some b => (Sexp.ofBytes b).render | none => "N") ++ ") (extfo " ++ renderBool d.extendedFo ++
    s!") (connsize {d.connectionSize}) (seq {d.seqVal}) (route " ++
    (match Path.encEpath true d.cipPath true true with | .ok b => (Sexp.ofBytes b).render | .error _ => "E") ++ "))"

def ldOpen : List Sexp → Option LdSession × String
  | [b, l, .list (.atom "cfg" :: fs)] =>
      match targetNew [b, l] with
      | none => (none, "err bad-target")
      | some t0 =>
          let get (k : String) := field? k fs
          let faults : Option (List Cli.Fault) := match fs.find? (fun f => match f with | .list (.atom "faults" :: _) => true | _ => false) with
            | some (.list (_ :: xs)) => xs.mapM fault?
            | _ => some []
          match (get "path").bind Sexp.name?, (get "inittags").bind bool?, (get "progtags").bind bool?, (get "rnd").bind Sexp.bytes?, faults with
          | some path, some initTags, some progTags, some rnd, some fl =>
              -- LogixDriver._auto_slot_cip_path = True
              match Path.parseConnectionPath path true with
              | .error e => (none, "err " ++ e.render)
              | .ok (_, _, cip) =>
                  let w0 : Cli.World Ext := { drv := { cipPath := cip }, net := { target := t0, faults := fl } }
                  let (w, ld, r) := Opn.openLogixSt hookAll { initTags := initTags, initProgramTags := progTags } w0 {} rnd
                  (some { w := w, cfg := ld.cfg, ldrv := some ld },
                   "ok (result " ++ (match r with | .ok b => "(ok " ++ renderBool b ++ ")" | .error e => "(raise " ++ e.render ++ ")") ++
                     ") (frames " ++ " ".intercalate (w.net.sent.map fun f => (Sexp.ofBytes f).render) ++ ") " ++ renderDrv w.drv ++ " " ++ renderLDrv ld)
          | _, _, _, _, _ => (none, "err bad-cfg")
  | _ => (none, "err bad-args")

def ldTags (s : LdSession) : String :=
  "ok (cfg " ++ renderBool s.cfg.useInstanceIds ++ " " ++ renderBool s.cfg.micro800 ++ ") (tags " ++
    " ".intercalate (s.cfg.tags.map fun x => "(" ++ (Sexp.ofName x.1).render ++ " " ++ renderTagInfo x.2 ++ ")") ++ ")"

def clearSent (s : LdSession) : LdSession := { s with w := { s.w with net := { s.w.net with sent := [] } } }

def ldRead (s : LdSession) (args : List Sexp) : LdSession × String :=
  match args.mapM Sexp.name? with
  | none => (s, "bad-args")
  | some tags =>
      let s0 := clearSent s
      let (w, r) := Drv.read hookAll s0.cfg s0.w tags
      ({ s0 with w := w }, renderLdResult w r)

def ldWrite (s : LdSession) (args : List Sexp) : LdSession × String :=
  match args.mapM (fun a => match a with
      | .list [t, v] => do pure ((← Sexp.name? t), (← PyVal.ofSexp v))
      | _ => none) with
  | none => (s, "bad-args")
  | some tvs =>
      let s0 := clearSent s
      let (w, r) := Drv.write hookAll s0.cfg s0.w tvs
      ({ s0 with w := w }, renderLdResult w r)

/-- ops on the Lean-side LogixDriver session held by the driver process -/
def dispatchLd (ld : Option LdSession) (op : String) (args : List Sexp) : Option LdSession × String :=
  match op, ld with
  | "ld.new", _ =>
      match ldNew args with
      | .inl s => (s, "ok")
      | .inr why => (ld, "err " ++ why)
  | "ld.open", _ =>
      match ldOpen args with
      | (some s, out) => (some s, out)
      | (none, out) => (ld, out)
  | "ld.tagdbof", some s =>
      -- `Drv.tagDbOf` of the project the session's target holds, in the form of `ld.tags`
      match args, s.w.net.target.ext.logix with
      | [b], some st =>
          match bool? b with
          | none => (ld, "bad-args")
          | some prog =>
              match Drv.tagDbOf st.proj prog with
              | none => (ld, "none")
              | some db => (ld, ldTags { s with cfg := { s.cfg with tags := db } })
      | _, _ => (ld, "bad-args")
  | "ld.multipkt", _ =>
      -- `_send_requests`, multi branch: the packet-level error every embedded reply inherits (stateless)
      match args with
      | [r] =>
          match optBytes? r with
          | none => (ld, "bad-args")
          | some raw =>
              (ld, "ok " ++ (match Drv.multiPacketError (Drv.tagResp raw) with
                | .error e => "raise:" ++ e.render
                | .ok t => renderTagErr t) ++ " " ++ toString (Drv.embeddedReplies (Drv.tagResp raw).p.data).length)
      | _ => (ld, "bad-args")
  | "ld.pending", some s =>
      -- replies already waiting in the transport's queue (scripted / stale replies): the next receives return these,
      -- in order, before anything the target answers
      match args.mapM Sexp.bytes? with
      | none => (ld, "bad-args")
      | some rs => (some { s with w := { s.w with net := { s.w.net with pending := rs.map some } } }, "ok")
  | "ld.gettaglist", some s =>
      -- `get_tag_list(None)` / `get_tag_list('*')` on a session made by `ld.open`: result, frames, driver state
      match args, s.ldrv with
      | [b], some l =>
          match bool? b with
          | none => (ld, "bad-args")
          | some allPrograms =>
              let s0 := clearSent s
              let (w, l', r) := Opn.getTagList hookAll s0.w l allPrograms
              (some { s0 with w := w, cfg := l'.cfg, ldrv := some l' },
               "ok (result " ++ (match r with | .ok _ => "(ok T)" | .error e => "(raise " ++ e.render ++ ")") ++
                 ") (frames " ++ " ".intercalate (w.net.sent.map fun f => (Sexp.ofBytes f).render) ++ ") " ++ renderDrv w.drv ++ " " ++ renderLDrv l')
      | _, _ => (ld, "bad-args")
  | "ld.drv", some s => (ld, "ok " ++ renderDrv s.w.drv)
  | "ld.tags", some s => (ld, ldTags s)
  | "ld.read", some s => let (s', out) := ldRead s args; (some s', out)
  | "ld.write", some s => let (s', out) := ldWrite s args; (some s', out)
  | "ld.mem", some s => (ld, targetMem s.w.net.target)
  | "ld.state", some s => (ld, targetState s.w.net.target)
  | "ld.log", some s =>
      let (t', out) := targetLog s.w.net.target
      (some { s with w := { s.w with net := { s.w.net with target := t' } } }, out)
  | _, _ => (ld, "no-session")

end Pycomm
