/-
  Line-protocol ops for the LogixDriver model (Logix/Driver.lean); driver glue only, nothing here is used in
  a theorem.

    ld.new BASE LOGIX (cfg (rev n) (micro800 b) (progtags b) (session n) (cid (b ..)) (seq n) (connsize n) (extfo b))
           (pre (b frame)…)
        a Lean-side session: a fresh reference target on the scenario, brought to the state the real `open()`
        left it in by replaying the frames the real driver emitted (`pre`), the driver state after `open()`,
        and the tag database computed from the project.
    ld.tags            the tag database, canonically
    ld.read (s tag)…   -> ok (tags …)|(raise exn) (frames (b ..)…)
    ld.write ((s tag) VALUE)…
    ld.mem / ld.log / ld.state   the session's own target (same renderings as target.mem / .log / .state)
-/
import PycommModel.OpsClient
import PycommModel.Logix.Driver
namespace Pycomm
open Sexp Tgt Lgx

structure LdSession where
  w : Cli.World Ext
  cfg : Drv.Cfg

/-! ### rendering -/

def IntK.atom : IntK → String
  | .sint => "sint" | .int => "int" | .dint => "dint" | .lint => "lint"
  | .usint => "usint" | .uint => "uint" | .udint => "udint" | .ulint => "ulint"

def Enc.atom : Enc → String
  | .latin1 => "latin1" | .utf8 => "utf8" | .utf16 => "utf16" | .utf32 => "utf32"

mutual
/-- inverse of `Ty.ofSexp` (the format of harness/tygen.py `to_sx`) -/
partial def Ty.render : Ty → String
  | .bool => "bool"
  | .int k => "(int " ++ k.atom ++ ")"
  | .real => "real"
  | .lreal => "lreal"
  | .dateAndTime => "dt"
  | .str k e => "(str " ++ k.atom ++ " " ++ e.atom ++ ")"
  | .stringN n => s!"(stringn {n})"
  | .stringI => "stringi"
  | .bits k => "(bits " ++ k.atom ++ ")"
  | .nbytes n => s!"(nbytes {n})"
  | .arr l t =>
      "(arr " ++ (match l with
        | .all => "all"
        | .fixed n => s!"(fixed {n})"
        | .pref k => "(pref " ++ k.atom ++ ")") ++ " " ++ t.render ++ ")"
  | .struct ms => "(struct" ++ renderMembers ms ++ ")"
  | .fixedStr n k => s!"(fstr {n} " ++ k.atom ++ ")"
  | .structTag ms bits priv size =>
      s!"(stag {size} (" ++ " ".intercalate (renderTMembers ms) ++ ") (" ++
        " ".intercalate (bits.map fun b => "(" ++ (Sexp.ofName b.1).render ++ s!" {b.2.1} {b.2.2})") ++ ") (" ++
        " ".intercalate (priv.map fun n => (Sexp.ofName n).render) ++ "))"
  | .ipAddr => "ip"
partial def renderMembers : Members → String
  | .nil => ""
  | .cons n t rest =>
      " (" ++ (match n with | some x => (Sexp.ofName x).render | none => "N") ++ " " ++ t.render ++ ")" ++ renderMembers rest
partial def renderTMembers : TMembers → List String
  | .nil => []
  | .cons n t o rest => ("(" ++ (Sexp.ofName n).render ++ " " ++ t.render ++ s!" {o})") :: renderTMembers rest
end

def renderOptNat : Option Nat → String
  | some n => toString n
  | none => "N"

mutual
/-- (ti kind (s type name) TY dim (dims) inst off bit array STRUCT) -/
partial def renderTagInfo (i : Drv.TagInfo) : String :=
  let c := i.core
  "(ti " ++ (match c.tagType with | .atomic => "atomic" | .struct => "struct") ++ " " ++ (Sexp.ofName c.dataTypeName).render ++ " " ++
    c.ty.render ++ s!" {c.dim} (" ++ " ".intercalate (c.dimensions.map toString) ++ ") " ++ renderOptNat c.instanceId ++ " " ++
    renderOptNat c.offset ++ " " ++ renderOptNat c.bit ++ " " ++ renderOptNat c.array ++ " " ++
    (match c.struct with
     | none => "N"
     | some si =>
         "(st " ++ (Sexp.ofName si.name).render ++ " (" ++ " ".intercalate (si.attributes.map fun a => (Sexp.ofName a).render) ++
           s!") {si.size} {si.handle} " ++ renderOptNat si.string ++ " (" ++ " ".intercalate (renderITags i.members) ++ "))") ++ ")"
partial def renderITags : Drv.ITags → List String
  | .nil => []
  | .cons n i rest => ("(" ++ (Sexp.ofName n).render ++ " " ++ renderTagInfo i ++ ")") :: renderITags rest
end

def renderTagErr : Option Drv.TagErr → String
  | none => "none"
  | some (.text s) => (Sexp.ofName s).render
  | some (.reply e) => renderErr (.ok (some e))
  | some (.invalid exn) => "(invalid " ++ exn ++ ")"

def renderLTag (t : Drv.LTag) : String :=
  "(tag " ++ (Sexp.ofName t.tag).render ++ " " ++ t.value.toSexp.render ++ " " ++
    (match t.type with | some n => (Sexp.ofName n).render | none => "N") ++ " " ++ renderTagErr t.error ++ ")"

def renderLdResult (w : Cli.World Ext) (r : Except Exn (List Drv.LTag)) : String :=
  "ok " ++ (match r with
    | .ok ts => "(tags " ++ " ".intercalate (ts.map renderLTag) ++ ")"
    | .error e => "(raise " ++ e.render ++ ")") ++
  " (frames " ++ " ".intercalate (w.net.sent.map fun f => (Sexp.ofBytes f).render) ++ ")"

/-! ### session -/

def replayFrames (t : FullTarget) : List Bytes → FullTarget
  | [] => t
  | f :: rest => replayFrames (handle hookAll t f).1 rest

def field? (key : String) : List Sexp → Option Sexp
  | [] => none
  | .list [.atom k, v] :: rest => if k == key then some v else field? key rest
  | _ :: rest => field? key rest

def ldNew : List Sexp → Option LdSession ⊕ String
  | [b, l, .list (.atom "cfg" :: fs), .list (.atom "pre" :: pre)] =>
      match targetNew [b, l], pre.mapM Sexp.bytes? with
      | some t0, some frames =>
          let get (k : String) := field? k fs
          match (get "rev").bind Sexp.toNat?, (get "micro800").bind bool?, (get "progtags").bind bool?,
                (get "session").bind Sexp.toNat?, (get "cid").bind Sexp.bytes?, (get "seq").bind Sexp.toNat?,
                (get "connsize").bind Sexp.toNat?, (get "extfo").bind bool? with
          | some rev, some micro, some prog, some sess, some cid, some seq, some csize, some extfo =>
              let t1 := replayFrames t0 frames
              let t2 : FullTarget := { t1 with base := { t1.base with log := [] } }
              match t2.ext.logix with
              | none => .inr "no-logix"
              | some st =>
                  match Drv.tagDbOf st.proj prog with
                  | none => .inr "no-tagdb"
                  | some db =>
                      let drv : Cli.Drv := { hasSock := true, session := some sess, connectionOpened := true,
                                             targetCid := some cid, targetIsConnected := true, extendedFo := extfo,
                                             connectionSize := csize, seqVal := seq }
                      .inl (some { w := { drv := drv, net := { target := t2, tcpOpen := true } },
                                   cfg := { tags := db, micro800 := micro, useInstanceIds := Drv.useInstanceIdsOf rev micro } })
          | _, _, _, _, _, _, _, _ => .inr "bad-cfg"
      | _, _ => .inr "bad-args"
  | _ => .inr "bad-args"

def ldTags (s : LdSession) : String :=
  "ok (cfg " ++ renderBool s.cfg.useInstanceIds ++ " " ++ renderBool s.cfg.micro800 ++ ") (tags " ++
    " ".intercalate (s.cfg.tags.map fun x => "(" ++ (Sexp.ofName x.1).render ++ " " ++ renderTagInfo x.2 ++ ")") ++ ")"

def clearSent (s : LdSession) : LdSession := { s with w := { s.w with net := { s.w.net with sent := [] } } }

def ldRead (s : LdSession) (args : List Sexp) : LdSession × String :=
  match args.mapM Sexp.name? with
  | none => (s, "bad-args")
  | some tags =>
      let s0 := clearSent s
      let (w, r) := Drv.read hookAll s0.cfg s0.w tags
      ({ s0 with w := w }, renderLdResult w r)

def ldWrite (s : LdSession) (args : List Sexp) : LdSession × String :=
  match args.mapM (fun a => match a with
      | .list [t, v] => do pure ((← Sexp.name? t), (← PyVal.ofSexp v))
      | _ => none) with
  | none => (s, "bad-args")
  | some tvs =>
      let s0 := clearSent s
      let (w, r) := Drv.write hookAll s0.cfg s0.w tvs
      ({ s0 with w := w }, renderLdResult w r)

/-- ops on the Lean-side LogixDriver session held by the driver process -/
def dispatchLd (ld : Option LdSession) (op : String) (args : List Sexp) : Option LdSession × String :=
  match op, ld with
  | "ld.new", _ =>
      match ldNew args with
      | .inl s => (s, "ok")
      | .inr why => (ld, "err " ++ why)
  | "ld.tags", some s => (ld, ldTags s)
  | "ld.read", some s => let (s', out) := ldRead s args; (some s', out)
  | "ld.write", some s => let (s', out) := ldWrite s args; (some s', out)
  | "ld.mem", some s => (ld, targetMem s.w.net.target)
  | "ld.state", some s => (ld, targetState s.w.net.target)
  | "ld.log", some s =>
      let (t', out) := targetLog s.w.net.target
      (some { s with w := { s.w with net := { s.w.net with target := t' } } }, out)
  | _, _ => (ld, "no-session")

end Pycomm
