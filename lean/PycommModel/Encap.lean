/-
  Model of packets/base.py + packets/ethernetip.py request building (encapsulation header, common packet
  format, the five request kinds), and an independent strict frame parser (what a target does).
-/
import PycommModel.Epath
import PycommModel.Generated.Consts
namespace Pycomm.Encap

def CMD_NOP : Nat := 0x00
def CMD_LIST_IDENTITY : Nat := 0x63
def CMD_REGISTER : Nat := 0x65
def CMD_UNREGISTER : Nat := 0x66
def CMD_SEND_RR : Nat := 0x6F
def CMD_SEND_UNIT : Nat := 0x70

def ITEM_NULL : Nat := 0x0000
def ITEM_CONNECTION : Nat := 0x00A1
def ITEM_CONNECTED_DATA : Nat := 0x00B1
def ITEM_UNCONNECTED_DATA : Nat := 0x00B2

/-- driver-side values that go into every header -/
structure Ctx where
  session : Option Nat      -- `None` after _un_register_session until close() resets it to 0
  context : Bytes           -- 8 bytes
  option : Nat
  targetCid : Option Bytes  -- connection id from the Forward Open reply
  deriving Repr

def u16 (n : Nat) : R Bytes := packInt .uint (.int n)
def u32 (n : Nat) : R Bytes := packInt .udint (.int n)

/-- RequestPacket._build_header: any failure is CommError -/
def buildHeader (command : Nat) (length : Nat) (ctx : Ctx) : R Bytes :=
  match ctx.session with
  | none => .error .comm          -- UDINT.encode(None)
  | some s =>
    match u16 length, u32 s, u32 ctx.option with
    | .ok l, .ok se, .ok o => .ok (leBytes 2 command ++ l ++ se ++ [0, 0, 0, 0] ++ ctx.context ++ o)
    | _, _, _ => .error .comm

/-- RequestPacket._build_common_packet_format (errors of UINT.encode escape as DataError) -/
def buildCpf (addrType : Nat) (addrData : Option Bytes) (msgType : Nat) (message : Bytes) : R Bytes := do
  let ad ← match addrData with
    | none => pure [0, 0]
    | some d => do
        let l ← u16 d.length
        pure (l ++ d)
  let ml ← u16 message.length
  pure ([0, 0, 0, 0] ++ [0x0a, 0x00] ++ [0x02, 0x00] ++ leBytes 2 addrType ++ ad ++ leBytes 2 msgType ++ ml ++ message)

inductive Req where
  | registerSession (protocolVersion optionFlags : Bytes)
  | unregisterSession
  | listIdentity
  | sendRR (message : Bytes)                 -- unconnected message-router request
  | sendUnit (seq : Nat) (message : Bytes)   -- connected: sequence count + request
  deriving Repr

def Req.command : Req → Nat
  | .registerSession _ _ => CMD_REGISTER
  | .unregisterSession => CMD_UNREGISTER
  | .listIdentity => CMD_LIST_IDENTITY
  | .sendRR _ => CMD_SEND_RR
  | .sendUnit _ _ => CMD_SEND_UNIT

/-- RequestPacket.build_request -/
def buildRequest (r : Req) (ctx : Ctx) : R Bytes := do
  let common ← match r with
    | .registerSession pv fl => pure (pv ++ fl)
    | .unregisterSession => pure []
    | .listIdentity => pure []
    | .sendRR m => buildCpf ITEM_NULL none ITEM_UNCONNECTED_DATA m
    | .sendUnit seq m => do
        let s ← u16 seq
        buildCpf ITEM_CONNECTION ctx.targetCid ITEM_CONNECTED_DATA (s ++ m)
  let h ← buildHeader r.command common.length ctx
  pure (h ++ common)

/-! ### the independent strict frame parser -/

structure Frame where
  command : Nat
  session : Nat
  status : Nat
  context : Bytes
  options : Nat
  body : Bytes
  deriving Repr, DecidableEq

/-- exactly one encapsulation frame: 24-byte header whose length field equals the bytes that follow -/
def parseFrame (bs : Bytes) : Option Frame :=
  if bs.length < 24 then none else
  let len := leVal (bs.drop 2 |>.take 2)
  if bs.length ≠ 24 + len then none else
  some { command := leVal (bs.take 2), session := leVal (bs.drop 4 |>.take 4), status := leVal (bs.drop 8 |>.take 4),
         context := bs.drop 12 |>.take 8, options := leVal (bs.drop 20 |>.take 4), body := bs.drop 24 }

inductive Cpf where
  | unconnected (message : Bytes)                       -- null address + unconnected data
  | connected (cid : Nat) (seq : Nat) (message : Bytes) -- connection address + connected data
  deriving Repr, DecidableEq

/-- a SendRRData / SendUnitData body: interface handle 0, timeout, exactly two items whose lengths equal
    their contents exactly -/
def parseCpf (body : Bytes) : Option Cpf :=
  if body.length < 8 then none else
  if leVal (body.take 4) ≠ 0 then none else
  if leVal (body.drop 6 |>.take 2) ≠ 2 then none else
  let items := body.drop 8
  if items.length < 4 then none else
  let aType := leVal (items.take 2)
  let aLen := leVal (items.drop 2 |>.take 2)
  let afterA := items.drop (4 + aLen)
  if items.length < 4 + aLen + 4 then none else
  let aData := items.drop 4 |>.take aLen
  let dType := leVal (afterA.take 2)
  let dLen := leVal (afterA.drop 2 |>.take 2)
  let dData := afterA.drop 4
  if dData.length ≠ dLen then none else
  if aType = ITEM_NULL ∧ aLen = 0 ∧ dType = ITEM_UNCONNECTED_DATA then some (.unconnected dData)
  else if aType = ITEM_CONNECTION ∧ aLen = 4 ∧ dType = ITEM_CONNECTED_DATA ∧ 2 ≤ dLen then
    some (.connected (leVal aData) (leVal (dData.take 2)) (dData.drop 2))
  else none

end Pycomm.Encap
