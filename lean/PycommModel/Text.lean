/-
  The four Python text codecs pycomm3 uses (strict error handling), on code-point lists.
  `none` = UnicodeEncodeError / UnicodeDecodeError.
-/
import PycommModel.PyVal
namespace Pycomm

inductive Enc where
  | latin1 | utf8 | utf16 | utf32
  deriving Repr, DecidableEq, Inhabited

namespace Text

def isSurrogate (c : Nat) : Bool := 0xD800 ≤ c && c ≤ 0xDFFF

def b (n : Nat) : UInt8 := UInt8.ofNat n

def encChar : Enc → Nat → Option Bytes
  | .latin1, c => if c < 256 then some [b c] else none
  | .utf16, c =>
      if isSurrogate c || c > 0x10FFFF then none
      else if c < 0x10000 then some [b (c % 256), b (c / 256)]
      else
        let v := c - 0x10000
        let hi := 0xD800 + v / 1024
        let lo := 0xDC00 + v % 1024
        some [b (hi % 256), b (hi / 256), b (lo % 256), b (lo / 256)]
  | .utf32, c =>
      if isSurrogate c || c > 0x10FFFF then none
      else some [b (c % 256), b (c / 256 % 256), b (c / 65536 % 256), b (c / 16777216)]
  | .utf8, c =>
      if isSurrogate c || c > 0x10FFFF then none
      else if c < 0x80 then some [b c]
      else if c < 0x800 then some [b (0xC0 + c / 64), b (0x80 + c % 64)]
      else if c < 0x10000 then some [b (0xE0 + c / 4096), b (0x80 + c / 64 % 64), b (0x80 + c % 64)]
      else some [b (0xF0 + c / 262144), b (0x80 + c / 4096 % 64), b (0x80 + c / 64 % 64), b (0x80 + c % 64)]

def encode (e : Enc) : Name → Option Bytes
  | [] => some []
  | c :: cs => do
      let x ← encChar e c
      let r ← encode e cs
      pure (x ++ r)

def decLatin1 (bs : Bytes) : Name := bs.map (·.toNat)

def decUtf16 : Bytes → Option Name
  | [] => some []
  | [_] => none
  | l :: h :: rest =>
      let u := l.toNat + 256 * h.toNat
      if 0xD800 ≤ u ∧ u ≤ 0xDBFF then
        match rest with
        | l2 :: h2 :: rest2 =>
            let u2 := l2.toNat + 256 * h2.toNat
            if 0xDC00 ≤ u2 ∧ u2 ≤ 0xDFFF then
              (decUtf16 rest2).map (fun r => (0x10000 + (u - 0xD800) * 1024 + (u2 - 0xDC00)) :: r)
            else none
        | _ => none
      else if 0xDC00 ≤ u ∧ u ≤ 0xDFFF then none
      else (decUtf16 rest).map (fun r => u :: r)

def decUtf32 : Bytes → Option Name
  | [] => some []
  | a :: b1 :: c :: d :: rest =>
      let u := a.toNat + 256 * b1.toNat + 65536 * c.toNat + 16777216 * d.toNat
      if isSurrogate u || u > 0x10FFFF then none
      else (decUtf32 rest).map (fun r => u :: r)
  | _ => none

def isCont (x : UInt8) : Bool := 0x80 ≤ x.toNat && x.toNat ≤ 0xBF

/-- UTF-8 per Unicode Table 3-7 (what CPython implements) -/
def decUtf8 : Bytes → Option Name
  | [] => some []
  | a :: rest =>
      let x := a.toNat
      if x < 0x80 then (decUtf8 rest).map (fun r => x :: r)
      else if 0xC2 ≤ x ∧ x ≤ 0xDF then
        match rest with
        | c1 :: rest1 =>
            if isCont c1 then (decUtf8 rest1).map (fun r => ((x - 0xC0) * 64 + (c1.toNat - 0x80)) :: r) else none
        | _ => none
      else if 0xE0 ≤ x ∧ x ≤ 0xEF then
        match rest with
        | c1 :: c2 :: rest2 =>
            let lo := if x = 0xE0 then 0xA0 else 0x80
            let hi := if x = 0xED then 0x9F else 0xBF
            if lo ≤ c1.toNat ∧ c1.toNat ≤ hi ∧ isCont c2 then
              (decUtf8 rest2).map (fun r => ((x - 0xE0) * 4096 + (c1.toNat - 0x80) * 64 + (c2.toNat - 0x80)) :: r)
            else none
        | _ => none
      else if 0xF0 ≤ x ∧ x ≤ 0xF4 then
        match rest with
        | c1 :: c2 :: c3 :: rest3 =>
            let lo := if x = 0xF0 then 0x90 else 0x80
            let hi := if x = 0xF4 then 0x8F else 0xBF
            if lo ≤ c1.toNat ∧ c1.toNat ≤ hi ∧ isCont c2 ∧ isCont c3 then
              (decUtf8 rest3).map (fun r =>
                ((x - 0xF0) * 262144 + (c1.toNat - 0x80) * 4096 + (c2.toNat - 0x80) * 64 + (c3.toNat - 0x80)) :: r)
            else none
        | _ => none
      else none

def decode : Enc → Bytes → Option Name
  | .latin1, bs => some (decLatin1 bs)
  | .utf8, bs => decUtf8 bs
  | .utf16, bs => decUtf16 bs
  | .utf32, bs => decUtf32 bs

end Text
end Pycomm
