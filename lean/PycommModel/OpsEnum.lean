import PycommModel.Wire
import PycommModel.EnumMap
import PycommModel.StatusText
namespace Pycomm
open Sexp EMap

def atom? : Sexp → Option Atom
  | .list [.atom "i", x] => (Sexp.toInt? x).map Atom.int
  | s@(.list (.atom "s" :: _)) => (Sexp.name? s).map Atom.str
  | s@(.list (.atom "b" :: _)) => (Sexp.bytes? s).map fun bs => Atom.bytes (bs.map (·.toNat))
  | .list (.atom "o" :: cs) => (Sexp.nats? cs).map Atom.other
  | _ => none

def EMap.Atom.render : Atom → String
  | .int i => "(i " ++ toString i ++ ")"
  | .str s => (Sexp.ofName s).render
  | .bytes bs => (Sexp.ofBytes (bs.map UInt8.ofNat)).render
  | .other n => "(o" ++ String.join (n.map fun c => " " ++ toString c) ++ ")"

def findTable (n : Name) : Option Table := Gen.allTables.find? (fun t => t.name == n)

def opEnum (which : String) : List Sexp → String
  | [tn, a] =>
      match (Sexp.name? tn).bind findTable, atom? a with
      | some t, some k =>
          match which with
          | "getitem" => (match getItem t k with | some v => "ok " ++ v.render | none => "err foreign:KeyError")
          | "get" => "ok " ++ (get t k (.other [78])).render      -- default rendered as (o 78) = None
          | "contains" => if contains t k then "ok T" else "ok F"
          | _ => "bad-op"
      | _, _ => "bad-args"
  | _ => "bad-args"

def opStatusText : List Sexp → String
  | [n] => match Sexp.toNat? n with
      | some s => "ok " ++ (Sexp.ofName (Status.serviceStatusText s)).render
      | none => "bad-args"
  | _ => "bad-args"

end Pycomm
