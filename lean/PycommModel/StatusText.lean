/-
  Status texts: packets/util.py get_service_status over the generated SERVICE_STATUS table.
-/
import PycommModel.Generated.Tables
namespace Pycomm.Status

def hexDigitLower (n : Nat) : Nat := if n < 10 then 48 + n else 87 + n

/-- digits of `format(n, 'x')` -/
def hexDigits (n : Nat) : List Nat :=
  if h : n < 16 then [hexDigitLower n] else hexDigits (n / 16) ++ [hexDigitLower (n % 16)]
termination_by n
decreasing_by omega

/-- `f"{n:0>2x}"` -/
def hex2 (n : Nat) : Name :=
  let d := hexDigits n
  if d.length < 2 then List.replicate (2 - d.length) 48 ++ d else d

def lookupNat {α} (k : Nat) : List (Nat × α) → Option α
  | [] => none
  | (k', v) :: rest =>
      -- dict literal: a later duplicate key overrides
      match lookupNat k rest with
      | some v' => some v'
      | none => if k' = k then some v else none

/-- "Unknown Error (" -/
def unknownPrefix : Name := [85, 110, 107, 110, 111, 119, 110, 32, 69, 114, 114, 111, 114, 32, 40]

/-- `get_service_status(status)` -/
def serviceStatusText (s : Nat) : Name :=
  match lookupNat s Gen.serviceStatus with
  | some t => t
  | none => unknownPrefix ++ hex2 s ++ [41]

def isPrefixOf (p l : List Nat) : Bool :=
  match p, l with
  | [], _ => true
  | _, [] => false
  | a :: p', b :: l' => a == b && isPrefixOf p' l'

/-- substring test -/
def containsSub (sub : List Nat) : List Nat → Bool
  | [] => sub.isEmpty
  | c :: cs => isPrefixOf sub (c :: cs) || containsSub sub cs

end Pycomm.Status
