/-
  Model of the response classes: packets/base.py ResponsePacket, packets/ethernetip.py
  SendUnitData/SendRRData/RegisterSession/ListIdentity responses, packets/cip.py generic responses,
  packets/util.py get_service_status / get_extended_status.
-/
import PycommModel.StatusText
import PycommModel.Encap
namespace Pycomm.Reply
open Pycomm.Status

/-- what `response.error` can be -/
inductive Err where
  | noResponse            -- "No response data received"
  | parseFailed           -- "Failed to parse reply - <python exception text>"
  | text (s : Name)       -- a status text
  | unknownError          -- "Unknown Error"
  deriving Repr, DecidableEq, Inhabited

/-- python slice raw[a:b] -/
def slice (raw : Bytes) (a b : Nat) : Bytes := (raw.take b).drop a

/-- fields set by the `_parse_reply` chain -/
structure Parsed where
  err : Option Err := none            -- `_error`
  command : Option Bytes := none
  commandStatus : Option Int := none
  service : Option Bytes := none      -- request service code the reply answers (Services value), when known
  serviceStatus : Option Nat := none
  data : Option Bytes := none
  deriving Repr, DecidableEq, Inhabited

/-- ResponsePacket._parse_reply: command, encapsulation status (DINT, signed) -/
def parseBase (raw : Bytes) (p : Parsed) : Parsed :=
  let cmd := slice raw 0 2
  match decodeIntVal .dint (slice raw 8 12) with
  | .ok (st, _) => { p with command := some cmd, commandStatus := some st }
  | .error _ => { p with command := some cmd, err := some .parseFailed }

/-- Services.get(Services.from_reply(b)): the request service whose reply code is b, as Services value bytes.
    `none` result inside `ok` = None; error = an exception inside the try block -/
def serviceFromReply (b : Bytes) : Except Unit (Option Bytes) :=
  match b with
  | [] => .error ()                       -- USINT.decode(b"") raises
  | x :: _ =>
      if x.toNat < 128 then .error ()     -- USINT.encode(negative) raises
      else
        let code := x.toNat - 128
        -- Services[code bytes] -> name -> Services[name] -> value bytes
        match EMap.getItem Gen.tbl_Services (.bytes [code]) with
        | some (.str nm) =>
            match EMap.getItem Gen.tbl_Services (.str nm) with
            | some (.bytes v) => .ok (some (v.map UInt8.ofNat))
            | _ => .ok none
        | _ => .ok none

/-- the service part of a CIP reply at the transport's offsets (46/48/50 connected, 40/42/44 unconnected) -/
def parseService (raw : Bytes) (off : Nat) (p : Parsed) : Parsed :=
  match serviceFromReply (slice raw off (off + 1)) with
  | .error _ => { p with err := some .parseFailed }
  | .ok svc =>
      match slice raw (off + 2) (off + 3) with
      | [] => { p with service := svc, err := some .parseFailed }
      | st :: _ => { p with service := svc, serviceStatus := some st.toNat, data := some (raw.drop (off + 4)) }

inductive Transport where
  | connected | unconnected
  deriving Repr, DecidableEq

def Transport.off : Transport → Nat
  | .connected => 46
  | .unconnected => 40

/-- ResponsePacket.is_valid -/
def validBase (p : Parsed) : Bool :=
  p.err.isNone && p.command.isSome && p.commandStatus == some 0

def isMultiPacket (svc : Option Bytes) : Bool :=
  match svc with
  | some b => Gen.multiPacketServices.contains (b.map (·.toNat))
  | none => false

/-- SendUnitDataResponsePacket.is_valid / SendRRDataResponsePacket.is_valid -/
def validCip (tr : Transport) (p : Parsed) : Bool :=
  validBase p &&
  (match tr with
   | .connected => p.serviceStatus == some 0 || (p.serviceStatus == some 6 && isMultiPacket p.service)
   | .unconnected => p.serviceStatus == some 0)

/-- `f"{n:0>2x}"` for a Python int (negative numbers print a minus sign) -/
def hex2i (i : Int) : Name :=
  if 0 ≤ i then hex2 i.toNat
  else
    let d := 45 :: hexDigits i.natAbs
    if d.length < 2 then List.replicate (2 - d.length) 48 ++ d else d

def serviceStatusTextI (i : Int) : Name :=
  if 0 ≤ i then
    match lookupNat i.toNat Gen.serviceStatus with
    | some t => t
    | none => unknownPrefix ++ hex2i i ++ [41]
  else unknownPrefix ++ hex2i i ++ [41]

/-- get_extended_status(msg, start): `ok none` = None, error = BufferEmptyError/DataError escaping -/
def extendedStatus (raw : Bytes) (start : Nat) : Except Exn (Option Name) :=
  let s := raw.drop start
  match s with
  | [] => .error .bufferEmpty
  | status :: r1 =>
    match r1 with
    | [] => .error .bufferEmpty
    | sz :: r2 =>
      let size := sz.toNat * 2
      let ext? : Except Exn (Option Nat) :=
        if size = 0 then .ok (some 0)
        else if size = 2 then
          (match decodeIntNat .uint r2 with | .ok (v, _) => .ok (some v) | .error e => .error e)
        else if size = 4 then
          (match decodeIntNat .udint r2 with | .ok (v, _) => .ok (some v) | .error e => .error e)
        else .ok none
      match ext? with
      | .error e => .error e
      | .ok none => .ok (some ("[ERROR] Extended Status Size Unknown".toList.map Char.toNat))
      | .ok (some ext) =>
          match lookupNat status.toNat Gen.extendCodes with
          | none => .ok none
          | some tbl =>
              match lookupNat ext tbl with
              | none => .ok none
              | some txt => .ok (some (txt ++ [32, 32, 40] ++ hex2 status.toNat ++ [44, 32] ++ hex2 ext ++ [41]))

/-- command_extended_status / service_extended_status of the CIP responses -/
def extendedText (raw : Bytes) (tr : Transport) (status : Int) : Except Exn Name :=
  match extendedStatus raw (tr.off + 2) with
  | .error e => .error e
  | .ok (some ext) => .ok (serviceStatusTextI status ++ [32, 45, 32] ++ ext)
  | .ok none => .ok (serviceStatusTextI status)

/-- ResponsePacket.error for the CIP responses (`none` = no error) -/
def errorCip (raw : Option Bytes) (tr : Transport) (p : Parsed) (valid : Bool) : Except Exn (Option Err) :=
  if valid then .ok none
  else match p.err with
  | some e => .ok (some e)
  | none =>
    match raw with
    | none => .ok (some .unknownError)
    | some raw =>
      if p.commandStatus.isSome ∧ p.commandStatus ≠ some 0 then
        (extendedText raw tr (p.commandStatus.getD 0)).map fun t => some (.text t)
      else if p.serviceStatus.isSome ∧ p.serviceStatus ≠ some 0 then
        (extendedText raw tr (p.serviceStatus.getD 0 : Nat)).map fun t => some (.text t)
      else .ok (some .unknownError)

/-- ResponsePacket.error for the plain encapsulation responses -/
def errorBase (p : Parsed) (valid : Bool) : Option Err :=
  if valid then none
  else match p.err with
  | some e => some e
  | none => some .unknownError

/-- parse a SendUnitData / SendRRData reply as the generic response classes do -/
def parseCip (raw : Option Bytes) (tr : Transport) : Parsed :=
  match raw with
  | none => { err := some .noResponse }
  | some raw =>
      let p := parseBase raw {}
      -- the subclass try-block: a failure in the base parse does not stop the service parse, the last error wins
      parseService raw tr.off p

/-- Generic*ResponsePacket: (value, parsed, valid) — value is the raw data when no data type was given,
    the decoded value when the reply is valid and decodes, else None -/
def parseGeneric (raw : Option Bytes) (tr : Transport) (dataType : Option Ty) : PyVal × Parsed × Bool :=
  let p := parseCip raw tr
  match raw with
  | none => (.none, p, false)
  | some _ =>
    match dataType with
    | none => ((match p.data with | some d => PyVal.bytes d | none => PyVal.none), p, validCip tr p)
    | some ty =>
        if validCip tr p then
          match decode ty (p.data.getD []) with
          | .ok (v, _) => (v, p, true)
          | .error _ => (.none, { p with err := some .parseFailed }, false)
        else (.none, p, false)

/-- RegisterSessionResponsePacket -/
structure RegReply where
  p : Parsed
  session : Option Nat
  deriving Repr

def parseRegister (raw : Option Bytes) : RegReply :=
  match raw with
  | none => { p := { err := some .noResponse }, session := none }
  | some raw =>
      let p := parseBase raw {}
      match decodeIntNat .udint (slice raw 4 8) with
      | .ok (s, _) => { p := p, session := some s }
      | .error _ => { p := { p with err := some .parseFailed }, session := none }

def RegReply.valid (r : RegReply) : Bool := validBase r.p && r.session.isSome

end Pycomm.Reply
