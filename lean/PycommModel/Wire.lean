/-
  Line-protocol parsing of model inputs (driver side only).
-/
import PycommModel.Sexp
import PycommModel.Codec
namespace Pycomm
open Sexp

def IntK.ofAtom : String → Option IntK
  | "sint" => some .sint | "int" => some .int | "dint" => some .dint | "lint" => some .lint
  | "usint" => some .usint | "uint" => some .uint | "udint" => some .udint | "ulint" => some .ulint
  | _ => none

def Enc.ofAtom : String → Option Enc
  | "latin1" => some .latin1 | "utf8" => some .utf8 | "utf16" => some .utf16 | "utf32" => some .utf32
  | _ => none

def optName? : Sexp → Option (Option Name)
  | .atom "N" => some none
  | s => (Sexp.name? s).map some

def bitMember? : Sexp → Option (Name × Nat × Nat)
  | .list [n, o, b] => do
      let n' ← Sexp.name? n
      let o' ← Sexp.toNat? o
      let b' ← Sexp.toNat? b
      pure (n', o', b')
  | _ => none

mutual
partial def Ty.ofSexp : Sexp → Option Ty
  | .atom "bool" => some .bool
  | .atom "real" => some .real
  | .atom "lreal" => some .lreal
  | .atom "dt" => some .dateAndTime
  | .atom "stringi" => some .stringI
  | .atom "ip" => some .ipAddr
  | .list [.atom "int", .atom k] => (IntK.ofAtom k).map Ty.int
  | .list [.atom "str", .atom k, .atom e] => do
      let k' ← IntK.ofAtom k
      let e' ← Enc.ofAtom e
      pure (Ty.str k' e')
  | .list [.atom "stringn", n] => (Sexp.toNat? n).map Ty.stringN
  | .list [.atom "bits", .atom k] => (IntK.ofAtom k).map Ty.bits
  | .list [.atom "nbytes", n] => (Sexp.toInt? n).map Ty.nbytes
  | .list [.atom "arr", l, t] => do
      let l' ← (match l with
        | .atom "all" => some ArrLen.all
        | .list [.atom "fixed", n] => (Sexp.toNat? n).map ArrLen.fixed
        | .list [.atom "pref", .atom k] => (IntK.ofAtom k).map ArrLen.pref
        | _ => none)
      let t' ← Ty.ofSexp t
      pure (Ty.arr l' t')
  | .list (.atom "struct" :: ms) => (membersOfSexp ms).map Ty.struct
  | .list [.atom "fstr", n, .atom k] => do
      let n' ← Sexp.toNat? n
      let k' ← IntK.ofAtom k
      pure (Ty.fixedStr n' k')
  | .list [.atom "stag", size, .list ms, .list bits, .list priv] => do
      let size' ← Sexp.toNat? size
      let ms' ← tmembersOfSexp ms
      let bits' ← bits.mapM bitMember?
      let priv' ← priv.mapM Sexp.name?
      pure (Ty.structTag ms' bits' priv' size')
  | _ => none
partial def membersOfSexp : List Sexp → Option Members
  | [] => some .nil
  | .list [n, t] :: rest => do
      let n' ← optName? n
      let t' ← Ty.ofSexp t
      let r ← membersOfSexp rest
      pure (.cons n' t' r)
  | _ => none
partial def tmembersOfSexp : List Sexp → Option TMembers
  | [] => some .nil
  | .list [n, t, o] :: rest => do
      let n' ← Sexp.name? n
      let t' ← Ty.ofSexp t
      let o' ← Sexp.toNat? o
      let r ← tmembersOfSexp rest
      pure (.cons n' t' o' r)
  | _ => none
end

def renderR {α} (f : α → String) : R α → String
  | .ok a => "ok " ++ f a
  | .error e => "err " ++ e.render

def opCodecEnc : List Sexp → String
  | [t, v] =>
      match Ty.ofSexp t, PyVal.ofSexp v with
      | some t', some v' => renderR (fun bs => (Sexp.ofBytes bs).render) (encode t' v')
      | _, _ => "bad-args"
  | _ => "bad-args"

def opCodecDec : List Sexp → String
  | [t, b] =>
      match Ty.ofSexp t, Sexp.bytes? b with
      | some t', some bs =>
          renderR (fun (r : PyVal × Bytes) => r.1.toSexp.render ++ " " ++ toString r.2.length) (decode t' bs)
      | _, _ => "bad-args"
  | _ => "bad-args"

end Pycomm
