/-
  Bytes: little-endian integers, two's complement, hex.
  Core Lean only (no Mathlib): this file is linked into the `pymodel` executable.
-/
namespace Pycomm

abbrev Bytes := List UInt8

/-- `int.to_bytes(w, 'little')` for `0 ≤ n`; truncating (callers guard the range). -/
def leBytes : Nat → Nat → Bytes
  | 0, _ => []
  | w + 1, n => UInt8.ofNat (n % 256) :: leBytes w (n / 256)

/-- `int.from_bytes(bs, 'little')`. -/
def leVal : Bytes → Nat
  | [] => 0
  | b :: bs => b.toNat + 256 * leVal bs

/-- two's-complement reading of an unsigned `w`-byte value. -/
def toSigned (w : Nat) (n : Nat) : Int :=
  if n < 2 ^ (8 * w - 1) then (n : Int) else (n : Int) - (2 ^ (8 * w) : Nat)

/-- two's-complement representative of `i` in `w` bytes (callers guard the range). -/
def ofSigned (w : Nat) (i : Int) : Nat :=
  if 0 ≤ i then i.toNat else (i + (2 ^ (8 * w) : Nat)).toNat

def zeros (n : Nat) : Bytes := List.replicate n 0

/-! ### hex (driver side only) -/

def hexDigit (n : Nat) : Char :=
  if n < 10 then Char.ofNat (48 + n) else Char.ofNat (87 + n)

def toHex (bs : Bytes) : String :=
  String.ofList (bs.flatMap fun b => [hexDigit (b.toNat / 16), hexDigit (b.toNat % 16)])

def hexVal (c : Char) : Option Nat :=
  if '0' ≤ c ∧ c ≤ '9' then some (c.toNat - 48)
  else if 'a' ≤ c ∧ c ≤ 'f' then some (c.toNat - 87)
  else if 'A' ≤ c ∧ c ≤ 'F' then some (c.toNat - 55)
  else none

def ofHexChars : List Char → Option Bytes
  | [] => some []
  | [_] => none
  | a :: b :: rest => do
      let x ← hexVal a
      let y ← hexVal b
      let r ← ofHexChars rest
      pure (UInt8.ofNat (16 * x + y) :: r)

def ofHex (s : String) : Option Bytes := ofHexChars s.toList

end Pycomm
