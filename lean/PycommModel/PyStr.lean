/-
  Python str operations used by the path/tag/address parsers, on code-point lists (ASCII semantics;
  non-ASCII digits/whitespace are outside the modelled domain and never generated).
-/
import PycommModel.Codec
namespace Pycomm.PyStr

def isDigitC (c : Nat) : Bool := 48 ≤ c && c ≤ 57
def isSpaceC (c : Nat) : Bool := c == 32 || (9 ≤ c && c ≤ 13)

/-- `s.isdigit()` (ASCII) -/
def isDigit (s : Name) : Bool := !s.isEmpty && s.all isDigitC

def decVal (cs : Name) : Nat := cs.foldl (fun a c => a * 10 + (c - 48)) 0

def lstrip (s : Name) : Name := s.dropWhile isSpaceC
def rstrip (s : Name) : Name := (s.reverse.dropWhile isSpaceC).reverse
def strip (s : Name) : Name := rstrip (lstrip s)

/-- digit groups separated by single underscores: `1_000` -/
def digitsUnderscore : Name → Bool → Option (List Nat)
  | [], prevDigit => if prevDigit then some [] else none
  | c :: cs, prevDigit =>
      if isDigitC c then (digitsUnderscore cs true).map (c :: ·)
      else if c == 95 && prevDigit then
        match cs with
        | d :: _ => if isDigitC d then digitsUnderscore cs false else none
        | [] => none
      else none

/-- `int(s)` for a str: optional surrounding whitespace, optional sign, decimal digits (underscores allowed
    between digits); `none` = ValueError -/
def pyInt (s : Name) : Option Int :=
  let t := strip s
  let (neg, body) := match t with
    | 45 :: r => (true, r)
    | 43 :: r => (false, r)
    | r => (false, r)
  match digitsUnderscore body false with
  | some ds => if ds.isEmpty then none else
      let v : Int := decVal ds
      some (if neg then -v else v)
  | none => none

/-- `s.find(c)`: index of the first occurrence -/
def find (c : Nat) (s : Name) : Option Nat :=
  let i := s.takeWhile (· != c) |>.length
  if i < s.length then some i else none

/-- `s.replace(a, b)` for single characters -/
def replaceC (a b : Nat) (s : Name) : Name := s.map fun c => if c == a then b else c

/-- `s.startswith(p)` -/
def startsWith (p s : Name) : Bool := s.take p.length == p

/-- `s.split(sep)` for a single-character separator -/
def split (sep : Nat) (s : Name) : List Name := splitOn sep s

/-- `s.rsplit(sep, maxsplit=1)` -/
def rsplit1 (sep : Nat) (s : Name) : List Name :=
  match find sep s.reverse with
  | none => [s]
  | some i => [s.take (s.length - i - 1), s.drop (s.length - i)]

def toUpper (s : Name) : Name := s.map fun c => if 97 ≤ c ∧ c ≤ 122 then c - 32 else c
def toLower (s : Name) : Name := s.map fun c => if 65 ≤ c ∧ c ≤ 90 then c + 32 else c

/-! ### `bytes.decode("utf-8", errors="replace")` (template and member names of an uploaded structure definition) -/

def isCont (b : UInt8) : Bool := 0x80 ≤ b && b ≤ 0xBF
/-- range of the SECOND byte after lead `b` (Unicode table 3-7), and the number of continuation bytes -/
def lead (b : UInt8) : Option (Nat × UInt8 × UInt8) :=
  if 0xC2 ≤ b && b ≤ 0xDF then some (1, 0x80, 0xBF)
  else if b == 0xE0 then some (2, 0xA0, 0xBF)
  else if (0xE1 ≤ b && b ≤ 0xEC) || b == 0xEE || b == 0xEF then some (2, 0x80, 0xBF)
  else if b == 0xED then some (2, 0x80, 0x9F)
  else if b == 0xF0 then some (3, 0x90, 0xBF)
  else if 0xF1 ≤ b && b ≤ 0xF3 then some (3, 0x80, 0xBF)
  else if b == 0xF4 then some (3, 0x80, 0x8F)
  else none

/-- one step of the UTF-8 decoder with `errors="replace"` on a non-empty input: the code point produced and the number
    of bytes consumed (≥ 1); a maximal ill-formed subpart becomes one U+FFFD -/
def utf8Step (b : UInt8) (rest : Bytes) : Nat × Nat :=
  if b < 0x80 then (b.toNat, 1)
  else match lead b with
    | none => (0xFFFD, 1)
    | some (n, lo, hi) =>
      match rest with
      | [] => (0xFFFD, 1)
      | c1 :: r1 =>
        if !(lo ≤ c1 && c1 ≤ hi) then (0xFFFD, 1)
        else if n == 1 then ((b.toNat - 0xC0) * 64 + (c1.toNat - 0x80), 2)
        else match r1 with
          | [] => (0xFFFD, 2)
          | c2 :: r2 =>
            if !isCont c2 then (0xFFFD, 2)
            else if n == 2 then ((b.toNat - 0xE0) * 4096 + (c1.toNat - 0x80) * 64 + (c2.toNat - 0x80), 3)
            else match r2 with
              | [] => (0xFFFD, 3)
              | c3 :: _ =>
                if !isCont c3 then (0xFFFD, 3)
                else ((b.toNat - 0xF0) * 262144 + (c1.toNat - 0x80) * 4096 + (c2.toNat - 0x80) * 64 + (c3.toNat - 0x80), 4)

def utf8Go : Nat → Bytes → List Nat
  | 0, _ => []
  | _ + 1, [] => []
  | f + 1, b :: rest =>
      let (cp, k) := utf8Step b rest
      cp :: utf8Go f (rest.drop (k - 1))

/-- `bytes.decode("utf-8", errors="replace")` -/
def utf8Replace (bs : Bytes) : List Nat := utf8Go bs.length bs

end Pycomm.PyStr
