/-
  Python str operations used by the path/tag/address parsers, on code-point lists (ASCII semantics;
  non-ASCII digits/whitespace are outside the modelled domain and never generated).
-/
import PycommModel.Codec
namespace Pycomm.PyStr

def isDigitC (c : Nat) : Bool := 48 ≤ c && c ≤ 57
def isSpaceC (c : Nat) : Bool := c == 32 || (9 ≤ c && c ≤ 13)

/-- `s.isdigit()` (ASCII) -/
def isDigit (s : Name) : Bool := !s.isEmpty && s.all isDigitC

def decVal (cs : Name) : Nat := cs.foldl (fun a c => a * 10 + (c - 48)) 0

def lstrip (s : Name) : Name := s.dropWhile isSpaceC
def rstrip (s : Name) : Name := (s.reverse.dropWhile isSpaceC).reverse
def strip (s : Name) : Name := rstrip (lstrip s)

/-- digit groups separated by single underscores: `1_000` -/
def digitsUnderscore : Name → Bool → Option (List Nat)
  | [], prevDigit => if prevDigit then some [] else none
  | c :: cs, prevDigit =>
      if isDigitC c then (digitsUnderscore cs true).map (c :: ·)
      else if c == 95 && prevDigit then
        match cs with
        | d :: _ => if isDigitC d then digitsUnderscore cs false else none
        | [] => none
      else none

/-- `int(s)` for a str: optional surrounding whitespace, optional sign, decimal digits (underscores allowed
    between digits); `none` = ValueError -/
def pyInt (s : Name) : Option Int :=
  let t := strip s
  let (neg, body) := match t with
    | 45 :: r => (true, r)
    | 43 :: r => (false, r)
    | r => (false, r)
  match digitsUnderscore body false with
  | some ds => if ds.isEmpty then none else
      let v : Int := decVal ds
      some (if neg then -v else v)
  | none => none

/-- `s.find(c)`: index of the first occurrence -/
def find (c : Nat) (s : Name) : Option Nat :=
  let i := s.takeWhile (· != c) |>.length
  if i < s.length then some i else none

/-- `s.replace(a, b)` for single characters -/
def replaceC (a b : Nat) (s : Name) : Name := s.map fun c => if c == a then b else c

/-- `s.startswith(p)` -/
def startsWith (p s : Name) : Bool := s.take p.length == p

/-- `s.split(sep)` for a single-character separator -/
def split (sep : Nat) (s : Name) : List Name := splitOn sep s

/-- `s.rsplit(sep, maxsplit=1)` -/
def rsplit1 (sep : Nat) (s : Name) : List Name :=
  match find sep s.reverse with
  | none => [s]
  | some i => [s.take (s.length - i - 1), s.drop (s.length - i)]

def toUpper (s : Name) : Name := s.map fun c => if 97 ≤ c ∧ c ≤ 122 then c - 32 else c
def toLower (s : Name) : Name := s.map fun c => if 65 ≤ c ∧ c ≤ 90 then c + 32 else c

end Pycomm.PyStr
