/-
  Model of pycomm3/socket_.py: Socket.receive over a recv script, Socket.send over an accept script.
  The OS socket is a script of events; everything else is the code's loop structure.
-/
import PycommModel.PyVal
import PycommModel.Generated.Consts
namespace Pycomm.Sock

/-- what the transport does on successive recv calls -/
inductive Ev where
  | chunk (bs : Bytes)   -- these bytes arrive together (a recv returns at most 256 of them)
  | closed               -- the peer closed: recv returns b"" from now on
  | error                -- recv raises socket.error
  deriving Repr

def RECV_SIZE : Nat := 256

/-- one `sock.recv(256)`: `none` = raised socket.error (also: nothing ever arrives → timeout) -/
def recv1 : List Ev → Option Bytes × List Ev
  | [] => (none, [])
  | .error :: r => (none, r)
  | .closed :: r => (some [], .closed :: r)
  | .chunk bs :: r =>
      if bs.length ≤ RECV_SIZE then (some bs, r)
      else (some (bs.take RECV_SIZE), .chunk (bs.drop RECV_SIZE) :: r)

/-- `Socket._recv`: an empty read or a socket error is CommError -/
def recvSome (s : List Ev) : Except Exn (Bytes × List Ev) :=
  match recv1 s with
  | (none, _) => .error .comm
  | (some [], _) => .error .comm
  | (some d, s') => .ok (d, s')

/-- `while len(data) < target: data += self._recv()` -/
def fillTo : Nat → Nat → Bytes → List Ev → Except Exn (Bytes × List Ev)
  | 0, _, _, _ => .error .hang
  | fuel + 1, target, acc, s =>
      if target ≤ acc.length then .ok (acc, s) else
      match recvSome s with
      | .error e => .error e
      | .ok (d, s') => fillTo fuel target (acc ++ d) s'

def lenField (d : Bytes) : Nat := (d.getD 2 0).toNat + 256 * (d.getD 3 0).toNat

def scriptSize : List Ev → Nat
  | [] => 0
  | .chunk bs :: r => bs.length + 1 + scriptSize r
  | _ :: r => 1 + scriptSize r

/-- `Socket.receive` -/
def receive (s : List Ev) : Except Exn Bytes :=
  let fuel := scriptSize s + 2
  match recvSome s with
  | .error e => .error e
  | .ok (d, s1) =>
    match fillTo fuel Gen.HEADER_SIZE d s1 with
    | .error e => .error e
    | .ok (d2, s2) =>
      match fillTo fuel (Gen.HEADER_SIZE + lenField d2) d2 s2 with
      | .error e => .error e
      | .ok (d3, _) => .ok d3

/-- number of recv calls `receive` makes (for the step-budget clause) -/
def recvCalls : Nat → Nat → Bytes → List Ev → Nat
  | 0, _, _, _ => 0
  | fuel + 1, target, acc, s =>
      if target ≤ acc.length then 0 else
      match recvSome s with
      | .error _ => 1
      | .ok (d, s') => 1 + recvCalls fuel target (acc ++ d) s'

/-! ### send -/

/-- `Socket.send`: each entry says how many bytes the k-th `sock.send` accepts
    (`none` = raises socket.error; past the end of the script everything is accepted).
    Returns the byte stream handed to the OS and `total_sent`. -/
def send : Nat → List (Option Nat) → Bytes → Bytes → Except Exn (Bytes × Nat)
  | 0, _, _, _ => .error .hang
  | fuel + 1, script, sentSoFar, remaining =>
      if remaining.isEmpty then .ok (sentSoFar, sentSoFar.length) else
      match script with
      | [] => .ok (sentSoFar ++ remaining, sentSoFar.length + remaining.length)
      | none :: _ => .error .comm
      | some a :: rest =>
          let k := min a remaining.length
          if k = 0 then .error .comm
          else send fuel rest (sentSoFar ++ remaining.take k) (remaining.drop k)

def sendMsg (script : List (Option Nat)) (msg : Bytes) : Except Exn (Bytes × Nat) :=
  send (msg.length + 1) script [] msg

end Pycomm.Sock
