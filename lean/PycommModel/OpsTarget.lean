import PycommModel.OpsPath
import PycommModel.Target
import PycommModel.Logix.Services
import PycommModel.Slc
namespace Pycomm
open Sexp Tgt Path

/-- extension state of the full target -/
structure Ext where
  logix : Option Lgx.LState := none
  slc : Option Slc.Table := none

/-- PCCC object (class 0x67, instance 1), Execute PCCC service 0x4B -/
def pcccService (tbl : Slc.Table) (d : Bytes) : Slc.Table × MRReply :=
  -- requestor id: length (7), vendor id (2), serial number (4)
  if d.length < 7 + 5 then (tbl, { status := 0x13 }) else
  if u8at d 0 ≠ 7 then (tbl, { status := 0x13 }) else
  let rid := d.take 7
  let cmd := u8at d 7
  let tns := (d.drop 9).take 2
  let fnc := u8at d 11
  let reply (sts : Nat) (data : Bytes) : MRReply := { data := rid ++ [UInt8.ofNat (cmd + 0x40), UInt8.ofNat sts] ++ tns ++ data }
  if cmd ≠ 0x0F ∨ u8at d 8 ≠ 0 then (tbl, reply 0x10 []) else
  match Slc.decodeAddress (d.drop 12) with
  | none => (tbl, reply 0x10 [])
  | some (size, fnum, ftype, elem, sub, rest) =>
  if fnc = 0xA2 then
    if rest ≠ [] then (tbl, reply 0x10 []) else
    match Slc.typedRead tbl size fnum ftype elem sub with
    | .ok bs => (tbl, reply 0 bs)
    | .error e => (tbl, reply e [])
  else if fnc = 0xAB then
    if rest.length < 2 then (tbl, reply 0x10 []) else
    match Slc.maskedWrite tbl size fnum ftype elem sub (leVal (rest.take 2)) (rest.drop 2) with
    | .ok t' => (t', reply 0 [])
    | .error e => (tbl, reply e [])
  else (tbl, reply 0x10 [])

def hookAll : ObjHook Ext := fun t cs req =>
  match t.ext.slc, req.path, req.service with
  | some tbl, [.logical 0 0x67, .logical 4 1], 0x4B =>
      let (tbl', r) := pcccService tbl req.data
      some ({ t with ext := { t.ext with slc := some tbl' } }, r)
  | _, _, _ =>
  match t.ext.logix with
  | none => none
  | some st =>
      match Lgx.logixService st req cs with
      | none => none
      | some (st', r) => some ({ t with ext := { t.ext with logix := some st' } }, r)

abbrev FullTarget := Target Ext


def renderEvent : Event → String
  | .encap c s ok => s!"(encap {c} {s} {renderBool ok})"
  | .mr conn ucs req route =>
      s!"(mr {renderBool conn} {renderBool ucs} {req.service} (" ++ " ".intercalate (req.path.map renderPSeg) ++ ") " ++
        (Sexp.ofBytes req.data).render ++ " " ++ (Sexp.ofBytes route).render ++ ")"
  | .fo l sz ok => s!"(fo {renderBool l} {sz} {renderBool ok})"
  | .fc ok => s!"(fc {renderBool ok})"
  | .violation w => "(violation " ++ (Sexp.ofName (w.toList.map Char.toNat)).render ++ ")"

def identity? : Sexp → Option Identity
  | .list [.atom "identity", v, t, c, ma, mi, st, se, n, state, ip] => do
      pure { vendor := ← Sexp.toNat? v, productType := ← Sexp.toNat? t, productCode := ← Sexp.toNat? c,
             major := ← Sexp.toNat? ma, minor := ← Sexp.toNat? mi, status := ← Sexp.toNat? st, serial := ← Sexp.toNat? se,
             name := ← Sexp.bytes? n, state := ← Sexp.toNat? state, ip := ← Sexp.toNat? ip }
  | _ => none

/-- (base (policy s l f) (identity …) (name (b ..)) (time n) (generic status (ext…) (b data)) [(ids session cid)]) :
    the optional last item sets the first session handle and connection id the target grants -/
def base? : Sexp → Option Base
  | .list [.atom "base", pol, idn, nmv, tmv, gen, .list [.atom "ids", s0, c0]] => do
      let b ← base? (.list [.atom "base", pol, idn, nmv, tmv, gen])
      pure { b with nextSession := ← Sexp.toNat? s0, nextCid := ← Sexp.toNat? c0 }
  | .list [.atom "base", .list [.atom "policy", s, l, f], idn, .list [.atom "name", nm], .list [.atom "time", tm],
           .list [.atom "generic", gs, .list gext, gd]] => do
      let id ← identity? idn
      pure { policy := { sessionOk := ← bool? s, largeFoOk := ← bool? l, stdFoOk := ← bool? f },
             identity := id, plcName := ← Sexp.bytes? nm, timeUs := ← Sexp.toNat? tm,
             generic := { status := ← Sexp.toNat? gs, ext := ← gext.mapM Sexp.toNat?, data := ← Sexp.bytes? gd } }
  | _ => none

def member? : Sexp → Option Lgx.MemberDef
  | .list [.atom "m", n, i, t, o] => do
      pure { name := ← Sexp.name? n, info := ← Sexp.toNat? i, typeWord := ← Sexp.toNat? t, offset := ← Sexp.toNat? o }
  | _ => none

def template? : Sexp → Option Lgx.Template
  | .list [.atom "t", i, h, sz, nf, .list ms] => do
      pure { id := ← Sexp.toNat? i, handle := ← Sexp.toNat? h, size := ← Sexp.toNat? sz, nameField := ← Sexp.bytes? nf,
             members := ← ms.mapM member? }
  | _ => none

def symbol? : Sexp → Option Lgx.Symbol
  | .list [.atom "sym", i, n, t, .list ds, a3, a5, a6, acc, m] => do
      pure { inst := ← Sexp.toNat? i, name := ← Sexp.name? n, symbolType := ← Sexp.toNat? t, dims := ← ds.mapM Sexp.toNat?,
             attr3 := ← Sexp.toNat? a3, attr5 := ← Sexp.toNat? a5, attr6 := ← Sexp.toNat? a6, access := ← Sexp.toNat? acc,
             mem := ← Sexp.bytes? m }
  | _ => none

/-- (logix (rev n) (pages …) (tmpl …) (reads …) (templates …) (controller …) (programs ((s name) sym…) …)) -/
def logix? : Sexp → Option Lgx.LState
  | .list [.atom "logix", .list [.atom "rev", r], .list (.atom "pages" :: pg), .list (.atom "tmpl" :: tm),
           .list (.atom "reads" :: rd), .list (.atom "templates" :: ts), .list (.atom "controller" :: cs),
           .list (.atom "programs" :: ps)] => do
      let progs ← ps.mapM fun p => match p with
        | .list (n :: syms) => do
            let n' ← Sexp.name? n
            let ss ← syms.mapM symbol?
            pure (n', ss)
        | _ => none
      pure { rev := ← Sexp.toNat? r,
             proj := { templates := ← ts.mapM template?, controller := ← cs.mapM symbol?, programs := progs,
                       pageSchedule := ← pg.mapM Sexp.toNat?, tmplSchedule := ← tm.mapM Sexp.toNat?,
                       readSchedule := ← rd.mapM Sexp.toNat? } }
  | _ => none

def slcFile? : Sexp → Option Slc.SlcFile
  | .list [.atom "file", n, t, d] => do pure { num := ← Sexp.toNat? n, ftype := ← Sexp.toNat? t, data := ← Sexp.bytes? d }
  | _ => none

def targetNew : List Sexp → Option FullTarget
  | [b] => (base? b).map fun base => { base := base, ext := {} }
  | [b, .list (.atom "slc" :: files)] => do
      let base ← base? b
      let fs ← files.mapM slcFile?
      pure { base := base, ext := { slc := some fs } }
  | [b, l] => do
      let base ← base? b
      let lg ← logix? l
      pure { base := base, ext := { logix := some lg } }
  | _ => none

def renderSymMem (s : Lgx.Symbol) : String := "(" ++ toString s.inst ++ " " ++ (Sexp.ofBytes s.mem).render ++ ")"

def targetSlc (t : FullTarget) : String :=
  match t.ext.slc with
  | none => "none"
  | some tbl => "ok " ++ " ".intercalate (tbl.map fun f => s!"(file {f.num} {f.ftype} " ++ (Sexp.ofBytes f.data).render ++ ")")

/-- memory image and write log of the Logix project -/
def targetMem (t : FullTarget) : String :=
  match t.ext.logix with
  | none => "none"
  | some st =>
      "ok (controller " ++ " ".intercalate (st.proj.controller.map renderSymMem) ++ ") (programs " ++
        " ".intercalate (st.proj.programs.map fun p => "(" ++ (Sexp.ofName p.1).render ++ " " ++
          " ".intercalate (p.2.map renderSymMem) ++ ")") ++ ") (writes " ++
        " ".intercalate (st.proj.writeLog.map fun w => s!"({w.1} {w.2.1} {w.2.2})") ++ ")"

def renderConn (c : Conn) : String :=
  s!"(conn {c.cid} {c.session} {c.size} {renderBool c.large})"

def targetState (t : FullTarget) : String :=
  "ok (sessions " ++ " ".intercalate (t.base.sessions.map toString) ++ ") (conns " ++
    " ".intercalate (t.base.conns.map renderConn) ++ ") (time " ++ toString t.base.timeUs ++ ")"

/-- returns the event log and clears it -/
def targetLog (t : FullTarget) : FullTarget × String :=
  ({ t with base := { t.base with log := [] } }, "ok (" ++ " ".intercalate (t.base.events.map renderEvent) ++ ")")

def targetFrame (t : FullTarget) : List Sexp → FullTarget × String
  | [b] =>
      match Sexp.bytes? b with
      | some raw =>
          let (t', r) := handle hookAll t raw
          (t', match r with | some bs => "ok " ++ (Sexp.ofBytes bs).render | none => "none")
      | none => (t, "bad-args")
  | _ => (t, "bad-args")

end Pycomm
