import PycommModel.OpsPath
import PycommModel.Target
namespace Pycomm
open Sexp Tgt Path

/-- extension state of the full target (grows with the Logix / SLC parts) -/
structure Ext where
  dummy : Unit := ()

def hookAll : ObjHook Ext := fun _ _ _ => none

abbrev FullTarget := Target Ext


def renderEvent : Event → String
  | .encap c s ok => s!"(encap {c} {s} {renderBool ok})"
  | .mr conn ucs req route =>
      s!"(mr {renderBool conn} {renderBool ucs} {req.service} (" ++ " ".intercalate (req.path.map renderPSeg) ++ ") " ++
        (Sexp.ofBytes req.data).render ++ " " ++ (Sexp.ofBytes route).render ++ ")"
  | .fo l sz ok => s!"(fo {renderBool l} {sz} {renderBool ok})"
  | .fc ok => s!"(fc {renderBool ok})"
  | .violation w => "(violation " ++ (Sexp.ofName (w.toList.map Char.toNat)).render ++ ")"

def identity? : Sexp → Option Identity
  | .list [.atom "identity", v, t, c, ma, mi, st, se, n, state, ip] => do
      pure { vendor := ← Sexp.toNat? v, productType := ← Sexp.toNat? t, productCode := ← Sexp.toNat? c,
             major := ← Sexp.toNat? ma, minor := ← Sexp.toNat? mi, status := ← Sexp.toNat? st, serial := ← Sexp.toNat? se,
             name := ← Sexp.bytes? n, state := ← Sexp.toNat? state, ip := ← Sexp.toNat? ip }
  | _ => none

/-- (base (policy s l f) (identity …) (name (b ..)) (time n) (generic status (ext…) (b data))) -/
def base? : Sexp → Option Base
  | .list [.atom "base", .list [.atom "policy", s, l, f], idn, .list [.atom "name", nm], .list [.atom "time", tm],
           .list [.atom "generic", gs, .list gext, gd]] => do
      let id ← identity? idn
      pure { policy := { sessionOk := ← bool? s, largeFoOk := ← bool? l, stdFoOk := ← bool? f },
             identity := id, plcName := ← Sexp.bytes? nm, timeUs := ← Sexp.toNat? tm,
             generic := { status := ← Sexp.toNat? gs, ext := ← gext.mapM Sexp.toNat?, data := ← Sexp.bytes? gd } }
  | _ => none

def targetNew : List Sexp → Option FullTarget
  | [b] => (base? b).map fun base => { base := base, ext := {} }
  | _ => none

def renderConn (c : Conn) : String :=
  s!"(conn {c.cid} {c.session} {c.size} {renderBool c.large})"

def targetState (t : FullTarget) : String :=
  "ok (sessions " ++ " ".intercalate (t.base.sessions.map toString) ++ ") (conns " ++
    " ".intercalate (t.base.conns.map renderConn) ++ ") (time " ++ toString t.base.timeUs ++ ")"

/-- returns the event log and clears it -/
def targetLog (t : FullTarget) : FullTarget × String :=
  ({ t with base := { t.base with log := [] } }, "ok (" ++ " ".intercalate (t.base.events.map renderEvent) ++ ")")

def targetFrame (t : FullTarget) : List Sexp → FullTarget × String
  | [b] =>
      match Sexp.bytes? b with
      | some raw =>
          let (t', r) := handle hookAll t raw
          (t', match r with | some bs => "ok " ++ (Sexp.ofBytes bs).render | none => "none")
      | none => (t, "bad-args")
  | _ => (t, "bad-args")

end Pycomm
