import PycommModel.Wire
import PycommModel.Socket
namespace Pycomm
open Sexp Sock

def ev? : Sexp → Option Ev
  | .atom "closed" => some .closed
  | .atom "error" => some .error
  | .list [.atom "c"] => some (.chunk [])
  | .list [.atom "c", .atom h] => (ofHex h).map Ev.chunk
  | _ => none

def totalCalls (s : List Ev) : Nat :=
  -- recv calls made by receive: 1 + the two fill loops
  match recvSome s with
  | .error _ => 1
  | .ok (d, s1) =>
    let fuel := scriptSize s + 2
    let c1 := recvCalls fuel Gen.HEADER_SIZE d s1
    match fillTo fuel Gen.HEADER_SIZE d s1 with
    | .error _ => 1 + c1
    | .ok (d2, s2) => 1 + c1 + recvCalls fuel (Gen.HEADER_SIZE + lenField d2) d2 s2

def opSockRecv : List Sexp → String
  | [.list evs] =>
      match evs.mapM ev? with
      | some s => renderR (fun bs => (Sexp.ofBytes bs).render) (receive s) ++ " " ++ toString (totalCalls s)
      | none => "bad-args"
  | _ => "bad-args"

def accept? : Sexp → Option (Option Nat)
  | .atom "x" => some none
  | s => (Sexp.toNat? s).map some

def opSockSend : List Sexp → String
  | [.list acc, b] =>
      match acc.mapM accept?, Sexp.bytes? b with
      | some script, some msg =>
          renderR (fun (r : Bytes × Nat) => (Sexp.ofBytes r.1).render ++ " " ++ toString r.2) (sendMsg script msg)
      | _, _ => "bad-args"
  | _ => "bad-args"

end Pycomm
