import PycommModel.Bytes
import PycommModel.PyVal
import PycommModel.Sexp
import PycommModel.Float
import PycommModel.Text
import PycommModel.Codec
import PycommModel.Wire
import PycommModel.Generated.Consts
