import PycommModel
open Pycomm

def dispatch (op : String) (args : List Sexp) : String :=
  match op with
  | "ping" => "pong"
  | "codec.enc" => opCodecEnc args
  | "codec.dec" => opCodecDec args
  | "sock.recv" => opSockRecv args
  | "seq.hash" => opSeqHash args
  | "path.epath" => opPathEpath args
  | "path.seg" => opPathSeg args
  | "path.req" => opPathReq args
  | "path.tag" => opPathTag args
  | "path.parsepadded" => opPathParse args
  | "path.conn" => opPathConn args
  | "path.route" => opPathRoute args
  | "enum.getitem" => opEnum "getitem" args
  | "enum.get" => opEnum "get" args
  | "enum.contains" => opEnum "contains" args
  | "status.text" => opStatusText args
  | "seq.nth" => opSeqNth args
  | "sock.send" => opSockSend args
  | _ => "bad-op"

partial def loop (hin hout : IO.FS.Stream) : IO Unit := do
  let line ← hin.getLine
  if line.isEmpty then return ()
  let out :=
    match Sexp.parseLine line with
    | some (Sexp.atom op :: args) => dispatch op args
    | _ => "bad-line"
  hout.putStrLn out
  hout.flush
  loop hin hout

def main : IO Unit := do
  let hin ← IO.getStdin
  let hout ← IO.getStdout
  loop hin hout
  hout.flush
