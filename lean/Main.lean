import PycommModel
open Pycomm

def dispatch (op : String) (args : List Sexp) : String :=
  match op with
  | "ping" => "pong"
  | "codec.enc" => opCodecEnc args
  | "codec.dec" => opCodecDec args
  | "sock.recv" => opSockRecv args
  | "seq.hash" => opSeqHash args
  | "slc.parse" => opSlcParse args
  | "slc.readreq" => opSlcReadReq args
  | "slc.writereq" => opSlcWriteReq args
  | "slc.reply" => opSlcReply args
  | "k.plan" => opKPlan args
  | "k.records" => opKRecords args
  | "k.template" => opKTemplate args
  | "k.msg" => opKMsg args
  | "k.readreply" => opKReadReply args
  | "k.masks" => opKMasks args
  | "k.boolwin" => opKBoolWin args
  | "k.keep" => opKKeep args
  | "k.typeword" => opKTypeWord args
  | "k.packmulti" => opKPackMulti args
  | "k.unpackmulti" => opKUnpackMulti args
  | "k.writefrags" => opKWriteFrags args
  | "k.readfrags" => opKReadFrags args
  | "k.upload" => opKUpload args
  | "client.run" => opClientRun args
  | "encap.build" => opEncapBuild args
  | "ident.decmod" => opIdentDecMod args
  | "ident.declist" => opIdentDecList args
  | "ident.encmod" => opIdentEncMod args
  | "reply.generic" => opReplyGeneric args
  | "reply.register" => opReplyRegister args
  | "status.ext" => opStatusExt args
  | "path.epath" => opPathEpath args
  | "path.seg" => opPathSeg args
  | "path.req" => opPathReq args
  | "path.tag" => opPathTag args
  | "path.parsepadded" => opPathParse args
  | "path.conn" => opPathConn args
  | "path.route" => opPathRoute args
  | "enum.getitem" => opEnum "getitem" args
  | "enum.get" => opEnum "get" args
  | "enum.contains" => opEnum "contains" args
  | "status.text" => opStatusText args
  | "seq.nth" => opSeqNth args
  | "sock.send" => opSockSend args
  | _ => "bad-op"

/-- ops that read or change the target held by the driver process -/
def dispatchState (tgt : Option FullTarget) (op : String) (args : List Sexp) : Option FullTarget × String :=
  match op, tgt with
  | "target.new", _ =>
      match targetNew args with
      | some t => (some t, "ok")
      | none => (tgt, "bad-args")
  | "target.frame", some t => let (t', out) := targetFrame t args; (some t', out)
  | "target.log", some t => let (t', out) := targetLog t; (some t', out)
  | "target.state", some t => (tgt, targetState t)
  | "target.mem", some t => (tgt, targetMem t)
  | "target.slc", some t => (tgt, targetSlc t)
  | "target.tcpclose", some t => (some (Tgt.tcpClosed t), "ok")
  | _, _ => (tgt, dispatch op args)

/-- process state: the interactive reference target, the Lean-side LogixDriver session and the Lean-side SLCDriver session -/
structure PState where
  tgt : Option FullTarget := none
  ld : Option LdSession := none
  sd : Option SdSession := none

def dispatchAll (st : PState) (op : String) (args : List Sexp) : PState × String :=
  if op.startsWith "ld." then
    let (ld', out) := dispatchLd st.ld op args
    ({ st with ld := ld' }, out)
  else if op.startsWith "sd." then
    let (sd', out) := dispatchSd st.sd op args
    ({ st with sd := sd' }, out)
  else
    let (tgt', out) := dispatchState st.tgt op args
    ({ st with tgt := tgt' }, out)

partial def loop (hin hout : IO.FS.Stream) (st : PState) : IO Unit := do
  let line ← hin.getLine
  if line.isEmpty then return ()
  let (st', out) :=
    match Sexp.parseLine line with
    | some (Sexp.atom op :: args) => dispatchAll st op args
    | _ => (st, "bad-line")
  hout.putStrLn out
  hout.flush
  loop hin hout st'

def main : IO Unit := do
  let hin ← IO.getStdin
  let hout ← IO.getStdout
  loop hin hout {}
  hout.flush
