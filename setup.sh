#!/bin/sh
# MANIFEST.setup_cmd: regenerate the data tables from /repo and build model, driver and all proofs.
set -e
D="$(cd "$(dirname "$0")" && pwd)"
cd "$D"
/venv/bin/python harness/extract.py
cd lean
lake build > .build.log 2>&1 || { tail -40 .build.log; echo "setup: lake build failed"; exit 1; }
tail -3 .build.log
test -x .lake/build/bin/pymodel
echo "setup ok"
