"""Independent reference for CIP padded EPATHs (CIP Vol 1 App. C-1): a strict parser and a
reference encoder for port segments.  Used as the C09/C15 oracle (and by the frame monitors)."""

LOGICAL_TYPES = {0: "class_id", 1: "instance_id", 2: "member_id", 3: "connection_point", 4: "attribute_id",
                 5: "special", 6: "service_id"}


class BadPath(Exception):
    pass


def parse_padded(bs):
    """bytes -> list of ('logical', type_name, value) | ('symbol', bytes) | ('port', port, link_bytes)"""
    out, i, n = [], 0, len(bs)
    while i < n:
        b = bs[i]
        seg_type = b >> 5
        if seg_type == 1:
            ltype, fmt = (b >> 2) & 7, b & 3
            if ltype not in LOGICAL_TYPES:
                raise BadPath("reserved logical type")
            if fmt == 0:
                if i + 2 > n:
                    raise BadPath("truncated 8-bit logical")
                out.append(("logical", LOGICAL_TYPES[ltype], bs[i + 1]))
                i += 2
            elif fmt == 1:
                if i + 4 > n or bs[i + 1] != 0:
                    raise BadPath("bad 16-bit logical")
                out.append(("logical", LOGICAL_TYPES[ltype], int.from_bytes(bs[i + 2:i + 4], "little")))
                i += 4
            elif fmt == 2:      # CIP Vol. 1, C-1.4.2: 00 = 8-bit, 01 = 16-bit, 10 = 32-bit, 11 = reserved
                if i + 6 > n or bs[i + 1] != 0:
                    raise BadPath("bad 32-bit logical")
                out.append(("logical", LOGICAL_TYPES[ltype], int.from_bytes(bs[i + 2:i + 6], "little")))
                i += 6
            else:
                raise BadPath("reserved logical format")
        elif b == 0x91:
            if i + 2 > n:
                raise BadPath("truncated symbol")
            ln = bs[i + 1]
            padded = ln + (ln & 1)
            if i + 2 + padded > n:
                raise BadPath("truncated symbol data")
            if ln & 1 and bs[i + 2 + ln] != 0:
                raise BadPath("non-zero pad")
            out.append(("symbol", bytes(bs[i + 2:i + 2 + ln])))
            i += 2 + padded
        elif seg_type == 0:
            port = b & 0x0F
            if port in (0, 15):
                raise BadPath("reserved / extended port number")
            if b & 0x10:
                if i + 2 > n:
                    raise BadPath("truncated port")
                ln = bs[i + 1]
                padded = ln + (ln & 1)
                if i + 2 + padded > n:
                    raise BadPath("truncated link")
                if ln & 1 and bs[i + 2 + ln] != 0:
                    raise BadPath("non-zero pad")
                out.append(("port", port, bytes(bs[i + 2:i + 2 + ln])))
                i += 2 + padded
            else:
                if i + 2 > n:
                    raise BadPath("truncated port")
                out.append(("port", port, bytes(bs[i + 1:i + 2])))
                i += 2
        else:
            raise BadPath("unsupported segment %#x" % b)
    return out


def parse_request_path(bs):
    """word-count-prefixed path at the start of bs -> (segments, rest)"""
    if not bs:
        raise BadPath("empty")
    ln = 2 * bs[0]
    if 1 + ln > len(bs):
        raise BadPath("path longer than message")
    return parse_padded(bs[1:1 + ln]), bs[1 + ln:]


def ref_port_segment(port, link):
    """port 1..14, link = int 0..255 or dotted-quad str -> bytes (CIP Vol 1 C-1.3)"""
    if isinstance(link, int):
        return bytes([port, link])
    data = link.encode("ascii")
    if len(data) == 1:
        return bytes([port]) + data
    out = bytes([port | 0x10, len(data)]) + data
    return out + (b"\x00" if len(out) % 2 else b"")


# the port names of the documented path grammar (pycomm3 docs "connection path": backplane/bp, enet, dhrio-a/b, dnet,
# cnet, dh485-a/b) with the CIP port numbers they stand for — kept here, independent of the library's own table
DOCUMENTED_PORTS = {"backplane": 1, "bp": 1, "enet": 2, "dhrio-a": 2, "dhrio-b": 3, "dnet": 2, "cnet": 2, "dh485-a": 2, "dh485-b": 3}


def ref_route(hops):
    """hops: [(port number, link)] -> word count + segments"""
    body = b"".join(ref_port_segment(p, l) for p, l in hops)
    return bytes([len(body) // 2]) + body


def ref_logical(type_name, value):
    tcode = {v: k for k, v in LOGICAL_TYPES.items()}[type_name]
    if value < 256:
        return bytes([0x20 | tcode << 2, value])
    if value < 65536:
        return bytes([0x20 | tcode << 2 | 1, 0]) + value.to_bytes(2, "little")
    return bytes([0x20 | tcode << 2 | 3, 0]) + value.to_bytes(4, "little")
