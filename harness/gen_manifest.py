#!/usr/bin/env python3
"""Writes MANIFEST.json from the table below (kept in one place so it stays valid)."""
import json, os
VERIF = os.path.dirname(os.path.dirname(os.path.abspath(__file__)))

NOTE = ("theorems are about the hand-written Lean model (lean/PycommModel); the model is tied to /repo by (a) data "
        "tables/constants regenerated from the source on every run and (b) differential execution of model and "
        "implementation on generated inputs; axioms limited to propext/Classical.choice/Quot.sound, no sorry/native_decide")

CLAIMED = {
    # id: (technique, level text, design_ref)
}
PENDING = {}

def load():
    import importlib.util
    spec = importlib.util.spec_from_file_location("claims", os.path.join(VERIF, "harness", "claims.py"))
    m = importlib.util.module_from_spec(spec); spec.loader.exec_module(m)
    return m.CLAIMED, m.NOT_CLAIMED

def main():
    claimed, not_claimed = load()
    checks = []
    for pid in sorted(claimed):
        tech, text, ref = claimed[pid]
        checks.append({
            "property_id": pid,
            "quick_cmd": "./check %s --tier quick" % pid,
            "thorough_cmd": "./check %s --tier thorough" % pid,
            "evidence_file": "evidence/%s.json" % pid,
            "replay_cmd_template": "./check %s --replay {path}" % pid,
            "engine": "lean-model",
            "level_claimed": {"category": "proof", "text": text, "design_ref": ref},
            "level_note": NOTE,
            "technique": tech,
        })
    m = {
        "version": 1,
        "setup_cmd": "./setup.sh",
        "hooks": {
            "guard": "PYCOMM3_VERIF",
            "enable": "no source hooks: the harness replaces driver._sock / pycomm3.cip_driver.Socket / pycomm3.socket_.socket from outside; the guard variable is reserved and unused",
            "baseline_off_cmd": "cd /repo && /venv/bin/python -m pytest -ra -q -p no:cacheprovider --timeout=900 --continue-on-collection-errors",
            "source_commits": [],
            "add_only": True,
        },
        "engines": [{
            "name": "lean-model",
            "path": "lean/",
            "serves_properties": sorted(claimed),
            "kind_free_text": "Lean 4 executable model (PycommModel), kernel-checked theorems (PycommProofs/PycommProps), compiled line-protocol driver pymodel, Python correspondence harness (harness/)",
        }],
        "checks": checks,
        "notes": "See DESIGN.md. Repairs of genuine defects are unguarded 'fix:' commits in /repo, listed in known_findings.json.",
        "not_applicable": [{"property_id": pid, "reason": not_claimed[pid]} for pid in sorted(not_claimed)],
    }
    with open(os.path.join(VERIF, "MANIFEST.json"), "w") as f:
        json.dump(m, f, indent=1)
    print("MANIFEST.json: %d checks, %d not claimed" % (len(checks), len(not_claimed)))

if __name__ == "__main__":
    main()
