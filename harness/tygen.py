"""Type-grammar and value generators for the codec properties (C06-C08).

A type descriptor is a nested tuple; `to_py` builds the real pycomm3 type, `to_sx` the model's.
Values are generated in *canonical* form (what decode must return); `variant` derives an
equivalent input spelling (tuple for list, longer list for fixed arrays, sequence for dict).
"""
import struct
import sx

INTK = {
    "sint": (1, True), "int": (2, True), "dint": (4, True), "lint": (8, True),
    "usint": (1, False), "uint": (2, False), "udint": (4, False), "ulint": (8, False),
}
INT_CLASSES = {
    "sint": ["SINT"], "int": ["INT", "ITIME"], "dint": ["DINT", "STIME", "FTIME", "TIME"],
    "lint": ["LINT", "LTIME"], "usint": ["USINT"], "uint": ["UINT", "DATE"],
    "udint": ["UDINT", "TIME_OF_DAY"], "ulint": ["ULINT"],
}
STR_CLASSES = {
    "LOGIX_STRING": ("udint", "latin1"), "STRING": ("uint", "latin1"),
    "STRING2": ("uint", "utf16"), "SHORT_STRING": ("usint", "latin1"),
}
BITS_CLASSES = {"BYTE": "usint", "WORD": "uint", "DWORD": "udint", "LWORD": "ulint", "ENGUNIT": "uint"}


def irange(k):
    size, signed = INTK[k]
    if signed:
        return -(1 << (8 * size - 1)), (1 << (8 * size - 1)) - 1
    return 0, (1 << (8 * size)) - 1


# ---------------------------------------------------------------- python types

def to_py(d, name=None, instance=False):
    """descriptor -> pycomm3 type (class, or a named instance when `instance`)"""
    import pycomm3.cip.data_types as dt
    import pycomm3.custom_types as ct
    k = d[0]
    if k == "bool":
        cls = dt.BOOL
    elif k == "int":
        cls = getattr(dt, d[2])
    elif k == "real":
        cls = dt.REAL
    elif k == "lreal":
        cls = dt.LREAL
    elif k == "dt":
        cls = dt.DATE_AND_TIME
    elif k == "str":
        cls = getattr(dt, d[3])
    elif k == "stringn":
        cls = dt.STRINGN
    elif k in ("stringi", "stringi1"):
        cls = dt.STRINGI
    elif k == "bits":
        cls = getattr(dt, d[2])
    elif k == "nbytes":
        inst = dt.n_bytes(d[1], name if name is not None else "")
        return inst if instance else type(inst)
    elif k == "arr":
        ln = d[1]
        if ln[0] == "fixed":
            length = ln[1]
        elif ln[0] == "pref":
            lcls = getattr(dt, ln[1].upper())
            length = lcls() if ln[2] else lcls
        else:
            length = None
        cls = dt.Array(length, to_py(d[2]))
    elif k == "struct":
        cls = dt.Struct(*[to_py(md, name=mn, instance=inst) for (mn, md, inst) in d[1]])
    elif k == "fstr":
        cls = ct.FixedSizeString(d[1], getattr(dt, d[2].upper()))
    elif k == "stag":
        members = [(to_py(md, name=mn, instance=True), off) for (mn, md, off) in d[2]]
        cls = ct.StructTag(*members, bit_members={n: (o, b) for (n, o, b) in d[3]},
                           private_members=set(d[4]), struct_size=d[1])
    elif k == "ip":
        cls = ct.IPAddress
    else:
        raise ValueError(d)
    if instance:
        return cls(name)
    return cls


def to_sx(d):
    k = d[0]
    if k == "stringi1":      # STRINGI as a member / an element: the same type, the VALUE is its single item
        return "stringi"
    if k in ("bool", "real", "lreal", "dt", "stringi", "ip"):
        return k
    if k == "int":
        return "(int %s)" % d[1]
    if k == "str":
        return "(str %s %s)" % (d[1], d[2])
    if k == "stringn":
        return "(stringn %d)" % d[1]
    if k == "bits":
        return "(bits %s)" % d[1]
    if k == "nbytes":
        return "(nbytes %d)" % d[1]
    if k == "arr":
        ln = d[1]
        l = "all" if ln[0] == "all" else ("(fixed %d)" % ln[1] if ln[0] == "fixed" else "(pref %s)" % ln[1])
        return "(arr %s %s)" % (l, to_sx(d[2]))
    if k == "struct":
        return "(struct" + "".join(
            " (%s %s)" % ("N" if mn is None or not inst else sx.name(mn), to_sx(md)) for (mn, md, inst) in d[1]) + ")"
    if k == "fstr":
        return "(fstr %d %s)" % (d[1], d[2])
    if k == "stag":
        return "(stag %d (%s) (%s) (%s))" % (
            d[1],
            " ".join("(%s %s %d)" % (sx.name(mn), to_sx(md), off) for (mn, md, off) in d[2]),
            " ".join("(%s %d %d)" % (sx.name(n), o, b) for (n, o, b) in d[3]),
            " ".join(sx.name(n) for n in d[4]))
    raise ValueError(d)


def show(d):
    """short human-readable type text"""
    k = d[0]
    if k in ("int", "bits"):
        return d[2]
    if k == "str":
        return d[3]
    if k == "arr":
        ln = d[1]
        l = "" if ln[0] == "all" else (str(ln[1]) if ln[0] == "fixed" else ln[1].upper())
        return "%s[%s]" % (show(d[2]), l)
    if k == "struct":
        return "Struct(" + ",".join("%s:%s" % (mn if inst else "-", show(md)) for (mn, md, inst) in d[1]) + ")"
    if k == "stag":
        return "StructTag(%d;%s;bits=%s;priv=%s)" % (
            d[1], ",".join("%s:%s@%d" % (mn, show(md), off) for (mn, md, off) in d[2]), d[3], sorted(d[4]))
    if k == "nbytes":
        return "n_bytes(%d)" % d[1]
    if k == "fstr":
        return "FixedSizeString(%d,%s)" % (d[1], d[2])
    if k == "stringn":
        return "STRINGN/%d" % d[1]
    return k.upper()


# ---------------------------------------------------------------- widths

def fixed_width(d):
    """encoded width in bytes when it does not depend on the value, else None"""
    k = d[0]
    if k == "bool":
        return 1
    if k in ("int", "bits"):
        return INTK[d[1]][0]
    if k == "real":
        return 4
    if k == "lreal":
        return 8
    if k == "dt":
        return 6
    if k == "nbytes":
        return d[1] if d[1] >= 0 else None
    if k == "arr":
        if d[1][0] != "fixed":
            return None
        w = fixed_width(d[2])
        return None if w is None else w * d[1][1]
    if k == "struct":
        tot = 0
        for (_, md, _) in d[1]:
            w = fixed_width(md)
            if w is None:
                return None
            tot += w
        return tot
    if k == "fstr":
        return INTK[d[2]][0] + d[1]
    if k == "stag":
        return d[1]
    if k == "ip":
        return 4
    return None


def min_width(d):
    """smallest possible encoding of a domain value"""
    k = d[0]
    w = fixed_width(d)
    if w is not None:
        return w
    if k == "str":
        return INTK[d[1]][0]
    if k == "stringn":
        return 4
    if k == "stringi":
        return 1
    if k == "stringi1":
        return 8
    if k == "nbytes":
        return 1
    if k == "arr":
        if d[1][0] == "pref":
            return INTK[d[1][1]][0]
        if d[1][0] == "fixed":
            return d[1][1] * min_width(d[2])
        return 0
    if k == "struct":
        return sum(min_width(md) for (_, md, _) in d[1])
    return 0


# ---------------------------------------------------------------- type generator

ELEMENTARY = (
    [("bool",)] + [("int", k, c) for k, cs in INT_CLASSES.items() for c in cs] +
    [("real",), ("lreal",)] +
    [("str", lk, enc, c) for c, (lk, enc) in STR_CLASSES.items()] +
    [("bits", k, c) for c, k in BITS_CLASSES.items()]
)
NAMES = ["a", "b", "x1", "Val", "member_3", "LEN", "DATA", "é"]


NESTED_SPECIALS = True   # DATE_AND_TIME and STRINGI also as members / elements


def _gen_stringi_item(rng):
    code = rng.choice([0xD0, 0xD5, 0xD9, 0xDA])
    s = gen_str(rng, {0xD0: 255, 0xD5: 0xFFFF, 0xD9: 127, 0xDA: 255}[code], 60)
    if code == 0xD9 and s == "":
        s = "x" if rng.random() < 0.9 else s
    lang = rng.choice(["eng", "fra", "deu", "zho", "a b"])
    return (s, code, lang, rng.choice([4, 1000, 1001, 0, 65535]))


def gen_type(rng, depth, top=True, allow_tail=True):
    """random type descriptor; `allow_tail`: may consume the rest of the buffer (only sensible last)"""
    r = rng.random()
    if depth <= 0 or r < 0.40:
        r2 = rng.random()
        if r2 < 0.80:
            return rng.choice(ELEMENTARY)
        if r2 < 0.84:
            # DATE_AND_TIME.encode takes two positional arguments and STRINGI.encode a star-list:
            # neither can be encoded as a struct member / array element, so they only appear on top
            # (DATE_AND_TIME.encode took two positional arguments only, so it could not be a member or an element
            #  until the library repair that lets it take the pair `decode` returns)
            return ("dt",) if top or NESTED_SPECIALS else ("int", "udint", "UDINT")
        if r2 < 0.88:
            return ("stringn", rng.choice([1, 2, 4]) if top else 1)
        if r2 < 0.91:
            # STRINGI.encode takes a star-list: as a member / an element the value is ONE item ("stringi1")
            return ("stringi",) if top else (("stringi1",) if NESTED_SPECIALS else ("str", "usint", "latin1", "SHORT_STRING"))
        if r2 < 0.95:
            return ("nbytes", rng.choice([1, 2, 3, 4, 7, 16]))
        if r2 < 0.97 and allow_tail:
            return ("nbytes", -1)
        if r2 < 0.99:
            return ("ip",)
        return ("fstr", rng.choice([1, 2, 5, 16, 82]), rng.choice(["udint", "uint", "usint", "dint", "int", "sint"]))
    if r < 0.62:
        elem = gen_type(rng, depth - 1, top=False, allow_tail=False)
        rl = rng.random()
        if rl < 0.6:
            return ("arr", ("fixed", rng.choice([0, 1, 1, 2, 2, 3, 4, 7])), elem)
        if rl < 0.8 and allow_tail and min_width(elem) > 0:
            return ("arr", ("all",), elem)
        if rl < 0.8:
            return ("arr", ("fixed", rng.choice([1, 2, 3])), elem)
        if min_width(elem) == 0:
            # a counted array of zero-width elements allocates `count` values whatever the buffer holds:
            # resource exhaustion, not codec logic - kept out of the generated domain
            return ("arr", ("fixed", rng.choice([1, 2, 3])), elem)
        return ("arr", ("pref", rng.choice(["usint", "uint", "udint"]), rng.random() < 0.5), elem)
    if r < 0.88:
        n = rng.choice([0, 1, 1, 2, 2, 3, 3, 4, 5, 6])
        names = rng.sample(NAMES, min(n, len(NAMES)))
        members = []
        for i in range(n):
            last = i == n - 1
            md = gen_type(rng, depth - 1, top=False, allow_tail=allow_tail and last)
            named = rng.random() < 0.8
            members.append((names[i] if named else None, md, named))
        return ("struct", members)
    return gen_stag(rng, depth - 1)


def gen_stag(rng, depth):
    """a Logix-like template layout: members at increasing offsets, packed BOOLs in hidden hosts"""
    members, bits, priv = [], [], []
    off = 0
    n = rng.choice([1, 2, 3, 4, 5])
    names = rng.sample(["m%d" % i for i in range(12)], n)
    for i in range(n):
        r = rng.random()
        if r < 0.12:
            # BOOL members aliased onto the bits of a VISIBLE integer member (module-defined types do this)
            k = rng.choice(["sint", "int", "dint"])
            w = INTK[k][0]
            if rng.random() < 0.8:
                off = (off + w - 1) // w * w
            members.append((names[i], ("int", k, k.upper()), off))
            for bi, b in enumerate(rng.sample(range(8 * w), rng.choice([1, 2, 3]))):
                bits.append(("%s_v%d" % (names[i], bi), off + b // 8, b % 8))
            off += w
        elif r < 0.25:
            host = "ZZZZZZZZZZ%s%d" % (names[i], i)
            members.append((host, ("int", "sint", "SINT"), off))
            priv.append(host)
            for bi, b in enumerate(rng.sample(range(8), rng.choice([1, 2, 3, 8]))):
                bits.append(("%s_b%d" % (names[i], bi), off, b))
            off += 1
        else:
            if r < 0.5 and depth > 0:
                md = gen_stag(rng, depth - 1)
            elif r < 0.6:
                md = ("fstr", rng.choice([1, 4, 12, 82]), "udint")
            elif r < 0.75:
                el = rng.choice([e for e in ELEMENTARY if e[0] in ("int", "real", "lreal", "bits")])
                md = ("arr", ("fixed", rng.choice([1, 2, 3, 5])), el)
            else:
                md = rng.choice([e for e in ELEMENTARY if e[0] in ("int", "real", "lreal", "bool", "bits")])
            w = fixed_width(md)
            align = 8 if w >= 8 else (4 if w >= 4 else (2 if w == 2 else 1))
            if rng.random() < 0.8:
                off = (off + align - 1) // align * align
            members.append((names[i], md, off))
            off += w
    size = (off + 3) // 4 * 4 if rng.random() < 0.8 else off
    return ("stag", size, members, bits, priv)


# ---------------------------------------------------------------- value generators

def _f32_round(x):
    return struct.unpack("<f", struct.pack("<f", x))[0]


INTERESTING_F = [0.0, -0.0, 1.0, -1.0, 0.1, 1e-45, 1e-40, 3.4028234663852886e38, 1.17549435e-38,
                 float("inf"), float("-inf"), 16777217.0, 123456.789, -2.5e-7]


def gen_int(rng, k):
    lo, hi = irange(k)
    r = rng.random()
    if r < 0.25:
        return rng.choice([lo, hi, 0, 1, lo + 1, hi - 1, -1 if lo < 0 else 2])
    if r < 0.4:
        b = rng.randrange(0, hi.bit_length())
        v = 1 << b
        return v if v <= hi else hi
    if r < 0.5:
        pat = int("55" * 8, 16) & hi
        return pat if rng.random() < 0.5 else (hi & ~pat if lo == 0 else -(pat >> 1))
    return rng.randint(lo, hi)


def gen_str(rng, maxcp, maxlen, bmp_only=False, surrogates_ok=False):
    r = rng.random()
    if r < 0.1:
        n = 0
    elif r < 0.7:
        n = rng.randint(1, 8)
    elif r < 0.95:
        n = rng.randint(9, 40)
    else:
        n = rng.choice([254, 255, 256, 300])
    n = min(n, maxlen)
    out = []
    for _ in range(n):
        r = rng.random()
        if r < 0.6:
            c = rng.randint(32, 126)
        elif r < 0.8:
            c = rng.randint(0, min(maxcp, 255))
        else:
            c = rng.randint(0, maxcp)
        if 0xD800 <= c <= 0xDFFF and not surrogates_ok:
            c = 0x263A if maxcp >= 0x263A else 65
        out.append(chr(c))
    return "".join(out)


def gen_valid(rng, d, budget=None):
    """canonical in-domain value for type d (what decode(encode(v)) must return)"""
    k = d[0]
    if k == "bool":
        return rng.random() < 0.5
    if k == "int":
        return gen_int(rng, d[1])
    if k == "real":
        r = rng.random()
        if r < 0.4:
            return _f32_round(rng.choice(INTERESTING_F))
        if r < 0.7:
            return struct.unpack("<f", struct.pack("<I", _non_nan32(rng.getrandbits(32))))[0]
        return _f32_round(rng.uniform(-1e6, 1e6))
    if k == "lreal":
        r = rng.random()
        if r < 0.4:
            return rng.choice(INTERESTING_F + [5e-324, 1.7976931348623157e308, 2.2250738585072014e-308])
        if r < 0.7:
            return struct.unpack("<d", struct.pack("<Q", _non_nan64(rng.getrandbits(64))))[0]
        return rng.uniform(-1e12, 1e12)
    if k == "dt":
        return (gen_int(rng, "udint"), gen_int(rng, "uint"))
    if k == "str":
        lo, hi = irange(d[1])
        if d[2] == "latin1":
            return gen_str(rng, 255, min(hi, 400))
        return gen_str(rng, 0xFFFF, min(hi, 400))
    if k == "stringn":
        return gen_str(rng, {1: 127, 2: 0xFFFF, 4: 0x10FFFF}[d[1]], 300)
    if k == "stringi1":
        return _gen_stringi_item(rng)
    if k == "stringi":
        n = rng.choice([0, 1, 1, 2, 3])
        items = []
        for _ in range(n):
            code = rng.choice([0xD0, 0xD5, 0xD9, 0xDA])
            s = gen_str(rng, {0xD0: 255, 0xD5: 0xFFFF, 0xD9: 127, 0xDA: 255}[code], 60)
            if code == 0xD9 and s == "":
                s = "x" if rng.random() < 0.9 else s
            lang = rng.choice(["eng", "fra", "deu", "zho", "a b"])
            items.append((s, code, lang, rng.choice([4, 1000, 1001, 0, 65535])))
        return items
    if k == "bits":
        return [rng.random() < 0.5 for _ in range(8 * INTK[d[1]][0])]
    if k == "nbytes":
        n = d[1] if d[1] >= 0 else rng.randint(1, 20)
        return bytes(rng.getrandbits(8) for _ in range(n))
    if k == "arr":
        ln = d[1]
        if ln[0] == "fixed":
            n = ln[1]
        else:
            n = rng.choice([0, 1, 2, 3, 5, 9])
        vals = [gen_valid(rng, d[2]) for _ in range(n)]
        if d[2][0] == "bits":
            return [b for v in vals for b in v]
        return vals
    if k == "struct":
        return {("#%d" % i if not (inst and mn) else mn): gen_valid(rng, md) for i, (mn, md, inst) in enumerate(d[1])}
    if k == "fstr":
        lo, hi = irange(d[2])
        return gen_str(rng, 255, min(d[1], hi))
    if k == "stag":
        out = {}
        for (mn, md, off) in d[2]:
            if mn not in d[4]:
                out[mn] = gen_valid(rng, md)
        for (n, o, b) in d[3]:
            out[n] = rng.random() < 0.5
        # BOOL members hosted in a visible integer: the canonical value has the host's bits equal to the BOOLs
        # (otherwise the value is not a fixed point of encode/decode: the BOOL member wins, see C07)
        inconsistent = rng.random() < 0.25
        for (mn, md, off) in d[2]:
            if mn in d[4] or md[0] != "int":
                continue
            w, signed = INTK[md[1]]
            raw = out[mn] & ((1 << (8 * w)) - 1)
            touched = False
            for (n, o, b) in d[3]:
                if off <= o < off + w:
                    touched = True
                    bit = 8 * (o - off) + b
                    if inconsistent:
                        continue
                    raw = raw | (1 << bit) if out[n] else raw & ~(1 << bit)
            if touched and inconsistent:
                FLAGS.add("inconsistent-bits")
            if touched:
                out[mn] = raw - (1 << (8 * w)) if signed and raw >> (8 * w - 1) else raw
        return out
    if k == "ip":
        return ".".join(str(rng.choice([0, 1, 10, 127, 192, 255, rng.randint(0, 255)])) for _ in range(4))
    raise ValueError(d)


def _non_nan32(b):
    if (b >> 23) & 0xFF == 0xFF and b & 0x7FFFFF:
        b &= ~(0xFF << 23) | (0x7F << 23)
    return b


def _non_nan64(b):
    if (b >> 52) & 0x7FF == 0x7FF and b & ((1 << 52) - 1):
        b &= ~(0x7FF << 52) | (0x3FF << 52)
    return b


def expected(d, c):
    """what decode must return for canonical value c (drops unnamed struct members; STRINGI reshapes)"""
    k = d[0]
    if k == "struct":
        return {mn: expected(md, c[mn]) for (mn, md, inst) in d[1] if inst and mn}
    if k == "arr" and d[2][0] != "bits":
        return [expected(d[2], x) for x in c]
    if k == "stag":
        out = {}
        for (mn, md, off) in d[2]:
            if mn not in d[4]:
                out[mn] = expected(md, c[mn])
        for (n, o, b) in d[3]:
            out[n] = c[n]
        return out
    if k == "stringi":
        return ([s for (s, _, _, _) in c], [l for (_, _, l, _) in c], [cs for (_, _, _, cs) in c])
    if k == "stringi1":
        return ([c[0]], [c[2]], [c[3]])
    return c


FLAGS = set()   # facts about the last variant() call tree (reset by the caller)


def variant(rng, d, c):
    """an input spelling equivalent to canonical c (never changes what must be decoded)"""
    k = d[0]
    r = rng.random()
    if k == "struct":
        all_named = all(inst and mn for (mn, md, inst) in d[1])
        vals = {key: variant(rng, md, c[key]) for key, (mn, md, inst) in zip(c.keys(), d[1])}
        if all_named and r < 0.5:
            items = list(vals.items())
            if r < 0.25:
                rng.shuffle(items)
            return dict(items)
        seq = list(vals.values())
        return tuple(seq) if r > 0.8 else seq
    if k == "arr":
        if d[2][0] == "bits":
            if d[1][0] == "fixed" and r < 0.12:
                FLAGS.add("overlong-bits")
                return list(c) + [True] * (8 * INTK[d[2][1]][0])
            return list(c) if r < 0.8 else tuple(c)
        vals = [variant(rng, d[2], x) for x in c]
        if d[1][0] == "fixed" and r < 0.25:
            vals = vals + [gen_valid(rng, d[2]) for _ in range(rng.choice([1, 2, 5]))]
        return tuple(vals) if r > 0.85 else vals
    if k == "stag":
        out = {key: (variant(rng, dict((mn, md) for (mn, md, off) in d[2])[key], v)
                     if key in dict((mn, md) for (mn, md, off) in d[2]) else v) for key, v in c.items()}
        if r < 0.3:
            for p in d[4]:
                out[p] = 0x55  # private members given by the caller are ignored
        return out
    if k == "bool" and r < 0.1:
        return 1 if c else 0
    if k == "bits" and r < 0.2:
        return tuple(c) if r < 0.1 else [1 if b else 0 for b in c]
    if k == "stringi":
        return [(s, code, l, cs) for (s, code, l, cs) in c]
    if k == "stringi1":
        return list(c) if r < 0.3 else tuple(c)
    return c


def py_value(d, v):
    """replace STRINGI type codes by the real classes just before calling the library"""
    import pycomm3.cip.data_types as dt
    k = d[0]
    if k == "stringi" and isinstance(v, (list, tuple)):
        m = {0xD0: dt.STRING, 0xD5: dt.STRING2, 0xD9: dt.STRINGN, 0xDA: dt.SHORT_STRING}
        out = []
        for it in v:
            if isinstance(it, tuple) and len(it) == 4 and it[1] in m:
                out.append((it[0], m[it[1]], it[2], it[3]))
            else:
                out.append(it)
        return out
    if k == "stringi1":
        m = {0xD0: dt.STRING, 0xD5: dt.STRING2, 0xD9: dt.STRINGN, 0xDA: dt.SHORT_STRING}
        if isinstance(v, (list, tuple)) and len(v) == 4 and isinstance(v[1], int) and v[1] in m:
            out = [v[0], m[v[1]], v[2], v[3]]
            return tuple(out) if isinstance(v, tuple) else out
        if isinstance(v, list):      # a LIST of items (the top-level spelling): must be rejected as a member value
            return py_value(("stringi",), v)
        return v
    if k == "struct" and isinstance(v, dict):
        return {key: (py_value(dict((mn, md) for (mn, md, inst) in d[1] if inst and mn)[key], x)
                      if key in dict((mn, md) for (mn, md, inst) in d[1] if inst and mn) else x) for key, x in v.items()}
    if k == "struct" and isinstance(v, (list, tuple)):
        out = [py_value(md, x) for (mn, md, inst), x in zip(d[1], v)] + list(v[len(d[1]):])
        return tuple(out) if isinstance(v, tuple) else out
    if k == "arr" and isinstance(v, (list, tuple)) and d[2][0] != "bits":
        out = [py_value(d[2], x) for x in v]
        return tuple(out) if isinstance(v, tuple) else out
    return v


def has_kind(d, kinds):
    if d[0] in kinds:
        return True
    if d[0] == "arr":
        return has_kind(d[2], kinds)
    if d[0] == "struct":
        return any(has_kind(md, kinds) for (_, md, _) in d[1])
    if d[0] == "stag":
        return any(has_kind(md, kinds) for (_, md, _) in d[2])
    return False


JUNK = [None, True, False, 0, 1, -1, 255, 256, 65536, 2 ** 32, 2 ** 64, -2 ** 63 - 1, 1.5, float("nan"), 1e40,
        "", "a", "abc", "€", b"", b"a", b"abcd", [], [1], [1, 2, 3], (), (1, 2), {}, {"a": 1}, [None], ["x"], [[1]]]


def gen_invalid(rng, d):
    """a probably-out-of-domain value for d: junk, boundary+1, wrong shapes, or a valid value
    with one leaf replaced by junk"""
    k = d[0]
    r = rng.random()
    if r < 0.35:
        return rng.choice(JUNK)
    if k == "int":
        lo, hi = irange(d[1])
        return rng.choice([lo - 1, hi + 1, hi + 2, lo - 2, float(hi), str(hi), 2 * hi + 2])
    if k == "str" or k == "fstr" or k == "stringn":
        lk = d[1] if k == "str" else (d[2] if k == "fstr" else "uint")
        lo, hi = irange(lk)
        bad = [b"bytes", 12, ["a"], None, "\ud800", "\U0001F600", "Āabc"]
        if hi < 70000:
            bad.append("x" * (hi + 1))
        if k == "fstr":
            bad.append("y" * (d[1] + 1))
        return rng.choice(bad)
    if k == "bits":
        n = 8 * INTK[d[1]][0]
        return rng.choice([[True] * (n - 1), [False] * (n + 1), [], [1] * (2 * n), None, 5, "1" * n, b"\x01" * n])
    if k == "arr":
        if d[1][0] == "fixed" and d[1][1] > 0:
            n = d[1][1]
            short = [gen_valid(rng, d[2]) for _ in range(rng.randint(0, n - 1))]
            if d[2][0] == "bits":
                short = [b for v in short for b in v]
            if r < 0.6:
                return short
        vals = list(gen_valid(rng, d))
        if vals and d[2][0] != "bits":
            vals[rng.randrange(len(vals))] = gen_invalid(rng, d[2])
            return vals
        return rng.choice([None, 7, {"a": 1}, 1.0])
    if k == "struct":
        c = gen_valid(rng, d)
        v = variant(rng, d, c)
        if isinstance(v, dict) and v:
            key = rng.choice(list(v))
            if r < 0.6:
                del v[key]
            else:
                v[key] = gen_invalid(rng, dict((mn, md) for (mn, md, inst) in d[1] if mn)[key]) \
                    if key in dict((mn, md) for (mn, md, inst) in d[1] if mn) else None
            return v
        if isinstance(v, (list, tuple)) and len(v):
            v = list(v)
            i = rng.randrange(len(v))
            if r < 0.55:
                v = v[:i]
            else:
                v[i] = gen_invalid(rng, d[1][i][1])
            return v
        return rng.choice([None, 3, "zz"])
    if k == "stag":
        c = gen_valid(rng, d)
        if c and r < 0.7:
            key = rng.choice(list(c))
            if r < 0.5:
                del c[key]
            else:
                c[key] = rng.choice([None, "q", 2 ** 70, [1]])
            return c
        return rng.choice([None, [1, 2], "s", 4])
    if k == "ip":
        return rng.choice(["1.2.3", "256.1.1.1", "a.b.c.d", "1.2.3.4.5", "", None, -1, 2 ** 32, b"abc", "01.2.3.4", " 1.2.3.4"])
    if k == "dt":
        return rng.choice([(2 ** 32, 0), (0, 65536), (-1, 0), (0, -1), ("a", 1), (None, None), (1.0, 1)])
    if k == "nbytes":
        return rng.choice([None, 5, "str", [1, 2], b"", b"x" * max(0, d[1] - 1)])
    if k == "real" or k == "lreal":
        return rng.choice([None, "1.0", [1.0], 1e39 if k == "real" else "x", 3.5e38 if k == "real" else b"1", 2 ** 200])
    if k == "stringi1":
        return rng.choice([None, 5, [("a", 0xD0, "eng", 4)], [("a", 0xD0, "eng", 4), ("b", 0xD0, "eng", 4)], [], (),
                           ("a",), ("a", 0xD0, "eng"), ("a", 0xD0, "engl", 70000), (5, 0xD0, "eng", 4),
                           ("Ā", 0xD0, "eng", 4), ("a", 0xD0, "é€x", 4), ("a", 0xD0, "eng", 4, 5)])
    if k == "stringi":
        return rng.choice([None, 5, [("a",)], [("a", 0xD0, "eng")], [("a", 0xD0, "engl", 70000)], [(5, 0xD0, "eng", 4)],
                           [("a", 0xD0, "eng", 4)] * 256, [("Ā", 0xD0, "eng", 4)], [("a", 0xD0, "é€x", 4)]])
    return rng.choice(JUNK)
