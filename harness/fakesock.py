"""A stand-in for pycomm3.socket_.Socket that talks to the Lean reference target inside pymodel.
Every frame the real driver writes goes to `target.frame`, the answer is queued for receive().
A fault plan can make the k-th send / receive raise, or the peer vanish."""
import core
import sx


class PeerGone(Exception):
    pass


class TargetSocket:
    def __init__(self, model, faults=None, frames=None):
        self.model = model
        self.faults = dict(faults or {})   # {('send', k): 'raise'|'drop', ('recv', k): 'raise'}
        self.n_send = 0
        self.n_recv = 0
        self.pending = []
        self.frames = frames if frames is not None else []   # every frame written by the driver (bytes)
        self.replies = []
        self.connected = False
        self.closed = False
        self.reply_filter = None           # optional fn(reply bytes) -> bytes (to corrupt replies)
        self.answer = None                 # optional fn(frame bytes) -> reply bytes | None: answers a frame without the target

    # --- the Socket interface used by CIPDriver
    def connect(self, host, port):
        self.connected = True

    def send(self, msg, timeout=0):
        from pycomm3.exceptions import CommError
        k = self.n_send
        self.n_send += 1
        f = self.faults.get(("send", k))
        if f == "raise":
            raise CommError("injected: send failed")
        self.frames.append(bytes(msg))
        if f == "drop":
            # the bytes left the client but never reached the target (and nothing will come back)
            self.pending.append(None)
            return len(msg)
        if self.answer is not None:
            local = self.answer(bytes(msg))
            if local is not None:
                self.replies.append(local)
                self.pending.append(local)
                return len(msg)
        out = self.model.ask("target.frame " + sx.hexb(msg))
        if out.startswith("ok "):
            body = out[3:]
            reply = bytes.fromhex(body[3:-1]) if len(body) > 3 else b""
            if self.reply_filter is not None:
                reply = self.reply_filter(reply)
            self.replies.append(reply)
            self.pending.append(reply)
        elif out == "none":
            self.pending.append(None)
        else:
            raise RuntimeError("target.frame -> " + out)
        return len(msg)

    def receive(self, timeout=0):
        from pycomm3.exceptions import CommError
        k = self.n_recv
        self.n_recv += 1
        if self.faults.get(("recv", k)) == "raise":
            if self.pending:
                self.pending.pop(0)
            raise CommError("injected: receive failed")
        while self.pending:
            r = self.pending.pop(0)
            if r is not None:
                return r
        raise CommError("injected: no reply (timeout)")

    def close(self):
        self.closed = True
        if self.connected:
            self.model.ask("target.tcpclose")
            self.connected = False


def base_scenario(policy=(True, True, True), vendor=1, ptype=14, pcode=55, major=32, minor=11, status=0x3060,
                  serial=0x00C0FFEE, name=b"1756-L83E/B", state=3, ip=0xC0A80164, plc_name=b"PLC_A", time_us=0,
                  generic=(0x08, (), b""), ids=None):
    """ids = (first session handle, first connection id) the target grants, when given"""
    return "(base (policy %s %s %s) (identity %d %d %d %d %d %d %d %s %d %d) (name %s) (time %d) (generic %d (%s) %s)%s)" % (
        "T" if policy[0] else "F", "T" if policy[1] else "F", "T" if policy[2] else "F",
        vendor, ptype, pcode, major, minor, status, serial, sx.hexb(name), state, ip, sx.hexb(plc_name), time_us,
        generic[0], " ".join(str(x) for x in generic[1]), sx.hexb(generic[2]),
        " (ids %d %d)" % ids if ids else "")


def parse_log(text):
    """'ok (ev ev ...)' -> list of parsed events"""
    assert text.startswith("ok "), text
    items = sx.parse(text[3:])
    return items[0] if items else []
