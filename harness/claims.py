"""Which properties are claimed (drives MANIFEST.json via gen_manifest.py)."""
CLAIMED = {
    "C19": ("Lean 4: general lemmas about the EnumMap lookup model (case-insensitivity, get/in/[] agreement) + decide +kernel over every table regenerated from the live classes (names resolve, codes resolve back, status text total); exhaustive correspondence over all members x casings x accessors",
            "the quantifier is the finite set of tables the source declares now; it is re-extracted and re-decided by the kernel on every run, and the model's lookup function is compared exhaustively with MapMeta",
            "DESIGN.md §7 C19"),
    "C06": ("Lean 4 theorems by mutual structural induction over the type grammar (decode∘encode = id with arbitrary trailing bytes, unbounded and length-prefixed arrays, truncation, dict = sequence) + differential correspondence of every codec incl. StructTag/STRINGI/STRINGN and exhaustive 8/16-bit domains",
            "round trip proved for all values of the tail-safe grammar fragment at any nesting depth (Canon); STRINGN/STRINGI/StructTag/IPAddress/bit-string arrays are covered by correspondence + oracle only (partial)",
            "DESIGN.md §7 C06"),
    "C08": ("Lean 4 theorems by mutual induction over the type grammar (encode errors are DataError only; decode errors are DataError/BufferEmptyError; fuel never exhausted for terminating types; fixed-width types need their width; every strict prefix of a valid encoding is rejected; prefix stability) + differential correspondence on out-of-domain values, every truncation point, random bytes",
            "exception-class discipline and termination proved for ALL types and ALL byte strings/values of the model (incl. StructTag, STRINGI, STRINGN); truncation rejection proved for the canonical tail-safe fragment",
            "DESIGN.md §7 C08"),
    "C15": ("Lean 4 theorems over the path grammar (every alias/number spelling and separator mix yields the CIP route bytes of the hops; shortcuts; four rejection classes, each universally quantified over the rest of the string) + differential correspondence incl. single-edit corruptions",
            "parse+encode proved equal to an independent CIP port-segment reference for all well-formed routes; odd segments / unknown port name / bad link / bad TCP port proved rejected; arbitrary corruptions by correspondence only (partial)",
            "DESIGN.md §7 C15"),
    "C09": ("Lean 4 theorems: encode then independently parse = intended segments, for all logical values < 2^32 and types, port/link forms, symbols, request paths, and rendered tag strings of any depth with 0-3 indices and symbol-instance addressing + differential correspondence and an independent Python EPATH parser as oracle",
            "every emitted path class proved to be a well-formed padded EPATH that a strict parser written from the CIP specification decodes to the intent; string-level tag parsing included",
            "DESIGN.md §7 C09"),
    "C14": ("Lean 4 theorems: target-side parsers applied to the client's builders return the arguments (service, path, data for all ids < 2^32 and all lengths; Unconnected Send wrapper with embedded length, pad and route), wall-clock round trip for all 64-bit times, reply data extraction + transcript correspondence of the real driver and the Lean client on the Lean target, with the target's message-router log as oracle",
            "delivery proved at the message level for all arguments; the composition through generic_message (route selection, Tag construction) is tied by transcript equality on generated scenarios (partial end-to-end)",
            "DESIGN.md §7 C14"),
    "C07": ("Lean 4 theorems: closed forms of encode/decode (wire layout) + decide +kernel over the regenerated type-code table; differential correspondence model vs pycomm3 vs an independent reference codec (exhaustive for 1-2 byte types)",
            "kernel-checked closed forms of the codec model for every width/value (little-endian two's complement, BOOL 00/FF, LSB-first bit strings, string prefixes, padded fixed strings, concatenated arrays, every byte pattern decoded), tied to the code by regenerated tables and differential execution",
            "DESIGN.md §7 C07"),
    "C12": ("Lean 4 theorems by induction over recv/send scripts (all frames, all segmentations, all fault points) + differential correspondence of the real Socket against a scripted fake socket (all compositions of short frames)",
            "receive returns exactly the frame for every split into non-empty chunks, CommError for every premature close/error/silence, never exhausts fuel; send delivers all bytes for every positive partial-send pattern; proved for unbounded frames and scripts",
            "DESIGN.md §7 C12"),
    "C17": ("Lean 4 theorems on the counter generator (closed form, range, period, adjacent sends differ for any history with < 65535 draws between consecutive sends) + correspondence of pycomm3.util.cycle over > 2 wraps",
            "counter kernel proved for all histories of any length; the per-call bound on draws between consecutive sends is monitored on transcripts, not yet a theorem (partial)",
            "DESIGN.md §7 C17"),
}
_PENDING = "not claimed yet: model/theorems/correspondence for this property are still being built (no technique switch; see DESIGN.md §7)"
NOT_CLAIMED = {("C%02d" % i): _PENDING for i in range(1, 20)}
for k in CLAIMED:
    NOT_CLAIMED.pop(k, None)
