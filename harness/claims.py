"""Which properties are claimed (drives MANIFEST.json via gen_manifest.py)."""
CLAIMED = {
}
_PENDING = "not claimed yet: model/theorems/correspondence for this property are still being built (no technique switch; see DESIGN.md §7)"
NOT_CLAIMED = {("C%02d" % i): _PENDING for i in range(1, 20)}
for k in CLAIMED:
    NOT_CLAIMED.pop(k, None)
