"""Generator of controller projects for the Logix properties (C01-C05) and their reference interpretation.

A project is plain Python data; `scenario_sx` renders it for the Lean target, `ref_*` compute — from the
project alone, without any wire format — what the controller holds at an address and what the driver must
present after an upload.  Shapes follow tests/offline/*.json (packed BOOLs in hidden SINT hosts, nested
UDTs, arrays of strings, custom string capacities)."""
import struct
import sx

ATOMIC = {  # name: (code, size, struct fmt)
    "BOOL": (0xC1, 1, None), "SINT": (0xC2, 1, "<b"), "INT": (0xC3, 2, "<h"), "DINT": (0xC4, 4, "<i"), "LINT": (0xC5, 8, "<q"),
    "USINT": (0xC6, 1, "<B"), "UINT": (0xC7, 2, "<H"), "UDINT": (0xC8, 4, "<I"), "ULINT": (0xC9, 8, "<Q"),
    "REAL": (0xCA, 4, "<f"), "LREAL": (0xCB, 8, "<d"), "DWORD": (0xD3, 4, None),
}
CODE2NAME = {v[0]: k for k, v in ATOMIC.items()}
EXTERNAL_ACCESS = {0: "Read/Write", 1: "Reserved", 2: "Read Only", 3: "None"}
BASE_TAG_BIT = 1 << 26


class Template:
    def __init__(self, tid, name, handle):
        self.tid, self.name, self.handle = tid, name, handle
        self.members = []     # dicts: name, kind ('atomic'|'struct'|'bool'), type (atomic name | Template), array (0=scalar), offset, bit, hidden
        self.size = 0
        self.is_string = False

    def type_word(self, m):
        if m["kind"] == "struct":
            w = 0x8000 | m["type"].tid
        else:
            w = ATOMIC[m["type"]][0]
        if m.get("array"):
            w |= 0x2000
        return w


def elem_size(kind, typ):
    return typ.size if kind == "struct" else ATOMIC[typ][1]


def gen_string_template(tid, cap, handle, name=None):
    t = Template(tid, name or ("STRING%d" % cap if cap != 82 else "STRING"), handle)
    t.members = [{"name": "LEN", "kind": "atomic", "type": "DINT", "array": 0, "offset": 0},
                 {"name": "DATA", "kind": "atomic", "type": "SINT", "array": cap, "offset": 4}]
    t.size = (4 + cap + 3) // 4 * 4
    t.is_string = True
    t.cap = cap
    return t


def gen_templates(rng, n):
    """UDTs with increasing ids; later ones may nest earlier ones"""
    out = []
    tid = rng.choice([0x100, 0x2B0, 0x7A1])
    strings = [gen_string_template(0xFCE if rng.random() < 0.5 else tid, 82, rng.getrandbits(16), "STRING")]
    tid += 1
    for cap in rng.sample([1, 4, 12, 20, 40, 480], rng.choice([0, 1, 2])):
        strings.append(gen_string_template(tid, cap, rng.getrandbits(16)))
        tid += 1
    out += strings
    for i in range(n):
        t = Template(tid, "UDT_%s%d" % (rng.choice("ABXYq_"), i), rng.getrandbits(16))
        tid += rng.choice([1, 1, 3, 17])
        off = 0
        nm = rng.choice([1, 2, 3, 4, 5, 7])
        # CTL / Control are ordinary, visible member names in a user type (they are private only in predefined types)
        names = rng.sample(["Val", "count", "x", "Y1", "flag", "mode", "Arr", "inner", "txt", "spare", "LEN", "DATA", "Speed_Ref",
                            "CTL", "Control"], nm)
        if names == ["LEN", "DATA"]:
            # exactly the shape the driver recognises as a string type (attributes LEN, DATA with DATA a SINT array): string
            # types are generated on purpose above, with the memory layout and the reference interpretation of a string
            names = ["LEN", "DATA", "Val"]
        for j, mn in enumerate(names):
            r = rng.random()
            if r < 0.25:
                # 1..8 BOOLs packed into one hidden SINT host
                host = "ZZZZZZZZZZ%s%d" % (t.name[:6], j)
                t.members.append({"name": host, "kind": "atomic", "type": "SINT", "array": 0, "offset": off, "hidden": True})
                for b in sorted(rng.sample(range(8), rng.choice([1, 2, 3, 8]))):
                    t.members.append({"name": "%s_b%d" % (mn, b), "kind": "bool", "type": "BOOL", "array": 0, "offset": off, "bit": b})
                off += 1
                continue
            if r < 0.45 and out:
                sub = rng.choice(out)
                kind, typ = "struct", sub
            else:
                kind, typ = "atomic", rng.choice(["SINT", "INT", "DINT", "DINT", "REAL", "LINT", "USINT", "UINT", "UDINT", "LREAL", "DWORD"])
            sz = elem_size(kind, typ)
            arr = rng.choice([0, 0, 0, 1, 2, 3, 5, 12]) if not (kind == "atomic" and typ == "DWORD") else rng.choice([0, 1, 2])
            align = 8 if sz >= 8 and kind == "atomic" else (4 if sz >= 4 or kind == "struct" else sz)
            off = (off + align - 1) // align * align
            t.members.append({"name": mn, "kind": kind, "type": typ, "array": arr, "offset": off})
            off += sz * max(arr, 1)
        t.size = max(4, (off + 3) // 4 * 4)
        out.append(t)
    # the structure handle is a 16-bit attribute, nothing makes it unique: sometimes two different templates share one
    plain = [t for t in out if not getattr(t, "is_string", False)]
    if len(plain) >= 2 and rng.random() < 0.3:
        a, b = rng.sample(plain, 2)
        b.handle = a.handle
    # the two ends of the user-defined template id range [0x100, 0xEFF]
    users = [t for t in out if not getattr(t, "is_string", False)]
    used = {t.tid for t in out}
    for edge in (0x100, 0xEFF):
        if users and edge not in used and rng.random() < 0.3:
            t = rng.choice(users)
            used.discard(t.tid)
            t.tid = edge
            used.add(edge)
    # ... and nothing keeps it apart from the template INSTANCE ids either (both are small numbers the controller hands
    # out): sometimes a template's handle equals its own or another template's instance id
    if out and rng.random() < 0.3:
        t = rng.choice(out)
        t.handle = rng.choice(out).tid
    return out


class Symbol:
    def __init__(self, inst, name, kind, typ, dims, mem, scope=None, access=0, alias=False, system_bit=False, bool_bit=0):
        self.inst, self.name, self.kind, self.typ, self.dims, self.mem = inst, name, kind, typ, dims, bytearray(mem)
        self.scope, self.access, self.alias, self.system_bit, self.bool_bit = scope, access, alias, system_bit, bool_bit
        self.attr3, self.attr5 = 0x1000 + inst * 8, 0x2000 + inst * 4

    @property
    def symbol_type(self):
        ndim = len([d for d in self.dims if d])
        if self.kind == "struct":
            w = 0x8000 | self.typ.tid
        elif self.kind == "system":
            return self.typ
        else:
            w = ATOMIC[self.typ][0]
            if self.typ == "BOOL":
                w |= self.bool_bit << 8
        return w | (ndim << 13) | (0x1000 if self.system_bit else 0)

    @property
    def attr6(self):
        return (0 if self.alias else BASE_TAG_BIT) | 0x0401


def rand_mem(rng, kind, typ, count):
    """random memory for `count` elements; strings get LEN <= capacity, REALs no NaN payload games"""
    sz = elem_size(kind, typ)
    out = bytearray()
    for _ in range(count):
        if kind == "struct":
            out += rand_struct(rng, typ)
        elif typ == "BOOL":
            out += b"\x01" if rng.random() < 0.5 else b"\x00"
        elif typ in ("REAL", "LREAL"):
            v = rng.choice([0.0, -1.5, 3.25e7, 1e-3, float("inf"), rng.uniform(-1e6, 1e6)])
            out += struct.pack("<f" if typ == "REAL" else "<d", v)
        else:
            r = rng.random()
            if r < 0.2:
                out += b"\x00" * sz
            elif r < 0.3:
                out += b"\xff" * sz
            else:
                out += bytes(rng.getrandbits(8) for _ in range(sz))
    return out


def rand_struct(rng, t):
    buf = bytearray(bytes(rng.getrandbits(8) for _ in range(t.size)) if not t.is_string else b"\x00" * t.size)
    if t.is_string:
        n = rng.choice([0, 1, t.cap // 2, t.cap])
        buf[0:4] = struct.pack("<i", n)
        buf[4:4 + n] = bytes(rng.choice(b"abcXYZ 019_-") for _ in range(n))
        return buf
    for m in t.members:
        if m["kind"] == "bool":
            continue
        sz = elem_size(m["kind"], m["type"])
        buf[m["offset"]:m["offset"] + sz * max(m["array"], 1)] = rand_mem(rng, m["kind"], m["type"], max(m["array"], 1))
    return buf


def gen_project(rng, n_templates=None, n_tags=None, with_programs=True):
    templates = gen_templates(rng, rng.choice([0, 1, 2, 3, 5]) if n_templates is None else n_templates)
    inst = rng.choice([1, 5, 100])
    controller, programs = [], []

    def next_inst():
        nonlocal inst
        inst += rng.choice([1, 1, 2, 7, 300])
        return inst

    def add_tags(lst, scope, n):
        used = set()
        for i in range(n):
            name = rng.choice(["tag", "Motor", "x", "Recipe_", "fb", "ARR", "str", "bits", "Val"]) + str(i) + rng.choice(["", "_a", "Z"])
            if name in used:
                continue
            used.add(name)
            r = rng.random()
            if r < 0.35 and templates:
                kind, typ = "struct", rng.choice(templates)
            elif r < 0.45:
                kind, typ = "atomic", "DWORD"
            else:
                kind, typ = "atomic", rng.choice(["BOOL", "SINT", "INT", "DINT", "DINT", "LINT", "USINT", "UINT", "UDINT", "ULINT", "REAL", "LREAL"])
            if typ == "DWORD":
                dims = [rng.choice([1, 2, 3, 5]), 0, 0]           # BOOL arrays: dimension counted in DWORDs
            elif typ == "BOOL":
                dims = [0, 0, 0]
            else:
                dims = rng.choice([[0, 0, 0], [0, 0, 0], [1, 0, 0], [2, 0, 0], [5, 0, 0], [10, 0, 0], [130, 0, 0], [2, 3, 0], [2, 2, 2], [3, 1, 4]])
                if kind == "struct" and typ.size > 100:
                    dims = rng.choice([[0, 0, 0], [2, 0, 0], [3, 0, 0]])
            count = 1
            for d in dims:
                count *= d or 1
            lst.append(Symbol(next_inst(), name, kind, typ, dims, rand_mem(rng, kind, typ, count), scope=scope,
                              access=rng.choice([0, 0, 0, 2, 3]), alias=rng.random() < 0.1, bool_bit=rng.randrange(8)))

    add_tags(controller, None, rng.choice([1, 3, 6, 12, 25]) if n_tags is None else n_tags)
    # system / non-user symbols the upload must filter (module I/O tags are kept)
    junk = [("Map:Local", 0x1068), ("Cxn:Standard:3", 0x1069), ("__DEFVAL_00000A3C", 0x00C4), ("Task:MainTask", 0x1070)]
    for nm, typ in rng.sample(junk, rng.choice([0, 1, 2, 4])):
        controller.append(Symbol(next_inst(), nm, "system", typ, [0, 0, 0], b""))
    if rng.random() < 0.4:
        s = Symbol(next_inst(), "sysflag%d" % inst, "atomic", "DINT", [0, 0, 0], b"\0\0\0\0", system_bit=True)
        controller.append(s)
    if rng.random() < 0.4 and templates:
        controller.append(Symbol(next_inst(), "Local:%d:I" % rng.randrange(1, 9), "struct", rng.choice(templates), [0, 0, 0],
                                 rand_struct(rng, templates[-1])[:0] or rand_struct(rng, rng.choice(templates))))
        controller[-1].mem = bytearray(rand_struct(rng, controller[-1].typ))
    if rng.random() < 0.3 and templates:
        controller.append(Symbol(next_inst(), "Rack:O", "struct", templates[0], [0, 0, 0], rand_struct(rng, templates[0])))
    if with_programs:
        for pn in rng.sample(["MainProgram", "P2", "Alarm_Handling"], rng.choice([0, 1, 2])):
            controller.append(Symbol(next_inst(), "Program:" + pn, "system", 0x1068, [0, 0, 0], b""))
            ptags = []
            for rn in rng.sample(["MainRoutine", "Sub1"], rng.choice([0, 1, 2])):
                ptags.append(Symbol(next_inst(), "Routine:" + rn, "system", 0x106D, [0, 0, 0], b""))
            add_tags(ptags, "Program:" + pn, rng.choice([0, 1, 3]))
            ptags.sort(key=lambda s: s.inst)
            programs.append(("Program:" + pn, ptags))
    controller.sort(key=lambda s: s.inst)
    reads = rng.choice([[], [], [1], [4, 8], [100], [2000]])
    # the read schedule repeats its last entry: one byte per reply over a tag of tens of kilobytes is tens of thousands of
    # round trips per request — kept for data of ordinary size only (the cost, not the behaviour, is the reason)
    biggest = max([len(s.mem) for s in controller] + [len(s.mem) for _, ps in programs for s in ps] + [0])
    if reads and min(reads) < 100 and biggest > 6000:
        reads = [2000] if rng.random() < 0.5 else []
    return {"templates": templates, "controller": controller, "programs": programs,
            "rev": rng.choice([16, 17, 18, 20, 21, 24, 32]), "micro800": False,
            "pages": rng.choice([[], [1], [2], [3, 1], [1000]]), "tmpl": rng.choice([[], [1], [7], [16, 3], [500]]),
            "reads": reads}


# ------------------------------------------------------------------ scenario rendering

def tmpl_sx(t):
    ms = " ".join("(m %s %d %d %d)" % (sx.name(m["name"]), m["bit"] if m["kind"] == "bool" else m["array"], t.type_word(m), m["offset"])
                  for m in t.members)
    return "(t %d %d %d %s (%s))" % (t.tid, t.handle, t.size, sx.hexb((t.name + ";n").encode()), ms)


def sym_sx(s):
    return "(sym %d %s %d (%s) %d %d %d %d %s)" % (s.inst, sx.name(s.name), s.symbol_type, " ".join(str(d) for d in s.dims),
                                                     s.attr3, s.attr5, s.attr6, s.access, sx.hexb(s.mem))


def scenario_sx(p):
    return "(logix (rev %d) (pages %s) (tmpl %s) (reads %s) (templates %s) (controller %s) (programs %s))" % (
        p["rev"], " ".join(map(str, p["pages"])), " ".join(map(str, p["tmpl"])), " ".join(map(str, p["reads"])),
        " ".join(tmpl_sx(t) for t in p["templates"]), " ".join(sym_sx(s) for s in p["controller"]),
        " ".join("(%s %s)" % (sx.name(n), " ".join(sym_sx(s) for s in syms)) for n, syms in p["programs"]))


# ------------------------------------------------------------------ reference interpretation

def ref_atomic(typ, b):
    if typ == "BOOL":
        return b[0] != 0
    if typ == "DWORD":
        n = int.from_bytes(b[:4], "little")
        return [bool(n >> i & 1) for i in range(32)]
    return struct.unpack(ATOMIC[typ][2], bytes(b[:ATOMIC[typ][1]]))[0]


def ref_struct(t, b):
    """value of a structure: nested dict of VISIBLE members in template order (strings as str)"""
    if t.is_string:
        n = struct.unpack("<i", bytes(b[0:4]))[0]
        return bytes(b[4:4 + t.cap][:n]).decode("latin-1")
    out = {}
    for m in t.members:
        if m.get("hidden") or m["name"].startswith("__") or m["name"].startswith("ZZZZZZZZZZ"):
            continue
        if m["kind"] == "bool":
            continue
        out[m["name"]] = ref_member(m, b)
    for m in t.members:
        if m["kind"] == "bool":
            out[m["name"]] = bool(b[m["offset"]] >> m["bit"] & 1)
    return out


def ref_member(m, b):
    sz = elem_size(m["kind"], m["type"])
    def one(i):
        chunk = b[m["offset"] + i * sz: m["offset"] + (i + 1) * sz]
        return ref_struct(m["type"], chunk) if m["kind"] == "struct" else ref_atomic(m["type"], chunk)
    if m["array"]:
        vals = [one(i) for i in range(m["array"])]
        if m["kind"] == "atomic" and m["type"] == "DWORD":
            return [x for v in vals for x in v]
        return vals
    return one(0)


def ref_elements(kind, typ, mem, start, n):
    sz = elem_size(kind, typ)
    out = []
    for i in range(start, start + n):
        chunk = mem[i * sz:(i + 1) * sz]
        out.append(ref_struct(typ, chunk) if kind == "struct" else ref_atomic(typ, chunk))
    return out


def type_name(kind, typ):
    return typ.name if kind == "struct" else typ
