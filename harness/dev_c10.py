import sys, os
sys.path.insert(0, os.path.dirname(os.path.abspath(__file__)))
import core
sys.path.insert(0, core.REPO)
from bridge import Model
from props import transcripts as tr, c10
import random
ctx = core.Ctx("C10", "quick", 0)
model = Model()
want = int(sys.argv[1]) if len(sys.argv) > 1 else 3
shown = 0
orig_compare = tr.compare
def cmp(ctx_, stream, case, impl, mout):
    global shown
    n0 = len(ctx_.mismatches)
    st0 = sum(s["mismatches"] for s in ctx_.streams.values())
    ok = orig_compare(ctx_, stream, case, impl, mout)
    if not ok and shown < want:
        shown += 1
        m = tr.parse_model(mout)
        print("=" * 100)
        print("OPS   ", case["ops"]); print("FAULTS", case["faults"], "PATH", case["path"]); print("SCN", case["scenario"][:60])
        print("IMPL results", impl["results"])
        print("MODL results", m.get("results") if m else mout[:300])
        fi = [f.hex() for f in impl["frames"]]
        fm = [x[3:-1] for x in tr._top_items(m["frames"][8:-1])] if m else []
        for i in range(max(len(fi), len(fm))):
            a = fi[i] if i < len(fi) else "-"; b = fm[i] if i < len(fm) else "-"
            print(" frame %d %s" % (i, "same" if a == b else "DIFF"), a[:110], "|", b[:110] if a != b else "")
        print("IMPL state", impl["state"], "connected", impl["connected"])
        print("MODL state", " ".join(m.get(k, "") for k in ("sessions", "conns", "time")), m.get("connected"))
        print("IMPL log", impl["log"][:1500])
    return ok
tr.compare = cmp
c10.run(ctx, model)
model.close()
