#!/bin/sh
# re-apply every stored seeded change that still applies to /repo HEAD and run its own property's quick check
cd /verif
for d in seeded/*/; do
  name=$(basename $d)
  prop=$(python3 -c "import json;print(json.load(open('$d/meta.json')).get('property','?'))" 2>/dev/null)
  [ -z "$prop" ] && continue
  cd /repo
  if ! git diff --quiet; then echo "$name: repo dirty"; exit 2; fi
  if git apply --check "/verif/$d/patch.diff" 2>/dev/null; then
    git apply "/verif/$d/patch.diff"
    cd /verif
    ./check $prop --tier quick > /tmp/regress_one.log 2>&1
    n=$(grep -c '^VIOLATION' /tmp/regress_one.log)
    out=$(tail -1 /tmp/regress_one.log)
    git -C /repo checkout -- . ; git -C /repo clean -fdq pycomm3 2>/dev/null
    echo "$name $prop violations=$n :: $(echo $out | cut -c1-120)"
  else
    cd /verif
    echo "$name $prop SKIP (patch no longer applies)"
  fi
done
/venv/bin/python /verif/harness/extract.py >/dev/null 2>&1
