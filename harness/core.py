"""Shared machinery of every check: extraction, Lean build, axiom audit, verdict, evidence."""
import fcntl
import hashlib
import json
import os
import random
import re
import signal
import subprocess
import sys
import time

HERE = os.path.dirname(os.path.abspath(__file__))
VERIF = os.path.dirname(HERE)
LEAN = os.path.join(VERIF, "lean")
REPO = os.environ.get("VERIF_REPO", "/repo")
ALLOWED_AXIOMS = {"propext", "Classical.choice", "Quot.sound"}
FORBIDDEN = re.compile(r"\bsorry\b|\badmit\b|^axiom |native_decide|bv_decide|implemented_by|\bunsafe |maxHeartbeats 0", re.M)

TRUSTED_BASE = [
    "Lean 4.33.0 kernel (theorems elaborated and kernel-checked by `lake build`; thorough tier re-checks with leanchecker)",
    "axioms allowed: propext, Classical.choice, Quot.sound (audited with #print axioms on every property theorem); no sorry/native_decide/bv_decide/own axioms",
    "Lean compiler + runtime executing the model definitions in the `pymodel` driver",
    "harness/extract.py (data translator: constants and tables regenerated from /repo on every run)",
    "correspondence harness (generators, canonical forms, fake socket) tying the hand-written model to /repo by differential execution",
    "CPython semantics assumed for struct float conversion, str codecs, ipaddress, re, BytesIO",
]


class Hang(BaseException):
    pass


def _spent():
    try:
        import bridge
        return time.process_time() + bridge.WAITED[0]
    except Exception:  # noqa
        return time.process_time()


HANGS = [0]      # budgets exhausted so far in this run
_budgets = []   # stack of [seconds, cpu0, wall0] of the active with_budget calls


def _alarm(signum, frame):
    # The budget is on the CPU time of THIS process, so that a loaded machine (other checks, builds) does not turn a
    # slow call into a reported hang: a call that spins burns CPU and is stopped after `seconds` of it; a call that is
    # merely waiting (for the model process, for the scheduler) is given up to 30 x `seconds` of wall time.
    if _budgets:
        seconds, cpu0, wall0 = _budgets[-1]
        # time spent waiting for the model process (the reference target computing an answer) is work done on behalf of
        # the call: it counts like CPU time of this process, or a loop of round trips would escape the budget
        cpu = _spent() - cpu0
        wall = time.monotonic() - wall0
        if cpu < seconds * 0.9 and wall < seconds * 30:
            signal.setitimer(signal.ITIMER_REAL, max(0.2, seconds - cpu))
            return
    HANGS[0] += 1
    raise Hang()


def with_budget(seconds, fn, *a, **kw):
    """run fn under a CPU budget (wall budget 30 x); Hang (a BaseException) is raised inside fn on expiry"""
    if HANGS[0] >= 2:
        seconds = min(seconds, 20)      # two calls already ran out of their budget in this run: do not wait that long again
    old = signal.signal(signal.SIGALRM, _alarm)
    _budgets.append([seconds, _spent(), time.monotonic()])
    signal.setitimer(signal.ITIMER_REAL, seconds)
    try:
        return fn(*a, **kw)
    finally:
        signal.setitimer(signal.ITIMER_REAL, 0)
        _budgets.pop()
        signal.signal(signal.SIGALRM, old)
        if _budgets:   # an enclosing budget: re-arm it
            signal.setitimer(signal.ITIMER_REAL, 0.2)


def exn_class(e):
    """map a Python exception to the model's Exn enum text"""
    import pycomm3.exceptions as ex
    if isinstance(e, Hang):
        return "hang"
    if isinstance(e, ex.BufferEmptyError):
        return "empty"
    if isinstance(e, ex.DataError):
        return "data"
    if isinstance(e, ex.RequestError):
        return "request"
    if isinstance(e, ex.ResponseError):
        return "response"
    if isinstance(e, ex.CommError):
        return "comm"
    if isinstance(e, ex.PycommError):
        return "pycomm"
    return "foreign:" + type(e).__name__


def norm_err(text):
    """compare foreign exceptions by class only"""
    if text.startswith("err foreign:"):
        return "err foreign"
    return text


def sh(cmd, cwd=None, timeout=None, env=None):
    p = subprocess.run(cmd, cwd=cwd, stdout=subprocess.PIPE, stderr=subprocess.STDOUT, timeout=timeout, env=env)
    return p.returncode, p.stdout.decode(errors="replace")


class BuildLock:
    def __enter__(self):
        self.f = open(os.path.join(LEAN, ".build.lock"), "w")
        fcntl.flock(self.f, fcntl.LOCK_EX)
        return self

    def __exit__(self, *a):
        fcntl.flock(self.f, fcntl.LOCK_UN)
        self.f.close()


def strip_comments(src):
    src = re.sub(r"/-.*?-/", "", src, flags=re.S)
    return re.sub(r"--.*", "", src)


def theorem_names(prop_file):
    src = strip_comments(open(prop_file).read())
    ns = re.findall(r"^namespace\s+(\S+)", src, re.M)
    prefix = (ns[0] + ".") if ns else ""
    return [prefix + n for n in re.findall(r"^theorem\s+(\S+)", src, re.M)]


def import_closure(module):
    """project-local modules transitively imported by `module` (including itself)"""
    seen, todo = set(), [module]
    while todo:
        m = todo.pop()
        if m in seen:
            continue
        fpath = os.path.join(LEAN, *m.split(".")) + ".lean"
        if not os.path.exists(fpath):
            continue
        seen.add(m)
        for imp in re.findall(r"^import\s+(\S+)", open(fpath).read(), re.M):
            if imp.split(".")[0] in ("PycommModel", "PycommProofs", "PycommProps"):
                todo.append(imp)
    return seen


class Ctx:
    def __init__(self, prop, tier, seed):
        self.prop = prop
        self.tier = tier
        self.seed = seed
        self.rng = random.Random("%s/%s/%d" % (prop, tier, seed))
        self.t0 = time.time()
        self.streams = {}        # name -> dict(cases, mismatches, unmodelled)
        self.mismatches = []     # correspondence mismatches (first few kept)
        self.violations = []     # oracle violations on the implementation
        self.dist = {}           # input distribution counters
        self.samples = []
        self.nontrivial = set()
        self.evaluations = 0
        self.notes = []
        self.proof = {"theorems": [], "obligations": 0, "discharged": 0, "build_ok": None, "axioms": {}, "broken": []}
        self.exhaustive = False
        self.extra = {}
        self.infra_errors = []

    # ---- bookkeeping
    def count(self, key, n=1):
        self.dist[key] = self.dist.get(key, 0) + n

    def stream(self, name):
        return self.streams.setdefault(name, {"cases": 0, "mismatches": 0, "unmodelled": 0})

    def case(self, stream, key=None, trivial=False):
        self.stream(stream)["cases"] += 1
        self.evaluations += 1
        if key is not None and not trivial:
            self.nontrivial.add(hashlib.blake2b(repr(key).encode(), digest_size=8).digest())

    def sample(self, s, limit=12):
        if len(self.samples) < limit:
            self.samples.append(s)

    def mismatch(self, stream, case, impl, model):
        st = self.stream(stream)
        st["mismatches"] += 1
        if len(self.mismatches) < 40:
            self.mismatches.append({"stream": stream, "case": case, "impl": impl, "model": model})

    def unmodelled(self, stream):
        self.stream(stream)["unmodelled"] += 1

    def violation(self, sig, inp, detail, replay=None):
        """a concrete input on which the IMPLEMENTATION breaks the property"""
        self.violations.append({"sig": sig, "input": inp, "detail": detail, "replay": replay})

    def budget(self, quick, thorough):
        if self.tier == "thorough":
            return thorough
        if getattr(self, "escalated", False) and isinstance(quick, int) and isinstance(thorough, int) and thorough > quick:
            return min(thorough, 3 * quick)      # source drift: three times the quick budget, never more than thorough
        return quick


# ------------------------------------------------------------------ build / audit

def extract(ctx):
    rc, out = sh([sys.executable, os.path.join(HERE, "extract.py")], cwd=VERIF, timeout=600,
                 env=dict(os.environ, VERIF_REPO=REPO))
    if rc != 0:
        ctx.proof["broken"].append({"what": "extract", "log": out[-3000:]})
    return rc == 0


def build(ctx, targets):
    ok = True
    with BuildLock():
        for t in targets:
            rc, out = sh(["lake", "build", t], cwd=LEAN, timeout=3000)
            if rc != 0:
                ok = False
                errs = [l for l in out.splitlines() if "error" in l.lower()][:20]
                ctx.proof["broken"].append({"what": "lake build " + t, "errors": errs, "log": out[-4000:]})
    return ok


def audit(ctx, prop):
    """#print axioms for every theorem of PycommProps/<prop>.lean; grep for forbidden constructs"""
    pfile = os.path.join(LEAN, "PycommProps", prop + ".lean")
    names = theorem_names(pfile)
    ctx.proof["theorems"] = names
    ctx.proof["obligations"] = len(names)
    # forbidden constructs anywhere in the Lean sources this property's theorems depend on
    bad = []
    closure = import_closure("PycommProps." + prop)
    ctx.proof["modules"] = sorted(closure)
    for mod in closure:
        fpath = os.path.join(LEAN, *mod.split(".")) + ".lean"
        src = strip_comments(open(fpath).read())
        for m in FORBIDDEN.finditer(src):
            bad.append("%s: %s" % (os.path.relpath(fpath, LEAN), m.group(0).strip()))
    if bad:
        ctx.proof["broken"].append({"what": "forbidden construct", "hits": bad[:20]})
    adir = os.path.join(LEAN, ".audit")
    os.makedirs(adir, exist_ok=True)
    afile = os.path.join(adir, prop + ".lean")
    with open(afile, "w") as f:
        f.write("import PycommProps.%s\n" % prop)
        for n in names:
            f.write("#print axioms %s\n" % n)
    with BuildLock():
        rc, out = sh(["lake", "env", "lean", afile], cwd=LEAN, timeout=1200)
    axioms = {}
    for m in re.finditer(r"'([^']+)' depends on axioms: \[([^\]]*)\]", out):
        axioms[m.group(1)] = [a.strip() for a in m.group(2).replace("\n", " ").split(",") if a.strip()]
    for m in re.finditer(r"'([^']+)' does not depend on any axioms", out):
        axioms[m.group(1)] = []
    discharged = 0
    for n in names:
        if n in axioms and set(axioms[n]) <= ALLOWED_AXIOMS:
            discharged += 1
        else:
            ctx.proof["broken"].append({"what": "theorem not checked or disallowed axioms", "theorem": n,
                                        "axioms": axioms.get(n)})
    if rc != 0 and not names:
        ctx.proof["broken"].append({"what": "audit failed", "log": out[-2000:]})
    ctx.proof["axioms"] = axioms
    ctx.proof["discharged"] = discharged
    return discharged == len(names) and not bad


def leanchecker(ctx, prop):
    with BuildLock():
        rc, out = sh(["lake", "env", "leanchecker", "PycommProps." + prop], cwd=LEAN, timeout=3000)
    ctx.extra["leanchecker"] = {"rc": rc, "tail": out[-500:]}
    if rc != 0:
        ctx.proof["broken"].append({"what": "leanchecker", "log": out[-2000:]})
    return rc == 0


# ------------------------------------------------------------------ verdict

def load_known():
    p = os.path.join(VERIF, "known_findings.json")
    if not os.path.exists(p):
        return []
    return json.load(open(p))


def write_replay(prop, data):
    os.makedirs(os.path.join(VERIF, "replays"), exist_ok=True)
    h = hashlib.blake2b(json.dumps(data, sort_keys=True, default=repr).encode(), digest_size=6).hexdigest()
    path = os.path.join("replays", "%s-%s.json" % (prop, h))
    data = dict(data, property=prop, rerun="./check %s --replay %s" % (prop, path))
    with open(os.path.join(VERIF, path), "w") as f:
        json.dump(data, f, indent=1, default=repr)
    return path


def finish(ctx, level_note_extra=None):
    prop = ctx.prop
    known = [k for k in load_known() if k.get("property") == prop and k.get("status") == "known"]
    new_violations, known_hits = [], {}
    for v in ctx.violations:
        hit = None
        for k in known:
            if re.fullmatch(k["sig"], v["sig"]):
                hit = k
                break
        if hit:
            known_hits.setdefault(hit["id"], {"entry": hit, "n": 0, "first": v})["n"] += 1
        else:
            new_violations.append(v)
    lines = []
    for kid, h in known_hits.items():
        lines.append("KNOWN-FINDING: property=%s %s [%s; %d occurrences this run, e.g. %s]" % (
            prop, h["entry"]["what"], kid, h["n"], json.dumps(h["first"]["input"], default=repr)[:160]))
    exit_code = 0
    # one VIOLATION line per distinct signature
    seen = set()
    for v in new_violations:
        if v["sig"] in seen:
            continue
        seen.add(v["sig"])
        path = write_replay(prop, {"kind": "impl-violates", "sig": v["sig"], "input": v["input"],
                                   "detail": v["detail"], "replay": v.get("replay"), "seed": ctx.seed, "tier": ctx.tier})
        lines.append("VIOLATION property=%s replay=%s" % (prop, path))
        exit_code = 1
    corr_broken = sum(s["mismatches"] for s in ctx.streams.values())
    if not new_violations and (ctx.proof["broken"] or corr_broken):
        data = {"kind": "proof-broken" if ctx.proof["broken"] else "correspondence-broken",
                "broken": ctx.proof["broken"], "mismatches": ctx.mismatches[:10], "seed": ctx.seed, "tier": ctx.tier,
                "note": "no failing input was found on the implementation by the property oracle; "
                        "the property is no longer shown to hold"}
        path = write_replay(prop, data)
        lines.append("VIOLATION property=%s replay=%s no-failing-input-found" % (prop, path))
        exit_code = 1
    wall = time.time() - ctx.t0
    ev = {
        "property_id": prop,
        "tier": ctx.tier,
        "seed": ctx.seed,
        "level": "proof",
        "coverage": {
            "obligations": ctx.proof["obligations"],
            "discharged": ctx.proof["discharged"],
            "checker_cmd": "cd lean && lake build PycommProps.%s && lake env lean .audit/%s.lean  # #print axioms per theorem" % (prop, prop),
            "trusted_base": TRUSTED_BASE,
            "theorems": ctx.proof["theorems"],
            "axioms": ctx.proof["axioms"],
            "proof_broken": ctx.proof["broken"],
            "evaluations": ctx.evaluations,
            "distinct_nontrivial": len(ctx.nontrivial),
            "rule": ctx.extra.pop("rule", "cases generated by the property's structured generators from one PRNG; distinct by canonical hash of the input; trivial = empty/constant/error-before-dispatch"),
            "samples": ctx.samples or ["(no sample recorded)"],
            "exhaustive": ctx.exhaustive,
            "correspondence_streams": ctx.streams,
            "correspondence_mismatches": ctx.mismatches[:10],
            "input_distribution": ctx.dist,
            "known_findings_seen": {k: h["n"] for k, h in known_hits.items()},
            "oracle_violations": [{"sig": v["sig"], "input": v["input"]} for v in new_violations[:10]],
            **ctx.extra,
        },
        "assumptions": ctx.notes + (level_note_extra or []),
        "wall_s": round(wall, 2),
        "violations": len(seen) + (1 if exit_code == 1 and not seen else 0),
    }
    os.makedirs(os.path.join(VERIF, "evidence"), exist_ok=True)
    with open(os.path.join(VERIF, "evidence", prop + ".json"), "w") as f:
        json.dump(ev, f, indent=1, default=repr)
    for l in lines:
        print(l)
    print("%s tier=%s seed=%d: theorems %d/%d, correspondence cases=%d mismatches=%d, oracle violations=%d (known %d), %.1fs" % (
        prop, ctx.tier, ctx.seed, ctx.proof["discharged"], ctx.proof["obligations"],
        sum(s["cases"] for s in ctx.streams.values()), corr_broken, len(new_violations),
        sum(h["n"] for h in known_hits.values()), wall))
    return exit_code
