"""Talks to the compiled Lean model driver (lean/.lake/build/bin/pymodel) over a pipe."""
import os
import select
import signal
import time
import subprocess

HERE = os.path.dirname(os.path.abspath(__file__))
VERIF = os.path.dirname(HERE)
PYMODEL = os.path.join(VERIF, "lean", ".lake", "build", "bin", "pymodel")


WAITED = [0.0]   # wall time spent waiting for answers of the model process (see core.with_budget)


class Model:
    def __init__(self, exe=PYMODEL):
        self.exe = exe
        self.p = None

    def start(self):
        self.p = subprocess.Popen([self.exe], stdin=subprocess.PIPE, stdout=subprocess.PIPE, bufsize=0)
        self._buf = b""

    def _readline(self, timeout=1200):
        """one answer line; a model that stays silent for `timeout` seconds is an infrastructure error, not a hang of the check"""
        fd = self.p.stdout.fileno()
        while b"\n" not in self._buf:
            ready, _, _ = select.select([fd], [], [], timeout)
            if not ready:
                raise RuntimeError("pymodel gave no answer within %d s" % timeout)
            chunk = os.read(fd, 1 << 16)
            if not chunk:
                out, self._buf = self._buf, b""
                return out
            self._buf += chunk
        line, _, rest = self._buf.partition(b"\n")
        self._buf = rest
        return line + b"\n"

    def ask(self, line):
        """interactive: one line in, one line out"""
        if self.p is None:
            self.start()
        if getattr(self, "inflight", None) is not None:
            # an earlier ask() was interrupted between its write and its read (a watchdog alarm fired inside the
            # implementation call that was talking to the target): its answer is still in the pipe — drop it
            self._readline()
            self.resyncs = getattr(self, "resyncs", []) + [self.inflight[:120]]
            self.inflight = None
        self.inflight = line
        # one request line, one answer line: the exchange must not be torn apart by the budget timer of
        # core.with_budget (SIGALRM raising Hang between the write and the read); the alarm is held back until the
        # answer has been read (the resynchronisation above stays as a second line of defence)
        old = signal.pthread_sigmask(signal.SIG_BLOCK, {signal.SIGALRM})
        try:
            t0 = time.monotonic()
            self.p.stdin.write(line.encode() + b"\n")
            self.p.stdin.flush()
            out = self._readline()
            WAITED[0] += time.monotonic() - t0
            # the exchange is complete: cleared BEFORE the alarm is let through again — a held-back alarm fires inside
            # the `finally` below, and an `inflight` left set there would make the next ask() wait for an answer that
            # has already been read (both processes then wait for each other for ever)
            self.inflight = None
        finally:
            signal.pthread_sigmask(signal.SIG_SETMASK, old)
        if not out:
            raise RuntimeError("pymodel died on: " + line[:200])
        return out.decode().rstrip("\n")

    def close(self):
        if self.p is not None:
            try:
                self.p.stdin.close()
                self.p.wait(timeout=10)
            except Exception:
                self.p.kill()
            self.p = None

    def batch(self, lines):
        """run a fresh process over many lines (fast path)"""
        data = ("\n".join(lines) + "\n").encode()
        r = subprocess.run([self.exe], input=data, stdout=subprocess.PIPE)
        if r.returncode != 0:
            # find the offending line: the driver answers in order, so it is the first unanswered one
            answered = r.stdout.count(b"\n")
            culprit = lines[answered] if answered < len(lines) else "?"
            raise RuntimeError("pymodel died (rc=%d) on line %d: %s" % (r.returncode, answered, culprit[:2000]))
        out = r.stdout.decode().split("\n")
        if out and out[-1] == "":
            out.pop()
        if len(out) != len(lines):
            raise RuntimeError("pymodel answered %d lines for %d requests" % (len(out), len(lines)))
        return out
