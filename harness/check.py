#!/venv/bin/python
"""./check <Cxx> [--tier quick|thorough] [--replay file]   (seed: VERIF_SEED, tier: VERIF_TIER)"""
import argparse
import importlib
import json
import os
import sys
import traceback

HERE = os.path.dirname(os.path.abspath(__file__))
sys.path.insert(0, HERE)
import core  # noqa: E402

sys.path.insert(0, core.REPO)


def main():
    ap = argparse.ArgumentParser()
    ap.add_argument("prop")
    ap.add_argument("--tier", default=os.environ.get("VERIF_TIER") or "quick")
    ap.add_argument("--replay")
    ap.add_argument("--no-build", action="store_true", help="development: skip extract/build/audit")
    a = ap.parse_args()
    prop = a.prop.upper()
    tier = a.tier if a.tier in ("quick", "thorough") else "quick"
    seed = int(os.environ.get("VERIF_SEED") or 0)
    os.chdir(core.VERIF)
    ctx = core.Ctx(prop, tier, seed)
    mod = importlib.import_module("props." + prop.lower())
    from bridge import Model
    data = json.load(open(a.replay)) if a.replay else None
    if data is not None and data.get("kind") == "correspondence-broken":
        # a broken build / correspondence has no single input to replay: the whole check is re-run with the recorded
        # seed and tier, and reports for itself whether the theorem or the correspondence still does not check
        tier, seed = data.get("tier", tier), int(data.get("seed", seed))
        ctx = core.Ctx(prop, tier, seed)
        print("replay %s: re-running %s tier=%s seed=%d (%s)" % (a.replay, prop, tier, seed,
              ", ".join(sorted({m.get("stream", "?") for m in data.get("mismatches", [])} | set(map(str, data.get("broken", [])))))))
    elif a.replay:
        model = Model()
        try:
            bad = mod.replay(ctx, model, data)
        finally:
            model.close()
        print("replay %s: %s" % (a.replay, "STILL FAILING" if bad else "passes"))
        if bad:
            print("VIOLATION property=%s replay=%s" % (prop, a.replay))
        return 1 if bad else 0
    try:
        if not a.no_build:
            core.extract(ctx)
            core.build(ctx, ["pymodel", "PycommProps." + prop])
            core.audit(ctx, prop)
            if tier == "thorough":
                core.leanchecker(ctx, prop)
        else:
            ctx.proof["obligations"] = ctx.proof["discharged"] = len(
                core.theorem_names(os.path.join(core.LEAN, "PycommProps", prop + ".lean")))
        # drift (DESIGN §5.3): the anchored source moved since the fingerprints were locked -> not an alarm, but this run
        # spends three times the quick budget on its streams
        try:
            import drift
            moved = drift.changed(prop)
        except Exception as e:  # noqa
            moved = ["drift detection failed: %r" % (e,)]
        ctx.extra["source_drift"] = moved
        if moved and tier == "quick" and not os.environ.get("VERIF_NO_ESCALATE"):
            ctx.escalated = True
            print("source drift in %s: %s -> tripled budget for this run" % (prop, ", ".join(moved[:6])))
        model = Model()
        try:
            mod.run(ctx, model)
            # thorough tier: further rounds of every generated stream with seeds derived from the first
            # (VERIF_THOROUGH_ROUNDS, default 3); exhaustive sub-streams are simply repeated
            if tier == "thorough":
                import random
                rounds = int(os.environ.get("VERIF_THOROUGH_ROUNDS") or 3)
                for extra in range(1, rounds):
                    if ctx.violations or any(s["mismatches"] for s in ctx.streams.values()):
                        break
                    ctx.seed = seed * 1000003 + extra        # a replay records this seed and re-creates the same stream
                    ctx.rng = random.Random("%s/%s/%d" % (prop, tier, ctx.seed))
                    ctx.count("thorough-rounds")
                    mod.run(ctx, model)
                ctx.extra["thorough_rounds"] = rounds
            broken = ctx.proof["broken"] or any(s["mismatches"] for s in ctx.streams.values())
            if broken and not ctx.violations and hasattr(mod, "search"):
                mod.search(ctx, model)
        finally:
            if getattr(model, "resyncs", None):
                ctx.extra["model_pipe_resyncs"] = model.resyncs[:10]
                print("note: %d interrupted model request(s) were resynchronised, first: %s" % (len(model.resyncs), model.resyncs[0]))
            model.close()
    except Exception:
        traceback.print_exc()
        print("infrastructure error in check %s" % prop)
        return 2
    return core.finish(ctx)


if __name__ == "__main__":
    sys.exit(main())
