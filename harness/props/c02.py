"""C02 — tag writes change exactly the addressed data, exactly once."""
import struct

import core
import logixgen as lg
from props import logix as lx
from props.codec import oracle_eq

INT_RANGE = {"SINT": (-128, 127), "INT": (-32768, 32767), "DINT": (-2 ** 31, 2 ** 31 - 1), "LINT": (-2 ** 63, 2 ** 63 - 1),
             "USINT": (0, 255), "UINT": (0, 65535), "UDINT": (0, 2 ** 32 - 1), "ULINT": (0, 2 ** 64 - 1)}


def new_value(rng, kind, typ):
    if kind == "struct":
        if typ.is_string:
            n = rng.choice([0, 1, typ.cap // 2, typ.cap, typ.cap, typ.cap + 1 if rng.random() < 0.3 else typ.cap])
            return "".join(rng.choice("abcdefXYZ019 _") for _ in range(n))
        out = {}
        for m in lx.visible_members(typ):
            if m["kind"] == "bool":
                continue
            if m["array"]:
                if m["kind"] == "atomic" and m["type"] == "DWORD":
                    out[m["name"]] = [rng.random() < 0.5 for _ in range(32 * m["array"])]
                else:
                    out[m["name"]] = [new_value(rng, m["kind"], m["type"]) for _ in range(m["array"])]
            else:
                out[m["name"]] = new_value(rng, m["kind"], m["type"])
        for m in typ.members:
            if m["kind"] == "bool":
                out[m["name"]] = rng.random() < 0.5
        return out
    if typ == "BOOL":
        return rng.random() < 0.5
    if typ == "DWORD":
        return [rng.random() < 0.5 for _ in range(32)]
    if typ == "REAL":
        return struct.unpack("<f", struct.pack("<f", rng.choice([0.0, 1.5, -2.25, 1e10, rng.uniform(-1e5, 1e5)])))[0]
    if typ == "LREAL":
        return rng.choice([0.0, 1.5, -2.25, 1e300, rng.uniform(-1e9, 1e9)])
    lo, hi = INT_RANGE[typ]
    return rng.choice([lo, hi, 0, 1, rng.randint(lo, hi)])


def gen_write(rng, p):
    """-> (tag, value to write, descriptor) built on an existing address"""
    r = lx.gen_read(rng, p)
    if r is None:
        return None
    tag, cur, tname, desc = r
    k = desc[0]
    if k in ("bit", "boolmember"):
        return tag, rng.random() < 0.5, desc
    if k == "boolarr":
        i, n = desc[1], desc[2]
        if n == 1 and "[" not in tag:
            return None      # a BOOL array without an index is not an addressable element for writing
        if n == 1:
            return tag, rng.random() < 0.5, desc
        if True:
            # aligned range (the only kind the controller service can express)
            i = i // 32 * 32
            total_bits = 32 * lx._count(desc[3]["sym"].dims)
            n = max(32, min((n + 31) // 32 * 32, total_bits - i))
            tag = "%s[%d]{%d}" % (tag.split("[")[0], i, n)
            desc = ("boolarr", i, n, desc[3])
        vals = [rng.random() < 0.5 for _ in range(n)]
        if rng.random() < 0.35:
            # the caller's list may spell True by any truthy number (2, 5, 0x80, −1): a BOOL is its truth value
            if rng.random() < 0.5:
                vals = [(rng.choice([True, 1, 2, 5, 0x80, -1, 255]) if b else rng.choice([False, 0])) for b in vals]
            else:
                # the gentle spelling: a single 2 for a True that is followed by a False (no arithmetic on it can overflow)
                cand = [j for j in range(len(vals) - 1) if vals[j] and not vals[j + 1] and (j + 1) % 32]
                vals = [(1 if b else 0) for b in vals]
                if cand:
                    vals[rng.choice(cand)] = 2
        return tag, vals, desc
    if k == "dwordmember":
        return None
    if k == "array":
        return tag, [new_value(rng, desc[1], desc[2]) for _ in range(desc[3])], desc
    if k == "item":
        return tag, new_value(rng, desc[1], desc[2]), desc
    return None


def addressed_range(desc):
    """(symbol, first byte, length) that the request may change"""
    k = desc[0]
    if k == "bit":
        loc = desc[3]
        return loc["sym"], loc["offset"], lg.ATOMIC[desc[1]][1]
    if k == "boolmember":
        loc = desc[2]
        return loc["sym"], loc["offset"], 1
    if k == "boolarr":
        i, n, loc = desc[1], desc[2], desc[3]
        first = i // 32
        last = (i + n - 1) // 32
        return loc["sym"], 4 * first, 4 * (last - first + 1)
    if k == "array":
        loc = desc[4]
        return loc["sym"], loc["offset"], lg.elem_size(desc[1], desc[2]) * desc[3]
    loc = desc[3]
    return loc["sym"], loc["offset"], lg.elem_size(desc[1], desc[2])


def value_now(desc, mem):
    """reference interpretation of the memory image at the address"""
    k = desc[0]
    if k == "bit":
        loc = desc[3]
        sz = lg.ATOMIC[desc[1]][1]
        return bool(int.from_bytes(mem[loc["offset"]:loc["offset"] + sz], "little") >> desc[2] & 1)
    if k == "boolmember":
        return bool(mem[desc[2]["offset"]] >> desc[1] & 1)
    if k == "boolarr":
        bits = [b for j in range(len(mem) // 4) for b in lg.ref_atomic("DWORD", mem[4 * j:4 * j + 4])]
        return bits[desc[1]] if desc[2] == 1 else bits[desc[1]:desc[1] + desc[2]]
    if k == "array":
        return lg.ref_elements(desc[1], desc[2], mem[desc[4]["offset"]:], 0, desc[3])
    return lg.ref_elements(desc[1], desc[2], mem[desc[3]["offset"]:], 0, 1)[0]


def canonical(desc, v):
    """what must be read back: strings longer than the capacity are truncated"""
    k = desc[0]
    def canon(kind, typ, x):
        if kind == "struct" and typ.is_string:
            return x[:typ.cap]
        if kind == "struct":
            out = {}
            for m in lx.visible_members(typ):
                if m["kind"] == "bool":
                    out[m["name"]] = x[m["name"]]
                elif m["array"] and not (m["kind"] == "atomic" and m["type"] == "DWORD"):
                    out[m["name"]] = [canon(m["kind"], m["type"], y) for y in x[m["name"]]]
                else:
                    out[m["name"]] = canon(m["kind"], m["type"], x[m["name"]]) if not m["array"] else x[m["name"]]
            return out
        return x
    if k == "array":
        return [canon(desc[1], desc[2], x) for x in v]
    if k == "item":
        return canon(desc[1], desc[2], v)
    if k == "boolarr" and isinstance(v, (list, tuple)):
        return [bool(x) for x in v]          # a BOOL is the truth value of what the caller wrote
    return v


def run_lost_fragment(ctx, model):
    """a fragmented write of which one fragment never reaches the controller: the k-th Write Tag Fragmented request is
    answered by an error reply made up on the spot and NOT handed to the target.  A write the driver then reports as done
    (truthy Tag) must be in the controller's memory — whatever fragment it was, first, middle or last."""
    import struct
    from props.c04 import sized_project
    rng = ctx.rng
    for i in range(ctx.budget(10, 80)):
        size = rng.choice([1200, 1500, 2600, 9000])
        large = size > 5000
        p = sized_project(rng, [(size, "big"), (40, "o1")])
        sess = lx.Session(model, p, conn_large=large)
        if sess.open_error is not None:
            sess.close()
            continue
        multi = rng.random() < 0.4
        value = [rng.randrange(1, 127) for _ in range(size)]

        def call():
            if multi:
                return sess.d.write(("big{%d}" % size, value), ("o1{4}", [1, 2, 3, 4]))
            return sess.d.write(("big{%d}" % size, value))
        # healthy run: how many fragments, and a reply to use as a template
        f0, r0 = len(sess.sock.frames), len(sess.sock.replies)
        try:
            core.with_budget(60, call)
        except BaseException as e:  # noqa
            if isinstance(e, (KeyboardInterrupt, SystemExit)):
                raise
            sess.close()
            continue
        frag_idx = [j for j, f in enumerate(sess.sock.frames[f0:]) if len(f) > 47 and f[:2] == b"\x70\x00" and f[46] == 0x53]
        if len(frag_idx) < 2:
            sess.close()
            continue
        template = sess.sock.replies[r0 + frag_idx[0]]
        k = rng.choice([0, 0, len(frag_idx) // 2, len(frag_idx) - 2, len(frag_idx) - 1])
        value = [(v % 126) + 1 if True else v for v in [x + 1 for x in value]]      # another value, no byte equal to the old one
        st = {"n": 0}

        def answer(msg, st=st, k=k, template=template):
            if len(msg) > 47 and msg[:2] == b"\x70\x00" and msg[46] == 0x53:
                j = st["n"]
                st["n"] += 1
                if j == k:
                    out = bytearray(template[:48]) + bytes([rng.choice([0x02, 0x05, 0x10]), 0])
                    out[44:46] = msg[44:46]
                    struct.pack_into("<H", out, 2, len(out) - 24)
                    struct.pack_into("<H", out, 42, len(out) - 44)
                    return bytes(out)
            return None
        sess.sock.answer = answer
        f1 = len(sess.sock.frames)
        ctx.case("lost-fragment", ("lost", i, size, k, multi))
        ctx.count("lost-fragment/fragments", len(frag_idx))
        case = {"tag_bytes": size, "fragments": len(frag_idx), "lost_fragment": k, "with_other_request": multi, "connection": 4000 if large else 500}
        try:
            res = core.with_budget(60, call)
        except BaseException as e:  # noqa
            if isinstance(e, (KeyboardInterrupt, SystemExit)):
                raise
            cls = core.exn_class(e)
            if cls.startswith("foreign"):
                ctx.violation("write-raises:" + cls.split(":")[-1], case, repr(e)[:200])
            sess.sock.answer = None
            sess.close()
            continue
        sess.sock.answer = None
        # whatever the driver does about the refused fragment (give up, go on, send it again): two consecutive connected
        # messages never carry the same sequence count (C17)
        seqs = [struct.unpack_from("<H", f, 44)[0] for f in sess.sock.frames[f1:] if f[:2] == b"\x70\x00" and len(f) >= 46]
        for j in range(1, len(seqs)):
            if seqs[j] == seqs[j - 1]:
                ctx.violation("sequence-count-repeated", dict(case, frame_index=j),
                              "count %d on two consecutive connected messages after a refused fragment" % seqs[j])
                break
        t = res[0] if isinstance(res, list) else res
        mem, _ = sess.mem()
        sym = next(s_ for s_ in p["controller"] if s_.name == "big")
        held = mem.get((None, sym.inst))
        if t and held != bytes(value):
            diff = next((j for j, (a, b) in enumerate(zip(held, bytes(value))) if a != b), None)
            ctx.violation("write-reported-done-but-not-stored", case,
                          "Tag is truthy, the controller's memory differs from the value from byte %s on (fragment %d of %d never arrived)" % (diff, k, len(frag_idx)))
        sess.close()


def run(ctx, model):
    run_lost_fragment(ctx, model)
    from props import logixdrv
    logixdrv.run_writes(ctx, model, "C02")
    logixdrv.run_mixed(ctx, model, "C02")
    from props import kernels
    kernels.run_masks(ctx, model, "C02")
    kernels.run_boolwin(ctx, model, "C02")
    kernels.run_msgs(ctx, model, "C02")
    rng = ctx.rng
    n = ctx.budget(80, 900)
    for i in range(n):
        p = lg.gen_project(rng)
        if rng.random() < 0.15:
            p["micro800"] = True
        large = rng.random() < 0.6
        sess = lx.Session(model, p, conn_large=large)
        if sess.open_error is not None:
            sess.close()
            continue
        nreq = rng.choice([1, 1, 1, 2, 3, 5, 12, 30])
        cand = [r for r in (gen_write(rng, p) for _ in range(3 * nreq)) if r]
        # one call = requests with pairwise disjoint addressed ranges (overlapping writes in one call have no
        # defined order); the designed overlaps are added below: exact duplicates and several bits of one word
        reqs, taken = [], []
        for r in cand:
            sym, off, ln = addressed_range(r[2])
            if any(k == (sym.scope, sym.inst) and not (off + ln <= o or o + l <= off) for k, o, l in taken):
                continue
            taken.append(((sym.scope, sym.inst), off, ln))
            reqs.append(r)
            if len(reqs) >= nreq:
                break
        if reqs and rng.random() < 0.3:
            reqs.append(rng.choice(reqs))        # an exact duplicate (same tag, same value)
        # several bits of one word in one call
        if reqs and reqs[0][2][0] == "bit" and rng.random() < 0.7:
            tag0, _, d0 = reqs[0]
            base = tag0.rsplit(".", 1)[0]
            w = 8 * lg.ATOMIC[d0[1]][1]
            for b in rng.sample(range(w), min(3, w)):
                reqs.append(("%s.%d" % (base, b), rng.random() < 0.5, ("bit", d0[1], b, d0[3])))
        if not reqs:
            sess.close()
            continue
        before, _ = sess.mem()
        sess.log()
        case = {"seed": ctx.seed, "index": i, "project": lx.project_summary(p), "large_connection": large,
                "micro800": p.get("micro800", False), "writes": [(t, repr(v)[:80]) for t, v, _ in reqs]}
        n_frames0 = len(sess.sock.frames)
        try:
            res = core.with_budget(300, sess.d.write, *[(t, v) for t, v, _ in reqs])
        except BaseException as e:  # noqa
            if isinstance(e, (KeyboardInterrupt, SystemExit)):
                raise
            ctx.violation("write-raises:" + core.exn_class(e), case, repr(e)[:300])
            sess.close()
            continue
        res = res if isinstance(res, list) else [res]
        after, writes = sess.mem()
        ctx.case("writes", ("writes", i, tuple(t for t, _, _ in reqs)))
        # the addressed ranges of the requests that reported success; later writes to the same address win
        allowed = {}
        final = {}
        for (tag, v, desc), got in zip(reqs, res):
            ctx.count("shape/" + desc[0])
            ctx.count("result/" + ("ok" if got else "failed"))
            sym, off, ln = addressed_range(desc)
            key = (sym.scope, sym.inst)
            if got:
                allowed.setdefault(key, set()).update(range(off, off + ln))
                final[(key, desc[0], off, desc[1] if desc[0] in ("boolarr", "boolmember") else (desc[2] if desc[0] == "bit" else 0), tag)] = (desc, v, tag)
            else:
                ctx.count("failed/" + (got.error or "")[:40])
                # a failed write of an in-capacity value on a healthy controller is reported under C02 only as information;
                # (C03/C04 own "requests that can succeed do succeed"); here: conditional on success
        for key, (desc, v, tag) in final.items():
            sym, off, ln = addressed_range(desc)
            mem = after[(sym.scope, sym.inst)]
            now = value_now(desc, mem)
            want = canonical(desc, v)
            if not oracle_eq(want, now):
                ctx.violation("written-value-not-stored:" + desc[0], dict(case, tag=tag), "wrote %r, controller holds %r" % (repr(want)[:200], repr(now)[:200]))
        # frame condition: nothing outside the addressed ranges changed
        for key, b in before.items():
            a = after[key]
            if a == b:
                continue
            changed = [j for j in range(len(b)) if a[j] != b[j]]
            outside = [j for j in changed if j not in allowed.get(key, ())]
            if outside:
                ctx.violation("bytes-outside-addressed-range-changed", dict(case, symbol=key[1]), "byte offsets %s" % outside[:10])
        # bit writes: only the addressed bit(s) of a word may differ
        bit_reqs = {}
        for (tag, v, desc), got in zip(reqs, res):
            if desc[0] == "bit" and got:
                sym, off, ln = addressed_range(desc)
                bit_reqs.setdefault(((sym.scope, sym.inst), off, ln), set()).add(desc[2])
        for (key, off, ln), bits in bit_reqs.items():
            if any(d[0] != "bit" and addressed_range(d)[0].inst == key[1] for _, _, d in reqs):
                continue
            old = int.from_bytes(before[key][off:off + ln], "little")
            new = int.from_bytes(after[key][off:off + ln], "little")
            diff = old ^ new
            if diff & ~sum(1 << b for b in bits):
                ctx.violation("bit-write-changed-other-bits", dict(case, symbol=key[1]), "old %#x new %#x, written bits %s" % (old, new, sorted(bits)))
        # exactly once: no two executed write services cover the same bytes unless two requests addressed them
        seen = {}
        for (inst, off, ln) in writes:
            seen[(inst, off, ln)] = seen.get((inst, off, ln), 0) + 1
        for (inst, off, ln), cnt in seen.items():
            nreqs = sum(1 for (t, v, d), got in zip(reqs, res) if addressed_range(d)[0].inst == inst and
                        not (addressed_range(d)[1] + addressed_range(d)[2] <= off or off + ln <= addressed_range(d)[1]))
            if cnt > max(1, nreqs):
                ctx.violation("write-applied-more-than-once", dict(case, symbol=inst), "%d executions of the same write for %d requests" % (cnt, nreqs))
        # exactly once, at bit level: every Read-Modify-Write service the driver sent in this call touches some bits
        # (OR-mask bits set, AND-mask bits cleared); a bit of a path may be touched at most as often as requests of
        # the call name that bit number
        touched = {}
        for f in sess.sock.frames[n_frames0:]:
            if f[:2] != b"\x70\x00" or len(f) < 48 or f[46] != 0x4E:
                continue
            words = f[47]
            path = f[48:48 + 2 * words]
            d = f[48 + 2 * words:]
            if len(d) < 2:
                continue
            size = int.from_bytes(d[:2], "little")
            orm = int.from_bytes(d[2:2 + size], "little")
            andm = int.from_bytes(d[2 + size:2 + 2 * size], "little")
            for b in range(8 * size):
                if orm >> b & 1 or not andm >> b & 1:
                    touched[(path, b)] = touched.get((path, b), 0) + 1
        named = {}
        for (t, v, d) in reqs:
            b = None
            if d[0] == "bit":
                b = d[2]
            elif d[0] == "boolarr" and d[2] == 1:
                b = d[1] % 32                     # one element of a BOOL array = one bit of its 32-bit word
            elif d[0] == "boolmember":
                b = d[1]                          # packed BOOL member = that bit of its host
            elif d[0] == "dwordmember":
                b = 0
            if b is not None:
                named[b] = named.get(b, 0) + 1
        for (path, b), cnt in touched.items():
            if cnt > max(1, named.get(b, 0)):
                ctx.violation("bit-write-applied-more-than-once", dict(case, path=path.hex(), bit=b),
                              "bit %d of path %s was written by %d Read-Modify-Write services, %d request(s) name that bit" % (b, path.hex(), cnt, named.get(b, 0)))
                break
        if i < 3:
            ctx.sample({"writes": case["writes"][:5], "results": [lx.tag_summary(t) for t in res[:5]]})
        sess.close()


def replay(ctx, model, data):
    c = core.Ctx("C02", data.get("tier", "quick"), data.get("seed", 0))
    run(c, model)
    return any(v["sig"] == data["sig"] for v in c.violations)
